#!/bin/sh
# usage: tools_seed_sweep.sh <out> <tier> <seed>...  -- every check with other seeds (false-alarm hunt); evidence is re-written, run tools_run_all.sh last
out=$1; tier=$2; shift 2; : > $out
cd /verif
for seed in "$@"; do
  for p in C01 C02 C03 C04 C05 C06 C07 C08 C09 C10 C11 C12 C13 C14 C15 C16 C17 C18 C19 C20; do
    VERIF_SEED=$seed ./check $p $tier > /tmp/seed_$p.log 2>&1; rc=$?
    echo "seed=$seed $p rc=$rc $(grep -E "$p $tier:" /tmp/seed_$p.log | cut -c1-160) $(grep -c VIOLATION /tmp/seed_$p.log) violations" >> $out
    if [ $rc -ne 0 ]; then cp /tmp/seed_$p.log /tmp/seedfail_${seed}_$p.log; fi
  done
done
