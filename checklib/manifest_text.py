NOTES = ("Every check is ./check <id> <tier>: regenerate Gen/*.v from /repo, full Coq build of the property's closure, "
         "count Print Assumptions under each property theorem, correspondence (model vs Go library) on generated cases with "
         "the extracted runner and an in-kernel vm_compute slice, property oracle on the implementation for the violation search. "
         "See DESIGN.md.")

PENDING = "check not built yet in this session (construction order: DESIGN.md section 9); it will be claimed once its model, theorems and correspondence exist"
NOT_APPLICABLE = {("C%02d" % i): PENDING for i in range(1, 21)}

TEXT = {
    "C05": {
        "text": "Set/IsSet agreement inside the current size, minimal auto-expansion with exactly the continuation bits it must set and nothing else changed, "
                "the fixed-bitmap no-op, exact consumption of the continuation-bit chain by Unpack (binary and hex, any trailing bytes) and termination of the unpack loop are "
                "theorems for every block size B >= 1 and every index; the bitmap model (including the state a failed Unpack leaves behind and the panics of malformed states) "
                "is compared with field.Bitmap on exhaustive single indices, pairs, packed bitmaps and operation histories for B = 1..16.",
        "design_ref": "DESIGN.md section 6 C05",
        "note": "Trusted: Coq kernel, hand-written model of field/bitmap.go (validated by correspondence), extraction/driver, Go harness and its independent reference bit set. Message-level clauses are added with the message model.",
        "technique": "Rocq theorems over a Gallina model + differential correspondence",
    },
    "C16": {
        "text": "Write/read round trip for every representable length and every fragmentation of the stream (io.ReadFull is modelled over an arbitrary list of chunks), "
                "the documented format of each header, refusal of every unrepresentable length and safety of ReadFrom on arbitrary bytes with early end are "
                "theorems about the model of network/*.go; model and library are compared on all lengths -2..70000, all two-byte contents and all split points.",
        "design_ref": "DESIGN.md section 6 C16",
        "note": "Trusted: Coq kernel, hand-written model of network/*.go and of io.ReadFull over chunked readers (validated by correspondence), extraction/driver, Go harness.",
        "technique": "Rocq theorems over a Gallina model + differential correspondence",
    },
    "C06": {
        "text": "Round trip with exact width, alphabet and arbitrary trailing bytes, 'EncodeLength fails iff', the decode bounds, exact read and rejection of short / "
                "non-numeral prefixes are theorems for all six families with any positive digit count, the fixed prefixers and BerTLV, for every Go int n >= 0 "
                "(no bound on n below 2^63); the registry theorem ties the 43+1 exported objects (regenerated from the library) to the model's prefixers; "
                "model and library are run side by side on exhaustive small lengths, all boundaries, all short prefix strings and BER long forms.",
        "design_ref": "DESIGN.md section 6 C06",
        "note": "Trusted: Coq kernel, hand-written model of prefix/*.go incl. the strconv/fmt/big.Int behaviour it uses (validated by correspondence), translator for the registry, extraction/driver, Go harness.",
        "technique": "Rocq theorems over a Gallina model + generated registry + differential correspondence",
    },
    "C07": {
        "text": "Round trip with arbitrary trailing bytes for all nine encoders and every in-domain value, the nibble layout of BCD/LBCD, upper-case hex, "
                "bijectivity of the EBCDIC tables and their agreement with hand-entered CP500/CP1047 reference points, the BER tag continuation rule "
                "(accepts exactly well-formed tags), rejection of negative/short input and soundness of accepted decodes are theorems about the model; "
                "the EBCDIC tables the theorems speak about are regenerated from the source on every run, and the model is run against the Go encoders "
                "on exhaustive small and random large inputs.",
        "design_ref": "DESIGN.md section 6 C07",
        "note": "Trusted: Coq kernel, hand-written model of encoding/*.go incl. the third-party BCD codec and CP1047 charmap (validated by correspondence), translator dump of the tables, extraction/driver, Go harness.",
        "technique": "Rocq theorems over a Gallina model + generated tables + differential correspondence",
    },
    "C20": {
        "text": "The padding laws are theorems (for every pad byte, value and target length, no bound) about the Gallina model of padding/*.go, "
                "including an explicit model of append into the caller's spare capacity; the model is tied to the Go padders by running both on the same "
                "exhaustive small-alphabet cases and random values with sentinel-filled spare capacity.",
        "design_ref": "DESIGN.md section 6 C20",
        "note": "Trusted: Coq kernel, the hand-written model (validated by correspondence on every run), extraction + OCaml driver for the bulk comparison, the Go harness. Pad characters are single bytes < 0x80.",
        "technique": "Rocq theorems over a Gallina model + differential correspondence with the Go code",
    },
}
