NOTES = ("Every check is ./check <id> <tier>: regenerate Gen/*.v from /repo, full Coq build of the property's closure, "
         "count Print Assumptions under each property theorem, correspondence (model vs Go library) on generated cases with "
         "the extracted runner and an in-kernel vm_compute slice, property oracle on the implementation for the violation search. "
         "See DESIGN.md.")

PENDING = "check not built yet in this session (construction order: DESIGN.md section 9); it will be claimed once its model, theorems and correspondence exist"
NOT_APPLICABLE = {("C%02d" % i): PENDING for i in range(1, 21)}

TEXT = {
    "C11": {
        "text": "Proved: for the documented cells of the kind x Go type matrix Marshal followed by Unmarshal returns the value in canonical form; zero-valued fields without keepzero leave the message untouched; Unmarshal leaves struct fields of absent message fields untouched; whole structs over the MTI and primitive data elements (any tag style, distinct ids) come back with every non-zero field unchanged and every other field zero, directly and after Pack and Unpack into another message object; nested structs to any depth through Composite.Marshal / Composite.Unmarshal (induction over the depth) and through Message.Marshal / Message.Unmarshal for composite data elements; the plain []byte target is refuted (F14, recorded finding). The model of the reflection loops, tag resolution and type switches is compared with the library over the whole matrix with struct types built at run time, nested to depth 3, and the oracle checks presence and the round trip directly and via Pack/Unpack; what a keepzero zero field reads back as is proved for every documented cell (the zero value, a pointer to it for pointer targets, \"0\" in a string target of a Numeric field; re-marshalling it gives the same field state).",
        "design_ref": "DESIGN.md section 6 C11",
        "note": "Trusted: Coq kernel, hand-written model of the Marshal/Unmarshal reflection (validated by correspondence), reflect.StructOf-based harness.",
        "technique": "Rocq theorems over a Gallina model + differential correspondence + property oracle",
    },
    "C17": {
        "text": "Proved: ImportJSON is total on every parsed document (error or spec, never a panic), the encoding / prefix name tables are mutually inverse on the exportable vocabulary and agree with the live maps regenerated from specs/builder.go, padding descriptions import back to the same padder; ImportJSON of the exported document is the specification itself for every field tree of the expressible vocabulary at any nesting depth within the importer's recursion and for whole message specifications, the imported rows determine the specification, so the re-imported specification is the exported one (same Pack / Unpack, identical re-export); the shipped specifications the format can express (all but the EMV composite) export to a document whose import is the specification itself (evaluated in the kernel on the regenerated specs). The model of export and import is compared with the library on generated specs (exported document as a canonical tree, imported spec as a term), on the same specs with tag lengths left out, and on mutated documents; the oracle checks the structural round trip, byte-identical re-export, determinism and identical behaviour on the real library.",
        "design_ref": "DESIGN.md section 6 C17",
        "note": "Trusted: Coq kernel, hand-written model of specs/builder.go on parsed documents (validated by correspondence), the table translator, encoding/json's parser, Go harness.",
        "technique": "Rocq theorems over a Gallina model + generated name tables + differential correspondence + property oracle",
    },
    "C18": {
        "text": "The catalogue theorem is evaluated on the error-site table regenerated from the sources on every run: outside a closed, justified list of sites bounded below 8 value bytes, no error message formats a value-derived string unless hidden behind a SafeError, and every error that quotes its input (strconv, hex, json) is hidden or bounded. The Describe masking theorems show the printed value never contains the complete PAN / PIN block, and the filters of Track1, Track2 and Track3 fields show every packable well-formed track with the PAN masked and nothing else changed; a track the field cannot parse again is shown by its first and last four characters (repair of F31, found by the thorough tier), and every output of a track filter is one of these two forms - never the raw text; String fields that carry track data (as fields 35 / 36 / 45 of the shipped specs) are modelled as well and shown exactly as the track field would be. The dynamic oracle induces failures with high-entropy secrets across kinds, encodings and operations and greps the library's error texts and Describe output (partial: the translator's classification is syntactic).",
        "design_ref": "DESIGN.md section 6 C18",
        "note": "Trusted: Coq kernel, the go/ast error-site translator and its argument classes, hand-written masking model validated by correspondence through the real Describe, Go harness.",
        "technique": "Rocq theorems over a generated error-site catalogue and a masking model + secret-grepping oracle",
    },
    "C13": {
        "text": "Generic theorems about a small-step lock machine (any number of threads, any programs, any schedule): when every method is well locked, every access to guarded state is made by the mutex holder (race freedom, atomicity of invocations in acquisition order) and some thread can always progress (deadlock freedom). The instance theorem evaluates well-lockedness on the lock summary regenerated from message.go / field/composite.go by a go/ast translator on every run, for exactly the operations the property lists. The runtime side (memory model, scheduler, map fault detection) is not modelled: -race stress runs cross-check the translator and check that every Pack output decodes to written values (partial).",
        "design_ref": "DESIGN.md section 6 C13",
        "note": "Trusted: Coq kernel, the syntactic lock/access translator, the Go race detector for the cross-check. The lock machine abstracts each guarded access as one atomic step.",
        "technique": "Rocq theorems over a lock machine + source translator (go/ast) + race-detector stress run",
    },
    "C12": {
        "text": "Proved: MarshalJSON succeeds exactly when Pack does, every object lists its keys in the StringsByInt order of its key set regardless of map order, and the message object's keys are the presence set; the emitted text is valid JSON (RFC 8259 grammar as an inductive predicate) for every string value whatever its bytes, every nesting of composites with plain-text tags and every message; the text is the rendering of the state's document, and UnmarshalJSON of that document into a new field / message of the same specification gives the state back (same primitives, same set subfields and contents at every depth, same MTI, bitmap field, populated set and element contents). The JSON text itself is compared byte for byte with the library on histories with arbitrary byte values; that encoding/json parses the text to that document is Go's library: json.Valid, key order, the decode round trip and identical re-pack are checked by the oracle on the library.",
        "design_ref": "DESIGN.md section 6 C12",
        "note": 'Trusted: Coq kernel, hand-written model (Model/Message.v, Model/Json.v, Model/MessageOps.v) validated by correspondence on every run, extraction/driver, Go harness and property oracle.',
        "technique": "Rocq theorems over a Gallina model + differential correspondence + property oracle",
    },
    "C14": {
        "text": "Theorems quantified over every message state (hence every point of every operation sequence): the bits of the packed bitmap (auto-expanding or fixed), continuation bits aside, are exactly the ids GetFields reports; JSON is built from the same set and succeeds iff Pack does; Pack/JSON do not change values or the set; the set per operation: a setter adds exactly its id, Marshal of a struct adds exactly the ids of its non-zero indexed fields (for nested structs: at every depth of a composite exactly the tags of the non-zero tagged fields are populated and every other subfield is as new), UnsetField removes exactly its id and resets the whole nested state, UnsetSubfields by path (any depth) leaves nothing populated at the path, an as-new object there and every other path as it was, a successful Unpack of any bytes leaves the MTI, the bitmap and exactly the announced elements, UnmarshalJSON adds exactly the keys of the accepted document (messages, and composites at any depth), what Unmarshal copies out is a function of the populated set and the content of the populated elements; over histories: after any operation sequence every data element outside the populated set is exactly as in a new message, so nothing can come back. The model of all operations is compared with the library after every step of random and exhaustive short histories; the oracle keeps a reference set (written since creation or the last Unpack, minus unset) and checks - in a quiet replay that performs only the history's operations - that nothing that was unset, replaced by an Unpack, or decoded by a failed Unpack ever comes back (this found and led to the repair of F28 and F30); a separate check marshals structs that fail at their second subfield and shows that nothing of the failed write comes back when the element is populated again (the repair of F32).",
        "design_ref": "DESIGN.md section 6 C14",
        "note": 'Trusted: Coq kernel, hand-written model (Model/Message.v, Model/Json.v, Model/MessageOps.v) validated by correspondence on every run, extraction/driver, Go harness and property oracle.',
        "technique": "Rocq theorems over a Gallina model + differential correspondence + property oracle",
    },
    "C15": {
        "text": 'Proved: Pack walks the unique ascending arrangement of the presence set whatever the map order (likewise subfield tags), Pack/JSON are pure on values and presence and repeatable (packing the object a Pack leaves behind gives the same bytes or the same failure and the same object), padders and encoders build results in fresh buffers. Pointer-level claims (clone shares no state, no write to caller memory) cannot be expressed in the functional model and are checked by the oracle on the library by mutating both sides and by sentinel-filled spare capacity (partial).',
        "design_ref": "DESIGN.md section 6 C15",
        "note": 'Trusted: Coq kernel, hand-written model (Model/Message.v, Model/Json.v, Model/MessageOps.v) validated by correspondence on every run, extraction/driver, Go harness and property oracle.',
        "technique": "Rocq theorems over a Gallina model + differential correspondence + property oracle",
    },
    "C01": {
        "text": "Round trip is a theorem at every level of the model: for every primitive field (all encodings, the 43 prefixers, paddings; the domain is the weakest one the round trip needs); by induction over the specification for every nested field specification whose composites are tagged (TLV / BER), positional or bitmapped - same content, exact consumption with arbitrary trailing bytes, arbitrary prior state of the object, identical re-pack; for whole messages with an auto-expanding bitmap of any number of blocks or a fixed bitmap (same MTI, bitmap, populated set and content; identical re-pack); and for Track1 / Track2 / Track3 fields (rendering, the three regular expressions as deterministic matchers, trimming, the expiry check). The five shipped specifications, regenerated from the library's spec objects on every run, are proved coherent by a sound decision procedure, so the theorems apply to them.",
        "design_ref": "DESIGN.md section 6 C01",
        "note": 'Trusted: Coq kernel, hand-written model (Model/Field.v, Model/Message.v) validated by correspondence on every run, extraction/driver, Go harness incl. the spec/value generators and the property oracle.',
        "technique": "Rocq theorems over a Gallina model + differential correspondence + property oracle",
    },
    "C02": {
        "text": "Proved: whatever a primitive field accepts ends in the domain of the round trip and packs, so the re-packed bytes are accepted again (with anything after them, into any object), give the same value and re-pack to themselves - for every coherent primitive specification that is accept_ok (decoded text is what the encoder encodes, pad character in the encoder's alphabet, maximum expressible in the prefix digits, Numeric fields with a way to restore their width); whatever a message accepts lies in the domain of the message round trip, re-packs, and the re-packed bytes decode to the same MTI, bitmap, element set and contents and re-pack to themselves, for every coherent message specification whose field specifications are accepting (all primitive fields are); every primitive data element of the five shipped specifications is accepting (sound decision procedure, re-run on every run). For every nested specification (composites of all three modes, any depth) what a field or a message accepts, if it packs, lies in the domain, so re-encoding is a fixed point; all data elements of the shipped specifications, composites included, satisfy the condition. EBCDIC1047 text fields are refuted with a witness, a recorded finding (F26). That Pack of an accepted composite succeeds (a re-packed subfield can outgrow a tight composite maximum) is checked by the oracle on mutated encodings over generated specs only.",
        "design_ref": "DESIGN.md section 6 C02",
        "note": 'Trusted: Coq kernel, hand-written model (Model/Field.v, Model/Message.v) validated by correspondence on every run, extraction/driver, Go harness incl. the spec/value generators and the property oracle.',
        "technique": "Rocq theorems over a Gallina model + differential correspondence + property oracle",
    },
    "C03": {
        "text": "The layout is a theorem for every primitive field (prefix of exact width and alphabet announcing the padded unit count, then the encoded padded value), for every tagged or positional composite (prefix, then exactly the set subfields in the spec's sort order, each preceded by its encoded tag when tags travel), for every bitmapped composite (prefix, bitmap whose bit n is set iff subfield n is set, then the set subfields in id order) and for every message with an auto-expanding or a fixed bitmap (MTI, bitmap of k blocks whose first bit is set iff another block follows and whose other bits are exactly the populated elements, then the populated elements in strictly ascending order); conversely such bytes unpack to the values (C01). An independent reference encoder written from the property text is compared with the library on every generated case as a cross-check.",
        "design_ref": "DESIGN.md section 6 C03",
        "note": 'Trusted: Coq kernel, hand-written model (Model/Field.v, Model/Message.v) validated by correspondence on every run, extraction/driver, Go harness incl. the spec/value generators and the property oracle. harness/reflayout.go is the reference codec for composites and messages.',
        "technique": "Rocq theorems over a Gallina model + differential correspondence + property oracle",
    },
    "C04": {
        "text": "All leaf decoders and every primitive Unpack are proved total (Ok or Err, the model's panic primitives unreachable), reads are proved bounded by the input, what a decoder returns is at most twice and what a primitive field holds at most four times the bytes consumed, and what a whole field tree or a whole message holds after an accepted Unpack (every populated primitive at every depth) is at most four times the bytes consumed - announced lengths never enter the bound, and the shipped specs satisfy its hypotheses -, the bitmap loop is proved to terminate within its fuel; every field (any nesting, all three composite modes), every message over well-formed specs and every track field (Unpack and SetBytes) returns a count or an error for every byte string - the model's Panic and out-of-fuel outcomes are unreachable - and the shipped specs are well-formed. The model is compared with the library (each run in a child process under ulimit -v and a timeout) on mutated, truncated and adversarial inputs. Wall-clock time and the allocator's behaviour are measured, not proved (partial).",
        "design_ref": "DESIGN.md section 6 C04",
        "note": 'Trusted: Coq kernel, hand-written model (Model/Field.v, Model/Message.v) validated by correspondence on every run, extraction/driver, Go harness incl. the spec/value generators and the property oracle.',
        "technique": "Rocq theorems over a Gallina model + differential correspondence + property oracle",
    },
    "C08": {
        "text": 'Theorems: Pack of a primitive or of a composite (at the root of any spec tree) succeeds only if the (padded) value / total encoded length is within the maximum, equals the fixed length and fits the digits; an accepted Unpack has an announced length within the maximum and within the bytes available; for whole specification trees: when Pack of a field of any coherent specification succeeds, the declared length was enforced at every node that contributed bytes, at every depth, likewise for every populated data element of a packed message; on the Unpack side everything a successful Unpack of a field or message leaves populated, at every depth, was itself produced by a successful Unpack of its own specification, so the per-node statements about announced lengths hold at every node.',
        "design_ref": "DESIGN.md section 6 C08",
        "note": 'Trusted: Coq kernel, hand-written model (Model/Field.v, Model/Message.v) validated by correspondence on every run, extraction/driver, Go harness incl. the spec/value generators and the property oracle.',
        "technique": "Rocq theorems over a Gallina model + differential correspondence + property oracle",
    },
    "C09": {
        "text": "Proved: the sort model returns the unique sorted permutation for every strict total order (so Pack's order is independent of map order) and composite Unpack consumes exactly the announced length. Permutation invariance, exact skipping and unknown-tag naming are checked on all permutations of up to 4 (6) elements and unknown elements at every position against the library and the model; their theorems over the TLV loop are not yet proved (partial).",
        "design_ref": "DESIGN.md section 6 C09",
        "note": 'Trusted: Coq kernel, hand-written model (Model/Field.v, Model/Message.v) validated by correspondence on every run, extraction/driver, Go harness incl. the spec/value generators and the property oracle.',
        "technique": "Rocq theorems over a Gallina model + differential correspondence + property oracle",
    },
    "C10": {
        "text": "Proved for primitive fields, for every composite field (any nesting, all modes) and for whole messages: the outcome of Unpack does not depend on what the object held, and after a successful Unpack neither does the complete state of the object (hence values, nested subfields, re-packed bytes, JSON), for objects in a clean state (every subfield / element that is not set is as new; the element at which the last Unpack failed excepted). Clean is proved to hold for new objects and to be kept by Unpack (whatever its outcome), UnsetField, the setters by id, Message.Marshal of any struct (whatever its outcome), every accepted UnmarshalJSON and UnsetFields by path; failing JSON documents (state depends on Go's map order) are not claimed. Over histories: after any sequence of the state-changing operations of the message API (setters, unset by id and path, Unpack / Marshal whatever their outcome, accepted JSON, Pack, MarshalJSON, Bitmap, Clone) Unpack of any bytes behaves as on a new message. Track fields: the outcome of Unpack does not depend on what the object held, and after an accepted Unpack neither do its components (FixedLength, which Unpack never touches, aside). Composite objects used on their own: after any history of the composite API Unpack behaves as on a new composite. This rests on the repairs F12, F13, F27, F28, F29, F30, F32, all found by the checks (F32 while proving the composite histories: a write that failed part way left subfields in a field that was not set).",
        "design_ref": "DESIGN.md section 6 C10",
        "note": 'Trusted: Coq kernel, hand-written model (Model/Field.v, Model/Message.v) validated by correspondence on every run, extraction/driver, Go harness incl. the spec/value generators and the property oracle.',
        "technique": "Rocq theorems over a Gallina model + differential correspondence + property oracle",
    },
    "C19": {
        "text": "Proved: every Unpack failure of the message model carries a non-empty field-id path headed by the element at which decoding stopped (MTI 0, bitmap 1, else an announced element at or after the loop position); inside composites the path continues with the tag of the failing subfield and a path of that subfield's specification, at every depth and in all three modes; truncation: any field (primitive or composite of any mode and depth) cut strictly inside its packed bytes is rejected as its own failure with the object left as it was, and a packed message cut at any offset is reported against exactly the element - MTI, bitmap, data element k - that owns the byte at that offset, and the elements before it remain readable (the object holds the MTI and every preceding data element, populated, equivalent to what was packed). The truncation clause is also checked on every truncation offset of generated messages (owner computed independently from element lengths); typing: the shape of the wrapping glue is regenerated from message.go / field/composite.go on every run (go/ast) and C19_typed shows that Pack returns nil or a *PackError wrapping the core error, Unpack nil or an *UnpackError with the core error, the id the core loop returned (the numeral of the element being decoded) and the input itself as raw message; what errors.As and FieldIDs() make of it is checked on the library (partial).",
        "design_ref": "DESIGN.md section 6 C19",
        "note": 'Trusted: Coq kernel, hand-written model (Model/Field.v, Model/Message.v) validated by correspondence on every run, extraction/driver, Go harness incl. the spec/value generators and the property oracle.',
        "technique": "Rocq theorems over a Gallina model + differential correspondence + property oracle",
    },
    "C05": {
        "text": "Set/IsSet agreement inside the current size, minimal auto-expansion with exactly the continuation bits it must set and nothing else changed, "
                "the fixed-bitmap no-op, exact consumption of the continuation-bit chain by Unpack (binary and hex, any trailing bytes) and termination of the unpack loop are "
                "theorems for every block size B >= 1 and every index (a specification written with Length 0 is the default block of 8 bytes, in the model as in field.NewBitmap, and half of the generated 8-byte message bitmaps are written that way); the bitmap model (including the state a failed Unpack leaves behind and the panics of malformed states) "
                "is compared with field.Bitmap on exhaustive single indices, pairs, packed bitmaps and operation histories for B = 1..16. Message level: the oracle reads the bitmap off the packed bytes independently and compares it with the present elements, checks minimality and that unrepresentable elements make Pack fail (F25 is a recorded finding).",
        "design_ref": "DESIGN.md section 6 C05",
        "note": "Trusted: Coq kernel, hand-written model of field/bitmap.go (validated by correspondence), extraction/driver, Go harness and its independent reference bit set. Message-level clauses are added with the message model.",
        "technique": "Rocq theorems over a Gallina model + differential correspondence",
    },
    "C16": {
        "text": "Write/read round trip for every representable length and every fragmentation of the stream (io.ReadFull is modelled over an arbitrary list of chunks), "
                "the documented format of each header, refusal of every unrepresentable length and safety of ReadFrom on arbitrary bytes with early end are "
                "theorems about the model of network/*.go; model and library are compared on all lengths -2..70000, all two-byte contents and all split points.",
        "design_ref": "DESIGN.md section 6 C16",
        "note": "Trusted: Coq kernel, hand-written model of network/*.go and of io.ReadFull over chunked readers (validated by correspondence), extraction/driver, Go harness.",
        "technique": "Rocq theorems over a Gallina model + differential correspondence",
    },
    "C06": {
        "text": "Round trip with exact width, alphabet and arbitrary trailing bytes, 'EncodeLength fails iff', the decode bounds, exact read and rejection of short / "
                "non-numeral prefixes are theorems for all six families with any positive digit count, the fixed prefixers and BerTLV, for every Go int n >= 0 "
                "(no bound on n below 2^63); the registry theorem ties the 43+1 exported objects (regenerated from the library) to the model's prefixers; "
                "model and library are run side by side on exhaustive small lengths, all boundaries, all short prefix strings and BER long forms.",
        "design_ref": "DESIGN.md section 6 C06",
        "note": "Trusted: Coq kernel, hand-written model of prefix/*.go incl. the strconv/fmt/big.Int behaviour it uses (validated by correspondence), translator for the registry, extraction/driver, Go harness.",
        "technique": "Rocq theorems over a Gallina model + generated registry + differential correspondence",
    },
    "C07": {
        "text": "Round trip with arbitrary trailing bytes for all nine encoders and every in-domain value, the nibble layout of BCD/LBCD, upper-case hex, "
                "bijectivity of the EBCDIC tables and their agreement with hand-entered CP500/CP1047 reference points, the BER tag continuation rule "
                "(accepts exactly well-formed tags), rejection of negative/short input and soundness of accepted decodes are theorems about the model; "
                "the EBCDIC tables the theorems speak about are regenerated from the source on every run, and the model is run against the Go encoders "
                "on exhaustive small and random large inputs.",
        "design_ref": "DESIGN.md section 6 C07",
        "note": "Trusted: Coq kernel, hand-written model of encoding/*.go incl. the third-party BCD codec and CP1047 charmap (validated by correspondence), translator dump of the tables, extraction/driver, Go harness.",
        "technique": "Rocq theorems over a Gallina model + generated tables + differential correspondence",
    },
    "C20": {
        "text": "The padding laws are theorems (for every pad byte, value and target length, no bound) about the Gallina model of padding/*.go, "
                "including an explicit model of append into the caller's spare capacity; the model is tied to the Go padders by running both on the same "
                "exhaustive small-alphabet cases and random values with sentinel-filled spare capacity.",
        "design_ref": "DESIGN.md section 6 C20",
        "note": "Trusted: Coq kernel, the hand-written model (validated by correspondence on every run), extraction + OCaml driver for the bulk comparison, the Go harness. Pad characters are single bytes < 0x80.",
        "technique": "Rocq theorems over a Gallina model + differential correspondence with the Go code",
    },
}
