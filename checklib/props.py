"""Per-property configuration of ./check: correspondence topics, non-triviality rule, trusted base."""

COMMON_TB = [
    "Coq 8.16.1 kernel (coqc); vm_compute used for finite facts and the in-kernel correspondence slice; native_compute not used",
    "hand-written Gallina implementation model (coq/Model), tied to /repo by the correspondence check on every run",
    "extraction to OCaml with ExtrOcamlBasic only (no Extract Constant), ocamlfind ocamlopt 4.13.1, runner/driver.ml (bulk correspondence only)",
    "Go harness (harness/): case generators, executors and property oracle",
]


from extras import c13_extra


def ok_value(case, impl):
    return not (impl.startswith("err") or impl.startswith("panic") or impl in ("crash", "hang", "badcase"))


FLD_MSG_RULE = ("field histories over generated coherent specs: every cell kind x encoding x 43 prefixers x padding at boundary lengths 0,1,max-1,max "
                "(and max+1, where Pack must fail), random primitives with large lengths, composites of all four modes nested to depth 3 (2 values each), "
                "each with pack, round trip with trailing bytes, re-pack and 1-4 mutated encodings; message histories over bitmaps with 1..16-byte blocks in both "
                "expansion modes and boundary field numbers: populate, pack, unpack fresh and used, unset, mutants, truncation; the same composite object used twice "
                "and tagged bodies in which every element occurs twice")

TRK_RULE = ("; track fields: 400 (thorough 8000) x Track1/2/3 over 6 encodings x 7 prefix families x LL/LLL/L, default and track2 packer, well-formed components (3 in 4) and "
            "malformed ones (long PAN, '?', white space, bad separator, absent expiry/service code, FixedLength): populate-pack-String-filter-observe, round trip with "
            "trailing bytes, mutated bytes, the same object used twice (also with an empty track), SetBytes with impossible months; "
            "wire inputs whose track text is not plain ASCII are left out (the track model counts bytes and trims ASCII white space)")



def nt_ok(c, i):
    return i != "panic" and " ok x" in (" " + i) and "(C" in c or "ok x" in i


MODEL_TB = COMMON_TB + ["modelled, validated by correspondence: field/packer_unpacker.go, field/{string,numeric,binary,hex}.go, field/composite.go, message.go "
                        "(Pack/Unpack/setters/GetFields/UnsetField) incl. the partial state a failed Unpack leaves behind and UnpackError field-id paths",
                        "spec and value terms are built into library objects by harness/specterm.go (reflect.StructOf + Marshal for subfield population)"]

HIST_RULE = ("message histories: 1200 (thorough 30000) random histories of 2..8 operations over generated specs (set MTI, set by id, populate by value, "
             "JSON decode, Unpack of another packed message of the same spec, unset by id, unset by path, Pack, JSON encode, Clone continuing on the clone / on the "
             "original, Bitmap), observed after every step, plus all sequences up to length 3 (thorough 5) over a 14-letter alphabet on a fixed spec with a BER-TLV "
             "composite and a tagged composite nesting a positional one")

PROPS = {
    "C11": {
        "topics": ["marshal"],
        "nontrivial": lambda c, i: i.startswith("ok") and i.count("ok") >= 3,
        "rule": "the whole matrix field kind (String, Numeric, Binary, Hex) x 12 Go types (string, int, int64, []byte, pointers to these, the four library field types) x zero / non-zero x keepzero x "
                "tag style (index, iso8583, both, F<n> name), 2 (thorough 30) values each on single-field messages, plus 300 (thorough 6000) generated message specs with one struct covering the "
                "message, composites as pointers to nested structs to depth 3 built with reflect.StructOf; each case: Marshal into a fresh message, present set, Pack, Unmarshal into the zero value; "
                "the oracle checks presence rules and the round trip directly and via Pack/Unpack for structs of documented types; non-trivial = distinct case that marshals, packs and unmarshals",
        "trusted_base": MODEL_TB + ["modelled, validated by correspondence: the reflect-based loops of Message/Composite Marshal and Unmarshal, field/index_tag.go, the per-kind type switches"],
        "assumptions": ["integers are Go ints (|z| < 2^63); nil and empty byte slices are not distinguished"],
    },
    "C17": {
        "topics": ["specjson"],
        "nontrivial": lambda c, i: i.startswith("ok"),
        "rule": "500 (thorough 10000) generated message specs, 4 of 5 drawn from the exportable vocabulary (String/Numeric/Binary leaves, the 27 named prefixes, 7 encodings, "
                "Left/Right/no padding, StringsByInt/StringsByHex, nested tagged / positional / bitmapped composites): export; the exported document re-imported; 6 mutants of each "
                "document (dropped / renamed keys, wrong JSON types, null members, unknown names, empty objects, negative lengths) imported; plus hand-written minimal documents; "
                "the oracle checks spec equality, byte-identical re-export, determinism, identical pack/unpack behaviour under both specs, and NewMessage+Pack on every returned spec; "
                "non-trivial = distinct case on which the library returns a document / a spec",
        "trusted_base": MODEL_TB + ["translator: Gen/BuilderTables.v dumps the live name maps of specs/builder.go; harness/topic_specjson.go turns library spec objects back into terms by reflection",
                                     "encoding/json's parser (documents reach the model as parsed trees)"],
        "assumptions": ["spec documents nested at most 8 levels deep (the model's fuel)", "key matching in encoding/json is case-insensitive: generated documents use the exact key names"],
    },
    "C18": {
        "topics": ["leak", "trk"],
        "nontrivial": lambda c, i: "c18" in c or (c.startswith("(desc") and len(c) > 30),
        "rule": "Describe masking through the real Describe on the shipped specs for 600 (thorough 12000) PAN / PIN-block values of every length 0..24; 400 (thorough 8000) generated "
                "message specs, each with a high-entropy 12-19 character secret: set correct and with one corrupted character, packed, JSON-encoded, spliced into valid wire "
                "messages at random offsets / in front, mutated, sent as JSON with wrong types, unmarshalled into int/int64/string/[]byte and pointer targets, marshalled under "
                "wrong types; the oracle greps every error text and Describe output of the library for the secret; non-trivial = distinct secret-bearing case" + TRK_RULE,
        "trusted_base": MODEL_TB + ["translator: Gen/ErrorSites.v is a syntactic (go/ast) catalogue of error construction sites and of quoting-error flows; its argument classification is trusted and cross-checked by the dynamic secret search"],
        "assumptions": ["track fields and their filters are modelled on ASCII data (strings.TrimSpace on Unicode white space is not modelled)",
                        "spec import/export errors (specs/) speak about spec documents, not message contents"],
    },
    "C13": {
        "topics": [],
        "extra": c13_extra,
        "nontrivial": lambda c, i: True,
        "rule": "proof obligations over the generated lock summary, cross-checked by -race stress runs: 2/4/8 (thorough up to 16) goroutines x 1500..4000 (thorough 10000..50000) "
                "random operations each over the 14 Message and 13 Composite operations of the property on one shared message and one shared composite; "
                "evaluations = operations issued; non-trivial = Pack results collected and checked to decode to written values",
        "trusted_base": COMMON_TB[:1] + ["translator: Gen/Locks.v is produced by a purely syntactic go/ast analysis (lock pattern, guarded-field accesses, same-receiver calls, transitive closure through non-locking helpers, foreign accesses) - trusted, cross-checked by the race detector",
                                          "Go race detector (go build -race) and scheduler for the stress runs"],
        "assumptions": ["the Go memory model, the runtime's concurrent-map fault detection and the scheduler are not modelled",
                        "GetString/GetBytes/GetField/GetMTI read the field map without the lock: they are not among the operations the property lists"],
    },
    "C12": {
        "topics": ["hist", "msg"],
        "nontrivial": lambda c, i: "(json)" in c and " ok x7b" in (" " + i),
        "rule": HIST_RULE + "; plus the populate/pack/unpack histories of C01; non-trivial = distinct history whose JSON encoding succeeds",
        "trusted_base": MODEL_TB + ["modelled, validated by byte-for-byte correspondence: encoding/json string escaping (HTML escaping on, invalid UTF-8 -> U+FFFD), OrderedMap; encoding/json's parser is trusted for the decode direction"],
        "assumptions": ["textual values are valid UTF-8 (JSON's own domain)"],
    },
    "C14": {
        "topics": ["hist"],
        "nontrivial": lambda c, i: c.count("(get)") >= 2,
        "rule": HIST_RULE + "; the oracle compares GetFields, the bitmap read off the packed bytes and the JSON keys after every step, and re-packs a fresh message built from the observable values; non-trivial = distinct history of >= 2 steps",
        "trusted_base": MODEL_TB,
        "assumptions": ["ids 0 (MTI) and 1 (bitmap) are bookkeeping: observers are compared on data elements >= 2"],
    },
    "C15": {
        "topics": ["hist", "msg", "fld", "trk"],
        "nontrivial": lambda c, i: "pack" in c and "ok x" in i,
        "rule": HIST_RULE + TRK_RULE + "; plus the histories of C01; each message is encoded (Pack, JSON, Describe) repeatedly, cloned, the clone and the original are mutated in turn, "
                "the population prefix is replayed in reverse order, primitive values are handed over as slices with 20 sentinel bytes of spare capacity; non-trivial = distinct history that packs",
        "trusted_base": MODEL_TB,
        "assumptions": ["messages whose MTI was never set pack without one and cannot be cloned: outside the property"],
    },
    "C01": {
        "topics": ["fld", "msg", "trk"],
        "nontrivial": lambda c, i: "(set" in c and "| ok x" in i.replace("ok | ", "| "),
        "rule": FLD_MSG_RULE + TRK_RULE + "; non-trivial = distinct history that populates a field or message and packs it successfully",
        "trusted_base": MODEL_TB,
        "assumptions": ["coherent specs and value domains as in DESIGN.md section 2", "Go slices are shorter than 2^63 bytes"],
    },
    "C02": {
        "topics": ["fld", "msg"],
        "nontrivial": lambda c, i: c.count("(unpack") > 0 and i.startswith("ok") ,
        "rule": FLD_MSG_RULE + "; non-trivial = distinct byte string that Unpack accepts",
        "trusted_base": MODEL_TB,
        "assumptions": ["coherent specs as in DESIGN.md section 2"],
    },
    "C03": {
        "topics": ["fld", "msg"],
        "nontrivial": lambda c, i: "(set" in c and "ok x" in i,
        "rule": FLD_MSG_RULE + "; the oracle compares Pack with the independent reference encoder harness/reflayout.go and unpacks the reference bytes; "
                "non-trivial = distinct populated history that packs",
        "trusted_base": MODEL_TB + ["harness/reflayout.go: reference layout written from the property text (EBCDIC code tables taken from the library, see C07)"],
        "assumptions": ["coherent specs as in DESIGN.md section 2"],
    },
    "C04": {
        "topics": ["adv", "fld", "msg", "enc", "pref", "trk"],
        "nontrivial": lambda c, i: ("unpack" in c or ".dec" in c),
        "rule": FLD_MSG_RULE + TRK_RULE + "; plus the decoder-level adversarial cases of C06/C07 (BER long forms with 0..127 length bytes, lengths >= 2^31 and >= 2^63, "
                "negative lengths, every short prefix string); every implementation run is a child process under ulimit -v and a timeout; non-trivial = distinct decode case",
        "trusted_base": MODEL_TB,
        "assumptions": ["wall-clock time and allocation are runtime behaviour: measured by the harness, not proved"],
    },
    "C08": {
        "topics": ["fld", "trk"],
        "nontrivial": lambda c, i: "(set" in c or ("(unpack" in c and i.startswith("ok")),
        "rule": FLD_MSG_RULE + "; non-trivial = distinct history that packs a value or accepts an encoding",
        "trusted_base": MODEL_TB,
        "assumptions": ["Go slices are shorter than 2^63 bytes"],
    },
    "C09": {
        "topics": ["tlv"],
        "nontrivial": lambda c, i: "c09" in c and i.startswith("ok"),
        "rule": "generated fixed-width-tag and BER-TLV composites (nested templates included) with >= 2 set subfields: the canonical encoding assembled from separately packed "
                "elements, all permutations of up to 4 (thorough: 6) elements and 24 sampled beyond, an unknown element (1-4 byte BER tag or unused fixed-width tag, "
                "short and long-form lengths 0..200) inserted at every position with skipping on (same value expected) and off (error naming the tag), overrunning "
                "skipped elements; non-trivial = distinct case whose unpack succeeds",
        "trusted_base": MODEL_TB,
        "assumptions": ["tag sets on which the sort function is a strict total order (DESIGN.md section 2.3)"],
    },
    "C10": {
        "topics": ["fld", "msg", "hist", "trk"],
        "nontrivial": lambda c, i: c.count("(unpack") >= 1 and ("(set" in c or c.count("(unpack") >= 2),
        "rule": FLD_MSG_RULE + TRK_RULE + "; the oracle replays the history before the last unpack on one object and compares value, re-pack and JSON with a fresh object; "
                "non-trivial = distinct history with prior state followed by an unpack",
        "trusted_base": MODEL_TB,
        "assumptions": [],
    },
    "C19": {
        "topics": ["trunc", "msg"],
        "nontrivial": lambda c, i: "c19" in c or "err" in i,
        "rule": "every truncation offset (messages up to 70 bytes: all offsets; longer: ~40 sampled; thorough: all) of generated valid messages over coherent specs, "
                "the owner of each offset computed from the lengths of the separately packed elements, elements before the owner compared with their decoded values; "
                "plus the message histories of C01 for typing of Pack/Unpack failures; non-trivial = distinct truncation or failing case",
        "trusted_base": MODEL_TB + ["translator: Gen/ErrorTypes.v is produced by a syntactic go/ast reading of the return statements of the error-wrapping glue (message.go, field/composite.go) - trusted, cross-checked by the oracle's errors.As / RawMessage / FieldIDs observations"],
        "assumptions": ["coherent specs (None.Fixed excluded: it is not prefix-intolerant)"],
    },
    "C05": {
        "topics": ["bm", "msg"],
        "nontrivial": lambda c, i: i != "panic" and "(set " in c or "(unpack " in c and "ok x" in i,
        "rule": "bitmap histories (set/isset/len/pack/unpack/reset) for every block size 1..16 x both expansion modes x binary and hex encodings: "
                "every single index in 1..4 blocks (+0, negative, one past), sampled pairs/triples with every bit read back (thorough: all pairs within two blocks for B<=2), "
                "random packed bitmaps of 1..4 blocks with correct and corrupted continuation bits, truncation, all one-byte bitmaps, a 40-block chain, "
                "states that are not a whole number of blocks; non-trivial = distinct history that sets a bit or unpacks successfully",
        "trusted_base": COMMON_TB,
        "assumptions": ["block size 1..16 bytes and a fixed-length prefixer (DESIGN.md section 2.1)"],
    },
    "C16": {
        "topics": ["hdr"],
        "nontrivial": lambda c, i: i.startswith("ok") and not c.startswith("(hdr.set"),
        "kernel_slice": {"quick": 400, "thorough": 3000},
        "rule": "SetLength/WriteTo for lengths -2..70000 (quick: every 7th plus all boundaries; thorough: all) per header type and extreme values; "
                "ReadFrom over all 2^16 two-byte contents (four-byte headers: two arbitrary bytes in three positions), random contents, every split "
                "point and every early end; write-then-read through one-byte-at-a-time and randomly fragmented readers; non-trivial = distinct write/read case that succeeds",
        "trusted_base": COMMON_TB + ["modelled, validated by correspondence: io.ReadFull / binary.Read over an io.Reader delivering arbitrary chunks, fmt %04d, strconv.Atoi"],
        "assumptions": ["a reader is modelled as the list of chunks its Read calls deliver followed by EOF (no transient errors)"],
    },
    "C06": {
        "topics": ["pref"],
        "nontrivial": lambda c, i: i.startswith("ok") and "Fixed" not in c,
        "kernel_slice": {"quick": 400, "thorough": 3000},
        "rule": "EncodeLength/DecodeLength cases for all 44 registered prefixers: n in 0..1200 (thorough 0..70000) plus every decade/byte boundary up to 2^63-1 "
                "and random lengths, each with max below/equal/above; all 1-byte and sampled (thorough: all) 2-byte prefix strings, family-alphabet "
                "wide prefixes, random strings; BER long forms with 0..127 length bytes; non-trivial = distinct case with a variable-length prefixer that succeeds",
        "trusted_base": COMMON_TB + ["translator: Gen/Prefixers.v lists the live registry (family.field, Inspect())",
                                     "modelled, validated by correspondence: strconv.Itoa/Atoi/FormatInt/ParseUint, fmt %0*d and %0*s, big.Int.Bytes/SetBytes, binary.BigEndian"],
        "assumptions": ["lengths are Go ints: 0 <= n <= 2^63-1"],
    },
    "C07": {
        "topics": ["enc"],
        "nontrivial": lambda c, i: i.startswith("ok x") and len(i) > 6,
        "rule": "encode/decode cases for all 9 encoders: every single byte value, all strings up to length 3 (thorough: 4) over a "
                "6-letter alphabet (5 in-domain letters + 1 outside), random in-domain strings up to 2000 units decoded with every "
                "length -1..len+2 and trailing bytes, corrupted and truncated encodings, adversarial lengths (2^31, 2^40, 2^63-1, negative), "
                "all 1-4 byte BER tag shapes; non-trivial = distinct case on which the implementation returns a non-empty value",
        "trusted_base": COMMON_TB + ["translator: Gen/EbcdicTables.v is an exhaustive dump (all 256 inputs) of EBCDIC/EBCDIC1047 Encode and Decode from the live library",
                                     "modelled, validated by correspondence: yerden/go-util/bcd Standard codec, encoding/hex, x/text charmap CP1047 (UTF-8 input, Latin-1 repertoire)"],
        "assumptions": ["EBCDIC1047 text domain inside fields is ASCII (the encoder treats its input as UTF-8)"],
    },
    "C20": {
        "topics": ["pad"],
        "nontrivial": lambda c, i: ok_value(c, i) and (c.startswith("(unpad") or " x " not in c),
        "rule": "pad/unpad cases: exhaustive pad bytes x values up to length 3 over a 4-letter alphabet containing the pad x targets 0..6, "
                "plus random values to 2000 bytes with sentinel-filled spare capacity; non-trivial = distinct case with a non-empty value",
        "trusted_base": COMMON_TB,
        "assumptions": ["pad characters are single bytes below 0x80 (multi-byte runes are outside the property)"],
    },
}
