"""Per-property configuration of ./check: correspondence topics, non-triviality rule, trusted base."""

COMMON_TB = [
    "Coq 8.16.1 kernel (coqc); vm_compute used for finite facts and the in-kernel correspondence slice; native_compute not used",
    "hand-written Gallina implementation model (coq/Model), tied to /repo by the correspondence check on every run",
    "extraction to OCaml with ExtrOcamlBasic only (no Extract Constant), ocamlfind ocamlopt 4.13.1, runner/driver.ml (bulk correspondence only)",
    "Go harness (harness/): case generators, executors and property oracle",
]


def ok_value(case, impl):
    return not (impl.startswith("err") or impl.startswith("panic") or impl in ("crash", "hang", "badcase"))


PROPS = {
    "C05": {
        "topics": ["bm"],
        "nontrivial": lambda c, i: i != "panic" and "(set " in c or "(unpack " in c and "ok x" in i,
        "rule": "bitmap histories (set/isset/len/pack/unpack/reset) for every block size 1..16 x both expansion modes x binary and hex encodings: "
                "every single index in 1..4 blocks (+0, negative, one past), sampled pairs/triples with every bit read back (thorough: all pairs within two blocks for B<=2), "
                "random packed bitmaps of 1..4 blocks with correct and corrupted continuation bits, truncation, all one-byte bitmaps, a 40-block chain, "
                "states that are not a whole number of blocks; non-trivial = distinct history that sets a bit or unpacks successfully",
        "trusted_base": COMMON_TB,
        "assumptions": ["block size 1..16 bytes and a fixed-length prefixer (DESIGN.md section 2.1)"],
    },
    "C16": {
        "topics": ["hdr"],
        "nontrivial": lambda c, i: i.startswith("ok") and not c.startswith("(hdr.set"),
        "kernel_slice": {"quick": 400, "thorough": 3000},
        "rule": "SetLength/WriteTo for lengths -2..70000 (quick: every 7th plus all boundaries; thorough: all) per header type and extreme values; "
                "ReadFrom over all 2^16 two-byte contents (four-byte headers: two arbitrary bytes in three positions), random contents, every split "
                "point and every early end; write-then-read through one-byte-at-a-time and randomly fragmented readers; non-trivial = distinct write/read case that succeeds",
        "trusted_base": COMMON_TB + ["modelled, validated by correspondence: io.ReadFull / binary.Read over an io.Reader delivering arbitrary chunks, fmt %04d, strconv.Atoi"],
        "assumptions": ["a reader is modelled as the list of chunks its Read calls deliver followed by EOF (no transient errors)"],
    },
    "C06": {
        "topics": ["pref"],
        "nontrivial": lambda c, i: i.startswith("ok") and "Fixed" not in c,
        "kernel_slice": {"quick": 400, "thorough": 3000},
        "rule": "EncodeLength/DecodeLength cases for all 44 registered prefixers: n in 0..1200 (thorough 0..70000) plus every decade/byte boundary up to 2^63-1 "
                "and random lengths, each with max below/equal/above; all 1-byte and sampled (thorough: all) 2-byte prefix strings, family-alphabet "
                "wide prefixes, random strings; BER long forms with 0..127 length bytes; non-trivial = distinct case with a variable-length prefixer that succeeds",
        "trusted_base": COMMON_TB + ["translator: Gen/Prefixers.v lists the live registry (family.field, Inspect())",
                                     "modelled, validated by correspondence: strconv.Itoa/Atoi/FormatInt/ParseUint, fmt %0*d and %0*s, big.Int.Bytes/SetBytes, binary.BigEndian"],
        "assumptions": ["lengths are Go ints: 0 <= n <= 2^63-1"],
    },
    "C07": {
        "topics": ["enc"],
        "nontrivial": lambda c, i: i.startswith("ok x") and len(i) > 6,
        "rule": "encode/decode cases for all 9 encoders: every single byte value, all strings up to length 3 (thorough: 4) over a "
                "6-letter alphabet (5 in-domain letters + 1 outside), random in-domain strings up to 2000 units decoded with every "
                "length -1..len+2 and trailing bytes, corrupted and truncated encodings, adversarial lengths (2^31, 2^40, 2^63-1, negative), "
                "all 1-4 byte BER tag shapes; non-trivial = distinct case on which the implementation returns a non-empty value",
        "trusted_base": COMMON_TB + ["translator: Gen/EbcdicTables.v is an exhaustive dump (all 256 inputs) of EBCDIC/EBCDIC1047 Encode and Decode from the live library",
                                     "modelled, validated by correspondence: yerden/go-util/bcd Standard codec, encoding/hex, x/text charmap CP1047 (UTF-8 input, Latin-1 repertoire)"],
        "assumptions": ["EBCDIC1047 text domain inside fields is ASCII (the encoder treats its input as UTF-8)"],
    },
    "C20": {
        "topics": ["pad"],
        "nontrivial": lambda c, i: ok_value(c, i) and (c.startswith("(unpad") or " x " not in c),
        "rule": "pad/unpad cases: exhaustive pad bytes x values up to length 3 over a 4-letter alphabet containing the pad x targets 0..6, "
                "plus random values to 2000 bytes with sentinel-filled spare capacity; non-trivial = distinct case with a non-empty value",
        "trusted_base": COMMON_TB,
        "assumptions": ["pad characters are single bytes below 0x80 (multi-byte runes are outside the property)"],
    },
}
