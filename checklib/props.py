"""Per-property configuration of ./check: correspondence topics, non-triviality rule, trusted base."""

COMMON_TB = [
    "Coq 8.16.1 kernel (coqc); vm_compute used for finite facts and the in-kernel correspondence slice; native_compute not used",
    "hand-written Gallina implementation model (coq/Model), tied to /repo by the correspondence check on every run",
    "extraction to OCaml with ExtrOcamlBasic only (no Extract Constant), ocamlfind ocamlopt 4.13.1, runner/driver.ml (bulk correspondence only)",
    "Go harness (harness/): case generators, executors and property oracle",
]


def ok_value(case, impl):
    return not (impl.startswith("err") or impl.startswith("panic") or impl in ("crash", "hang", "badcase"))


PROPS = {
    "C20": {
        "topics": ["pad"],
        "nontrivial": lambda c, i: ok_value(c, i) and (c.startswith("(unpad") or " x " not in c),
        "rule": "pad/unpad cases: exhaustive pad bytes x values up to length 3 over a 4-letter alphabet containing the pad x targets 0..6, "
                "plus random values to 2000 bytes with sentinel-filled spare capacity; non-trivial = distinct case with a non-empty value",
        "trusted_base": COMMON_TB,
        "assumptions": ["pad characters are single bytes below 0x80 (multi-byte runes are outside the property)"],
    },
}
