"""Property-specific extra steps of ./check."""
import os
import re
import subprocess


def c13_extra(tier, seed, harness_dir, env):
    """-race stress run: k goroutines over random mixes of the listed operations; a race report, a hang or a Pack
    output that does not decode to written values is a finding"""
    rc = subprocess.run(["go", "build", "-race", "-tags", "verif", "-o", os.path.join(harness_dir, "race_bin"), "./race"], cwd=harness_dir, env=env,
                        stdout=subprocess.PIPE, stderr=subprocess.STDOUT, timeout=900)
    if rc.returncode != 0:
        raise RuntimeError("race build failed: " + rc.stdout.decode()[-1500:])
    findings, ev, nt, runs = [], 0, 0, []
    configs = [(2, 4000), (4, 3000), (8, 1500)] if tier == "quick" else [(2, 40000), (4, 30000), (8, 20000), (16, 10000), (3, 50000)]
    reps = 2 if tier == "quick" else 6
    for rep in range(reps):
        for k, n in configs:
            case = "race_bin %d %d %d" % (seed * 100 + rep, k, n)
            try:
                p = subprocess.run([os.path.join(harness_dir, "race_bin"), str(seed * 100 + rep), str(k), str(n)], env=env,
                                   stdout=subprocess.PIPE, stderr=subprocess.STDOUT, timeout=600)
                out, code = p.stdout.decode("utf-8", "replace"), p.returncode
            except subprocess.TimeoutExpired:
                out, code = "DEADLOCK-OR-HANG", -9
            ev += k * n
            runs.append({"goroutines": k, "ops_each": n, "exit": code, "summary": [l for l in out.split("\n") if l.startswith("RACE-RUN")][:1]})
            m = re.search(r"packs=(\d+)", out)
            nt += int(m.group(1)) if m else 0
            if "DATA RACE" in out:
                locs = sorted(set(re.findall(r"/repo/([\w/]+\.go):(\d+)", out)))[:6]
                findings.append({"key": "c13-data-race", "what": "the race detector reports a data race at " + ", ".join("%s:%s" % l for l in locs), "case": case})
            elif "DEADLOCK-OR-HANG" in out:
                findings.append({"key": "c13-deadlock", "what": "goroutines did not finish within the time limit (deadlock)", "case": case})
            elif "TORN-PACK" in out:
                findings.append({"key": "c13-torn-pack", "what": "a Pack result is not the encoding of a sequentially reachable state: " + out.split("TORN-PACK")[1][:200].replace("\n", " "), "case": case})
            elif "concurrent map" in out or code != 0:
                findings.append({"key": "c13-runtime-fault", "what": "the stress program died: " + out[-300:].replace("\n", " "), "case": case})
            if findings:
                return findings, ev, nt, {"race_runs": runs}
    return findings, ev, nt, {"race_runs": runs}
