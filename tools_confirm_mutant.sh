#!/bin/sh
# usage: tools_confirm_mutant.sh <worktree> <name> <property>  -- confirms a seeded change in its scratch worktree and stores it under /verif/seeded/<name>
export GOFLAGS=-mod=mod GOPROXY=off GOSUMDB=off GOTOOLCHAIN=local
wt=$1; name=$2; prop=$3
cd $wt || exit 2
demo=$(git status --short | grep seeded_demo_test.go | awk '{print $2}')
[ -z "$demo" ] && { echo "no demo file"; exit 2; }
demodir=$(dirname $demo)
mkdir -p /tmp/confirm_$name && cp $demo /tmp/confirm_$name/demo_test.go
git diff -- . ':!*seeded_demo_test.go' > /tmp/confirm_$name/patch.diff
rm -f $demo
go build ./... 2>&1 | head -5
suite=$(go test ./... 2>&1 | grep -v "no test files" | grep -vc "^ok")
cp /tmp/confirm_$name/demo_test.go $demo
go test ./$demodir -run TestSeededDemo -count=1 >/tmp/confirm_$name/with.txt 2>&1; with=$?
git apply -R /tmp/confirm_$name/patch.diff
go test ./$demodir -run TestSeededDemo -count=1 >/tmp/confirm_$name/without.txt 2>&1; without=$?
git apply /tmp/confirm_$name/patch.diff
echo "suite_nonok_lines=$suite demo_with_change_rc=$with demo_without_change_rc=$without"
if [ "$suite" = "0" ] && [ "$with" != "0" ] && [ "$without" = "0" ]; then
  d=/verif/seeded/$name; mkdir -p $d
  cp /tmp/confirm_$name/patch.diff $d/patch.diff; cp /tmp/confirm_$name/demo_test.go $d/seeded_demo_test.go.txt
  [ -f seeded_meta.txt ] && cp seeded_meta.txt $d/agent_notes.txt
  echo "$demo" > $d/demo_path.txt
  echo CONFIRMED
else echo NOT-CONFIRMED; fi
rm -rf /tmp/confirm_$name
