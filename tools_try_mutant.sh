#!/bin/sh
# usage: tools_try_mutant.sh <property> <patch-file> [tier]   -- applies a seeded change to /repo, runs the check, reverts
prop=$1; patch=$2; tier=${3:-quick}
cd /repo && git diff --quiet || { echo "/repo is dirty"; exit 2; }
git -C /repo apply "$patch" || { echo "patch does not apply"; exit 2; }
cd /verif && timeout 3000 ./check $prop $tier 2>/tmp/try_mutant.err | cut -c1-400
rc=$?
tail -3 /tmp/try_mutant.err | cut -c1-300
git -C /repo checkout -- . 
exit $rc
