#!/bin/sh
# usage: tools_try_all.sh <out-file> <name>...   -- runs each seeded change through its property's quick check
out=$1; shift
for n in "$@"; do
  p=${n%%-*}
  s=$(date +%s)
  r=$(sh /verif/tools_try_mutant.sh $p /verif/seeded/$n/patch.diff quick 2>&1 | grep -E "VIOLATION|quick:|BROKEN|dirty|does not apply" | head -4 | cut -c1-260 | tr '\n' '|')
  echo "$n $(( $(date +%s) - s ))s $r" >> $out
done
