From Coq Require Import List NArith ZArith Lia Bool String.
From Coq Require Import Init.Byte.
Import ListNotations.
Definition bytes := list byte.
Inductive outcome (A : Type) := Ok (a : A) | Err (e : string) | Panic (p : string) | Fuel.
Arguments Ok {A}. Arguments Err {A}. Arguments Panic {A}. Arguments Fuel {A}.
Definition bind {A B} (x : outcome A) (f : A -> outcome B) : outcome B :=
  match x with Ok a => f a | Err e => Err e | Panic p => Panic p | Fuel => Fuel end.

Definition tag := bytes.
Inductive fspec :=
| FPrim (len : Z)
| FComp (len : Z) (subs : list (tag * fspec)).
Inductive fstate :=
| SPrim (v : bytes)
| SComp (set : list tag) (subs : list (tag * fstate)).

Definition tag_eqb (a b : tag) : bool :=
  if list_eq_dec Byte.byte_eq_dec a b then true else false.
Fixpoint lookup {A} (t : tag) (l : list (tag * A)) : option A :=
  match l with [] => None | (t', a) :: r => if tag_eqb t t' then Some a else lookup t r end.

(* stateful unpack: for each sub-spec build (structurally) its unpacker; loop over the data with fuel *)
Definition unpacker := fstate -> bytes -> outcome (fstate * nat).

Fixpoint loop (fuel : nat) (unps : list (tag * unpacker)) (st : list (tag * fstate)) (set : list tag)
  (data : bytes) (off : nat) : outcome (list (tag * fstate) * list tag * nat) :=
  match fuel with
  | O => Fuel
  | S fuel' =>
    if Nat.leb (List.length data) off then Ok (st, set, off) else
    let t := firstn 2 (skipn off data) in
    match lookup t unps, lookup t st with
    | Some u, Some s0 =>
        bind (u s0 (skipn (off + 2) data)) (fun '(s1, n) =>
          loop fuel' unps ((t, s1) :: st) (t :: set) data (off + 2 + n))
    | _, _ => Err "unknown tag"
    end
  end.

Fixpoint unpack_into (s : fspec) {struct s} : unpacker :=
  match s with
  | FPrim len => fun st data =>
      let n := Z.to_nat len in
      if Nat.ltb (List.length data) n then Err "short" else Ok (SPrim (firstn n data), n)
  | FComp len subs => fun st data =>
      let unps := (fix mk (l : list (tag * fspec)) : list (tag * unpacker) :=
                     match l with [] => [] | (t, s') :: r => (t, unpack_into s') :: mk r end) subs in
      match st with
      | SComp set sts =>
          bind (loop (S (List.length data)) unps sts set data 0) (fun '(sts', set', n) => Ok (SComp set' sts', n))
      | _ => Panic "state shape"
      end
  end.
Print Assumptions unpack_into.
