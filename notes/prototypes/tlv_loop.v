From Coq Require Import List NArith ZArith Lia Bool.
From Coq Require Import Init.Byte.
Import ListNotations.

Definition bytes := list byte.
Inductive outcome (A : Type) := Ok (a : A) | Err | Panic | Fuel.
Arguments Ok {A}. Arguments Err {A}. Arguments Panic {A}. Arguments Fuel {A}.
Definition bind {A B} (x : outcome A) (f : A -> outcome B) : outcome B :=
  match x with Ok a => f a | Err => Err | Panic => Panic | Fuel => Fuel end.

(* --- a self-delimiting codec for values of type V --- *)
Record codec (V : Type) := {
  cenc : V -> outcome bytes;
  cdec : bytes -> outcome (V * nat);       (* value, bytes consumed *)
}.
Arguments cenc {V}. Arguments cdec {V}.
Definition selfdelim {V} (c : codec V) (dom : V -> Prop) :=
  forall v w rest, dom v -> cenc c v = Ok w -> cdec c (w ++ rest) = Ok (v, length w).

(* --- tagged composite over fixed-width tags --- *)
Definition tag := bytes.
Definition tag_eqb (a b : tag) : bool := if list_eq_dec Byte.byte_eq_dec a b then true else false.
Lemma tag_eqb_refl t : tag_eqb t t = true.
Proof. unfold tag_eqb; destruct (list_eq_dec _ t t); congruence. Qed.
Lemma tag_eqb_eq a b : tag_eqb a b = true <-> a = b.
Proof. unfold tag_eqb; destruct (list_eq_dec _ a b); split; congruence. Qed.

Fixpoint lookup {A} (t : tag) (l : list (tag * A)) : option A :=
  match l with [] => None | (t', a) :: r => if tag_eqb t t' then Some a else lookup t r end.

Section TLV.
  Variable V : Type.
  Variable W : nat.                         (* tag width, >= 1 *)
  Hypothesis Wpos : (1 <= W)%nat.
  Variable subs : list (tag * codec V).     (* the spec *)
  Variable dom : tag -> V -> Prop.

  (* state: association list of set subfields, newest first (Go: map write overwrites) *)
  Definition st := list (tag * V).

  Fixpoint loop (fuel : nat) (data : bytes) (acc : st) (consumed : nat) : outcome (st * nat) :=
    match data with
    | [] => Ok (acc, consumed)
    | _ =>
      match fuel with
      | O => Fuel
      | S fuel' =>
        if Nat.ltb (length data) W then Err else
        let t := firstn W data in
        match lookup t subs with
        | None => Err
        | Some c =>
          bind (cdec c (skipn W data)) (fun '(v, n) =>
            loop fuel' (skipn (W + n) data) ((t, v) :: acc) (consumed + W + n))
        end
      end
    end.

  Definition unpack (data : bytes) : outcome (st * nat) := loop (S (length data)) data [] 0.

  (* one encoded element *)
  Definition enc_elem (tv : tag * V) : outcome bytes :=
    match lookup (fst tv) subs with
    | None => Err
    | Some c => bind (cenc c (snd tv)) (fun w => Ok (fst tv ++ w))
    end.

  Fixpoint enc_all (es : list (tag * V)) : outcome bytes :=
    match es with
    | [] => Ok []
    | e :: r => bind (enc_elem e) (fun b => bind (enc_all r) (fun b' => Ok (b ++ b')))
    end.

  Lemma loop_step fuel data acc k : data <> [] ->
    loop (S fuel) data acc k =
      if Nat.ltb (length data) W then Err else
      match lookup (firstn W data) subs with
      | None => Err
      | Some c => bind (cdec c (skipn W data)) (fun '(v, n) =>
            loop fuel (skipn (W + n) data) ((firstn W data, v) :: acc) (k + W + n))
      end.
  Proof. destruct data; [congruence|reflexivity]. Qed.

  Definition wf_spec := forall t c, lookup t subs = Some c -> length t = W /\ selfdelim c (dom t).
  Definition in_dom (es : list (tag * V)) := Forall (fun tv => dom (fst tv) (snd tv)) es.

  Lemma loop_enc_all : wf_spec -> forall es b rest acc k fuel,
    in_dom es -> enc_all es = Ok b -> (length b < fuel)%nat \/ (b = [] /\ rest = []) ->
    rest = [] ->
    loop fuel (b ++ rest) acc k = Ok (rev es ++ acc, k + length b).
  Proof.
    intros WF es. induction es as [|[t v] es IH]; intros b rest acc k fuel Hdom Henc Hfuel Hrest; subst rest.
    - simpl in Henc. inversion Henc; subst. simpl. destruct fuel; simpl; f_equal; f_equal; lia.
    - simpl in Henc. unfold enc_elem in Henc. simpl in Henc.
      destruct (lookup t subs) as [c|] eqn:Hl; [|discriminate].
      destruct (cenc c v) as [w| | |] eqn:Hw; try discriminate. simpl in Henc.
      destruct (enc_all es) as [b'| | |] eqn:Hb'; try discriminate. simpl in Henc.
      inversion Henc; subst b; clear Henc.
      destruct (WF _ _ Hl) as [Hlen Hsd].
      inversion Hdom as [|x l Hd Hdom']; subst. simpl in Hd.
      rewrite app_nil_r.
      assert (Hne : (t ++ w) ++ b' <> []).
      { destruct t; simpl in *; [lia|discriminate]. }
      destruct fuel as [|fuel]; [destruct Hfuel as [Hf|[Hf _]]; [simpl in Hf; lia|contradiction]|].
      rewrite (loop_step fuel _ acc k Hne).
      assert (Hlt : Nat.ltb (length ((t ++ w) ++ b')) W = false).
      { apply Nat.ltb_ge. rewrite !app_length. lia. }
      rewrite Hlt.
      assert (Hfirst : firstn W ((t ++ w) ++ b') = t).
      { rewrite <- !app_assoc. rewrite <- Hlen. rewrite firstn_app, Nat.sub_diag, firstn_all. simpl. apply app_nil_r. }
      rewrite Hfirst, Hl.
      assert (Hskip : skipn W ((t ++ w) ++ b') = w ++ b').
      { rewrite <- !app_assoc. rewrite <- Hlen. rewrite skipn_app, Nat.sub_diag, skipn_all. reflexivity. }
      rewrite Hskip. rewrite (Hsd v w b' Hd Hw). cbn [bind]. cbv beta iota.
      assert (Hskip2 : skipn (W + length w) ((t ++ w) ++ b') = b').
      { rewrite <- Hlen, <- app_length. rewrite skipn_app, Nat.sub_diag, skipn_all. reflexivity. }
      rewrite Hskip2.
      specialize (IH b' [] ((t, v) :: acc) (k + W + length w) fuel Hdom' eq_refl).
      rewrite app_nil_r in IH. etransitivity; [apply IH|].
      + left. destruct Hfuel as [Hf|[Hf _]]; [|congruence].
        rewrite !app_length in Hf. lia.
      + reflexivity.
      + f_equal. f_equal.
        * simpl. rewrite <- app_assoc. reflexivity.
        * rewrite !app_length. lia.
  Qed.

  Theorem unpack_enc_all : wf_spec -> forall es b,
    in_dom es -> enc_all es = Ok b -> unpack b = Ok (rev es, length b).
  Proof.
    intros WF es b Hd He. unfold unpack.
    pose proof (loop_enc_all WF es b [] [] 0 (S (length b)) Hd He) as H.
    rewrite !app_nil_r in H. apply H; auto.
  Qed.
End TLV.
Print Assumptions unpack_enc_all.
