(* Calibration prototype: the ASCII variable-length prefixer (prefix/ascii.go) modelled with
   strconv.Atoi / Itoa / fmt %0*d, and the C06 round-trip theorem for every digit count and every n >= 0. *)
From Coq Require Import List ZArith Lia Bool.
From Coq Require Import Init.Byte.
From Coq Require Import ZifyBool ZifyNat.
Import ListNotations.
Open Scope Z_scope.

Definition bytes := list byte.
Inductive outcome (A : Type) := Ok (a : A) | Err.
Arguments Ok {A}. Arguments Err {A}.

Definition bz (b : byte) : Z := Z.of_N (Byte.to_N b).
Definition zb (z : Z) : byte := match Byte.of_N (Z.to_N z) with Some b => b | None => x00 end.
Lemma bz_zb z : 0 <= z < 256 -> bz (zb z) = z.
Proof.
  intros H. unfold bz, zb. destruct (Byte.of_N (Z.to_N z)) eqn:E.
  - apply Byte.to_of_N in E. rewrite E. lia.
  - apply Byte.of_N_None_iff in E. lia.
Qed.

(* ---- strconv.Itoa for n >= 0: decimal digits, most significant first, no leading zeros ---- *)
Fixpoint digits_fuel (fuel : nat) (n : Z) (acc : bytes) : bytes :=
  match fuel with
  | O => acc
  | S f => let acc' := zb (48 + n mod 10) :: acc in
           if n / 10 =? 0 then acc' else digits_fuel f (n / 10) acc'
  end.
Definition itoa (n : Z) : bytes :=
  if n <? 0 then x2d :: digits_fuel (S (Z.to_nat (- n))) (- n) [] else digits_fuel (S (Z.to_nat n)) n [].

(* ---- value of a digit string (accumulating), None on a non-digit ---- *)
Fixpoint undigits (l : bytes) (acc : Z) : option Z :=
  match l with
  | [] => Some acc
  | b :: r => let d := bz b - 48 in if (0 <=? d) && (d <=? 9) then undigits r (acc * 10 + d) else None
  end.

(* ---- strconv.Atoi: optional sign, at least one digit (overflow impossible for <= 18 digits; ignored here) ---- *)
Definition atoi (l : bytes) : option Z :=
  match l with
  | [] => None
  | b :: r =>
      if Byte.eqb b x2b then match r with [] => None | _ => undigits r 0 end
      else if Byte.eqb b x2d then match r with [] => None | _ => option_map Z.opp (undigits r 0) end
      else undigits l 0
  end.

(* ---- fmt.Sprintf("%0*d", w, n) for n >= 0: left-pad itoa n with '0' to width w, never truncate ---- *)
Definition sprintf0d (w : nat) (n : Z) : bytes :=
  let s := itoa n in repeat x30 (w - length s) ++ s.

(* ---- the prefixer ---- *)
Definition enc_len (d : nat) (max n : Z) : outcome bytes :=
  if max <? n then Err
  else if Nat.ltb d (length (itoa n)) then Err
  else Ok (sprintf0d d n).

Definition dec_len (d : nat) (max : Z) (data : bytes) : outcome (Z * nat) :=
  if Nat.ltb (length data) d then Err else
  match atoi (firstn d data) with
  | None => Err
  | Some n => if n <? 0 then Err else if max <? n then Err else Ok (n, d)
  end.

(* ================= proofs ================= *)

Lemma undigits_app l1 l2 acc :
  undigits (l1 ++ l2) acc = match undigits l1 acc with Some a => undigits l2 a | None => None end.
Proof.
  revert acc; induction l1 as [|b r IH]; intros acc; simpl; auto.
  destruct ((0 <=? bz b - 48) && (bz b - 48 <=? 9)); auto.
Qed.

Lemma undigits_repeat0 k acc : undigits (repeat x30 k) acc = Some (acc * 10 ^ Z.of_nat k).
Proof.
  revert acc; induction k as [|k IH]; intros acc.
  - simpl. f_equal. lia.
  - cbn [repeat undigits]. change (bz x30 - 48) with 0. cbn [Z.leb andb].
    replace ((0 <=? 0) && (0 <=? 9)) with true by reflexivity.
    rewrite IH. f_equal. rewrite Nat2Z.inj_succ, Z.pow_succ_r by lia. lia.
Qed.

(* key invariant of digits_fuel: undigits (digits n ++ acc) relates to n and acc *)
Lemma digits_fuel_spec : forall fuel n acc,
  0 <= n -> (Z.to_nat n < fuel)%nat ->
  exists ds, digits_fuel fuel n acc = ds ++ acc /\ (0 < length ds)%nat /\
             forall a, undigits ds a = Some (a * 10 ^ Z.of_nat (length ds) + n) /\
             (n < 10 ^ Z.of_nat (length ds)) /\ (0 < n -> 10 ^ Z.of_nat (length ds - 1) <= n).
Proof.
  induction fuel as [|f IH]; intros n acc Hn Hf; [lia|].
  cbn [digits_fuel].
  assert (Hm : 0 <= n mod 10 < 10) by (apply Z.mod_pos_bound; lia).
  assert (Hd := Z.div_mod n 10 ltac:(lia)).
  destruct (n / 10 =? 0) eqn:E.
  - exists [zb (48 + n mod 10)]. split; [reflexivity|]. split; [simpl; lia|].
    intros a. cbn [undigits length]. rewrite bz_zb by lia.
    replace (48 + n mod 10 - 48) with (n mod 10) by lia.
    replace ((0 <=? n mod 10) && (n mod 10 <=? 9)) with true by lia.
    assert (n = n mod 10) by lia.
    split; [f_equal; simpl; lia|]. split; simpl; lia.
  - assert (Hq : 0 < n / 10) by (assert (0 <= n / 10) by (apply Z.div_pos; lia); lia).
    destruct (IH (n / 10) (zb (48 + n mod 10) :: acc)) as (ds & Heq & Hlen & Hsp); [lia|lia|].
    exists (ds ++ [zb (48 + n mod 10)]). split; [rewrite Heq, <- app_assoc; reflexivity|].
    split; [rewrite app_length; simpl; lia|].
    intros a. destruct (Hsp a) as (Hu & Hub & Hlb).
    rewrite undigits_app, Hu. cbn [undigits]. rewrite bz_zb by lia.
    replace (48 + n mod 10 - 48) with (n mod 10) by lia.
    replace ((0 <=? n mod 10) && (n mod 10 <=? 9)) with true by lia.
    rewrite app_length. cbn [length].
    replace (Z.of_nat (length ds + 1)) with (Z.succ (Z.of_nat (length ds))) by lia.
    rewrite Z.pow_succ_r by lia.
    split; [f_equal; lia|]. split; [lia|].
    intros _. replace (length ds + 1 - 1)%nat with (S (length ds - 1)) by lia.
    rewrite Nat2Z.inj_succ, Z.pow_succ_r by lia. specialize (Hlb Hq). lia.
Qed.

Lemma undigits_all_digits l : forall a z, undigits l a = Some z -> Forall (fun b => 48 <= bz b <= 57) l.
Proof.
  induction l as [|b r IH]; intros a z H; constructor; cbn [undigits] in H;
    destruct ((0 <=? bz b - 48) && (bz b - 48 <=? 9)) eqn:D; try discriminate.
  - lia.
  - eapply IH; exact H.
Qed.

Lemma itoa_nonneg n : 0 <= n ->
  exists k, (0 < k)%nat /\ length (itoa n) = k /\
            (forall a, undigits (itoa n) a = Some (a * 10 ^ Z.of_nat k + n)) /\ n < 10 ^ Z.of_nat k.
Proof.
  intros Hn. unfold itoa. replace (n <? 0) with false by lia.
  destruct (digits_fuel_spec (S (Z.to_nat n)) n [] Hn ltac:(lia)) as (ds & Heq & Hlen & Hsp).
  rewrite app_nil_r in Heq. rewrite Heq. exists (length ds).
  split; [exact Hlen|]. split; [reflexivity|]. split.
  - intros a. apply (Hsp a).
  - apply (Hsp 0).
Qed.

Lemma itoa_first_not_sign n : 0 <= n -> exists b r, itoa n = b :: r /\ Byte.eqb b x2b = false /\ Byte.eqb b x2d = false.
Proof.
  intros Hn. destruct (itoa_nonneg n Hn) as (k & Hk & Hlen & Hu & _).
  destruct (itoa n) as [|b r] eqn:E; [simpl in Hlen; lia|].
  exists b, r. split; auto.
  specialize (Hu 0). cbn [undigits] in Hu.
  destruct ((0 <=? bz b - 48) && (bz b - 48 <=? 9)) eqn:D; [|discriminate].
  split; destruct (Byte.eqb _ _) eqn:F; auto; apply Byte.byte_dec_bl in F; subst b; vm_compute in D; discriminate.
Qed.

Lemma atoi_sprintf0d w n : 0 <= n -> atoi (sprintf0d w n) = Some n.
Proof.
  intros Hn. unfold sprintf0d.
  destruct (itoa_nonneg n Hn) as (k & Hk & Hlen & Hu & _).
  destruct (itoa_first_not_sign n Hn) as (b & r & Hi & Hp & Hm).
  assert (Hund : undigits (repeat x30 (w - length (itoa n)) ++ itoa n) 0 = Some n).
  { rewrite undigits_app, undigits_repeat0, Hu. f_equal; lia. }
  destruct (w - length (itoa n))%nat as [|j] eqn:Ej.
  - cbn [repeat app] in *. rewrite Hi in *. unfold atoi. rewrite Hp, Hm. exact Hund.
  - cbn [repeat app] in *. unfold atoi. change (Byte.eqb x30 x2b) with false. change (Byte.eqb x30 x2d) with false.
    exact Hund.
Qed.

Theorem C06_ascii_var_roundtrip d max n w :
  0 <= n -> enc_len d max n = Ok w ->
  length w = d /\ Forall (fun b => 48 <= bz b <= 57) w /\
  forall rest, dec_len d max (w ++ rest) = Ok (n, length w).
Proof.
  intros Hn He. unfold enc_len in He.
  destruct (max <? n) eqn:Hmax; [discriminate|].
  destruct (Nat.ltb d (length (itoa n))) eqn:Hd; [discriminate|].
  inversion He; subst w; clear He.
  apply Nat.ltb_ge in Hd.
  assert (Hlen : length (sprintf0d d n) = d).
  { unfold sprintf0d. rewrite app_length, repeat_length. lia. }
  split; [exact Hlen|]. split.
  - unfold sprintf0d. apply Forall_app. split.
    + apply Forall_forall. intros b Hb. apply repeat_spec in Hb. subst b. vm_compute. split; discriminate.
    + destruct (itoa_nonneg n Hn) as (k & _ & _ & Hu & _).
      eapply undigits_all_digits. apply (Hu 0).
  - intros rest. unfold dec_len.
    rewrite app_length, Hlen.
    replace (Nat.ltb (d + length rest) d) with false by (symmetry; apply Nat.ltb_ge; lia).
    rewrite <- Hlen at 1. rewrite firstn_app, Nat.sub_diag, firstn_all. cbn [firstn]. rewrite app_nil_r.
    rewrite atoi_sprintf0d by lia.
    replace (n <? 0) with false by lia. rewrite Hmax. reflexivity.
Qed.

Theorem C06_ascii_var_enc_fails_iff d max n : 0 <= n ->
  (enc_len d max n = Err <-> (max < n \/ (d < length (itoa n))%nat)).
Proof.
  intros Hn. unfold enc_len.
  destruct (max <? n) eqn:A; [split; auto; intros; left; lia|].
  destruct (Nat.ltb d (length (itoa n))) eqn:B.
  - apply Nat.ltb_lt in B. split; auto.
  - apply Nat.ltb_ge in B. split; [discriminate|]. intros [H|H]; lia.
Qed.

Theorem C06_ascii_var_dec_bounded d max data n r :
  dec_len d max data = Ok (n, r) -> 0 <= n <= max /\ r = d /\ (d <= length data)%nat.
Proof.
  unfold dec_len. destruct (Nat.ltb (length data) d) eqn:A; [discriminate|].
  destruct (atoi (firstn d data)) as [m|]; [|discriminate].
  destruct (m <? 0) eqn:B; [discriminate|]. destruct (max <? m) eqn:C; [discriminate|].
  intros H; inversion H; subst. apply Nat.ltb_ge in A. lia.
Qed.

Print Assumptions C06_ascii_var_roundtrip.
Print Assumptions C06_ascii_var_enc_fails_iff.
