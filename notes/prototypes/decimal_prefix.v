From Coq Require Import List NArith ZArith Lia Bool.
From Coq Require Import Init.Byte.
From Coq Require Import ZifyBool ZifyN ZifyNat.
Import ListNotations.
Open Scope N_scope.

(* decimal digits, most significant first, exactly w digits *)
Fixpoint dec_digits (w : nat) (n : N) : list N :=
  match w with
  | O => []
  | S w' => dec_digits w' (n / 10) ++ [n mod 10]
  end.

Fixpoint undec (ds : list N) (acc : N) : N :=
  match ds with
  | [] => acc
  | d :: ds' => undec ds' (acc * 10 + d)
  end.

Lemma undec_app ds1 ds2 acc : undec (ds1 ++ ds2) acc = undec ds2 (undec ds1 acc).
Proof. revert acc; induction ds1; simpl; auto. Qed.

Lemma undec_dec_digits w : forall n acc, n < 10 ^ N.of_nat w ->
  undec (dec_digits w n) acc = acc * 10 ^ N.of_nat w + n.
Proof.
  induction w as [|w IH]; intros n acc H.
  - simpl in *. lia.
  - cbn [dec_digits]. rewrite undec_app. cbn [undec].
    rewrite Nat2N.inj_succ, N.pow_succ_r' in *.
    rewrite IH.
    + pose proof (N.div_mod n 10). lia.
    + apply N.div_lt_upper_bound; lia.
Qed.

Definition digit_byte (d : N) : byte :=
  match Byte.of_N (48 + d) with Some b => b | None => x00 end.

Definition byte_digit (b : byte) : option N :=
  let n := Byte.to_N b in
  if (48 <=? n) && (n <=? 57) then Some (n - 48) else None.

Lemma byte_digit_digit d : d < 10 -> byte_digit (digit_byte d) = Some d.
Proof.
  intros H. unfold digit_byte, byte_digit.
  destruct (Byte.of_N (48 + d)) eqn:E.
  - apply Byte.to_of_N in E. rewrite E.
    replace (48 <=? 48 + d) with true by lia.
    replace (48 + d <=? 57) with true by lia.
    cbn [andb]. f_equal; lia.
  - apply Byte.of_N_None_iff in E. lia.
Qed.
Print Assumptions undec_dec_digits.
