From Coq Require Import List NArith ZArith Lia Bool.
From Coq Require Import Init.Byte.
From Coq Require Import ZifyBool ZifyN ZifyNat.
Import ListNotations.
Open Scope N_scope.

Definition byte_of_N (n : N) : byte := match Byte.of_N (n mod 256) with Some b => b | None => x00 end.
Lemma to_N_byte_of_N n : Byte.to_N (byte_of_N n) = n mod 256.
Proof.
  unfold byte_of_N. destruct (Byte.of_N (n mod 256)) eqn:E.
  - now apply Byte.to_of_N in E.
  - apply Byte.of_N_None_iff in E. pose proof (N.mod_upper_bound n 256). lia.
Qed.

Definition bor (b : byte) (m : N) : byte := byte_of_N (N.lor (Byte.to_N b) m).
Definition btest (b : byte) (i : N) : bool := N.testbit (Byte.to_N b) i.

Lemma btest_bor b i j : i < 8 -> j < 8 -> btest (bor b (2 ^ j)) i = (i =? j) || btest b i.
Proof.
  intros Hi Hj. unfold btest, bor. rewrite to_N_byte_of_N.
  change 256 with (2 ^ 8). rewrite N.mod_pow2_bits_low by lia.
  rewrite N.lor_spec, N.pow2_bits_eqb. rewrite orb_comm. f_equal.
  rewrite N.eqb_sym. reflexivity.
Qed.

(* update nth *)
Fixpoint upd {A} (l : list A) (i : nat) (f : A -> A) : list A :=
  match l, i with
  | [], _ => []
  | x :: r, O => f x :: r
  | x :: r, S i' => x :: upd r i' f
  end.
Lemma nth_upd {A} (l : list A) i j f d : (i < length l)%nat ->
  nth j (upd l i f) d = if Nat.eqb j i then f (nth j l d) else nth j l d.
Proof.
  revert i j; induction l as [|x r IH]; intros i j H; simpl in H; [lia|].
  destruct i, j; simpl; auto.
  - destruct (Nat.eqb j i) eqn:E; rewrite IH by lia; rewrite E; auto.
Qed.
Lemma length_upd {A} (l : list A) i f : length (upd l i f) = length l.
Proof. revert i; induction l; destruct i; simpl; auto. Qed.

(* 1-indexed, MSB first *)
Definition set_bit (data : list byte) (n : N) : list byte :=
  upd data (N.to_nat ((n - 1) / 8)) (fun b => bor b (2 ^ (7 - (n - 1) mod 8))).
Definition is_set (data : list byte) (n : N) : bool :=
  if (n =? 0) || (N.of_nat (length data) * 8 <? n) then false
  else btest (nth (N.to_nat ((n - 1) / 8)) data x00) (7 - (n - 1) mod 8).

Lemma is_set_set data n k :
  1 <= n <= N.of_nat (length data) * 8 -> 1 <= k <= N.of_nat (length data) * 8 ->
  is_set (set_bit data n) k = (k =? n) || is_set data k.
Proof.
  intros Hn Hk. unfold is_set, set_bit. rewrite length_upd.
  replace (k =? 0) with false by lia.
  replace (N.of_nat (length data) * 8 <? k) with false by lia. cbn [orb].
  rewrite nth_upd by (pose proof (N.div_mod (n-1) 8); lia).
  destruct (Nat.eqb _ _) eqn:E.
  - apply Nat.eqb_eq in E. rewrite btest_bor by (pose proof (N.mod_upper_bound (n-1) 8); pose proof (N.mod_upper_bound (k-1) 8); lia).
    f_equal. pose proof (N.div_mod (n-1) 8). pose proof (N.div_mod (k-1) 8).
    pose proof (N.mod_upper_bound (n-1) 8); pose proof (N.mod_upper_bound (k-1) 8).
    assert ((k-1)/8 = (n-1)/8) by lia.
    destruct (k =? n) eqn:?; destruct (7 - (k - 1) mod 8 =? 7 - (n - 1) mod 8) eqn:?; lia.
  - apply Nat.eqb_neq in E.
    replace (k =? n) with false; auto.
    destruct (k =? n) eqn:F; auto. apply N.eqb_eq in F. subst. congruence.
Qed.
Print Assumptions is_set_set.
