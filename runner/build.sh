#!/bin/sh
# builds runner/run from the extracted model; run after `make` in ../coq
set -e
cd "$(dirname "$0")"
(cd ../coq && coqc -Q . Iso Extract.v >/dev/null && mv -f model.ml model.mli ../runner/)
ocamlfind ocamlopt -O3 -w -a -package str model.mli model.ml driver.ml -o run 2>/dev/null || ocamlfind ocamlopt -w -a model.mli model.ml driver.ml -o run
