(* Driver for the extracted model: one case per input line, one result line per case.
   Only glue: char <-> extracted byte conversion through the extracted list all_bytes. *)
let byte_of_char : Model.byte array = Array.of_list Model.all_bytes
let char_of_byte : (Model.byte, char) Hashtbl.t =
  let h = Hashtbl.create 256 in
  Array.iteri (fun i b -> Hashtbl.replace h b (Char.chr i)) byte_of_char; h
let to_bytes (s : string) : Model.byte list =
  List.init (String.length s) (fun i -> byte_of_char.(Char.code s.[i]))
let of_bytes (l : Model.byte list) : string =
  let b = Buffer.create 64 in
  List.iter (fun x -> Buffer.add_char b (Hashtbl.find char_of_byte x)) l; Buffer.contents b
let () =
  try
    while true do
      let line = input_line stdin in
      print_string (of_bytes (Model.run_case (to_bytes line)));
      print_newline ()
    done
  with End_of_file -> ()
