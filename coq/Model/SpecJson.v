(* specs/builder.go: ExportJSON / ImportJSON on the level of parsed JSON documents. *)
From Coq Require Import Strings.String.
From Iso Require Import Model.Base Model.Sexp Model.Padding Model.Encoding Model.Prefix Model.Bitmap Model.Spec Model.Field Model.Message
     Model.MessageOps.

Definition Q (s : string) : bytes := list_byte_of_string s.

(* what a field of an imported or exported spec can be *)
Inductive sfield : Type :=
| SFPrim (p : pspec)
| SFBitmap (b : bmspec)
| SFComp (pref : prefixer) (len : Z) (pad : padder) (mode : option cmode) (subs : list (bytes * sfield))
| SFTrack2 (p : pspec)                                                        (* "type":"Track2" *)
| SFOdd (ty : bytes) (pref : prefixer) (len : Z) (pad : padder) (dae : bool). (* a primitive type over a definition with subfields: no encoding *)

(* ---- names (EncodingsIntToExt / EncodingsExtToInt, prefix Inspect() / PrefixesExtToInt, ...) ---- *)
Definition enc_ext_name (e : encoder) : option bytes :=
  match e with
  | EncASCII => Some (Q "ASCII") | EncBCD => Some (Q "BCD") | EncEBCDIC => Some (Q "EBCDIC") | EncBinary => Some (Q "Binary")
  | EncHex => Some (Q "HexToASCII") | EncHexToBytes => Some (Q "ASCIIToHex") | EncLBCD => Some (Q "LBCD")
  | EncEBCDIC1047 | EncBerTag => None     (* no entry in EncodingsIntToExt: export fails *)
  end.
Definition enc_of_name (n : bytes) : option encoder :=
  if bytes_eqb n (Q "ASCII") then Some EncASCII else if bytes_eqb n (Q "BCD") then Some EncBCD
  else if bytes_eqb n (Q "EBCDIC") then Some EncEBCDIC else if bytes_eqb n (Q "Binary") then Some EncBinary
  else if bytes_eqb n (Q "HexToASCII") then Some EncHex else if bytes_eqb n (Q "ASCIIToHex") then Some EncHexToBytes
  else if bytes_eqb n (Q "LBCD") then Some EncLBCD else if bytes_eqb n (Q "BerTLVTag") then Some EncBerTag else None.

Definition fam_name (f : pfamily) : bytes :=
  match f with PfASCII => Q "ASCII" | PfBCD => Q "BCD" | PfBinary => Q "Binary" | PfHex => Q "Hex" | PfEBCDIC => Q "EBCDIC" | PfEBCDIC1047 => Q "EBCDIC1047" end.
Definition pref_name (p : prefixer) : bytes :=
  match p with
  | PFixed f => fam_name f ++ Q ".Fixed"
  | PVar f d => fam_name f ++ Q "." ++ repeat x4c d
  | PBerTLV => Q "BerTLV"
  | PNone => Q "None.Fixed"
  end.
(* PrefixesExtToInt: 5 families x {Fixed, L..LLLL}, BerTLV, None.Fixed *)
Definition pref_of_name (n : bytes) : option prefixer :=
  let cands := PNone :: PBerTLV ::
    flat_map (fun f => PFixed f :: map (PVar f) [1%nat; 2%nat; 3%nat; 4%nat]) [PfASCII; PfBCD; PfHex; PfEBCDIC; PfBinary] in
  find (fun p => bytes_eqb (pref_name p) n) cands.

Definition sort_name (f : sortfn) : bytes :=
  match f with SortStrings => Q "Strings" | SortByInt => Q "StringsByInt" | SortByHex => Q "StringsByHex" end.
Definition sort_of_name (n : bytes) : option sortfn :=
  if bytes_eqb n (Q "StringsByInt") then Some SortByInt else if bytes_eqb n (Q "StringsByHex") then Some SortByHex else None.

Definition kind_name (k : fkind) : bytes :=
  match k with KString => Q "String" | KNumeric => Q "Numeric" | KBinary => Q "Binary" | KHex => Q "Hex" end.

(* ---- export ---- *)
Definition opt_kv (k : bytes) (v : option jdoc) : list (bytes * jdoc) := match v with Some d => [(k, d)] | None => [] end.
Definition nz_int (z : Z) : option jdoc := if z =? 0 then None else Some (JN z).
Definition ne_str (s : bytes) : option jdoc := match s with [] => None | _ => Some (JS s) end.

Definition export_pad (p : padder) : option jdoc :=
  match p with
  | PadNone => None            (* a nil Pad is left out *)
  | PadLeft c => Some (JO [(Q "type", JS (Q "Left")); (Q "pad", JS [c])])
  | PadRight c => Some (JO [(Q "type", JS (Q "Right")); (Q "pad", JS [c])])
  end.

Definition export_bitmap (b : bmspec) : outcome jdoc :=
  match enc_ext_name (bm_enc b) with
  | None => Err (Q "export.unknown_encoding")
  | Some en =>
      Ok (JO ([(Q "type", JS (Q "Bitmap"))] ++ opt_kv (Q "length") (nz_int (bm_len b)) ++ [(Q "enc", JS en); (Q "prefix", JS (pref_name (bm_pref b)))]
              ++ opt_kv (Q "disableAutoExpand") (if bm_auto b then None else Some (JB true))))
  end.

Fixpoint export_field (s : fspec) : outcome jdoc :=
  match s with
  | FPrim p =>
      match enc_ext_name (ps_enc p) with
      | None => Err (Q "export.unknown_encoding")
      | Some en =>
          Ok (JO ([(Q "type", JS (kind_name (ps_kind p)))] ++ opt_kv (Q "length") (nz_int (ps_len p)) ++ [(Q "enc", JS en); (Q "prefix", JS (pref_name (ps_pref p)))]
                  ++ opt_kv (Q "padding") (export_pad (ps_pad p))))
      end
  | FComp pref len mode subs =>
      do subdocs <- (fix go (l : list (bytes * fspec)) : outcome (list (bytes * jdoc)) :=
                       match l with
                       | [] => Ok []
                       | (t, s') :: r => do d <- export_field s'; do ds <- go r; Ok ((t, d) :: ds)
                       end) subs;
      do modekv <- match mode with
                   | CTag t =>
                       match (match tg_enc t with None => Some None | Some e => option_map Some (enc_ext_name e) end) with
                       | None => Err (Q "export.unknown_encoding")
                       | Some en =>
                           Ok [(Q "tag", JO (opt_kv (Q "length") (nz_int (tg_len t)) ++ opt_kv (Q "enc") (match en with Some n => Some (JS n) | None => None end)
                                             ++ opt_kv (Q "padding") (export_pad (tg_pad t)) ++ [(Q "sort", JS (sort_name (tg_sort t)))]))]
                       end
                   | CBitmap b => do bd <- export_bitmap b; Ok [(Q "bitmap", bd)]
                   end;
      Ok (JO ([(Q "type", JS (Q "Composite"))] ++ opt_kv (Q "length") (nz_int len) ++ [(Q "prefix", JS (pref_name pref))]
              ++ (match modekv with [(k, v)] => if bytes_eqb k (Q "tag") then [(k, v)] else [] | _ => [] end)
              ++ [(Q "subfields", JO subdocs)]
              ++ (match modekv with [(k, v)] => if bytes_eqb k (Q "bitmap") then [(k, v)] else [] | _ => [] end)))
  end.

Definition export_spec (S : mspec) : outcome jdoc :=
  do mti <- export_field (FPrim (ms_mti S));
  do bm <- export_bitmap (ms_bm S);
  do fl <- (fix go (l : list (Z * fspec)) : outcome (list (bytes * jdoc)) :=
              match l with
              | [] => Ok []
              | (id, s) :: r => do d <- export_field s; do ds <- go r; Ok ((itoa id, d) :: ds)
              end) (ms_fields S);
  Ok (JO [(Q "name", JS (Q "gen")); (Q "fields", JO ((Q "0", mti) :: (Q "1", bm) :: fl))]).

(* ---- import: encoding/json into the dummy structs (null = zero value), then importField ---- *)
Definition jget (k : bytes) (kvs : list (bytes * jdoc)) : jdoc := match blookup k kvs with Some d => d | None => JNull end.
Definition j_str (d : jdoc) : outcome bytes := match d with JS s => Ok s | JNull => Ok [] | _ => Err (Q "json.type") end.
Definition j_int (d : jdoc) : outcome Z :=
  match d with JN z => if (- two63 <=? z) && (z <? two63) then Ok z else Err (Q "json.range") | JNull => Ok 0 | _ => Err (Q "json.type") end.
Definition j_bool (d : jdoc) : outcome bool := match d with JB b => Ok b | JNull => Ok false | _ => Err (Q "json.type") end.
Definition j_obj (d : jdoc) : outcome (option (list (bytes * jdoc))) :=
  match d with JO kvs => Ok (Some kvs) | JNull => Ok None | _ => Err (Q "json.type") end.

(* PaddersExtToInt: a single-character pad for Left/Right, else no padder *)
Definition import_pad (d : jdoc) : outcome padder :=
  do o <- j_obj d;
  match o with
  | None => Ok PadNone
  | Some kvs =>
      do ty <- j_str (jget (Q "type") kvs);
      do pd <- j_str (jget (Q "pad") kvs);
      match pd with
      | [c] => if bytes_eqb ty (Q "Left") then (if bz c <? 128 then Ok (PadLeft c) else Err (Q "import.multibyte_pad"))
               else if bytes_eqb ty (Q "Right") then (if bz c <? 128 then Ok (PadRight c) else Err (Q "import.multibyte_pad"))
               else Ok PadNone
      | _ => Ok PadNone
      end
  end.

(* the decoded dummy of one field *)
Record dummy : Type := {
  d_type : bytes; d_len : Z; d_enc : bytes; d_pref : bytes; d_pad : padder; d_tag : option (Z * bytes * padder * bytes);
  d_subs : list (bytes * jdoc); d_bitmap : jdoc; d_dae : bool; d_isnull : bool }.

Definition decode_dummy (d : jdoc) : outcome dummy :=
  do o <- j_obj d;
  match o with
  | None => Ok {| d_type := []; d_len := 0; d_enc := []; d_pref := []; d_pad := PadNone; d_tag := None; d_subs := []; d_bitmap := JNull; d_dae := false; d_isnull := true |}
  | Some kvs =>
      do ty <- j_str (jget (Q "type") kvs);
      do ln <- j_int (jget (Q "length") kvs);
      do en <- j_str (jget (Q "enc") kvs);
      do pf <- j_str (jget (Q "prefix") kvs);
      do _desc <- j_str (jget (Q "description") kvs);
      do pd <- import_pad (jget (Q "padding") kvs);
      do tg <- (do t <- j_obj (jget (Q "tag") kvs);
                match t with
                | None => Ok None
                | Some tk => do tl <- j_int (jget (Q "length") tk); do te <- j_str (jget (Q "enc") tk);
                             do tp <- import_pad (jget (Q "padding") tk); do ts <- j_str (jget (Q "sort") tk);
                             Ok (Some (tl, te, tp, ts))
                end);
      do sb <- j_obj (jget (Q "subfields") kvs);
      do dae <- j_bool (jget (Q "disableAutoExpand") kvs);
      (* the bitmap member is itself a dummy: its JSON types are checked when the whole document is decoded *)
      Ok {| d_type := ty; d_len := ln; d_enc := en; d_pref := pf; d_pad := pd; d_tag := tg;
            d_subs := match sb with Some l => l | None => [] end; d_bitmap := jget (Q "bitmap") kvs; d_dae := dae; d_isnull := false |}
  end.

(* json.Unmarshal decodes the whole document first: any type error anywhere fails the import *)
Fixpoint json_types_ok (fuel : nat) (d : jdoc) : bool :=
  match fuel with
  | O => true
  | S f =>
      match decode_dummy d with
      | Ok dm => forallb (fun kv => json_types_ok f (snd kv)) (d_subs dm) && json_types_ok f (d_bitmap dm)
      | _ => false
      end
  end.

Definition known_type (t : bytes) : bool :=
  bytes_eqb t (Q "String") || bytes_eqb t (Q "Numeric") || bytes_eqb t (Q "Binary") || bytes_eqb t (Q "Bitmap") ||
  bytes_eqb t (Q "Composite") || bytes_eqb t (Q "Track2").

(* Spec.Validate for composites (run by the import since the repair of F18) *)
Definition composite_valid (pad : padder) (tag : option (Z * option encoder * padder * option sortfn)) (bm : option bmspec) (subkeys : list bytes) : bool :=
  match bm, tag with
  | Some b, None => negb (bm_auto b) && forallb (fun k => match atoi k with Some n => 0 <? n | None => false end) subkeys
  | None, Some (tl, te, _, ts) =>
      match ts with None => false | Some _ => match te with None => negb (0 <? tl) | Some _ => true end end
  | _, _ => false
  end.

(* the subfields of one composite document, given the importer for the level below *)
Fixpoint import_subs (imp : jdoc -> outcome sfield) (l : list (bytes * jdoc)) : outcome (list (bytes * sfield)) :=
  match l with
  | [] => Ok []
  | (k, sd) :: r =>
      do sf <- imp sd;
      do sdm <- decode_dummy sd;
      if negb (known_type (d_type sdm)) then Err (Q "import.no_constructor") else
      do rest <- import_subs imp r; Ok ((k, sf) :: rest)
  end.

Fixpoint import_field (fuel : nat) (d : jdoc) : outcome sfield :=
  match fuel with
  | O => OutOfFuel
  | S f =>
      do dm <- decode_dummy d;
      if d_isnull dm then Err (Q "import.missing_definition") else
      if d_len dm <? 0 then Err (Q "import.negative_length") else
      match pref_of_name (d_pref dm) with
      | None => Err (Q "import.unknown_prefix")
      | Some pref =>
          match d_subs dm with
          | [] =>
              match enc_of_name (d_enc dm) with
              | None => Err (Q "import.unknown_encoding")
              | Some e =>
                  if bytes_eqb (d_type dm) (Q "Composite") then
                    (* a composite without subfields: Enc is set, so Validate rejects it *)
                    Err (Q "import.invalid_composite")
                  else if bytes_eqb (d_type dm) (Q "Bitmap") then
                    Ok (SFBitmap {| bm_len := d_len dm; bm_auto := negb (d_dae dm); bm_enc := e; bm_pref := pref |})
                  else if bytes_eqb (d_type dm) (Q "Track2") then
                    Ok (SFTrack2 {| ps_kind := KString; ps_enc := e; ps_pref := pref; ps_len := d_len dm; ps_pad := d_pad dm; ps_packer := PkDefault |})
                  else
                    let k := if bytes_eqb (d_type dm) (Q "Numeric") then KNumeric else if bytes_eqb (d_type dm) (Q "Binary") then KBinary else KString in
                    Ok (SFPrim {| ps_kind := k; ps_enc := e; ps_pref := pref; ps_len := d_len dm; ps_pad := d_pad dm; ps_packer := PkDefault |})
              end
          | subs =>
              do subspecs <- import_subs (import_field f) subs;
              let tag := match d_tag dm with
                         | None => None
                         | Some (tl, te, tp, ts) => Some (tl, enc_of_name te, tp, sort_of_name ts)
                         end in
              do bm <- match d_bitmap dm with
                       | JNull => Ok None
                       | bd => do b <- import_field f bd;
                               match b with
                               | SFBitmap bs => Ok (Some bs)
                               | SFPrim p => do bdm <- decode_dummy bd;
                                             Ok (Some {| bm_len := ps_len p; bm_auto := negb (d_dae bdm); bm_enc := ps_enc p; bm_pref := ps_pref p |})
                               | SFTrack2 p => do bdm <- decode_dummy bd;
                                               Ok (Some {| bm_len := ps_len p; bm_auto := negb (d_dae bdm); bm_enc := ps_enc p; bm_pref := ps_pref p |})
                               | SFComp _ _ _ _ _ | SFOdd _ _ _ _ _ => Err (Q "import.bitmap_with_subfields")
                               end
                       end;
              if bytes_eqb (d_type dm) (Q "Composite") && negb (composite_valid (d_pad dm) tag bm (map fst subs) && match d_pad dm with PadNone => true | _ => false end)
              then Err (Q "import.invalid_composite")
              else
                let mode := match bm, tag with
                            | Some b, _ => Some (CBitmap b)
                            | None, Some (tl, te, tp, Some ts) => Some (CTag {| tg_len := tl; tg_enc := te; tg_pad := tp; tg_sort := ts; tg_skip := false; tg_prefunk := None |})
                            | _, _ => None
                            end in
                if bytes_eqb (d_type dm) (Q "Composite") then Ok (SFComp pref (d_len dm) (d_pad dm) mode subspecs)
                else Ok (SFOdd (d_type dm) pref (d_len dm) (d_pad dm) (d_dae dm))
          end
      end
  end.

Fixpoint import_fields (l : list (bytes * jdoc)) : outcome (list (Z * (bytes * sfield))) :=
  match l with
  | [] => Ok []
  | (k, fd) :: r =>
      match atoi k with
      | None => Err (Q "import.index")
      | Some id =>
          do sf <- import_field 8%nat fd;
          do dm <- decode_dummy fd;
          if negb (known_type (d_type dm)) then Err (Q "import.no_constructor") else
          do rest <- import_fields r; Ok ((id, (d_type dm, sf)) :: rest)
      end
  end.

Definition import_spec (d : jdoc) : outcome (list (Z * (bytes * sfield))) :=
  if negb (json_types_ok 8%nat (JO [(Q "subfields", match d with JO kvs => jget (Q "fields") kvs | _ => JNull end); (Q "prefix", JS (Q "x"))])) then Err (Q "json.type") else
  match d with
  | JO kvs =>
      do _n <- j_str (jget (Q "name") kvs);
      do fo <- j_obj (jget (Q "fields") kvs);
      match fo with
      | None => Err (Q "import.no_fields")
      | Some [] => Err (Q "import.no_fields")
      | Some fl =>
          import_fields fl
      end
  | _ => Err (Q "json.type")
  end.

(* ---- canonical printing ---- *)
Definition enc_term_name (e : encoder) : bytes :=
  match e with
  | EncASCII => Q "ASCII" | EncBinary => Q "Binary" | EncBCD => Q "BCD" | EncLBCD => Q "LBCD" | EncHex => Q "Hex"
  | EncHexToBytes => Q "HexToBytes" | EncEBCDIC => Q "EBCDIC" | EncEBCDIC1047 => Q "EBCDIC1047" | EncBerTag => Q "BerTag"
  end.
Definition show_pad (p : padder) : bytes :=
  match p with PadNone => Q "N x00" | PadLeft c => Q "L " ++ show_hex [c] | PadRight c => Q "R " ++ show_hex [c] end.
Definition show_bm (tagname : bytes) (b : bmspec) : bytes :=
  Q "(" ++ tagname ++ sp ++ show_int (bm_len b) ++ sp ++ (if bm_auto b then Q "1" else Q "0") ++ sp ++ enc_term_name (bm_enc b) ++ sp ++ pref_name (bm_pref b) ++ Q ")".

Fixpoint show_sfield (s : sfield) : bytes :=
  match s with
  | SFPrim p => Q "(P " ++ kind_name (ps_kind p) ++ sp ++ enc_term_name (ps_enc p) ++ sp ++ pref_name (ps_pref p) ++ sp ++ show_int (ps_len p) ++ sp ++ show_pad (ps_pad p) ++ Q " D)"
  | SFBitmap b => show_bm (Q "BM") b
  | SFTrack2 p => Q "(P Track2 " ++ enc_term_name (ps_enc p) ++ sp ++ pref_name (ps_pref p) ++ sp ++ show_int (ps_len p) ++ sp ++ show_pad (ps_pad p) ++ Q " D)"
  | SFOdd ty pref len pad dae =>
      if bytes_eqb ty (Q "Bitmap") then Q "(BM " ++ show_int len ++ sp ++ (if dae then Q "0" else Q "1") ++ Q " nil " ++ pref_name pref ++ Q ")"
      else Q "(P " ++ ty ++ Q " nil " ++ pref_name pref ++ sp ++ show_int len ++ sp ++ show_pad pad ++ Q " D)"
  | SFComp pref len pad mode subs =>
      let shown := (fix go (l : list (bytes * sfield)) : list (bytes * bytes) :=
                      match l with [] => [] | (t, s') :: r => (t, show_sfield s') :: go r end) subs in
      let sorted := fold_right (fun x acc => (fix ins (x : bytes * bytes) (l : list (bytes * bytes)) : list (bytes * bytes) :=
                                                 match l with [] => [x] | y :: r => if bytes_ltb (fst y) (fst x) then y :: ins x r else x :: l end) x acc) [] shown in
      Q "(C " ++ pref_name pref ++ sp ++ show_int len ++ sp ++
      match mode with
      | Some (CTag t) => Q "(T " ++ show_int (tg_len t) ++ sp ++ match tg_enc t with Some e => enc_term_name e | None => Q "nil" end ++ sp ++ show_pad (tg_pad t) ++ sp ++
                         match tg_sort t with SortStrings => Q "Strings" | SortByInt => Q "ByInt" | SortByHex => Q "ByHex" end ++ Q " 0 nil)"
      | Some (CBitmap b) => Q "(B " ++ show_int (bm_len b) ++ sp ++ enc_term_name (bm_enc b) ++ sp ++ pref_name (bm_pref b) ++ Q ")"
      | None => Q "nomode"
      end ++ Q " (" ++ join sp (map (fun '(t, v) => Q "(" ++ show_hex t ++ sp ++ v ++ Q ")") sorted) ++ Q "))"
  end.

Fixpoint show_jdoc (fuel : nat) (d : jdoc) : bytes :=
  match fuel with
  | O => Q "?"
  | S f =>
      match d with
      | JS s => Q "(js " ++ show_hex s ++ Q ")"
      | JN z => Q "(jn " ++ show_int z ++ Q ")"
      | JB b => if b then Q "(jb 1)" else Q "(jb 0)"
      | JNull => Q "(jnull)"
      | JO kvs =>
          let shown := map (fun kv => (fst kv, show_jdoc f (snd kv))) kvs in
          let sorted := fold_right (fun x acc => (fix ins (x : bytes * bytes) (l : list (bytes * bytes)) : list (bytes * bytes) :=
                                                     match l with [] => [x] | y :: r => if bytes_ltb (fst y) (fst x) then y :: ins x r else x :: l end) x acc) [] shown in
          Q "(jo (" ++ join sp (map (fun '(k, v) => Q "(" ++ show_hex k ++ sp ++ v ++ Q ")") sorted) ++ Q "))"
      end
  end.

Definition insert_idrow (x : Z * bytes) : list (Z * bytes) -> list (Z * bytes) :=
  fix ins (l : list (Z * bytes)) : list (Z * bytes) :=
    match l with [] => [x] | y :: r => if fst y <? fst x then y :: ins r else x :: l end.

Definition show_import (r : outcome (list (Z * (bytes * sfield)))) : bytes :=
  match r with
  | Ok rows =>
      let shown := map (fun '(id, (ty, sf)) => (id, Q "(" ++ show_int id ++ sp ++ show_sfield sf ++ Q ")")) rows in
      Q "ok (" ++ join sp (map snd (fold_right insert_idrow [] shown)) ++ Q ")"
  | Err _ => Q "err"
  | Panic _ => Q "panic"
  | OutOfFuel => Q "outoffuel"
  end.
