(* C13: threads calling methods of one shared object guarded by one mutex (sync.Mutex: not reentrant).
   A method invocation is a list of atomic steps; the small-step machine interleaves the threads' steps. *)
From Coq Require Import List Arith Bool Strings.String Lia.
Import ListNotations.

Inductive step : Type := SAcq | SRel | SAcc (call : nat).   (* SAcc c: an access to guarded state made by invocation c *)

(* what the lock summary says about a method *)
Record mshape : Type := { sh_locks : bool; sh_accesses : nat; sh_nested_lock : bool }.

(* the steps of one invocation (identified by c): a locking method brackets its accesses; a method that calls another
   locking method of the same receiver while holding the lock tries to acquire again *)
Definition invocation (c : nat) (m : mshape) : list step :=
  if sh_locks m
  then SAcq :: (repeat (SAcc c) (sh_accesses m) ++ (if sh_nested_lock m then [SAcq; SRel] else [])) ++ [SRel]
  else repeat (SAcc c) (sh_accesses m).   (* calls it makes to locking methods are invocations of their own *)

Definition well_locked (m : mshape) : bool :=
  (sh_locks m || Nat.eqb (sh_accesses m) 0) && negb (sh_locks m && sh_nested_lock m).

(* machine state: who holds the mutex, and what each thread still has to do *)
Record mach : Type := { holder : option nat; threads : list (list step) }.

Definition nth_thread (s : mach) (t : nat) : list step := nth t (threads s) [].
Fixpoint set_nth {A} (l : list A) (t : nat) (v : A) : list A :=
  match l, t with
  | [], _ => []
  | _ :: r, O => v :: r
  | x :: r, S t' => x :: set_nth r t' v
  end.

(* thread t takes its next step *)
Inductive mstep : mach -> nat -> step -> mach -> Prop :=
| st_acq : forall s t rest, nth_thread s t = SAcq :: rest -> holder s = None ->
    mstep s t SAcq {| holder := Some t; threads := set_nth (threads s) t rest |}
| st_rel : forall s t rest, nth_thread s t = SRel :: rest ->
    mstep s t SRel {| holder := None; threads := set_nth (threads s) t rest |}
| st_acc : forall s t c rest, nth_thread s t = SAcc c :: rest ->
    mstep s t (SAcc c) {| holder := holder s; threads := set_nth (threads s) t rest |}.

(* an execution: a sequence of (thread, step) labels *)
Inductive exec : mach -> list (nat * step) -> mach -> Prop :=
| ex_nil : forall s, exec s [] s
| ex_cons : forall s t a s' tr s'', mstep s t a s' -> exec s' tr s'' -> exec s ((t, a) :: tr) s''.

(* a thread is inside a critical section when what it still has to do starts in the middle of a locked body *)
Fixpoint in_cs (l : list step) : bool :=
  match l with
  | SAcc _ :: r => in_cs r
  | SRel :: _ => true
  | _ => false
  end.
