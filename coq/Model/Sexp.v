(* The case language: s-expressions over bytes. Atoms are runs of bytes other than space and
   parentheses. Byte strings are atoms "x<hex>", integers decimal atoms with optional '-'. *)
From Iso Require Import Model.Base.

Inductive sexp : Type :=
| Atom (a : bytes)
| SList (l : list sexp).

Inductive token : Type := TOpen | TClose | TAtom (a : bytes).

Definition is_space (b : byte) : bool := Byte.eqb b x20 || Byte.eqb b x09 || Byte.eqb b x0a || Byte.eqb b x0d.

(* tokenizer: cur = current atom, reversed *)
Fixpoint tokenize (l : bytes) (cur : bytes) (acc : list token) : list token :=
  let flush acc := match cur with [] => acc | _ => TAtom (frev cur) :: acc end in
  match l with
  | [] => frev (flush acc)
  | b :: r =>
      if Byte.eqb b x28 then tokenize r [] (TOpen :: flush acc)
      else if Byte.eqb b x29 then tokenize r [] (TClose :: flush acc)
      else if is_space b then tokenize r [] (flush acc)
      else tokenize r (b :: cur) acc
  end.

(* parser with an explicit stack of partially built lists (each reversed) *)
Fixpoint parse_tokens (ts : list token) (stack : list (list sexp)) : option sexp :=
  match ts with
  | [] => match stack with
          | [[s]] => Some s
          | _ => None
          end
  | TOpen :: r => parse_tokens r ([] :: stack)
  | TClose :: r =>
      match stack with
      | top :: next :: rest => parse_tokens r ((SList (frev top) :: next) :: rest)
      | _ => None
      end
  | TAtom a :: r =>
      match stack with
      | top :: rest => parse_tokens r ((Atom a :: top) :: rest)
      | [] => None
      end
  end.

Definition parse_sexp (l : bytes) : option sexp := parse_tokens (tokenize l [] []) [[]].

(* ---- typed readers ---- *)
Definition as_atom (s : sexp) : option bytes := match s with Atom a => Some a | _ => None end.
Definition as_list (s : sexp) : option (list sexp) := match s with SList l => Some l | _ => None end.

Definition as_hex (s : sexp) : option bytes :=
  match s with
  | Atom (b :: r) => if Byte.eqb b x78 then hex_decode r else None
  | _ => None
  end.

Definition as_int (s : sexp) : option Z :=
  match s with
  | Atom (b :: r) =>
      if Byte.eqb b x2d then match r with [] => None | _ => option_map Z.opp (undigits r 0) end
      else undigits (b :: r) 0
  | _ => None
  end.

Definition as_nat (s : sexp) : option nat := option_map Z.to_nat (as_int s).

Definition as_byte (s : sexp) : option byte :=
  match as_hex s with Some [b] => Some b | _ => None end.

Definition as_bool (s : sexp) : option bool :=
  match as_int s with Some 0 => Some false | Some 1 => Some true | _ => None end.

Definition atom_is (s : sexp) (name : bytes) : bool :=
  match s with Atom a => bytes_eqb a name | _ => false end.

Fixpoint map_opt {A B} (f : A -> option B) (l : list A) : option (list B) :=
  match l with
  | [] => Some []
  | a :: r => match f a, map_opt f r with
              | Some b, Some t => Some (b :: t)
              | _, _ => None
              end
  end.

(* ---- printers for results ---- *)
Definition show_hex (l : bytes) : bytes := x78 :: hex_encode_lower l.
Definition show_int (z : Z) : bytes := itoa z.
Definition sp : bytes := [x20].

Fixpoint join (sep : bytes) (l : list bytes) : bytes :=
  match l with
  | [] => []
  | [a] => a
  | a :: r => a ++ sep ++ join sep r
  end.
