(* The case language interpreter: one case (an s-expression) in, one canonical result line out.
   The same function is evaluated in-kernel (vm_compute) and extracted to OCaml. *)
From Coq Require Import Strings.String.
From Iso Require Import Model.Base Model.Sexp Model.Padding Model.Encoding Model.Prefix Model.Network Model.Bitmap Model.Spec Model.Field Model.Message Model.Json Model.MessageOps Model.Describe Model.SpecJson Model.Marshal Model.Track Model.Terms.

Definition S' (s : string) : bytes := list_byte_of_string s.

Definition bad : bytes := S' "badcase".

Definition run_pad (args : list sexp) : bytes :=
  match args with
  | [k; pb; n; d; spare] =>
      match parse_padder k pb, as_int n, as_hex d, as_hex spare with
      | Some p, Some n, Some d, Some spare =>
          let '(r, sp') := pad_mem p d spare n in show_hex r ++ sp ++ show_hex sp'
      | _, _, _, _ => bad
      end
  | _ => bad
  end.

Definition run_unpad (args : list sexp) : bytes :=
  match args with
  | [k; pb; d] =>
      match parse_padder k pb, as_hex d with
      | Some p, Some d => show_hex (unpad p d)
      | _, _ => bad
      end
  | _ => bad
  end.

Definition show_outcome {A} (show : A -> bytes) (o : outcome A) : bytes :=
  match o with
  | Ok a => S' "ok " ++ show a
  | Err _ => S' "err"
  | Panic _ => S' "panic"
  | OutOfFuel => S' "outoffuel"
  end.

Definition run_enc_enc (args : list sexp) : bytes :=
  match args with
  | [e; d] =>
      match parse_encoder e, as_hex d with
      | Some e, Some d => show_outcome show_hex (enc_encode e d)
      | _, _ => bad
      end
  | _ => bad
  end.

Definition run_enc_dec (args : list sexp) : bytes :=
  match args with
  | [e; n; d] =>
      match parse_encoder e, as_int n, as_hex d with
      | Some e, Some n, Some d =>
          show_outcome (fun '(v, r) => show_hex v ++ sp ++ show_int r) (enc_decode e d n)
      | _, _, _ => bad
      end
  | _ => bad
  end.

Definition run_pref_enc (args : list sexp) : bytes :=
  match args with
  | [p; mx; n] =>
      match parse_prefixer p, as_int mx, as_int n with
      | Some p, Some mx, Some n => show_outcome show_hex (enc_len p mx n)
      | _, _, _ => bad
      end
  | _ => bad
  end.

Definition run_pref_dec (args : list sexp) : bytes :=
  match args with
  | [p; mx; d] =>
      match parse_prefixer p, as_int mx, as_hex d with
      | Some p, Some mx, Some d =>
          show_outcome (fun '(n, r) => show_int n ++ sp ++ show_int r) (dec_len p mx d)
      | _, _, _ => bad
      end
  | _ => bad
  end.

Definition parse_hkind (s : sexp) : option hkind :=
  if atom_is s (S' "Binary2") then Some HBinary2
  else if atom_is s (S' "ASCII4") then Some HASCII4
  else if atom_is s (S' "BCD2") then Some HBCD2
  else if atom_is s (S' "VMLH") then Some HVMLH
  else None.

Definition show_bool (b : bool) : bytes := if b then S' "1" else S' "0".

Definition run_hdr_set (args : list sexp) : bytes :=
  match args with
  | [k; n] =>
      match parse_hkind k, as_int n with
      | Some k, Some n => show_outcome (fun st => show_int (hlen st)) (hdr_set k hinit n)
      | _, _ => bad
      end
  | _ => bad
  end.

Definition run_hdr_write (args : list sexp) : bytes :=
  match args with
  | [k; n] =>
      match parse_hkind k, as_int n with
      | Some k, Some n =>
          match hdr_set k hinit n with
          | Ok st => show_outcome (fun w => show_hex w ++ sp ++ show_int (zlen w)) (hdr_write k st)
          | _ => S' "seterr"
          end
      | _, _ => bad
      end
  | _ => bad
  end.

Definition run_hdr_read (args : list sexp) : bytes :=
  match args with
  | [k; SList chunks] =>
      match parse_hkind k, map_opt as_hex chunks with
      | Some k, Some chunks =>
          show_outcome (fun '(st, r, rest) => show_int (hlen st) ++ sp ++ show_int r ++ sp ++ show_bool (hsess st) ++ sp ++ show_hex (concat rest))
                       (hdr_read k hinit chunks)
      | _, _ => bad
      end
  | _ => bad
  end.

(* bitmap: (bm B auto enc pref (op...)) ; one reply per op joined by " | "; a panic anywhere is the whole result *)
Definition bm_op (s : bmspec) (st : outcome (bytes * list bytes)) (op : sexp) : outcome (bytes * list bytes) :=
  do (data, out) <- st;
  match op with
  | SList [Atom name; arg] =>
      if bytes_eqb name (S' "set") then
        match as_int arg with
        | Some n => do d <- bm_set s data n; Ok (d, show_hex d :: out)
        | None => Err bad
        end
      else if bytes_eqb name (S' "isset") then
        match as_int arg with
        | Some n => Ok (data, show_bool (bm_isset data n) :: out)
        | None => Err bad
        end
      else if bytes_eqb name (S' "unpack") then
        match as_hex arg with
        | Some input =>
            match bm_unpack s data input with
            | (d, Ok r) => Ok (d, (S' "ok " ++ show_hex d ++ sp ++ show_int r) :: out)
            | (d, Err _) => Ok (d, S' "err" :: out)
            | (_, Panic p) => Panic p
            | (_, OutOfFuel) => OutOfFuel
            end
        | None => Err bad
        end
      else if bytes_eqb name (S' "setbytes") then
        match as_hex arg with
        | Some d => Ok (d, S' "ok" :: out)
        | None => Err bad
        end
      else Err bad
  | SList [Atom name] =>
      if bytes_eqb name (S' "len") then Ok (data, show_int (zlen data * 8) :: out)
      else if bytes_eqb name (S' "pack") then
        match bm_pack s data with
        | Ok w => Ok (data, (S' "ok " ++ show_hex w) :: out)
        | Err _ => Ok (data, S' "err" :: out)
        | Panic p => Panic p
        | OutOfFuel => OutOfFuel
        end
      else if bytes_eqb name (S' "reset") then Ok (bm_new s, S' "ok" :: out)
      else if bytes_eqb name (S' "bytes") then Ok (data, show_hex data :: out)
      else Err bad
  | _ => Err bad
  end.

Definition run_bm (args : list sexp) : bytes :=
  match args with
  | [b; a; e; p; SList ops] =>
      match parse_bmspec_args [b; a; e; p] with
      | Some s =>
          match fold_left (bm_op s) ops (Ok (bm_new s, [])) with
          | Ok (_, out) => join (S' " | ") (frev out)
          | Err _ => bad
          | Panic _ => S' "panic"
          | OutOfFuel => S' "outoffuel"
          end
      | None => bad
      end
  | _ => bad
  end.

(* ---- a field object: (fld <fspec> (op...)) ---- *)
Definition u_class {A} (r : ures A) : outcome unit :=
  match r with UPanic p => Panic p | UFuel => OutOfFuel | _ => Ok tt end.

Definition fld_op (s : fspec) (acc : outcome (fstate * list bytes)) (op : sexp) : outcome (fstate * list bytes) :=
  do (st, out) <- acc;
  match op with
  | SList [Atom name; arg] =>
      if bytes_eqb name (S' "set") then
        match parse_fval arg with
        | Some v => Ok (set_val s st v, S' "ok" :: out)
        | None => Err bad
        end
      else if bytes_eqb name (S' "unpack") then
        match as_hex arg with
        | Some d => match unpack_f s st d with
                    | (st', r) => do _ <- u_class r; Ok (st', show_ures show_int r :: out)
                    end
        | None => Err bad
        end
      else if bytes_eqb name (S' "note") then Ok (st, S' "ok" :: out)
      else if bytes_eqb name (S' "fromjson") then
        match parse_jdoc arg with
        | Some d => match json_into s st d with
                    | (st', Ok _) => Ok (st', S' "ok" :: out)
                    | (st', Err _) => Ok (st', S' "err" :: out)
                    | (_, Panic p) => Panic p
                    | (_, OutOfFuel) => OutOfFuel
                    end
        | None => Err bad
        end
      else if bytes_eqb name (S' "unsetp") then
        match as_hex arg with
        | Some pth => match comp_unset_path s st (match pth with [] => [] | _ => split_path pth [] end) with
                      | (st', Ok _) => Ok (st', S' "ok" :: out)
                      | (st', Err _) => Ok (st', S' "err" :: out)
                      | (_, Panic p) => Panic p
                      | (_, OutOfFuel) => OutOfFuel
                      end
        | None => Err bad
        end
      else if bytes_eqb name (S' "setbytes") then
        match as_hex arg with
        | Some d => match setbytes_f s st d with
                    | (st', r) => do _ <- u_class r; Ok (st', show_ures (fun _ => []) r :: out)
                    end
        | None => Err bad
        end
      else Err bad
  | SList [Atom name] =>
      if bytes_eqb name (S' "pack") then
        match pack_f s st with
        | Ok w => Ok (st, (S' "ok " ++ show_hex w) :: out)
        | Err _ => Ok (st, S' "err" :: out)
        | Panic p => Panic p
        | OutOfFuel => OutOfFuel
        end
      else if bytes_eqb name (S' "get") then Ok (st, show_val st :: out)
      else if bytes_eqb name (S' "json") then Ok (st, show_hex (json_field st) :: out)
      else if bytes_eqb name (S' "reset") then Ok (fresh s, S' "ok" :: out)
      else Err bad
  | _ => Err bad
  end.

Definition finish {A} (r : outcome (A * list bytes)) : bytes :=
  match r with
  | Ok (_, out) => join (S' " | ") (frev out)
  | Err _ => bad
  | Panic _ => S' "panic"
  | OutOfFuel => S' "outoffuel"
  end.

Definition run_fld (args : list sexp) : bytes :=
  match args with
  | [fs; SList ops] =>
      match parse_fspec fs with
      | Some s => finish (fold_left (fld_op s) ops (Ok (fresh s, [])))
      | None => bad
      end
  | _ => bad
  end.

(* ---- a message object: (msg <mspec> (op...)) ---- *)
Definition show_present (S : mspec) (m : mstate) : bytes :=
  let ids := sort_z (m_present m) in
  S' "(" ++ join sp (map (fun id =>
      if id =? 0 then S' "(0 " ++ show_val (m_mti m) ++ S' ")"
      else if id =? 1 then S' "(1)"
      else match zlookup id (m_fields m) with
           | Some st => S' "(" ++ show_int id ++ sp ++ show_val st ++ S' ")"
           | None => S' "(" ++ show_int id ++ S' " ?)"
           end) ids) ++ S' ")".

Definition msg_op (S : mspec) (acc : outcome (mstate * list bytes)) (op : sexp) : outcome (mstate * list bytes) :=
  do (m, out) <- acc;
  match op with
  | SList [Atom name; a1; a2] =>
      if bytes_eqb name (S' "field") then
        match as_int a1, as_hex a2 with
        | Some id, Some v => match m_set_field S m id v with
                             | (m', r) => do _ <- u_class r; Ok (m', show_ures (fun _ => []) r :: out)
                             end
        | _, _ => Err bad
        end
      else if bytes_eqb name (S' "setval") then
        match as_int a1, parse_fval a2 with
        | Some id, Some v =>
            match zlookup id (ms_fields S), zlookup id (m_fields m) with
            | Some s, Some st =>
                let m1 := with_present m (zadd id (m_present m)) in
                Ok (with_fields m1 (zupdate id (set_val s st v) (m_fields m1)), S' "ok" :: out)
            | _, _ => Err bad
            end
        | _, _ => Err bad
        end
      else Err bad
  | SList [Atom name; arg] =>
      if bytes_eqb name (S' "mti") then
        match as_hex arg with
        | Some v => Ok (m_set_mti S m v, S' "ok" :: out)
        | None => Err bad
        end
      else if bytes_eqb name (S' "unpack") then
        match as_hex arg with
        | Some d => match m_unpack S m d with
                    | (m', r) => do _ <- u_class r; Ok (m', show_ures (fun _ => []) r :: out)
                    end
        | None => Err bad
        end
      else if bytes_eqb name (S' "note") then Ok (m, S' "ok" :: out)
      else if bytes_eqb name (S' "fromjson") then
        match parse_jdoc arg with
        | Some (JO kvs) => match m_from_json S m kvs with
                           | (m', Ok _) => Ok (m', S' "ok" :: out)
                           | (m', Err _) => Ok (m', S' "err" :: out)
                           | (_, Panic p) => Panic p
                           | (_, OutOfFuel) => OutOfFuel
                           end
        | _ => Err bad
        end
      else if bytes_eqb name (S' "unsetp") then
        match as_hex arg with
        | Some pth => match m_unset_path S m pth with
                      | (m', Ok _) => Ok (m', S' "ok" :: out)
                      | (m', Err _) => Ok (m', S' "err" :: out)
                      | (_, Panic p) => Panic p
                      | (_, OutOfFuel) => OutOfFuel
                      end
        | None => Err bad
        end
      else if bytes_eqb name (S' "unset") then
        match as_int arg with
        | Some id => Ok (m_unset S m id, S' "ok" :: out)
        | None => Err bad
        end
      else Err bad
  | SList [Atom name] =>
      if bytes_eqb name (S' "pack") then
        match m_pack S m with
        | (m', Ok w) => Ok (m', (S' "ok " ++ show_hex w) :: out)
        | (m', Err _) => Ok (m', S' "err" :: out)
        | (_, Panic p) => Panic p
        | (_, OutOfFuel) => OutOfFuel
        end
      else if bytes_eqb name (S' "get") then Ok (m, show_present S m :: out)
      else if bytes_eqb name (S' "json") then
        match m_json S m with
        | (m', Ok j) => Ok (m', (S' "ok " ++ show_hex j) :: out)
        | (m', Err _) => Ok (m', S' "err" :: out)
        | (_, Panic p) => Panic p
        | (_, OutOfFuel) => OutOfFuel
        end
      else if bytes_eqb name (S' "clone") then
        (* continue on the clone; the original is observed through (cloneorig) *)
        match m_clone S m with
        | (m', Ok c) => Ok (c, (S' "ok " ++ show_present S c) :: out)
        | (m', Err _) => Ok (m', S' "err" :: out)
        | (_, Panic p) => Panic p
        | (_, OutOfFuel) => OutOfFuel
        end
      else if bytes_eqb name (S' "cloneorig") then
        match m_clone S m with
        | (m', Ok c) => Ok (m', (S' "ok " ++ show_present S c) :: out)
        | (m', Err _) => Ok (m', S' "err" :: out)
        | (_, Panic p) => Panic p
        | (_, OutOfFuel) => OutOfFuel
        end
      else if bytes_eqb name (S' "bitmap") then let m' := m_bitmap S m in Ok (m', show_hex (m_bm m') :: out)
      else Err bad
  | _ => Err bad
  end.

Definition run_msg (args : list sexp) : bytes :=
  match args with
  | [ms; SList ops] =>
      match parse_mspec ms with
      | Some MS => finish (fold_left (msg_op MS) ops (Ok (mfresh MS, [])))
      | None => bad
      end
  | _ => bad
  end.

Definition run_desc (k : nat) (args : list sexp) : bytes :=
  match args with
  | [v] => match as_hex v with Some b => show_hex (mask k b) | None => bad end
  | _ => bad
  end.

Definition run_specjson_export (args : list sexp) : bytes :=
  match args with
  | [ms] => match parse_mspec ms with
            | Some MS => match export_spec MS with
                         | Ok d => S' "ok " ++ show_jdoc 12 d
                         | Err _ => S' "err"
                         | Panic _ => S' "panic"
                         | OutOfFuel => S' "outoffuel"
                         end
            | None => bad
            end
  | _ => bad
  end.

Definition run_specjson_import (args : list sexp) : bytes :=
  match args with
  | [d] => match parse_jdoc d with Some jd => show_import (import_spec jd) | None => bad end
  | _ => bad
  end.

(* (marshal <mspec> <gty> <gval> [<gval>]): Marshal into a fresh message, observe, pack, Unmarshal into the zero value
   or into the given pre-filled target *)
Definition run_marshal (args : list sexp) : bytes :=
  match args with
  | ms :: ty :: v :: more =>
      match parse_mspec ms, parse_gty ty, parse_gval v, (match more with [] => Some None | [tg] => option_map Some (parse_gval tg) | _ => None end) with
      | Some MS, Some t, Some gv, Some target =>
          match m_marshal MS (mfresh MS) t gv with
          | (_, Panic _) => S' "panic"
          | (_, OutOfFuel) => S' "outoffuel"
          | (m1, r1) =>
              let o1 := match r1 with Ok _ => S' "ok" | _ => S' "err" end in
              match m_pack MS m1 with
              | (_, Panic _) => S' "panic"
              | (_, OutOfFuel) => S' "outoffuel"
              | (m2, r2) =>
                  let o2 := match r2 with Ok w => S' "ok " ++ show_hex w | _ => S' "err" end in
                  let zero := match target with
                              | Some tg => tg
                              | None => match t with TPtr inner => VPtr (Some (g_zero inner)) | _ => g_zero t end
                              end in
                  match m_unmarshal MS m2 t zero with
                  | Panic _ => S' "panic"
                  | OutOfFuel => S' "outoffuel"
                  | r3 => join (S' " | ") [o1; show_present MS m1; o2; match r3 with Ok g => S' "ok " ++ show_gval g | _ => S' "err" end]
                  end
              end
          end
      | _, _, _, _ => bad
      end
  | _ => bad
  end.

(* ---- a track field object: (trk <1|2|3> <pspec> (op...)) ---- *)
Definition show_track (t : tstate) : bytes :=
  S' "(t " ++ (if tk_fixed t then S' "1" else S' "0") ++ sp ++ show_hex (tk_fc t) ++ sp ++ show_hex (tk_pan t) ++ sp ++ show_hex (tk_sep t) ++ sp ++
  show_hex (tk_name t) ++ sp ++ (match tk_exp t with Some e => show_hex e | None => S' "-" end) ++ sp ++ show_hex (tk_svc t) ++ sp ++ show_hex (tk_dd t) ++ S' ")".

Definition trk_op (k : tkind) (p : pspec) (acc : outcome (tstate * list bytes)) (op : sexp) : outcome (tstate * list bytes) :=
  do (t, out) <- acc;
  match op with
  | SList [Atom name; fx; fc; pan; sep; nm; ex; svc; dd] =>
      if bytes_eqb name (S' "setc") then
        match as_bool fx, as_hex fc, as_hex pan, as_hex sep, as_hex nm, as_hex svc, as_hex dd with
        | Some bfx, Some vfc, Some vpan, Some vsep, Some vnm, Some vsvc, Some vdd =>
            let e := if atom_is ex (S' "-") then Some None else option_map Some (as_hex ex) in
            match e with
            | Some ve => Ok ({| tk_fixed := bfx; tk_fc := vfc; tk_pan := vpan; tk_sep := vsep; tk_name := vnm; tk_exp := ve; tk_svc := vsvc; tk_dd := vdd |}, S' "ok" :: out)
            | None => Err bad
            end
        | _, _, _, _, _, _, _ => Err bad
        end
      else Err bad
  | SList [Atom name; arg; _] =>
      (* (sfilter <text> <pan>): the filter on a String field of the same spec holding the text; the object is not involved *)
      if bytes_eqb name (S' "sfilter") then
        match as_hex arg with
        | Some v => Ok (t, show_hex (s_track_filter k p v v) :: out)
        | None => Err bad
        end
      else Err bad
  | SList [Atom name; arg] =>
      if bytes_eqb name (S' "unpack") then
        match as_hex arg with
        | Some d => match t_unpack k p t d with
                    | (_, Panic q) => Panic q
                    | (_, OutOfFuel) => OutOfFuel
                    | (t', r) => Ok (t', show_outcome show_int r :: out)
                    end
        | None => Err bad
        end
      else if bytes_eqb name (S' "setbytes") then
        match as_hex arg with
        | Some d => match t_setbytes k t d with
                    | (_, Panic q) => Panic q
                    | (_, OutOfFuel) => OutOfFuel
                    | (t', r) => Ok (t', show_outcome (fun _ => []) r :: out)
                    end
        | None => Err bad
        end
      else Err bad
  | SList [Atom name] =>
      if bytes_eqb name (S' "pack") then
        match t_pack k p t with
        | Panic q => Panic q
        | OutOfFuel => OutOfFuel
        | r => Ok (t, show_outcome show_hex r :: out)
        end
      else if bytes_eqb name (S' "get") then Ok (t, show_track t :: out)
      else if bytes_eqb name (S' "str") then Ok (t, show_hex (t_render k t) :: out)
      else if bytes_eqb name (S' "filter") then Ok (t, show_hex (t_filter k p (t_render k t) t) :: out)
      else if bytes_eqb name (S' "reset") then Ok (t_empty, S' "ok" :: out)
      else Err bad
  | _ => Err bad
  end.

Definition run_trk (args : list sexp) : bytes :=
  match args with
  | [kd; SList (_ :: pargs); SList ops] =>
      match as_int kd, parse_pspec_args pargs with
      | Some kz, Some p =>
          let k := if kz =? 1 then T1 else if kz =? 2 then T2 else T3 in
          finish (fold_left (trk_op k p) ops (Ok (t_empty, [])))
      | _, _ => bad
      end
  | _ => bad
  end.

Definition dispatch (s : sexp) : bytes :=
  match s with
  | SList (Atom name :: args) =>
      if bytes_eqb name (S' "pad") then run_pad args
      else if bytes_eqb name (S' "unpad") then run_unpad args
      else if bytes_eqb name (S' "enc.enc") then run_enc_enc args
      else if bytes_eqb name (S' "enc.dec") then run_enc_dec args
      else if bytes_eqb name (S' "pref.enc") then run_pref_enc args
      else if bytes_eqb name (S' "pref.dec") then run_pref_dec args
      else if bytes_eqb name (S' "bm") then run_bm args
      else if bytes_eqb name (S' "marshal") then run_marshal args
      else if bytes_eqb name (S' "trk") then run_trk args
      else if bytes_eqb name (S' "specjson.export") then run_specjson_export args
      else if bytes_eqb name (S' "specjson.import") then run_specjson_import args
      else if bytes_eqb name (S' "desc.pan") then run_desc 4 args
      else if bytes_eqb name (S' "desc.pin") then run_desc 2 args
      else if bytes_eqb name (S' "fld") then run_fld args
      else if bytes_eqb name (S' "msg") then run_msg args
      else if bytes_eqb name (S' "hdr.set") then run_hdr_set args
      else if bytes_eqb name (S' "hdr.write") then run_hdr_write args
      else if bytes_eqb name (S' "hdr.read") then run_hdr_read args
      else bad
  | _ => bad
  end.

Definition run_case (line : bytes) : bytes :=
  match parse_sexp line with
  | Some s => dispatch s
  | None => bad
  end.

(* in-kernel slice: cases with the implementation's answers; returns those that differ *)
Definition mismatches (cases : list (string * string)) : list (string * string * string) :=
  flat_map (fun '(c, r) =>
              let m := run_case (S' c) in
              if bytes_eqb m (S' r) then [] else [(c, r, string_of_list_byte m)]) cases.
