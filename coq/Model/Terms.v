(* Parsing of spec / value terms of the case language and printing of observable values. *)
From Coq Require Import Strings.String.
From Iso Require Import Model.Base Model.Sexp Model.Padding Model.Encoding Model.Prefix Model.Bitmap Model.Spec Model.Field Model.Message Model.Json Model.MessageOps Model.Marshal.

Definition T (s : string) : bytes := list_byte_of_string s.

Definition parse_encoder (s : sexp) : option encoder :=
  if atom_is s (T "ASCII") then Some EncASCII
  else if atom_is s (T "Binary") then Some EncBinary
  else if atom_is s (T "BCD") then Some EncBCD
  else if atom_is s (T "LBCD") then Some EncLBCD
  else if atom_is s (T "Hex") then Some EncHex
  else if atom_is s (T "HexToBytes") then Some EncHexToBytes
  else if atom_is s (T "EBCDIC") then Some EncEBCDIC
  else if atom_is s (T "EBCDIC1047") then Some EncEBCDIC1047
  else if atom_is s (T "BerTag") then Some EncBerTag
  else None.

Fixpoint split_dot (l : bytes) (cur : bytes) : bytes * bytes :=
  match l with
  | [] => (frev cur, [])
  | b :: r => if Byte.eqb b x2e then (frev cur, r) else split_dot r (b :: cur)
  end.

Definition parse_family (a : bytes) : option pfamily :=
  if bytes_eqb a (T "ASCII") then Some PfASCII
  else if bytes_eqb a (T "BCD") then Some PfBCD
  else if bytes_eqb a (T "Binary") then Some PfBinary
  else if bytes_eqb a (T "Hex") then Some PfHex
  else if bytes_eqb a (T "EBCDIC") then Some PfEBCDIC
  else if bytes_eqb a (T "EBCDIC1047") then Some PfEBCDIC1047
  else None.

(* prefixer names as the library prints them: ASCII.LL, Hex.Fixed, BerTLV, None.Fixed *)
Definition parse_prefixer_name (a : bytes) : option prefixer :=
  if bytes_eqb a (T "BerTLV") then Some PBerTLV
  else if bytes_eqb a (T "None.Fixed") then Some PNone
  else
    let '(fam, w) := split_dot a [] in
    match parse_family fam with
    | None => None
    | Some f =>
        if bytes_eqb w (T "Fixed") then Some (PFixed f)
        else if forallb (Byte.eqb x4c) w && negb (Nat.eqb (length w) 0) then Some (PVar f (length w))
        else None
    end.
Definition parse_prefixer (s : sexp) : option prefixer :=
  match s with Atom a => parse_prefixer_name a | _ => None end.

Definition parse_padder (k pb : sexp) : option padder :=
  match as_byte pb with
  | None => None
  | Some c =>
      if atom_is k (T "N") then Some PadNone
      else if atom_is k (T "L") then Some (PadLeft c)
      else if atom_is k (T "R") then Some (PadRight c)
      else None
  end.

Definition parse_kind (s : sexp) : option fkind :=
  if atom_is s (T "String") then Some KString
  else if atom_is s (T "Numeric") then Some KNumeric
  else if atom_is s (T "Binary") then Some KBinary
  else if atom_is s (T "Hex") then Some KHex
  else None.

Definition parse_sort (s : sexp) : option sortfn :=
  if atom_is s (T "Strings") then Some SortStrings
  else if atom_is s (T "ByInt") then Some SortByInt
  else if atom_is s (T "ByHex") then Some SortByHex
  else None.

Definition opt_nil {A} (p : sexp -> option A) (s : sexp) : option (option A) :=
  if atom_is s (T "nil") then Some None else option_map Some (p s).

(* (P kind enc pref len padkind padbyte packer) *)
Definition parse_pspec_args (args : list sexp) : option pspec :=
  match args with
  | [k; e; p; l; pk; pb; pkr] =>
      match parse_kind k, parse_encoder e, parse_prefixer p, as_int l, parse_padder pk pb with
      | Some k, Some e, Some p, Some l, Some pd =>
          if atom_is pkr (T "D") then Some {| ps_kind := k; ps_enc := e; ps_pref := p; ps_len := l; ps_pad := pd; ps_packer := PkDefault |}
          else if atom_is pkr (T "T2") then Some {| ps_kind := k; ps_enc := e; ps_pref := p; ps_len := l; ps_pad := pd; ps_packer := PkTrack2 |}
          else None
      | _, _, _, _, _ => None
      end
  | _ => None
  end.

(* (B len auto enc pref); field.NewBitmap / Bitmap.Reset (field/bitmap.go): a spec whose Length is 0 means the default
   block of 8 bytes - every use of the block size, the message-level capacity check of a fixed bitmap included, goes
   through this length (seeded change C05-i read Spec.Length itself) *)
Definition parse_bmspec_args (args : list sexp) : option bmspec :=
  match args with
  | [b; a; e; p] =>
      match as_int b, as_bool a, parse_encoder e, parse_prefixer p with
      | Some b, Some a, Some e, Some p => Some {| bm_len := (if b =? 0 then 8 else b); bm_auto := a; bm_enc := e; bm_pref := p |}
      | _, _, _, _ => None
      end
  | _ => None
  end.

(* (T len enc|nil padkind padbyte sort skip prefunk|nil) | (B len enc pref) *)
Definition parse_cmode (s : sexp) : option cmode :=
  match s with
  | SList (Atom h :: args) =>
      if bytes_eqb h (T "T") then
        match args with
        | [l; e; pk; pb; so; sk; pu] =>
            match as_int l, opt_nil parse_encoder e, parse_padder pk pb, parse_sort so, as_bool sk, opt_nil parse_prefixer pu with
            | Some l, Some e, Some pd, Some so, Some sk, Some pu =>
                Some (CTag {| tg_len := l; tg_enc := e; tg_pad := pd; tg_sort := so; tg_skip := sk; tg_prefunk := pu |})
            | _, _, _, _, _, _ => None
            end
        | _ => None
        end
      else if bytes_eqb h (T "B") then
        match args with
        | [b; e; p] => option_map CBitmap (parse_bmspec_args [b; Atom (T "0"); e; p])
        | _ => None
        end
      else None
  | _ => None
  end.

(* (P ...) | (C pref len mode ((xtag fspec) ...)) *)
Fixpoint parse_fspec (s : sexp) : option fspec :=
  match s with
  | SList (Atom h :: args) =>
      if bytes_eqb h (T "P") then option_map FPrim (parse_pspec_args args)
      else if bytes_eqb h (T "C") then
        match args with
        | [p; l; m; SList subs] =>
            match parse_prefixer p, as_int l, parse_cmode m,
                  (fix go (l : list sexp) : option (list (bytes * fspec)) :=
                     match l with
                     | [] => Some []
                     | SList [t; fs] :: r =>
                         match as_hex t, parse_fspec fs, go r with
                         | Some t, Some fs, Some r' => Some ((t, fs) :: r')
                         | _, _, _ => None
                         end
                     | _ => None
                     end) subs with
            | Some p, Some l, Some m, Some subs => Some (FComp p l m subs)
            | _, _, _, _ => None
            end
        | _ => None
        end
      else None
  | _ => None
  end.

(* (M (P ...) (B auto enc pref) ((id fspec) ...)) *)
Definition parse_mspec (s : sexp) : option mspec :=
  match s with
  | SList [Atom h; SList (Atom hp :: pargs); SList bargs; SList fields] =>
      if bytes_eqb h (T "M") && bytes_eqb hp (T "P") then
        match parse_pspec_args pargs, parse_bmspec_args bargs,
              map_opt (fun f => match f with
                                | SList [id; fs] => match as_int id, parse_fspec fs with
                                                    | Some id, Some fs => Some (id, fs) | _, _ => None end
                                | _ => None end) fields with
        | Some mti, Some bm, Some fl => Some {| ms_mti := mti; ms_bm := bm; ms_fields := fl |}
        | _, _, _ => None
        end
      else None
  | _ => None
  end.

(* ---- values ---- *)
Inductive fval : Type :=
| VS (b : bytes) | VN (z : Z) | VB (b : bytes) | VH (b : bytes)
| VC (l : list (bytes * fval)).

Fixpoint parse_fval (s : sexp) : option fval :=
  match s with
  | SList [Atom h; a] =>
      if bytes_eqb h (T "S") then option_map VS (as_hex a)
      else if bytes_eqb h (T "N") then option_map VN (as_int a)
      else if bytes_eqb h (T "B") then option_map VB (as_hex a)
      else if bytes_eqb h (T "H") then option_map VH (as_hex a)
      else if bytes_eqb h (T "C") then
        match a with
        | SList l =>
            option_map VC ((fix go (l : list sexp) : option (list (bytes * fval)) :=
                              match l with
                              | [] => Some []
                              | SList [t; v] :: r =>
                                  match as_hex t, parse_fval v, go r with
                                  | Some t, Some v, Some r' => Some ((t, v) :: r')
                                  | _, _, _ => None
                                  end
                              | _ => None
                              end) l)
        | _ => None
        end
      else None
  | _ => None
  end.

(* populate an object with a value (the net effect of marking subfields present and setting leaf values) *)
Fixpoint set_val (s : fspec) (st : fstate) (v : fval) : fstate :=
  match v, s with
  | VS b, FPrim _ => SString b
  | VN z, FPrim _ => SNumeric z
  | VB b, FPrim _ => SBinary b
  | VH b, FPrim _ => SHex b
  | VC l, FComp _ _ _ subs =>
      (fix go (l : list (bytes * fval)) (st : fstate) : fstate :=
         match l, st with
         | [], _ => st
         | (t, v') :: r, SComp set sts =>
             match blookup t subs, blookup t sts with
             | Some s', Some st' => go r (SComp (badd t set) (bupdate t (set_val s' st' v') sts))
             | _, _ => go r st
             end
         | _ :: r, _ => st
         end) l st
  | _, _ => st
  end.

(* ---- printing observable values: set subfields only, tags in byte order ---- *)
Fixpoint insert_pair (x : bytes * bytes) (l : list (bytes * bytes)) : list (bytes * bytes) :=
  match l with
  | [] => [x]
  | y :: r => if bytes_ltb (fst y) (fst x) then y :: insert_pair x r else x :: l
  end.

Fixpoint show_val (st : fstate) : bytes :=
  match st with
  | SString v => T "(S " ++ show_hex v ++ T ")"
  | SNumeric v => T "(N " ++ show_int v ++ T ")"
  | SBinary v => T "(B " ++ show_hex v ++ T ")"
  | SHex v => T "(H " ++ show_hex v ++ T ")"
  | SComp set sts =>
      let shown := (fix go (l : list (bytes * fstate)) : list (bytes * bytes) :=
                      match l with
                      | [] => []
                      | (t, st') :: r => if bmem t set then (t, show_val st') :: go r else go r
                      end) sts in
      let sorted := fold_right insert_pair [] shown in
      T "(C (" ++ join sp (map (fun '(t, v) => T "(" ++ show_hex t ++ sp ++ v ++ T ")") sorted) ++ T "))"
  end.

Definition show_path (p : list bytes) : bytes := join (T ",") (map show_hex p).

Definition show_ures {A} (show : A -> bytes) (r : ures A) : bytes :=
  match r with
  | UOk a => T "ok " ++ show a
  | UErr p _ => T "err " ++ show_path p
  | UPanic _ => T "panic"
  | UFuel => T "outoffuel"
  end.

(* ---- parsed JSON documents: (js x..) (jn z) (jo ((xkey jdoc)...)) ---- *)
Fixpoint parse_jdoc (s : sexp) : option jdoc :=
  match s with
  | SList [Atom h; a] =>
      if bytes_eqb h (T "js") then option_map JS (as_hex a)
      else if bytes_eqb h (T "jn") then option_map JN (as_int a)
      else if bytes_eqb h (T "jb") then option_map JB (as_bool a)
      else if bytes_eqb h (T "jnull") then Some JNull
      else if bytes_eqb h (T "jo") then
        match a with
        | SList l =>
            option_map JO ((fix go (l : list sexp) : option (list (bytes * jdoc)) :=
                              match l with
                              | [] => Some []
                              | SList [k; v] :: r =>
                                  match as_hex k, parse_jdoc v, go r with
                                  | Some k, Some v, Some r' => Some ((k, v) :: r')
                                  | _, _, _ => None
                                  end
                              | _ => None
                              end) l)
        | _ => None
        end
      else None
  | _ => None
  end.

(* ---- Go types and values of the Marshal universe ---- *)
Fixpoint parse_gty (s : sexp) : option gty :=
  match s with
  | Atom a =>
      if bytes_eqb a (T "str") then Some TStr else if bytes_eqb a (T "int") then Some TInt
      else if bytes_eqb a (T "int64") then Some TInt64 else if bytes_eqb a (T "bytes") then Some TBytes else None
  | SList [Atom h; a] =>
      if bytes_eqb h (T "ptr") then option_map TPtr (parse_gty a)
      else if bytes_eqb h (T "lib") then option_map TLib (parse_kind a)
      else if bytes_eqb h (T "struct") then
        match a with
        | SList l =>
            option_map TStruct ((fix go (l : list sexp) : option (list (gdecl * gty)) :=
                                   match l with
                                   | [] => Some []
                                   | SList [i; o; n; t] :: r =>
                                       match as_hex i, as_hex o, as_hex n, parse_gty t, go r with
                                       | Some i, Some o, Some n, Some t, Some r' => Some ((GDecl i o n, t) :: r')
                                       | _, _, _, _, _ => None
                                       end
                                   | _ => None
                                   end) l)
        | _ => None
        end
      else None
  | _ => None
  end.

Definition state_of_fval (v : fval) : option fstate :=
  match v with VS b => Some (SString b) | VN z => Some (SNumeric z) | VB b => Some (SBinary b) | VH b => Some (SHex b) | VC _ => None end.

Fixpoint parse_gval (s : sexp) : option gval :=
  match s with
  | Atom a =>
      if bytes_eqb a (T "bnil") then Some (VBytes None) else if bytes_eqb a (T "pnil") then Some (VPtr None)
      else if bytes_eqb a (T "libnil") then Some (VLib None) else None
  | SList [Atom h; a] =>
      if bytes_eqb h (T "s") then option_map VStr (as_hex a)
      else if bytes_eqb h (T "i") then option_map VInt (as_int a)
      else if bytes_eqb h (T "l") then option_map VInt64 (as_int a)
      else if bytes_eqb h (T "b") then option_map (fun b => VBytes (Some b)) (as_hex a)
      else if bytes_eqb h (T "p") then option_map (fun v => VPtr (Some v)) (parse_gval a)
      else if bytes_eqb h (T "lib") then match parse_fval a with Some fv => option_map (fun st => VLib (Some st)) (state_of_fval fv) | None => None end
      else if bytes_eqb h (T "st") then
        match a with
        | SList l => option_map VStruct ((fix go (l : list sexp) : option (list gval) :=
                                            match l with
                                            | [] => Some []
                                            | x :: r => match parse_gval x, go r with Some v, Some r' => Some (v :: r') | _, _ => None end
                                            end) l)
        | _ => None
        end
      else None
  | _ => None
  end.

Fixpoint show_gval (v : gval) : bytes :=
  match v with
  | VStr s => T "(s " ++ show_hex s ++ T ")"
  | VInt z => T "(i " ++ show_int z ++ T ")"
  | VInt64 z => T "(l " ++ show_int z ++ T ")"
  | VBytes None => T "bnil"
  | VBytes (Some []) => T "bnil"          (* nil and empty slices are not distinguished *)
  | VBytes (Some b) => T "(b " ++ show_hex b ++ T ")"
  | VPtr None => T "pnil"
  | VPtr (Some p) => T "(p " ++ show_gval p ++ T ")"
  | VLib None => T "libnil"
  | VLib (Some st) => T "(lib " ++ show_val st ++ T ")"
  | VStruct vals => T "(st (" ++ join sp ((fix go (l : list gval) : list bytes := match l with [] => [] | x :: r => show_gval x :: go r end) vals) ++ T "))"
  end.
