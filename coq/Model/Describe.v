(* field_filter.go: the default masking filters applied by Describe to field 2/20 (PAN) and field 52 (PIN block). *)
From Iso Require Import Model.Base.

Definition stars : bytes := [x2a; x2a; x2a; x2a].

(* first k ++ "****" ++ last k when the value has at least 2k characters (single-byte characters) *)
Definition mask (k : nat) (v : bytes) : bytes :=
  if (length v <? k + k)%nat then v else firstn k v ++ stars ++ skipn (length v - k) v.

Definition pan_filter (v : bytes) : bytes := mask 4 v.
Definition pin_filter (v : bytes) : bytes := mask 2 v.

(* does `needle` occur in `hay` as a contiguous substring? *)
Fixpoint prefix_of (a b : bytes) : bool :=
  match a, b with
  | [], _ => true
  | x :: a', y :: b' => Byte.eqb x y && prefix_of a' b'
  | _ :: _, [] => false
  end.
Fixpoint occurs (needle hay : bytes) : bool :=
  prefix_of needle hay || match hay with [] => false | _ :: r => occurs needle r end.
