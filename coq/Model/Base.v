(* Base definitions shared by the implementation model: bytes, Go ints, outcomes, the pieces of the
   Go standard library the code relies on (strconv.Itoa/Atoi, fmt %0*d, hex), all executable. *)
From Coq Require Export List ZArith NArith Bool Lia.
From Coq Require Export Init.Byte.
Export ListNotations.
Open Scope Z_scope.

Definition bytes := list byte.

(* ---- bytes <-> integers ---- *)
Definition bz (b : byte) : Z := Z.of_N (Byte.to_N b).
Definition zb (z : Z) : byte := match Byte.of_N (Z.to_N z) with Some b => b | None => x00 end.

Definition beqb (a b : byte) : bool := Byte.eqb a b.

Fixpoint bytes_eqb (a b : bytes) : bool :=
  match a, b with
  | [], [] => true
  | x :: a', y :: b' => Byte.eqb x y && bytes_eqb a' b'
  | _, _ => false
  end.

Definition all_bytes : list byte :=
  [x00;x01;x02;x03;x04;x05;x06;x07;x08;x09;x0a;x0b;x0c;x0d;x0e;x0f;
   x10;x11;x12;x13;x14;x15;x16;x17;x18;x19;x1a;x1b;x1c;x1d;x1e;x1f;
   x20;x21;x22;x23;x24;x25;x26;x27;x28;x29;x2a;x2b;x2c;x2d;x2e;x2f;
   x30;x31;x32;x33;x34;x35;x36;x37;x38;x39;x3a;x3b;x3c;x3d;x3e;x3f;
   x40;x41;x42;x43;x44;x45;x46;x47;x48;x49;x4a;x4b;x4c;x4d;x4e;x4f;
   x50;x51;x52;x53;x54;x55;x56;x57;x58;x59;x5a;x5b;x5c;x5d;x5e;x5f;
   x60;x61;x62;x63;x64;x65;x66;x67;x68;x69;x6a;x6b;x6c;x6d;x6e;x6f;
   x70;x71;x72;x73;x74;x75;x76;x77;x78;x79;x7a;x7b;x7c;x7d;x7e;x7f;
   x80;x81;x82;x83;x84;x85;x86;x87;x88;x89;x8a;x8b;x8c;x8d;x8e;x8f;
   x90;x91;x92;x93;x94;x95;x96;x97;x98;x99;x9a;x9b;x9c;x9d;x9e;x9f;
   xa0;xa1;xa2;xa3;xa4;xa5;xa6;xa7;xa8;xa9;xaa;xab;xac;xad;xae;xaf;
   xb0;xb1;xb2;xb3;xb4;xb5;xb6;xb7;xb8;xb9;xba;xbb;xbc;xbd;xbe;xbf;
   xc0;xc1;xc2;xc3;xc4;xc5;xc6;xc7;xc8;xc9;xca;xcb;xcc;xcd;xce;xcf;
   xd0;xd1;xd2;xd3;xd4;xd5;xd6;xd7;xd8;xd9;xda;xdb;xdc;xdd;xde;xdf;
   xe0;xe1;xe2;xe3;xe4;xe5;xe6;xe7;xe8;xe9;xea;xeb;xec;xed;xee;xef;
   xf0;xf1;xf2;xf3;xf4;xf5;xf6;xf7;xf8;xf9;xfa;xfb;xfc;xfd;xfe;xff].

(* ---- Go int: Z with explicit 64-bit wrap where unchecked wire values enter arithmetic ---- *)
Definition two63 : Z := 9223372036854775808.
Definition two64 : Z := 18446744073709551616.
Definition wrap64 (z : Z) : Z := (z + two63) mod two64 - two63.
Definition max_int : Z := 9223372036854775807.

(* ---- outcomes ---- *)
Inductive outcome (A : Type) : Type :=
| Ok (a : A)
| Err (e : bytes)        (* error: a site/class label, rendered text where compared *)
| Panic (p : bytes)
| OutOfFuel.
Arguments Ok {A}. Arguments Err {A}. Arguments Panic {A}. Arguments OutOfFuel {A}.

Definition obind {A B} (o : outcome A) (f : A -> outcome B) : outcome B :=
  match o with
  | Ok a => f a
  | Err e => Err e
  | Panic p => Panic p
  | OutOfFuel => OutOfFuel
  end.
Notation "'do' x <- o ; k" := (obind o (fun x => k)) (at level 200, x pattern, o at level 100, k at level 200).

Definition is_ok {A} (o : outcome A) : bool := match o with Ok _ => true | _ => false end.
Definition is_err {A} (o : outcome A) : bool := match o with Err _ => true | _ => false end.

(* ---- ASCII helpers ---- *)
Definition is_digit (b : byte) : bool := (48 <=? bz b) && (bz b <=? 57).

(* digits of n >= 0 in base B, most significant first, through a digit -> byte map; at least one digit *)
Fixpoint gen_digits (B : Z) (f : Z -> byte) (fuel : nat) (n : Z) (acc : bytes) : bytes :=
  match fuel with
  | O => acc
  | S k => let acc' := f (n mod B) :: acc in
           if n / B =? 0 then acc' else gen_digits B f k (n / B) acc'
  end.

(* strconv.Itoa: decimal digits, most significant first *)
Definition dec_digit (d : Z) : byte := zb (48 + d).
Definition digits_fuel (fuel : nat) (n : Z) (acc : bytes) : bytes := gen_digits 10 dec_digit fuel n acc.
(* 20 digits suffice for |n| < 2^64; fuel is fixed so that vm_compute never builds a huge nat.
   For n beyond 10^40 the result would be truncated: callers only pass Go ints. *)
Definition itoa_fuel : nat := 40%nat.
Definition itoa (n : Z) : bytes :=
  if n <? 0 then x2d :: digits_fuel itoa_fuel (- n) [] else digits_fuel itoa_fuel n [].

Fixpoint undigits (l : bytes) (acc : Z) : option Z :=
  match l with
  | [] => Some acc
  | b :: r => let d := bz b - 48 in if (0 <=? d) && (d <=? 9) then undigits r (acc * 10 + d) else None
  end.

(* strconv.Atoi on a 64-bit platform: optional sign, at least one digit, range error outside int64 *)
Definition atoi (l : bytes) : option Z :=
  let chk (z : option Z) := match z with
                            | Some v => if (- two63 <=? v) && (v <? two63) then Some v else None
                            | None => None end in
  match l with
  | [] => None
  | b :: r =>
      if Byte.eqb b x2b then match r with [] => None | _ => chk (undigits r 0) end
      else if Byte.eqb b x2d then match r with [] => None | _ => chk (option_map Z.opp (undigits r 0)) end
      else chk (undigits l 0)
  end.

(* fmt.Sprintf("%0*d", w, n): zero padding goes after the sign; never truncates *)
Definition sprintf0d (w : nat) (n : Z) : bytes :=
  if n <? 0 then
    let s := digits_fuel itoa_fuel (- n) [] in x2d :: repeat x30 (w - 1 - length s) ++ s
  else let s := itoa n in repeat x30 (w - length s) ++ s.

(* ---- hexadecimal ---- *)
Definition hex_digit_upper (n : Z) : byte := if n <? 10 then zb (48 + n) else zb (55 + n).
Definition hex_digit_lower (n : Z) : byte := if n <? 10 then zb (48 + n) else zb (87 + n).
Definition hex_val (b : byte) : option Z :=
  let z := bz b in
  if (48 <=? z) && (z <=? 57) then Some (z - 48)
  else if (65 <=? z) && (z <=? 70) then Some (z - 55)
  else if (97 <=? z) && (z <=? 102) then Some (z - 87)
  else None.

Fixpoint hex_encode_upper (l : bytes) : bytes :=
  match l with
  | [] => []
  | b :: r => hex_digit_upper (bz b / 16) :: hex_digit_upper (bz b mod 16) :: hex_encode_upper r
  end.
Fixpoint hex_encode_lower (l : bytes) : bytes :=
  match l with
  | [] => []
  | b :: r => hex_digit_lower (bz b / 16) :: hex_digit_lower (bz b mod 16) :: hex_encode_lower r
  end.

(* hex.Decode: None on odd length or a non-hex byte *)
Fixpoint hex_decode (l : bytes) : option bytes :=
  match l with
  | [] => Some []
  | [_] => None
  | a :: b :: r =>
      match hex_val a, hex_val b, hex_decode r with
      | Some h, Some lo, Some t => Some (zb (h * 16 + lo) :: t)
      | _, _, _ => None
      end
  end.

(* ---- list helpers ---- *)
Definition zlen {A} (l : list A) : Z := Z.of_nat (length l).
Definition ztake {A} (n : Z) (l : list A) : list A := firstn (Z.to_nat n) l.
Definition zdrop {A} (n : Z) (l : list A) : list A := skipn (Z.to_nat n) l.

Fixpoint drop_while (p : byte -> bool) (l : bytes) : bytes :=
  match l with
  | [] => []
  | b :: r => if p b then drop_while p r else l
  end.
(* List.rev is quadratic; everything executable uses rev_append *)
Definition frev {A} (l : list A) : list A := rev_append l [].
Lemma frev_rev {A} (l : list A) : frev l = rev l.
Proof. unfold frev. symmetry. apply rev_alt. Qed.
Definition drop_while_end (p : byte -> bool) (l : bytes) : bytes := frev (drop_while p (frev l)).

(* big-endian natural number of a byte string *)
Fixpoint be_val (l : bytes) (acc : Z) : Z :=
  match l with
  | [] => acc
  | b :: r => be_val r (acc * 256 + bz b)
  end.
(* minimal big-endian representation (big.Int.Bytes, bytes.TrimLeft of binary.Write): empty for 0 *)
Definition be_bytes (n : Z) : bytes := if n =? 0 then [] else gen_digits 256 zb 40%nat n [].
