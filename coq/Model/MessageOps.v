(* message.go / composite.go: UnmarshalJSON (from a parsed document), Clone, UnsetFields / UnsetSubfields. *)
From Coq Require Import Strings.String.
From Iso Require Import Model.Base Model.Sexp Model.Padding Model.Encoding Model.Prefix Model.Bitmap Model.Spec Model.Field Model.Message Model.Json.

(* a parsed JSON value: string, integer, object *)
Inductive jdoc : Type := JS (s : bytes) | JN (z : Z) | JO (kvs : list (bytes * jdoc)) | JB (b : bool) | JNull.

(* Field.UnmarshalJSON on a parsed value *)
Fixpoint json_into (s : fspec) (st : fstate) (d : jdoc) : fstate * outcome unit :=
  match s with
  | FPrim p =>
      match ps_kind p, d with
      | KString, JS v => (SString v, Ok tt)
      | KNumeric, JN z => if (- two63 <=? z) && (z <? two63) then (SNumeric z, Ok tt) else (st, Err (E "json.int_range"))
      | KBinary, JS v => match hex_decode v with Some b => (SBinary b, Ok tt) | None => (st, Err (E "json.hex")) end
      | KHex, JS v => (SHex v, Ok tt)
      | _, _ => (st, Err (E "json.type"))
      end
  | FComp _ _ mode subs =>
      match d, st with
      | JO kvs, SComp set sts =>
          (fix go (kvs : list (bytes * jdoc)) (set : list bytes) (sts : list (bytes * fstate)) : fstate * outcome unit :=
             match kvs with
             | [] => (SComp set sts, Ok tt)
             | (tag, d') :: r =>
                 match blookup tag subs, blookup tag sts with
                 | Some s', Some st' =>
                     match json_into s' st' d' with
                     | (st'', Ok _) => go r (badd tag set) (bupdate tag st'' sts)
                     | (st'', o) => (SComp set (bupdate tag st'' sts), o)
                     end
                 | _, _ =>
                     let skip := match mode with CTag t => skip_unknown t | CBitmap _ => false end in
                     if skip then go r set sts else (SComp set sts, Err (E "json.undefined_subfield"))
                 end
             end) kvs set sts
      | _, _ => (st, Err (E "json.type"))
      end
  end.

(* Message.UnmarshalJSON: keys are decimal field numbers *)
Fixpoint m_from_json (S : mspec) (m : mstate) (kvs : list (bytes * jdoc)) : mstate * outcome unit :=
  match kvs with
  | [] => (m, Ok tt)
  | (k, d) :: r =>
      match atoi k with
      | None => (m, Err (E "json.key_not_int"))
      | Some id =>
          if id =? 0 then
            match json_into (FPrim (ms_mti S)) (m_mti m) d with
            | (st, Ok _) => m_from_json S (with_present (with_mti m st) (zadd 0 (m_present m))) r
            | (st, o) => (with_mti m st, o)
            end
          else if id =? 1 then
            match d with
            | JS v => match hex_decode v with
                      | Some b => m_from_json S (with_present (with_bm m b) (zadd 1 (m_present m))) r
                      | None => (m, Err (E "json.hex"))
                      end
            | _ => (m, Err (E "json.type"))
            end
          else
            match zlookup id (ms_fields S), zlookup id (m_fields m) with
            | Some s, Some st =>
                match json_into s st d with
                | (st', Ok _) => m_from_json S (with_present (with_fields m (zupdate id st' (m_fields m))) (zadd id (m_present m))) r
                | (st', o) => (with_fields m (zupdate id st' (m_fields m)), o)
                end
            | _, _ => (m, Err (E "json.no_specification"))
            end
      end
  end.

(* Clone: pack, build a new message, set its MTI, unpack the bytes into it, pack it *)
Definition m_clone (S : mspec) (m0 : mstate) : mstate * outcome mstate :=
  match m_pack S m0 with
  | (m, Ok b) =>
      let c0 := m_set_mti S (mfresh S) (match m_mti m with SString v => v | SNumeric z => itoa z | _ => [] end) in
      match m_unpack S c0 b with
      | (c1, UOk _) => match m_pack S c1 with
                       | (c2, Ok _) => (m, Ok c2)
                       | (_, Err e) => (m, Err e)
                       | (_, Panic p) => (m, Panic p)
                       | (_, OutOfFuel) => (m, OutOfFuel)
                       end
      | (_, UErr _ e) => (m, Err e)
      | (_, UPanic p) => (m, Panic p)
      | (_, UFuel) => (m, OutOfFuel)
      end
  | (m, Err e) => (m, Err e)
  | (m, Panic p) => (m, Panic p)
  | (m, OutOfFuel) => (m, OutOfFuel)
  end.

(* split "a.b.c" at the dots *)
Fixpoint split_path (l : bytes) (cur : bytes) : list bytes :=
  match l with
  | [] => [frev cur]
  | b :: r => if Byte.eqb b x2e then frev cur :: split_path r [] else split_path r (b :: cur)
  end.

(* Composite.UnsetSubfields(path) for one path given as its components (never empty components except the whole path "") *)
Fixpoint comp_unset_path (s : fspec) (st : fstate) (path : list bytes) : fstate * outcome unit :=
  match path with
  | [] => (st, Ok tt)
  | id :: rest =>
      match s, st with
      | FComp _ _ _ subs, SComp set sts =>
          if bmem id set then
            match rest with
            | [] => match blookup id subs with
                    | Some s' => (SComp (bremove id set) (bupdate id (fresh s') sts), Ok tt)
                    | None => (st, Panic (E "nil spec field"))
                    end
            | _ =>
                match blookup id subs, blookup id sts with
                | Some (FComp p l m ss as s'), Some st' =>
                    match comp_unset_path s' st' rest with
                    | (st'', o) => (SComp set (bupdate id st'' sts), o)
                    end
                | Some (FPrim _), Some _ => (st, Err (E "unset.not_composite"))
                | _, _ => (st, Err (E "unset.no_subfield"))
                end
            end
          else (st, Ok tt)
      | _, _ => (st, Err (E "unset.not_composite"))
      end
  end.

(* Message.UnsetFields(path) for one path *)
Definition m_unset_path (S : mspec) (m : mstate) (path : bytes) : mstate * outcome unit :=
  match path with
  | [] => (m, Ok tt)
  | _ =>
      match split_path path [] with
      | [] => (m, Ok tt)
      | idb :: rest =>
          (* strings.Cut: rest re-joined is the remaining path; "" when there is no dot *)
          match atoi idb with
          | None => (m, Err (E "unset.atoi"))
          | Some id =>
              if zmem id (m_present m) then
                match rest with
                | [] => (m_unset S m id, Ok tt)
                | [[]] => (m_unset S m id, Ok tt)
                | _ =>
                    match zlookup id (ms_fields S), zlookup id (m_fields m) with
                    | Some (FComp p l md ss as s), Some st =>
                        match comp_unset_path s st rest with
                        | (st', o) => (with_fields m (zupdate id st' (m_fields m)), o)
                        end
                    | Some (FPrim _), Some _ => (m, Err (E "unset.not_composite"))
                    | _, _ => (m, Err (E "unset.not_composite"))
                    end
                end
              else (m, Ok tt)
          end
      end
  end.
