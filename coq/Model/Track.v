(* field/track1.go, track2.go, track3.go and the track filters of field_filter.go: the component record, rendering
   (pack), the three regular expressions as deterministic matchers, strings.TrimSpace and time.Parse("0601") on ASCII
   data, the partial state a failing parse leaves behind, and Pack / Unpack / SetBytes of the field. *)
From Coq Require Import Strings.String.
From Iso Require Import Model.Base Model.Padding Model.Encoding Model.Prefix Model.Bitmap Model.Spec Model.Field Model.Describe.

Inductive tkind : Type := T1 | T2 | T3.

(* one record for the three kinds; the components a kind does not have stay empty *)
Record tstate : Type := {
  tk_fixed : bool;           (* Track1.FixedLength *)
  tk_fc : bytes;             (* FormatCode (1, 3) *)
  tk_pan : bytes;
  tk_sep : bytes;            (* Separator (2) *)
  tk_name : bytes;           (* Name (1) *)
  tk_exp : option bytes;     (* ExpirationDate rendered by Format("0601") *)
  tk_svc : bytes;
  tk_dd : bytes }.

Definition t_empty : tstate :=
  {| tk_fixed := false; tk_fc := []; tk_pan := []; tk_sep := []; tk_name := []; tk_exp := None; tk_svc := []; tk_dd := [] |}.

Definition caret : bytes := [x5e].
Definition eqsign : bytes := [x3d].

(* fmt.Sprintf("%-26.26s", name) on ASCII *)
Definition name26 (n : bytes) : bytes :=
  let t := ztake 26 n in t ++ repeat x20 (26 - length t).

Definition t_render (k : tkind) (t : tstate) : bytes :=
  let exp := match tk_exp t with Some e => e | None => caret end in
  let svc := match tk_svc t with [] => caret | s => s end in
  match k with
  | T1 => let name := if (1 <? zlen (tk_name t)) && tk_fixed t then name26 (tk_name t) else tk_name t in
          tk_fc t ++ tk_pan t ++ caret ++ name ++ caret ++ exp ++ svc ++ tk_dd t
  | T2 => tk_pan t ++ (match tk_sep t with [] => eqsign | s => s end) ++ exp ++ svc ++ tk_dd t
  | T3 => tk_fc t ++ tk_pan t ++ eqsign ++ tk_dd t
  end.

(* ---- matching ---- *)
Fixpoint take_while (p : byte -> bool) (l : bytes) : bytes * bytes :=
  match l with
  | [] => ([], [])
  | b :: r => if p b then let '(a, rest) := take_while p r in (b :: a, rest) else ([], l)
  end.

Definition is_space_ascii (b : byte) : bool :=
  Byte.eqb b x20 || Byte.eqb b x09 || Byte.eqb b x0a || Byte.eqb b x0b || Byte.eqb b x0c || Byte.eqb b x0d.
Definition trim (l : bytes) : bytes := drop_while_end is_space_ascii (drop_while is_space_ascii l).

Definition no_qmark (l : bytes) : bool := forallb (fun b => negb (Byte.eqb b x3f)) l.
Definition is_upper (b : byte) : bool := (65 <=? bz b) && (bz b <=? 90).

(* time.Parse("0601", s) for four digits: the month is 01..12 *)
Definition valid_yymm (s : bytes) : bool :=
  match s with
  | [_; _; m1; m2] => let m := (bz m1 - 48) * 10 + (bz m2 - 48) in (1 <=? m) && (m <=? 12)
  | _ => false
  end.

(* the submatches of the three expressions, None when the text does not match *)
Record tmatch : Type := { mt_fc : bytes; mt_pan : bytes; mt_sep : bytes; mt_name : bytes; mt_exp : bytes; mt_svc : bytes; mt_dd : bytes }.

(* ([0-9]{n}|\^) *)
Definition digits_or_caret (n : nat) (l : bytes) : option (bytes * bytes) :=
  if (n <=? length l)%nat && forallb is_digit (firstn n l) then Some (firstn n l, skipn n l)
  else match l with b :: r => if Byte.eqb b x5e then Some (caret, r) else None | [] => None end.

Definition dd_ok (l : bytes) : bool := match l with [] => false | _ => no_qmark l end.

Definition t_match (k : tkind) (raw : bytes) : option tmatch :=
  match k with
  | T2 => (* ^([0-9]{1,19})(=|D)([0-9]{4})([0-9]{3})([^?]+)$ *)
      let '(pan, r1) := take_while is_digit raw in
      if (length pan =? 0)%nat || (19 <? length pan)%nat then None else
      match r1 with
      | s :: r2 =>
          if Byte.eqb s x3d || Byte.eqb s x44 then
            if (7 <=? length r2)%nat && forallb is_digit (firstn 7 r2) && dd_ok (skipn 7 r2)
            then Some {| mt_fc := []; mt_pan := pan; mt_sep := [s]; mt_name := []; mt_exp := firstn 4 r2; mt_svc := firstn 3 (skipn 4 r2); mt_dd := skipn 7 r2 |}
            else None
          else None
      | [] => None
      end
  | T1 => (* ^([A-Z]{1})([0-9]{1,19})\^([^\^]{2,26})\^([0-9]{4}|\^)([0-9]{3}|\^)([^\?]+)$ *)
      match raw with
      | fc :: r0 =>
          if negb (is_upper fc) then None else
          let '(pan, r1) := take_while is_digit r0 in
          if (length pan =? 0)%nat || (19 <? length pan)%nat then None else
          match r1 with
          | c1 :: r2 =>
              if negb (Byte.eqb c1 x5e) then None else
              let '(name, r3) := take_while (fun b => negb (Byte.eqb b x5e)) r2 in
              if (length name <? 2)%nat || (26 <? length name)%nat then None else
              match r3 with
              | _ :: r4 =>
                  match digits_or_caret 4 r4 with
                  | Some (exp, r5) =>
                      match digits_or_caret 3 r5 with
                      | Some (svc, r6) => if dd_ok r6 then Some {| mt_fc := [fc]; mt_pan := pan; mt_sep := []; mt_name := name; mt_exp := exp; mt_svc := svc; mt_dd := r6 |} else None
                      | None => None
                      end
                  | None => None
                  end
              | [] => None
              end
          | [] => None
          end
      | [] => None
      end
  | T3 => (* ^([0-9]{2})([0-9]{1,19})\=([^\?]+)$ *)
      let '(ds, r1) := take_while is_digit raw in
      if (length ds <? 3)%nat || (21 <? length ds)%nat then None else
      match r1 with
      | s :: r2 => if Byte.eqb s x3d && dd_ok r2
                   then Some {| mt_fc := firstn 2 ds; mt_pan := skipn 2 ds; mt_sep := []; mt_name := []; mt_exp := []; mt_svc := []; mt_dd := r2 |}
                   else None
      | [] => None
      end
  end.

(* unpack(raw): the components are cleared, then assigned in order; a bad expiry date returns with what was
   assigned so far. FixedLength is not touched. *)
Definition skip_val (k : tkind) (v : bytes) : bool :=
  match v with [] => true | _ => match k with T1 => bytes_eqb v caret | T3 => bytes_eqb v eqsign | T2 => false end end.

Definition t_parse (k : tkind) (t : tstate) (raw : bytes) : tstate * outcome unit :=
  match t_match k raw with
  | None => (t, Err (E "invalid track data"))
  | Some m =>
      let keep v := if skip_val k (trim v) then [] else trim v in
      let base := {| tk_fixed := tk_fixed t; tk_fc := keep (mt_fc m); tk_pan := keep (mt_pan m); tk_sep := keep (mt_sep m);
                     tk_name := keep (mt_name m); tk_exp := None; tk_svc := []; tk_dd := [] |} in
      let e := trim (mt_exp m) in
      if negb (skip_val k e) && negb (match k with T3 => true | _ => valid_yymm e end) then (base, Err (E "invalid expired time")) else
      ({| tk_fixed := tk_fixed t; tk_fc := tk_fc base; tk_pan := tk_pan base; tk_sep := tk_sep base; tk_name := tk_name base;
          tk_exp := if skip_val k e then None else Some e; tk_svc := keep (mt_svc m); tk_dd := keep (mt_dd m) |}, Ok tt)
  end.

(* ---- the field ---- *)
Definition t_pack (k : tkind) (p : pspec) (t : tstate) : outcome bytes := prim_pack_raw p (t_render k t).

Definition t_unpack (k : tkind) (p : pspec) (t : tstate) (data : bytes) : tstate * outcome Z :=
  match prim_unpack_raw p data with
  | Ok (raw, n) =>
      match raw with
      | [] => (* len(raw) == 0: an empty track has no components (since the repair of F29); FixedLength stays *)
              ({| tk_fixed := tk_fixed t; tk_fc := []; tk_pan := []; tk_sep := []; tk_name := []; tk_exp := None; tk_svc := []; tk_dd := [] |}, Ok n)
      | _ => match t_parse k t raw with
             | (t', Ok _) => (t', Ok n)
             | (t', Err e) => (t', Err e)
             | (t', Panic q) => (t', Panic q)
             | (t', OutOfFuel) => (t', OutOfFuel)
             end
      end
  | Err e => (t, Err e)
  | Panic q => (t, Panic q)
  | OutOfFuel => (t, OutOfFuel)
  end.

(* SetBytes: Track3 swallows the parse error *)
Definition t_setbytes (k : tkind) (t : tstate) (raw : bytes) : tstate * outcome unit :=
  match t_parse k t raw with
  | (t', Err e) => match k with T3 => (t', Ok tt) | _ => (t', Err e) end
  | r => r
  end.

(* ---- Track1Filter / Track2Filter / Track3Filter (field_filter.go) ---- *)
Definition t_filter (k : tkind) (p : pspec) (inp : bytes) (t : tstate) : bytes :=
  let masked tr := t_render k {| tk_fixed := tk_fixed tr; tk_fc := tk_fc tr; tk_pan := pan_filter (tk_pan tr); tk_sep := tk_sep tr;
                                 tk_name := tk_name tr; tk_exp := tk_exp tr; tk_svc := tk_svc tr; tk_dd := tk_dd tr |} in
  match t_pack k p t with
  | Ok raw => match t_unpack k p t_empty raw with
              | (tr, Ok _) => masked tr
              | _ => pan_filter inp      (* track data that cannot be parsed again: first and last four characters (repair of F31) *)
              end
  | _ => masked t_empty
  end.

(* the same filters applied to a String field that carries track data (fields 35 / 36 / 45 of the shipped specifications):
   newTrackData packs the String field, gives a new track object the field's spec and unpacks the bytes into it *)
Definition s_track_filter (k : tkind) (p : pspec) (inp : bytes) (v : bytes) : bytes :=
  let masked tr := t_render k {| tk_fixed := tk_fixed tr; tk_fc := tk_fc tr; tk_pan := pan_filter (tk_pan tr); tk_sep := tk_sep tr;
                                 tk_name := tk_name tr; tk_exp := tk_exp tr; tk_svc := tk_svc tr; tk_dd := tk_dd tr |} in
  match prim_pack p (SString v) with
  | Ok raw => match t_unpack k p t_empty raw with
              | (tr, Ok _) => masked tr
              | _ => pan_filter inp
              end
  | _ => masked t_empty
  end.
