(* prefix/*.go: the 43 exported prefixers (6 families x {Fixed, L..LLLLLL} + BerTLV) and None.Fixed. *)
From Coq Require Import Strings.String.
From Iso Require Import Model.Base Model.Encoding Gen.EbcdicTables.

Inductive pfamily : Type := PfASCII | PfBCD | PfBinary | PfHex | PfEBCDIC | PfEBCDIC1047.
Inductive prefixer : Type :=
| PFixed (f : pfamily)
| PVar (f : pfamily) (digits : nat)
| PBerTLV
| PNone.

(* strconv.FormatInt(n, 16) upper-cased *)
Definition hexdigits_fuel (fuel : nat) (n : Z) (acc : bytes) : bytes := gen_digits 16 hex_digit_upper fuel n acc.
Definition format_hex_upper (n : Z) : bytes :=
  if n <? 0 then x2d :: hexdigits_fuel 20%nat (- n) [] else hexdigits_fuel 20%nat n [].

(* strconv.ParseUint(s, 16, bits): hex digits of either case only; the value must fit *)
Fixpoint parse_hex (l : bytes) (acc : Z) : option Z :=
  match l with
  | [] => Some acc
  | b :: r => match hex_val b with Some d => parse_hex r (acc * 16 + d) | None => None end
  end.
Definition parse_uint16 (l : bytes) (bits : Z) : option Z :=
  match l with
  | [] => None
  | _ => match parse_hex l 0 with
         | Some v => if v <? 2 ^ bits then Some v else None
         | None => None
         end
  end.

Definition decimal_prefix_str (digits : nat) (max n : Z) : outcome bytes :=
  if max <? n then Err (E "prefix.larger_than_max")
  else if (digits <? length (itoa n))%nat then Err (E "prefix.digits_exceed")
  else Ok (sprintf0d digits n).

Definition enc_len (p : prefixer) (max n : Z) : outcome bytes :=
  match p with
  | PNone => Ok []
  | PFixed _ => if n =? max then Ok [] else Err (E "prefix.should_be_fixed")
  | PVar PfASCII d => decimal_prefix_str d max n
  | PVar PfBCD d => do s <- decimal_prefix_str d max n; enc_encode EncBCD s
  | PVar PfEBCDIC d => do s <- decimal_prefix_str d max n; enc_encode EncEBCDIC s
  | PVar PfEBCDIC1047 d => do s <- decimal_prefix_str d max n; enc_encode EncEBCDIC1047 s
  | PVar PfBinary d =>
      if max <? n then Err (E "prefix.larger_than_max")
      else if n <? 0 then Err (E "prefix.negative")
      else if 4294967295 <? n then Err (E "prefix.binary.too_large")
      else let res := be_bytes n in
           if (d <? length res)%nat then Err (E "prefix.digits_exceed")
           else Ok (repeat x00 (d - length res) ++ res)
  | PVar PfHex d =>
      if max <? n then Err (E "prefix.larger_than_max")
      else if 2 ^ (Z.of_nat d * 8) - 1 <? n then Err (E "prefix.digits_exceed")
      else let s := format_hex_upper n in Ok (repeat x30 (d * 2 - length s) ++ s)
  | PBerTLV =>
      if negb (max =? 0) && (max <? n) then Err (E "prefix.larger_than_max")
      else if n <? 0 then Err (E "prefix.negative")
      else if n <=? 127 then Ok [zb n]
      else let buf := be_bytes n in Ok (zb (128 + zlen buf) :: buf)
  end.

Definition check_decoded (max n read : Z) : outcome (Z * Z) :=
  if n <? 0 then Err (E "prefix.invalid_length")
  else if max <? n then Err (E "prefix.data_larger_than_max")
  else Ok (n, read).

Definition dec_len (p : prefixer) (max : Z) (data : bytes) : outcome (Z * Z) :=
  match p with
  | PNone => Ok (zlen data, 0)
  | PFixed _ => Ok (max, 0)
  | PVar PfASCII d =>
      let dz := Z.of_nat d in
      if zlen data <? dz then Err (E "prefix.not_enough_data") else
      match atoi (ztake dz data) with
      | Some n => check_decoded max n dz
      | None => Err (E "prefix.atoi")
      end
  | PVar PfBCD d =>
      let dz := Z.of_nat d in let len := (dz + 1) / 2 in
      if zlen data <? len then Err (E "prefix.not_enough_data") else
      do (s, _) <- enc_decode EncBCD (ztake len data) dz;
      match atoi s with
      | Some n => check_decoded max n len
      | None => Err (E "prefix.atoi")
      end
  | PVar PfEBCDIC d =>
      let dz := Z.of_nat d in
      if zlen data <? dz then Err (E "prefix.not_enough_data") else
      do (s, _) <- enc_decode EncEBCDIC (ztake dz data) dz;
      match atoi s with
      | Some n => check_decoded max n dz
      | None => Err (E "prefix.atoi")
      end
  | PVar PfEBCDIC1047 d =>
      let dz := Z.of_nat d in
      if zlen data <? dz then Err (E "prefix.not_enough_data") else
      do (s, _) <- enc_decode EncEBCDIC1047 (ztake dz data) dz;
      match atoi s with
      | Some n => check_decoded max n dz
      | None => Err (E "prefix.atoi")
      end
  | PVar PfBinary d =>
      let dz := Z.of_nat d in
      if zlen data <? dz then Err (E "prefix.not_enough_data") else
      let pb := ztake dz data in
      (* prefixes longer than four bytes: the leading bytes must be zero *)
      let extra := ztake (dz - 4) pb in
      if negb (forallb (Byte.eqb x00) extra) then Err (E "prefix.digits_exceed")
      else check_decoded max (be_val (zdrop (dz - 4) pb) 0) dz
  | PVar PfHex d =>
      let dz := Z.of_nat d in let len := 2 * dz in
      if zlen data <? len then Err (E "prefix.not_enough_data") else
      match parse_uint16 (ztake len data) (dz * 8) with
      | Some n => if max <? n then Err (E "prefix.data_larger_than_max") else Ok (n, len)
      | None => Err (E "prefix.parseuint")
      end
  | PBerTLV =>
      match data with
      | [] => Err (E "prefix.ber.empty")
      | b :: r =>
          if bz b <? 128 then
            if negb (max =? 0) && (max <? bz b) then Err (E "prefix.larger_than_max") else Ok (bz b, 1)
          else
            let k := bz b - 128 in
            if zlen r <? k then Err (E "prefix.ber.short") else
            let n := be_val (ztake k r) 0 in
            if max_int <? n then Err (E "prefix.ber.does_not_fit")
            else if negb (max =? 0) && (max <? n) then Err (E "prefix.larger_than_max")
            else Ok (n, 1 + k)
      end
  end.

(* static width of a prefixer in bytes (BerTLV is self-describing) *)
Definition pref_width (p : prefixer) : Z :=
  match p with
  | PVar PfBCD d => (Z.of_nat d + 1) / 2
  | PVar PfHex d => 2 * Z.of_nat d
  | PVar _ d => Z.of_nat d
  | _ => 0
  end.
