(* message.go / field/composite.go / field/{string,numeric,binary,hex}.go: struct Marshal / Unmarshal over a universe
   of Go types (the reflection the code performs, field/index_tag.go included). *)
From Coq Require Import Strings.String.
From Iso Require Import Model.Base Model.Sexp Model.Padding Model.Encoding Model.Prefix Model.Bitmap Model.Spec Model.Field Model.Message.

Definition G (s : string) : bytes := list_byte_of_string s.

Inductive gty : Type :=
| TStr | TInt | TInt64 | TBytes
| TPtr (t : gty)
| TLib (k : fkind)                      (* *field.String / *field.Numeric / *field.Binary / *field.Hex *)
| TStruct (fields : list (gdecl * gty))
with gdecl : Type := GDecl (index_tag iso_tag name : bytes).     (* struct tags `index:"..."`, `iso8583:"..."`, field name *)

Inductive gval : Type :=
| VStr (s : bytes) | VInt (z : Z) | VInt64 (z : Z)
| VBytes (b : option bytes)             (* None = nil slice *)
| VPtr (p : option gval)                (* None = nil pointer *)
| VLib (st : option fstate)             (* None = nil pointer to a library field *)
| VStruct (vals : list gval).

(* ---- field/index_tag.go ---- *)
Fixpoint split_comma (l : bytes) (cur : bytes) : list bytes :=
  match l with
  | [] => [frev cur]
  | b :: r => if Byte.eqb b x2c then frev cur :: split_comma r [] else split_comma r (b :: cur)
  end.

Record itag : Type := { it_id : Z; it_tag : bytes; it_keepzero : bool }.

Definition index_tag_of (d : gdecl) : itag :=
  match d with
  | GDecl idx iso name =>
      let value := match idx with [] => iso | _ => idx end in
      match value with
      | [] =>
          (* by field name: ^F.+$ *)
          match name with
          | b :: (c :: _) as rest => if Byte.eqb b x46 then {| it_id := match atoi rest with Some n => n | None => -1 end; it_tag := rest; it_keepzero := false |}
                                     else {| it_id := -1; it_tag := []; it_keepzero := false |}
          | _ => {| it_id := -1; it_tag := []; it_keepzero := false |}
          end
      | _ =>
          match split_comma value [] with
          | tag :: opts => {| it_id := match atoi tag with Some n => n | None => -1 end; it_tag := tag;
                              it_keepzero := existsb (bytes_eqb (G "keepzero")) opts |}
          | [] => {| it_id := -1; it_tag := []; it_keepzero := false |}
          end
      end
  end.

(* ---- reflect.Value.IsZero / zero values ---- *)
Fixpoint g_is_zero (v : gval) : bool :=
  match v with
  | VStr s => match s with [] => true | _ => false end
  | VInt z | VInt64 z => z =? 0
  | VBytes b => match b with None => true | Some _ => false end
  | VPtr p => match p with None => true | Some _ => false end
  | VLib st => match st with None => true | Some _ => false end
  | VStruct vals => forallb g_is_zero vals
  end.

Fixpoint g_zero (t : gty) : gval :=
  match t with
  | TStr => VStr [] | TInt => VInt 0 | TInt64 => VInt64 0 | TBytes => VBytes None
  | TPtr _ => VPtr None | TLib _ => VLib None
  | TStruct fields => VStruct (map (fun df => g_zero (snd df)) fields)
  end.

(* strings.Contains(reflect.Type.String(), "int"): also []uint8 and *[]uint8 *)
Definition type_name_has_int (t : gty) : bool :=
  match t with TInt | TInt64 | TPtr TInt | TPtr TInt64 | TBytes | TPtr TBytes => true | _ => false end.

(* ---- Field.Marshal(v) for the primitive kinds: the new state ---- *)
Definition prim_marshal (k : fkind) (t : gty) (v : gval) : outcome fstate :=
  match k with
  | KString =>
      if g_is_zero v && negb (type_name_has_int t) then Ok (SString []) else
      match t, v with
      | TLib KString, VLib (Some (SString s)) => Ok (SString s)
      | TStr, VStr s => Ok (SString s)
      | TPtr TStr, VPtr (Some (VStr s)) => Ok (SString s)
      | TInt, VInt z | TInt64, VInt64 z => Ok (SString (itoa z))
      | TPtr TInt, VPtr None | TPtr TInt64, VPtr None => Ok (SString (itoa 0))
      | TPtr TInt, VPtr (Some (VInt z)) | TPtr TInt64, VPtr (Some (VInt64 z)) => Ok (SString (itoa z))
      | _, _ => Err (G "marshal.string.type")
      end
  | KNumeric =>
      if g_is_zero v then Ok (SNumeric 0) else
      match t, v with
      | TLib KNumeric, VLib (Some (SNumeric z)) => Ok (SNumeric z)
      | TInt64, VInt64 z => Ok (SNumeric z)
      | TPtr TInt64, VPtr (Some (VInt64 z)) => Ok (SNumeric z)
      | TStr, VStr s | TPtr TStr, VPtr (Some (VStr s)) =>
          match atoi s with Some z => Ok (SNumeric z) | None => Err (G "marshal.numeric.parse") end
      | _, _ => Err (G "marshal.numeric.type")
      end
  | KBinary =>
      if g_is_zero v then Ok (SBinary []) else
      match t, v with
      | TLib KBinary, VLib (Some (SBinary b)) => Ok (SBinary b)
      | TStr, VStr s | TPtr TStr, VPtr (Some (VStr s)) =>
          match hex_decode s with Some b => Ok (SBinary b) | None => Err (G "marshal.binary.hex") end
      | TBytes, VBytes (Some b) | TPtr TBytes, VPtr (Some (VBytes (Some b))) => Ok (SBinary b)
      | TPtr TBytes, VPtr (Some (VBytes None)) => Ok (SBinary [])
      | _, _ => Err (G "marshal.binary.type")
      end
  | KHex =>
      if g_is_zero v then Ok (SHex []) else
      match t, v with
      | TLib KHex, VLib (Some (SHex s)) => Ok (SHex s)
      | TStr, VStr s | TPtr TStr, VPtr (Some (VStr s)) => Ok (SHex s)
      | TBytes, VBytes (Some b) | TPtr TBytes, VPtr (Some (VBytes (Some b))) => Ok (SHex (hex_encode_upper b))
      | TPtr TBytes, VPtr (Some (VBytes None)) => Ok (SHex [])
      | _, _ => Err (G "marshal.hex.type")
      end
  end.

(* ---- Field.Unmarshal(v) for the primitive kinds: the new Go value (the struct field is addressable) ---- *)
Definition hex_bytes_or_nil (s : bytes) : option bytes := hex_decode s.

Definition prim_unmarshal (st : fstate) (t : gty) (cur : gval) : outcome gval :=
  match st with
  | SString s =>
      match t with
      | TStr => Ok (VStr s)
      | TInt => match atoi s with Some z => Ok (VInt z) | None => Err (G "unmarshal.atoi") end
      | TInt64 => match atoi s with Some z => Ok (VInt64 z) | None => Err (G "unmarshal.atoi") end
      | TPtr TStr => Ok (VPtr (Some (VStr s)))
      | TPtr TInt => match atoi s with Some z => Ok (VPtr (Some (VInt z))) | None => Err (G "unmarshal.atoi") end
      | TPtr TInt64 => match atoi s with Some z => Ok (VPtr (Some (VInt64 z))) | None => Err (G "unmarshal.atoi") end
      | TLib KString => Ok (VLib (Some (SString s)))
      | _ => Err (G "unmarshal.string.type")
      end
  | SNumeric z =>
      match t with
      | TStr => Ok (VStr (itoa z))
      | TInt64 => Ok (VInt64 z)
      | TPtr TStr => Ok (VPtr (Some (VStr (itoa z))))
      | TPtr TInt64 => Ok (VPtr (Some (VInt64 z)))
      | TLib KNumeric => Ok (VLib (Some (SNumeric z)))
      | _ => Err (G "unmarshal.numeric.type")
      end
  | SBinary b =>
      match t with
      | TStr => Ok (VStr (hex_encode_lower b))
      | TPtr TStr => Ok (VPtr (Some (VStr (hex_encode_lower b))))
      | TPtr TBytes => Ok (VPtr (Some (VBytes (Some b))))
      | TLib KBinary => Ok (VLib (Some (SBinary b)))
      | _ => Err (G "unmarshal.binary.type")          (* []byte targets: the slice is passed by value (F14) *)
      end
  | SHex s =>
      match t with
      | TStr => Ok (VStr s)
      | TPtr TStr => Ok (VPtr (Some (VStr s)))
      | TPtr TBytes => Ok (VPtr (Some (VBytes (hex_bytes_or_nil s))))
      | TLib KHex => Ok (VLib (Some (SHex s)))
      | _ => Err (G "unmarshal.hex.type")
      end
  | SComp _ _ => Err (G "unmarshal.composite.type")
  end.

(* ---- composites and messages: loops over the struct fields ---- *)
Fixpoint zip_decls (fields : list (gdecl * gty)) (vals : list gval) : list (gdecl * gty * gval) :=
  match fields, vals with
  | (d, t) :: fr, v :: vr => (d, t, v) :: zip_decls fr vr
  | _, _ => []
  end.

(* Marshal of one (sub)field value into the state of the field with spec s *)
Fixpoint marshal_into (fuel : nat) (s : fspec) (st : fstate) (t : gty) (v : gval) : outcome fstate :=
  match fuel with
  | O => OutOfFuel
  | S f =>
      match s with
      | FPrim p => prim_marshal (ps_kind p) t v
      | FComp _ _ _ subs =>
          (* Composite.Marshal: a pointer to a struct; nil = a new zero struct *)
          match t, st with
          | TPtr (TStruct fields), SComp set sts =>
              let vals := match v with VPtr (Some (VStruct vs)) => vs | _ => map (fun df => g_zero (snd df)) fields end in
              (fix go (l : list (gdecl * gty * gval)) (set : list bytes) (sts : list (bytes * fstate)) : outcome fstate :=
                 match l with
                 | [] => Ok (SComp set sts)
                 | (d, ft, fv) :: r =>
                     let it := index_tag_of d in
                     match it_tag it with
                     | [] => go r set sts
                     | tag =>
                         match blookup tag subs, blookup tag sts with
                         | Some s', Some st' =>
                             if g_is_zero fv && negb (it_keepzero it) then go r set sts else
                             do st'' <- marshal_into f s' st' ft fv;
                             go r (badd tag set) (bupdate tag st'' sts)
                         | _, _ => go r set sts
                         end
                     end
                 end) (zip_decls fields vals) set sts
          | _, _ => Err (G "marshal.composite.not_struct_pointer")
          end
      end
  end.

Fixpoint unmarshal_from (fuel : nat) (s : fspec) (st : fstate) (t : gty) (cur : gval) : outcome gval :=
  match fuel with
  | O => OutOfFuel
  | S f =>
      match s, st with
      | FPrim _, _ => prim_unmarshal st t cur
      | FComp _ _ _ subs, SComp set sts =>
          match t with
          | TPtr (TStruct fields) =>
              (* a nil pointer field is allocated by the caller before Unmarshal is called *)
              let vals := match cur with VPtr (Some (VStruct vs)) => vs | _ => map (fun df => g_zero (snd df)) fields end in
              do vals' <- (fix go (l : list (gdecl * gty * gval)) : outcome (list gval) :=
                             match l with
                             | [] => Ok []
                             | (d, ft, fv) :: r =>
                                 let it := index_tag_of d in
                                 do v' <- match it_tag it with
                                          | [] => Ok fv
                                          | tag =>
                                              match blookup tag subs, blookup tag sts with
                                              | Some s', Some st' => if bmem tag set then unmarshal_from f s' st' ft fv else Ok fv
                                              | _, _ => Ok fv
                                              end
                                          end;
                                 do rest <- go r; Ok (v' :: rest)
                             end) (zip_decls fields vals);
              Ok (VPtr (Some (VStruct vals')))
          | _ => Err (G "unmarshal.composite.not_struct_pointer")
          end
      | _, _ => Panic (G "state does not match spec")
      end
  end.

(* Message.Marshal(&struct) *)
Fixpoint m_marshal_fields (S : mspec) (m : mstate) (l : list (gdecl * gty * gval)) : mstate * outcome unit :=
  match l with
  | [] => (m, Ok tt)
  | (d, ft, fv) :: r =>
      let it := index_tag_of d in
      if it_id it <? 0 then m_marshal_fields S m r else
      let id := it_id it in
      let target := if id =? 0 then Some (FPrim (ms_mti S), m_mti m)
                    else match zlookup id (ms_fields S), zlookup id (m_fields m) with
                         | Some s, Some st => Some (s, st) | _, _ => None end in
      match target with
      | None => if id =? 1 then (if g_is_zero fv && negb (it_keepzero it) then m_marshal_fields S m r else (m, Err (G "marshal.bitmap.type")))
                else (m, Err (G "marshal.no_field"))
      | Some (s, st) =>
          if g_is_zero fv && negb (it_keepzero it) then m_marshal_fields S m r else
          match marshal_into 8 s st ft fv with
          | Ok st' =>
              let m1 := if id =? 0 then with_mti m st' else with_fields m (zupdate id st' (m_fields m)) in
              m_marshal_fields S (with_present m1 (zadd id (m_present m1))) r
          | Err e => (m, Err e)
          | Panic p => (m, Panic p)
          | OutOfFuel => (m, OutOfFuel)
          end
      end
  end.

Definition m_marshal (S : mspec) (m : mstate) (t : gty) (v : gval) : mstate * outcome unit :=
  match t, v with
  | TPtr (TStruct fields), VPtr (Some (VStruct vals)) => m_marshal_fields S m (zip_decls fields vals)
  | _, _ => (m, Err (G "marshal.not_struct"))
  end.

(* Message.Unmarshal(&struct): the struct afterwards *)
Fixpoint m_unmarshal_fields (S : mspec) (m : mstate) (l : list (gdecl * gty * gval)) : outcome (list gval) :=
  match l with
  | [] => Ok []
  | (d, ft, fv) :: r =>
      let it := index_tag_of d in
      do v' <- (if it_id it <? 0 then Ok fv else
                let id := it_id it in
                let source := if id =? 0 then Some (FPrim (ms_mti S), m_mti m)
                              else match zlookup id (ms_fields S), zlookup id (m_fields m) with
                                   | Some s, Some st => Some (s, st) | _, _ => None end in
                match source with
                | None => if (id =? 1) && zmem 1 (m_present m) then Err (G "unmarshal.bitmap.type") else Ok fv
                | Some (s, st) => if zmem id (m_present m) then unmarshal_from 8 s st ft fv else Ok fv
                end);
      do rest <- m_unmarshal_fields S m r; Ok (v' :: rest)
  end.

Definition m_unmarshal (S : mspec) (m : mstate) (t : gty) (v : gval) : outcome gval :=
  match t, v with
  | TPtr (TStruct fields), VPtr (Some (VStruct vals)) =>
      do vals' <- m_unmarshal_fields S m (zip_decls fields vals); Ok (VPtr (Some (VStruct vals')))
  | _, _ => Err (G "unmarshal.not_struct_pointer")
  end.
