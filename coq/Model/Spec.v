(* Field and message specifications (DESIGN.md section 2) and object states. *)
From Coq Require Import Strings.String.
From Iso Require Import Model.Base Model.Padding Model.Encoding Model.Prefix Model.Bitmap.

Inductive fkind : Type := KString | KNumeric | KBinary | KHex.
Inductive packer_kind : Type := PkDefault | PkTrack2.
Inductive sortfn : Type := SortStrings | SortByInt | SortByHex.

Record pspec : Type := {
  ps_kind : fkind; ps_enc : encoder; ps_pref : prefixer; ps_len : Z; ps_pad : padder; ps_packer : packer_kind }.

Record tagspec : Type := {
  tg_len : Z; tg_enc : option encoder; tg_pad : padder; tg_sort : sortfn; tg_skip : bool; tg_prefunk : option prefixer }.

Inductive cmode : Type := CTag (t : tagspec) | CBitmap (b : bmspec).

Inductive fspec : Type :=
| FPrim (p : pspec)
| FComp (pref : prefixer) (len : Z) (mode : cmode) (subs : list (bytes * fspec)).

Record mspec : Type := { ms_mti : pspec; ms_bm : bmspec; ms_fields : list (Z * fspec) }.

(* ---- object states: what the Go objects hold, including what is stale ---- *)
Inductive fstate : Type :=
| SString (v : bytes)
| SNumeric (v : Z)
| SBinary (v : bytes)
| SHex (v : bytes)            (* the hex text *)
| SComp (set : list bytes) (subs : list (bytes * fstate)).

Fixpoint fresh (s : fspec) : fstate :=
  match s with
  | FPrim p => match ps_kind p with
               | KString => SString [] | KNumeric => SNumeric 0 | KBinary => SBinary [] | KHex => SHex [] end
  | FComp _ _ _ subs => SComp [] ((fix go (l : list (bytes * fspec)) : list (bytes * fstate) :=
                                     match l with [] => [] | (t, s') :: r => (t, fresh s') :: go r end) subs)
  end.

(* ---- association lists ---- *)
Fixpoint blookup {A} (k : bytes) (l : list (bytes * A)) : option A :=
  match l with
  | [] => None
  | (k', v) :: r => if bytes_eqb k k' then Some v else blookup k r
  end.
Fixpoint bupdate {A} (k : bytes) (v : A) (l : list (bytes * A)) : list (bytes * A) :=
  match l with
  | [] => []
  | (k', v') :: r => if bytes_eqb k k' then (k', v) :: r else (k', v') :: bupdate k v r
  end.
Definition bmem (k : bytes) (l : list bytes) : bool := existsb (bytes_eqb k) l.
Definition badd (k : bytes) (l : list bytes) : list bytes := if bmem k l then l else l ++ [k].
Definition bremove (k : bytes) (l : list bytes) : list bytes := filter (fun x => negb (bytes_eqb k x)) l.

Fixpoint zlookup {A} (k : Z) (l : list (Z * A)) : option A :=
  match l with
  | [] => None
  | (k', v) :: r => if k =? k' then Some v else zlookup k r
  end.
Fixpoint zupdate {A} (k : Z) (v : A) (l : list (Z * A)) : list (Z * A) :=
  match l with
  | [] => []
  | (k', v') :: r => if k =? k' then (k', v) :: r else (k', v') :: zupdate k v r
  end.
Definition zmem (k : Z) (l : list Z) : bool := existsb (Z.eqb k) l.
Definition zadd (k : Z) (l : list Z) : list Z := if zmem k l then l else l ++ [k].
Definition zremove (k : Z) (l : list Z) : list Z := filter (fun x => negb (k =? x)) l.

(* ---- sorting (sort/strings.go); sort.Slice with a strict total order = the unique sorted permutation ---- *)
Fixpoint bytes_ltb (a b : bytes) : bool :=
  match a, b with
  | [], [] => false
  | [], _ :: _ => true
  | _ :: _, [] => false
  | x :: a', y :: b' => if bz x <? bz y then true else if bz y <? bz x then false else bytes_ltb a' b'
  end.

Definition tag_less (f : sortfn) (a b : bytes) : bool :=
  match f with
  | SortStrings => bytes_ltb a b
  | SortByInt => match atoi a, atoi b with
                 | Some x, Some y => x <? y
                 | _, _ => bytes_ltb a b
                 end
  | SortByHex => match hex_decode a, hex_decode b with
                 | Some x, Some y => wrap64 (be_val x 0) <? wrap64 (be_val y 0)
                 | _, _ => bytes_ltb a b
                 end
  end.

Fixpoint insert_sorted (less : bytes -> bytes -> bool) (x : bytes) (l : list bytes) : list bytes :=
  match l with
  | [] => [x]
  | y :: r => if less y x then y :: insert_sorted less x r else x :: l
  end.
Definition sort_tags (f : sortfn) (l : list bytes) : list bytes := fold_right (insert_sorted (tag_less f)) [] l.

Fixpoint insert_z (x : Z) (l : list Z) : list Z :=
  match l with
  | [] => [x]
  | y :: r => if y <? x then y :: insert_z x r else x :: l
  end.
Definition sort_z (l : list Z) : list Z := fold_right insert_z [] l.
