(* field/bitmap.go: a 1-indexed, MSB-first bit set made of blocks of B bytes. *)
From Coq Require Import Strings.String.
From Iso Require Import Model.Base Model.Encoding Model.Prefix.

Record bmspec : Type := { bm_len : Z; bm_auto : bool; bm_enc : encoder; bm_pref : prefixer }.

(* bit k of a byte, k = 0 the most significant *)
Definition get_bit (b : byte) (k : Z) : bool := Z.testbit (bz b) (7 - k).
Definition set_bit (b : byte) (k : Z) : byte := zb (Z.lor (bz b) (2 ^ (7 - k))).

Fixpoint upd_nth (i : nat) (f : byte -> byte) (l : bytes) : bytes :=
  match l, i with
  | [], _ => []
  | b :: r, O => f b :: r
  | b :: r, S j => b :: upd_nth j f r
  end.

Definition bm_new (s : bmspec) : bytes := repeat x00 (Z.to_nat (bm_len s)).

Definition bm_isset (data : bytes) (n : Z) : bool :=
  if (n <=? 0) || (zlen data * 8 <? n) then false
  else get_bit (nth (Z.to_nat ((n - 1) / 8)) data x00) ((n - 1) mod 8).

(* data[i] |= mask ; Go panics when i is out of range *)
Definition or_at (data : bytes) (i : Z) (k : Z) : outcome bytes :=
  if (i <? 0) || (zlen data <=? i) then Panic (E "index out of range")
  else Ok (upd_nth (Z.to_nat i) (fun b => set_bit b k) data).

(* the blocks appended by Set: count blocks, each but the last with its first bit on *)
Fixpoint new_blocks (B : nat) (count : nat) : bytes :=
  match count with
  | O => []
  | S O => repeat x00 B
  | S c => (x80 :: repeat x00 (B - 1)) ++ new_blocks B c
  end.

Definition bm_set (s : bmspec) (data : bytes) (n : Z) : outcome bytes :=
  let B := bm_len s in
  if n <=? 0 then Ok data else
  if zlen data * 8 <? n then
    if negb (bm_auto s) then Ok data else
    let idx := (n - 1) / (B * 8) in
    let count := idx + 1 - zlen data / B in
    do d1 <- or_at data (zlen data - B) 0;
    let d2 := d1 ++ new_blocks (Z.to_nat B) (Z.to_nat count) in
    or_at d2 ((n - 1) / 8) ((n - 1) mod 8)
  else or_at data ((n - 1) / 8) ((n - 1) mod 8).

Definition bm_pack (s : bmspec) (data : bytes) : outcome bytes := enc_encode (bm_enc s) data.

(* Unpack mutates the object while it goes: the data is replaced by the blocks decoded so far even when
   a later block fails. Result: (data afterwards, bytes read or the failure). *)
Fixpoint bm_unpack_loop (fuel : nat) (s : bmspec) (minLen : Z) (rest : bytes) (read : Z) (acc : bytes) : bytes * outcome Z :=
  match fuel with
  | O => (acc, OutOfFuel)
  | S f =>
      match enc_decode (bm_enc s) rest minLen with
      | Ok (decoded, r) =>
          let acc' := acc ++ decoded in
          let read' := read + r in
          if negb (bm_auto s) then (acc', Ok read') else
          match decoded with
          | [] => (acc', Panic (E "index out of range [0] with length 0"))
          | b0 :: _ => if bz b0 <? 128 then (acc', Ok read') else bm_unpack_loop f s minLen (zdrop r rest) read' acc'
          end
      | Err e => (acc, Err e)
      | Panic p => (acc, Panic p)
      | OutOfFuel => (acc, OutOfFuel)
      end
  end.

Definition bm_unpack (s : bmspec) (data input : bytes) : bytes * outcome Z :=
  match dec_len (bm_pref s) (bm_len s) input with
  | Ok (minLen, _) => bm_unpack_loop (S (length input)) s minLen input 0 []
  | Err e => (data, Err e)
  | Panic p => (data, Panic p)
  | OutOfFuel => (data, OutOfFuel)
  end.

Definition bm_is_presence_bit (s : bmspec) (n : Z) : bool :=
  if negb (bm_auto s) then false
  else if n <=? 0 then false
  else n mod (bm_len s * 8) =? 1.
