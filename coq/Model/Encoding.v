(* encoding/*.go (+ yerden/go-util/bcd, x/text CP1047 through the generated tables). *)
From Coq Require Import Strings.String.
From Iso Require Import Model.Base Gen.EbcdicTables.

Definition E (s : string) : bytes := list_byte_of_string s.

Inductive encoder : Type :=
| EncASCII | EncBinary | EncBCD | EncLBCD | EncHex (* BytesToASCIIHex *) | EncHexToBytes (* ASCIIHexToBytes *)
| EncEBCDIC | EncEBCDIC1047 | EncBerTag.

Definition tbl (t : list byte) (b : byte) : byte := nth (Z.to_nat (bz b)) t x00.

Definition all_ascii (l : bytes) : bool := forallb (fun b => bz b <=? 127) l.
Definition all_digits (l : bytes) : bool := forallb is_digit l.

(* packed BCD of an even-length digit string, high nibble first *)
Fixpoint bcd_pack (l : bytes) : bytes :=
  match l with
  | a :: b :: r => zb ((bz a - 48) * 16 + (bz b - 48)) :: bcd_pack r
  | _ => []
  end.

(* yerden bcd.Decode (Standard) with the digit-count check: every byte must hold two digits *)
Fixpoint bcd_unpack (l : bytes) : option bytes :=
  match l with
  | [] => Some []
  | b :: r =>
      let hi := bz b / 16 in let lo := bz b mod 16 in
      if (hi <=? 9) && (lo <=? 9) then
        match bcd_unpack r with
        | Some t => Some (zb (48 + hi) :: zb (48 + lo) :: t)
        | None => None
        end
      else None
  end.

(* x/text charmap encoder: input is UTF-8; CP1047 covers exactly U+0000..U+00FF *)
Fixpoint cp1047_encode (l : bytes) : option bytes :=
  match l with
  | [] => Some []
  | b :: r =>
      if bz b <? 128 then option_map (cons (tbl cp1047_enc b)) (cp1047_encode r)
      else if (bz b =? 194) || (bz b =? 195) then
        match r with
        | c :: r' =>
            if (128 <=? bz c) && (bz c <=? 191)
            then option_map (cons (tbl cp1047_enc (zb ((bz b - 192) * 64 + (bz c - 128))))) (cp1047_encode r')
            else None
        | [] => None
        end
      else None
  end.

(* charmap decoder: one EBCDIC byte -> one code point <= U+00FF -> UTF-8 *)
Fixpoint cp1047_decode (l : bytes) : bytes :=
  match l with
  | [] => []
  | b :: r =>
      let u := bz (tbl cp1047_dec b) in
      if u <? 128 then zb u :: cp1047_decode r
      else zb (192 + u / 64) :: zb (128 + u mod 64) :: cp1047_decode r
  end.

Definition enc_encode (e : encoder) (data : bytes) : outcome bytes :=
  match e with
  | EncASCII => if all_ascii data then Ok data else Err (E "ascii.encode.invalid")
  | EncBinary => Ok data
  | EncBCD =>
      let src := if Nat.even (length data) then data else x30 :: data in
      if all_digits src then Ok (bcd_pack src) else Err (E "bcd.encode.invalid")
  | EncLBCD =>
      let src := if Nat.even (length data) then data else data ++ [x30] in
      if all_digits src then Ok (bcd_pack src) else Err (E "lbcd.encode.invalid")
  | EncHex => Ok (hex_encode_upper data)
  | EncHexToBytes | EncBerTag =>
      match hex_decode data with Some o => Ok o | None => Err (E "hex.decode.invalid") end
  | EncEBCDIC => Ok (map (tbl ebcdic_a2e) data)
  | EncEBCDIC1047 =>
      match cp1047_encode data with Some o => Ok o | None => Err (E "ebcdic1047.encode.invalid") end
  end.

(* BER tag: number of tag bytes, None when the data ends inside the tag *)
Fixpoint ber_tag_more (l : bytes) (n : Z) : option Z :=
  match l with
  | [] => None
  | b :: r => if bz b <? 128 then Some (n + 1) else ber_tag_more r (n + 1)
  end.
Definition ber_tag_len (l : bytes) : option Z :=
  match l with
  | [] => None
  | b :: r => if bz b mod 32 =? 31 then ber_tag_more r 1 else Some 1
  end.

(* Decode data for `length` units: value and number of bytes read *)
Definition enc_decode (e : encoder) (data : bytes) (length : Z) : outcome (bytes * Z) :=
  match e with
  | EncBerTag =>
      match ber_tag_len data with
      | Some n => Ok (hex_encode_upper (ztake n data), n)
      | None => Err (E "bertag.decode.short")
      end
  | _ =>
    if length <? 0 then Err (E "decode.negative") else
    match e with
    | EncASCII =>
        if zlen data <? length then Err (E "decode.short") else
        let d := ztake length data in
        if all_ascii d then Ok (d, length) else Err (E "ascii.decode.invalid")
    | EncBinary =>
        if zlen data <? length then Err (E "decode.short") else Ok (ztake length data, length)
    | EncBCD =>
        let read := (length + 1) / 2 in
        if zlen data <? read then Err (E "decode.short") else
        match bcd_unpack (ztake read data) with
        | Some d => Ok (zdrop (read * 2 - length) d, read)
        | None => Err (E "bcd.decode.invalid")
        end
    | EncLBCD =>
        let read := (length + 1) / 2 in
        if zlen data <? read then Err (E "decode.short") else
        match bcd_unpack (ztake read data) with
        | Some d => Ok (ztake length d, read)
        | None => Err (E "bcd.decode.invalid")
        end
    | EncHex =>
        if zlen data / 2 <? length then Err (E "decode.short") else
        match hex_decode (ztake (2 * length) data) with
        | Some o => Ok (o, 2 * length)
        | None => Err (E "hex.decode.invalid")
        end
    | EncHexToBytes =>
        if zlen data <? length then Err (E "decode.short") else
        Ok (hex_encode_upper (ztake length data), length)
    | EncEBCDIC =>
        if zlen data <? length then Err (E "decode.short") else
        Ok (map (tbl ebcdic_e2a) (ztake length data), length)
    | EncEBCDIC1047 =>
        if zlen data <? length then Err (E "decode.short") else
        Ok (cp1047_decode (ztake length data), length)
    | EncBerTag => Err (E "unreachable")
    end
  end.
