(* network/*.go: the four message length headers, over an explicit model of io.Reader / io.ReadFull. *)
From Coq Require Import Strings.String.
From Iso Require Import Model.Base Model.Encoding.

Inductive hkind : Type := HBinary2 | HASCII4 | HBCD2 | HVMLH.

Record hstate : Type := { hlen : Z; hsess : bool }.
Definition hinit : hstate := {| hlen := 0; hsess := false |}.

Definition hsize (k : hkind) : Z := match k with HBinary2 | HBCD2 => 2 | HASCII4 | HVMLH => 4 end.

(* SetLength: the two uint16 headers check the range; the int headers store anything *)
Definition hdr_set (k : hkind) (st : hstate) (n : Z) : outcome hstate :=
  match k with
  | HBinary2 | HVMLH =>
      if n <? 0 then Err (E "hdr.negative")
      else if 65535 <? n then Err (E "hdr.too_large")
      else Ok {| hlen := n; hsess := hsess st |}
  | HASCII4 | HBCD2 => Ok {| hlen := n; hsess := hsess st |}
  end.

Definition be16 (n : Z) : bytes := [zb (n / 256); zb (n mod 256)].

(* WriteTo: bytes written *)
Definition hdr_write (k : hkind) (st : hstate) : outcome bytes :=
  let n := hlen st in
  match k with
  | HBinary2 => Ok (be16 n)
  | HASCII4 => if (n <? 0) || (9999 <? n) then Err (E "hdr.unrepresentable") else Ok (sprintf0d 4 n)
  | HBCD2 => if (n <? 0) || (9999 <? n) then Err (E "hdr.unrepresentable") else enc_encode EncBCD (sprintf0d 4 n)
  | HVMLH => if 2048 <? n then Err (E "hdr.vmlh.too_large") else Ok (be16 n ++ [x00; x00])
  end.

(* an io.Reader delivering the given chunks; Read returns at most the rest of the current chunk.
   io.ReadFull: loops until n bytes are read or the reader is exhausted (then an error). *)
Fixpoint read_full (chunks : list bytes) (n : nat) (acc : bytes) : option (bytes * list bytes) :=
  match n with
  | O => Some (acc, chunks)
  | S _ =>
      match chunks with
      | [] => None
      | c :: cs =>
          if (length c <=? n)%nat then read_full cs (n - length c) (acc ++ c)
          else Some (acc ++ firstn n c, skipn n c :: cs)
      end
  end.

(* ReadFrom: new state, bytes read, what is left in the reader *)
Definition hdr_read (k : hkind) (st : hstate) (chunks : list bytes) : outcome (hstate * Z * list bytes) :=
  match read_full (filter (fun c => negb (Nat.eqb (length c) 0)) chunks) (Z.to_nat (hsize k)) [] with
  | None => Err (E "hdr.short_read")
  | Some (buf, rest) =>
      match k with
      | HBinary2 => Ok ({| hlen := be_val buf 0; hsess := hsess st |}, 2, rest)
      | HASCII4 =>
          match atoi buf with
          | Some n => if n <? 0 then Err (E "hdr.negative") else Ok ({| hlen := n; hsess := hsess st |}, 4, rest)
          | None => Err (E "hdr.atoi")
          end
      | HBCD2 =>
          do (s, _) <- enc_decode EncBCD buf 4;
          match atoi s with
          | Some n => Ok ({| hlen := n; hsess := hsess st |}, 2, rest)
          | None => Err (E "hdr.atoi")
          end
      | HVMLH =>
          let n := be_val (ztake 2 buf) 0 in
          if 2048 <? n then Err (E "hdr.vmlh.too_large") else
          do (ind, _) <- enc_decode EncBCD (zdrop 3 buf) 2;
          Ok ({| hlen := n; hsess := match ind with b :: _ => Byte.eqb b x32 | [] => false end |}, 4, rest)
      end
  end.
