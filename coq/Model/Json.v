(* JSON encoding of fields and messages (field/*.go MarshalJSON, field/ordered_map.go, message.go) and the
   effect of UnmarshalJSON on object states, starting from a parsed document tree. *)
From Coq Require Import Strings.String.
From Iso Require Import Model.Base Model.Sexp Model.Padding Model.Encoding Model.Prefix Model.Bitmap Model.Spec Model.Field Model.Message.

Definition J (s : string) : bytes := list_byte_of_string s.

(* ---- encoding/json string escaping (HTML escaping on, as json.Marshal does) ---- *)
Definition hex4 (n : Z) : bytes :=
  [hex_digit_lower (n / 4096 mod 16); hex_digit_lower (n / 256 mod 16); hex_digit_lower (n / 16 mod 16); hex_digit_lower (n mod 16)].

Definition is_cont (b : byte) : bool := (128 <=? bz b) && (bz b <=? 191).

(* one step of utf8.DecodeRune: (number of bytes, valid) *)
Definition utf8_step (l : bytes) : nat * bool :=
  match l with
  | [] => (0%nat, false)
  | b0 :: r =>
      let z0 := bz b0 in
      if z0 <? 128 then (1%nat, true)
      else if z0 <? 194 then (1%nat, false)
      else if z0 <? 224 then
        match r with b1 :: _ => if is_cont b1 then (2%nat, true) else (1%nat, false) | [] => (1%nat, false) end
      else if z0 <? 240 then
        match r with
        | b1 :: b2 :: _ =>
            let lo := if z0 =? 224 then 160 else 128 in
            let hi := if z0 =? 237 then 159 else 191 in
            if (lo <=? bz b1) && (bz b1 <=? hi) && is_cont b2 then (3%nat, true) else (1%nat, false)
        | _ => (1%nat, false)
        end
      else if z0 <? 245 then
        match r with
        | b1 :: b2 :: b3 :: _ =>
            let lo := if z0 =? 240 then 144 else 128 in
            let hi := if z0 =? 244 then 143 else 191 in
            if (lo <=? bz b1) && (bz b1 <=? hi) && is_cont b2 && is_cont b3 then (4%nat, true) else (1%nat, false)
        | _ => (1%nat, false)
        end
      else (1%nat, false)
  end.

Fixpoint json_escape (fuel : nat) (l : bytes) : bytes :=
  match fuel with
  | O => []
  | S f =>
      match l with
      | [] => []
      | b :: r =>
          let z := bz b in
          if z <? 128 then
            (if z =? 34 then [x5c; x22]
             else if z =? 92 then [x5c; x5c]
             else if z =? 8 then [x5c; x62]
             else if z =? 12 then [x5c; x66]
             else if z =? 10 then [x5c; x6e]
             else if z =? 13 then [x5c; x72]
             else if z =? 9 then [x5c; x74]
             else if (z <? 32) || (z =? 60) || (z =? 62) || (z =? 38) then [x5c; x75] ++ hex4 z
             else [b]) ++ json_escape f r
          else
            match utf8_step l with
            | (n, true) =>
                let ch := firstn n l in
                (if bytes_eqb ch [xe2; x80; xa8] then [x5c; x75; x32; x30; x32; x38]
                 else if bytes_eqb ch [xe2; x80; xa9] then [x5c; x75; x32; x30; x32; x39] else ch) ++ json_escape f (skipn n l)
            | (_, false) => [x5c; x75; x66; x66; x66; x64] ++ json_escape f r
            end
      end
  end.

Definition json_string (v : bytes) : bytes := x22 :: json_escape (S (length v)) v ++ [x22].

Fixpoint valid_utf8 (fuel : nat) (l : bytes) : bool :=
  match fuel with
  | O => true
  | S f => match l with
           | [] => true
           | _ => match utf8_step l with (n, true) => valid_utf8 f (skipn n l) | (_, false) => false end
           end
  end.

(* ---- OrderedMap: keys sorted with StringsByInt, "key":value joined by commas ---- *)
Definition json_object (kvs : list (bytes * bytes)) : bytes :=
  let keys := sort_tags SortByInt (map fst kvs) in
  J "{" ++ join (J ",") (map (fun k => x22 :: k ++ [x22; x3a] ++ match blookup k kvs with Some v => v | None => [] end) keys) ++ J "}".

Fixpoint json_field (st : fstate) : bytes :=
  match st with
  | SString v => json_string v
  | SNumeric v => itoa v
  | SBinary v => json_string (hex_encode_upper v)
  | SHex v => json_string v
  | SComp set sts =>
      json_object ((fix go (l : list (bytes * fstate)) : list (bytes * bytes) :=
                      match l with
                      | [] => []
                      | (t, st') :: r => if bmem t set then (t, json_field st') :: go r else go r
                      end) sts)
  end.

(* Message.MarshalJSON: Pack first (its error is the error), then the present fields as an OrderedMap *)
Definition m_json (S : mspec) (m0 : mstate) : mstate * outcome bytes :=
  match m_pack S m0 with
  | (m, Ok _) =>
      (m, Ok (json_object (map (fun id =>
                (itoa id,
                 if id =? 0 then json_field (m_mti m)
                 else if id =? 1 then json_string (hex_encode_upper (m_bm m))
                 else match zlookup id (m_fields m) with Some st => json_field st | None => J "null" end)) (m_present m))))
  | (m, Err e) => (m, Err e)
  | (m, Panic p) => (m, Panic p)
  | (m, OutOfFuel) => (m, OutOfFuel)
  end.
