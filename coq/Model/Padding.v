(* padding/{left,right,none}.go. Pads are single bytes below 0x80 (multi-byte runes are outside every
   property, DESIGN.md Appendix B), so bytes.Trim{Left,Right}Func by rune is trimming by byte. *)
From Iso Require Import Model.Base.

Inductive padder : Type := PadNone | PadLeft (c : byte) | PadRight (c : byte).

(* Go: append(s, extra...) where s is the caller's slice with spare capacity `spare`:
   writes in place when the capacity suffices, reallocates otherwise.
   Returns (resulting slice contents, caller's spare region afterwards). *)
Definition go_append_inplace (data spare extra : bytes) : bytes * bytes :=
  if (length extra <=? length spare)%nat
  then (data ++ extra, extra ++ skipn (length extra) spare)
  else (data ++ extra, spare).

(* append into a freshly made buffer never touches the caller's memory *)
Definition go_append_fresh (data spare extra : bytes) : bytes * bytes := (data ++ extra, spare).

(* Pad with the effect on the caller's spare capacity made explicit *)
Definition pad_mem (p : padder) (data spare : bytes) (n : Z) : bytes * bytes :=
  match p with
  | PadNone => (data, spare)
  | PadLeft c =>
      if n <=? zlen data then (data, spare)
      else (repeat c (Z.to_nat (n - zlen data)) ++ data, spare)
  | PadRight c =>
      if n <=? zlen data then (data, spare)
      else go_append_fresh data spare (repeat c (Z.to_nat (n - zlen data)))
  end.

Definition pad (p : padder) (data : bytes) (n : Z) : bytes := fst (pad_mem p data [] n).

Definition unpad (p : padder) (data : bytes) : bytes :=
  match p with
  | PadNone => data
  | PadLeft c => drop_while (Byte.eqb c) data
  | PadRight c => drop_while_end (Byte.eqb c) data
  end.
