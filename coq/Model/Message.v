(* message.go: the message object (fields, presence set fieldsMap, cached bitmap), Pack / Unpack,
   setters, GetFields, UnsetField(s). *)
From Coq Require Import Strings.String.
From Iso Require Import Model.Base Model.Padding Model.Encoding Model.Prefix Model.Bitmap Model.Spec Model.Field.

Record mstate : Type := {
  m_mti : fstate;                       (* fields[0] *)
  m_fields : list (Z * fstate);         (* fields[2..] : one state per spec'd field, set or not *)
  m_present : list Z;                   (* fieldsMap *)
  m_bm : bytes;                         (* data of fields[1] *)
  m_bmcached : bool;
  m_failed : bytes }.                   (* failedID, as its decimal numeral: the data element at which the last Unpack failed, empty = none *)

Definition mfresh (S : mspec) : mstate :=
  {| m_mti := fresh (FPrim (ms_mti S));
     m_fields := map (fun '(id, s) => (id, fresh s)) (ms_fields S);
     m_present := []; m_bm := []; m_bmcached := false; m_failed := [] |}.

(* m.bitmap(): first use caches the field, resets it and enters 1 into the presence set *)
Definition m_bitmap (S : mspec) (m : mstate) : mstate :=
  if m_bmcached m then m
  else {| m_mti := m_mti m; m_fields := m_fields m; m_present := zadd 1 (m_present m);
          m_bm := bm_new (ms_bm S); m_bmcached := true; m_failed := m_failed m |}.

Definition with_bm (m : mstate) (bm : bytes) : mstate :=
  {| m_mti := m_mti m; m_fields := m_fields m; m_present := m_present m; m_bm := bm; m_bmcached := m_bmcached m; m_failed := m_failed m |}.
Definition with_present (m : mstate) (p : list Z) : mstate :=
  {| m_mti := m_mti m; m_fields := m_fields m; m_present := p; m_bm := m_bm m; m_bmcached := m_bmcached m; m_failed := m_failed m |}.
Definition with_fields (m : mstate) (f : list (Z * fstate)) : mstate :=
  {| m_mti := m_mti m; m_fields := f; m_present := m_present m; m_bm := m_bm m; m_bmcached := m_bmcached m; m_failed := m_failed m |}.
Definition with_failed (m : mstate) (i : bytes) : mstate :=
  {| m_mti := m_mti m; m_fields := m_fields m; m_present := m_present m; m_bm := m_bm m; m_bmcached := m_bmcached m; m_failed := i |}.
Definition with_mti (m : mstate) (f : fstate) : mstate :=
  {| m_mti := f; m_fields := m_fields m; m_present := m_present m; m_bm := m_bm m; m_bmcached := m_bmcached m; m_failed := m_failed m |}.

(* MTI(val): errors of SetBytes are dropped *)
Definition m_set_mti (S : mspec) (m : mstate) (val : bytes) : mstate :=
  let m1 := with_present m (zadd 0 (m_present m)) in
  match setbytes_f (FPrim (ms_mti S)) (m_mti m1) val with
  | (st, _) => with_mti m1 st
  end.

(* Field(id, val) / BinaryField(id, val) *)
Definition m_set_field (S : mspec) (m : mstate) (id : Z) (val : bytes) : mstate * ures Z :=
  if id =? 0 then
    let m1 := with_present m (zadd 0 (m_present m)) in
    match setbytes_f (FPrim (ms_mti S)) (m_mti m1) val with (st, r) => (with_mti m1 st, r) end
  else if id =? 1 then (with_bm (with_present m (zadd 1 (m_present m))) val, UOk 0)
  else
    match zlookup id (ms_fields S), zlookup id (m_fields m) with
    | Some s, Some st =>
        let m1 := with_present m (zadd id (m_present m)) in
        match setbytes_f s st val with (st', r) => (with_fields m1 (zupdate id st' (m_fields m1)), r) end
    | _, _ => (m, UErr [] (E "message.no_such_field"))
    end.

(* packableFieldIDs: 1 and every populated id, ascending *)
Definition packable_ids (m : mstate) : list Z := sort_z (1 :: zremove 1 (m_present m)).

(* the bit-setting loop of pack: the bitmap as far as it got, and the failure if any *)
Fixpoint set_bits (b : bmspec) (ids : list Z) (bm : bytes) : bytes * outcome unit :=
  match ids with
  | [] => (bm, Ok tt)
  | id :: rest =>
      if (id <? 2) || bm_is_presence_bit b id then set_bits b rest bm
      else match bm_set b bm id with
           | Ok bm' => if negb (bm_isset bm' id) then (bm', Err (E "message.bitmap_cannot_represent")) else set_bits b rest bm'
           | Err e => (bm, Err e)
           | Panic p => (bm, Panic p)
           | OutOfFuel => (bm, OutOfFuel)
           end
  end.

Fixpoint pack_ids (S : mspec) (m : mstate) (bm : bytes) (ids : list Z) : outcome bytes :=
  match ids with
  | [] => Ok []
  | i :: rest =>
      if negb (i =? 1) && bm_is_presence_bit (ms_bm S) i then pack_ids S m bm rest
      else
        do pf <- (if i =? 0 then pack_f (FPrim (ms_mti S)) (m_mti m)
                  else if i =? 1 then bm_pack (ms_bm S) bm
                  else match zlookup i (ms_fields S), zlookup i (m_fields m) with
                       | Some s, Some st => pack_f s st
                       | _, _ => Err (E "message.no_specification")
                       end);
        do more <- pack_ids S m bm rest;
        Ok (pf ++ more)
  end.

(* Pack: the state afterwards (the bitmap is rebuilt) and the bytes *)
Definition m_pack (S : mspec) (m0 : mstate) : mstate * outcome bytes :=
  let m := m_bitmap S m0 in
  let ids := packable_ids m in
  match set_bits (ms_bm S) ids (bm_new (ms_bm S)) with
  | (bm, Ok _) => let m' := with_bm m bm in (m', pack_ids S m' bm ids)
  | (bm, Err e) => (with_bm m bm, Err e)
  | (bm, Panic p) => (with_bm m bm, Panic p)
  | (bm, OutOfFuel) => (with_bm m bm, OutOfFuel)
  end.

(* the body loop of unpack: for i := 2; i <= bitmap.Len(); i++ *)
Fixpoint unpack_fields (fuel : nat) (S : mspec) (bm : bytes) (i : Z) (src : bytes) (off : Z)
         (present : list Z) (fields : list (Z * fstate)) : (list Z * list (Z * fstate)) * ures Z :=
  match fuel with
  | O => ((present, fields), UOk off)
  | S f =>
      if bm_is_presence_bit (ms_bm S) i then unpack_fields f S bm (i + 1) src off present fields
      else if bm_isset bm i then
        match zlookup i (ms_fields S), zlookup i fields with
        | Some s, Some st =>
            match unpack_f s st (zdrop off src) with
            | (st', UOk read) => unpack_fields f S bm (i + 1) src (off + read) (zadd i present) (zupdate i st' fields)
            | (st', UErr p e) => ((present, zupdate i st' fields), UErr (itoa i :: p) e)
            | (_, UPanic q) => ((present, fields), UPanic q)       (* not an outcome of the library: the state is immaterial *)
            | (_, UFuel) => ((present, fields), UFuel)
            end
        | _, _ => ((present, fields), UErr [itoa i] (E "message.no_specification"))
        end
      else unpack_fields f S bm (i + 1) src off present fields
  end.

(* unpack first unsets every data element that was set, and the one at which the previous Unpack failed (F30): the
   field object is re-created (unsetField / createMessageField) *)
Definition reset_fields (S : mspec) (failed : bytes) (present : list Z) (fields : list (Z * fstate)) : list (Z * fstate) :=
  map (fun ist => if zmem (fst ist) present || bytes_eqb (itoa (fst ist)) failed then match zlookup (fst ist) (ms_fields S) with Some s => (fst ist, fresh s) | None => ist end else ist) fields.

(* Unpack: state afterwards (also on failure) and the result: bytes consumed *)
Definition m_unpack (S : mspec) (m0 : mstate) (src : bytes) : mstate * ures Z :=
  (* unset what was set ; m.fieldsMap = {} ; m.bitmap().Reset() *)
  let m0 := with_failed (with_fields m0 (reset_fields S (m_failed m0) (m_present m0) (m_fields m0))) [] in
  let m1 := m_bitmap S (with_present m0 []) in
  let m1 := with_bm m1 (bm_new (ms_bm S)) in
  match unpack_f (FPrim (ms_mti S)) (m_mti m1) src with
  | (mti', UOk read) =>
      let m2 := with_present (with_mti m1 mti') (zadd 0 (m_present m1)) in
      match bm_unpack (ms_bm S) (m_bm m2) (zdrop read src) with
      | (bm, Ok r2) =>
          let m3 := with_present (with_bm m2 bm) (zadd 1 (m_present m2)) in
          match unpack_fields (Z.to_nat (zlen bm * 8 - 1)) S bm 2 src (read + r2) (m_present m3) (m_fields m3) with
          | ((p, fl), r) =>
              let failed := match r with UErr (idb :: _) _ => idb | _ => [] end in
              (with_failed (with_fields (with_present m3 p) fl) failed, r)
          end
      | (bm, Err e) => (with_bm m2 bm, UErr [E "1"] e)
      | (bm, Panic q) => (with_bm m2 bm, UPanic q)
      | (bm, OutOfFuel) => (with_bm m2 bm, UFuel)
      end
  | (mti', UErr p e) => (with_mti m1 mti', UErr (E "0" :: p) e)
  | (mti', UPanic q) => (with_mti m1 mti', UPanic q)
  | (mti', UFuel) => (with_mti m1 mti', UFuel)
  end.

(* UnsetField(id) *)
Definition m_unset (S : mspec) (m : mstate) (id : Z) : mstate :=
  if zmem id (m_present m) then
    let m1 := with_present m (zremove id (m_present m)) in
    if id =? 0 then with_mti m1 (fresh (FPrim (ms_mti S)))
    else if id =? 1 then with_bm m1 []          (* a re-created Bitmap field: no data until the next Reset *)
    else match zlookup id (ms_fields S) with
         | Some s => with_fields m1 (zupdate id (fresh s) (m_fields m1))
         | None => m1
         end
  else m.
