(* field/packer_unpacker.go, field/{string,numeric,binary,hex}.go, field/composite.go:
   pack / unpack / SetBytes over object states, with the partial state a failed Unpack leaves behind
   and the field-id path of unpack errors. *)
From Coq Require Import Strings.String.
From Iso Require Import Model.Base Model.Padding Model.Encoding Model.Prefix Model.Bitmap Model.Spec.

(* result of an unpack-like operation: errors carry the FieldIDs path of the UnpackError chain *)
Inductive ures (A : Type) : Type :=
| UOk (a : A)
| UErr (path : list bytes) (e : bytes)
| UPanic (p : bytes)
| UFuel.
Arguments UOk {A}. Arguments UErr {A}. Arguments UPanic {A}. Arguments UFuel {A}.

Definition lift {A} (o : outcome A) : ures A :=
  match o with Ok a => UOk a | Err e => UErr [] e | Panic p => UPanic p | OutOfFuel => UFuel end.
(* wrapErrorUnpack: &UnpackError{FieldID: id, Err: err} *)
Definition wrap_id {A} (id : bytes) (r : ures A) : ures A :=
  match r with UErr path e => UErr (id :: path) e | _ => r end.
(* fmt.Errorf("...: %w", err): the chain below is kept *)
Definition u_is_ok {A} (r : ures A) : bool := match r with UOk _ => true | _ => false end.

(* ---------------- primitive fields ---------------- *)
(* the bytes handed to the packer *)
Definition prim_raw (st : fstate) : outcome bytes :=
  match st with
  | SString v => Ok v
  | SNumeric v => Ok (itoa v)
  | SBinary v => Ok v
  | SHex v => match hex_decode v with Some b => Ok b | None => Err (E "hex.field.invalid") end
  | SComp _ _ => Panic (E "state does not match spec")
  end.

Definition odd (n : Z) : bool := negb (n mod 2 =? 0).

Definition prim_pack_raw (p : pspec) (raw : bytes) : outcome bytes :=
  match ps_packer p with
  | PkDefault =>
      let v := pad (ps_pad p) raw (ps_len p) in
      do enc <- enc_encode (ps_enc p) v;
      do pre <- enc_len (ps_pref p) (ps_len p) (zlen v);
      Ok (pre ++ enc)
  | PkTrack2 =>
      let data := if odd (zlen raw) then pad (ps_pad p) raw (zlen raw + 1) else raw in
      do enc <- enc_encode (ps_enc p) data;
      do pre <- enc_len (ps_pref p) (ps_len p) (zlen raw);
      Ok (pre ++ enc)
  end.

Definition prim_pack (p : pspec) (st : fstate) : outcome bytes :=
  do raw <- prim_raw st; prim_pack_raw p raw.

Definition prim_unpack_raw (p : pspec) (data : bytes) : outcome (bytes * Z) :=
  do (n, pb) <- dec_len (ps_pref p) (ps_len p) data;
  if (pb <? 0) || (zlen data <? pb) then Panic (E "slice bounds out of range") else
  let n' := match ps_packer p with PkDefault => n | PkTrack2 => if odd n then n + 1 else n end in
  do (v, r) <- enc_decode (ps_enc p) (zdrop pb data) n';
  Ok (unpad (ps_pad p) v, r + pb).

(* SetBytes per kind *)
Definition prim_setbytes (k : fkind) (raw : bytes) : outcome fstate :=
  match k with
  | KString => Ok (SString raw)
  | KNumeric => match raw with
                | [] => Ok (SNumeric 0)
                | _ => match atoi raw with Some v => Ok (SNumeric v) | None => Err (E "numeric.parse") end
                end
  | KBinary => Ok (SBinary raw)
  | KHex => Ok (SHex (hex_encode_upper raw))
  end.

Definition prim_unpack (p : pspec) (st : fstate) (data : bytes) : fstate * ures Z :=
  match prim_unpack_raw p data with
  | Ok (raw, n) => match prim_setbytes (ps_kind p) raw with
                   | Ok st' => (st', UOk n)
                   | Err e => (st, UErr [] e)
                   | Panic q => (st, UPanic q)
                   | OutOfFuel => (st, UFuel)
                   end
  | Err e => (st, UErr [] e)
  | Panic q => (st, UPanic q)
  | OutOfFuel => (st, UFuel)
  end.

(* ---------------- composites ---------------- *)
Definition comp_sort (m : cmode) : sortfn := match m with CTag t => tg_sort t | CBitmap _ => SortByInt end.
Definition ordered_tags (m : cmode) (subs : list (bytes * fspec)) : list bytes := sort_tags (comp_sort m) (map fst subs).

Definition skip_unknown (t : tagspec) : bool :=
  tg_skip t && (match tg_enc t with Some EncBerTag => true | _ => false end || match tg_prefunk t with Some _ => true | None => false end).

(* the wire form of a tag *)
Definition tag_wire (t : tagspec) (tag : bytes) : outcome bytes :=
  match tg_enc t with
  | None => Ok []
  | Some e => enc_encode e (pad (tg_pad t) tag (tg_len t))
  end.

Section CompositeOps.
  (* per-subfield operations, built structurally from the spec (tag -> operation) *)
  Variable packers : list (bytes * (fstate -> outcome bytes)).
  Variable unpackers : list (bytes * (fstate -> bytes -> fstate * ures Z)).
  Variable mode : cmode.
  Variable tags : list bytes.       (* orderedSpecFieldTags *)
  Variable freshes : list (bytes * fstate).   (* CreateSubfield of every subfield of the spec *)

  (* unpack() first unsets every subfield that was set: the object is re-created (unsetSubfield) *)
  (* a subfield whose Unpack fails is unset and re-created (unsetSubfield): what it decoded before failing, and an
     earlier occurrence of the same tag, are discarded (F30) *)
  Definition fresh_of (tag : bytes) (st : fstate) : fstate := match blookup tag freshes with Some f => f | None => st end.

  Definition reset_set (set : list bytes) (sts : list (bytes * fstate)) : list (bytes * fstate) :=
    map (fun ts => if bmem (fst ts) set then match blookup (fst ts) freshes with Some f => (fst ts, f) | None => ts end else ts) sts.

  Definition sub_state (sts : list (bytes * fstate)) (tag : bytes) : option fstate := blookup tag sts.

  (* packByTag *)
  Fixpoint pack_by_tag (t : tagspec) (order : list bytes) (set : list bytes) (sts : list (bytes * fstate)) : outcome bytes :=
    match order with
    | [] => Ok []
    | tag :: rest =>
        match blookup tag packers, sub_state sts tag with
        | Some pk, Some st =>
            if bmem tag set then
              do tb <- tag_wire t tag;
              do pb <- pk st;
              do more <- pack_by_tag t rest set sts;
              Ok (tb ++ pb ++ more)
            else pack_by_tag t rest set sts
        | _, _ => Err (E "composite.no_subfield")
        end
    end.

  (* packByBitmap: the bitmap data and the packed fields *)
  Fixpoint pack_by_bitmap (b : bmspec) (order : list bytes) (set : list bytes) (sts : list (bytes * fstate)) (bm : bytes)
    : outcome (bytes * bytes) :=
    match order with
    | [] => Ok (bm, [])
    | id :: rest =>
        if bmem id set then
          match atoi id with
          | None => Err (E "composite.id_not_int")
          | Some n =>
              do bm' <- bm_set b bm n;
              if negb (bm_isset bm' n) then Err (E "composite.bitmap_cannot_represent") else
              match blookup id packers, sub_state sts id with
              | Some pk, Some st =>
                  do pb <- pk st;
                  do (bmf, more) <- pack_by_bitmap b rest set sts bm';
                  Ok (bmf, pb ++ more)
              | _, _ => Err (E "composite.no_subfield")
              end
          end
        else pack_by_bitmap b rest set sts bm
    end.

  Definition comp_pack_body (set : list bytes) (sts : list (bytes * fstate)) : outcome bytes :=
    match mode with
    | CTag t => pack_by_tag t tags set sts
    | CBitmap b =>
        do (bm, fields) <- pack_by_bitmap b tags set sts (bm_new b);
        do pbm <- bm_pack b bm;
        Ok (pbm ++ fields)
    end.

  (* unpackSubfields (positional): state, set, offset *)
  Fixpoint unpack_positional (order : list bytes) (isvar : bool) (data : bytes) (offset : Z)
           (set : list bytes) (sts : list (bytes * fstate)) : (list bytes * list (bytes * fstate)) * ures Z :=
    match order with
    | [] => ((set, sts), UOk offset)
    | tag :: rest =>
        match blookup tag unpackers, sub_state sts tag with
        | Some up, Some st =>
            match up st (zdrop offset data) with
            | (st', UOk read) =>
                let set' := badd tag set in
                let sts' := bupdate tag st' sts in
                let offset' := offset + read in
                if isvar && (zlen data <=? offset') then ((set', sts'), UOk offset')
                else unpack_positional rest isvar data offset' set' sts'
            | (st', r) => ((bremove tag set, bupdate tag (fresh_of tag st') sts), wrap_id tag (match r with UOk _ => UFuel | UErr p e => UErr p e | UPanic q => UPanic q | UFuel => UFuel end))
            end
        | _, _ => unpack_positional rest isvar data offset set sts
        end
    end.

  (* unpackSubfieldsByTag: loop over the data *)
  Fixpoint unpack_by_tag (fuel : nat) (t : tagspec) (e : encoder) (data : bytes) (offset : Z)
           (set : list bytes) (sts : list (bytes * fstate)) : (list bytes * list (bytes * fstate)) * ures Z :=
    match fuel with
    | O => ((set, sts), UFuel)
    | S f =>
        if zlen data <=? offset then ((set, sts), UOk offset) else
        match enc_decode e (zdrop offset data) (tg_len t) with
        | Ok (tagb, read) =>
            let offset1 := offset + read in
            let tag := unpad (tg_pad t) tagb in
            match blookup tag unpackers with
            | None =>
                if skip_unknown t then
                  let '(pref, maxlen) := match tg_prefunk t with Some p => (p, max_int) | None => (PBerTLV, 0) end in
                  match dec_len pref maxlen (zdrop offset1 data) with
                  | Ok (flen, read2) =>
                      if (flen <? 0) || (zlen data - offset1 - read2 <? flen)
                      then ((set, sts), UErr [tag] (E "composite.skip_overrun"))
                      else unpack_by_tag f t e data (offset1 + flen + read2) set sts
                  | Err er => ((set, sts), UErr [E ""] er)
                  | Panic q => ((set, sts), UPanic q)
                  | OutOfFuel => ((set, sts), UFuel)
                  end
                else ((set, sts), UErr [tag] (E "composite.unknown_tag"))
            | Some up =>
                match sub_state sts tag with
                | None => unpack_by_tag f t e data offset1 set sts
                | Some st =>
                    match up st (zdrop offset1 data) with
                    | (st', UOk read2) => unpack_by_tag f t e data (offset1 + read2) (badd tag set) (bupdate tag st' sts)
                    | (st', UErr p er) => ((bremove tag set, bupdate tag (fresh_of tag st') sts), UErr (tag :: p) er)
                    | (st', UPanic q) => ((bremove tag set, bupdate tag (fresh_of tag st') sts), UPanic q)
                    | (st', UFuel) => ((bremove tag set, bupdate tag (fresh_of tag st') sts), UFuel)
                    end
                end
            end
        | Err er => ((set, sts), UErr [E ""] er)
        | Panic q => ((set, sts), UPanic q)
        | OutOfFuel => ((set, sts), UFuel)
        end
    end.

  (* unpackSubfieldsByBitmap: for i := 1; i <= Len(); i++ *)
  Fixpoint unpack_bits (fuel : nat) (bm : bytes) (i : Z) (data : bytes) (off : Z)
           (set : list bytes) (sts : list (bytes * fstate)) : (list bytes * list (bytes * fstate)) * ures Z :=
    match fuel with
    | O => ((set, sts), UOk off)
    | S f =>
        if bm_isset bm i then
          let id := itoa i in
          match blookup id unpackers, sub_state sts id with
          | Some up, Some st =>
              match up st (zdrop off data) with
              | (st', UOk read) => unpack_bits f bm (i + 1) data (off + read) (badd id set) (bupdate id st' sts)
              | (st', UErr p er) => ((bremove id set, bupdate id (fresh_of id st') sts), UErr (id :: p) er)
              | (st', UPanic q) => ((bremove id set, bupdate id (fresh_of id st') sts), UPanic q)
              | (st', UFuel) => ((bremove id set, bupdate id (fresh_of id st') sts), UFuel)
              end
          | _, _ => ((set, sts), UErr [id] (E "composite.no_spec"))
          end
        else unpack_bits f bm (i + 1) data off set sts
    end.

  (* unpack(): the subfields set before are discarded first *)
  Definition comp_unpack_body (set0 : list bytes) (sts0 : list (bytes * fstate)) (data : bytes) (isvar : bool)
    : (list bytes * list (bytes * fstate)) * ures Z :=
    let sts := reset_set set0 sts0 in
    match mode with
    | CBitmap b =>
        match bm_unpack b (bm_new b) data with
        | (bm, Ok read) => unpack_bits (Z.to_nat (zlen bm * 8)) bm 1 data read [] sts
        | (_, Err er) => (([], sts), UErr [E ""] er)
        | (_, Panic q) => (([], sts), UPanic q)
        | (_, OutOfFuel) => (([], sts), UFuel)
        end
    | CTag t =>
        match tg_enc t with
        | Some e => unpack_by_tag (S (length data)) t e data 0 [] sts
        | None => unpack_positional tags isvar data 0 [] sts
        end
    end.
End CompositeOps.

(* ---------------- the recursive field operations ---------------- *)
Fixpoint pack_f (s : fspec) : fstate -> outcome bytes :=
  match s with
  | FPrim p => prim_pack p
  | FComp pref len mode subs =>
      let packers := (fix go (l : list (bytes * fspec)) : list (bytes * (fstate -> outcome bytes)) :=
                        match l with [] => [] | (t, s') :: r => (t, pack_f s') :: go r end) subs in
      let tags := ordered_tags mode subs in
      fun st =>
        match st with
        | SComp set sts =>
            do body <- comp_pack_body packers mode tags set sts;
            do pre <- enc_len pref len (zlen body);
            Ok (pre ++ body)
        | _ => Panic (E "state does not match spec")
        end
  end.

(* Bytes() of a composite: the body without the prefix *)
Definition comp_bytes (s : fspec) (st : fstate) : outcome bytes :=
  match s, st with
  | FComp pref len mode subs, SComp set sts =>
      comp_pack_body ((fix go (l : list (bytes * fspec)) : list (bytes * (fstate -> outcome bytes)) :=
                         match l with [] => [] | (t, s') :: r => (t, pack_f s') :: go r end) subs) mode (ordered_tags mode subs) set sts
  | _, _ => Panic (E "state does not match spec")
  end.

Fixpoint unpack_f (s : fspec) : fstate -> bytes -> fstate * ures Z :=
  match s with
  | FPrim p => prim_unpack p
  | FComp pref len mode subs =>
      let unpackers := (fix go (l : list (bytes * fspec)) : list (bytes * (fstate -> bytes -> fstate * ures Z)) :=
                          match l with [] => [] | (t, s') :: r => (t, unpack_f s') :: go r end) subs in
      let tags := ordered_tags mode subs in
      let freshes := (fix go (l : list (bytes * fspec)) : list (bytes * fstate) :=
                        match l with [] => [] | (t, s') :: r => (t, fresh s') :: go r end) subs in
      fun st data =>
        match st with
        | SComp set sts =>
            match dec_len pref len data with
            | Ok (dlen, offset) =>
                if (dlen <? 0) || (zlen data - offset <? dlen) then (st, UErr [] (E "composite.not_enough_data")) else
                let isvar := negb (offset =? 0) in
                let body := ztake dlen (zdrop offset data) in
                match comp_unpack_body unpackers mode tags freshes set sts body isvar with
                | ((set', sts'), UOk read) =>
                    if negb (dlen =? read) then (SComp set' sts', UErr [] (E "composite.length_mismatch"))
                    else (SComp set' sts', UOk (offset + read))
                | ((set', sts'), r) => (SComp set' sts', r)
                end
            | Err er => (st, UErr [] er)
            | Panic q => (st, UPanic q)
            | OutOfFuel => (st, UFuel)
            end
        | _ => (st, UPanic (E "state does not match spec"))
        end
  end.

(* Composite.SetBytes: the body without prefix, isVariableLength = false *)
Definition comp_setbytes (s : fspec) (st : fstate) (data : bytes) : fstate * ures Z :=
  match s, st with
  | FComp pref len mode subs, SComp set sts =>
      let unpackers := (fix go (l : list (bytes * fspec)) : list (bytes * (fstate -> bytes -> fstate * ures Z)) :=
                          match l with [] => [] | (t, s') :: r => (t, unpack_f s') :: go r end) subs in
      let freshes := (fix go (l : list (bytes * fspec)) : list (bytes * fstate) :=
                        match l with [] => [] | (t, s') :: r => (t, fresh s') :: go r end) subs in
      match comp_unpack_body unpackers mode (ordered_tags mode subs) freshes set sts data false with
      | ((set', sts'), r) => (SComp set' sts', r)
      end
  | _, _ => (st, UPanic (E "state does not match spec"))
  end.

(* Field.SetBytes for any field *)
Definition setbytes_f (s : fspec) (st : fstate) (data : bytes) : fstate * ures Z :=
  match s with
  | FPrim p => match prim_setbytes (ps_kind p) data with
               | Ok st' => (st', UOk 0)
               | Err e => (st, UErr [] e)
               | Panic q => (st, UPanic q)
               | OutOfFuel => (st, UFuel)
               end
  | FComp _ _ _ _ => comp_setbytes s st data
  end.
