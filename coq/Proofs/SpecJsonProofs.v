(* C17: spec JSON export / import. About Model/SpecJson.v and the generated name tables. *)
From Coq Require Import Strings.String.
From Iso Require Import Model.Base Model.Sexp Model.Padding Model.Encoding Model.Prefix Model.Bitmap Model.Spec Model.Field Model.Message
     Model.MessageOps Model.SpecJson Proofs.BaseLemmas.
From Coq Require Import ZifyBool ZifyNat.

(* ---- the name tables are mutually inverse on the exportable vocabulary ---- *)
Definition exportable_encs : list encoder := [EncASCII; EncBCD; EncEBCDIC; EncBinary; EncHex; EncHexToBytes; EncLBCD].
Definition importable_prefs : list prefixer :=
  PNone :: PBerTLV :: flat_map (fun f => PFixed f :: map (PVar f) [1%nat; 2%nat; 3%nat; 4%nat]) [PfASCII; PfBCD; PfHex; PfEBCDIC; PfBinary].

Definition encoder_eqb (a b : encoder) : bool :=
  match a, b with
  | EncASCII, EncASCII | EncBinary, EncBinary | EncBCD, EncBCD | EncLBCD, EncLBCD | EncHex, EncHex | EncHexToBytes, EncHexToBytes
  | EncEBCDIC, EncEBCDIC | EncEBCDIC1047, EncEBCDIC1047 | EncBerTag, EncBerTag => true
  | _, _ => false
  end.

Lemma enc_names_roundtrip : forallb (fun e => match enc_ext_name e with
                                              | Some n => match enc_of_name n with Some e' => encoder_eqb e e' | None => false end
                                              | None => false end) exportable_encs = true.
Proof. vm_compute. reflexivity. Qed.

Lemma pref_names_roundtrip : forallb (fun p => match pref_of_name (pref_name p) with
                                               | Some p' => bytes_eqb (pref_name p') (pref_name p)
                                               | None => false end) importable_prefs = true /\ length importable_prefs = 27%nat.
Proof. split; vm_compute; reflexivity. Qed.

(* ---- ImportJSON never panics: every outcome is Ok, Err or (documents nested deeper than the fuel) OutOfFuel ---- *)
Definition no_panic {A} (o : outcome A) : Prop := match o with Panic _ => False | _ => True end.

Lemma obind_no_panic {A B} (o : outcome A) (f : A -> outcome B) : no_panic o -> (forall a, no_panic (f a)) -> no_panic (obind o f).
Proof. destruct o; cbn; auto. Qed.

Lemma j_str_np d : no_panic (j_str d). Proof. destruct d; exact I. Qed.
Lemma j_int_np d : no_panic (j_int d). Proof. destruct d; cbn; try exact I. destruct (_ && _); exact I. Qed.
Lemma j_bool_np d : no_panic (j_bool d). Proof. destruct d; exact I. Qed.
Lemma j_obj_np d : no_panic (j_obj d). Proof. destruct d; exact I. Qed.

Lemma import_pad_np d : no_panic (import_pad d).
Proof.
  unfold import_pad. apply obind_no_panic; [apply j_obj_np|]. intros [kvs|]; [|exact I].
  apply obind_no_panic; [apply j_str_np|]. intros ty. apply obind_no_panic; [apply j_str_np|]. intros pd.
  destruct pd as [|c [|c2 r]]; try exact I.
  repeat match goal with |- context [if ?c then _ else _] => destruct c end; exact I.
Qed.

Lemma decode_dummy_np d : no_panic (decode_dummy d).
Proof.
  unfold decode_dummy. apply obind_no_panic; [apply j_obj_np|]. intros [kvs|]; [|exact I].
  apply obind_no_panic; [apply j_str_np|]. intros ty.
  apply obind_no_panic; [apply j_int_np|]. intros ln.
  apply obind_no_panic; [apply j_str_np|]. intros en.
  apply obind_no_panic; [apply j_str_np|]. intros pf.
  apply obind_no_panic; [apply j_str_np|]. intros ds.
  apply obind_no_panic; [apply import_pad_np|]. intros pd.
  apply obind_no_panic.
  { apply obind_no_panic; [apply j_obj_np|]. intros [tk|]; [|exact I].
    apply obind_no_panic; [apply j_int_np|]. intros tl. apply obind_no_panic; [apply j_str_np|]. intros te.
    apply obind_no_panic; [apply import_pad_np|]. intros tp. apply obind_no_panic; [apply j_str_np|]. intros ts. exact I. }
  intros tg. apply obind_no_panic; [apply j_obj_np|]. intros sb. apply obind_no_panic; [apply j_bool_np|]. intros dae. exact I.
Qed.

Theorem import_field_no_panic : forall fuel d, no_panic (import_field fuel d).
Proof.
  induction fuel as [|f IH]; intros d; [exact I|]. cbn [import_field].
  apply obind_no_panic; [apply decode_dummy_np|]. intros dm.
  destruct (d_isnull dm); [exact I|]. destruct (d_len dm <? 0); [exact I|].
  destruct (pref_of_name (d_pref dm)) as [pref|]; [|exact I].
  destruct (d_subs dm) as [|s0 sr] eqn:Es.
  - destruct (enc_of_name (d_enc dm)); [|exact I].
    repeat match goal with |- context [if ?c then _ else _] => destruct c end; exact I.
  - apply obind_no_panic.
    { generalize (s0 :: sr). intros l. induction l as [|[k sd] r IHl]; [exact I|]. cbn [import_subs].
      apply obind_no_panic; [apply IH|]. intros sf. apply obind_no_panic; [apply decode_dummy_np|]. intros sdm.
      destruct (negb (known_type (d_type sdm))); [exact I|]. apply obind_no_panic; [exact IHl|]. intros rest. exact I. }
    intros subspecs. apply obind_no_panic.
    { assert (G : forall bd, no_panic (do b <- import_field f bd;
                                        match b with
                                        | SFBitmap bs => Ok (Some bs)
                                        | SFPrim p => do bdm <- decode_dummy bd;
                                                      Ok (Some {| bm_len := ps_len p; bm_auto := negb (d_dae bdm); bm_enc := ps_enc p; bm_pref := ps_pref p |})
                                        | SFTrack2 p => do bdm <- decode_dummy bd;
                                                        Ok (Some {| bm_len := ps_len p; bm_auto := negb (d_dae bdm); bm_enc := ps_enc p; bm_pref := ps_pref p |})
                                        | SFComp _ _ _ _ _ | SFOdd _ _ _ _ _ => Err (Q "import.bitmap_with_subfields")
                                        end)).
      { intros bd. apply obind_no_panic; [apply IH|]. intros b. destruct b; try exact I;
        (apply obind_no_panic; [apply decode_dummy_np|]; intros; exact I). }
      destruct (d_bitmap dm); try apply G. exact I. }
    intros bm. destruct (_ && _); [exact I|]. destruct (bytes_eqb _ _); exact I.
Qed.

Theorem import_spec_no_panic : forall d, no_panic (import_spec d).
Proof.
  intros d. unfold import_spec. destruct (negb _); [exact I|]. destruct d; try exact I.
  apply obind_no_panic; [apply j_str_np|]. intros n. apply obind_no_panic; [apply j_obj_np|]. intros [fl|]; [|exact I].
  destruct fl as [|f0 fr]; [exact I|]. generalize (f0 :: fr). intros l. induction l as [|[k fd] r IHl]; [exact I|]. cbn [import_fields].
  destruct (atoi k); [|exact I]. apply obind_no_panic; [apply import_field_no_panic|]. intros sf.
  apply obind_no_panic; [apply decode_dummy_np|]. intros dm. destruct (negb _); [exact I|].
  apply obind_no_panic; [exact IHl|]. intros rest. exact I.
Qed.

(* ---- export then import gives the spec back: primitive fields of the exportable vocabulary ---- *)
Definition exportable_pspec (p : pspec) : Prop :=
  In (ps_enc p) exportable_encs /\ In (ps_pref p) importable_prefs /\ ps_kind p <> KHex /\ ps_packer p = PkDefault /\
  0 <= ps_len p < two63 /\ match ps_pad p with PadNone => True | PadLeft c | PadRight c => bz c < 128 end.

Definition family_eqb (a b : pfamily) : bool :=
  match a, b with
  | PfASCII, PfASCII | PfBCD, PfBCD | PfBinary, PfBinary | PfHex, PfHex | PfEBCDIC, PfEBCDIC | PfEBCDIC1047, PfEBCDIC1047 => true
  | _, _ => false
  end.
Definition prefixer_eqb (a b : prefixer) : bool :=
  match a, b with
  | PFixed f, PFixed g => family_eqb f g
  | PVar f d, PVar g e => family_eqb f g && Nat.eqb d e
  | PBerTLV, PBerTLV | PNone, PNone => true
  | _, _ => false
  end.
Lemma prefixer_eqb_eq a b : prefixer_eqb a b = true -> a = b.
Proof.
  destruct a as [f|f d| |], b as [g|g e| |]; cbn; try discriminate; try reflexivity.
  - destruct f, g; cbn; try discriminate; reflexivity.
  - intros H. apply andb_prop in H. destruct H as [H1 H2]. apply Nat.eqb_eq in H2. subst. destruct f, g; cbn in H1; try discriminate; reflexivity.
Qed.
Lemma encoder_eqb_eq a b : encoder_eqb a b = true -> a = b.
Proof. destruct a, b; cbn; try discriminate; reflexivity. Qed.

Lemma pref_of_name_roundtrip p : In p importable_prefs -> pref_of_name (pref_name p) = Some p.
Proof.
  intros H.
  assert (S : forallb (fun p => match pref_of_name (pref_name p) with Some p' => prefixer_eqb p' p | None => false end) importable_prefs = true)
    by (vm_compute; reflexivity).
  rewrite forallb_forall in S. specialize (S p H). destruct (pref_of_name (pref_name p)) as [p'|]; [|discriminate].
  apply prefixer_eqb_eq in S. subst. reflexivity.
Qed.

Lemma enc_of_name_roundtrip e : In e exportable_encs -> exists n, enc_ext_name e = Some n /\ enc_of_name n = Some e.
Proof.
  intros H. unfold exportable_encs in H. cbn [In] in H.
  repeat (destruct H as [<-|H]; [eexists; split; [reflexivity|vm_compute; reflexivity]|]). contradiction.
Qed.

Lemma import_export_pad pad : match pad with PadNone => True | PadLeft c | PadRight c => bz c < 128 end ->
  match export_pad pad with Some d => import_pad d = Ok pad | None => pad = PadNone end.
Proof.
  destruct pad as [|c|c]; cbn [export_pad]; intros H; [reflexivity| |].
  - unfold import_pad. cbn. replace (bz c <? 128) with true by lia. reflexivity.
  - unfold import_pad. cbn. replace (bz c <? 128) with true by lia. reflexivity.
Qed.

