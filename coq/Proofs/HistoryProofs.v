(* C10 over histories: whatever sequence of the library's state-changing operations a message object has been through
   (the JSON documents among them accepted), it is clean, so Unpack of any bytes into it has the outcome - and on
   success leaves the state - that Unpack into a new message of the same specification has. About Model/Message.v,
   Model/MessageOps.v, Model/Marshal.v, Model/Json.v. *)
From Coq Require Import Strings.String.
From Iso Require Import Model.Base Model.Encoding Model.Spec Model.Field Model.Message Model.MessageOps Model.Marshal Model.Json
     Proofs.BaseLemmas Proofs.StateProofs Proofs.MessageRoundtrip Proofs.IndependenceProofs Proofs.CleanOps Proofs.JsonProofs.
From Coq Require Import ZifyBool ZifyNat.
Set Default Timeout 120.

(* the operations of the message API that change the object *)
Inductive hop : Type :=
| HMti (v : bytes)                      (* MTI(v) *)
| HSet (id : Z) (val : bytes)           (* Field / BinaryField *)
| HUnset (id : Z)                       (* UnsetField *)
| HUnsetPath (p : bytes)                (* UnsetFields("a.b.c") *)
| HUnpack (d : bytes)                   (* Unpack, whatever its outcome *)
| HMarshal (t : gty) (v : gval)         (* Marshal, whatever its outcome *)
| HFromJson (kvs : list (bytes * jdoc)) (* UnmarshalJSON *)
| HPack                                 (* Pack, whatever its outcome *)
| HJson                                 (* MarshalJSON *)
| HBitmap                               (* Bitmap() *)
| HClone                                (* Clone, going on with the original *)
| HCloneTake.                           (* Clone, going on with the copy when there is one *)

Definition hstep (S : mspec) (m : mstate) (op : hop) : mstate :=
  match op with
  | HMti v => m_set_mti S m v
  | HSet id val => fst (m_set_field S m id val)
  | HUnset id => m_unset S m id
  | HUnsetPath p => fst (m_unset_path S m p)
  | HUnpack d => fst (m_unpack S m d)
  | HMarshal t v => fst (m_marshal S m t v)
  | HFromJson kvs => fst (m_from_json S m kvs)
  | HPack => fst (m_pack S m)
  | HJson => fst (m_json S m)
  | HBitmap => m_bitmap S m
  | HClone => fst (m_clone S m)
  | HCloneTake => match m_clone S m with (_, Ok c) => c | (m', _) => m' end
  end.

(* the JSON documents of the history are accepted (after a rejected one the state depends on Go's map order) *)
Fixpoint hist_ok (S : mspec) (m : mstate) (ops : list hop) : Prop :=
  match ops with
  | [] => True
  | op :: r => (match op with HFromJson kvs => snd (m_from_json S m kvs) = Ok tt | _ => True end) /\ hist_ok S (hstep S m op) r
  end.

Definition hrun (S : mspec) (m : mstate) (ops : list hop) : mstate := fold_left (hstep S) ops m.

Lemma m_bitmap_clean S m : (forall i s, In (i, s) (ms_fields S) -> 2 <= i) -> msg_clean S m -> msg_clean S (m_bitmap S m).
Proof.
  intros H2 (Hk & Hf). unfold m_bitmap. destruct (m_bmcached m); [split; assumption|]. split; [exact Hk|].
  cbn [m_present m_failed m_fields]. intros i s Hi Hm Hfa. rewrite zmem_zadd in Hm. apply Bool.orb_false_iff in Hm. apply Hf; tauto.
Qed.

Lemma m_pack_clean S m : (forall i s, In (i, s) (ms_fields S) -> 2 <= i) -> msg_clean S m -> msg_clean S (fst (m_pack S m)).
Proof.
  intros H2 Hc. apply (m_bitmap_clean S m H2) in Hc. unfold m_pack.
  destruct (set_bits (ms_bm S) _ _) as [bm [u|e|p|]]; cbn [fst]; exact Hc.
Qed.

Lemma m_set_mti_clean S m v : msg_clean S m -> msg_clean S (m_set_mti S m v).
Proof.
  intros Hc. unfold m_set_mti. destruct (setbytes_f _ _ v) as [st r].
  apply (clean_step S m 0); [exact Hc|reflexivity|reflexivity|reflexivity|reflexivity].
Qed.

Lemma m_clone_clean S m : NoDup (map fst (ms_fields S)) -> (forall i s, In (i, s) (ms_fields S) -> 2 <= i) -> msg_clean S m ->
  msg_clean S (fst (m_clone S m)) /\ forall c, snd (m_clone S m) = Ok c -> msg_clean S c.
Proof.
  intros Hnd H2 Hc. pose proof (m_pack_clean S m H2 Hc) as Hp. unfold m_clone. destruct (m_pack S m) as [mp [b|e|q|]]; cbn [fst] in Hp;
    try (split; [exact Hp|intros c H; discriminate H]).
  set (c0 := m_set_mti S (mfresh S) _).
  assert (H0 : msg_clean S c0) by (apply m_set_mti_clean; apply mfresh_clean; exact Hnd).
  pose proof (m_unpack_clean S c0 b Hnd H0) as H1. destruct (m_unpack S c0 b) as [c1 [n|pth e|q|]]; cbn [fst] in H1;
    try (split; [exact Hp|intros c H; discriminate H]).
  pose proof (m_pack_clean S c1 H2 H1) as H3. destruct (m_pack S c1) as [c2 [b2|e|q|]]; cbn [fst] in H3;
    try (split; [exact Hp|intros c H; discriminate H]).
  split; [exact Hp|]. intros c H. cbn [snd] in H. inversion H; subst c. exact H3.
Qed.

Lemma hstep_clean S m op : NoDup (map fst (ms_fields S)) -> (forall i s, In (i, s) (ms_fields S) -> 2 <= i) -> msg_clean S m ->
  (match op with HFromJson kvs => snd (m_from_json S m kvs) = Ok tt | _ => True end) -> msg_clean S (hstep S m op).
Proof.
  intros Hnd H2 Hc Hok. destruct op as [v|id val|id|p|d|t v|kvs| | | | |]; cbn [hstep].
  - apply m_set_mti_clean; exact Hc.
  - apply m_set_field_clean; exact Hc.
  - apply m_unset_clean; assumption.
  - apply m_unset_path_clean; assumption.
  - apply m_unpack_clean; assumption.
  - apply m_marshal_clean; exact Hc.
  - destruct (m_from_json S m kvs) as [m' o] eqn:E. cbn [fst snd] in *. subst o. apply (m_from_json_clean S kvs m m' Hc E).
  - apply m_pack_clean; assumption.
  - rewrite (proj2 (m_json_total S m)). apply m_pack_clean; assumption.
  - apply m_bitmap_clean; assumption.
  - apply m_clone_clean; assumption.
  - destruct (m_clone_clean S m Hnd H2 Hc) as (Ha & Hb). destruct (m_clone S m) as [m' [c|e|q|]]; cbn [fst snd] in *; try exact Ha. apply Hb. reflexivity.
Qed.

Theorem history_clean S : NoDup (map fst (ms_fields S)) -> (forall i s, In (i, s) (ms_fields S) -> 2 <= i) ->
  forall ops m, msg_clean S m -> hist_ok S m ops -> msg_clean S (hrun S m ops).
Proof.
  intros Hnd H2. induction ops as [|op r IH]; intros m Hc Hok; [exact Hc|]. cbn [hrun fold_left]. destruct Hok as (Ho & Hr).
  apply IH; [apply hstep_clean; assumption|exact Hr].
Qed.

(* Unpack after any history is Unpack into a new message *)
Theorem history_unpack_as_new S ops d : NoDup (map fst (ms_fields S)) -> (forall i s, In (i, s) (ms_fields S) -> 2 <= i) ->
  hist_ok S (mfresh S) ops ->
  let used := hrun S (mfresh S) ops in
  snd (m_unpack S used d) = snd (m_unpack S (mfresh S) d) /\
  (u_is_ok (snd (m_unpack S used d)) = true ->
     m_mti (fst (m_unpack S used d)) = m_mti (fst (m_unpack S (mfresh S) d)) /\
     m_bm (fst (m_unpack S used d)) = m_bm (fst (m_unpack S (mfresh S) d)) /\
     m_fields (fst (m_unpack S used d)) = m_fields (fst (m_unpack S (mfresh S) d)) /\
     forall id, zmem id (m_present (fst (m_unpack S used d))) = zmem id (m_present (fst (m_unpack S (mfresh S) d)))).
Proof.
  intros Hnd H2 Hok used. apply m_unpack_independent; [exact Hnd| |apply mfresh_clean; exact Hnd].
  apply history_clean; [exact Hnd|exact H2|apply mfresh_clean; exact Hnd|exact Hok].
Qed.
