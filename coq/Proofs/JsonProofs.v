(* C12: the JSON text the model emits is syntactically valid. About Model/Json.v. *)
From Coq Require Import Strings.String.
From Iso Require Import Model.Base Model.Sexp Model.Padding Model.Encoding Model.Prefix Model.Bitmap Model.Spec Model.Field Model.Message Model.Json
     Proofs.BaseLemmas Proofs.DigitsProofs Proofs.SortProofs Proofs.FieldProofs Proofs.CompositeProofs Proofs.StateProofs.
From Coq Require Import ZifyBool ZifyNat ZifyN Sorting.Permutation.
Set Default Timeout 120.
Ltac Zify.zify_post_hook ::= Z.div_mod_to_equations.

(* ---- the grammar (RFC 8259, the part the encoder uses) ---- *)
Definition is_hexd (b : byte) : bool := (is_digit b) || ((97 <=? bz b) && (bz b <=? 102)) || ((65 <=? bz b) && (bz b <=? 70)).
Definition simple_esc (b : byte) : bool :=
  Byte.eqb b x22 || Byte.eqb b x5c || Byte.eqb b x2f || Byte.eqb b x62 || Byte.eqb b x66 || Byte.eqb b x6e || Byte.eqb b x72 || Byte.eqb b x74.

(* the characters between the quotes of a string *)
Inductive jbody : bytes -> Prop :=
| jb_nil : jbody []
| jb_plain b r : 32 <= bz b -> bz b <> 34 -> bz b <> 92 -> jbody r -> jbody (b :: r)
| jb_esc c r : simple_esc c = true -> jbody r -> jbody (x5c :: c :: r)
| jb_u h1 h2 h3 h4 r : is_hexd h1 = true -> is_hexd h2 = true -> is_hexd h3 = true -> is_hexd h4 = true -> jbody r ->
                       jbody (x5c :: x75 :: h1 :: h2 :: h3 :: h4 :: r).

Lemma jbody_app a b : jbody a -> jbody b -> jbody (a ++ b).
Proof. intros Ha Hb. induction Ha; cbn [app]; [exact Hb|constructor; assumption|constructor; assumption|constructor; assumption]. Qed.

Lemma jbody_plain_all l : Forall (fun b => 32 <= bz b /\ bz b <> 34 /\ bz b <> 92) l -> jbody l.
Proof. induction 1 as [|b r (H1 & H2 & H3) _ IH]; [constructor|constructor; assumption]. Qed.

(* a decimal integer as strconv renders it *)
Definition jint (l : bytes) : Prop := exists z, l = itoa z.

Inductive jvalue : bytes -> Prop :=
| jv_string body : jbody body -> jvalue (x22 :: body ++ [x22])
| jv_int l : jint l -> jvalue l
| jv_null : jvalue (J "null")
| jv_object kvs : Forall (fun kv => jbody (fst kv) /\ jvalue (snd kv)) kvs ->
                  jvalue (J "{" ++ join (J ",") (map (fun kv => x22 :: fst kv ++ [x22; x3a] ++ snd kv) kvs) ++ J "}").

(* ---- strings ---- *)
Lemma hex_digit_lower_hexd n : 0 <= n < 16 -> is_hexd (hex_digit_lower n) = true.
Proof.
  intros H. assert (G : forallb (fun k => is_hexd (hex_digit_lower k)) [0;1;2;3;4;5;6;7;8;9;10;11;12;13;14;15] = true) by (vm_compute; reflexivity).
  rewrite forallb_forall in G. apply G. assert (n = 0 \/ n = 1 \/ n = 2 \/ n = 3 \/ n = 4 \/ n = 5 \/ n = 6 \/ n = 7 \/ n = 8 \/ n = 9 \/ n = 10 \/ n = 11 \/ n = 12 \/ n = 13 \/ n = 14 \/ n = 15) by lia.
  cbn [In]. intuition.
Qed.

Lemma utf8_step_len l n : utf8_step l = (n, true) -> (1 <= n <= length l)%nat /\ (n = 1%nat \/ Forall (fun b => 128 <= bz b) (firstn n l)).
Proof.
  unfold utf8_step. destruct l as [|b0 r]; [discriminate|]. cbn [length].
  destruct (bz b0 <? 128) eqn:E0; [intros H; inversion H; subst; split; [lia|left; reflexivity]|].
  destruct (bz b0 <? 194); [discriminate|]. unfold is_cont.
  destruct (bz b0 <? 224).
  { destruct r as [|b1 r1]; [discriminate|]. destruct ((128 <=? bz b1) && (bz b1 <=? 191)) eqn:E1; [|discriminate]. intros H; inversion H; subst. cbn [length firstn]. split; [lia|right].
    repeat constructor; lia. }
  destruct (bz b0 <? 240).
  { destruct r as [|b1 [|b2 r2]]; try discriminate.
    match goal with |- (if ?c then _ else _) = _ -> _ => destruct c eqn:Ec; [|discriminate] end. intros H; inversion H; subst. cbn [length firstn]. split; [lia|right].
    repeat constructor; try lia; destruct (bz b0 =? 224), (bz b0 =? 237); lia. }
  destruct (bz b0 <? 245); [|discriminate].
  destruct r as [|b1 [|b2 [|b3 r3]]]; try discriminate.
  match goal with |- (if ?c then _ else _) = _ -> _ => destruct c eqn:Ec; [|discriminate] end. intros H; inversion H; subst. cbn [length firstn]. split; [lia|right].
  repeat constructor; try lia; destruct (bz b0 =? 240), (bz b0 =? 244); lia.
Qed.

Lemma json_escape_body : forall fuel l, jbody (json_escape fuel l).
Proof.
  induction fuel as [|f IH]; intros l; [constructor|]. cbn [json_escape]. destruct l as [|b r]; [constructor|].
  destruct (bz b <? 128) eqn:E.
  - apply jbody_app; [|apply IH].
    destruct (bz b =? 34) eqn:E34; [apply jb_esc; [reflexivity|constructor]|]. destruct (bz b =? 92) eqn:E92; [apply jb_esc; [reflexivity|constructor]|].
    destruct (bz b =? 8); [apply jb_esc; [reflexivity|constructor]|]. destruct (bz b =? 12); [apply jb_esc; [reflexivity|constructor]|].
    destruct (bz b =? 10); [apply jb_esc; [reflexivity|constructor]|]. destruct (bz b =? 13); [apply jb_esc; [reflexivity|constructor]|].
    destruct (bz b =? 9); [apply jb_esc; [reflexivity|constructor]|].
    destruct ((bz b <? 32) || (bz b =? 60) || (bz b =? 62) || (bz b =? 38)) eqn:Ec.
    + cbn [app]. unfold hex4. pose proof (bz_range b). apply jb_u; try (apply hex_digit_lower_hexd; lia). constructor.
    + apply jb_plain; [lia|lia|lia|constructor].
  - destruct (utf8_step (b :: r)) as [n [|]] eqn:Eu.
    + destruct (utf8_step_len _ _ Eu) as (Hn & Hhigh). apply jbody_app; [|apply IH].
      destruct (bytes_eqb (firstn n (b :: r)) [xe2; x80; xa8]); [apply jb_u; try reflexivity; constructor|].
      destruct (bytes_eqb (firstn n (b :: r)) [xe2; x80; xa9]); [apply jb_u; try reflexivity; constructor|].
      apply jbody_plain_all. destruct Hhigh as [->|Hh].
      * cbn [firstn]. constructor; [|constructor]. lia.
      * eapply Forall_impl; [|exact Hh]. cbn. intros a Ha. lia.
    + apply jbody_app; [|apply IH]. apply jb_u; try reflexivity. constructor.
Qed.

Theorem json_string_valid v : jvalue (json_string v).
Proof. unfold json_string. apply jv_string. apply json_escape_body. Qed.

(* ---- objects ---- *)
Lemma json_object_valid kvs : (forall k v, In (k, v) kvs -> jbody k /\ jvalue v) -> jvalue (json_object kvs).
Proof.
  intros H. unfold json_object.
  set (keys := sort_tags SortByInt (map fst kvs)).
  assert (Heq : map (fun k => x22 :: k ++ [x22; x3a] ++ match blookup k kvs with Some v => v | None => [] end) keys =
                map (fun kv : bytes * bytes => x22 :: fst kv ++ [x22; x3a] ++ snd kv) (map (fun k => (k, match blookup k kvs with Some v => v | None => [] end)) keys))
    by (rewrite map_map; reflexivity).
  rewrite Heq. clear Heq.
  apply jv_object. rewrite Forall_forall. intros (k, v) Hin. apply in_map_iff in Hin. destruct Hin as (k' & Heq & Hk). inversion Heq; subst k' v. cbn [fst snd].
  assert (Hk' : In k (map fst kvs)) by (eapply Permutation_in; [apply Permutation_sym; apply sort_perm|exact Hk]).
  destruct (In_blookup k kvs Hk') as (v & Hv). rewrite Hv. apply H. apply blookup_In. exact Hv.
Qed.

(* ---- field values ---- *)
Fixpoint keys_ok (st : fstate) : Prop :=
  match st with
  | SComp _ sts => (fix go (l : list (bytes * fstate)) : Prop := match l with [] => True | (t, st') :: r => jbody t /\ keys_ok st' /\ go r end) sts
  | _ => True
  end.

Fixpoint fstate_ind' (P : fstate -> Prop) (Hs : forall v, P (SString v)) (Hn : forall v, P (SNumeric v)) (Hb : forall v, P (SBinary v)) (Hh : forall v, P (SHex v))
  (Hc : forall set sts, (forall t st', In (t, st') sts -> P st') -> P (SComp set sts)) (st : fstate) : P st :=
  match st with
  | SString v => Hs v | SNumeric v => Hn v | SBinary v => Hb v | SHex v => Hh v
  | SComp set sts => Hc set sts
      ((fix go (l : list (bytes * fstate)) : forall t st', In (t, st') l -> P st' :=
          match l with
          | [] => fun t st' H => match H with end
          | (t1, s1) :: r => fun t st' H =>
              match H with
              | or_introl e => eq_ind (t1, s1) (fun y => P (snd y)) (fstate_ind' P Hs Hn Hb Hh Hc s1) (t, st') e
              | or_intror H' => go r t st' H'
              end
          end) sts)
  end.

Theorem json_field_valid st : keys_ok st -> jvalue (json_field st).
Proof.
  induction st as [v|v|v|v|set sts IH] using fstate_ind'; intros Hk; cbn [json_field]; try apply json_string_valid.
  - apply jv_int. exists v. reflexivity.
  - apply json_object_valid. cbn [keys_ok] in Hk.
    assert (G : forall l, (forall t st', In (t, st') l -> In (t, st') sts) ->
              (fix go (l : list (bytes * fstate)) : Prop := match l with [] => True | (t, st') :: r => jbody t /\ keys_ok st' /\ go r end) l ->
              forall k v, In (k, v) ((fix go (l : list (bytes * fstate)) : list (bytes * bytes) :=
                      match l with [] => [] | (t, st') :: r => if bmem t set then (t, json_field st') :: go r else go r end) l) -> jbody k /\ jvalue v).
    { induction l as [|(t, st') r IHl]; intros Hsub Hok k v Hin; [destruct Hin|]. destruct Hok as (Ht & Hst & Hr).
      assert (Hrest : forall k v, In (k, v) ((fix go (l : list (bytes * fstate)) : list (bytes * bytes) :=
                      match l with [] => [] | (t, st') :: r => if bmem t set then (t, json_field st') :: go r else go r end) r) -> jbody k /\ jvalue v)
        by (apply IHl; [intros t0 s0 Hi; apply Hsub; right; exact Hi|exact Hr]).
      destruct (bmem t set); [|apply Hrest; exact Hin]. destruct Hin as [Hin|Hin]; [|apply Hrest; exact Hin].
      assert (Hv : jvalue (json_field st')) by (apply (IH t st'); [apply Hsub; left; reflexivity|exact Hst]).
      inversion Hin; subst. split; assumption. }
    apply (G sts); [tauto|exact Hk].
Qed.

(* ---- messages ---- *)
Lemma itoa_body z : 0 <= z <= max_int -> jbody (itoa z).
Proof.
  intros Hz. apply jbody_plain_all. assert (Hn : 0 <= z < ten40) by (unfold max_int, ten40 in *; lia).
  destruct (itoa_nonneg z Hn) as (k & _ & _ & Hu & _). pose proof (undigits_all_digits _ _ _ (Hu 0)) as Hd.
  rewrite Forall_forall. intros b Hb. rewrite forallb_forall in Hd. specialize (Hd b Hb). unfold is_digit in Hd. lia.
Qed.

(* the JSON text of a packable message is a valid JSON object whose members are valid values *)
Theorem m_json_valid S m m' doc : (forall id, In id (m_present (fst (m_pack S m))) -> 0 <= id <= max_int) ->
  keys_ok (m_mti m) -> (forall id st, zlookup id (m_fields m) = Some st -> keys_ok st) ->
  m_json S m = (m', Ok doc) -> jvalue doc.
Proof.
  intros Hids Hmti Hfl H. unfold m_json in H. destruct (StateProofs.m_pack_pure S m) as (P1 & P2 & _).
  destruct (m_pack S m) as [mp [b|e|q|]] eqn:Ep; try (inversion H; fail). cbn [fst] in *.
  assert (doc = json_object (map (fun id => (itoa id, if id =? 0 then json_field (m_mti mp) else if id =? 1 then json_string (hex_encode_upper (m_bm mp))
             else match zlookup id (m_fields mp) with Some st => json_field st | None => J "null" end)) (m_present mp))) by congruence. subst doc.
  apply json_object_valid. intros k v Hin. apply in_map_iff in Hin. destruct Hin as (id & Heq & Hid). inversion Heq; subst k v. split; [apply itoa_body; apply Hids; exact Hid|].
  destruct (id =? 0); [apply json_field_valid; rewrite P1; exact Hmti|]. destruct (id =? 1); [apply json_string_valid|].
  destruct (zlookup id (m_fields mp)) as [st|] eqn:Est; [|apply jv_null]. apply json_field_valid. rewrite P2 in Est. eapply Hfl. exact Est.
Qed.
