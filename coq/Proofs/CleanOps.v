(* C10: Message.Marshal and a successful Message.UnmarshalJSON keep the message object clean (every data element that
   is not populated is as new), so the independence theorem of Unpack applies after them. About Model/Marshal.v and
   Model/MessageOps.v. *)
From Coq Require Import Strings.String.
From Iso Require Import Model.Base Model.Encoding Model.Spec Model.Field Model.Message Model.MessageOps Model.Marshal
     Proofs.BaseLemmas Proofs.StateProofs Proofs.MessageRoundtrip Proofs.IndependenceProofs.
From Coq Require Import ZifyBool ZifyNat.
Set Default Timeout 120.

(* one step that populates element id with some state, or writes the MTI / bitmap field, keeps the object clean *)
Lemma clean_step S m id (mm : mstate) : msg_clean S m ->
  m_failed mm = m_failed m -> m_present mm = zadd id (m_present m) ->
  map fst (m_fields mm) = map fst (m_fields m) -> (forall i, i <> id -> zlookup i (m_fields mm) = zlookup i (m_fields m)) ->
  msg_clean S mm.
Proof.
  intros (Hk & Hf) E3 E2 Hkl Hfl. split; [rewrite Hkl; exact Hk|]. intros i s Hi Hm Hfa. rewrite E2, zmem_zadd in Hm. rewrite E3 in Hfa.
  apply Bool.orb_false_iff in Hm. destruct Hm as (Hne & Hm). rewrite Hfl by lia. apply Hf; assumption.
Qed.

Theorem m_marshal_fields_clean S : forall l m, msg_clean S m -> msg_clean S (fst (m_marshal_fields S m l)).
Proof.
  induction l as [|((d, ft), fv) r IH]; intros m Hc; [exact Hc|]. cbn [m_marshal_fields].
  set (id := it_id (index_tag_of d)). destruct (id <? 0); [apply IH; exact Hc|].
  destruct (if id =? 0 then Some (FPrim (ms_mti S), m_mti m)
            else match zlookup id (ms_fields S), zlookup id (m_fields m) with Some s, Some st => Some (s, st) | _, _ => None end) as [(s, st)|] eqn:Et.
  - destruct (g_is_zero fv && negb (it_keepzero (index_tag_of d))); [apply IH; exact Hc|].
    destruct (marshal_into 8 s st ft fv) as [st'|e|q|]; try exact Hc. apply IH.
    destruct (id =? 0) eqn:E0.
    + apply (clean_step S m id); [exact Hc|reflexivity|reflexivity|reflexivity|reflexivity].
    + apply (clean_step S m id); [exact Hc|reflexivity|reflexivity|apply map_fst_zupdate|]. intros i Hne. cbn [with_present with_fields m_fields]. apply zlookup_zupdate_other. lia.
  - destruct (id =? 1); [destruct (g_is_zero fv && negb (it_keepzero (index_tag_of d))); [apply IH; exact Hc|exact Hc]|exact Hc].
Qed.

Theorem m_marshal_clean S m t v : msg_clean S m -> msg_clean S (fst (m_marshal S m t v)).
Proof.
  intros Hc. unfold m_marshal. destruct t as [| | | |t'| |]; try exact Hc. destruct t' as [| | | | | |fields]; try exact Hc.
  destruct v as [| | | |p| |]; try exact Hc. destruct p as [v'|]; [|exact Hc]. destruct v' as [| | | | | |vals]; try exact Hc. apply m_marshal_fields_clean. exact Hc.
Qed.

(* UnmarshalJSON: every document that is accepted leaves a clean object *)
Theorem m_from_json_clean S : forall kvs m m', msg_clean S m -> m_from_json S m kvs = (m', Ok tt) -> msg_clean S m'.
Proof.
  induction kvs as [|(k, d) r IH]; intros m m' Hc H; cbn [m_from_json] in H; [inversion H; subst; exact Hc|].
  destruct (atoi k) as [id|]; [|discriminate].
  destruct (id =? 0) eqn:E0.
  - destruct (json_into (FPrim (ms_mti S)) (m_mti m) d) as [st [u|e|q|]]; try discriminate.
    apply (IH _ _ (clean_step S m 0 (with_present (with_mti m st) (zadd 0 (m_present m))) Hc eq_refl eq_refl eq_refl (fun i _ => eq_refl)) H).
  - destruct (id =? 1) eqn:E1.
    + destruct d as [v| | | |]; try discriminate. destruct (hex_decode v) as [b|]; [|discriminate].
      apply (IH _ _ (clean_step S m 1 (with_present (with_bm m b) (zadd 1 (m_present m))) Hc eq_refl eq_refl eq_refl (fun i _ => eq_refl)) H).
    + destruct (zlookup id (ms_fields S)) as [s|]; [|discriminate]. destruct (zlookup id (m_fields m)) as [st|]; [|discriminate].
      destruct (json_into s st d) as [st' [u|e|q|]]; try discriminate.
      refine (IH _ _ (clean_step S m id (with_present (with_fields m (zupdate id st' (m_fields m))) (zadd id (m_present m))) Hc eq_refl eq_refl _ _) H); cbn [with_present with_fields m_fields]; [apply map_fst_zupdate|].
      intros i Hne. apply zlookup_zupdate_other. lia.
Qed.

(* UnsetFields(path) keeps the object clean: a whole element is unset as UnsetField does, a deeper path changes a
   populated element only *)
Theorem m_unset_path_clean S m path : NoDup (map fst (ms_fields S)) -> (forall i s, In (i, s) (ms_fields S) -> 2 <= i) ->
  msg_clean S m -> msg_clean S (fst (m_unset_path S m path)).
Proof.
  intros Hnd H2 Hc. unfold m_unset_path. destruct path as [|b0 pr]; [exact Hc|].
  destruct (split_path (b0 :: pr) []) as [|idb rest]; [exact Hc|]. destruct (atoi idb) as [id|]; [|exact Hc].
  destruct (zmem id (m_present m)) eqn:Em; [|exact Hc].
  destruct rest as [|r0 rr]; [apply m_unset_clean; assumption|].
  assert (Hdeep : forall rest', msg_clean S (fst (match zlookup id (ms_fields S), zlookup id (m_fields m) with
                    | Some (FComp p l md ss as s), Some st => match comp_unset_path s st rest' with (st', o) => (with_fields m (zupdate id st' (m_fields m)), o) end
                    | Some (FPrim _), Some _ => (m, Err [])
                    | _, _ => (m, Err [])
                    end))).
  { intros rest'. destruct (zlookup id (ms_fields S)) as [[p|p l md ss]|]; try exact Hc; destruct (zlookup id (m_fields m)) as [st|]; try exact Hc.
    destruct (comp_unset_path (FComp p l md ss) st rest') as [st' o]. cbn [fst]. destruct Hc as (Hk & Hf). split; [cbn [with_fields m_fields]; rewrite map_fst_zupdate; exact Hk|].
    cbn [with_fields m_fields m_present m_failed]. intros i s Hi Hm Hfl. rewrite zlookup_zupdate_other by (intros ->; congruence). apply Hf; assumption. }
  assert (Hgoal : forall rest', msg_clean S (fst (match zlookup id (ms_fields S), zlookup id (m_fields m) with
                    | Some (FComp p l md ss as s), Some st => match comp_unset_path s st rest' with (st', o) => (with_fields m (zupdate id st' (m_fields m)), o) end
                    | Some (FPrim _), Some _ => (m, Err (E "unset.not_composite"))
                    | _, _ => (m, Err (E "unset.not_composite"))
                    end))).
  { intros rest'. specialize (Hdeep rest'). destruct (zlookup id (ms_fields S)) as [[p|p l md ss]|]; destruct (zlookup id (m_fields m)) as [st|]; try exact Hc; exact Hdeep. }
  destruct r0 as [|c0 cr]; [destruct rr; [apply m_unset_clean; assumption|apply Hgoal]|apply Hgoal].
Qed.
