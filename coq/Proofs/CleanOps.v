(* C10: Message.Marshal and a successful Message.UnmarshalJSON keep the message object clean (every data element that
   is not populated is as new), so the independence theorem of Unpack applies after them. About Model/Marshal.v and
   Model/MessageOps.v. *)
From Iso Require Import Model.Base Model.Spec Model.Field Model.Message Model.MessageOps Model.Marshal
     Proofs.BaseLemmas Proofs.StateProofs Proofs.MessageRoundtrip Proofs.IndependenceProofs.
From Coq Require Import ZifyBool ZifyNat.
Set Default Timeout 120.

(* one step that populates element id with some state, or writes the MTI / bitmap field, keeps the object clean *)
Lemma clean_step S m id (mm : mstate) : msg_clean S m ->
  m_failed mm = m_failed m -> m_present mm = zadd id (m_present m) ->
  map fst (m_fields mm) = map fst (m_fields m) -> (forall i, i <> id -> zlookup i (m_fields mm) = zlookup i (m_fields m)) ->
  msg_clean S mm.
Proof.
  intros (Hk & Hf) E3 E2 Hkl Hfl. split; [rewrite Hkl; exact Hk|]. intros i s Hi Hm Hfa. rewrite E2, zmem_zadd in Hm. rewrite E3 in Hfa.
  apply Bool.orb_false_iff in Hm. destruct Hm as (Hne & Hm). rewrite Hfl by lia. apply Hf; assumption.
Qed.

Theorem m_marshal_fields_clean S : forall l m, msg_clean S m -> msg_clean S (fst (m_marshal_fields S m l)).
Proof.
  induction l as [|((d, ft), fv) r IH]; intros m Hc; [exact Hc|]. cbn [m_marshal_fields].
  set (id := it_id (index_tag_of d)). destruct (id <? 0); [apply IH; exact Hc|].
  destruct (if id =? 0 then Some (FPrim (ms_mti S), m_mti m)
            else match zlookup id (ms_fields S), zlookup id (m_fields m) with Some s, Some st => Some (s, st) | _, _ => None end) as [(s, st)|] eqn:Et.
  - destruct (g_is_zero fv && negb (it_keepzero (index_tag_of d))); [apply IH; exact Hc|].
    destruct (marshal_into 8 s st ft fv) as [st'|e|q|]; try exact Hc. apply IH.
    destruct (id =? 0) eqn:E0.
    + apply (clean_step S m id); [exact Hc|reflexivity|reflexivity|reflexivity|reflexivity].
    + apply (clean_step S m id); [exact Hc|reflexivity|reflexivity|apply map_fst_zupdate|]. intros i Hne. cbn [with_present with_fields m_fields]. apply zlookup_zupdate_other. lia.
  - destruct (id =? 1); [destruct (g_is_zero fv && negb (it_keepzero (index_tag_of d))); [apply IH; exact Hc|exact Hc]|exact Hc].
Qed.

Theorem m_marshal_clean S m t v : msg_clean S m -> msg_clean S (fst (m_marshal S m t v)).
Proof.
  intros Hc. unfold m_marshal. destruct t as [| | | |t'| |]; try exact Hc. destruct t' as [| | | | | |fields]; try exact Hc.
  destruct v as [| | | |p| |]; try exact Hc. destruct p as [v'|]; [|exact Hc]. destruct v' as [| | | | | |vals]; try exact Hc. apply m_marshal_fields_clean. exact Hc.
Qed.

(* UnmarshalJSON: every document that is accepted leaves a clean object *)
Theorem m_from_json_clean S : forall kvs m m', msg_clean S m -> m_from_json S m kvs = (m', Ok tt) -> msg_clean S m'.
Proof.
  induction kvs as [|(k, d) r IH]; intros m m' Hc H; cbn [m_from_json] in H; [inversion H; subst; exact Hc|].
  destruct (atoi k) as [id|]; [|discriminate].
  destruct (id =? 0) eqn:E0.
  - destruct (json_into (FPrim (ms_mti S)) (m_mti m) d) as [st [u|e|q|]]; try discriminate.
    apply (IH _ _ (clean_step S m 0 (with_present (with_mti m st) (zadd 0 (m_present m))) Hc eq_refl eq_refl eq_refl (fun i _ => eq_refl)) H).
  - destruct (id =? 1) eqn:E1.
    + destruct d as [v| | | |]; try discriminate. destruct (hex_decode v) as [b|]; [|discriminate].
      apply (IH _ _ (clean_step S m 1 (with_present (with_bm m b) (zadd 1 (m_present m))) Hc eq_refl eq_refl eq_refl (fun i _ => eq_refl)) H).
    + destruct (zlookup id (ms_fields S)) as [s|]; [|discriminate]. destruct (zlookup id (m_fields m)) as [st|]; [|discriminate].
      destruct (json_into s st d) as [st' [u|e|q|]]; try discriminate.
      refine (IH _ _ (clean_step S m id (with_present (with_fields m (zupdate id st' (m_fields m))) (zadd id (m_present m))) Hc eq_refl eq_refl _ _) H); cbn [with_present with_fields m_fields]; [apply map_fst_zupdate|].
      intros i Hne. apply zlookup_zupdate_other. lia.
Qed.
