(* C10 for track fields: what Unpack of a Track1 / Track2 / Track3 field returns does not depend on what the object
   held, and after an accepted Unpack neither does anything the object holds (FixedLength, which Unpack never touches,
   aside). This is the content of the repairs F13 and F29. About Model/Track.v. *)
From Iso Require Import Model.Base Model.Padding Model.Encoding Model.Prefix Model.Spec Model.Field Model.Track
     Proofs.BaseLemmas Proofs.FieldProofs.
Set Default Timeout 120.

Lemma t_parse_independent k t0 t1 raw : tk_fixed t0 = tk_fixed t1 ->
  snd (t_parse k t0 raw) = snd (t_parse k t1 raw) /\
  (t_match k raw <> None -> fst (t_parse k t0 raw) = fst (t_parse k t1 raw)).
Proof.
  intros Hf. unfold t_parse. destruct (t_match k raw) as [m|]; [|split; [reflexivity|intros H; contradiction H; reflexivity]].
  cbv zeta. rewrite Hf.
  match goal with |- context [if ?c then _ else _] => destruct c end; split; reflexivity.
Qed.

Theorem t_unpack_independent k p t0 t1 data : tk_fixed t0 = tk_fixed t1 ->
  snd (t_unpack k p t0 data) = snd (t_unpack k p t1 data) /\
  (is_ok (snd (t_unpack k p t0 data)) = true -> fst (t_unpack k p t0 data) = fst (t_unpack k p t1 data)).
Proof.
  intros Hf. unfold t_unpack. destruct (prim_unpack_raw p data) as [[raw n]|e|q|]; try (split; [reflexivity|intros H; discriminate H]).
  destruct raw as [|b r]; [rewrite Hf; split; reflexivity|].
  destruct (t_parse_independent k t0 t1 (b :: r) Hf) as (Hs & Hst).
  unfold t_parse in *. destruct (t_match k (b :: r)) as [m|].
  - specialize (Hst ltac:(discriminate)). cbv zeta in *.
    match goal with |- context [if ?c then _ else _] => destruct c end; cbn [fst snd] in *.
    + split; [reflexivity|intros H; discriminate H].
    + rewrite Hf. split; reflexivity.
  - split; [reflexivity|intros H; discriminate H].
Qed.
