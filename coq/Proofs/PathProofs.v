(* C19: the field-id path of a failing Unpack follows the specification: inside a composite it continues with the tag of
   the subfield that failed, and below that with a path of that subfield's specification. About Model/Field.v. *)
From Iso Require Import Model.Base Model.Padding Model.Encoding Model.Prefix Model.Bitmap Model.Spec Model.Field
     Proofs.BaseLemmas Proofs.FieldProofs Proofs.CompositeProofs.
From Coq Require Import ZifyBool ZifyNat ZifyN.
Set Default Timeout 120.

(* the paths a specification admits: a primitive fails with the empty path; a composite fails itself (empty path: prefix,
   length), at one of its own elements without going below it (one id: an undefined or unreadable tag, a failing
   primitive subfield), or inside a specified subfield, with a path of that subfield *)
Fixpoint path_ok (s : fspec) (path : list bytes) : Prop :=
  match s with
  | FPrim _ => path = []
  | FComp _ _ _ subs =>
      path = [] \/ (exists tag, path = [tag]) \/
      (fix go (l : list (bytes * fspec)) : Prop :=
         match l with [] => False | (t, s') :: r => (exists p, path = t :: p /\ path_ok s' p) \/ go r end) subs
  end.

Lemma path_ok_sub subs path : (fix go (l : list (bytes * fspec)) : Prop :=
    match l with [] => False | (t, s') :: r => (exists p, path = t :: p /\ path_ok s' p) \/ go r end) subs <->
  exists tag s' p, In (tag, s') subs /\ path = tag :: p /\ path_ok s' p.
Proof.
  induction subs as [|(t, s1) r IH]; [split; [intros []|intros (tag & s' & p & [] & _)]|]. split.
  - intros [(p & Hp & Hok)|H]; [exists t, s1, p; split; [left; reflexivity|split; assumption]|].
    apply IH in H. destruct H as (tag & s' & p & Hi & Hp). exists tag, s', p. split; [right; exact Hi|exact Hp].
  - intros (tag & s' & p & Hi & Hp & Hok). destruct Hi as [Hi|Hi].
    + inversion Hi; subst. left. exists p. split; [reflexivity|exact Hok].
    + right. apply IH. exists tag, s', p. repeat split; assumption.
Qed.

Ltac one_id H := left; let Hp := fresh "Hp" in injection H as _ Hp _; eexists; symmetry; exact Hp.

Section Loops.
  Variable subs : list (bytes * fspec).
  Hypothesis IH : forall tag s', In (tag, s') subs -> forall st d st' p e, unpack_f s' st d = (st', UErr p e) -> path_ok s' p.

  Definition comp_path (path : list bytes) : Prop :=
    (exists tag, path = [tag]) \/ exists tag s' p, In (tag, s') subs /\ path = tag :: p /\ path_ok s' p.

  Lemma sub_path tag up st d st' p e : blookup tag (gou subs) = Some up -> up st d = (st', UErr p e) -> comp_path (tag :: p).
  Proof.
    intros Hup Hr. rewrite blookup_gou in Hup. destruct (blookup tag subs) as [s'|] eqn:Es; [|discriminate]. cbn [option_map] in Hup.
    assert (up = unpack_f s') by congruence. subst up. right. exists tag, s', p. split; [apply blookup_In; exact Es|]. split; [reflexivity|].
    eapply IH; [apply blookup_In; exact Es|exact Hr].
  Qed.

  Lemma positional_path isvar : forall order data off set sts res path e,
    unpack_positional (gou subs) (gof subs) order isvar data off set sts = (res, UErr path e) -> comp_path path.
  Proof.
    induction order as [|tag rest IHo]; intros data off set sts res path e H; cbn [unpack_positional] in H; [discriminate|].
    destruct (blookup tag (gou subs)) as [up|] eqn:Eup; [|eapply IHo; exact H]. destruct (sub_state sts tag) as [st|]; [|eapply IHo; exact H].
    destruct (up st (zdrop off data)) as [st' [read|p e0|q|]] eqn:Er.
    - destruct (isvar && (zlen data <=? off + read)); [discriminate|eapply IHo; exact H].
    - unfold wrap_id in H. assert (path = tag :: p) by congruence. subst path. eapply sub_path; eassumption.
    - discriminate.
    - discriminate.
  Qed.

  Lemma by_tag_path t e : forall fuel data off set sts res path er,
    unpack_by_tag (gou subs) (gof subs) fuel t e data off set sts = (res, UErr path er) -> comp_path path.
  Proof.
    induction fuel as [|f IHf]; intros data off set sts res path er H; cbn [unpack_by_tag] in H; [discriminate|].
    destruct (zlen data <=? off); [discriminate|].
    destruct (enc_decode e (zdrop off data) (tg_len t)) as [[tagb read]|e0|q|]; try discriminate.
    2:{ one_id H. }
    destruct (blookup (unpad (tg_pad t) tagb) (gou subs)) as [up|] eqn:Eup.
    - destruct (sub_state sts (unpad (tg_pad t) tagb)) as [st|]; [|eapply IHf; exact H].
      destruct (up st (zdrop (off + read) data)) as [st' [read2|p e0|q|]] eqn:Er; try discriminate.
      + eapply IHf; exact H.
      + assert (path = unpad (tg_pad t) tagb :: p) by congruence. subst path. eapply sub_path; eassumption.
    - destruct (skip_unknown t); [|one_id H].
      destruct (tg_prefunk t) as [pu|].
      + destruct (dec_len pu max_int (zdrop (off + read) data)) as [[flen read2]|e0|q|]; try discriminate; [|one_id H].
        destruct ((flen <? 0) || (zlen data - (off + read) - read2 <? flen)); [one_id H|eapply IHf; exact H].
      + destruct (dec_len PBerTLV 0 (zdrop (off + read) data)) as [[flen read2]|e0|q|]; try discriminate; [|one_id H].
        destruct ((flen <? 0) || (zlen data - (off + read) - read2 <? flen)); [one_id H|eapply IHf; exact H].
  Qed.

  Lemma bits_path bm : forall fuel i data off set sts res path er,
    unpack_bits (gou subs) (gof subs) fuel bm i data off set sts = (res, UErr path er) -> comp_path path.
  Proof.
    induction fuel as [|f IHf]; intros i data off set sts res path er H; cbn [unpack_bits] in H; [discriminate|].
    destruct (bm_isset bm i); [|eapply IHf; exact H].
    destruct (blookup (itoa i) (gou subs)) as [up|] eqn:Eup; [|one_id H].
    destruct (sub_state sts (itoa i)) as [st|]; [|one_id H].
    destruct (up st (zdrop off data)) as [st' [read|p e0|q|]] eqn:Er; try discriminate.
    - eapply IHf; exact H.
    - assert (path = itoa i :: p) by congruence. subst path. eapply sub_path; eassumption.
  Qed.
End Loops.

Theorem unpack_path_ok : forall s st d st' path e, unpack_f s st d = (st', UErr path e) -> path_ok s path.
Proof.
  induction s as [p|pref len mode subs IH] using fspec_ind'; intros st d st' path e H.
  - cbn [unpack_f path_ok] in *. unfold prim_unpack in H. destruct (prim_unpack_raw p d) as [[raw n]|e0|q|]; try (inversion H; reflexivity).
    destruct (prim_setbytes (ps_kind p) raw); inversion H; reflexivity.
  - cbn [path_ok]. assert (G : comp_path subs path -> path = [] \/ (exists tag, path = [tag]) \/
        (fix go (l : list (bytes * fspec)) : Prop := match l with [] => False | (t, s') :: r => (exists p, path = t :: p /\ path_ok s' p) \/ go r end) subs).
    { intros [Ht|Hs]; [right; left; exact Ht|right; right; apply path_ok_sub; exact Hs]. }
    cbn [unpack_f] in H. fold (gou subs) in H. fold (gof subs) in H.
    destruct st as [| | | |set sts]; try (inversion H; fail).
    destruct (dec_len pref len d) as [[dlen offset]|e0|q|]; try (inversion H; left; reflexivity).
    destruct ((dlen <? 0) || (zlen d - offset <? dlen)); [inversion H; left; reflexivity|].
    cbv zeta in H. unfold comp_unpack_body in H. cbv zeta in H.
    destruct mode as [t|b].
    + destruct (tg_enc t) as [en|].
      * destruct (unpack_by_tag (gou subs) (gof subs) _ t en _ 0 [] _) as [[set' sts'] r] eqn:Er.
        destruct r as [read|p e0|q|]; try (inversion H; fail).
        -- destruct (negb (dlen =? read)); inversion H; left; reflexivity.
        -- apply G. assert (path = p) by congruence. subst p. eapply by_tag_path; [exact IH|exact Er].
      * destruct (unpack_positional (gou subs) (gof subs) _ _ _ 0 [] _) as [[set' sts'] r] eqn:Er.
        destruct r as [read|p e0|q|]; try (inversion H; fail).
        -- destruct (negb (dlen =? read)); inversion H; left; reflexivity.
        -- apply G. assert (path = p) by congruence. subst p. eapply positional_path; [exact IH|exact Er].
    + destruct (bm_unpack b (bm_new b) _) as [bm [read|e0|q|]]; try (inversion H; fail).
      * destruct (unpack_bits (gou subs) (gof subs) _ bm 1 _ read [] _) as [[set' sts'] r] eqn:Er.
        destruct r as [rd|p e1|q|]; try (inversion H; fail).
        -- destruct (negb (dlen =? rd)); inversion H; left; reflexivity.
        -- apply G. assert (path = p) by congruence. subst p. eapply bits_path; [exact IH|exact Er].
      * inversion H. right. left. eexists. reflexivity.
Qed.
