(* C14: the set of populated data elements after each operation. About Model/Message.v. *)
From Iso Require Import Model.Base Model.Padding Model.Encoding Model.Prefix Model.Bitmap Model.Spec Model.Field Model.Message
     Proofs.BaseLemmas Proofs.FieldProofs Proofs.BitmapProofs Proofs.StateProofs Proofs.MessageRoundtrip.
From Coq Require Import ZifyBool ZifyNat ZifyN.
Set Default Timeout 120.

(* a successful run of the loop over the bitmap populates exactly the announced data elements from i on *)
Definition announced (MS : mspec) (bm : bytes) (i : Z) (fuel : nat) (id : Z) : bool :=
  (i <=? id) && (id <? i + Z.of_nat fuel) && bm_isset bm id && negb (bm_is_presence_bit (ms_bm MS) id).

Lemma announced_step MS bm i f id : announced MS bm i (S f) id =
  ((id =? i) && bm_isset bm i && negb (bm_is_presence_bit (ms_bm MS) i)) || announced MS bm (i + 1) f id.
Proof.
  unfold announced. destruct (id =? i) eqn:E0.
  - assert (id = i) by lia. subst id. replace (i <=? i) with true by lia. replace (i <? i + Z.of_nat (S f)) with true by lia.
    replace (i + 1 <=? i) with false by lia. cbn [andb orb]. rewrite Bool.orb_false_r. reflexivity.
  - cbn [andb orb]. replace (i + 1 <=? id) with (i <=? id) by lia. replace (id <? i + 1 + Z.of_nat f) with (id <? i + Z.of_nat (S f)) by lia. reflexivity.
Qed.

Lemma unpack_fields_present MS bm : forall fuel i src off p0 fields p' f' n,
  unpack_fields fuel MS bm i src off p0 fields = ((p', f'), UOk n) ->
  forall id, zmem id p' = zmem id p0 || announced MS bm i fuel id.
Proof.
  induction fuel as [|f IH]; intros i src off p0 fields p' f' n H id; cbn [unpack_fields] in H.
  - assert (p' = p0) by congruence. subst. unfold announced. replace (id <? i + Z.of_nat 0) with (id <? i) by (f_equal; lia).
    destruct (i <=? id) eqn:E1, (id <? i) eqn:E2; cbn [andb]; try lia; rewrite Bool.orb_false_r; reflexivity.
  - rewrite announced_step. destruct (bm_is_presence_bit (ms_bm MS) i) eqn:Epb.
    + rewrite (IH _ _ _ _ _ _ _ _ H id). cbn [negb]. rewrite Bool.andb_false_r. reflexivity.
    + destruct (bm_isset bm i) eqn:Eset.
      * destruct (zlookup i (ms_fields MS)) as [s|]; [|discriminate]. destruct (zlookup i fields) as [st|]; [|discriminate].
        destruct (unpack_f s st (zdrop off src)) as [st' [read|p e|q|]]; try discriminate.
        rewrite (IH _ _ _ _ _ _ _ _ H id), zmem_zadd. cbn [negb andb]. rewrite !Bool.andb_true_r.
        destruct (id =? i), (zmem id p0), (announced MS bm (i + 1) f id); reflexivity.
      * rewrite (IH _ _ _ _ _ _ _ _ H id). rewrite Bool.andb_false_r. reflexivity.
Qed.

(* after a successful Unpack - of any bytes - GetFields reports the MTI, the bitmap and exactly the data elements whose
   bit is set in the unpacked bitmap (continuation positions aside) *)
Theorem m_unpack_present S m d m' n : m_unpack S m d = (m', UOk n) ->
  zmem 0 (m_present m') = true /\ zmem 1 (m_present m') = true /\
  forall id, 2 <= id -> zmem id (m_present m') = bm_isset (m_bm m') id && negb (bm_is_presence_bit (ms_bm S) id).
Proof.
  unfold m_unpack. cbv zeta.
  set (a := with_bm (m_bitmap S (with_present (with_failed (with_fields m (reset_fields S (m_failed m) (m_present m) (m_fields m))) []) [])) (bm_new (ms_bm S))).
  assert (Hpa : forall id, zmem id (zadd 1 (zadd 0 (m_present a))) = (id =? 1) || (id =? 0)).
  { intros id. rewrite !zmem_zadd. unfold a, m_bitmap, with_present, with_fields, with_bm, with_failed; cbn [m_bmcached m_present].
    destruct (m_bmcached m); cbn [m_present]; [cbn; rewrite Bool.orb_false_r; reflexivity|]. rewrite zmem_zadd. cbn. destruct (id =? 1), (id =? 0); reflexivity. }
  destruct (unpack_f (FPrim (ms_mti S)) (m_mti a) d) as [mt [read|p e|q|]]; try discriminate.
  cbn [with_present with_mti with_bm with_fields m_bm m_present m_fields m_mti].
  destruct (bm_unpack (ms_bm S) (m_bm a) (zdrop read d)) as [bm [r2|e|q|]]; try discriminate.
  destruct (unpack_fields (Z.to_nat (zlen bm * 8 - 1)) S bm 2 d (read + r2) (zadd 1 (zadd 0 (m_present a))) (m_fields a)) as [[p f] u] eqn:Eu.
  intros H. injection H as Hm' Hu. subst u m'. cbn [with_failed with_fields with_present with_bm with_mti m_present m_bm].
  pose proof (unpack_fields_present S bm _ _ _ _ _ _ _ _ _ Eu) as Hp.
  split; [rewrite Hp, Hpa; reflexivity|]. split; [rewrite Hp, Hpa; reflexivity|].
  intros id Hid. rewrite Hp, Hpa. replace (id =? 1) with false by lia. replace (id =? 0) with false by lia. cbn [orb].
  unfold announced. replace (2 <=? id) with true by lia. cbn [andb].
  destruct (id <? 2 + Z.of_nat (Z.to_nat (zlen bm * 8 - 1))) eqn:E; [reflexivity|].
  cbn [andb]. rewrite isset_out by lia. reflexivity.
Qed.

(* the setters add the id they write, and nothing else *)
Theorem m_set_field_present S m id val s st : 2 <= id -> zlookup id (ms_fields S) = Some s -> zlookup id (m_fields m) = Some st ->
  forall i, zmem i (m_present (fst (m_set_field S m id val))) = (i =? id) || zmem i (m_present m).
Proof.
  intros Hid Hs Hst i. unfold m_set_field. replace (id =? 0) with false by lia. replace (id =? 1) with false by lia. rewrite Hs, Hst.
  destruct (setbytes_f s st val) as [st' r]. cbn [fst with_fields with_present m_present]. apply zmem_zadd.
Qed.

Theorem m_unset_present S m id : forall i, zmem i (m_present (m_unset S m id)) = negb (i =? id) && zmem i (m_present m).
Proof.
  intros i. unfold m_unset. destruct (zmem id (m_present m)) eqn:Em.
  - assert (G : zmem i (zremove id (m_present m)) = negb (i =? id) && zmem i (m_present m)).
    { destruct (i =? id) eqn:E; [assert (i = id) by lia; subst; rewrite zmem_zremove_same; reflexivity|rewrite zmem_zremove by lia; reflexivity]. }
    destruct (id =? 0); [exact G|]. destruct (id =? 1); [exact G|]. destruct (zlookup id (ms_fields S)); exact G.
  - destruct (i =? id) eqn:E; [assert (i = id) by lia; subst; rewrite Em; reflexivity|reflexivity].
Qed.
