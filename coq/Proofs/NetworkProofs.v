(* C16: network length headers. About Model/Network.v. *)
From Iso Require Import Model.Base Model.Encoding Model.Network Proofs.BaseLemmas Proofs.EncodingProofs Proofs.DigitsProofs.
From Coq Require Import ZifyBool ZifyNat ZifyN.
Ltac Zify.zify_post_hook ::= Z.div_mod_to_equations.

Definition representable (k : hkind) (n : Z) : bool :=
  match k with
  | HBinary2 => (0 <=? n) && (n <=? 65535)
  | HVMLH => (0 <=? n) && (n <=? 2048)
  | HASCII4 | HBCD2 => (0 <=? n) && (n <=? 9999)
  end.

(* the documented formats *)
Definition hdr_format (k : hkind) (n : Z) (w : bytes) : Prop :=
  match k with
  | HBinary2 => exists hi lo, w = [hi; lo] /\ bz hi * 256 + bz lo = n
  | HVMLH => exists hi lo, w = [hi; lo; x00; x00] /\ bz hi * 256 + bz lo = n
  | HASCII4 => length w = 4%nat /\ forallb is_digit w = true /\ undigits w 0 = Some n
  | HBCD2 => exists s, length s = 4%nat /\ forallb is_digit s = true /\ undigits s 0 = Some n /\
                       nibbles w = map (fun c => bz c - 48) s
  end.

(* ---- io.ReadFull over a chunked reader ---- *)
Lemma read_full_spec chunks : forall n acc,
  match read_full chunks n acc with
  | Some (buf, rest) => exists got, buf = acc ++ got /\ length got = n /\ concat chunks = got ++ concat rest
  | None => (length (concat chunks) < n)%nat
  end.
Proof.
  induction chunks as [|c cs IH]; intros n acc.
  - destruct n; cbn [read_full].
    + exists []. rewrite app_nil_r. repeat split; reflexivity.
    + cbn. lia.
  - destruct n as [|n'].
    + cbn [read_full]. exists []. rewrite app_nil_r. repeat split; reflexivity.
    + cbn [read_full]. destruct (length c <=? S n')%nat eqn:E.
      * specialize (IH (S n' - length c)%nat (acc ++ c)).
        destruct (read_full cs (S n' - length c) (acc ++ c)) as [[buf rest]|].
        -- destruct IH as (got & Hb & Hl & Hc). exists (c ++ got). rewrite app_assoc. split; [exact Hb|].
           split; [rewrite app_length; lia|]. cbn [concat]. rewrite Hc, app_assoc. reflexivity.
        -- cbn [concat]. rewrite app_length. lia.
      * exists (firstn (S n') c). split; [reflexivity|]. split; [rewrite firstn_length; lia|].
        cbn [concat]. rewrite app_assoc, firstn_skipn. reflexivity.
Qed.

Lemma concat_filter_nonempty (chunks : list bytes) :
  concat (filter (fun c => negb (Nat.eqb (length c) 0)) chunks) = concat chunks.
Proof.
  induction chunks as [|c cs IH]; [reflexivity|]. cbn [filter concat].
  destruct c as [|b r]; cbn [length Nat.eqb negb]; [exact IH|]. cbn [concat]. rewrite IH. reflexivity.
Qed.

Lemma app_inv_length {A} (a b c d : list A) : a ++ b = c ++ d -> length a = length c -> a = c /\ b = d.
Proof.
  revert c. induction a as [|x a IH]; intros [|y c] H Hl; cbn in Hl; try lia.
  - split; [reflexivity|exact H].
  - cbn in H. inversion H; subst. destruct (IH c H2 ltac:(lia)) as [-> ->]. split; reflexivity.
Qed.

(* reading a stream that starts with w (of the header's size) yields w and leaves the rest, for every chunking *)
Lemma read_full_prefix chunks w rest : concat chunks = w ++ rest ->
  exists restc, read_full (filter (fun c => negb (Nat.eqb (length c) 0)) chunks) (length w) [] = Some (w, restc) /\ concat restc = rest.
Proof.
  intros H. pose proof (read_full_spec (filter (fun c => negb (Nat.eqb (length c) 0)) chunks) (length w) []) as S.
  rewrite concat_filter_nonempty, H in S.
  destruct (read_full _ (length w) []) as [[buf restc]|].
  - destruct S as (got & Hb & Hl & Hc). cbn [app] in Hb. subst buf.
    destruct (app_inv_length _ _ _ _ Hc (eq_sym Hl)) as [-> ->]. exists restc. split; reflexivity.
  - rewrite app_length in S. lia.
Qed.

Lemma be16_val n : 0 <= n <= 65535 -> be_val (be16 n) 0 = n /\ exists hi lo, be16 n = [hi; lo] /\ bz hi * 256 + bz lo = n.
Proof.
  intros H. unfold be16. cbn [be_val]. split.
  - rewrite !bz_zb by lia. lia.
  - eexists _, _. split; [reflexivity|]. rewrite !bz_zb by lia. lia.
Qed.

Lemma sprintf4 n : 0 <= n <= 9999 ->
  length (sprintf0d 4 n) = 4%nat /\ forallb is_digit (sprintf0d 4 n) = true /\ undigits (sprintf0d 4 n) 0 = Some n /\ atoi (sprintf0d 4 n) = Some n.
Proof.
  intros H. assert (Hm : 0 <= n <= max_int) by (unfold max_int; lia).
  assert (Hn' : 0 <= n < ten40) by (unfold ten40; lia).
  assert (Hl : (length (itoa n) <= 4)%nat) by (apply itoa_len_iff; [exact Hn'|lia|cbn; lia]).
  split; [apply sprintf0d_len; lia|]. split; [apply sprintf0d_digits; exact Hm|]. split; [|apply atoi_sprintf0d; exact Hm].
  unfold sprintf0d. replace (n <? 0) with false by lia.
  destruct (itoa_nonneg n Hn') as (k & _ & _ & Hu & _).
  rewrite undigits_gen, gen_value_app, (gen_value_repeat0 10 dec_val x30) by reflexivity.
  rewrite <- undigits_gen, Hu. f_equal; lia.
Qed.

Theorem hdr_roundtrip k n : representable k n = true ->
  exists st w, hdr_set k hinit n = Ok st /\ hdr_write k st = Ok w /\ zlen w = hsize k /\ hdr_format k n w /\
    forall chunks rest, concat chunks = w ++ rest ->
      exists st' restc, hdr_read k hinit chunks = Ok (st', hsize k, restc) /\ hlen st' = n /\ concat restc = rest.
Proof.
  intros Hr. destruct k; cbn [representable] in Hr.
  - (* Binary2 *)
    destruct (be16_val n ltac:(lia)) as (Hv & hi & lo & Hw & Hf).
    eexists _, (be16 n). cbn [hdr_set]. replace (n <? 0) with false by lia. replace (65535 <? n) with false by lia.
    split; [reflexivity|]. cbn [hdr_write hlen]. split; [reflexivity|]. split; [reflexivity|].
    split; [exists hi, lo; split; assumption|]. intros chunks rest Hc.
    destruct (read_full_prefix chunks (be16 n) rest Hc) as (restc & Hrf & Hrest).
    unfold hdr_read. change (Z.to_nat (hsize HBinary2)) with (length (be16 n)). rewrite Hrf.
    eexists _, restc. split; [reflexivity|]. cbn [hlen]. split; [exact Hv|exact Hrest].
  - (* ASCII4 *)
    destruct (sprintf4 n ltac:(lia)) as (Hl & Hd & Hu & Ha).
    eexists _, (sprintf0d 4 n). cbn [hdr_set]. split; [reflexivity|]. cbn [hdr_write hlen].
    replace ((n <? 0) || (9999 <? n)) with false by lia. split; [reflexivity|].
    split; [unfold zlen; rewrite Hl; reflexivity|]. split; [repeat split; assumption|]. intros chunks rest Hc.
    destruct (read_full_prefix chunks _ rest Hc) as (restc & Hrf & Hrest).
    unfold hdr_read. change (Z.to_nat (hsize HASCII4)) with 4%nat. rewrite <- Hl, Hrf, Ha.
    replace (n <? 0) with false by lia. eexists _, restc. split; [reflexivity|]. split; [reflexivity|exact Hrest].
  - (* BCD2 *)
    destruct (sprintf4 n ltac:(lia)) as (Hl & Hd & Hu & Ha).
    destruct (enc_roundtrip EncBCD (sprintf0d 4 n) Hd) as (w & Hw & Hrt). cbn [enc_units enc_canon] in Hrt.
    assert (Hz : zlen (sprintf0d 4 n) = 4) by (unfold zlen; rewrite Hl; reflexivity).
    assert (Hwl : length w = 2%nat).
    { cbn [enc_encode] in Hw. rewrite Hl in Hw. cbn [Nat.even] in Hw. cbv zeta iota beta in Hw.
      destruct (all_digits (sprintf0d 4 n)); [|discriminate]. assert (w = bcd_pack (sprintf0d 4 n)) by congruence. subst w.
      pose proof (zlen_bcd_pack (sprintf0d 4 n)) as HL. rewrite Hl in HL. specialize (HL eq_refl). unfold zlen in *. lia. }
    eexists _, w. cbn [hdr_set]. split; [reflexivity|]. cbn [hdr_write hlen].
    replace ((n <? 0) || (9999 <? n)) with false by lia. split; [exact Hw|].
    split; [unfold zlen; rewrite Hwl; reflexivity|]. split.
    { exists (sprintf0d 4 n). repeat split; try assumption.
      cbn [enc_encode] in Hw. rewrite Hl in Hw. cbn [Nat.even] in Hw. cbv zeta iota beta in Hw.
      destruct (all_digits (sprintf0d 4 n)) eqn:Ed; [|discriminate]. assert (w = bcd_pack (sprintf0d 4 n)) by congruence. subst w.
      apply nibbles_bcd_pack; [rewrite Hl; reflexivity|exact Ed]. }
    intros chunks rest Hc. destruct (read_full_prefix chunks w rest Hc) as (restc & Hrf & Hrest).
    unfold hdr_read. change (Z.to_nat (hsize HBCD2)) with 2%nat. rewrite <- Hwl, Hrf.
    specialize (Hrt []). rewrite app_nil_r, Hz in Hrt. rewrite Hrt. cbn [obind]. rewrite Ha.
    eexists _, restc. split; [reflexivity|]. split; [reflexivity|exact Hrest].
  - (* VMLH *)
    destruct (be16_val n ltac:(lia)) as (Hv & hi & lo & Hw & Hf).
    eexists _, (be16 n ++ [x00; x00]). cbn [hdr_set]. replace (n <? 0) with false by lia. replace (65535 <? n) with false by lia.
    split; [reflexivity|]. cbn [hdr_write hlen]. replace (2048 <? n) with false by lia. split; [reflexivity|]. split; [reflexivity|].
    split; [exists hi, lo; rewrite Hw; split; [reflexivity|assumption]|]. intros chunks rest Hc.
    destruct (read_full_prefix chunks _ rest Hc) as (restc & Hrf & Hrest).
    unfold hdr_read. change (Z.to_nat (hsize HVMLH)) with (length (be16 n ++ [x00; x00])). rewrite Hrf.
    change (ztake 2 (be16 n ++ [x00; x00])) with (be16 n). rewrite Hv. replace (2048 <? n) with false by lia.
    change (zdrop 3 (be16 n ++ [x00; x00])) with [x00].
    change (enc_decode EncBCD [x00] 2) with (@Ok (bytes * Z) ([x30; x30], 1)). cbn [obind].
    eexists _, restc. split; [reflexivity|]. split; [reflexivity|exact Hrest].
Qed.

Theorem hdr_refuse k n st : representable k n = false ->
  is_err (hdr_set k st n) = true \/ (exists st', hdr_set k st n = Ok st' /\ is_err (hdr_write k st') = true).
Proof.
  intros Hr. destruct k; cbn [representable hdr_set] in *.
  - left. destruct (n <? 0) eqn:A; [reflexivity|]. replace (65535 <? n) with true by lia. reflexivity.
  - right. eexists. split; [reflexivity|]. cbn [hdr_write hlen]. replace ((n <? 0) || (9999 <? n)) with true by lia. reflexivity.
  - right. eexists. split; [reflexivity|]. cbn [hdr_write hlen]. replace ((n <? 0) || (9999 <? n)) with true by lia. reflexivity.
  - destruct (n <? 0) eqn:A; [left; reflexivity|]. destruct (65535 <? n) eqn:B; [left; reflexivity|].
    right. eexists. split; [reflexivity|]. cbn [hdr_write hlen]. replace (2048 <? n) with true by lia. reflexivity.
Qed.

(* ReadFrom on arbitrary bytes, arbitrary chunking, early end anywhere: a non-negative length after
   consuming exactly the header size, or an error; never a panic *)
Theorem hdr_read_safe k st chunks :
  match hdr_read k st chunks with
  | Ok (st', r, rest) => 0 <= hlen st' /\ r = hsize k /\
                         exists buf, zlen buf = hsize k /\ concat chunks = buf ++ concat rest
  | Err _ => True
  | Panic _ | OutOfFuel => False
  end.
Proof.
  unfold hdr_read.
  pose proof (read_full_spec (filter (fun c => negb (Nat.eqb (length c) 0)) chunks) (Z.to_nat (hsize k)) []) as S.
  rewrite concat_filter_nonempty in S.
  destruct (read_full _ _ []) as [[buf rest]|]; [|exact I].
  destruct S as (got & Hb & Hl & Hc). cbn [app] in Hb. subst buf.
  assert (Hbuf : exists buf, zlen buf = hsize k /\ concat chunks = buf ++ concat rest).
  { exists got. split; [unfold zlen; rewrite Hl; destruct k; reflexivity|exact Hc]. }
  destruct k.
  - cbn [hlen]. pose proof (be_val_bound got). repeat split; try lia; exact Hbuf.
  - destruct (atoi got) as [n|]; [|exact I]. destruct (n <? 0) eqn:E; [exact I|]. cbn [hlen]. repeat split; try lia; exact Hbuf.
  - destruct (enc_decode EncBCD got 4) as [[s r]| | |] eqn:Ed; cbn [obind]; try exact I.
    + destruct (atoi s) as [n|] eqn:Ea; [|exact I]. cbn [hlen]. split; [|split; [reflexivity|exact Hbuf]].
      (* a BCD digit string has no sign *)
      apply bcd_decode_sound in Ed. destruct Ed as (s' & _ & Hd & Hs & _). 
      assert (Hds : forallb is_digit s = true).
      { subst s. unfold all_digits in Hd. rewrite forallb_forall in Hd. apply forallb_forall. intros b Hb. apply Hd.
        unfold zdrop in Hb. eapply In_skipn'; exact Hb. }
      unfold atoi in Ea. destruct s as [|b t]; [discriminate|].
      cbn [forallb] in Hds. apply andb_prop in Hds. destruct Hds as [Hb Ht].
      assert (Byte.eqb b x2b = false) as Hp by (apply byte_eqb_neq; intros ->; discriminate).
      assert (Byte.eqb b x2d = false) as Hm by (apply byte_eqb_neq; intros ->; discriminate).
      rewrite Hp, Hm in Ea. destruct (undigits (b :: t) 0) as [v|] eqn:Eu; [|discriminate].
      assert (0 <= v).
      { rewrite undigits_gen in Eu. clear -Eu. assert (G : forall l a v', 0 <= a -> gen_value 10 dec_val l a = Some v' -> 0 <= v').
        { induction l as [|c r' IH]; intros a v' Ha H; cbn [gen_value] in H; [inversion H; lia|].
          destruct (dec_val c) as [d|] eqn:Ed; [|discriminate]. apply (IH (a * 10 + d)); [|exact H].
          unfold dec_val in Ed. destruct ((0 <=? bz c - 48) && (bz c - 48 <=? 9)) eqn:E; inversion Ed; lia. }
        eapply G; [|exact Eu]. lia. }
      destruct ((- two63 <=? v) && (v <? two63)); inversion Ea; subst; lia.
    + exfalso. unfold enc_decode in Ed. crack Ed.
    + exfalso. unfold enc_decode in Ed. crack Ed.
  - cbv zeta. destruct (2048 <? be_val (ztake 2 got) 0) eqn:E; [exact I|].
    destruct (enc_decode EncBCD (zdrop 3 got) 2) as [[ind r]| | |] eqn:Ed; cbn [obind]; try exact I.
    + cbn [hlen]. pose proof (be_val_bound (ztake 2 got)). repeat split; try lia; exact Hbuf.
    + exfalso. unfold enc_decode in Ed. crack Ed.
    + exfalso. unfold enc_decode in Ed. crack Ed.
Qed.
