(* C19: truncation. A field cut anywhere strictly inside its packed bytes does not unpack (prefix-intolerance), so a
   message cut inside element k is reported against k. About Model/Field.v and Model/Message.v. *)
From Iso Require Import Model.Base Model.Padding Model.Encoding Gen.EbcdicTables Model.Prefix Model.Bitmap Model.Spec Model.Field Model.Message
     Proofs.BaseLemmas Proofs.PaddingProofs Proofs.EncodingProofs Proofs.DigitsProofs Proofs.PrefixProofs Proofs.FieldProofs
     Proofs.BitmapProofs Proofs.CompositeProofs Proofs.StateProofs Proofs.MessageRoundtrip.
From Coq Require Import ZifyBool ZifyNat ZifyN Sorting.Sorted.
Set Default Timeout 120.
Ltac Zify.zify_post_hook ::= Z.div_mod_to_equations.

(* the encoded form of x has exactly the number of bytes the decoder needs for zlen x units *)
Lemma encoded_len e x w : value_enc e = true -> enc_dom e x = true -> enc_encode e x = Ok w -> zlen w = enc_min_bytes e (zlen x).
Proof.
  intros Hv Hd He. destruct e; try discriminate; cbn [enc_min_bytes enc_dom] in *.
  - cbn [enc_encode] in He. rewrite Hd in He. congruence.
  - cbn [enc_encode] in He. congruence.
  - apply bcd_encode_len. exact He.
  - cbn [enc_encode] in He. destruct (Nat.even (length x)) eqn:Ev.
    + rewrite Hd in He. assert (w = bcd_pack x) by congruence. subst. pose proof (zlen_bcd_pack x Ev). pose proof (even_zlen x Ev). lia.
    + assert (Hd' : all_digits (x ++ [x30]) = true) by (unfold all_digits in *; rewrite forallb_app, Hd; reflexivity). rewrite Hd' in He.
      assert (w = bcd_pack (x ++ [x30])) by congruence. subst. pose proof (zlen_bcd_pack (x ++ [x30]) (even_length_snoc_odd x30 x Ev)) as H. pose proof (odd_zlen x Ev). zlens. lia.
  - cbn [enc_encode] in He. assert (w = hex_encode_upper x) by congruence. subst. apply zlen_hex_encode.
  - cbn [enc_encode] in He. assert (w = map (tbl ebcdic_a2e) x) by congruence. subst. apply zlen_map.
  - cbn [enc_encode] in He. rewrite (cp1047_encode_ascii x Hd) in He. assert (w = map (tbl cp1047_enc) x) by congruence. subst. apply zlen_map.
Qed.

(* a strict prefix of an encoded length prefix is rejected *)
Lemma pref_truncated p max n w o : wf_pref p -> go_len n -> enc_len p max n = Ok w -> 0 <= o < zlen w ->
  is_err (dec_len p max (ztake o w)) = true.
Proof.
  intros Hwf Hn He Ho. destruct (pref_roundtrip p max n w Hwf Hn He) as (Hw & _ & _).
  assert (Hz : zlen (ztake o w) = o) by (apply zlen_ztake; lia).
  destruct p as [f|f d| |]; cbn [wf_pref] in Hwf; try contradiction.
  - apply pref_dec_rejects_short; [discriminate|]. rewrite Hz. assert (Hw' : zlen w = pref_width (PFixed f)) by (apply Hw; discriminate). lia.
  - apply pref_dec_rejects_short; [discriminate|]. rewrite Hz. assert (Hw' : zlen w = pref_width (PVar f d)) by (apply Hw; discriminate). lia.
  - apply pref_dec_rejects_short_ber. cbn [enc_len] in He.
    destruct (negb (max =? 0) && (max <? n)); [discriminate|]. destruct (n <? 0); [discriminate|].
    destruct (n <=? 127).
    + assert (w = [zb n]) by congruence. subst w. left. change (zlen [zb n]) with 1 in Ho. assert (o = 0) by lia. subst o. reflexivity.
    + cbv zeta in He. assert (w = zb (128 + zlen (be_bytes n)) :: be_bytes n) by congruence. subst w.
      assert (Hn2 : 0 <= n < two320) by (unfold go_len, max_int, two320 in *; lia).
      destruct (be_bytes_spec n Hn2) as (_ & _ & Hlen & _).
      assert (Hl8 : (length (be_bytes n) <= 8)%nat) by (apply (Hlen 8%nat); unfold go_len, max_int in *; cbn; lia).
      assert (zlen (be_bytes n) <= 8) by (unfold zlen; lia). pose proof (zlen_nonneg (be_bytes n)).
      destruct (Z.eq_dec o 0) as [->|Hne]; [left; reflexivity|]. right.
      exists (zb (128 + zlen (be_bytes n))), (ztake (o - 1) (be_bytes n)). split.
      * unfold ztake. replace (Z.to_nat o) with (S (Z.to_nat (o - 1))) by lia. reflexivity.
      * rewrite bz_zb by lia. split; [lia|]. zlens. rewrite zlen_ztake by lia. lia.
Qed.

(* a primitive field cut strictly inside its packed bytes does not unpack *)
Theorem prim_truncated p st b o st0 : coherent_pspec p -> prim_in_domain p st -> prim_pack p st = Ok b -> 0 <= o < zlen b ->
  exists e, prim_unpack p st0 (ztake o b) = (st0, UErr [] e).
Proof.
  intros (Hwf & Hve & Hpk & HL) (raw & Hraw & Hset & Hdom & Hmax) Hp Ho.
  unfold prim_pack in Hp. rewrite Hraw in Hp. cbn [obind] in Hp. unfold prim_pack_raw in Hp. rewrite Hpk in Hp.
  set (v := pad (ps_pad p) raw (ps_len p)) in *.
  destruct (enc_encode (ps_enc p) v) as [w| | |] eqn:Ew; cbn [obind] in Hp; try discriminate.
  destruct (enc_len (ps_pref p) (ps_len p) (zlen v)) as [pre| | |] eqn:Epre; cbn [obind] in Hp; try discriminate.
  assert (b = pre ++ w) by congruence. subst b. clear Hp.
  assert (Hgo : go_len (zlen v)) by (unfold go_len; pose proof (zlen_nonneg v); lia).
  pose proof (encoded_len (ps_enc p) v w Hve Hdom Ew) as Hwl.
  pose proof (zlen_nonneg pre). pose proof (zlen_nonneg w).
  unfold prim_unpack, prim_unpack_raw.
  destruct (Z_lt_ge_dec o (zlen pre)) as [Hlt|Hge].
  - (* the cut is inside the length prefix *)
    rewrite ztake_app_le by lia. pose proof (pref_truncated (ps_pref p) (ps_len p) (zlen v) pre o Hwf Hgo Epre ltac:(lia)) as Hr.
    destruct (dec_len (ps_pref p) (ps_len p) (ztake o pre)) as [x|e| |]; cbn [is_err] in Hr; try discriminate. cbn [obind]. exists e. reflexivity.
  - (* the cut is inside the value *)
    assert (Hsplit : ztake o (pre ++ w) = pre ++ ztake (o - zlen pre) w).
    { unfold ztake. rewrite firstn_app. rewrite firstn_all2 by (unfold zlen in *; lia). f_equal. f_equal. unfold zlen. lia. }
    rewrite Hsplit. destruct (pref_roundtrip (ps_pref p) (ps_len p) (zlen v) pre Hwf Hgo Epre) as (_ & _ & Hdec). rewrite Hdec. cbn [obind].
    assert (Hzt : zlen (ztake (o - zlen pre) w) = o - zlen pre) by (apply zlen_ztake; zlens; lia).
    replace ((zlen pre <? 0) || (zlen (pre ++ ztake (o - zlen pre) w) <? zlen pre)) with false by (zlens; lia).
    rewrite Hpk, zdrop_app.
    assert (Hne : ps_enc p <> EncBerTag) by (intros E; rewrite E in Hve; discriminate).
    pose proof (enc_decode_rejects (ps_enc p) (ztake (o - zlen pre) w) (zlen v) Hne) as Hrej.
    assert (Hr : is_err (enc_decode (ps_enc p) (ztake (o - zlen pre) w) (zlen v)) = true) by (apply Hrej; right; rewrite Hzt, <- Hwl; zlens; lia).
    destruct (enc_decode (ps_enc p) (ztake (o - zlen pre) w) (zlen v)) as [x|e| |]; cbn [is_err] in Hr; try discriminate. cbn [obind]. exists e. reflexivity.
Qed.

(* any field - primitive or composite of any mode - cut strictly inside its packed bytes does not unpack, and reports
   the failure as its own (empty path): nothing below it is blamed, the object is left as it was *)
Theorem field_truncated s st b o st0 : coherent s -> in_dom s st -> pack_f s st = Ok b -> 0 <= o < zlen b -> shaped s st0 ->
  exists e, unpack_f s st0 (ztake o b) = (st0, UErr [] e).
Proof.
  destruct s as [p|pref len mode subs]; intros Hc Hd Hp Ho Hsh.
  - cbn [coherent in_dom pack_f unpack_f] in *. apply prim_truncated with (st := st); assumption.
  - cbn [coherent] in Hc. destruct Hc as (Hwf & _).
    destruct st as [| | | |set sts]; try (cbn [in_dom] in Hd; contradiction). destruct st0 as [| | | |set0 sts0]; try (cbn [shaped] in Hsh; contradiction).
    cbn [in_dom] in Hd. destruct Hd as (_ & Hmax & _).
    rewrite pack_f_comp in Hp.
    destruct (comp_pack_body (gop subs) mode (ordered_tags mode subs) set sts) as [body| | |] eqn:Eb; cbn [obind] in Hp; try discriminate.
    destruct (enc_len pref len (zlen body)) as [pre| | |] eqn:Epre; cbn [obind] in Hp; try discriminate.
    assert (b = pre ++ body) by congruence. subst b. clear Hp.
    assert (Hgo : go_len (zlen body)) by (split; [apply zlen_nonneg|apply Hmax; rewrite comp_bytes_comp; exact Eb]).
    pose proof (zlen_nonneg pre). pose proof (zlen_nonneg body).
    cbn [unpack_f]. destruct (Z_lt_ge_dec o (zlen pre)) as [Hlt|Hge].
    + rewrite ztake_app_le by lia. pose proof (pref_truncated pref len (zlen body) pre o Hwf Hgo Epre ltac:(lia)) as Hr.
      destruct (dec_len pref len (ztake o pre)) as [x|e| |]; cbn [is_err] in Hr; try discriminate. exists e. reflexivity.
    + assert (Hsplit : ztake o (pre ++ body) = pre ++ ztake (o - zlen pre) body).
      { unfold ztake. rewrite firstn_app. rewrite firstn_all2 by (unfold zlen in *; lia). f_equal. f_equal. unfold zlen. lia. }
      rewrite Hsplit. destruct (pref_roundtrip pref len (zlen body) pre Hwf Hgo Epre) as (_ & _ & Hdec). rewrite Hdec.
      assert (Hzt : zlen (ztake (o - zlen pre) body) = o - zlen pre) by (apply zlen_ztake; zlens; lia).
      replace ((zlen body <? 0) || (zlen (pre ++ ztake (o - zlen pre) body) - zlen pre <? zlen body)) with true by (zlens; lia).
      eexists. reflexivity.
Qed.

(* ---------------- messages ---------------- *)
Section Fields.
  Variable S : mspec.
  Variable bm : bytes.
  Variable m : mstate.
  Let N := zlen bm * 8.

  (* the elements l1 unpack, then element k - whose bytes are cut - fails: the failure is reported against k *)
  Lemma unpack_fields_cut : forall fuel i l1 body k sk junk,
    i + Z.of_nat fuel = N + 1 -> 2 <= i ->
    StronglySorted Z.lt (l1 ++ [k]) ->
    (forall id, In id l1 -> i <= id <= N /\ bm_isset bm id = true /\ bm_is_presence_bit (ms_bm S) id = false /\
                            exists s st, zlookup id (ms_fields S) = Some s /\ zlookup id (m_fields m) = Some st /\ coherent s /\ in_dom s st) ->
    i <= k <= N -> bm_isset bm k = true -> bm_is_presence_bit (ms_bm S) k = false -> zlookup k (ms_fields S) = Some sk ->
    (forall j, i <= j < k -> bm_isset bm j = true -> bm_is_presence_bit (ms_bm S) j = false -> In j l1) ->
    pack_ids S m bm l1 = Ok body ->
    (forall st0, shaped sk st0 -> exists e, unpack_f sk st0 junk = (st0, UErr [] e)) ->
    forall src off pre present fields, src = pre ++ body ++ junk -> off = zlen pre ->
    (forall id s, zlookup id (ms_fields S) = Some s -> exists st, zlookup id fields = Some st /\ shaped s st) ->
    exists p' f' e, unpack_fields fuel S bm i src off present fields = ((p', f'), UErr [itoa k] e).
  Proof.
    induction fuel as [|f IH]; intros i l1 body k sk junk Hi Hi2 Hsorted Hl Hk Hkset Hkpb Hsk Hall Hp Hfail src off pre present fields Hsrc Hoff Hshp; [lia|].
    cbn [unpack_fields].
    destruct (bm_is_presence_bit (ms_bm S) i) eqn:Epb.
    - assert (Hni : ~ In i l1) by (intros Hin; destruct (Hl i Hin) as (_ & _ & Hf & _); congruence).
      assert (i <> k) by (intros ->; congruence).
      apply (IH (i + 1) l1 body k sk junk) with (pre := pre); try assumption; try lia.
      + intros id Hid. destruct (Hl id Hid) as (Hr & Hrest). split; [|exact Hrest]. assert (id <> i) by (intros ->; contradiction). lia.
      + intros j Hj Hs Hpb. apply Hall; [lia|assumption|assumption].
    - destruct (bm_isset bm i) eqn:Eset.
      + destruct (Z.eq_dec i k) as [->|Hne].
        * (* the cut element *)
          assert (l1 = []).
          { destruct l1 as [|h t]; [reflexivity|exfalso]. destruct (Hl h (or_introl eq_refl)) as (Hr & _). cbn [app] in Hsorted.
            apply StronglySorted_inv in Hsorted. destruct Hsorted as (_ & Hlt). rewrite Forall_forall in Hlt. specialize (Hlt k ltac:(apply in_or_app; right; left; reflexivity)). lia. }
          subst l1. cbn [pack_ids] in Hp. assert (body = []) by congruence. subst body. cbn [app] in Hsrc.
          rewrite Hsk. destruct (Hshp k sk Hsk) as (st0 & Hst0 & Hsh0). rewrite Hst0.
          replace (zdrop off src) with junk by (subst src; symmetry; apply zdrop_app2; exact Hoff).
          destruct (Hfail st0 Hsh0) as (e & Hu). rewrite Hu. exists present, (zupdate k st0 fields), e. reflexivity.
        * assert (Hin : In i l1) by (apply Hall; [lia|assumption|assumption]).
          destruct l1 as [|h l']; [destruct Hin|]. cbn [app] in Hsorted. apply StronglySorted_inv in Hsorted. destruct Hsorted as (Hs' & Hlt). rewrite Forall_forall in Hlt.
          assert (h = i).
          { destruct Hin as [Hh|Hin]; [exact Hh|]. specialize (Hlt i ltac:(apply in_or_app; left; exact Hin)). destruct (Hl h (or_introl eq_refl)) as (Hr & _). lia. }
          subst h. destruct (Hl i (or_introl eq_refl)) as (Hr & _ & _ & s & st & Hs & Hst & Hcoh & Hdom).
          cbn [pack_ids] in Hp. rewrite Epb in Hp. rewrite Bool.andb_false_r in Hp.
          replace (i =? 0) with false in Hp by lia. replace (i =? 1) with false in Hp by lia. rewrite Hs, Hst in Hp.
          destruct (pack_f s st) as [pf| | |] eqn:Epf; cbn [obind] in Hp; try discriminate.
          destruct (pack_ids S m bm l') as [more| | |] eqn:Emore; cbn [obind] in Hp; try discriminate.
          assert (body = pf ++ more) by congruence. subst body. clear Hp.
          rewrite Hs. destruct (Hshp i s Hs) as (st0 & Hst0 & Hsh0). rewrite Hst0.
          replace (zdrop off src) with (pf ++ more ++ junk) by (subst src; rewrite <- app_assoc; symmetry; apply zdrop_app2; exact Hoff).
          destruct (field_roundtrip s Hcoh st pf Hdom Epf st0 (more ++ junk) Hsh0) as (st' & Hun & Heq & Hpk' & Hsh').
          rewrite Hun.
          destruct (IH (i + 1) l' more k sk junk) with (src := src) (off := off + zlen pf) (pre := pre ++ pf) (present := zadd i present) (fields := zupdate i st' fields)
            as (p' & f' & e & Hu); try assumption; try lia.
          -- intros id Hid. destruct (Hl id (or_intror Hid)) as (Hr' & Hrest). specialize (Hlt id ltac:(apply in_or_app; left; exact Hid)). split; [lia|exact Hrest].
          -- intros j Hj Hsj Hpj. destruct (Hall j ltac:(lia) Hsj Hpj) as [Hh|Hh]; [lia|exact Hh].
          -- subst src. rewrite <- !app_assoc. reflexivity.
          -- subst off. zlens. lia.
          -- intros id s0 Hs0. destruct (Z.eq_dec id i) as [->|Hne2].
             ++ rewrite zlookup_zupdate_same by (exists st0; exact Hst0). exists st'. split; [reflexivity|]. assert (s0 = s) by congruence. subst. exact Hsh'.
             ++ rewrite zlookup_zupdate_other by lia. apply Hshp. exact Hs0.
          -- exists p', f', e. exact Hu.
      + assert (Hni : ~ In i l1) by (intros Hin; destruct (Hl i Hin) as (_ & Hf & _); congruence).
        assert (i <> k) by (intros ->; congruence).
        apply (IH (i + 1) l1 body k sk junk) with (pre := pre); try assumption; try lia.
        * intros id Hid. destruct (Hl id Hid) as (Hr & Hrest). split; [|exact Hrest]. assert (id <> i) by (intros ->; contradiction). lia.
        * intros j Hj Hs Hpb. apply Hall; [lia|assumption|assumption].
  Qed.
End Fields.

Lemma ztake_app_ge {A} (w rest : list A) n : zlen w <= n -> ztake n (w ++ rest) = w ++ ztake (n - zlen w) rest.
Proof. intros H. unfold ztake. rewrite firstn_app. rewrite firstn_all2 by (unfold zlen in *; lia). f_equal. f_equal. unfold zlen. lia. Qed.

(* the bitmap: a chain of blocks cut before its end does not unpack *)
Lemma bm_unpack_loop_cut s : 1 <= bm_len s -> (bm_enc s = EncBinary \/ bm_enc s = EncHex) ->
  forall blocks ws, Forall2 (fun b w => enc_encode (bm_enc s) b = Ok w) blocks ws ->
  Forall (fun b => zlen b = bm_len s) blocks -> chain_ok (bm_auto s) blocks = true ->
  forall fuel o read acc, o < Z.of_nat fuel -> 0 <= o < zlen (concat ws) ->
  is_err (snd (bm_unpack_loop fuel s (bm_len s) (ztake o (concat ws)) read acc)) = true.
Proof.
  intros HB He blocks ws HF. induction HF as [|b w blocks' ws' Hbw HF IH]; intros Hlen Hchain fuel o read acc Hfuel Ho.
  - discriminate.
  - inversion Hlen as [|? ? Hb Hlen']; subst.
    assert (Hdom : enc_dom (bm_enc s) b = true) by (destruct He as [-> | ->]; reflexivity).
    assert (Hve : value_enc (bm_enc s) = true) by (destruct He as [-> | ->]; reflexivity).
    assert (Hne : bm_enc s <> EncBerTag) by (destruct He as [-> | ->]; discriminate).
    pose proof (encoded_len (bm_enc s) b w Hve Hdom Hbw) as Hwl. rewrite Hb in Hwl.
    destruct fuel as [|f]; [cbn in Hfuel; lia|]. cbn [bm_unpack_loop concat]. cbn [concat] in Ho. pose proof (zlen_nonneg w).
    assert (1 <= zlen w) by (rewrite Hwl; destruct He as [-> | ->]; cbn [enc_min_bytes]; lia).
    destruct (Z_lt_ge_dec o (zlen w)) as [Hlt|Hge].
    + rewrite ztake_app_le by lia.
      pose proof (enc_decode_rejects (bm_enc s) (ztake o w) (bm_len s) Hne) as Hr.
      assert (Hr' : is_err (enc_decode (bm_enc s) (ztake o w) (bm_len s)) = true) by (apply Hr; right; rewrite zlen_ztake by lia; lia).
      destruct (enc_decode (bm_enc s) (ztake o w) (bm_len s)) as [x|e| |]; cbn [is_err] in Hr'; try discriminate. reflexivity.
    + rewrite ztake_app_ge by lia.
      destruct (enc_roundtrip (bm_enc s) b Hdom) as (w' & Hw' & Hrt). rewrite Hbw in Hw'. assert (w' = w) by congruence. subst w'.
      assert (Hu : enc_units (bm_enc s) b w = bm_len s) by (destruct He as [-> | ->]; cbn [enc_units]; exact Hb).
      assert (Hc : enc_canon (bm_enc s) b w = b) by (destruct He as [-> | ->]; reflexivity).
      rewrite Hu, Hc in Hrt. rewrite Hrt.
      destruct blocks' as [|b2 bl].
      * inversion HF; subst. cbn [concat] in Ho. rewrite app_nil_r in Ho. lia.
      * change (chain_ok (bm_auto s) (b :: b2 :: bl)) with (bm_auto s && first_bit_on b && chain_ok (bm_auto s) (b2 :: bl)) in Hchain.
        apply andb_prop in Hchain. destruct Hchain as [Hc1 Hc3]. apply andb_prop in Hc1. destruct Hc1 as [Hauto Hfb].
        rewrite Hauto. cbn [negb]. destruct b as [|c t]; [discriminate|]. cbn [first_bit_on] in Hfb.
        replace (bz c <? 128) with false by lia. rewrite zdrop_app.
        apply IH; [exact Hlen'|exact Hc3|lia|]. rewrite zlen_app in Ho. lia.
Qed.

(* the bitmap Pack builds is a well-formed chain of blocks *)
Lemma bm_blocks s bm k Sset w :
  bm_auto s = true -> 1 <= bm_len s -> (bm_enc s = EncBinary \/ bm_enc s = EncHex) ->
  bits_inv s bm k Sset -> (forall m, zmem m Sset = true -> 2 <= m /\ bm_is_presence_bit s m = false) ->
  bm_pack s bm = Ok w ->
  exists blocks ws, Forall2 (fun b w => enc_encode (bm_enc s) b = Ok w) blocks ws /\ Forall (fun b => zlen b = bm_len s) blocks /\
                    chain_ok (bm_auto s) blocks = true /\ concat ws = w.
Proof.
  intros Ha HB He (Hk & Hlen & Hbits) HS Hw.
  set (B := Z.to_nat (bm_len s)). set (k0 := Z.to_nat (k - 1)).
  assert (HlenN : length bm = (S k0 * B)%nat) by (unfold zlen in Hlen; unfold B, k0; nia).
  set (blocks := chunks B (S k0) bm).
  assert (Hcat : concat blocks = bm) by (apply chunks_concat; exact HlenN).
  assert (Hbl : Forall (fun b => zlen b = bm_len s) blocks).
  { pose proof (chunks_len B (S k0) bm HlenN) as H. rewrite Forall_forall in *. intros b Hb. specialize (H b Hb). unfold zlen, B in *. lia. }
  assert (Hchain : chain_ok (bm_auto s) blocks = true).
  { rewrite Ha. apply chunks_chain; [unfold B; lia|exact HlenN|]. intros j Hj. unfold top_bit. rewrite <- get_bit_top.
    set (n := Z.of_nat j * (bm_len s * 8) + 1).
    assert (Hn1 : (n - 1) / 8 = Z.of_nat j * bm_len s) by (unfold n; replace (Z.of_nat j * (bm_len s * 8) + 1 - 1) with (Z.of_nat j * bm_len s * 8) by lia; apply Z.div_mul; lia).
    assert (Hn2 : (n - 1) mod 8 = 0) by (unfold n; replace (Z.of_nat j * (bm_len s * 8) + 1 - 1) with (Z.of_nat j * bm_len s * 8) by lia; apply Z.mod_mul; lia).
    assert (Hn3 : (n - 1) / (bm_len s * 8) = Z.of_nat j) by (unfold n; replace (Z.of_nat j * (bm_len s * 8) + 1 - 1) with (Z.of_nat j * (bm_len s * 8)) by lia; apply Z.div_mul; lia).
    assert (Hn4 : (n - 1) mod (bm_len s * 8) = 0) by (unfold n; replace (Z.of_nat j * (bm_len s * 8) + 1 - 1) with (Z.of_nat j * (bm_len s * 8)) by lia; apply Z.mod_mul; lia).
    assert (Hrange : 1 <= n <= zlen bm * 8) by (unfold n; rewrite Hlen; unfold k0 in Hj; nia).
    pose proof (isset_nth bm n Hrange) as Hi. unfold byte_ix, bit_ix in Hi. rewrite Hn1, Hn2 in Hi.
    replace (Z.to_nat (Z.of_nat j * bm_len s)) with (j * B)%nat in Hi by (unfold B; nia). rewrite <- Hi, Hbits.
    assert (Hz : zmem n Sset = false).
    { destruct (zmem n Sset) eqn:E; [|reflexivity]. destruct (HS n E) as (H2 & Hpb). exfalso.
      unfold bm_is_presence_bit in Hpb. rewrite Ha in Hpb. cbn [negb] in Hpb. replace (n <=? 0) with false in Hpb by lia.
      destruct j as [|j']; [unfold n in H2; lia|].
      assert (n mod (bm_len s * 8) = 1); [|lia]. unfold n. rewrite Z.add_comm, Z.mod_add by lia. apply Z.mod_small. lia. }
    rewrite Hz. cbn [orb]. unfold conts, is_cont. rewrite Hn3, Hn4. replace (1 <=? n) with true by lia. cbn [andb Z.eqb].
    replace (1 - 1 <=? Z.of_nat j) with true by lia. cbn [andb]. unfold k0. destruct (Nat.ltb_spec j (Z.to_nat (k - 1))); lia. }
  destruct He as [E|E].
  - unfold bm_pack in Hw. rewrite E in Hw. cbn [enc_encode] in Hw. assert (w = bm) by congruence. subst w.
    exists blocks, blocks. split; [|split; [exact Hbl|split; [exact Hchain|exact Hcat]]].
    rewrite E. clear. generalize blocks. intros l. induction l; constructor; [reflexivity|assumption].
  - unfold bm_pack in Hw. rewrite E in Hw. cbn [enc_encode] in Hw. assert (w = hex_encode_upper bm) by congruence. subst w.
    exists blocks, (map hex_encode_upper blocks). split; [|split; [exact Hbl|split; [exact Hchain|]]].
    + rewrite E. clear. generalize blocks. intros l. induction l; constructor; [reflexivity|assumption].
    + rewrite <- hex_encode_upper_concat, Hcat. reflexivity.
Qed.

Lemma packed_bitmap_cut S m m' b f : 1 <= bm_len (ms_bm S) -> (bm_enc (ms_bm S) = EncBinary \/ bm_enc (ms_bm S) = EncHex) ->
  bm_pref (ms_bm S) = PFixed f -> m_pack S m = (m', Ok b) ->
  forall w o data0, bm_pack (ms_bm S) (m_bm m') = Ok w -> 0 <= o < zlen w -> is_err (snd (bm_unpack (ms_bm S) data0 (ztake o w))) = true.
Proof.
  intros HB He Hpf Hp w o data0 Hw Ho.
  assert (Hblocks : exists blocks ws, Forall2 (fun b w => enc_encode (bm_enc (ms_bm S)) b = Ok w) blocks ws /\ Forall (fun b => zlen b = bm_len (ms_bm S)) blocks /\
                    chain_ok (bm_auto (ms_bm S)) blocks = true /\ concat ws = w).
  { destruct (bm_auto (ms_bm S)) eqn:Ha.
    - unfold m_pack in Hp. destruct (set_bits (ms_bm S) (packable_ids (m_bitmap S m)) (bm_new (ms_bm S))) as [bm [u|e|p|]] eqn:Es; try (inversion Hp; fail).
      destruct u. cbv zeta in Hp. injection Hp as Hm' _. subst m'. cbn [with_bm m_bm] in Hw.
      destruct (set_bits_inv (ms_bm S) Ha HB _ _ _ _ _ (bits_inv_new (ms_bm S) HB) Es) as (k' & Hinv). rewrite app_nil_r in Hinv.
      destruct (bm_blocks (ms_bm S) bm k' _ w Ha HB He Hinv) as (blocks & ws & H1 & H2 & H3 & H4); [|exact Hw|rewrite Ha in H3; exists blocks, ws; repeat split; assumption].
      intros i Hi. apply zmem_In in Hi. apply filter_In in Hi. destruct Hi as (_ & Hi). apply Bool.negb_true_iff, Bool.orb_false_iff in Hi. destruct Hi as (Hi1 & Hi2). split; [lia|exact Hi2].
    - destruct (m_pack_bitmap_agrees_fixed S m m' b Ha ltac:(lia) Hp) as (Hl & _).
      exists [m_bm m'], [w]. split; [constructor; [exact Hw|constructor]|]. split; [constructor; [exact Hl|constructor]|]. split; [reflexivity|]. cbn. apply app_nil_r. }
  destruct Hblocks as (blocks & ws & HF & Hbl & Hchain & Hcat). subst w.
  unfold bm_unpack. rewrite Hpf. cbn [dec_len].
  apply (bm_unpack_loop_cut (ms_bm S) HB He blocks ws HF Hbl Hchain); [|exact Ho].
  pose proof (zlen_ztake (concat ws) o ltac:(lia)) as Hz. unfold zlen in Hz at 1. lia.
Qed.

(* which data element owns byte offset o of the packed body *)
Lemma pack_ids_owner S m bm : forall l body o, (forall id, In id l -> 2 <= id) -> pack_ids S m bm l = Ok body -> 0 <= o < zlen body ->
  exists l1 k l2 b1 pk b2 s st, l = l1 ++ k :: l2 /\ pack_ids S m bm l1 = Ok b1 /\ bm_is_presence_bit (ms_bm S) k = false /\
    zlookup k (ms_fields S) = Some s /\ zlookup k (m_fields m) = Some st /\ pack_f s st = Ok pk /\
    body = b1 ++ pk ++ b2 /\ zlen b1 <= o < zlen b1 + zlen pk.
Proof.
  induction l as [|i l IH]; intros body o Hl Hp Ho; cbn [pack_ids] in Hp.
  - assert (body = []) by congruence. subst. change (zlen (@nil byte)) with 0 in Ho. lia.
  - assert (Hi2 : 2 <= i) by (apply Hl; left; reflexivity).
    assert (Hl' : forall id, In id l -> 2 <= id) by (intros id Hid; apply Hl; right; exact Hid).
    replace (i =? 1) with false in Hp by lia. replace (i =? 0) with false in Hp by lia. cbn [negb andb] in Hp.
    destruct (bm_is_presence_bit (ms_bm S) i) eqn:Epb.
    + destruct (IH body o Hl' Hp Ho) as (l1 & k & l2 & b1 & pk & b2 & s & st & -> & H1 & H2 & H3 & H4 & H5 & H6 & H7).
      exists (i :: l1), k, l2, b1, pk, b2, s, st. repeat split; try assumption; try lia.
      cbn [pack_ids]. replace (i =? 1) with false by lia. cbn [negb andb]. rewrite Epb. exact H1.
    + destruct (zlookup i (ms_fields S)) as [s|] eqn:Es; [|discriminate]. destruct (zlookup i (m_fields m)) as [st|] eqn:Est; [|discriminate].
      destruct (pack_f s st) as [pf| | |] eqn:Epf; cbn [obind] in Hp; try discriminate.
      destruct (pack_ids S m bm l) as [more| | |] eqn:Emore; cbn [obind] in Hp; try discriminate.
      assert (body = pf ++ more) by congruence. subst body. rewrite zlen_app in Ho. pose proof (zlen_nonneg pf).
      destruct (Z_lt_ge_dec o (zlen pf)) as [Hlt|Hge].
      * exists [], i, l, [], pf, more, s, st. repeat split; try assumption; try reflexivity; rewrite ?zlen_nil; lia.
      * destruct (IH more (o - zlen pf) Hl' eq_refl ltac:(lia)) as (l1 & k & l2 & b1 & pk & b2 & s' & st' & -> & H1 & H2 & H3 & H4 & H5 & H6 & H7).
        exists (i :: l1), k, l2, (pf ++ b1), pk, b2, s', st'. repeat split; try assumption; try (rewrite zlen_app; lia).
        -- cbn [pack_ids]. replace (i =? 1) with false by lia. replace (i =? 0) with false by lia. cbn [negb andb]. rewrite Epb, Es, Est, Epf, H1. reflexivity.
        -- subst more. rewrite <- app_assoc. reflexivity.
Qed.

(* the element of the packed message that owns byte offset o: 0 the MTI, 1 the bitmap, else the data element *)
Definition owns (S : mspec) (m' : mstate) (b : bytes) (o : Z) (k : Z) : Prop :=
  exists pre part post, b = pre ++ part ++ post /\ zlen pre <= o < zlen pre + zlen part /\
    (if k =? 0 then pre = [] /\ pack_f (FPrim (ms_mti S)) (m_mti m') = Ok part
     else if k =? 1 then pack_f (FPrim (ms_mti S)) (m_mti m') = Ok pre /\ bm_pack (ms_bm S) (m_bm m') = Ok part
     else zmem k (m_present m') = true /\ exists s st, zlookup k (ms_fields S) = Some s /\ zlookup k (m_fields m') = Some st /\ pack_f s st = Ok part).

Theorem message_truncated S m m' b : msg_coherent S -> msg_in_dom S m -> m_pack S m = (m', Ok b) ->
  forall m0 o, msg_shaped S m0 -> 0 <= o < zlen b ->
    exists k e, snd (m_unpack S m0 (ztake o b)) = UErr [itoa k] e /\ owns S m' b o k.
Proof.
  intros (Hmti & HB & He & (f & Hpf) & Hcoh) (Hnd & H0 & Hmtidom & Hdom) Hp m0 o Hsh Ho.
  destruct (packed_bitmap_facts S m m' b f HB He Hpf Hp) as (Hagree & Hbmrt & Hbmlen).
  pose proof (packed_bitmap_cut S m m' b f HB He Hpf Hp) as Hbmcut.
  unfold m_pack in Hp. destruct (m_bitmap_content S m) as (Hb1 & Hb2 & Hb3).
  set (mb := m_bitmap S m) in *.
  destruct (set_bits (ms_bm S) (packable_ids mb) (bm_new (ms_bm S))) as [bm [u|e|p|]] eqn:Es; try (inversion Hp; fail).
  destruct u. cbv zeta in Hp. injection Hp as Hm' Hpk. subst m'. cbn [with_bm m_bm] in Hagree, Hbmrt, Hbmlen, Hbmcut.
  assert (Hndb : NoDup (m_present mb)) by (unfold mb, m_bitmap; destruct (m_bmcached m); [exact Hnd|cbn; apply NoDup_zadd; exact Hnd]).
  assert (H0b : zmem 0 (m_present mb) = true) by (rewrite Hb3 by lia; exact H0).
  assert (Hposb : forall id, zmem id (m_present mb) = true -> 0 <= id).
  { intros id Hm. destruct (Z.eq_dec id 1) as [->|Hne]; [lia|]. rewrite Hb3 in Hm by exact Hne. destruct (Hdom id Hm) as [->|[->|(H2 & _)]]; lia. }
  destruct (packable_ids_shape (m_present mb) Hndb H0b Hposb) as (l & Hids & Hsorted & Hl).
  unfold packable_ids in *. rewrite Hids in *.
  rewrite pack_ids_01 in Hpk.
  destruct (pack_f (FPrim (ms_mti S)) (m_mti (with_bm mb bm))) as [mtib| | |] eqn:Emti; cbn [obind] in Hpk; try discriminate.
  destruct (bm_pack (ms_bm S) bm) as [bmb| | |] eqn:Ebm; cbn [obind] in Hpk; try discriminate.
  destruct (pack_ids S (with_bm mb bm) bm l) as [body| | |] eqn:Ebody; cbn [obind] in Hpk; try discriminate.
  assert (b = mtib ++ bmb ++ body) by congruence. subst b. clear Hpk.
  pose proof Emti as Emti0.
  cbn [with_bm m_mti] in Emti. rewrite Hb1 in Emti. cbn [pack_f] in Emti.
  pose proof (zlen_nonneg mtib). pose proof (zlen_nonneg bmb). pose proof (zlen_nonneg body). rewrite !zlen_app in Ho.
  unfold m_unpack. cbv zeta. set (m0r := with_failed (with_fields m0 (reset_fields S (m_failed m0) (m_present m0) (m_fields m0))) []).
  set (m1 := with_bm (m_bitmap S (with_present m0r [])) (bm_new (ms_bm S))).
  cbn [unpack_f].
  destruct (Z_lt_ge_dec o (zlen mtib)) as [Hlt|Hge].
  { (* inside the MTI *)
    rewrite ztake_app_le by lia.
    destruct (prim_truncated (ms_mti S) (m_mti m) mtib o (m_mti m1) Hmti Hmtidom Emti ltac:(lia)) as (e & Hu). rewrite Hu.
    exists 0, e. split; [reflexivity|]. exists [], mtib, (bmb ++ body). split; [reflexivity|]. split; [rewrite zlen_nil; lia|].
    change (0 =? 0) with true. cbv iota. split; [reflexivity|exact Emti0]. }
  rewrite ztake_app_ge by lia.
  rewrite (prim_roundtrip (ms_mti S) (m_mti m) mtib Hmti Hmtidom Emti (m_mti m1) (ztake (o - zlen mtib) (bmb ++ body))).
  cbn [with_present with_mti m_bm m_present m_fields]. rewrite zdrop_app.
  replace (m_bm m1) with (bm_new (ms_bm S)) by reflexivity.
  destruct (Z_lt_ge_dec (o - zlen mtib) (zlen bmb)) as [Hlt2|Hge2].
  { (* inside the bitmap *)
    rewrite ztake_app_le by lia.
    pose proof (Hbmcut bmb (o - zlen mtib) (bm_new (ms_bm S)) eq_refl ltac:(lia)) as Hr.
    destruct (bm_unpack (ms_bm S) (bm_new (ms_bm S)) (ztake (o - zlen mtib) bmb)) as [bm2 [x|e| |]]; cbn [snd is_err] in Hr; try discriminate.
    exists 1, e. split; [reflexivity|]. exists mtib, bmb, body. split; [reflexivity|]. split; [lia|].
    change (1 =? 0) with false. change (1 =? 1) with true. cbv iota. split; [exact Emti0|exact Ebm]. }
  rewrite ztake_app_ge by lia.
  rewrite (Hbmrt bmb (ztake (o - zlen mtib - zlen bmb) body) (bm_new (ms_bm S)) eq_refl).
  cbn [with_bm with_present m_present m_fields m_mti m_bm m_bmcached].
  assert (Hm1f : m_fields m1 = reset_fields S (m_failed m0) (m_present m0) (m_fields m0)) by (unfold m1, m_bitmap; destruct (m_bmcached (with_present m0r [])); reflexivity).
  assert (HN : 8 <= zlen bm * 8) by lia.
  set (o' := o - zlen mtib - zlen bmb).
  assert (Hl2 : forall id, In id l -> 2 <= id) by (intros id Hid; apply Hl in Hid; tauto).
  destruct (pack_ids_owner S (with_bm mb bm) bm l body o' Hl2 Ebody ltac:(unfold o'; lia)) as (l1 & k & l2 & b1 & pk & b2 & sk & stk & Hlk & Hb1' & Hkpb & Hsk & Hstk & Hpkk & Hbody & Hok).
  pose proof (zlen_nonneg b1). pose proof (zlen_nonneg pk).
  assert (Hkin : In k l) by (rewrite Hlk; apply in_or_app; right; left; reflexivity).
  assert (Hkm : 2 <= k /\ zmem k (m_present mb) = true) by (apply Hl; exact Hkin).
  assert (Hidfacts : forall id, In id l -> 2 <= id <= zlen bm * 8 /\ bm_isset bm id = true /\ bm_is_presence_bit (ms_bm S) id = false /\
                     exists s st, zlookup id (ms_fields S) = Some s /\ zlookup id (m_fields (with_bm mb bm)) = Some st /\ coherent s /\ in_dom s st).
  { intros id Hid. apply Hl in Hid. destruct Hid as (Hid2 & Hm). destruct (Z.eq_dec id 1) as [->|Hne]; [lia|]. rewrite Hb3 in Hm by exact Hne.
    destruct (Hdom id Hm) as [->|[->|(_ & Hpb & s & st & Hs & Hst & Hd)]]; try lia.
    assert (Hset : bm_isset bm id = true) by (rewrite <- Hm; apply (Hagree id Hid2 Hpb)).
    split; [|split; [exact Hset|split; [exact Hpb|]]].
    + split; [lia|]. destruct (Z_le_gt_dec id (zlen bm * 8)) as [Hle|Hgt]; [exact Hle|]. rewrite isset_out in Hset by lia. discriminate.
    + exists s, st. cbn [with_bm m_fields]. rewrite Hb2. repeat split; try assumption. apply (Hcoh id s Hs). }
  destruct (Hidfacts k Hkin) as (Hkr & Hkset & _ & s' & st' & Hs' & Hst' & Hcohk & Hdomk).
  assert (s' = sk) by congruence. assert (st' = stk) by congruence. subst s' st'.
  assert (Hsorted1 : StronglySorted Z.lt (l1 ++ [k])).
  { rewrite Hlk in Hsorted. clear -Hsorted. induction l1 as [|h t IH]; cbn [app] in *.
    - constructor; [constructor|constructor].
    - apply StronglySorted_inv in Hsorted. destruct Hsorted as (Hs & Hf). constructor; [apply IH; exact Hs|].
      rewrite Forall_forall in *. intros x Hx. apply Hf. apply in_app_or in Hx. apply in_or_app. destruct Hx as [Hx|[<-|[]]]; [left; exact Hx|right; left; reflexivity]. }
  assert (Hafter : forall j, In j l2 -> k < j).
  { rewrite Hlk in Hsorted. clear -Hsorted. induction l1 as [|h t IH]; cbn [app] in *.
    - apply StronglySorted_inv in Hsorted. destruct Hsorted as (_ & Hf). rewrite Forall_forall in Hf. exact Hf.
    - apply StronglySorted_inv in Hsorted. destruct Hsorted as (Hs & _). apply IH. exact Hs. }
  assert (Hjunk : ztake o' body = b1 ++ ztake (o' - zlen b1) pk).
  { rewrite Hbody. rewrite ztake_app_ge by lia. f_equal. apply ztake_app_le. lia. }
  destruct (unpack_fields_cut S bm (with_bm mb bm) (Z.to_nat (zlen bm * 8 - 1)) 2 l1 b1 k sk (ztake (o' - zlen b1) pk)) with
    (src := mtib ++ bmb ++ ztake o' body) (off := zlen mtib + zlen bmb) (pre := mtib ++ bmb)
    (present := zadd 1 (zadd 0 (m_present m1))) (fields := m_fields m1) as (p' & f' & e & Hun).
  - lia.
  - lia.
  - exact Hsorted1.
  - intros id Hid. apply Hidfacts. rewrite Hlk. apply in_or_app. left. exact Hid.
  - lia.
  - exact Hkset.
  - exact Hkpb.
  - exact Hsk.
  - intros j Hj Hsj Hpj. assert (Hjl : In j l). { apply Hl. split; [lia|]. rewrite Hb3 by lia. rewrite <- (Hagree j ltac:(lia) Hpj). exact Hsj. }
    rewrite Hlk in Hjl. apply in_app_or in Hjl. destruct Hjl as [Hj1|[<-|Hj2]]; [exact Hj1|lia|]. specialize (Hafter j Hj2). lia.
  - exact Hb1'.
  - intros st0 Hsh0. apply (field_truncated sk stk pk (o' - zlen b1) st0 Hcohk Hdomk Hpkk ltac:(lia) Hsh0).
  - rewrite Hjunk, <- !app_assoc. reflexivity.
  - zlens. lia.
  - rewrite Hm1f. intros id s Hs. destruct (Hsh id s Hs) as (st & Hst & Hshaped). rewrite zlookup_reset, Hst. eexists. split; [reflexivity|].
    destruct (zmem id (m_present m0) || bytes_eqb (itoa id) (m_failed m0)); [|exact Hshaped]. rewrite Hs. apply fresh_shaped. apply (Hcoh id s Hs).
  - change (m_fields (with_mti m1 (m_mti m))) with (m_fields m1).
    rewrite Hun. exists k, e. split; [reflexivity|].
    exists (mtib ++ bmb ++ b1), pk, b2. split; [rewrite Hbody, <- !app_assoc; reflexivity|]. split; [zlens; unfold o' in *; lia|].
    replace (k =? 0) with false by lia. replace (k =? 1) with false by lia. split; [tauto|]. exists sk, stk. repeat split; assumption.
Qed.
