(* C04: the size of what a decoder returns is bounded by the bytes it actually consumed (twice, for the encodings that
   expand nibbles to characters or Latin-1 to UTF-8) - never by a length announced in the input. About Model/Encoding.v. *)
From Iso Require Import Model.Base Model.Padding Model.Encoding Gen.EbcdicTables Proofs.BaseLemmas Proofs.EncodingProofs.
From Coq Require Import ZifyBool ZifyNat ZifyN.
Set Default Timeout 120.
Ltac Zify.zify_post_hook ::= Z.div_mod_to_equations.

Lemma zlen_cp1047_decode l : zlen (cp1047_decode l) <= 2 * zlen l.
Proof.
  induction l as [|b r IH]; [cbn; lia|]. cbn [cp1047_decode]. destruct (bz (tbl cp1047_dec b) <? 128); unfold zlen in *; cbn [length]; lia.
Qed.

Lemma zlen_cons' {A} (x : A) l : zlen (x :: l) = 1 + zlen l.
Proof. unfold zlen. cbn [length]. lia. Qed.

Theorem decode_output_bounded e d n v r : enc_decode e d n = Ok (v, r) -> zlen v <= 2 * r /\ 0 <= r <= zlen d.
Proof.
  intros H. pose proof (enc_decode_read_bounds e d n v r H) as Hr. split; [|exact Hr]. pose proof (zlen_nonneg d) as Hd0.
  destruct e; unfold enc_decode in H.
  - destruct (n <? 0) eqn:En; [discriminate|]. destruct (zlen d <? n) eqn:Es; [discriminate|]. destruct (all_ascii (ztake n d)); [|discriminate].
    inversion H; subst. rewrite zlen_ztake by lia. lia.
  - destruct (n <? 0) eqn:En; [discriminate|]. destruct (zlen d <? n) eqn:Es; [discriminate|]. inversion H; subst. rewrite zlen_ztake by lia. lia.
  - destruct (bcd_decode_sound d n v r H) as (s & _ & _ & _ & Hl & Hrr). pose proof (zlen_nonneg v). lia.
  - destruct (lbcd_decode_sound d n v r H) as (s & _ & _ & _ & Hl & Hrr). pose proof (zlen_nonneg v). lia.
  - destruct (n <? 0) eqn:En; [discriminate|]. destruct (zlen d / 2 <? n) eqn:Es; [discriminate|].
    destruct (hex_decode (ztake (2 * n) d)) as [o|] eqn:Eh; [|discriminate]. assert (Hv : v = o) by congruence. assert (Hrr : r = 2 * n) by congruence. subst v r.
    apply hex_decode_len in Eh. assert (Hk : 0 <= 2 * n <= zlen d) by (split; [lia|]; pose proof (Z.div_mod (zlen d) 2 ltac:(lia)); pose proof (Z.mod_pos_bound (zlen d) 2 ltac:(lia)); lia). rewrite zlen_ztake in Eh by exact Hk. lia.
  - destruct (n <? 0) eqn:En; [discriminate|]. destruct (zlen d <? n) eqn:Es; [discriminate|]. inversion H; subst.
    rewrite zlen_hex_encode, zlen_ztake by lia. lia.
  - destruct (n <? 0) eqn:En; [discriminate|]. destruct (zlen d <? n) eqn:Es; [discriminate|]. inversion H; subst.
    rewrite zlen_map, zlen_ztake by lia. lia.
  - destruct (n <? 0) eqn:En; [discriminate|]. destruct (zlen d <? n) eqn:Es; [discriminate|]. inversion H; subst.
    pose proof (zlen_cp1047_decode (ztake r d)) as Hc. rewrite zlen_ztake in Hc by lia. lia.
  - destruct (ber_tag_len d) as [k|] eqn:Em; [|discriminate]. apply ber_tag_len_sound in Em. inversion H; subst.
    rewrite zlen_hex_encode, zlen_ztake by lia. lia.
Qed.

From Iso Require Import Model.Prefix Model.Bitmap Model.Spec Model.Field Proofs.PaddingProofs Proofs.PrefixProofs Proofs.FieldProofs Proofs.AcceptProofs.

(* bytes held by a primitive field state *)
Definition prim_size (st : fstate) : Z :=
  match st with SString v | SBinary v | SHex v => zlen v | SNumeric _ => 0 | SComp _ _ => 0 end.

(* what a primitive field holds after an accepted Unpack is at most four times the bytes it consumed (two for the
   decoder, two more for a Hex field's text form): allocation follows the input that is present *)
Theorem prim_unpack_size p st0 d st n : 0 <= ps_len p -> ps_packer p = PkDefault -> prim_unpack p st0 d = (st, UOk n) ->
  prim_size st <= 4 * n /\ 0 <= n <= zlen d.
Proof.
  intros HL Hpk Hu. unfold prim_unpack in Hu. destruct (prim_unpack_raw p d) as [[raw rd]| | |] eqn:Er; try (inversion Hu; fail).
  destruct (prim_setbytes (ps_kind p) raw) as [st'| | |] eqn:Eset; inversion Hu; subst st' rd. clear Hu.
  unfold prim_unpack_raw in Er. destruct (dec_len (ps_pref p) (ps_len p) d) as [[m pb]| | |] eqn:Ed; cbn [obind] in Er; try discriminate.
  destruct ((pb <? 0) || (zlen d <? pb)) eqn:Eb; [discriminate|]. rewrite Hpk in Er.
  destruct (enc_decode (ps_enc p) (zdrop pb d) m) as [[v r]| | |] eqn:Ev; cbn [obind] in Er; try discriminate.
  assert (Hraw : raw = unpad (ps_pad p) v) by congruence. assert (Hn : n = r + pb) by congruence. subst raw n. clear Er.
  destruct (decode_output_bounded _ _ _ _ _ Ev) as (Hvs & Hr0 & Hrd). pose proof (zlen_unpad (ps_pad p) v) as Hul.
  apply Bool.orb_false_iff in Eb. destruct Eb as (Eb1 & Eb2). pose proof (zlen_nonneg d). assert (Hpb : 0 <= pb <= zlen d) by lia.
  rewrite zlen_zdrop in Hrd by exact Hpb. pose proof (zlen_nonneg (unpad (ps_pad p) v)).
  split; [|lia]. destruct (ps_kind p); cbn [prim_setbytes] in Eset.
  - assert (st = SString (unpad (ps_pad p) v)) by congruence. subst. cbn [prim_size]. lia.
  - destruct (unpad (ps_pad p) v); [assert (st = SNumeric 0) by congruence; subst; cbn [prim_size]; lia|]. destruct (atoi _); [|discriminate]. assert (st = SNumeric z) by congruence. subst. cbn [prim_size]. lia.
  - assert (st = SBinary (unpad (ps_pad p) v)) by congruence. subst. cbn [prim_size]. lia.
  - assert (st = SHex (hex_encode_upper (unpad (ps_pad p) v))) by congruence. subst. cbn [prim_size]. rewrite zlen_hex_encode. lia.
Qed.
