(* Composite fields: Pack then Unpack round trip for nested field specifications (tagged / TLV and positional
   composites over any coherent subfields), by induction over the specification. About Model/Field.v. *)
From Iso Require Import Model.Base Model.Padding Model.Encoding Model.Prefix Model.Bitmap Model.Spec Model.Field
     Proofs.BaseLemmas Proofs.PaddingProofs Proofs.EncodingProofs Proofs.DigitsProofs Proofs.PrefixProofs Proofs.FieldProofs.
From Coq Require Import ZifyBool ZifyNat ZifyN.
Set Default Timeout 120.

(* ---------------- association lists ---------------- *)
Lemma bytes_eqb_eq a b : bytes_eqb a b = true <-> a = b.
Proof.
  revert b. induction a as [|x a IH]; intros [|y b]; cbn [bytes_eqb]; try (split; [discriminate|discriminate]); [tauto|].
  rewrite Bool.andb_true_iff, byte_eqb_eq, IH. split; [intros (-> & ->); reflexivity|intros H; inversion H; tauto].
Qed.
Lemma bytes_eqb_refl a : bytes_eqb a a = true.
Proof. apply bytes_eqb_eq. reflexivity. Qed.
Lemma bytes_eqb_neq a b : bytes_eqb a b = false <-> a <> b.
Proof. destruct (bytes_eqb a b) eqn:E; [apply bytes_eqb_eq in E; split; [discriminate|congruence]|]. split; [intros _ H; apply bytes_eqb_eq in H; congruence|reflexivity]. Qed.

Lemma blookup_bupdate_same {A} k (v : A) l : (exists w, blookup k l = Some w) -> blookup k (bupdate k v l) = Some v.
Proof.
  induction l as [|(k', v') r IH]; cbn [blookup bupdate]; intros (w & H); [discriminate|].
  destruct (bytes_eqb k k') eqn:E; cbn [blookup]; rewrite E; [reflexivity|]. apply IH. exists w. exact H.
Qed.
Lemma blookup_bupdate_other {A} k k' (v : A) l : k <> k' -> blookup k' (bupdate k v l) = blookup k' l.
Proof.
  intros Hn. induction l as [|(k2, v2) r IH]; cbn [blookup bupdate]; [reflexivity|].
  destruct (bytes_eqb k k2) eqn:E; cbn [blookup].
  - apply bytes_eqb_eq in E. subst k2. replace (bytes_eqb k' k) with false by (symmetry; apply bytes_eqb_neq; congruence). reflexivity.
  - rewrite IH. reflexivity.
Qed.
Lemma bmem_In k l : bmem k l = true <-> In k l.
Proof.
  unfold bmem. rewrite existsb_exists. split.
  - intros (x & Hi & He). apply bytes_eqb_eq in He. subst. exact Hi.
  - intros H. exists k. split; [exact H|apply bytes_eqb_refl].
Qed.
Lemma bmem_app k a b : bmem k (a ++ b) = bmem k a || bmem k b.
Proof. unfold bmem. apply existsb_app. Qed.
Lemma bmem_badd k k' l : bmem k' (badd k l) = bytes_eqb k' k || bmem k' l.
Proof.
  unfold badd. destruct (bmem k l) eqn:E.
  - destruct (bytes_eqb k' k) eqn:E2; [|reflexivity]. apply bytes_eqb_eq in E2. subst. rewrite E. reflexivity.
  - rewrite bmem_app. cbn [bmem existsb]. rewrite Bool.orb_false_r. apply Bool.orb_comm.
Qed.

Lemma zdrop_app2 {A} (a b : list A) n : n = zlen a -> zdrop n (a ++ b) = b.
Proof. intros ->. apply zdrop_app. Qed.

(* ---------------- tagged composites: the TLV loop ---------------- *)
Section TagMode.
  Variable packers : list (bytes * (fstate -> outcome bytes)).
  Variable unpackers : list (bytes * (fstate -> bytes -> fstate * ures Z)).
  Variable t : tagspec.
  Variable e : encoder.
  Variable dom shp : bytes -> fstate -> Prop.
  Variable R : bytes -> fstate -> fstate -> Prop.

  (* what the induction over the specification provides for a subfield *)
  Definition sub_rt (tag : bytes) : Prop :=
    forall pk up, blookup tag packers = Some pk -> blookup tag unpackers = Some up ->
    forall st b, dom tag st -> pk st = Ok b -> forall st0 rest, shp tag st0 ->
      exists st', up st0 (b ++ rest) = (st', UOk (zlen b)) /\ R tag st st' /\ pk st' = Ok b /\ shp tag st'.
  (* the wire form of a tag reads back as the tag *)
  Definition tag_rt (tag : bytes) : Prop :=
    forall tb, tag_wire t tag = Ok tb ->
      1 <= zlen tb /\ exists tagb, (forall rest, enc_decode e (tb ++ rest) (tg_len t) = Ok (tagb, zlen tb)) /\ unpad (tg_pad t) tagb = tag.

  Lemma unpack_by_tag_rt : forall order set sts body,
    NoDup order ->
    (forall tag, In tag order -> sub_rt tag /\ tag_rt tag /\ exists up, blookup tag unpackers = Some up) ->
    (forall tag st, In tag order -> bmem tag set = true -> blookup tag sts = Some st -> dom tag st) ->
    pack_by_tag packers t order set sts = Ok body ->
    forall fuel data off pre seta stsa, data = pre ++ body -> off = zlen pre -> (length body < fuel)%nat ->
    (forall tag, In tag order -> exists st0, blookup tag stsa = Some st0 /\ shp tag st0) ->
    exists set' sts', unpack_by_tag unpackers fuel t e data off seta stsa = ((set', sts'), UOk (zlen data)) /\
      (forall tag, bmem tag set' = bmem tag seta || (bmem tag order && bmem tag set)) /\
      (forall tag, In tag order -> bmem tag set = true ->
         exists x y pk, blookup tag sts = Some x /\ blookup tag sts' = Some y /\ blookup tag packers = Some pk /\
                        R tag x y /\ pk y = pk x /\ shp tag y) /\
      (forall tag, ~ (In tag order /\ bmem tag set = true) -> blookup tag sts' = blookup tag stsa).
  Proof.
    induction order as [|h order IH]; intros set sts body Hnd Hsub Hdom Hp fuel data off pre seta stsa Hdata Hoff Hfuel Hshp.
    - cbn [pack_by_tag] in Hp. assert (body = []) by congruence. subst body. rewrite app_nil_r in Hdata. subst data off.
      destruct fuel as [|f]; [cbn in Hfuel; lia|]. cbn [unpack_by_tag]. replace (zlen pre <=? zlen pre) with true by lia.
      exists seta, stsa. split; [reflexivity|]. split; [intros tag; cbn; rewrite Bool.orb_false_r; reflexivity|].
      split; [intros tag []|reflexivity].
    - cbn [pack_by_tag] in Hp. unfold sub_state in Hp.
      destruct (blookup h packers) as [pk|] eqn:Epk; [|discriminate]. destruct (blookup h sts) as [st|] eqn:Est; [|discriminate].
      apply NoDup_cons_iff in Hnd. destruct Hnd as (Hnotin & Hnd').
      assert (Hsub' : forall tag, In tag order -> sub_rt tag /\ tag_rt tag /\ exists up, blookup tag unpackers = Some up)
        by (intros tag Hi; apply Hsub; right; exact Hi).
      assert (Hdom' : forall tag st, In tag order -> bmem tag set = true -> blookup tag sts = Some st -> dom tag st)
        by (intros tag s0 Hi; apply Hdom; right; exact Hi).
      destruct (bmem h set) eqn:Eset.
      + destruct (tag_wire t h) as [tb| | |] eqn:Etb; cbn [obind] in Hp; try discriminate.
        destruct (pk st) as [pb| | |] eqn:Epb; cbn [obind] in Hp; try discriminate.
        destruct (pack_by_tag packers t order set sts) as [more| | |] eqn:Emore; cbn [obind] in Hp; try discriminate.
        assert (body = tb ++ pb ++ more) by congruence. subst body. clear Hp.
        destruct (Hsub h (or_introl eq_refl)) as (Hrt & Htag & up & Eup).
        destruct (Htag tb Etb) as (Htb1 & tagb & Hdec & Hunpad).
        destruct (Hshp h (or_introl eq_refl)) as (st0 & Est0 & Hshp0).
        destruct (Hrt pk up Epk Eup st pb (Hdom h st (or_introl eq_refl) Eset Est) Epb st0 more Hshp0) as (st' & Hup & HR & Hpk' & Hshp').
        destruct fuel as [|f]; [lia|].
        assert (Hshp2 : forall tag, In tag order -> exists s0, blookup tag (bupdate h st' stsa) = Some s0 /\ shp tag s0).
        { intros tag Hi. rewrite blookup_bupdate_other by (intros ->; contradiction). apply Hshp. right. exact Hi. }
        assert (Hf2 : (length more < f)%nat).
        { rewrite !app_length in Hfuel. unfold zlen in Htb1. lia. }
        destruct (IH set sts more Hnd' Hsub' Hdom' Emore f data (off + zlen tb + zlen pb) (pre ++ tb ++ pb) (badd h seta) (bupdate h st' stsa))
          as (set' & sts' & Hun & Hset' & Hsts' & Hother).
        { subst data. rewrite <- !app_assoc. reflexivity. } { subst off. zlens. lia. } { exact Hf2. } { exact Hshp2. }
        exists set', sts'. split.
        * cbn [unpack_by_tag]. pose proof (zlen_nonneg pb). pose proof (zlen_nonneg more). pose proof (zlen_nonneg pre).
          replace (zlen data <=? off) with false by (subst data off; zlens; lia).
          replace (zdrop off data) with (tb ++ pb ++ more) by (subst data; symmetry; apply zdrop_app2; exact Hoff).
          rewrite Hdec, Hunpad, Eup. unfold sub_state. rewrite Est0.
          replace (zdrop (off + zlen tb) data) with (pb ++ more).
          2:{ subst data. rewrite (app_assoc pre tb). symmetry. apply zdrop_app2. zlens. lia. }
          rewrite Hup. exact Hun.
        * split; [|split].
          -- intros tag. rewrite Hset', bmem_badd. cbn [bmem existsb]. fold (bmem tag order).
             destruct (bytes_eqb tag h) eqn:E; [apply bytes_eqb_eq in E; subst tag; rewrite Eset; cbn; rewrite ?Bool.orb_true_r; reflexivity|].
             cbn. reflexivity.
          -- intros tag [<-|Hi] Hm.
             ++ exists st, st', pk. rewrite Hother by (intros (Hi & _); contradiction).
                rewrite blookup_bupdate_same by (exists st0; exact Est0). repeat split; try assumption; congruence.
             ++ apply Hsts'; assumption.
          -- intros tag Hn. rewrite Hother by (intros (Hi & Hm); apply Hn; split; [right; exact Hi|exact Hm]).
             apply blookup_bupdate_other. intros <-. apply Hn. split; [left; reflexivity|exact Eset].
      + destruct (IH set sts body Hnd' Hsub' Hdom' Hp fuel data off pre seta stsa Hdata Hoff Hfuel) as (set' & sts' & Hun & Hset' & Hsts' & Hother).
        { intros tag Hi. apply Hshp. right. exact Hi. }
        exists set', sts'. split; [exact Hun|]. split; [|split].
        * intros tag. rewrite Hset'. cbn [bmem existsb]. fold (bmem tag order).
          destruct (bytes_eqb tag h) eqn:E; [apply bytes_eqb_eq in E; subst tag; rewrite Eset, !Bool.andb_false_r; reflexivity|reflexivity].
        * intros tag [<-|Hi] Hm; [congruence|]. apply Hsts'; assumption.
        * intros tag Hn. apply Hother. intros (Hi & Hm). apply Hn. split; [right; exact Hi|exact Hm].
  Qed.
End TagMode.

(* ---------------- positional composites ---------------- *)
Section Positional.
  Variable packers : list (bytes * (fstate -> outcome bytes)).
  Variable unpackers : list (bytes * (fstate -> bytes -> fstate * ures Z)).
  Variable t : tagspec.
  Variable dom shp : bytes -> fstate -> Prop.
  Variable R : bytes -> fstate -> fstate -> Prop.
  Hypothesis Hnoenc : tg_enc t = None.

  Lemma pack_unset_nil order set sts body : (forall tag, In tag order -> bmem tag set = false) ->
    pack_by_tag packers t order set sts = Ok body -> body = [].
  Proof.
    revert body. induction order as [|h order IH]; intros body Hu Hp; cbn [pack_by_tag] in Hp; [congruence|].
    destruct (blookup h packers); [|discriminate]. destruct (sub_state sts h); [|discriminate].
    rewrite (Hu h (or_introl eq_refl)) in Hp. apply IH; [intros tag Hi; apply Hu; right; exact Hi|exact Hp].
  Qed.

  Lemma unpack_positional_rt isvar : forall o1 o2 set sts body,
    NoDup (o1 ++ o2) ->
    (forall tag, In tag (o1 ++ o2) -> sub_rt packers unpackers dom shp R tag /\ exists up, blookup tag unpackers = Some up) ->
    (forall tag st, In tag o1 -> blookup tag sts = Some st -> dom tag st) ->
    (forall tag, In tag o1 -> bmem tag set = true) -> (forall tag, In tag o2 -> bmem tag set = false) ->
    (o1 = [] -> o2 = []) -> (isvar = false -> o2 = []) ->
    (isvar = true -> forall tag pk st b, In tag o1 -> blookup tag packers = Some pk -> blookup tag sts = Some st -> pk st = Ok b -> b <> []) ->
    pack_by_tag packers t (o1 ++ o2) set sts = Ok body ->
    forall data off pre seta stsa, data = pre ++ body -> off = zlen pre ->
    (forall tag, In tag (o1 ++ o2) -> exists st0, blookup tag stsa = Some st0 /\ shp tag st0) ->
    exists set' sts', unpack_positional unpackers (o1 ++ o2) isvar data off seta stsa = ((set', sts'), UOk (zlen data)) /\
      (forall tag, bmem tag set' = bmem tag seta || bmem tag o1) /\
      (forall tag, In tag o1 ->
         exists x y pk, blookup tag sts = Some x /\ blookup tag sts' = Some y /\ blookup tag packers = Some pk /\
                        R tag x y /\ pk y = pk x /\ shp tag y) /\
      (forall tag, ~ In tag o1 -> blookup tag sts' = blookup tag stsa).
  Proof.
    induction o1 as [|h o1 IH]; intros o2 set sts body Hnd Hsub Hdom Hset Hunset Hnil Hvar Hne Hp data off pre seta stsa Hdata Hoff Hshp.
    - rewrite (Hnil eq_refl) in *. cbn [app pack_by_tag] in Hp. assert (body = []) by congruence. subst body. rewrite app_nil_r in Hdata. subst.
      cbn [app unpack_positional]. exists seta, stsa. split; [reflexivity|]. split; [intros tag; cbn; rewrite Bool.orb_false_r; reflexivity|].
      split; [intros tag []|reflexivity].
    - cbn [app] in *. cbn [pack_by_tag] in Hp. unfold sub_state in Hp.
      destruct (blookup h packers) as [pk|] eqn:Epk; [|discriminate]. destruct (blookup h sts) as [st|] eqn:Est; [|discriminate].
      rewrite (Hset h (or_introl eq_refl)) in Hp. unfold tag_wire in Hp. rewrite Hnoenc in Hp. cbn [obind app] in Hp.
      destruct (pk st) as [pb| | |] eqn:Epb; cbn [obind] in Hp; try discriminate.
      destruct (pack_by_tag packers t (o1 ++ o2) set sts) as [more| | |] eqn:Emore; cbn [obind] in Hp; try discriminate.
      assert (body = pb ++ more) by congruence. subst body. clear Hp.
      apply NoDup_cons_iff in Hnd. destruct Hnd as (Hnotin & Hnd').
      destruct (Hsub h (or_introl eq_refl)) as (Hrt & up & Eup).
      destruct (Hshp h (or_introl eq_refl)) as (st0 & Est0 & Hshp0).
      destruct (Hrt pk up Epk Eup st pb (Hdom h st (or_introl eq_refl) Est) Epb st0 more Hshp0) as (st' & Hup & HR & Hpk' & Hshp').
      cbn [unpack_positional]. rewrite Eup. unfold sub_state. rewrite Est0.
      replace (zdrop off data) with (pb ++ more) by (subst data; symmetry; apply zdrop_app2; exact Hoff).
      rewrite Hup.
      pose proof (zlen_nonneg pb). pose proof (zlen_nonneg more). pose proof (zlen_nonneg pre).
      assert (Hhead : forall tag, bmem tag (badd h seta) || bmem tag o1 = bmem tag seta || bmem tag (h :: o1)).
      { intros tag. rewrite bmem_badd. cbn [bmem existsb]. fold (bmem tag o1). fold (bmem tag seta).
        destruct (bytes_eqb tag h), (bmem tag seta), (bmem tag o1); reflexivity. }
      destruct (isvar && (zlen data <=? off + zlen pb)) eqn:Estop.
      + (* the data is exhausted: nothing after h is set *)
        apply Bool.andb_true_iff in Estop. destruct Estop as (Hv & Hex).
        assert (more = []) by (subst data off; destruct more as [|c more']; [reflexivity|pose proof (zlen_nonneg more'); zlens; lia]). subst more.
        assert (o1 = []).
        { destruct o1 as [|h2 o1']; [reflexivity|exfalso]. cbn [app pack_by_tag] in Emore. unfold sub_state in Emore.
          destruct (blookup h2 packers) as [pk2|] eqn:Epk2; [|discriminate]. destruct (blookup h2 sts) as [st2|] eqn:Est2; [|discriminate].
          rewrite (Hset h2 (or_intror (or_introl eq_refl))) in Emore. unfold tag_wire in Emore. rewrite Hnoenc in Emore. cbn [obind app] in Emore.
          destruct (pk2 st2) as [pb2| | |] eqn:Epb2; cbn [obind] in Emore; try discriminate.
          destruct (pack_by_tag packers t (o1' ++ o2) set sts); cbn [obind] in Emore; try discriminate.
          assert (pb2 = []) by (destruct pb2; [reflexivity|discriminate]). 
          apply (Hne Hv h2 pk2 st2 pb2 (or_intror (or_introl eq_refl)) Epk2 Est2 Epb2). assumption. }
        subst o1. exists (badd h seta), (bupdate h st' stsa). split; [f_equal; f_equal; subst data off; zlens; lia|].
        split; [intros tag; rewrite <- Hhead; cbn; rewrite Bool.orb_false_r; reflexivity|]. split.
        * intros tag [<-|[]]. exists st, st', pk. rewrite blookup_bupdate_same by (exists st0; exact Est0). repeat split; try assumption; congruence.
        * intros tag Hn. apply blookup_bupdate_other. intros <-. apply Hn. left. reflexivity.
      + destruct (IH o2 set sts more Hnd') with (data := data) (off := off + zlen pb) (pre := pre ++ pb) (seta := badd h seta) (stsa := bupdate h st' stsa)
          as (set' & sts' & Hun & Hset' & Hsts' & Hother).
        * intros tag Hi. apply Hsub. right. exact Hi.
        * intros tag s0 Hi. apply Hdom. right. exact Hi.
        * intros tag Hi. apply Hset. right. exact Hi.
        * exact Hunset.
        * intros ->. cbn [app] in Emore. pose proof (pack_unset_nil o2 set sts more Hunset Emore) as Hm. subst more.
          destruct isvar; [|apply Hvar; reflexivity]. exfalso. cbn in Estop. subst data off. zlens. lia.
        * exact Hvar.
        * intros Hv tag pk0 s0 b Hi. apply (Hne Hv). right. exact Hi.
        * exact Emore.
        * subst data. rewrite <- app_assoc. reflexivity.
        * subst off. zlens. lia.
        * intros tag Hi. rewrite blookup_bupdate_other by (intros ->; contradiction). apply Hshp. right. exact Hi.
        * exists set', sts'. split; [exact Hun|]. split; [intros tag; rewrite Hset'; apply Hhead|]. split.
          -- intros tag [<-|Hi]; [|apply Hsts'; exact Hi].
             exists st, st', pk. rewrite Hother by (intros Hi; apply Hnotin; apply in_or_app; left; exact Hi).
             rewrite blookup_bupdate_same by (exists st0; exact Est0). repeat split; try assumption; congruence.
          -- intros tag Hn. rewrite Hother by (intros Hi; apply Hn; right; exact Hi).
             apply blookup_bupdate_other. intros <-. apply Hn. left. reflexivity.
  Qed.
End Positional.

(* ---------------- nested specifications ---------------- *)
Definition gop (subs : list (bytes * fspec)) : list (bytes * (fstate -> outcome bytes)) :=
  (fix go (l : list (bytes * fspec)) : list (bytes * (fstate -> outcome bytes)) :=
     match l with [] => [] | (t, s') :: r => (t, pack_f s') :: go r end) subs.
Definition gou (subs : list (bytes * fspec)) : list (bytes * (fstate -> bytes -> fstate * ures Z)) :=
  (fix go (l : list (bytes * fspec)) : list (bytes * (fstate -> bytes -> fstate * ures Z)) :=
     match l with [] => [] | (t, s') :: r => (t, unpack_f s') :: go r end) subs.

Definition gof (subs : list (bytes * fspec)) : list (bytes * fstate) :=
  (fix go (l : list (bytes * fspec)) : list (bytes * fstate) := match l with [] => [] | (t, s') :: r => (t, fresh s') :: go r end) subs.
Lemma blookup_gof tag subs : blookup tag (gof subs) = option_map fresh (blookup tag subs).
Proof. induction subs as [|(t, s') r IH]; [reflexivity|]. cbn [gof blookup]. destruct (bytes_eqb tag t); [reflexivity|exact IH]. Qed.
Lemma blookup_gop tag subs : blookup tag (gop subs) = option_map pack_f (blookup tag subs).
Proof. induction subs as [|(t, s') r IH]; [reflexivity|]. cbn [gop blookup]. destruct (bytes_eqb tag t); [reflexivity|exact IH]. Qed.
Lemma blookup_gou tag subs : blookup tag (gou subs) = option_map unpack_f (blookup tag subs).
Proof. induction subs as [|(t, s') r IH]; [reflexivity|]. cbn [gou blookup]. destruct (bytes_eqb tag t); [reflexivity|exact IH]. Qed.

Lemma blookup_In {A} tag (l : list (bytes * A)) v : blookup tag l = Some v -> In (tag, v) l.
Proof.
  induction l as [|(k, w) r IH]; cbn [blookup]; [discriminate|]. destruct (bytes_eqb tag k) eqn:E.
  - apply bytes_eqb_eq in E. subst. intros H. left. congruence.
  - intros H. right. apply IH. exact H.
Qed.
Lemma In_blookup {A} tag (l : list (bytes * A)) : In tag (map fst l) -> exists v, blookup tag l = Some v.
Proof.
  induction l as [|(k, w) r IH]; cbn [map fst In blookup]; [intros []|]. destruct (bytes_eqb tag k) eqn:E; [eexists; reflexivity|].
  intros [H|H]; [subst; rewrite bytes_eqb_refl in E; discriminate|apply IH; exact H].
Qed.

(* a variable-length prefix: some bytes are read, so composite.go's isVariableLength is true *)
Definition pref_is_var (p : prefixer) : bool := match p with PFixed _ | PNone => false | _ => true end.
Definition positional (mode : cmode) : bool := match mode with CTag t => match tg_enc t with None => true | Some _ => false end | CBitmap _ => false end.

(* coherent specifications: the tags of a composite are distinct and read back from their wire form *)
Fixpoint coherent (s : fspec) : Prop :=
  match s with
  | FPrim p => coherent_pspec p
  | FComp pref len mode subs =>
      wf_pref pref /\ NoDup (map fst subs) /\
      match mode with
      | CTag t => match tg_enc t with
                  | Some e => forall tag, In tag (map fst subs) -> tag_rt t e tag
                  | None => True
                  end
      | CBitmap _ => False     (* bitmap composites: not covered by this theorem *)
      end /\
      (fix go (l : list (bytes * fspec)) : Prop := match l with [] => True | (_, s') :: r => coherent s' /\ go r end) subs
  end.

(* object states as the library builds them: every subfield of the specification has an object *)
Fixpoint shaped (s : fspec) : fstate -> Prop :=
  match s with
  | FPrim _ => fun _ => True
  | FComp _ _ _ subs => fun st =>
      match st with
      | SComp _ sts => (fix go (l : list (bytes * fspec)) : Prop :=
                          match l with [] => True | (t, s') :: r => (exists x, blookup t sts = Some x /\ shaped s' x) /\ go r end) subs
      | _ => False
      end
  end.

(* the domain: in-domain primitives; only specified subfields are set; positional composites are populated from the
   front (completely when the length is fixed), and with a variable length no set subfield packs to nothing *)
Fixpoint in_dom (s : fspec) : fstate -> Prop :=
  match s with
  | FPrim p => prim_in_domain p
  | FComp pref len mode subs => fun st =>
      match st with
      | SComp set sts =>
          (forall tag, bmem tag set = true -> In tag (map fst subs)) /\
          (forall body, comp_bytes s st = Ok body -> zlen body <= max_int) /\
          (positional mode = true -> exists o1 o2, ordered_tags mode subs = o1 ++ o2 /\
               (forall tag, In tag o1 -> bmem tag set = true) /\ (forall tag, In tag o2 -> bmem tag set = false) /\
               (o1 = [] -> o2 = []) /\ (pref_is_var pref = false -> o2 = [])) /\
          (fix go (l : list (bytes * fspec)) : Prop :=
             match l with
             | [] => True
             | (t, s') :: r => (bmem t set = true -> forall x, blookup t sts = Some x ->
                                  in_dom s' x /\ (positional mode && pref_is_var pref = true -> forall b, pack_f s' x = Ok b -> b <> [])) /\ go r
             end) subs
      | _ => False
      end
  end.

(* the same message content: the same subfields are set, with the same content *)
Fixpoint equiv (s : fspec) : fstate -> fstate -> Prop :=
  match s with
  | FPrim _ => fun a b => a = b
  | FComp _ _ _ subs => fun a b =>
      match a, b with
      | SComp set sts, SComp set' sts' =>
          (forall tag, bmem tag set = bmem tag set') /\
          (fix go (l : list (bytes * fspec)) : Prop :=
             match l with
             | [] => True
             | (t, s') :: r => (bmem t set = true -> exists x y, blookup t sts = Some x /\ blookup t sts' = Some y /\ equiv s' x y) /\ go r
             end) subs
      | _, _ => False
      end
  end.

(* unfolding the nested conjunctions *)
Lemma coherent_subs subs : (fix go (l : list (bytes * fspec)) : Prop := match l with [] => True | (_, s') :: r => coherent s' /\ go r end) subs ->
  forall tag s', In (tag, s') subs -> coherent s'.
Proof. induction subs as [|(t, s1) r IH]; intros H tag s' Hi; [destruct Hi|]. destruct H as (H1 & H2). destruct Hi as [Hi|Hi]; [congruence|eapply IH; eassumption]. Qed.

Lemma shaped_subs sts subs : (fix go (l : list (bytes * fspec)) : Prop :=
    match l with [] => True | (t, s') :: r => (exists x, blookup t sts = Some x /\ shaped s' x) /\ go r end) subs <->
  (forall tag s', In (tag, s') subs -> exists x, blookup tag sts = Some x /\ shaped s' x).
Proof.
  induction subs as [|(t, s1) r IH]; [split; [intros _ tag s' []|reflexivity]|]. split.
  - intros (H1 & H2) tag s' [Hi|Hi]; [inversion Hi; subst; exact H1|]. apply IH; assumption.
  - intros H. split; [apply H; left; reflexivity|]. apply IH. intros tag s' Hi. apply H. right. exact Hi.
Qed.

Lemma in_dom_subs (P : fspec -> fstate -> Prop) set sts subs : (fix go (l : list (bytes * fspec)) : Prop :=
    match l with [] => True | (t, s') :: r => (bmem t set = true -> forall x, blookup t sts = Some x -> P s' x) /\ go r end) subs ->
  forall tag s', In (tag, s') subs -> bmem tag set = true -> forall x, blookup tag sts = Some x -> P s' x.
Proof.
  induction subs as [|(t, s1) r IH]; intros H tag s' Hi; [destruct Hi|]. destruct H as (H1 & H2).
  destruct Hi as [Hi|Hi]; [inversion Hi; subst; exact H1|]. apply IH; assumption.
Qed.

Lemma equiv_subs (Q : fspec -> fstate -> fstate -> Prop) set sts sts' subs : (fix go (l : list (bytes * fspec)) : Prop :=
    match l with [] => True | (t, s') :: r => (bmem t set = true -> exists x y, blookup t sts = Some x /\ blookup t sts' = Some y /\ Q s' x y) /\ go r end) subs <->
  (forall tag s', In (tag, s') subs -> bmem tag set = true -> exists x y, blookup tag sts = Some x /\ blookup tag sts' = Some y /\ Q s' x y).
Proof.
  induction subs as [|(t, s1) r IH]; [split; [intros _ tag s' []|reflexivity]|]. split.
  - intros (H1 & H2) tag s' [Hi|Hi]; [inversion Hi; subst; exact H1|]. apply IH; assumption.
  - intros H. split; [apply H; left; reflexivity|]. apply IH. intros tag s' Hi. apply H. right. exact Hi.
Qed.

(* with distinct tags, membership of a (tag, spec) pair and lookup agree *)
Lemma In_blookup_nodup {A} tag (v : A) l : NoDup (map fst l) -> In (tag, v) l -> blookup tag l = Some v.
Proof.
  induction l as [|(k, w) r IH]; intros Hnd Hi; [destruct Hi|]. cbn [map fst] in Hnd. apply NoDup_cons_iff in Hnd. destruct Hnd as (Hn & Hnd).
  cbn [blookup]. destruct Hi as [Hi|Hi].
  - inversion Hi; subst. rewrite bytes_eqb_refl. reflexivity.
  - destruct (bytes_eqb tag k) eqn:E; [|apply IH; assumption]. apply bytes_eqb_eq in E. subst k. exfalso. apply Hn.
    change tag with (fst (tag, v)). apply in_map. exact Hi.
Qed.

(* packing depends only on which subfields are set and on what they pack to *)
Lemma pack_by_tag_congr packers t order : forall set sts set' sts',
  (forall tag, In tag order -> bmem tag set' = bmem tag set) ->
  (forall tag, In tag order -> bmem tag set = true -> exists x y pk, blookup tag sts = Some x /\ blookup tag sts' = Some y /\ blookup tag packers = Some pk /\ pk y = pk x) ->
  (forall tag, In tag order -> bmem tag set = false -> blookup tag sts = None -> blookup tag sts' = None) ->
  (forall tag, In tag order -> bmem tag set = false -> blookup tag sts <> None -> blookup tag sts' <> None) ->
  pack_by_tag packers t order set' sts' = pack_by_tag packers t order set sts.
Proof.
  induction order as [|h order IH]; intros set sts set' sts' Hset Hst Hnone Hsome; [reflexivity|].
  cbn [pack_by_tag]. unfold sub_state.
  rewrite (IH set sts set' sts') by (intros; first [apply Hset|apply Hst|apply Hnone|apply Hsome]; try right; assumption).
  rewrite (Hset h (or_introl eq_refl)).
  destruct (blookup h packers) as [pk|] eqn:Epk; [|reflexivity].
  destruct (bmem h set) eqn:Eset.
  - destruct (Hst h (or_introl eq_refl) Eset) as (x & y & pk' & Hx & Hy & Hpk & Heq). rewrite Hx, Hy. assert (pk' = pk) by congruence. subst pk'. rewrite Heq. reflexivity.
  - destruct (blookup h sts) as [x|] eqn:Ex.
    + destruct (blookup h sts') as [y|] eqn:Ey; [reflexivity|]. exfalso. apply (Hsome h (or_introl eq_refl) Eset); [rewrite Ex; discriminate|exact Ey].
    + rewrite (Hnone h (or_introl eq_refl) Eset Ex). reflexivity.
Qed.

From Coq Require Import Sorting.Permutation.
From Iso Require Import Proofs.SortProofs.

Lemma ordered_tags_perm mode subs : Permutation (map fst subs) (ordered_tags mode subs).
Proof. unfold ordered_tags, sort_tags. apply sort_perm. Qed.
Lemma ordered_tags_In mode subs tag : In tag (ordered_tags mode subs) <-> In tag (map fst subs).
Proof. split; intros H; [eapply Permutation_in; [apply Permutation_sym; apply ordered_tags_perm|exact H]|eapply Permutation_in; [apply ordered_tags_perm|exact H]]. Qed.
Lemma ordered_tags_nodup mode subs : NoDup (map fst subs) -> NoDup (ordered_tags mode subs).
Proof. intros H. eapply Permutation_NoDup; [apply ordered_tags_perm|exact H]. Qed.

Lemma pack_f_comp pref len mode subs set sts : pack_f (FComp pref len mode subs) (SComp set sts) =
  (do body <- comp_pack_body (gop subs) mode (ordered_tags mode subs) set sts;
   do pre <- enc_len pref len (zlen body); Ok (pre ++ body)).
Proof. reflexivity. Qed.

Lemma comp_bytes_comp pref len mode subs set sts : comp_bytes (FComp pref len mode subs) (SComp set sts) =
  comp_pack_body (gop subs) mode (ordered_tags mode subs) set sts.
Proof. reflexivity. Qed.

Lemma unpack_f_comp pref len mode subs set sts data dlen offset set' sts' :
  dec_len pref len data = Ok (dlen, offset) -> (dlen <? 0) || (zlen data - offset <? dlen) = false ->
  comp_unpack_body (gou subs) mode (ordered_tags mode subs) (gof subs) set sts (ztake dlen (zdrop offset data)) (negb (offset =? 0)) = ((set', sts'), UOk dlen) ->
  unpack_f (FComp pref len mode subs) (SComp set sts) data = (SComp set' sts', UOk (offset + dlen)).
Proof.
  intros Hd Hb Hu. cbn [unpack_f]. fold (gou subs). fold (gof subs). rewrite Hd, Hb. cbv zeta. rewrite Hu. rewrite Z.eqb_refl. reflexivity.
Qed.

(* the statement proved by induction over the specification *)
Definition roundtrips (s : fspec) : Prop :=
  coherent s -> forall st b, in_dom s st -> pack_f s st = Ok b ->
  forall st0 rest, shaped s st0 ->
    exists st', unpack_f s st0 (b ++ rest) = (st', UOk (zlen b)) /\ equiv s st st' /\ pack_f s st' = Ok b /\ shaped s st'.

Section CompStep.
  Variable subs : list (bytes * fspec).
  Hypothesis IHsubs : forall tag s', In (tag, s') subs -> roundtrips s'.
  Hypothesis Hnd : NoDup (map fst subs).
  Hypothesis Hcoh : forall tag s', In (tag, s') subs -> coherent s'.

  Definition dom_of (needne : bool) (tag : bytes) (st : fstate) : Prop :=
    forall s', blookup tag subs = Some s' -> in_dom s' st /\ (needne = true -> forall b, pack_f s' st = Ok b -> b <> []).
  Definition shp_of (tag : bytes) (st : fstate) : Prop := forall s', blookup tag subs = Some s' -> shaped s' st.
  Definition R_of (tag : bytes) (x y : fstate) : Prop := forall s', blookup tag subs = Some s' -> equiv s' x y.

  Lemma sub_rt_of needne tag : sub_rt (gop subs) (gou subs) (dom_of needne) shp_of R_of tag.
  Proof.
    intros pk up Hpk Hup st b Hd Hp st0 rest Hs. rewrite blookup_gop in Hpk. rewrite blookup_gou in Hup.
    destruct (blookup tag subs) as [s'|] eqn:Es; [|discriminate]. cbn [option_map] in Hpk, Hup.
    assert (pk = pack_f s') by congruence. assert (up = unpack_f s') by congruence. subst pk up.
    pose proof (blookup_In _ _ _ Es) as Hin.
    destruct (IHsubs tag s' Hin (Hcoh tag s' Hin) st b (proj1 (Hd s' Es)) Hp st0 rest (Hs s' Es)) as (st' & Hu & He & Hp' & Hs').
    exists st'. split; [exact Hu|]. split; [intros s2 E2; assert (s2 = s') by congruence; subst; exact He|].
    split; [exact Hp'|]. intros s2 E2. assert (s2 = s') by congruence. subst. exact Hs'.
  Qed.

  (* what each unpack loop establishes about the new state *)
  Definition post (tags : list bytes) (set : list bytes) (sts sts0 : list (bytes * fstate)) (set' : list bytes) (sts' : list (bytes * fstate)) : Prop :=
    (forall tag, bmem tag set' = bmem tag tags && bmem tag set) /\
    (forall tag, In tag tags -> bmem tag set = true ->
       exists x y pk, blookup tag sts = Some x /\ blookup tag sts' = Some y /\ blookup tag (gop subs) = Some pk /\ R_of tag x y /\ pk y = pk x /\ shp_of tag y) /\
    (forall tag, ~ (In tag tags /\ bmem tag set = true) -> blookup tag sts' = blookup tag sts0).

  Lemma post_finish pref len mode set sts set0 sts0 set' sts' body :
    let tags := ordered_tags mode subs in
    (forall tag, bmem tag set = true -> In tag (map fst subs)) ->
    shaped (FComp pref len mode subs) (SComp set0 sts0) ->
    (match mode with CTag _ => True | CBitmap _ => False end) ->
    comp_pack_body (gop subs) mode tags set sts = Ok body ->
    post tags set sts sts0 set' sts' ->
    equiv (FComp pref len mode subs) (SComp set sts) (SComp set' sts') /\
    comp_pack_body (gop subs) mode tags set' sts' = Ok body /\
    shaped (FComp pref len mode subs) (SComp set' sts').
  Proof.
    intros tags Hsub Hsh Hmode Hbody (Hset' & Hsts' & Hother).
    assert (Hmem : forall tag, bmem tag set' = bmem tag set).
    { intros tag. rewrite Hset'. destruct (bmem tag set) eqn:E; [|apply Bool.andb_false_r]. rewrite Bool.andb_true_r.
      apply bmem_In. apply ordered_tags_In. apply Hsub. exact E. }
    cbn [shaped] in Hsh. rewrite shaped_subs in Hsh.
    split; [|split].
    - cbn [equiv]. split; [intros tag; symmetry; apply Hmem|]. apply equiv_subs. intros tag s' Hi Hm.
      assert (Ht : In tag tags) by (apply ordered_tags_In; change tag with (fst (tag, s')); apply in_map; exact Hi).
      destruct (Hsts' tag Ht Hm) as (x & y & pk & Hx & Hy & _ & HR & _). exists x, y. repeat split; try assumption.
      apply HR. apply In_blookup_nodup; assumption.
    - destruct mode as [t|bm]; [|contradiction]. cbn [comp_pack_body] in *. rewrite <- Hbody. apply pack_by_tag_congr.
      + intros tag _. apply Hmem.
      + intros tag Ht Hm. destruct (Hsts' tag Ht Hm) as (x & y & pk & Hx & Hy & Hpk & _ & Heq & _). exists x, y, pk. repeat split; assumption.
      + intros tag Ht Hm Hn. exfalso.
        (* pack succeeded, so every tag in order has a state *)
        assert (G : forall order b, pack_by_tag (gop subs) t order set sts = Ok b -> forall tg, In tg order -> blookup tg sts <> None).
        { induction order as [|h o IHo]; intros b0 Hp tg Hi; [destruct Hi|]. cbn [pack_by_tag] in Hp. unfold sub_state in Hp.
          destruct (blookup h (gop subs)); [|discriminate]. destruct (blookup h sts) eqn:Eh; [|discriminate].
          destruct Hi as [<-|Hi]; [rewrite Eh; discriminate|].
          destruct (bmem h set).
          - destruct (tag_wire t h); cbn [obind] in Hp; try discriminate. destruct (o0 f); cbn [obind] in Hp; try discriminate.
            destruct (pack_by_tag (gop subs) t o set sts) eqn:Eo; cbn [obind] in Hp; try discriminate. eapply IHo; [reflexivity|exact Hi].
          - eapply IHo; eassumption. }
        fold tags in Hbody. apply (G tags body Hbody tag Ht). assumption.
      + intros tag Ht Hm _. rewrite Hother by (intros (_ & Hm'); congruence).
        apply ordered_tags_In in Ht. destruct (In_blookup tag subs Ht) as (s' & Es). destruct (Hsh tag s' (blookup_In _ _ _ Es)) as (x & Hx & _). rewrite Hx. discriminate.
    - cbn [shaped]. apply shaped_subs. intros tag s' Hi.
      assert (Ht : In tag tags) by (apply ordered_tags_In; change tag with (fst (tag, s')); apply in_map; exact Hi).
      destruct (bmem tag set) eqn:Em.
      + destruct (Hsts' tag Ht Em) as (x & y & pk & Hx & Hy & _ & _ & _ & Hshp). exists y. split; [exact Hy|]. apply Hshp. apply In_blookup_nodup; assumption.
      + rewrite Hother by (intros (_ & Hm'); congruence). apply Hsh. exact Hi.
  Qed.
End CompStep.

Lemma enc_len_isvar p max n w : wf_pref p -> go_len n -> enc_len p max n = Ok w -> negb (zlen w =? 0) = pref_is_var p.
Proof.
  intros Hwf Hn He. destruct (pref_roundtrip p max n w Hwf Hn He) as (Hw & _ & _).
  destruct p as [f|f d| |]; cbn [wf_pref] in Hwf; try contradiction; cbn [pref_is_var].
  - rewrite Hw by discriminate. reflexivity.
  - rewrite Hw by discriminate. destruct f; cbn [pref_width]; lia.
  - cbn [enc_len] in He. destruct (negb (max =? 0) && (max <? n)); [discriminate|]. destruct (n <? 0); [discriminate|].
    destruct (n <=? 127); [assert (w = [zb n]) by congruence; subst; reflexivity|].
    cbv zeta in He. assert (w = zb (128 + zlen (be_bytes n)) :: be_bytes n) by congruence. subst w. pose proof (zlen_nonneg (be_bytes n)). zlens. lia.
Qed.

Fixpoint fspec_ind' (P : fspec -> Prop) (Hp : forall p, P (FPrim p))
  (Hc : forall pref len mode subs, (forall tag s', In (tag, s') subs -> P s') -> P (FComp pref len mode subs)) (s : fspec) : P s :=
  match s with
  | FPrim p => Hp p
  | FComp pref len mode subs => Hc pref len mode subs
      ((fix go (l : list (bytes * fspec)) : forall tag s', In (tag, s') l -> P s' :=
          match l with
          | [] => fun tag s' H => match H with end
          | (t, s1) :: r => fun tag s' H =>
              match H with
              | or_introl e => eq_ind (t, s1) (fun y => P (snd y)) (fspec_ind' P Hp Hc s1) (tag, s') e
              | or_intror H' => go r tag s' H'
              end
          end) subs)
  end.

(* fresh objects (what NewComposite / NewMessage build) are shaped *)

Theorem fresh_shaped s : coherent s -> shaped s (fresh s).
Proof.
  induction s as [p|pref len mode subs IH] using fspec_ind'; intros Hc; [exact I|].
  cbn [coherent] in Hc. destruct Hc as (_ & Hnd & _ & Hsubs). cbn [fresh shaped]. fold (gof subs). apply shaped_subs. intros tag s' Hi.
  exists (fresh s'). split; [rewrite blookup_gof, (In_blookup_nodup tag s' subs Hnd Hi); reflexivity|].
  apply (IH tag s' Hi). eapply coherent_subs; eassumption.
Qed.

(* the reset unpack performs first keeps the object shaped *)
Lemma blookup_reset freshes set sts tag : blookup tag (reset_set freshes set sts) =
  match blookup tag sts with
  | None => None
  | Some st => Some (if bmem tag set then match blookup tag freshes with Some f => f | None => st end else st)
  end.
Proof.
  unfold reset_set. induction sts as [|(k, v) r IH]; [reflexivity|]. cbn [map fst].
  destruct (bytes_eqb tag k) eqn:E.
  - assert (k = tag) by (symmetry; apply bytes_eqb_eq; exact E). subst k. cbn [blookup]. rewrite E.
    destruct (bmem tag set); [|cbn [blookup]; rewrite E; reflexivity].
    destruct (blookup tag freshes); cbn [blookup]; rewrite E; reflexivity.
  - cbn [blookup]. rewrite E. rewrite <- IH.
    destruct (bmem k set); [destruct (blookup k freshes)|]; cbn [blookup]; rewrite E; reflexivity.
Qed.

Lemma reset_shaped pref len mode subs set0 sts0 : NoDup (map fst subs) -> (forall tag s', In (tag, s') subs -> coherent s') ->
  shaped (FComp pref len mode subs) (SComp set0 sts0) -> shaped (FComp pref len mode subs) (SComp set0 (reset_set (gof subs) set0 sts0)).
Proof.
  intros Hnd Hc Hs. cbn [shaped] in *. rewrite shaped_subs in *. intros tag s' Hi. destruct (Hs tag s' Hi) as (x & Hx & Hsx).
  rewrite blookup_reset, Hx. eexists. split; [reflexivity|]. destruct (bmem tag set0); [|exact Hsx].
  rewrite blookup_gof, (In_blookup_nodup tag s' subs Hnd Hi). cbn [option_map]. apply fresh_shaped. apply (Hc tag s' Hi).
Qed.

Lemma comp_roundtrip pref len mode subs : (forall tag s', In (tag, s') subs -> roundtrips s') -> roundtrips (FComp pref len mode subs).
Proof.
  intros IH Hcoh st b Hdom Hp st0 rest Hsh.
  cbn [coherent] in Hcoh. destruct Hcoh as (Hwf & Hnd & Hmode & Hsubs).
  pose proof (coherent_subs subs Hsubs) as Hcs.
  destruct st as [| | | |set sts]; try (cbn [in_dom] in Hdom; contradiction).
  destruct st0 as [| | | |set0 sts0]; try (cbn [shaped] in Hsh; contradiction).
  set (rsts0 := reset_set (gof subs) set0 sts0).
  assert (Hshr : shaped (FComp pref len mode subs) (SComp set0 rsts0)) by (apply reset_shaped; assumption).
  pose proof Hshr as Hsh0. cbn [shaped] in Hsh0. rewrite shaped_subs in Hsh0.
  cbn [in_dom] in Hdom. destruct Hdom as (Hsub & Hmax & Hpos & Hds).
  pose proof (in_dom_subs (fun s' x => in_dom s' x /\ (positional mode && pref_is_var pref = true -> forall b, pack_f s' x = Ok b -> b <> [])) set sts subs Hds) as Hds'.
  rewrite pack_f_comp in Hp. set (tags := ordered_tags mode subs) in *.
  destruct (comp_pack_body (gop subs) mode tags set sts) as [body| | |] eqn:Ebody; cbn [obind] in Hp; try discriminate.
  destruct (enc_len pref len (zlen body)) as [pre| | |] eqn:Epre; cbn [obind] in Hp; try discriminate.
  assert (b = pre ++ body) by congruence. subst b. clear Hp.
  assert (Hgo : go_len (zlen body)) by (split; [apply zlen_nonneg|apply Hmax; rewrite comp_bytes_comp; exact Ebody]).
  destruct (pref_roundtrip pref len (zlen body) pre Hwf Hgo Epre) as (_ & _ & Hdec).
  pose proof (enc_len_isvar pref len (zlen body) pre Hwf Hgo Epre) as Hisvar.
  set (needne := positional mode && pref_is_var pref) in *.
  assert (Htags_nd : NoDup tags) by (apply ordered_tags_nodup; exact Hnd).
  assert (Hup_ex : forall tag, In tag tags -> exists up, blookup tag (gou subs) = Some up).
  { intros tag Ht. apply ordered_tags_In in Ht. destruct (In_blookup tag subs Ht) as (s' & Es). rewrite blookup_gou, Es. eexists; reflexivity. }
  assert (Hdomof : forall tag x, In tag tags -> bmem tag set = true -> blookup tag sts = Some x -> dom_of subs needne tag x).
  { intros tag x Ht Hm Hx s' Es. apply (Hds' tag s' (blookup_In _ _ _ Es) Hm x Hx). }
  assert (Hshpof : forall tag, In tag tags -> exists s0, blookup tag rsts0 = Some s0 /\ shp_of subs tag s0).
  { intros tag Ht. apply ordered_tags_In in Ht. destruct (In_blookup tag subs Ht) as (s' & Es).
    destruct (Hsh0 tag s' (blookup_In _ _ _ Es)) as (x & Hx & Hs). exists x. split; [exact Hx|]. intros s2 E2. assert (s2 = s') by congruence. subst. exact Hs. }
  assert (Hkey : exists set' sts', comp_unpack_body (gou subs) mode tags (gof subs) set0 sts0 body (negb (zlen pre =? 0)) = ((set', sts'), UOk (zlen body)) /\
                                   post subs tags set sts rsts0 set' sts').
  { destruct mode as [t|bm]; [|contradiction]. unfold comp_unpack_body. cbv zeta. fold rsts0. cbn [comp_pack_body] in *. destruct (tg_enc t) as [e|] eqn:Ee.
    - destruct (unpack_by_tag_rt (gop subs) (gou subs) t e (dom_of subs needne) (shp_of subs) (R_of subs) tags set sts body Htags_nd) with
        (fuel := S (length body)) (data := body) (off := 0) (pre := @nil byte) (seta := @nil bytes) (stsa := rsts0) as (set' & sts' & Hun & H1 & H2 & H3).
      + intros tag Ht. split; [apply sub_rt_of; assumption|]. split; [apply Hmode; apply (proj1 (ordered_tags_In (CTag t) subs tag) Ht)|apply Hup_ex; exact Ht].
      + exact Hdomof.
      + exact Ebody.
      + reflexivity.
      + reflexivity.
      + lia.
      + exact Hshpof.
      + exists set', sts'. split; [exact Hun|]. split; [intros tag; rewrite H1; reflexivity|]. split; assumption.
    - destruct (Hpos ltac:(cbn [positional]; rewrite Ee; reflexivity)) as (o1 & o2 & Ho & Ho1 & Ho2 & Hnil & Hfix).
      fold tags in Ho. rewrite Ho in *.
      destruct (unpack_positional_rt (gop subs) (gou subs) t (dom_of subs needne) (shp_of subs) (R_of subs) Ee (negb (zlen pre =? 0)) o1 o2 set sts body Htags_nd) with
        (data := body) (off := 0) (pre := @nil byte) (seta := @nil bytes) (stsa := rsts0) as (set' & sts' & Hun & H1 & H2 & H3).
      + intros tag Ht. split; [apply sub_rt_of; assumption|apply Hup_ex; exact Ht].
      + intros tag x Ht. apply Hdomof; [apply in_or_app; left; exact Ht|apply Ho1; exact Ht].
      + exact Ho1.
      + exact Ho2.
      + exact Hnil.
      + intros Hv. apply Hfix. rewrite <- Hisvar. exact Hv.
      + intros Hv tag pk x b0 Ht Hpk Hx Hb. rewrite blookup_gop in Hpk. destruct (blookup tag subs) as [s'|] eqn:Es; [|discriminate].
        cbn [option_map] in Hpk. assert (pk = pack_f s') by congruence. subst pk.
        destruct (Hdomof tag x (in_or_app _ _ _ (or_introl Ht)) (Ho1 tag Ht) Hx s' Es) as (_ & Hne). apply (Hne ltac:(unfold needne; cbn [positional]; rewrite Ee, <- Hisvar, Hv; reflexivity) b0 Hb).
      + exact Ebody.
      + reflexivity.
      + reflexivity.
      + exact Hshpof.
      + assert (Hiff : forall tag, (In tag (o1 ++ o2) /\ bmem tag set = true) <-> In tag o1).
        { intros tag. split.
          - intros (Hi & Hm). apply in_app_or in Hi. destruct Hi as [Hi|Hi]; [exact Hi|]. rewrite (Ho2 tag Hi) in Hm. discriminate.
          - intros Hi. split; [apply in_or_app; left; exact Hi|apply Ho1; exact Hi]. }
        exists set', sts'. split; [exact Hun|]. split; [|split].
        * intros tag. rewrite H1. cbn [bmem existsb orb]. rewrite bmem_app.
          destruct (bmem tag o1) eqn:E1.
          -- apply bmem_In in E1. rewrite (Ho1 tag E1). reflexivity.
          -- cbn [orb]. destruct (bmem tag o2) eqn:E2; [|reflexivity]. apply bmem_In in E2. rewrite (Ho2 tag E2). reflexivity.
        * intros tag Hi Hm. apply H2. apply Hiff. split; assumption.
        * intros tag Hn. apply H3. intros Hi. apply Hn. apply Hiff. exact Hi. }
  destruct Hkey as (set' & sts' & Hun & Hpost).
  destruct (post_finish subs Hnd pref len mode set sts set0 rsts0 set' sts' body Hsub Hshr) as (Heq & Hpk & Hshp).
  { destruct mode; [exact I|contradiction]. } { exact Ebody. } { exact Hpost. }
  exists (SComp set' sts'). split; [|split; [exact Heq|split; [|exact Hshp]]].
  - rewrite <- app_assoc. replace (zlen (pre ++ body)) with (zlen pre + zlen body) by (zlens; reflexivity).
    apply unpack_f_comp with (dlen := zlen body) (offset := zlen pre).
    + apply Hdec.
    + pose proof (zlen_nonneg body). pose proof (zlen_nonneg rest). zlens. lia.
    + rewrite zdrop_app, ztake_app. exact Hun.
  - rewrite pack_f_comp. cbv zeta in Hpk. unfold tags in *. rewrite Hpk. cbn [obind]. rewrite Epre. reflexivity.
Qed.

(* Pack then Unpack of any coherent (nested) field specification whose composites are tagged or positional: the same
   content comes back (equiv), exactly the packed bytes are consumed whatever follows and whatever the object held, and
   packing the result returns the identical bytes *)
Theorem field_roundtrip s : roundtrips s.
Proof.
  induction s as [p|pref len mode subs IH] using fspec_ind'.
  - intros Hc st b Hd Hp st0 rest _. cbn [coherent in_dom pack_f unpack_f] in *. exists st.
    split; [apply prim_roundtrip; assumption|]. split; [reflexivity|]. split; [exact Hp|exact I].
  - apply comp_roundtrip. exact IH.
Qed.

(* ---------------- sufficient conditions for tags to read back ---------------- *)
(* fixed-width tags under a value encoding: the padded tag has the declared width, lies in the encoder's domain, and
   does not begin (end) with the pad character *)
Lemma tag_rt_value t e tag : tg_enc t = Some e -> value_enc e = true -> 1 <= tg_len t -> pad_ok (tg_pad t) tag = true ->
  zlen (pad (tg_pad t) tag (tg_len t)) = tg_len t -> enc_dom e (pad (tg_pad t) tag (tg_len t)) = true -> tag_rt t e tag.
Proof.
  intros He Hv Hl Hp Hz Hd tb Htb. unfold tag_wire in Htb. rewrite He in Htb.
  set (x := pad (tg_pad t) tag (tg_len t)) in *. destruct (enc_roundtrip e x Hd) as (w & Hw & Hrt).
  assert (tb = w) by congruence. subst tb. destruct (value_enc_units e x w Hv) as (Hu & Hc). rewrite Hu, Hc, Hz in Hrt.
  split.
  - destruct w as [|c w']; [|pose proof (zlen_nonneg w'); zlens; lia]. exfalso. specialize (Hrt []). cbn [app] in Hrt.
    assert (Hne : e <> EncBerTag) by (intros ->; discriminate).
    pose proof (enc_decode_rejects e [] (tg_len t) Hne) as Hr. rewrite Hrt in Hr. cbn [is_err] in Hr.
    assert (false = true); [apply Hr; right|discriminate]. destruct e; cbn [enc_min_bytes]; zlens; lia.
  - exists x. split; [exact Hrt|]. unfold x. apply unpad_pad. exact Hp.
Qed.

(* BER-TLV tags: upper-case hex of a well-formed BER tag, no padding *)
Lemma tag_rt_ber t w : tg_enc t = Some EncBerTag -> tg_pad t = PadNone -> ber_wf w = true -> tag_rt t EncBerTag (hex_encode_upper w).
Proof.
  intros He Hp Hw tb Htb. unfold tag_wire in Htb. rewrite He, Hp in Htb. unfold pad in Htb. cbn [pad_mem fst] in Htb.
  cbn [enc_encode] in Htb. rewrite hex_decode_encode in Htb. assert (tb = w) by congruence. subst tb.
  split.
  - unfold ber_wf in Hw. destruct w; [discriminate|]. pose proof (zlen_nonneg w). zlens. lia.
  - exists (hex_encode_upper w). split; [|rewrite Hp; reflexivity]. intros rest. cbn [enc_decode].
    rewrite (ber_tag_len_wf w rest Hw), ztake_app. reflexivity.
Qed.

