(* Composite fields: Pack then Unpack round trip for nested field specifications (tagged / TLV, positional and bitmapped
   composites over any coherent subfields), by induction over the specification. About Model/Field.v. *)
From Iso Require Import Model.Base Model.Padding Model.Encoding Model.Prefix Model.Bitmap Model.Spec Model.Field
     Proofs.BaseLemmas Proofs.PaddingProofs Proofs.EncodingProofs Proofs.DigitsProofs Proofs.PrefixProofs Proofs.FieldProofs Proofs.BitmapProofs.
From Iso Require Export Proofs.CompositeLoops Proofs.BitmapCompositeProofs.
From Iso Require Import Proofs.StateProofs.
From Coq Require Import ZifyBool ZifyNat ZifyN Sorting.Permutation Sorting.Sorted.
Set Default Timeout 120.

(* ---------------- nested specifications ---------------- *)
Definition gop (subs : list (bytes * fspec)) : list (bytes * (fstate -> outcome bytes)) :=
  (fix go (l : list (bytes * fspec)) : list (bytes * (fstate -> outcome bytes)) :=
     match l with [] => [] | (t, s') :: r => (t, pack_f s') :: go r end) subs.
Definition gou (subs : list (bytes * fspec)) : list (bytes * (fstate -> bytes -> fstate * ures Z)) :=
  (fix go (l : list (bytes * fspec)) : list (bytes * (fstate -> bytes -> fstate * ures Z)) :=
     match l with [] => [] | (t, s') :: r => (t, unpack_f s') :: go r end) subs.

Definition gof (subs : list (bytes * fspec)) : list (bytes * fstate) :=
  (fix go (l : list (bytes * fspec)) : list (bytes * fstate) := match l with [] => [] | (t, s') :: r => (t, fresh s') :: go r end) subs.
Lemma blookup_gof tag subs : blookup tag (gof subs) = option_map fresh (blookup tag subs).
Proof. induction subs as [|(t, s') r IH]; [reflexivity|]. cbn [gof blookup]. destruct (bytes_eqb tag t); [reflexivity|exact IH]. Qed.
Lemma blookup_gop tag subs : blookup tag (gop subs) = option_map pack_f (blookup tag subs).
Proof. induction subs as [|(t, s') r IH]; [reflexivity|]. cbn [gop blookup]. destruct (bytes_eqb tag t); [reflexivity|exact IH]. Qed.
Lemma blookup_gou tag subs : blookup tag (gou subs) = option_map unpack_f (blookup tag subs).
Proof. induction subs as [|(t, s') r IH]; [reflexivity|]. cbn [gou blookup]. destruct (bytes_eqb tag t); [reflexivity|exact IH]. Qed.

Lemma blookup_In {A} tag (l : list (bytes * A)) v : blookup tag l = Some v -> In (tag, v) l.
Proof.
  induction l as [|(k, w) r IH]; cbn [blookup]; [discriminate|]. destruct (bytes_eqb tag k) eqn:E.
  - apply bytes_eqb_eq in E. subst. intros H. left. congruence.
  - intros H. right. apply IH. exact H.
Qed.
Lemma In_blookup {A} tag (l : list (bytes * A)) : In tag (map fst l) -> exists v, blookup tag l = Some v.
Proof.
  induction l as [|(k, w) r IH]; cbn [map fst In blookup]; [intros []|]. destruct (bytes_eqb tag k) eqn:E; [eexists; reflexivity|].
  intros [H|H]; [subst; rewrite bytes_eqb_refl in E; discriminate|apply IH; exact H].
Qed.

(* a variable-length prefix: some bytes are read, so composite.go's isVariableLength is true *)
Definition pref_is_var (p : prefixer) : bool := match p with PFixed _ | PNone => false | _ => true end.
Definition positional (mode : cmode) : bool := match mode with CTag t => match tg_enc t with None => true | Some _ => false end | CBitmap _ => false end.

(* coherent specifications: the tags of a composite are distinct and read back from their wire form *)
Fixpoint coherent (s : fspec) : Prop :=
  match s with
  | FPrim p => coherent_pspec p
  | FComp pref len mode subs =>
      wf_pref pref /\ NoDup (map fst subs) /\
      match mode with
      | CTag t => match tg_enc t with
                  | Some e => forall tag, In tag (map fst subs) -> tag_rt t e tag
                  | None => True
                  end
      | CBitmap b => bm_auto b = false /\ 1 <= bm_len b /\ (bm_enc b = EncBinary \/ bm_enc b = EncHex) /\ (exists f, bm_pref b = PFixed f) /\
                     forall tag, In tag (map fst subs) -> canon tag
      end /\
      (fix go (l : list (bytes * fspec)) : Prop := match l with [] => True | (_, s') :: r => coherent s' /\ go r end) subs
  end.

(* object states as the library builds them: every subfield of the specification has an object *)
Fixpoint shaped (s : fspec) : fstate -> Prop :=
  match s with
  | FPrim _ => fun _ => True
  | FComp _ _ _ subs => fun st =>
      match st with
      | SComp _ sts => (fix go (l : list (bytes * fspec)) : Prop :=
                          match l with [] => True | (t, s') :: r => (exists x, blookup t sts = Some x /\ shaped s' x) /\ go r end) subs
      | _ => False
      end
  end.

(* the domain: in-domain primitives; only specified subfields are set; positional composites are populated from the
   front (completely when the length is fixed), and with a variable length no set subfield packs to nothing *)
Fixpoint in_dom (s : fspec) : fstate -> Prop :=
  match s with
  | FPrim p => prim_in_domain p
  | FComp pref len mode subs => fun st =>
      match st with
      | SComp set sts =>
          (forall tag, bmem tag set = true -> In tag (map fst subs)) /\
          (forall body, comp_bytes s st = Ok body -> zlen body <= max_int) /\
          (positional mode = true -> exists o1 o2, ordered_tags mode subs = o1 ++ o2 /\
               (forall tag, In tag o1 -> bmem tag set = true) /\ (forall tag, In tag o2 -> bmem tag set = false) /\
               (o1 = [] -> o2 = []) /\ (pref_is_var pref = false -> o2 = [])) /\
          (fix go (l : list (bytes * fspec)) : Prop :=
             match l with
             | [] => True
             | (t, s') :: r => (bmem t set = true -> forall x, blookup t sts = Some x ->
                                  in_dom s' x /\ (positional mode && pref_is_var pref = true -> forall b, pack_f s' x = Ok b -> b <> [])) /\ go r
             end) subs
      | _ => False
      end
  end.

(* the same message content: the same subfields are set, with the same content *)
Fixpoint equiv (s : fspec) : fstate -> fstate -> Prop :=
  match s with
  | FPrim _ => fun a b => a = b
  | FComp _ _ _ subs => fun a b =>
      match a, b with
      | SComp set sts, SComp set' sts' =>
          (forall tag, bmem tag set = bmem tag set') /\
          (fix go (l : list (bytes * fspec)) : Prop :=
             match l with
             | [] => True
             | (t, s') :: r => (bmem t set = true -> exists x y, blookup t sts = Some x /\ blookup t sts' = Some y /\ equiv s' x y) /\ go r
             end) subs
      | _, _ => False
      end
  end.

(* unfolding the nested conjunctions *)
Lemma coherent_subs subs : (fix go (l : list (bytes * fspec)) : Prop := match l with [] => True | (_, s') :: r => coherent s' /\ go r end) subs ->
  forall tag s', In (tag, s') subs -> coherent s'.
Proof. induction subs as [|(t, s1) r IH]; intros H tag s' Hi; [destruct Hi|]. destruct H as (H1 & H2). destruct Hi as [Hi|Hi]; [congruence|eapply IH; eassumption]. Qed.

Lemma shaped_subs sts subs : (fix go (l : list (bytes * fspec)) : Prop :=
    match l with [] => True | (t, s') :: r => (exists x, blookup t sts = Some x /\ shaped s' x) /\ go r end) subs <->
  (forall tag s', In (tag, s') subs -> exists x, blookup tag sts = Some x /\ shaped s' x).
Proof.
  induction subs as [|(t, s1) r IH]; [split; [intros _ tag s' []|reflexivity]|]. split.
  - intros (H1 & H2) tag s' [Hi|Hi]; [inversion Hi; subst; exact H1|]. apply IH; assumption.
  - intros H. split; [apply H; left; reflexivity|]. apply IH. intros tag s' Hi. apply H. right. exact Hi.
Qed.

Lemma in_dom_subs (P : fspec -> fstate -> Prop) set sts subs : (fix go (l : list (bytes * fspec)) : Prop :=
    match l with [] => True | (t, s') :: r => (bmem t set = true -> forall x, blookup t sts = Some x -> P s' x) /\ go r end) subs ->
  forall tag s', In (tag, s') subs -> bmem tag set = true -> forall x, blookup tag sts = Some x -> P s' x.
Proof.
  induction subs as [|(t, s1) r IH]; intros H tag s' Hi; [destruct Hi|]. destruct H as (H1 & H2).
  destruct Hi as [Hi|Hi]; [inversion Hi; subst; exact H1|]. apply IH; assumption.
Qed.

Lemma equiv_subs (Q : fspec -> fstate -> fstate -> Prop) set sts sts' subs : (fix go (l : list (bytes * fspec)) : Prop :=
    match l with [] => True | (t, s') :: r => (bmem t set = true -> exists x y, blookup t sts = Some x /\ blookup t sts' = Some y /\ Q s' x y) /\ go r end) subs <->
  (forall tag s', In (tag, s') subs -> bmem tag set = true -> exists x y, blookup tag sts = Some x /\ blookup tag sts' = Some y /\ Q s' x y).
Proof.
  induction subs as [|(t, s1) r IH]; [split; [intros _ tag s' []|reflexivity]|]. split.
  - intros (H1 & H2) tag s' [Hi|Hi]; [inversion Hi; subst; exact H1|]. apply IH; assumption.
  - intros H. split; [apply H; left; reflexivity|]. apply IH. intros tag s' Hi. apply H. right. exact Hi.
Qed.

(* with distinct tags, membership of a (tag, spec) pair and lookup agree *)
Lemma In_blookup_nodup {A} tag (v : A) l : NoDup (map fst l) -> In (tag, v) l -> blookup tag l = Some v.
Proof.
  induction l as [|(k, w) r IH]; intros Hnd Hi; [destruct Hi|]. cbn [map fst] in Hnd. apply NoDup_cons_iff in Hnd. destruct Hnd as (Hn & Hnd).
  cbn [blookup]. destruct Hi as [Hi|Hi].
  - inversion Hi; subst. rewrite bytes_eqb_refl. reflexivity.
  - destruct (bytes_eqb tag k) eqn:E; [|apply IH; assumption]. apply bytes_eqb_eq in E. subst k. exfalso. apply Hn.
    change tag with (fst (tag, v)). apply in_map. exact Hi.
Qed.

(* packing depends only on which subfields are set and on what they pack to *)
Lemma pack_by_tag_congr packers t order : forall set sts set' sts',
  (forall tag, In tag order -> bmem tag set' = bmem tag set) ->
  (forall tag, In tag order -> bmem tag set = true -> exists x y pk, blookup tag sts = Some x /\ blookup tag sts' = Some y /\ blookup tag packers = Some pk /\ pk y = pk x) ->
  (forall tag, In tag order -> bmem tag set = false -> blookup tag sts = None -> blookup tag sts' = None) ->
  (forall tag, In tag order -> bmem tag set = false -> blookup tag sts <> None -> blookup tag sts' <> None) ->
  pack_by_tag packers t order set' sts' = pack_by_tag packers t order set sts.
Proof.
  induction order as [|h order IH]; intros set sts set' sts' Hset Hst Hnone Hsome; [reflexivity|].
  cbn [pack_by_tag]. unfold sub_state.
  rewrite (IH set sts set' sts') by (intros; first [apply Hset|apply Hst|apply Hnone|apply Hsome]; try right; assumption).
  rewrite (Hset h (or_introl eq_refl)).
  destruct (blookup h packers) as [pk|] eqn:Epk; [|reflexivity].
  destruct (bmem h set) eqn:Eset.
  - destruct (Hst h (or_introl eq_refl) Eset) as (x & y & pk' & Hx & Hy & Hpk & Heq). rewrite Hx, Hy. assert (pk' = pk) by congruence. subst pk'. rewrite Heq. reflexivity.
  - destruct (blookup h sts) as [x|] eqn:Ex.
    + destruct (blookup h sts') as [y|] eqn:Ey; [reflexivity|]. exfalso. apply (Hsome h (or_introl eq_refl) Eset); [rewrite Ex; discriminate|exact Ey].
    + rewrite (Hnone h (or_introl eq_refl) Eset Ex). reflexivity.
Qed.

From Coq Require Import Sorting.Permutation.
From Iso Require Import Proofs.SortProofs.

Lemma ordered_tags_perm mode subs : Permutation (map fst subs) (ordered_tags mode subs).
Proof. unfold ordered_tags, sort_tags. apply sort_perm. Qed.
Lemma ordered_tags_In mode subs tag : In tag (ordered_tags mode subs) <-> In tag (map fst subs).
Proof. split; intros H; [eapply Permutation_in; [apply Permutation_sym; apply ordered_tags_perm|exact H]|eapply Permutation_in; [apply ordered_tags_perm|exact H]]. Qed.
Lemma ordered_tags_nodup mode subs : NoDup (map fst subs) -> NoDup (ordered_tags mode subs).
Proof. intros H. eapply Permutation_NoDup; [apply ordered_tags_perm|exact H]. Qed.

Lemma pack_f_comp pref len mode subs set sts : pack_f (FComp pref len mode subs) (SComp set sts) =
  (do body <- comp_pack_body (gop subs) mode (ordered_tags mode subs) set sts;
   do pre <- enc_len pref len (zlen body); Ok (pre ++ body)).
Proof. reflexivity. Qed.

Lemma comp_bytes_comp pref len mode subs set sts : comp_bytes (FComp pref len mode subs) (SComp set sts) =
  comp_pack_body (gop subs) mode (ordered_tags mode subs) set sts.
Proof. reflexivity. Qed.

Lemma unpack_f_comp pref len mode subs set sts data dlen offset set' sts' :
  dec_len pref len data = Ok (dlen, offset) -> (dlen <? 0) || (zlen data - offset <? dlen) = false ->
  comp_unpack_body (gou subs) mode (ordered_tags mode subs) (gof subs) set sts (ztake dlen (zdrop offset data)) (negb (offset =? 0)) = ((set', sts'), UOk dlen) ->
  unpack_f (FComp pref len mode subs) (SComp set sts) data = (SComp set' sts', UOk (offset + dlen)).
Proof.
  intros Hd Hb Hu. cbn [unpack_f]. fold (gou subs). fold (gof subs). rewrite Hd, Hb. cbv zeta. rewrite Hu. rewrite Z.eqb_refl. reflexivity.
Qed.

(* the statement proved by induction over the specification *)
Definition roundtrips (s : fspec) : Prop :=
  coherent s -> forall st b, in_dom s st -> pack_f s st = Ok b ->
  forall st0 rest, shaped s st0 ->
    exists st', unpack_f s st0 (b ++ rest) = (st', UOk (zlen b)) /\ equiv s st st' /\ pack_f s st' = Ok b /\ shaped s st'.

Section CompStep.
  Variable subs : list (bytes * fspec).
  Hypothesis IHsubs : forall tag s', In (tag, s') subs -> roundtrips s'.
  Hypothesis Hnd : NoDup (map fst subs).
  Hypothesis Hcoh : forall tag s', In (tag, s') subs -> coherent s'.

  Definition dom_of (needne : bool) (tag : bytes) (st : fstate) : Prop :=
    forall s', blookup tag subs = Some s' -> in_dom s' st /\ (needne = true -> forall b, pack_f s' st = Ok b -> b <> []).
  Definition shp_of (tag : bytes) (st : fstate) : Prop := forall s', blookup tag subs = Some s' -> shaped s' st.
  Definition R_of (tag : bytes) (x y : fstate) : Prop := forall s', blookup tag subs = Some s' -> equiv s' x y.

  Lemma sub_rt_of needne tag : sub_rt (gop subs) (gou subs) (dom_of needne) shp_of R_of tag.
  Proof.
    intros pk up Hpk Hup st b Hd Hp st0 rest Hs. rewrite blookup_gop in Hpk. rewrite blookup_gou in Hup.
    destruct (blookup tag subs) as [s'|] eqn:Es; [|discriminate]. cbn [option_map] in Hpk, Hup.
    assert (pk = pack_f s') by congruence. assert (up = unpack_f s') by congruence. subst pk up.
    pose proof (blookup_In _ _ _ Es) as Hin.
    destruct (IHsubs tag s' Hin (Hcoh tag s' Hin) st b (proj1 (Hd s' Es)) Hp st0 rest (Hs s' Es)) as (st' & Hu & He & Hp' & Hs').
    exists st'. split; [exact Hu|]. split; [intros s2 E2; assert (s2 = s') by congruence; subst; exact He|].
    split; [exact Hp'|]. intros s2 E2. assert (s2 = s') by congruence. subst. exact Hs'.
  Qed.

  (* what each unpack loop establishes about the new state *)
  Definition post (tags : list bytes) (set : list bytes) (sts sts0 : list (bytes * fstate)) (set' : list bytes) (sts' : list (bytes * fstate)) : Prop :=
    (forall tag, bmem tag set' = bmem tag tags && bmem tag set) /\
    (forall tag, In tag tags -> bmem tag set = true ->
       exists x y pk, blookup tag sts = Some x /\ blookup tag sts' = Some y /\ blookup tag (gop subs) = Some pk /\ R_of tag x y /\ pk y = pk x /\ shp_of tag y) /\
    (forall tag, ~ (In tag tags /\ bmem tag set = true) -> blookup tag sts' = blookup tag sts0).

  Lemma post_finish pref len mode set sts set0 sts0 set' sts' body :
    let tags := ordered_tags mode subs in
    (forall tag, bmem tag set = true -> In tag (map fst subs)) ->
    shaped (FComp pref len mode subs) (SComp set0 sts0) ->
    comp_pack_body (gop subs) mode tags set sts = Ok body ->
    post tags set sts sts0 set' sts' ->
    equiv (FComp pref len mode subs) (SComp set sts) (SComp set' sts') /\
    comp_pack_body (gop subs) mode tags set' sts' = Ok body /\
    shaped (FComp pref len mode subs) (SComp set' sts').
  Proof.
    intros tags Hsub Hsh Hbody (Hset' & Hsts' & Hother).
    assert (Hmem : forall tag, bmem tag set' = bmem tag set).
    { intros tag. rewrite Hset'. destruct (bmem tag set) eqn:E; [|apply Bool.andb_false_r]. rewrite Bool.andb_true_r.
      apply bmem_In. apply ordered_tags_In. apply Hsub. exact E. }
    cbn [shaped] in Hsh. rewrite shaped_subs in Hsh.
    split; [|split].
    - cbn [equiv]. split; [intros tag; symmetry; apply Hmem|]. apply equiv_subs. intros tag s' Hi Hm.
      assert (Ht : In tag tags) by (apply ordered_tags_In; change tag with (fst (tag, s')); apply in_map; exact Hi).
      destruct (Hsts' tag Ht Hm) as (x & y & pk & Hx & Hy & _ & HR & _). exists x, y. repeat split; try assumption.
      apply HR. apply In_blookup_nodup; assumption.
    - destruct mode as [t|bm].
      2:{ cbn [comp_pack_body] in *. rewrite <- Hbody. rewrite (pack_by_bitmap_congr (gop subs) bm tags set sts set' sts'); [reflexivity| |].
          - intros tag _. apply Hmem.
          - intros tag Ht Hm. destruct (Hsts' tag Ht Hm) as (x & y & pk & Hx & Hy & Hpk & _ & Heq & _). exists x, y, pk. repeat split; assumption. }
      cbn [comp_pack_body] in *. rewrite <- Hbody. apply pack_by_tag_congr.
      + intros tag _. apply Hmem.
      + intros tag Ht Hm. destruct (Hsts' tag Ht Hm) as (x & y & pk & Hx & Hy & Hpk & _ & Heq & _). exists x, y, pk. repeat split; assumption.
      + intros tag Ht Hm Hn. exfalso.
        (* pack succeeded, so every tag in order has a state *)
        assert (G : forall order b, pack_by_tag (gop subs) t order set sts = Ok b -> forall tg, In tg order -> blookup tg sts <> None).
        { induction order as [|h o IHo]; intros b0 Hp tg Hi; [destruct Hi|]. cbn [pack_by_tag] in Hp. unfold sub_state in Hp.
          destruct (blookup h (gop subs)); [|discriminate]. destruct (blookup h sts) eqn:Eh; [|discriminate].
          destruct Hi as [<-|Hi]; [rewrite Eh; discriminate|].
          destruct (bmem h set).
          - destruct (tag_wire t h); cbn [obind] in Hp; try discriminate. destruct (o0 f); cbn [obind] in Hp; try discriminate.
            destruct (pack_by_tag (gop subs) t o set sts) eqn:Eo; cbn [obind] in Hp; try discriminate. eapply IHo; [reflexivity|exact Hi].
          - eapply IHo; eassumption. }
        fold tags in Hbody. apply (G tags body Hbody tag Ht). assumption.
      + intros tag Ht Hm _. rewrite Hother by (intros (_ & Hm'); congruence).
        apply ordered_tags_In in Ht. destruct (In_blookup tag subs Ht) as (s' & Es). destruct (Hsh tag s' (blookup_In _ _ _ Es)) as (x & Hx & _). rewrite Hx. discriminate.
    - cbn [shaped]. apply shaped_subs. intros tag s' Hi.
      assert (Ht : In tag tags) by (apply ordered_tags_In; change tag with (fst (tag, s')); apply in_map; exact Hi).
      destruct (bmem tag set) eqn:Em.
      + destruct (Hsts' tag Ht Em) as (x & y & pk & Hx & Hy & _ & _ & _ & Hshp). exists y. split; [exact Hy|]. apply Hshp. apply In_blookup_nodup; assumption.
      + rewrite Hother by (intros (_ & Hm'); congruence). apply Hsh. exact Hi.
  Qed.
End CompStep.

Lemma enc_len_isvar p max n w : wf_pref p -> go_len n -> enc_len p max n = Ok w -> negb (zlen w =? 0) = pref_is_var p.
Proof.
  intros Hwf Hn He. destruct (pref_roundtrip p max n w Hwf Hn He) as (Hw & _ & _).
  destruct p as [f|f d| |]; cbn [wf_pref] in Hwf; try contradiction; cbn [pref_is_var].
  - rewrite Hw by discriminate. reflexivity.
  - rewrite Hw by discriminate. destruct f; cbn [pref_width]; lia.
  - cbn [enc_len] in He. destruct (negb (max =? 0) && (max <? n)); [discriminate|]. destruct (n <? 0); [discriminate|].
    destruct (n <=? 127); [assert (w = [zb n]) by congruence; subst; reflexivity|].
    cbv zeta in He. assert (w = zb (128 + zlen (be_bytes n)) :: be_bytes n) by congruence. subst w. pose proof (zlen_nonneg (be_bytes n)). zlens. lia.
Qed.

Fixpoint fspec_ind' (P : fspec -> Prop) (Hp : forall p, P (FPrim p))
  (Hc : forall pref len mode subs, (forall tag s', In (tag, s') subs -> P s') -> P (FComp pref len mode subs)) (s : fspec) : P s :=
  match s with
  | FPrim p => Hp p
  | FComp pref len mode subs => Hc pref len mode subs
      ((fix go (l : list (bytes * fspec)) : forall tag s', In (tag, s') l -> P s' :=
          match l with
          | [] => fun tag s' H => match H with end
          | (t, s1) :: r => fun tag s' H =>
              match H with
              | or_introl e => eq_ind (t, s1) (fun y => P (snd y)) (fspec_ind' P Hp Hc s1) (tag, s') e
              | or_intror H' => go r tag s' H'
              end
          end) subs)
  end.

(* fresh objects (what NewComposite / NewMessage build) are shaped *)

Theorem fresh_shaped s : coherent s -> shaped s (fresh s).
Proof.
  induction s as [p|pref len mode subs IH] using fspec_ind'; intros Hc; [exact I|].
  cbn [coherent] in Hc. destruct Hc as (_ & Hnd & _ & Hsubs). cbn [fresh shaped]. fold (gof subs). apply shaped_subs. intros tag s' Hi.
  exists (fresh s'). split; [rewrite blookup_gof, (In_blookup_nodup tag s' subs Hnd Hi); reflexivity|].
  apply (IH tag s' Hi). eapply coherent_subs; eassumption.
Qed.

(* the reset unpack performs first keeps the object shaped *)
Lemma blookup_reset freshes set sts tag : blookup tag (reset_set freshes set sts) =
  match blookup tag sts with
  | None => None
  | Some st => Some (if bmem tag set then match blookup tag freshes with Some f => f | None => st end else st)
  end.
Proof.
  unfold reset_set. induction sts as [|(k, v) r IH]; [reflexivity|]. cbn [map fst].
  destruct (bytes_eqb tag k) eqn:E.
  - assert (k = tag) by (symmetry; apply bytes_eqb_eq; exact E). subst k. cbn [blookup]. rewrite E.
    destruct (bmem tag set); [|cbn [blookup]; rewrite E; reflexivity].
    destruct (blookup tag freshes); cbn [blookup]; rewrite E; reflexivity.
  - cbn [blookup]. rewrite E. rewrite <- IH.
    destruct (bmem k set); [destruct (blookup k freshes)|]; cbn [blookup]; rewrite E; reflexivity.
Qed.

Lemma reset_shaped pref len mode subs set0 sts0 : NoDup (map fst subs) -> (forall tag s', In (tag, s') subs -> coherent s') ->
  shaped (FComp pref len mode subs) (SComp set0 sts0) -> shaped (FComp pref len mode subs) (SComp set0 (reset_set (gof subs) set0 sts0)).
Proof.
  intros Hnd Hc Hs. cbn [shaped] in *. rewrite shaped_subs in *. intros tag s' Hi. destruct (Hs tag s' Hi) as (x & Hx & Hsx).
  rewrite blookup_reset, Hx. eexists. split; [reflexivity|]. destruct (bmem tag set0); [|exact Hsx].
  rewrite blookup_gof, (In_blookup_nodup tag s' subs Hnd Hi). cbn [option_map]. apply fresh_shaped. apply (Hc tag s' Hi).
Qed.

Lemma comp_roundtrip pref len mode subs : (forall tag s', In (tag, s') subs -> roundtrips s') -> roundtrips (FComp pref len mode subs).
Proof.
  intros IH Hcoh st b Hdom Hp st0 rest Hsh.
  cbn [coherent] in Hcoh. destruct Hcoh as (Hwf & Hnd & Hmode & Hsubs).
  pose proof (coherent_subs subs Hsubs) as Hcs.
  destruct st as [| | | |set sts]; try (cbn [in_dom] in Hdom; contradiction).
  destruct st0 as [| | | |set0 sts0]; try (cbn [shaped] in Hsh; contradiction).
  set (rsts0 := reset_set (gof subs) set0 sts0).
  assert (Hshr : shaped (FComp pref len mode subs) (SComp set0 rsts0)) by (apply reset_shaped; assumption).
  pose proof Hshr as Hsh0. cbn [shaped] in Hsh0. rewrite shaped_subs in Hsh0.
  cbn [in_dom] in Hdom. destruct Hdom as (Hsub & Hmax & Hpos & Hds).
  pose proof (in_dom_subs (fun s' x => in_dom s' x /\ (positional mode && pref_is_var pref = true -> forall b, pack_f s' x = Ok b -> b <> [])) set sts subs Hds) as Hds'.
  rewrite pack_f_comp in Hp. set (tags := ordered_tags mode subs) in *.
  destruct (comp_pack_body (gop subs) mode tags set sts) as [body| | |] eqn:Ebody; cbn [obind] in Hp; try discriminate.
  destruct (enc_len pref len (zlen body)) as [pre| | |] eqn:Epre; cbn [obind] in Hp; try discriminate.
  assert (b = pre ++ body) by congruence. subst b. clear Hp.
  assert (Hgo : go_len (zlen body)) by (split; [apply zlen_nonneg|apply Hmax; rewrite comp_bytes_comp; exact Ebody]).
  destruct (pref_roundtrip pref len (zlen body) pre Hwf Hgo Epre) as (_ & _ & Hdec).
  pose proof (enc_len_isvar pref len (zlen body) pre Hwf Hgo Epre) as Hisvar.
  set (needne := positional mode && pref_is_var pref) in *.
  assert (Htags_nd : NoDup tags) by (apply ordered_tags_nodup; exact Hnd).
  assert (Hup_ex : forall tag, In tag tags -> exists up, blookup tag (gou subs) = Some up).
  { intros tag Ht. apply ordered_tags_In in Ht. destruct (In_blookup tag subs Ht) as (s' & Es). rewrite blookup_gou, Es. eexists; reflexivity. }
  assert (Hdomof : forall tag x, In tag tags -> bmem tag set = true -> blookup tag sts = Some x -> dom_of subs needne tag x).
  { intros tag x Ht Hm Hx s' Es. apply (Hds' tag s' (blookup_In _ _ _ Es) Hm x Hx). }
  assert (Hshpof : forall tag, In tag tags -> exists s0, blookup tag rsts0 = Some s0 /\ shp_of subs tag s0).
  { intros tag Ht. apply ordered_tags_In in Ht. destruct (In_blookup tag subs Ht) as (s' & Es).
    destruct (Hsh0 tag s' (blookup_In _ _ _ Es)) as (x & Hx & Hs). exists x. split; [exact Hx|]. intros s2 E2. assert (s2 = s') by congruence. subst. exact Hs. }
  assert (Hkey : exists set' sts', comp_unpack_body (gou subs) mode tags (gof subs) set0 sts0 body (negb (zlen pre =? 0)) = ((set', sts'), UOk (zlen body)) /\
                                   post subs tags set sts rsts0 set' sts').
  { destruct mode as [t|bm].
    2:{ (* a bitmap of subfields *)
        destruct Hmode as (Hauto & HBl & Henc & (fx & Hpfx) & Hcanon).
        unfold comp_unpack_body. cbv zeta. fold rsts0. cbn [comp_pack_body] in Ebody.
        destruct (pack_by_bitmap (gop subs) bm tags set sts (bm_new bm)) as [[bmf fields]| | |] eqn:Epb; cbn [obind] in Ebody; try discriminate.
        destruct (bm_pack bm bmf) as [pbm| | |] eqn:Epbm; cbn [obind] in Ebody; try discriminate.
        assert (body = pbm ++ fields) by congruence. subst body.
        assert (Hcan_tags : forall tag, In tag tags -> canon tag) by (intros tag Ht; apply Hcanon; apply (proj1 (ordered_tags_In (CBitmap bm) subs tag) Ht)).
        destruct (pack_by_bitmap_spec (gop subs) bm Hauto tags set sts (bm_new bm) bmf fields Hcan_tags Epb) as (Hlen & Hbits & Hsel & Hrange).
        assert (Hlnew : zlen (bm_new bm) = bm_len bm) by (unfold bm_new; rewrite zlen_repeat; lia).
        rewrite (bm_fixed_pack_unpack bm fx bmf pbm fields (bm_new bm) Hauto HBl Henc Hpfx ltac:(lia) Epbm).
        set (sel := filter (fun tag => bmem tag set) tags) in *.
        set (ln := map num_of sel).
        assert (Hsel_can : forall tag, In tag sel -> canon tag) by (intros tag Hi; apply Hcan_tags; apply filter_In in Hi; tauto).
        assert (Hmapitoa : map itoa ln = sel).
        { unfold ln. rewrite map_map. clear - Hsel_can. induction sel as [|x r IH]; [reflexivity|]. cbn [map]. rewrite (proj2 (canon_num x (Hsel_can x (or_introl eq_refl)))).
          f_equal. apply IH. intros t Hi. apply Hsel_can. right. exact Hi. }
        assert (Hsorted : StronglySorted Z.lt ln).
        { unfold ln, sel. apply strongly_sorted_filter_map. unfold tags, ordered_tags. cbn [comp_sort].
          destruct (sort_byint (map fst subs) Hcanon) as (Hs1 & _). rewrite Hs1. apply sorted_nodup_strict.
          - apply sort_z_sorted.
          - eapply Permutation.Permutation_NoDup; [apply sort_z_is_perm|].
            (* distinct canonical numerals have distinct values *)
            clear - Hnd Hcanon. induction (map fst subs) as [|x r IH]; [constructor|]. apply NoDup_cons_iff in Hnd. destruct Hnd as (Hx & Hr).
            cbn [map]. constructor; [|apply IH; [exact Hr|intros t Hi; apply Hcanon; right; exact Hi]].
            intros Hin. apply in_map_iff in Hin. destruct Hin as (y & Hy & Hyi). apply Hx.
            assert (y = x) by (destruct (canon_num x (Hcanon x (or_introl eq_refl))) as (_ & Hx2); destruct (canon_num y (Hcanon y (or_intror Hyi))) as (_ & Hy2); rewrite <- Hx2, <- Hy2, Hy; reflexivity). subst y. exact Hyi. }
        assert (Hln_in : forall n, In n ln -> exists tag, In tag tags /\ bmem tag set = true /\ num_of tag = n /\ itoa n = tag).
        { intros n Hn. unfold ln in Hn. apply in_map_iff in Hn. destruct Hn as (tag & <- & Ht). apply filter_In in Ht. destruct Ht as (Ht & Hm).
          exists tag. repeat split; try assumption. apply (canon_num tag (Hcan_tags tag Ht)). }
        destruct (unpack_bits_rt (gop subs) (gou subs) (gof subs) (dom_of subs needne) (shp_of subs) (R_of subs) bmf (Z.to_nat (zlen bmf * 8)) 1 ln sts fields) with
          (data := pbm ++ fields) (off := zlen pbm) (pre := pbm) (seta := @nil bytes) (stsa := rsts0) as (set' & sts' & Hun & H1 & H2 & H3).
        - pose proof (zlen_nonneg bmf). lia.
        - lia.
        - exact Hsorted.
        - intros n Hn. destruct (Hln_in n Hn) as (tag & Ht & Hm & Hnum & Hitoa). destruct (canon_num tag (Hcan_tags tag Ht)) as (Hr1 & _).
          pose proof (Hrange tag Ht Hm) as Hr2. rewrite Hnum in *. rewrite Hitoa.
          split; [lia|]. split; [rewrite Hlen; lia|]. split.
          + rewrite Hbits. apply Bool.orb_true_iff. right. apply existsb_exists. exists tag. split; [exact Ht|]. rewrite Hm, Hnum, Z.eqb_refl. reflexivity.
          + split; [apply sub_rt_of; assumption|apply Hup_ex; exact Ht].
        - intros j Hj Hsj. rewrite Hbits in Hsj. unfold bm_new in Hsj. rewrite isset_zeros in Hsj. cbn [orb] in Hsj. apply existsb_exists in Hsj.
          destruct Hsj as (tag & Ht & Hc). apply Bool.andb_true_iff in Hc. destruct Hc as (Hm & Hnum). unfold ln. apply in_map_iff. exists tag.
          split; [lia|]. apply filter_In. split; assumption.
        - intros n x Hn Hx. destruct (Hln_in n Hn) as (tag & Ht & Hm & Hnum & Hitoa). rewrite Hitoa in *. apply Hdomof; assumption.
        - rewrite Hmapitoa. exact Hsel.
        - reflexivity.
        - reflexivity.
        - intros n Hn. destruct (Hln_in n Hn) as (tag & Ht & Hm & Hnum & Hitoa). rewrite Hitoa. apply Hshpof. exact Ht.
        - rewrite Hmapitoa in *. exists set', sts'. split; [exact Hun|]. split; [|split].
          + intros tag. rewrite H1. cbn [bmem existsb orb]. unfold sel.
            destruct (bmem tag (filter (fun t0 => bmem t0 set) tags)) eqn:E.
            * apply bmem_In in E. apply filter_In in E. destruct E as (E1 & E2). rewrite E2. apply bmem_In in E1. rewrite E1. reflexivity.
            * destruct (bmem tag tags) eqn:E1; [|reflexivity]. destruct (bmem tag set) eqn:E2; [|reflexivity].
              assert (In tag (filter (fun t0 => bmem t0 set) tags)) by (apply filter_In; split; [apply bmem_In; exact E1|exact E2]). apply bmem_In in H. congruence.
          + intros tag Ht Hm. assert (Hs : In tag sel) by (apply filter_In; split; assumption).
            destruct (canon_num tag (Hcan_tags tag Ht)) as (_ & Hitoa). rewrite <- Hitoa. apply H2. unfold ln. apply in_map. exact Hs.
          + intros tag Hn. apply H3. intros Hs. apply Hn. unfold sel in Hs. apply filter_In in Hs. exact Hs. }
    unfold comp_unpack_body. cbv zeta. fold rsts0. cbn [comp_pack_body] in *. destruct (tg_enc t) as [e|] eqn:Ee.
    - destruct (unpack_by_tag_rt (gop subs) (gou subs) (gof subs) t e (dom_of subs needne) (shp_of subs) (R_of subs) tags set sts body Htags_nd) with
        (fuel := S (length body)) (data := body) (off := 0) (pre := @nil byte) (seta := @nil bytes) (stsa := rsts0) as (set' & sts' & Hun & H1 & H2 & H3).
      + intros tag Ht. split; [apply sub_rt_of; assumption|]. split; [apply Hmode; apply (proj1 (ordered_tags_In (CTag t) subs tag) Ht)|apply Hup_ex; exact Ht].
      + exact Hdomof.
      + exact Ebody.
      + reflexivity.
      + reflexivity.
      + lia.
      + exact Hshpof.
      + exists set', sts'. split; [exact Hun|]. split; [intros tag; rewrite H1; reflexivity|]. split; assumption.
    - destruct (Hpos ltac:(cbn [positional]; rewrite Ee; reflexivity)) as (o1 & o2 & Ho & Ho1 & Ho2 & Hnil & Hfix).
      fold tags in Ho. rewrite Ho in *.
      destruct (unpack_positional_rt (gop subs) (gou subs) (gof subs) t (dom_of subs needne) (shp_of subs) (R_of subs) Ee (negb (zlen pre =? 0)) o1 o2 set sts body Htags_nd) with
        (data := body) (off := 0) (pre := @nil byte) (seta := @nil bytes) (stsa := rsts0) as (set' & sts' & Hun & H1 & H2 & H3).
      + intros tag Ht. split; [apply sub_rt_of; assumption|apply Hup_ex; exact Ht].
      + intros tag x Ht. apply Hdomof; [apply in_or_app; left; exact Ht|apply Ho1; exact Ht].
      + exact Ho1.
      + exact Ho2.
      + exact Hnil.
      + intros Hv. apply Hfix. rewrite <- Hisvar. exact Hv.
      + intros Hv tag pk x b0 Ht Hpk Hx Hb. rewrite blookup_gop in Hpk. destruct (blookup tag subs) as [s'|] eqn:Es; [|discriminate].
        cbn [option_map] in Hpk. assert (pk = pack_f s') by congruence. subst pk.
        destruct (Hdomof tag x (in_or_app _ _ _ (or_introl Ht)) (Ho1 tag Ht) Hx s' Es) as (_ & Hne). apply (Hne ltac:(unfold needne; cbn [positional]; rewrite Ee, <- Hisvar, Hv; reflexivity) b0 Hb).
      + exact Ebody.
      + reflexivity.
      + reflexivity.
      + exact Hshpof.
      + assert (Hiff : forall tag, (In tag (o1 ++ o2) /\ bmem tag set = true) <-> In tag o1).
        { intros tag. split.
          - intros (Hi & Hm). apply in_app_or in Hi. destruct Hi as [Hi|Hi]; [exact Hi|]. rewrite (Ho2 tag Hi) in Hm. discriminate.
          - intros Hi. split; [apply in_or_app; left; exact Hi|apply Ho1; exact Hi]. }
        exists set', sts'. split; [exact Hun|]. split; [|split].
        * intros tag. rewrite H1. cbn [bmem existsb orb]. rewrite bmem_app.
          destruct (bmem tag o1) eqn:E1.
          -- apply bmem_In in E1. rewrite (Ho1 tag E1). reflexivity.
          -- cbn [orb]. destruct (bmem tag o2) eqn:E2; [|reflexivity]. apply bmem_In in E2. rewrite (Ho2 tag E2). reflexivity.
        * intros tag Hi Hm. apply H2. apply Hiff. split; assumption.
        * intros tag Hn. apply H3. intros Hi. apply Hn. apply Hiff. exact Hi. }
  destruct Hkey as (set' & sts' & Hun & Hpost).
  destruct (post_finish subs Hnd pref len mode set sts set0 rsts0 set' sts' body Hsub Hshr) as (Heq & Hpk & Hshp).
  { exact Ebody. } { exact Hpost. }
  exists (SComp set' sts'). split; [|split; [exact Heq|split; [|exact Hshp]]].
  - rewrite <- app_assoc. replace (zlen (pre ++ body)) with (zlen pre + zlen body) by (zlens; reflexivity).
    apply unpack_f_comp with (dlen := zlen body) (offset := zlen pre).
    + apply Hdec.
    + pose proof (zlen_nonneg body). pose proof (zlen_nonneg rest). zlens. lia.
    + rewrite zdrop_app, ztake_app. exact Hun.
  - rewrite pack_f_comp. cbv zeta in Hpk. unfold tags in *. rewrite Hpk. cbn [obind]. rewrite Epre. reflexivity.
Qed.

(* Pack then Unpack of any coherent (nested) field specification whose composites are tagged or positional: the same
   content comes back (equiv), exactly the packed bytes are consumed whatever follows and whatever the object held, and
   packing the result returns the identical bytes *)
Theorem field_roundtrip s : roundtrips s.
Proof.
  induction s as [p|pref len mode subs IH] using fspec_ind'.
  - intros Hc st b Hd Hp st0 rest _. cbn [coherent in_dom pack_f unpack_f] in *. exists st.
    split; [apply prim_roundtrip; assumption|]. split; [reflexivity|]. split; [exact Hp|exact I].
  - apply comp_roundtrip. exact IH.
Qed.

(* ---------------- sufficient conditions for tags to read back ---------------- *)
(* fixed-width tags under a value encoding: the padded tag has the declared width, lies in the encoder's domain, and
   does not begin (end) with the pad character *)
Lemma tag_rt_value t e tag : tg_enc t = Some e -> value_enc e = true -> 1 <= tg_len t -> pad_ok (tg_pad t) tag = true ->
  zlen (pad (tg_pad t) tag (tg_len t)) = tg_len t -> enc_dom e (pad (tg_pad t) tag (tg_len t)) = true -> tag_rt t e tag.
Proof.
  intros He Hv Hl Hp Hz Hd tb Htb. unfold tag_wire in Htb. rewrite He in Htb.
  set (x := pad (tg_pad t) tag (tg_len t)) in *. destruct (enc_roundtrip e x Hd) as (w & Hw & Hrt).
  assert (tb = w) by congruence. subst tb. destruct (value_enc_units e x w Hv) as (Hu & Hc). rewrite Hu, Hc, Hz in Hrt.
  split.
  - destruct w as [|c w']; [|pose proof (zlen_nonneg w'); zlens; lia]. exfalso. specialize (Hrt []). cbn [app] in Hrt.
    assert (Hne : e <> EncBerTag) by (intros ->; discriminate).
    pose proof (enc_decode_rejects e [] (tg_len t) Hne) as Hr. rewrite Hrt in Hr. cbn [is_err] in Hr.
    assert (false = true); [apply Hr; right|discriminate]. destruct e; cbn [enc_min_bytes]; zlens; lia.
  - exists x. split; [exact Hrt|]. unfold x. apply unpad_pad. exact Hp.
Qed.

(* BER-TLV tags: upper-case hex of a well-formed BER tag, no padding *)
Lemma tag_rt_ber t w : tg_enc t = Some EncBerTag -> tg_pad t = PadNone -> ber_wf w = true -> tag_rt t EncBerTag (hex_encode_upper w).
Proof.
  intros He Hp Hw tb Htb. unfold tag_wire in Htb. rewrite He, Hp in Htb. unfold pad in Htb. cbn [pad_mem fst] in Htb.
  cbn [enc_encode] in Htb. rewrite hex_decode_encode in Htb. assert (tb = w) by congruence. subst tb.
  split.
  - unfold ber_wf in Hw. destruct w; [discriminate|]. pose proof (zlen_nonneg w). zlens. lia.
  - exists (hex_encode_upper w). split; [|rewrite Hp; reflexivity]. intros rest. cbn [enc_decode].
    rewrite (ber_tag_len_wf w rest Hw), ztake_app. reflexivity.
Qed.

