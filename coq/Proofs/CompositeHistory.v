(* C10 for composite objects used on their own: every state-changing operation of the composite API - Unpack and SetBytes
   whatever their outcome, Marshal of a struct, an accepted UnmarshalJSON document, UnsetSubfields by path - keeps the object
   clean (every subfield that is not set is as new), so after ANY history Unpack of any bytes has the outcome, and on
   success leaves the complete state, of Unpack into a new composite. About Model/Field.v, Model/Marshal.v, Model/MessageOps.v. *)
From Coq Require Import Strings.String.
From Iso Require Import Model.Base Model.Padding Model.Encoding Model.Prefix Model.Bitmap Model.Spec Model.Field Model.Message Model.MessageOps Model.Marshal
     Proofs.BaseLemmas Proofs.CompositeLoops Proofs.CompositeProofs Proofs.IndependenceProofs Proofs.MarshalStruct Proofs.MarshalNested.
From Coq Require Import ZifyBool ZifyNat.
Set Default Timeout 120.

Section Ops.
  Variable subs : list (bytes * fspec).
  Hypothesis Hnd : NoDup (map fst subs).

  (* Composite.Marshal: the loop over the struct's fields *)
  Lemma mloop_inv imp : forall l set sts st', Inv subs set sts -> mloop imp subs l set sts = Ok st' ->
    exists set' sts', st' = SComp set' sts' /\ Inv subs set' sts'.
  Proof.
    induction l as [|r rest IH]; intros set sts st' Hinv H; cbn [mloop] in H.
    - inversion H; subst. exists set, sts. split; [reflexivity|exact Hinv].
    - destruct (rtag r) as [|c t]; [apply (IH _ _ _ Hinv H)|].
      destruct (blookup (c :: t) subs) as [s'|]; [|apply (IH _ _ _ Hinv H)]. destruct (blookup (c :: t) sts) as [x|]; [|apply (IH _ _ _ Hinv H)].
      destruct (g_is_zero (rval r) && negb (rkeep r)); [apply (IH _ _ _ Hinv H)|].
      destruct (imp s' x (rty r) (rval r)) as [x'| | |]; cbn [obind] in H; try discriminate.
      apply (IH _ _ _ (inv_success subs set sts (c :: t) x' Hinv) H).
  Qed.

  (* UnmarshalJSON: an accepted document *)
  Lemma jgo_inv pref len mode : forall kvs set sts set' sts', Inv subs set sts ->
    json_into (FComp pref len mode subs) (SComp set sts) (JO kvs) = (SComp set' sts', Ok tt) -> Inv subs set' sts'.
  Proof.
    cbn [json_into]. induction kvs as [|(tag, d) r IH]; intros set sts set' sts' Hinv H.
    - inversion H; subst. exact Hinv.
    - destruct (blookup tag subs) as [s'|].
      + destruct (blookup tag sts) as [x|].
        * destruct (json_into s' x d) as [x' [u|e|q|]]; try discriminate. apply (IH _ _ _ _ (inv_success subs set sts tag x' Hinv) H).
        * destruct (match mode with CTag t0 => skip_unknown t0 | CBitmap _ => false end); [apply (IH _ _ _ _ Hinv H)|discriminate].
      + destruct (match mode with CTag t0 => skip_unknown t0 | CBitmap _ => false end); [apply (IH _ _ _ _ Hinv H)|discriminate].
  Qed.
End Ops.

Lemma marshal_into_clean fuel pref len mode subs st t v st' : NoDup (map fst subs) ->
  clean (FComp pref len mode subs) st -> marshal_into fuel (FComp pref len mode subs) st t v = Ok st' -> clean (FComp pref len mode subs) st'.
Proof.
  intros Hnd Hc H. destruct fuel as [|f]; [discriminate|]. destruct st as [| | | |set sts]; try contradiction.
  destruct t as [| | | |t'| |]; try (cbn [marshal_into] in H; discriminate). destruct t' as [| | | | | |fields]; try (cbn [marshal_into] in H; discriminate).
  rewrite marshal_into_comp in H. destruct (mloop_inv subs _ _ _ _ _ Hc H) as (set' & sts' & -> & Hinv). exact Hinv.
Qed.

Lemma json_into_clean pref len mode subs st d st' : NoDup (map fst subs) ->
  clean (FComp pref len mode subs) st -> json_into (FComp pref len mode subs) st d = (st', Ok tt) -> clean (FComp pref len mode subs) st'.
Proof.
  intros Hnd Hc H. destruct st as [| | | |set sts]; try contradiction.
  destruct d as [v|z|kvs|b|]; try (cbn [json_into] in H; discriminate).
  assert (Hs : exists set' sts', st' = SComp set' sts').
  { clear Hc. cbn [json_into] in H. revert set sts H. induction kvs as [|(tag, d) r IH]; intros set sts H; [inversion H; eexists _, _; reflexivity|].
    destruct (blookup tag subs) as [s'|]; [destruct (blookup tag sts) as [x|]|].
    - destruct (json_into s' x d) as [x' [u|e|q|]]; try discriminate. apply (IH _ _ H).
    - destruct (match mode with CTag t0 => skip_unknown t0 | CBitmap _ => false end); [apply (IH _ _ H)|discriminate].
    - destruct (match mode with CTag t0 => skip_unknown t0 | CBitmap _ => false end); [apply (IH _ _ H)|discriminate]. }
  destruct Hs as (set' & sts' & ->). apply (jgo_inv subs pref len mode kvs set sts set' sts' Hc H).
Qed.

Lemma comp_unset_path_clean pref len mode subs st path : NoDup (map fst subs) ->
  clean (FComp pref len mode subs) st -> clean (FComp pref len mode subs) (fst (comp_unset_path (FComp pref len mode subs) st path)).
Proof.
  intros Hnd Hc. destruct st as [| | | |set sts]; try contradiction. destruct path as [|id rest]; [exact Hc|]. cbn [comp_unset_path].
  destruct (bmem id set) eqn:Em; [|exact Hc]. destruct Hc as (Hk & Hf).
  destruct rest as [|r0 rr].
  - destruct (blookup id subs) as [s'|] eqn:Es; cbn [fst]; [|split; assumption].
    split; [rewrite map_fst_bupdate; exact Hk|]. intros t s2 Hi Hm. destruct (bytes_eq_dec id t) as [->|Hne].
    + assert (Hx : exists w, blookup t sts = Some w) by (apply In_blookup; rewrite Hk; change t with (fst (t, s2)); apply in_map; exact Hi).
      rewrite blookup_bupdate_same by exact Hx. rewrite (In_blookup_nodup t s2 subs Hnd Hi) in Es. congruence.
    + rewrite blookup_bupdate_other by exact Hne. apply Hf; [exact Hi|]. rewrite (bmem_bremove id t set) in Hm.
      replace (bytes_eqb id t) with false in Hm by (symmetry; apply bytes_eqb_neq; exact Hne). exact Hm.
  - destruct (blookup id subs) as [[p|p l m ss]|]; cbn [fst]; try (split; assumption).
    + destruct (blookup id sts); cbn [fst]; split; assumption.
    + destruct (blookup id sts) as [x|]; cbn [fst]; [|split; assumption].
      destruct (comp_unset_path (FComp p l m ss) x (r0 :: rr)) as [x' o]. cbn [fst].
      split; [rewrite map_fst_bupdate; exact Hk|]. intros t s2 Hi Hm.
      assert (Hne : id <> t) by (intros ->; rewrite Em in Hm; discriminate). rewrite blookup_bupdate_other by exact Hne. apply Hf; assumption.
Qed.

Lemma comp_setbytes_clean pref len mode subs st d : NoDup (map fst subs) ->
  clean (FComp pref len mode subs) st -> clean (FComp pref len mode subs) (fst (comp_setbytes (FComp pref len mode subs) st d)).
Proof.
  intros Hnd Hc. destruct st as [| | | |set0 sts0]; try contradiction. pose proof Hc as (Hk & Hf).
  pose proof (reset_clean subs set0 sts0 Hnd Hk Hf) as R0.
  assert (Hinv0 : Inv subs [] (gof subs)).
  { split; [apply map_fst_gof|]. intros t s' Hi _. rewrite blookup_gof, (In_blookup_nodup t s' subs Hnd Hi). reflexivity. }
  cbn [comp_setbytes]. fold (gou subs). fold (gof subs). unfold comp_unpack_body. cbv zeta. rewrite R0.
  match goal with |- context [let (p, r) := ?X in _] =>
    assert (Hi : Inv subs (fst (fst X)) (snd (fst X)));
    [|destruct X as [[set' sts'] r]; cbn [fst snd] in Hi; cbn [fst]; exact Hi] end.
  destruct mode as [t|b].
  - destruct (tg_enc t) as [e|]; [apply by_tag_inv|apply positional_inv]; assumption.
  - destruct (bm_unpack b (bm_new b) d) as [bm [read|er|q|]]; cbn [fst snd]; try exact Hinv0.
    apply bits_inv'; assumption.
Qed.

(* ---------------- histories ---------------- *)
Inductive cop : Type :=
| CUnpack (d : bytes) | CSetBytes (d : bytes) | CMarshal (t : gty) (v : gval) | CFromJson (d : jdoc) | CUnsetPath (p : list bytes).

Definition cstep (s : fspec) (st : fstate) (op : cop) : fstate :=
  match op with
  | CUnpack d => fst (unpack_f s st d)
  | CSetBytes d => fst (comp_setbytes s st d)
  | CMarshal t v => match marshal_into 8 s st t v with Ok st' => st' | _ => st end     (* a failing Marshal returns before it stores anything *)
  | CFromJson d => fst (json_into s st d)
  | CUnsetPath p => fst (comp_unset_path s st p)
  end.

Fixpoint chist_ok (s : fspec) (st : fstate) (ops : list cop) : Prop :=
  match ops with
  | [] => True
  | op :: r => (match op with CFromJson d => snd (json_into s st d) = Ok tt | _ => True end) /\ chist_ok s (cstep s st op) r
  end.

Definition crun (s : fspec) (st : fstate) (ops : list cop) : fstate := fold_left (cstep s) ops st.

Lemma cstep_clean pref len mode subs st op : NoDup (map fst subs) -> clean (FComp pref len mode subs) st ->
  (match op with CFromJson d => snd (json_into (FComp pref len mode subs) st d) = Ok tt | _ => True end) ->
  clean (FComp pref len mode subs) (cstep (FComp pref len mode subs) st op).
Proof.
  intros Hnd Hc Hok. destruct op as [d|d|t v|d|p]; unfold cstep.
  - apply unpack_f_clean; assumption.
  - apply comp_setbytes_clean; assumption.
  - destruct (marshal_into 8 (FComp pref len mode subs) st t v) as [st'| | |] eqn:E; try exact Hc. apply (marshal_into_clean 8 pref len mode subs st t v st' Hnd Hc E).
  - destruct (json_into (FComp pref len mode subs) st d) as [st' o] eqn:E. cbn [fst snd] in *. subst o. apply (json_into_clean pref len mode subs st d st' Hnd Hc E).
  - apply comp_unset_path_clean; assumption.
Qed.

Theorem comp_history_clean pref len mode subs : NoDup (map fst subs) ->
  forall ops st, clean (FComp pref len mode subs) st -> chist_ok (FComp pref len mode subs) st ops -> clean (FComp pref len mode subs) (crun (FComp pref len mode subs) st ops).
Proof.
  intros Hnd. induction ops as [|op r IH]; intros st Hc Hok; [exact Hc|]. cbn [crun fold_left]. destruct Hok as (Ho & Hr).
  apply IH; [apply cstep_clean; assumption|exact Hr].
Qed.

Theorem comp_history_unpack_as_new pref len mode subs ops d : NoDup (map fst subs) ->
  let s := FComp pref len mode subs in
  chist_ok s (fresh s) ops ->
  let used := crun s (fresh s) ops in
  snd (unpack_f s used d) = snd (unpack_f s (fresh s) d) /\
  (u_is_ok (snd (unpack_f s used d)) = true -> fst (unpack_f s used d) = fst (unpack_f s (fresh s) d)).
Proof.
  intros Hnd s Hok used. apply unpack_f_independent; [exact Hnd| |apply (fresh_clean s); exact Hnd].
  apply comp_history_clean; [exact Hnd|apply (fresh_clean s); exact Hnd|exact Hok].
Qed.
