(* C09: tagged (TLV) composites decode the same whatever the order of their elements, skip exactly an unknown element,
   and name an undefined tag. About Model/Field.v. *)
From Iso Require Import Model.Base Model.Padding Model.Encoding Model.Prefix Model.Bitmap Model.Spec Model.Field
     Proofs.BaseLemmas Proofs.PaddingProofs Proofs.EncodingProofs Proofs.PrefixProofs Proofs.FieldProofs Proofs.CompositeProofs.
From Coq Require Import ZifyBool ZifyNat ZifyN Sorting.Permutation.
Set Default Timeout 120.

(* the elements of the set subfields, emitted in ANY arrangement `order` of their tags (pairwise distinct), behind the
   composite's length prefix, unpack - into any object of the specification - to the same content: so every ordering of
   the elements decodes to equivalent states *)
Theorem tlv_any_order pref len t e subs set sts order body pre st0 rest :
  let s := FComp pref len (CTag t) subs in
  coherent s -> tg_enc t = Some e -> in_dom s (SComp set sts) ->
  NoDup order -> (forall tag, bmem tag set = true <-> In tag order) ->
  pack_by_tag (gop subs) t order set sts = Ok body -> zlen body <= max_int ->
  enc_len pref len (zlen body) = Ok pre -> shaped s st0 ->
  exists st', unpack_f s st0 (pre ++ body ++ rest) = (st', UOk (zlen pre + zlen body)) /\ equiv s (SComp set sts) st'.
Proof.
  intros s Hcoh Ee Hdom Hndo Hord Ebody Hmax Epre Hsh.
  cbn [coherent] in Hcoh. destruct Hcoh as (Hwf & Hnd & Hmode & Hsubs). cbn [s] in Hmode. rewrite Ee in Hmode.
  pose proof (coherent_subs subs Hsubs) as Hcs.
  destruct st0 as [| | | |set0 sts0]; try (cbn [shaped] in Hsh; contradiction).
  set (rsts0 := reset_set (gof subs) set0 sts0).
  assert (Hshr : shaped s (SComp set0 rsts0)) by (apply reset_shaped; assumption).
  pose proof Hshr as Hsh0. cbn [shaped s] in Hsh0. rewrite shaped_subs in Hsh0.
  cbn [in_dom s] in Hdom. destruct Hdom as (Hsub & _ & _ & Hds).
  pose proof (in_dom_subs (fun s' x => in_dom s' x /\ (positional (CTag t) && pref_is_var pref = true -> forall b, pack_f s' x = Ok b -> b <> [])) set sts subs Hds) as Hds'.
  assert (Hgo : go_len (zlen body)) by (split; [apply zlen_nonneg|exact Hmax]).
  destruct (pref_roundtrip pref len (zlen body) pre Hwf Hgo Epre) as (_ & _ & Hdec).
  set (needne := positional (CTag t) && pref_is_var pref) in *.
  assert (IH : forall tag s', In (tag, s') subs -> roundtrips s') by (intros; apply field_roundtrip).
  assert (Hin_subs : forall tag, In tag order -> In tag (map fst subs)) by (intros tag Hi; apply Hsub; apply Hord; exact Hi).
  destruct (unpack_by_tag_rt (gop subs) (gou subs) (gof subs) t e (dom_of subs needne) (shp_of subs) (R_of subs) order set sts body Hndo) with
    (fuel := S (length body)) (data := body) (off := 0) (pre := @nil byte) (seta := @nil bytes) (stsa := rsts0) as (set' & sts' & Hun & H1 & H2 & H3).
  - intros tag Ht. split; [apply sub_rt_of; assumption|]. split; [apply Hmode; apply Hin_subs; exact Ht|].
    destruct (In_blookup tag subs (Hin_subs tag Ht)) as (s' & Es). rewrite blookup_gou, Es. eexists; reflexivity.
  - intros tag x Ht Hm Hx s' Es. apply (Hds' tag s' (blookup_In _ _ _ Es) Hm x Hx).
  - exact Ebody.
  - reflexivity.
  - reflexivity.
  - lia.
  - intros tag Ht. destruct (In_blookup tag subs (Hin_subs tag Ht)) as (s' & Es).
    destruct (Hsh0 tag s' (blookup_In _ _ _ Es)) as (x & Hx & Hs). exists x. split; [exact Hx|]. intros s2 E2. assert (s2 = s') by congruence. subst. exact Hs.
  - exists (SComp set' sts'). split.
    + unfold s. apply unpack_f_comp with (dlen := zlen body) (offset := zlen pre).
      * apply Hdec.
      * pose proof (zlen_nonneg body). pose proof (zlen_nonneg rest). zlens. lia.
      * rewrite zdrop_app, ztake_app. unfold comp_unpack_body. cbv zeta. fold rsts0. rewrite Ee. exact Hun.
    + cbn [equiv s]. split.
      * intros tag. rewrite H1. cbn [bmem existsb orb]. destruct (bmem tag set) eqn:Em; [|rewrite Bool.andb_false_r; reflexivity].
        rewrite Bool.andb_true_r. symmetry. apply bmem_In. apply Hord. exact Em.
      * apply equiv_subs. intros tag s' Hi Hm. destruct (H2 tag (proj1 (Hord tag) Hm) Hm) as (x & y & pk & Hx & Hy & _ & HR & _).
        exists x, y. repeat split; try assumption. apply HR. apply In_blookup_nodup; assumption.
Qed.

(* an unknown element is skipped exactly: its tag, its length prefix and as many value bytes as announced - the loop
   goes on right behind it with nothing changed *)
Theorem tlv_skip_exact unpackers freshes t e fuel data off set sts tagb tread flen lread :
  zlen data <=? off = false ->
  enc_decode e (zdrop off data) (tg_len t) = Ok (tagb, tread) ->
  blookup (unpad (tg_pad t) tagb) unpackers = None -> skip_unknown t = true ->
  dec_len (match tg_prefunk t with Some p => p | None => PBerTLV end) (match tg_prefunk t with Some _ => max_int | None => 0 end) (zdrop (off + tread) data) = Ok (flen, lread) ->
  (flen <? 0) || (zlen data - (off + tread) - lread <? flen) = false ->
  unpack_by_tag unpackers freshes (S fuel) t e data off set sts = unpack_by_tag unpackers freshes fuel t e data (off + tread + flen + lread) set sts.
Proof.
  intros H0 Hd Hl Hs Hp Hb. cbn [unpack_by_tag]. rewrite H0, Hd, Hl, Hs.
  destruct (tg_prefunk t) as [pu|]; rewrite Hp, Hb; reflexivity.
Qed.

(* ... and is an error naming the tag when skipping is off, or naming the tag when the announced value overruns *)
Theorem tlv_unknown_named unpackers freshes t e fuel data off set sts tagb tread :
  zlen data <=? off = false ->
  enc_decode e (zdrop off data) (tg_len t) = Ok (tagb, tread) ->
  blookup (unpad (tg_pad t) tagb) unpackers = None -> skip_unknown t = false ->
  exists err, unpack_by_tag unpackers freshes (S fuel) t e data off set sts = ((set, sts), UErr [unpad (tg_pad t) tagb] err).
Proof. intros H0 Hd Hl Hs. cbn [unpack_by_tag]. rewrite H0, Hd, Hl, Hs. eexists. reflexivity. Qed.

(* packing emits each set subfield exactly once: the elements are those of the set tags of the sorted tag list, which has
   no duplicates *)
Theorem tlv_pack_once pref len t subs : coherent (FComp pref len (CTag t) subs) ->
  NoDup (ordered_tags (CTag t) subs) /\ Permutation (map fst subs) (ordered_tags (CTag t) subs).
Proof. intros (_ & Hnd & _). split; [apply ordered_tags_nodup; exact Hnd|apply ordered_tags_perm]. Qed.
