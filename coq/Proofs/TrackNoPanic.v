(* C04 for track fields: Unpack and SetBytes of a Track1 / Track2 / Track3 field return a count or an error for every
   byte string. About Model/Track.v. *)
From Iso Require Import Model.Base Model.Padding Model.Encoding Model.Prefix Model.Spec Model.Field Model.Track
     Proofs.BaseLemmas Proofs.FieldProofs Proofs.NoPanicProofs.
Set Default Timeout 120.

Lemma t_parse_total k t raw : match snd (t_parse k t raw) with Ok _ | Err _ => True | _ => False end.
Proof.
  unfold t_parse. destruct (t_match k raw) as [m|]; [|exact I]. cbv zeta.
  match goal with |- context [if ?c then _ else _] => destruct c end; exact I.
Qed.

Theorem t_unpack_total k p t data : 0 <= ps_len p ->
  match snd (t_unpack k p t data) with Ok _ | Err _ => True | _ => False end.
Proof.
  intros HL. unfold t_unpack. pose proof (prim_unpack_raw_total p data HL) as H.
  destruct (prim_unpack_raw p data) as [[raw n]|e|q|]; try contradiction; try exact I.
  destruct raw as [|b r]; [exact I|]. pose proof (t_parse_total k t (b :: r)) as Hp.
  destruct (t_parse k t (b :: r)) as [t' [u|e|q|]]; cbn [snd] in *; try contradiction; exact I.
Qed.

Theorem t_setbytes_total k t raw : match snd (t_setbytes k t raw) with Ok _ | Err _ => True | _ => False end.
Proof.
  unfold t_setbytes. pose proof (t_parse_total k t raw) as Hp.
  destruct (t_parse k t raw) as [t' [u|e|q|]]; cbn [snd] in *; try contradiction; try exact I. destruct k; exact I.
Qed.
