(* C14: the populated set after UnmarshalJSON - of a message and of a composite field - is the set before plus exactly
   the keys of the accepted document (for composites: the keys that name a subfield; unknown keys are only accepted
   where the specification says they are skipped). About Model/MessageOps.v. *)
From Coq Require Import Strings.String.
From Iso Require Import Model.Base Model.Encoding Model.Spec Model.Field Model.Message Model.MessageOps
     Proofs.BaseLemmas Proofs.StateProofs Proofs.MessageRoundtrip Proofs.CompositeLoops Proofs.CompositeProofs Proofs.IndependenceProofs.
From Coq Require Import ZifyBool ZifyNat.
Set Default Timeout 120.

Lemma bytes_eqb_sym a b : bytes_eqb a b = bytes_eqb b a.
Proof.
  destruct (bytes_eqb a b) eqn:E1, (bytes_eqb b a) eqn:E2; try reflexivity.
  - apply bytes_eqb_eq in E1. subst b. rewrite bytes_eqb_refl in E2. discriminate.
  - apply bytes_eqb_eq in E2. subst b. rewrite bytes_eqb_refl in E1. discriminate.
Qed.

Definition key_is (id : Z) (kv : bytes * jdoc) : bool := match atoi (fst kv) with Some k => k =? id | None => false end.

Theorem from_json_present S : forall kvs m m', m_from_json S m kvs = (m', Ok tt) ->
  forall id, zmem id (m_present m') = zmem id (m_present m) || existsb (key_is id) kvs.
Proof.
  induction kvs as [|(k, d) r IH]; intros m m' H id; cbn [m_from_json] in H.
  - inversion H; subst. cbn. rewrite Bool.orb_false_r. reflexivity.
  - cbn [existsb]. unfold key_is at 1. cbn [fst]. destruct (atoi k) as [i|]; [|discriminate].
    assert (G : forall mm, m_present mm = zadd i (m_present m) -> m_from_json S mm r = (m', Ok tt) ->
                zmem id (m_present m') = zmem id (m_present m) || ((i =? id) || existsb (key_is id) r)).
    { intros mm Hp Hr. rewrite (IH mm m' Hr id), Hp, zmem_zadd. replace (id =? i) with (i =? id) by lia.
      destruct (i =? id), (zmem id (m_present m)), (existsb (key_is id) r); reflexivity. }
    destruct (i =? 0) eqn:E0.
    + apply Z.eqb_eq in E0. subst i. destruct (json_into (FPrim (ms_mti S)) (m_mti m) d) as [st [u|e|q|]]; try discriminate. refine (G _ _ H); reflexivity.
    + destruct (i =? 1) eqn:E1.
      * apply Z.eqb_eq in E1. subst i. destruct d as [v| | | |]; try discriminate. destruct (hex_decode v) as [b|]; [|discriminate]. refine (G _ _ H); reflexivity.
      * destruct (zlookup i (ms_fields S)) as [s|]; [|discriminate]. destruct (zlookup i (m_fields m)) as [st|]; [|discriminate].
        destruct (json_into s st d) as [st' [u|e|q|]]; try discriminate. refine (G _ _ H); reflexivity.
Qed.

(* composites: the set after an accepted document is the set before plus the keys that name a subfield *)
Definition names_sub (subs : list (bytes * fspec)) (t : bytes) (kv : bytes * jdoc) : bool :=
  bytes_eqb (fst kv) t && match blookup (fst kv) subs with Some _ => true | None => false end.

Theorem json_into_comp_present pref len mode subs : forall kvs set sts set' sts', map fst sts = map fst subs ->
  json_into (FComp pref len mode subs) (SComp set sts) (JO kvs) = (SComp set' sts', Ok tt) ->
  forall t, bmem t set' = bmem t set || existsb (names_sub subs t) kvs.
Proof.
  cbn [json_into]. induction kvs as [|(tag, d) r IH]; intros set sts set' sts' Hk H t.
  - inversion H; subst. cbn. rewrite Bool.orb_false_r. reflexivity.
  - cbn [existsb]. unfold names_sub at 1. cbn [fst].
    destruct (blookup tag subs) as [s'|] eqn:Es.
    + assert (Hin : In tag (map fst sts)) by (rewrite Hk; apply in_map_iff; exists (tag, s'); split; [reflexivity|apply blookup_In; exact Es]).
      destruct (In_blookup tag sts Hin) as (st' & Est). rewrite Est in H.
      destruct (json_into s' st' d) as [st'' [u|e|q|]]; try discriminate.
      rewrite (IH (badd tag set) (bupdate tag st'' sts) set' sts'); [|rewrite map_fst_bupdate; exact Hk|exact H].
      rewrite bmem_badd. rewrite (bytes_eqb_sym t tag). destruct (bytes_eqb tag t), (bmem t set); reflexivity.
    + rewrite Bool.andb_false_r. cbn [orb]. destruct (match mode with CTag t0 => skip_unknown t0 | CBitmap _ => false end); [|discriminate].
      apply (IH set sts set' sts' Hk H).
Qed.
