(* C03: the layout of packed composites and messages. About Model/Field.v and Model/Message.v. *)
From Iso Require Import Model.Base Model.Padding Model.Encoding Model.Prefix Model.Bitmap Model.Spec Model.Field Model.Message
     Proofs.BaseLemmas Proofs.PrefixProofs Proofs.FieldProofs Proofs.BitmapProofs Proofs.CompositeProofs Proofs.StateProofs Proofs.MessageRoundtrip.
From Coq Require Import ZifyBool ZifyNat ZifyN Sorting.Permutation Sorting.Sorted.
Set Default Timeout 120.

(* one element of a tagged / positional composite: the encoded tag (nothing when tags do not travel) and the packed
   subfield *)
Definition elem_of (packers : list (bytes * (fstate -> outcome bytes))) (t : tagspec) (sts : list (bytes * fstate)) (tag : bytes) (e : bytes) : Prop :=
  exists tb pb pk st, tag_wire t tag = Ok tb /\ blookup tag packers = Some pk /\ blookup tag sts = Some st /\ pk st = Ok pb /\ e = tb ++ pb.

(* the body is the concatenation, in the order given (the spec's sort order), of the elements of the subfields that
   are set - and of nothing else *)
Lemma pack_by_tag_layout packers t : forall order set sts body, pack_by_tag packers t order set sts = Ok body ->
  exists elems, Forall2 (elem_of packers t sts) (filter (fun tag => bmem tag set) order) elems /\ body = concat elems.
Proof.
  induction order as [|h order IH]; intros set sts body Hp; cbn [pack_by_tag] in Hp.
  - exists []. split; [constructor|]. cbn. congruence.
  - unfold sub_state in Hp. destruct (blookup h packers) as [pk|] eqn:Epk; [|discriminate]. destruct (blookup h sts) as [st|] eqn:Est; [|discriminate].
    cbn [filter]. destruct (bmem h set) eqn:Em.
    + destruct (tag_wire t h) as [tb| | |] eqn:Etb; cbn [obind] in Hp; try discriminate.
      destruct (pk st) as [pb| | |] eqn:Epb; cbn [obind] in Hp; try discriminate.
      destruct (pack_by_tag packers t order set sts) as [more| | |] eqn:Emore; cbn [obind] in Hp; try discriminate.
      destruct (IH set sts more Emore) as (elems & HF & Hc). exists ((tb ++ pb) :: elems). split.
      * constructor; [|exact HF]. exists tb, pb, pk, st. repeat split; assumption.
      * cbn [concat]. rewrite <- Hc, <- app_assoc. congruence.
    + apply IH. exact Hp.
Qed.

(* a tagged or positional composite packs to its length prefix - the prefixer's width and alphabet, announcing the
   number of bytes of the body - followed by the body *)
Theorem comp_layout pref len t subs set sts b : wf_pref pref -> pack_f (FComp pref len (CTag t) subs) (SComp set sts) = Ok b ->
  exists pre elems, b = pre ++ concat elems /\
    Forall2 (elem_of (gop subs) t sts) (filter (fun tag => bmem tag set) (ordered_tags (CTag t) subs)) elems /\
    enc_len pref len (zlen (concat elems)) = Ok pre /\
    (zlen (concat elems) <= max_int -> (pref <> PBerTLV -> zlen pre = pref_width pref) /\ pref_alphabet pref pre = true /\
       forall rest, dec_len pref len (pre ++ rest) = Ok (zlen (concat elems), zlen pre)).
Proof.
  intros Hwf Hp. rewrite pack_f_comp in Hp. cbn [comp_pack_body] in Hp.
  destruct (pack_by_tag (gop subs) t (ordered_tags (CTag t) subs) set sts) as [body| | |] eqn:Eb; cbn [obind] in Hp; try discriminate.
  destruct (enc_len pref len (zlen body)) as [pre| | |] eqn:Ep; cbn [obind] in Hp; try discriminate.
  destruct (pack_by_tag_layout _ _ _ _ _ _ Eb) as (elems & HF & Hc). subst body. exists pre, elems.
  split; [congruence|]. split; [exact HF|]. split; [exact Ep|]. intros Hmax.
  assert (Hg : go_len (zlen (concat elems))) by (split; [apply zlen_nonneg|exact Hmax]).
  destruct (pref_roundtrip pref len _ pre Hwf Hg Ep) as (H1 & H2 & H3). repeat split; assumption.
Qed.

(* the order of a composite's elements is the sorted permutation of the tags *)
Lemma ordered_tags_is_perm mode subs : Permutation (map fst subs) (ordered_tags mode subs).
Proof. apply ordered_tags_perm. Qed.

(* ---------------- messages ---------------- *)
(* the data elements of a message, in the order given *)
Lemma pack_ids_fields S m bm : forall l body, (forall id, In id l -> 2 <= id /\ bm_is_presence_bit (ms_bm S) id = false) ->
  pack_ids S m bm l = Ok body ->
  exists parts, Forall2 (fun id p => exists s st, zlookup id (ms_fields S) = Some s /\ zlookup id (m_fields m) = Some st /\ pack_f s st = Ok p) l parts /\
                body = concat parts.
Proof.
  induction l as [|i l IH]; intros body Hl Hp; cbn [pack_ids] in Hp.
  - exists []. split; [constructor|]. cbn. congruence.
  - destruct (Hl i (or_introl eq_refl)) as (H2 & Hpb). rewrite Hpb, Bool.andb_false_r in Hp.
    replace (i =? 0) with false in Hp by lia. replace (i =? 1) with false in Hp by lia.
    destruct (zlookup i (ms_fields S)) as [s|] eqn:Es; [|discriminate]. destruct (zlookup i (m_fields m)) as [st|] eqn:Est; [|discriminate].
    destruct (pack_f s st) as [pf| | |] eqn:Epf; cbn [obind] in Hp; try discriminate.
    destruct (pack_ids S m bm l) as [more| | |] eqn:Emore; cbn [obind] in Hp; try discriminate.
    destruct (IH more (fun id Hi => Hl id (or_intror Hi)) eq_refl) as (parts & HF & Hc). exists (pf :: parts). split.
    + constructor; [exists s, st; repeat split; assumption|exact HF].
    + cbn [concat]. rewrite <- Hc. congruence.
Qed.

(* the packed message is the MTI, then the bitmap - in which, outside the continuation positions, bit i is set iff data
   element i is populated - then the populated data elements in strictly ascending order, each as its field packs *)
Theorem message_layout S m m' b f : 1 <= bm_len (ms_bm S) -> (bm_enc (ms_bm S) = EncBinary \/ bm_enc (ms_bm S) = EncHex) -> bm_pref (ms_bm S) = PFixed f ->
  NoDup (m_present m) -> zmem 0 (m_present m) = true ->
  (forall id, zmem id (m_present m) = true -> id = 0 \/ id = 1 \/ (2 <= id /\ bm_is_presence_bit (ms_bm S) id = false)) ->
  m_pack S m = (m', Ok b) ->
  exists l mtib bmb parts,
    b = mtib ++ bmb ++ concat parts /\
    pack_f (FPrim (ms_mti S)) (m_mti m) = Ok mtib /\
    bm_pack (ms_bm S) (m_bm m') = Ok bmb /\
    StronglySorted Z.lt l /\ (forall id, In id l <-> (2 <= id /\ zmem id (m_present m) = true)) /\
    Forall2 (fun id p => exists s st, zlookup id (ms_fields S) = Some s /\ zlookup id (m_fields m) = Some st /\ pack_f s st = Ok p) l parts /\
    (forall i, 2 <= i -> bm_is_presence_bit (ms_bm S) i = false -> bm_isset (m_bm m') i = zmem i (m_present m)).
Proof.
  intros HB He Hpf Hnd H0 Hdom Hp.
  destruct (packed_bitmap_facts S m m' b f HB He Hpf Hp) as (Hagree & _ & _).
  unfold m_pack in Hp. destruct (m_bitmap_content S m) as (Hb1 & Hb2 & Hb3). set (mb := m_bitmap S m) in *.
  destruct (set_bits (ms_bm S) (packable_ids mb) (bm_new (ms_bm S))) as [bm [u|e|p|]] eqn:Es; try (inversion Hp; fail).
  destruct u. cbv zeta in Hp. injection Hp as Hm' Hpk. subst m'. cbn [with_bm m_bm] in Hagree.
  assert (Hndb : NoDup (m_present mb)) by (unfold mb, m_bitmap; destruct (m_bmcached m); [exact Hnd|cbn; apply NoDup_zadd; exact Hnd]).
  assert (H0b : zmem 0 (m_present mb) = true) by (rewrite Hb3 by lia; exact H0).
  assert (Hposb : forall id, zmem id (m_present mb) = true -> 0 <= id).
  { intros id Hm. destruct (Z.eq_dec id 1) as [->|Hne]; [lia|]. rewrite Hb3 in Hm by exact Hne. destruct (Hdom id Hm) as [->|[->|(H2 & _)]]; lia. }
  destruct (packable_ids_shape (m_present mb) Hndb H0b Hposb) as (l & Hids & Hsorted & Hl).
  unfold packable_ids in *. rewrite Hids in *. rewrite pack_ids_01 in Hpk.
  destruct (pack_f (FPrim (ms_mti S)) (m_mti (with_bm mb bm))) as [mtib| | |] eqn:Emti; cbn [obind] in Hpk; try discriminate.
  destruct (bm_pack (ms_bm S) bm) as [bmb| | |] eqn:Ebm; cbn [obind] in Hpk; try discriminate.
  destruct (pack_ids S (with_bm mb bm) bm l) as [body| | |] eqn:Ebody; cbn [obind] in Hpk; try discriminate.
  assert (Hl' : forall id, In id l <-> 2 <= id /\ zmem id (m_present m) = true).
  { intros id. rewrite Hl. split; intros (H2 & Hm); (split; [exact H2|]); [rewrite <- Hb3 by lia|rewrite Hb3 by lia]; exact Hm. }
  destruct (pack_ids_fields S (with_bm mb bm) bm l body) as (parts & HF & Hc).
  { intros id Hi. apply Hl' in Hi. destruct Hi as (H2 & Hm). split; [exact H2|]. destruct (Hdom id Hm) as [->|[->|(_ & Hpb)]]; [lia|lia|exact Hpb]. }
  { exact Ebody. }
  exists l, mtib, bmb, parts. cbn [with_bm m_bm m_mti m_fields] in *. rewrite Hb1 in Emti. rewrite Hb2 in HF.
  split; [subst body; congruence|]. split; [exact Emti|]. split; [exact Ebm|]. split; [exact Hsorted|]. split; [exact Hl'|]. split; [exact HF|exact Hagree].
Qed.

(* the bitmap of a packed message consists of k >= 1 blocks, and the first bit of a block is set iff another block
   follows *)
Theorem message_bitmap_blocks S m m' b : bm_auto (ms_bm S) = true -> 1 <= bm_len (ms_bm S) -> m_pack S m = (m', Ok b) ->
  exists k, 1 <= k /\ zlen (m_bm m') = k * bm_len (ms_bm S) /\
            forall j, 0 <= j < k -> bm_isset (m_bm m') (j * (bm_len (ms_bm S) * 8) + 1) = (j <? k - 1).
Proof.
  intros Ha HB Hp. unfold m_pack in Hp.
  destruct (set_bits (ms_bm S) (packable_ids (m_bitmap S m)) (bm_new (ms_bm S))) as [bm [u|e|p|]] eqn:Es; try (inversion Hp; fail).
  destruct u. cbv zeta in Hp. injection Hp as Hm' _. subst m'. cbn [with_bm m_bm].
  destruct (set_bits_inv (ms_bm S) Ha HB _ _ _ _ _ (bits_inv_new (ms_bm S) HB) Es) as (k & Hk & Hlen & Hbits).
  exists k. split; [exact Hk|]. split; [exact Hlen|]. intros j Hj. rewrite Hbits, app_nil_r.
  set (n := j * (bm_len (ms_bm S) * 8) + 1).
  assert (Hn3 : (n - 1) / (bm_len (ms_bm S) * 8) = j) by (unfold n; replace (j * (bm_len (ms_bm S) * 8) + 1 - 1) with (j * (bm_len (ms_bm S) * 8)) by lia; apply Z.div_mul; lia).
  assert (Hn4 : (n - 1) mod (bm_len (ms_bm S) * 8) = 0) by (unfold n; replace (j * (bm_len (ms_bm S) * 8) + 1 - 1) with (j * (bm_len (ms_bm S) * 8)) by lia; apply Z.mod_mul; lia).
  assert (Hz : zmem n (filter (fun id => negb ((id <? 2) || bm_is_presence_bit (ms_bm S) id)) (packable_ids (m_bitmap S m))) = false).
  { destruct (zmem n _) eqn:E; [|reflexivity]. apply zmem_In in E. apply filter_In in E. destruct E as (_ & E).
    apply Bool.negb_true_iff, Bool.orb_false_iff in E. destruct E as (E1 & E2). exfalso.
    unfold bm_is_presence_bit in E2. rewrite Ha in E2. cbn [negb] in E2.
    assert (Hj0 : j <> 0) by (intros ->; unfold n in E1; lia).
    replace (n <=? 0) with false in E2 by (unfold n; nia).
    assert (n mod (bm_len (ms_bm S) * 8) = 1); [|lia]. unfold n. rewrite Z.add_comm, Z.mod_add by lia. apply Z.mod_small. lia. }
  rewrite Hz. cbn [orb]. unfold conts, is_cont. rewrite Hn3, Hn4. replace (1 <=? n) with true by (unfold n; nia). cbn [andb Z.eqb].
  replace (1 - 1 <=? j) with true by lia. cbn [andb]. reflexivity.
Qed.

(* a composite with a (fixed) bitmap of subfields packs to its length prefix, the bitmap - in which bit n is set iff the
   subfield with the decimal id n is set - and the packed set subfields in the order of the ids *)
Theorem comp_bitmap_layout pref len b subs set sts bytes0 : wf_pref pref -> bm_auto b = false ->
  (forall tag, In tag (map fst subs) -> canon tag) ->
  pack_f (FComp pref len (CBitmap b) subs) (SComp set sts) = Ok bytes0 ->
  exists pre bmf pbm fields,
    bytes0 = pre ++ pbm ++ fields /\ bm_pack b bmf = Ok pbm /\ zlen bmf = zlen (bm_new b) /\
    (forall m, bm_isset bmf m = existsb (fun tag => bmem tag set && (num_of tag =? m)) (ordered_tags (CBitmap b) subs)) /\
    pack_sel (gop subs) sts (filter (fun tag => bmem tag set) (ordered_tags (CBitmap b) subs)) = Ok fields /\
    enc_len pref len (zlen (pbm ++ fields)) = Ok pre.
Proof.
  intros Hwf Hauto Hcanon Hp. rewrite pack_f_comp in Hp. cbn [comp_pack_body] in Hp.
  destruct (pack_by_bitmap (gop subs) b (ordered_tags (CBitmap b) subs) set sts (bm_new b)) as [[bmf fields]| | |] eqn:Epb; cbn [obind] in Hp; try discriminate.
  destruct (bm_pack b bmf) as [pbm| | |] eqn:Epbm; cbn [obind] in Hp; try discriminate.
  destruct (enc_len pref len (zlen (pbm ++ fields))) as [pre| | |] eqn:Epre; cbn [obind] in Hp; try discriminate.
  assert (Hcan : forall tag, In tag (ordered_tags (CBitmap b) subs) -> canon tag) by (intros tag Ht; apply Hcanon; apply (proj1 (ordered_tags_In (CBitmap b) subs tag) Ht)).
  destruct (pack_by_bitmap_spec (gop subs) b Hauto _ set sts (bm_new b) bmf fields Hcan Epb) as (Hlen & Hbits & Hsel & _).
  exists pre, bmf, pbm, fields. split; [congruence|]. split; [exact Epbm|]. split; [exact Hlen|]. split.
  - intros m. rewrite Hbits. unfold bm_new. rewrite StateProofs.isset_zeros. reflexivity.
  - split; [exact Hsel|exact Epre].
Qed.
