(* Message level: error attribution (C19). About Model/Message.v. *)
From Iso Require Import Model.Base Model.Padding Model.Encoding Model.Prefix Model.Bitmap Model.Spec Model.Field Model.Message Proofs.BaseLemmas.

(* every failure of the field loop is attributed to the field at which decoding stopped *)
Lemma unpack_fields_path fuel S bm : forall i src off present fields st path e,
  unpack_fields fuel S bm i src off present fields = (st, UErr path e) ->
  exists k rest, path = itoa k :: rest /\ i <= k /\ bm_isset bm k = true.
Proof.
  induction fuel as [|f IH]; intros i src off present fields st path e H; cbn [unpack_fields] in H; [discriminate|].
  destruct (bm_is_presence_bit (ms_bm S) i).
  - destruct (IH _ _ _ _ _ _ _ _ H) as (k & rest & Hp & Hk & Hs). exists k, rest. repeat split; try assumption; lia.
  - destruct (bm_isset bm i) eqn:Es.
    + destruct (zlookup i (ms_fields S)) as [s|]; [destruct (zlookup i fields) as [fs|]|].
      * destruct (unpack_f s fs (zdrop off src)) as [st' [read|p e'|q|]].
        -- destruct (IH _ _ _ _ _ _ _ _ H) as (k & rest & Hp & Hk & Hs). exists k, rest. repeat split; try assumption; lia.
        -- inversion H; subst. exists i, p. repeat split; try assumption; lia.
        -- discriminate.
        -- discriminate.
      * inversion H; subst. exists i, []. repeat split; try assumption; lia.
      * inversion H; subst. exists i, []. repeat split; try assumption; lia.
    + destruct (IH _ _ _ _ _ _ _ _ H) as (k & rest & Hp & Hk & Hs). exists k, rest. repeat split; try assumption; lia.
Qed.

(* Unpack failures carry a non-empty field-id path: MTI = 0, bitmap = 1, otherwise a data element announced
   by the bitmap *)
Theorem m_unpack_error_path S m src m' path e : m_unpack S m src = (m', UErr path e) ->
  exists k rest, path = itoa k :: rest /\ 0 <= k.
Proof.
  unfold m_unpack. intros H.
  destruct (unpack_f (FPrim (ms_mti S)) _ src) as [mti' [read|p e'|q|]]; try discriminate.
  - destruct (bm_unpack (ms_bm S) _ (zdrop read src)) as [bm [r2|e2|q|]]; try discriminate.
    + destruct (unpack_fields _ S bm 2 src (read + r2) _ _) as [[p fl] r] eqn:Eu.
      destruct r as [x|pth e3|q|]; try discriminate.
      destruct (unpack_fields_path _ _ _ _ _ _ _ _ _ _ _ Eu) as (k & rest & Hp & Hk & _).
      inversion H; subst. exists k, rest. split; [reflexivity|lia].
    + inversion H; subst. exists 1, []. split; [reflexivity|lia].
  - inversion H; subst. exists 0, p. split; [reflexivity|lia].
Qed.
