(* C14: unsetting a subfield path discards the subfield and everything nested below it, and touches nothing else.
   About Model/MessageOps.v (comp_unset_path, the model of Composite.UnsetSubfields for one path). *)
From Iso Require Import Model.Base Model.Spec Model.Field Model.Message Model.MessageOps
     Proofs.BaseLemmas Proofs.CompositeLoops Proofs.CompositeProofs.
From Coq Require Import ZifyBool ZifyNat.
Set Default Timeout 120.

(* is the subfield at this path populated (every step of the path is in the set of its parent)? *)
Fixpoint set_at (st : fstate) (path : list bytes) : bool :=
  match path with
  | [] => true
  | id :: rest =>
      match st with
      | SComp set sts => bmem id set && match blookup id sts with Some st' => set_at st' rest | None => match rest with [] => true | _ => false end end
      | _ => false
      end
  end.

(* the state held at a path (set or not) *)
Fixpoint state_at (st : fstate) (path : list bytes) : option fstate :=
  match path with
  | [] => Some st
  | id :: rest => match st with SComp _ sts => match blookup id sts with Some st' => state_at st' rest | None => None end | _ => None end
  end.
Fixpoint spec_at (s : fspec) (path : list bytes) : option fspec :=
  match path with
  | [] => Some s
  | id :: rest => match s with FComp _ _ _ subs => match blookup id subs with Some s' => spec_at s' rest | None => None end | _ => None end
  end.

Fixpoint is_prefix (p q : list bytes) : bool :=
  match p, q with
  | [], _ => true
  | a :: p', b :: q' => bytes_eqb a b && is_prefix p' q'
  | _ :: _, [] => false
  end.

Lemma bmem_bremove' k k' l : bmem k' (bremove k l) = negb (bytes_eqb k k') && bmem k' l.
Proof.
  unfold bremove. induction l as [|x r IH]; [rewrite Bool.andb_false_r; reflexivity|]. cbn [filter].
  destruct (bytes_eqb k x) eqn:E; cbn [negb].
  - apply bytes_eqb_eq in E. subst x. rewrite IH. cbn [bmem existsb]. destruct (bytes_eqb k' k) eqn:E2.
    + apply bytes_eqb_eq in E2. subst k'. rewrite bytes_eqb_refl. reflexivity.
    + reflexivity.
  - cbn [bmem existsb]. fold (bmem k' (filter (fun x0 => negb (bytes_eqb k x0)) r)). fold (bmem k' r). rewrite IH.
    destruct (bytes_eqb k' x) eqn:E2; [apply bytes_eqb_eq in E2; subst x; rewrite E; reflexivity|]. reflexivity.
Qed.

(* after UnsetSubfields(path) nothing at the path is populated any more *)
Theorem unset_path_discards : forall path s st st', path <> [] -> comp_unset_path s st path = (st', Ok tt) -> set_at st' path = false.
Proof.
  induction path as [|id rest IH]; intros s st st' Hne H; [contradiction|]. cbn [comp_unset_path] in H.
  destruct s as [p|pref len mode subs]; [discriminate|]. destruct st as [v|v|v|v|set sts]; try discriminate.
  destruct (bmem id set) eqn:Em.
  - destruct rest as [|id2 rest2].
    + destruct (blookup id subs) as [s'|]; [|discriminate]. inversion H; subst. cbn [set_at]. rewrite bmem_bremove', bytes_eqb_refl. reflexivity.
    + destruct (blookup id subs) as [[p'|p' l' m' ss]|] eqn:Es; destruct (blookup id sts) as [st1|] eqn:Est; try discriminate.
      destruct (comp_unset_path (FComp p' l' m' ss) st1 (id2 :: rest2)) as [st2 o] eqn:Er. inversion H; subst.
      cbn [set_at]. rewrite Em, blookup_bupdate_same by (eexists; exact Est). cbn [andb].
      apply (IH (FComp p' l' m' ss) st1 st2 ltac:(discriminate) Er).
  - inversion H; subst. cbn [set_at]. rewrite Em. reflexivity.
Qed.

(* ... and the object at the path is as new *)
Theorem unset_path_fresh : forall path s st st' sp, path <> [] -> comp_unset_path s st path = (st', Ok tt) -> set_at st path = true ->
  spec_at s path = Some sp -> state_at st path <> None -> state_at st' path = Some (fresh sp).
Proof.
  induction path as [|id rest IH]; intros s st st' sp Hne H Hset Hsp Hst; [contradiction|]. cbn [comp_unset_path] in H.
  destruct s as [p|pref len mode subs]; [discriminate|]. destruct st as [v|v|v|v|set sts]; try discriminate.
  cbn [set_at] in Hset. apply Bool.andb_true_iff in Hset. destruct Hset as (Em & Hsub). rewrite Em in H. cbn [spec_at] in Hsp. cbn [state_at] in Hst.
  destruct (blookup id subs) as [s'|] eqn:Es; [|discriminate]. destruct (blookup id sts) as [st1|] eqn:Est; [|contradiction].
  destruct rest as [|id2 rest2].
  - cbn [spec_at] in Hsp. inversion Hsp; subst s'. inversion H; subst. cbn [state_at]. rewrite blookup_bupdate_same by (eexists; exact Est). reflexivity.
  - destruct s' as [p'|p' l' m' ss]; [discriminate|].
    destruct (comp_unset_path (FComp p' l' m' ss) st1 (id2 :: rest2)) as [st2 o] eqn:Er. inversion H; subst.
    cbn [state_at]. rewrite blookup_bupdate_same by (eexists; exact Est).
    apply (IH (FComp p' l' m' ss) st1 st2 sp ltac:(discriminate) Er Hsub Hsp Hst).
Qed.

(* ... and nothing outside the path changes: every path that does not pass through it is populated exactly as before *)
Theorem unset_path_frame : forall path s st st' o, comp_unset_path s st path = (st', o) ->
  forall q, is_prefix path q = false -> set_at st' q = set_at st q.
Proof.
  induction path as [|id rest IH]; intros s st st' o H q Hq; [discriminate|]. cbn [comp_unset_path] in H.
  destruct s as [p|pref len mode subs]; [inversion H; reflexivity|]. destruct st as [v|v|v|v|set sts]; try (inversion H; reflexivity).
  destruct (bmem id set) eqn:Em; [|inversion H; reflexivity].
  destruct q as [|id' q']; [reflexivity|]. cbn [is_prefix] in Hq.
  destruct rest as [|id2 rest2].
  - destruct (blookup id subs) as [s'|]; [|inversion H; reflexivity]. inversion H; subst. cbn [set_at].
    destruct (bytes_eqb id id') eqn:E; [cbn [andb is_prefix] in Hq; discriminate|].
    rewrite bmem_bremove', E. cbn [negb andb]. rewrite blookup_bupdate_other by (intros ->; rewrite bytes_eqb_refl in E; discriminate). reflexivity.
  - destruct (blookup id subs) as [[p'|p' l' m' ss]|] eqn:Es; destruct (blookup id sts) as [st1|] eqn:Est; try (inversion H; reflexivity).
    destruct (comp_unset_path (FComp p' l' m' ss) st1 (id2 :: rest2)) as [st2 o2] eqn:Er. inversion H; subst. cbn [set_at].
    destruct (bytes_eqb id id') eqn:E.
    + apply bytes_eqb_eq in E. subst id'. cbn [andb] in Hq. rewrite blookup_bupdate_same by (eexists; exact Est). rewrite Est.
      rewrite (IH (FComp p' l' m' ss) st1 st2 _ Er q' Hq). reflexivity.
    + rewrite blookup_bupdate_other by (intros ->; rewrite bytes_eqb_refl in E; discriminate). reflexivity.
Qed.

(* a new object has nothing populated below it: whatever is written next to or into the unset position later finds no
   stale subfield there *)
Lemma fresh_nothing_set s q : q <> [] -> set_at (fresh s) q = false.
Proof. destruct q as [|id r]; [contradiction|]. intros _. destruct s as [p|pref len mode subs]; cbn [fresh set_at]; [destruct (ps_kind p); reflexivity|reflexivity]. Qed.
