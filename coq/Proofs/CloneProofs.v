(* C15: a clone holds what the original holds and packs to the same bytes. About Model/MessageOps.v (m_clone). *)
From Iso Require Import Model.Base Model.Padding Model.Encoding Model.Prefix Model.Bitmap Model.Spec Model.Field Model.Message Model.Json Model.MessageOps
     Proofs.BaseLemmas Proofs.FieldProofs Proofs.CompositeProofs Proofs.StateProofs Proofs.MessageRoundtrip.
From Coq Require Import ZifyBool ZifyNat ZifyN.
Set Default Timeout 120.

Lemma mfresh_shaped S v : (forall id s, zlookup id (ms_fields S) = Some s -> coherent s) -> msg_shaped S (m_set_mti S (mfresh S) v).
Proof.
  intros Hc id s Hs. unfold m_set_mti. destruct (setbytes_f (FPrim (ms_mti S)) (m_mti (with_present (mfresh S) (zadd 0 (m_present (mfresh S))))) v) as [st r].
  cbn [with_mti with_present m_fields mfresh].
  exists (fresh s). split; [|apply fresh_shaped; eapply Hc; exact Hs].
  clear Hc. revert Hs. generalize (ms_fields S). intros l. induction l as [|(k, s1) r0 IH]; [discriminate|]. cbn [map zlookup]. destruct (id =? k); [congruence|exact IH].
Qed.

(* Clone of an in-domain message over a coherent specification succeeds; the clone was obtained by unpacking the
   original's bytes into a new object, holds the same MTI, bitmap, populated set and content, and packs to the very
   same bytes *)
Theorem clone_equiv S m m' b : msg_coherent S -> msg_in_dom S m -> m_pack S m = (m', Ok b) ->
  exists c1 c2, m_clone S m = (m', Ok c2) /\ c2 = fst (m_pack S c1) /\ msg_equiv S m' c1 /\ snd (m_pack S c1) = Ok b.
Proof.
  intros Hcoh Hdom Hp. pose proof Hcoh as (_ & _ & _ & _ & Hcs).
  set (c0 := m_set_mti S (mfresh S) (match m_mti m' with SString v => v | SNumeric z => itoa z | _ => [] end)).
  assert (Hsh : msg_shaped S c0) by (apply mfresh_shaped; exact Hcs).
  destruct (message_roundtrip S m m' b Hcoh Hdom Hp c0 [] Hsh) as (c1 & Hun & Heq).
  pose proof (message_repack S m m' b Hcoh Hdom Hp c0 [] Hsh) as Hre. rewrite app_nil_r in Hun, Hre. rewrite Hun in Hre. cbn [fst] in Hre.
  exists c1, (fst (m_pack S c1)). unfold m_clone. rewrite Hp. fold c0. rewrite Hun.
  destruct (m_pack S c1) as [c2 r] eqn:Ec. cbn [fst snd] in *. subst r. split; [reflexivity|split; [reflexivity|split; [exact Heq|reflexivity]]].
Qed.
