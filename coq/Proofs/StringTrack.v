(* C18: the track filters on String fields that carry track data. A String field holding the rendering of a track is
   shown exactly as the track field holding that track is: the masking theorems of the three track kinds carry over.
   About Model/Track.v. *)
From Iso Require Import Model.Base Model.Padding Model.Encoding Model.Prefix Model.Spec Model.Field Model.Describe Model.Track.
Set Default Timeout 120.

Theorem string_track_filter k p inp t : s_track_filter k p inp (t_render k t) = t_filter k p inp t.
Proof. reflexivity. Qed.

(* every output: the rendering of a track with a filtered PAN, or the PAN filter applied to the whole text *)
Theorem string_track_filter_total k p inp v :
  (exists tr, s_track_filter k p inp v = t_render k {| tk_fixed := tk_fixed tr; tk_fc := tk_fc tr; tk_pan := pan_filter (tk_pan tr); tk_sep := tk_sep tr;
                                                      tk_name := tk_name tr; tk_exp := tk_exp tr; tk_svc := tk_svc tr; tk_dd := tk_dd tr |})
  \/ s_track_filter k p inp v = pan_filter inp.
Proof.
  unfold s_track_filter. destruct (prim_pack p (SString v)) as [raw|e|q|]; try (left; exists t_empty; reflexivity).
  destruct (t_unpack k p t_empty raw) as [tr [n|e|q|]]; try (right; reflexivity). left. exists tr. reflexivity.
Qed.
