(* Positional numerals: the generic digit generator of Model/Base.v and its inverses
   (strconv.Itoa/Atoi, %0*d, FormatInt/ParseUint base 16, big-endian bytes). *)
From Iso Require Import Model.Base Proofs.BaseLemmas.
From Coq Require Import ZifyBool ZifyNat ZifyN.
Ltac Zify.zify_post_hook ::= Z.div_mod_to_equations.

Fixpoint gen_value (B : Z) (g : byte -> option Z) (l : bytes) (acc : Z) : option Z :=
  match l with
  | [] => Some acc
  | b :: r => match g b with Some d => gen_value B g r (acc * B + d) | None => None end
  end.

Lemma gen_value_app B g l1 l2 acc :
  gen_value B g (l1 ++ l2) acc = match gen_value B g l1 acc with Some a => gen_value B g l2 a | None => None end.
Proof.
  revert acc. induction l1 as [|b r IH]; intros acc; cbn [app gen_value]; [reflexivity|].
  destruct (g b); [apply IH | reflexivity].
Qed.

Lemma gen_value_repeat0 B g z k acc : g z = Some 0 -> gen_value B g (repeat z k) acc = Some (acc * B ^ Z.of_nat k).
Proof.
  intros Hz. revert acc. induction k as [|k IH]; intros acc.
  - cbn. f_equal; lia.
  - cbn [repeat gen_value]. rewrite Hz, IH. f_equal. rewrite Nat2Z.inj_succ, Z.pow_succ_r by lia. lia.
Qed.

Lemma gen_digits_spec B f g : 1 < B -> (forall d, 0 <= d < B -> g (f d) = Some d) ->
  forall fuel n acc, (0 < fuel)%nat -> 0 <= n < B ^ Z.of_nat fuel ->
  exists ds, gen_digits B f fuel n acc = ds ++ acc /\ (0 < length ds <= fuel)%nat /\
             (forall a, gen_value B g ds a = Some (a * B ^ Z.of_nat (length ds) + n)) /\
             n < B ^ Z.of_nat (length ds) /\ (0 < n -> B ^ Z.of_nat (length ds - 1) <= n).
Proof.
  intros HB Hg. induction fuel as [|k IH]; intros n acc Hf Hn.
  - lia.
  - cbn [gen_digits].
    assert (Hm : 0 <= n mod B < B) by (apply Z.mod_pos_bound; lia).
    assert (Hd := Z.div_mod n B ltac:(lia)).
    destruct (n / B =? 0) eqn:E.
    + exists [f (n mod B)]. split; [reflexivity|]. split; [cbn; lia|].
      assert (n = n mod B) by lia.
      split; [|split].
      * intros a. cbn [gen_value length]. rewrite Hg by lia. f_equal. cbn. lia.
      * cbn. lia.
      * cbn. lia.
    + assert (Hq : 0 < n / B) by (assert (0 <= n / B) by (apply Z.div_pos; lia); lia).
      assert (Hqb : n / B < B ^ Z.of_nat k).
      { rewrite Nat2Z.inj_succ, Z.pow_succ_r in Hn by lia. apply Z.div_lt_upper_bound; lia. }
      assert (Hk : (0 < k)%nat).
      { destruct k; [|lia]. cbn in Hqb. lia. }
      destruct (IH (n / B) (f (n mod B) :: acc) Hk ltac:(lia)) as (ds & Heq & Hlen & Hv & Hub & Hlb).
      exists (ds ++ [f (n mod B)]). split; [rewrite Heq, <- app_assoc; reflexivity|].
      rewrite app_length. cbn [length]. split; [lia|].
      replace (Z.of_nat (length ds + 1)) with (Z.succ (Z.of_nat (length ds))) by lia.
      rewrite Z.pow_succ_r by lia.
      split; [|split].
      * intros a. rewrite gen_value_app, Hv. cbn [gen_value]. rewrite Hg by lia. f_equal. lia.
      * assert (B * (n / B + 1) <= B * B ^ Z.of_nat (length ds)) by (apply Z.mul_le_mono_nonneg_l; lia). lia.
      * intros _. replace (length ds + 1 - 1)%nat with (S (length ds - 1)) by lia.
        rewrite Nat2Z.inj_succ, Z.pow_succ_r by lia. specialize (Hlb Hq).
        assert (B * B ^ Z.of_nat (length ds - 1) <= B * (n / B)) by (apply Z.mul_le_mono_nonneg_l; lia). lia.
Qed.

(* number of digits: the generated string has at most d digits iff n < B^d *)
Lemma gen_digits_len_iff B f g : 1 < B -> (forall d, 0 <= d < B -> g (f d) = Some d) ->
  forall fuel n (d : nat), (0 < fuel)%nat -> 0 <= n < B ^ Z.of_nat fuel -> (0 < d)%nat ->
  ((length (gen_digits B f fuel n []) <= d)%nat <-> n < B ^ Z.of_nat d).
Proof.
  intros HB Hg fuel n d Hf Hn Hd.
  destruct (gen_digits_spec B f g HB Hg fuel n [] Hf Hn) as (ds & Heq & Hlen & _ & Hub & Hlb).
  rewrite app_nil_r in Heq. rewrite Heq. split; intros H.
  - eapply Z.lt_le_trans; [exact Hub|]. apply Z.pow_le_mono_r; lia.
  - destruct (Nat.le_gt_cases (length ds) d) as [L|L]; [exact L|exfalso].
    assert (0 < n) as Hpos.
    { destruct (Z.eq_dec n 0) as [->|]; [|lia]. exfalso.
      (* n = 0 has exactly one digit *)
      destruct fuel; [cbn in Hn; lia|]. cbn [gen_digits] in Heq. rewrite Z.div_0_l in Heq by lia. cbn in Heq. subst ds. cbn in L. lia. }
    specialize (Hlb Hpos).
    assert (B ^ Z.of_nat d <= B ^ Z.of_nat (length ds - 1)) by (apply Z.pow_le_mono_r; lia). lia.
Qed.

(* ---------------- decimal ---------------- *)
Definition dec_val (b : byte) : option Z := let d := bz b - 48 in if (0 <=? d) && (d <=? 9) then Some d else None.

Lemma undigits_gen l acc : undigits l acc = gen_value 10 dec_val l acc.
Proof.
  revert acc. induction l as [|b r IH]; intros acc; cbn [undigits gen_value]; [reflexivity|].
  unfold dec_val. destruct ((0 <=? bz b - 48) && (bz b - 48 <=? 9)); [apply IH|reflexivity].
Qed.

Lemma dec_val_digit d : 0 <= d < 10 -> dec_val (dec_digit d) = Some d.
Proof. intros H. unfold dec_val, dec_digit. rewrite bz_zb by lia. replace ((0 <=? 48 + d - 48) && (48 + d - 48 <=? 9)) with true by lia. f_equal; lia. Qed.

Lemma undigits_all_digits l : forall a z, undigits l a = Some z -> forallb is_digit l = true.
Proof.
  induction l as [|b r IH]; intros a z H; [reflexivity|]. cbn [undigits] in H. cbn [forallb].
  destruct ((0 <=? bz b - 48) && (bz b - 48 <=? 9)) eqn:D; [|discriminate].
  rewrite (IH _ _ H). unfold is_digit. lia.
Qed.

Definition ten40 : Z := 10 ^ 40.

Lemma itoa_nonneg n : 0 <= n < ten40 ->
  exists k, (0 < k <= 40)%nat /\ length (itoa n) = k /\
            (forall a, undigits (itoa n) a = Some (a * 10 ^ Z.of_nat k + n)) /\ n < 10 ^ Z.of_nat k /\
            (0 < n -> 10 ^ Z.of_nat (k - 1) <= n).
Proof.
  intros Hn. unfold itoa. replace (n <? 0) with false by lia. unfold digits_fuel, itoa_fuel.
  destruct (gen_digits_spec 10 dec_digit dec_val ltac:(lia) dec_val_digit 40%nat n [] ltac:(lia) Hn) as (ds & Heq & Hlen & Hv & Hub & Hlb).
  rewrite app_nil_r in Heq. rewrite Heq. exists (length ds). repeat split; try lia; try assumption.
  intros a. rewrite undigits_gen. apply Hv.
Qed.

Lemma itoa_len_iff n (d : nat) : 0 <= n < ten40 -> (0 < d)%nat -> ((length (itoa n) <= d)%nat <-> n < 10 ^ Z.of_nat d).
Proof.
  intros Hn Hd. unfold itoa. replace (n <? 0) with false by lia.
  apply (gen_digits_len_iff 10 dec_digit dec_val ltac:(lia) dec_val_digit 40%nat n d ltac:(lia) Hn Hd).
Qed.

Lemma itoa_first_not_sign n : 0 <= n < ten40 ->
  exists b r, itoa n = b :: r /\ Byte.eqb b x2b = false /\ Byte.eqb b x2d = false.
Proof.
  intros Hn. destruct (itoa_nonneg n Hn) as (k & Hk & Hlen & Hu & _).
  destruct (itoa n) as [|b r] eqn:E; [cbn in Hlen; lia|].
  exists b, r. split; [reflexivity|].
  specialize (Hu 0). cbn [undigits] in Hu.
  destruct ((0 <=? bz b - 48) && (bz b - 48 <=? 9)) eqn:D; [|discriminate].
  split; apply byte_eqb_neq; intros ->; vm_compute in D; discriminate.
Qed.

Lemma atoi_sprintf0d w n : 0 <= n <= max_int -> atoi (sprintf0d w n) = Some n.
Proof.
  intros Hn. assert (Hn' : 0 <= n < ten40) by (unfold max_int, ten40 in *; lia).
  unfold sprintf0d. replace (n <? 0) with false by lia.
  destruct (itoa_nonneg n Hn') as (k & Hk & Hlen & Hu & _).
  destruct (itoa_first_not_sign n Hn') as (b & r & Hi & Hp & Hm).
  assert (Hund : undigits (repeat x30 (w - length (itoa n)) ++ itoa n) 0 = Some n).
  { rewrite undigits_gen, gen_value_app, (gen_value_repeat0 10 dec_val x30) by reflexivity.
    rewrite <- undigits_gen, Hu. f_equal; lia. }
  assert (Hchk : (- two63 <=? n) && (n <? two63) = true) by (unfold two63, max_int in *; lia).
  destruct (w - length (itoa n))%nat as [|j] eqn:Ej.
  - cbn [repeat app] in *. rewrite Hi in *. unfold atoi. rewrite Hp, Hm, Hund, Hchk. reflexivity.
  - cbn [repeat app] in *. unfold atoi. change (Byte.eqb x30 x2b) with false. change (Byte.eqb x30 x2d) with false.
    cbv iota. rewrite Hund, Hchk. reflexivity.
Qed.

Lemma sprintf0d_len w n : 0 <= n -> (length (itoa n) <= w)%nat -> length (sprintf0d w n) = w.
Proof.
  intros Hn H. unfold sprintf0d. replace (n <? 0) with false by lia. rewrite app_length, repeat_length. lia.
Qed.

Lemma sprintf0d_digits w n : 0 <= n <= max_int -> forallb is_digit (sprintf0d w n) = true.
Proof.
  intros Hn. assert (Hn' : 0 <= n < ten40) by (unfold max_int, ten40 in *; lia).
  unfold sprintf0d. replace (n <? 0) with false by lia. rewrite forallb_app. apply andb_true_intro. split.
  - apply forallb_forall. intros b Hb. apply repeat_spec in Hb. subst b. reflexivity.
  - destruct (itoa_nonneg n Hn') as (k & _ & _ & Hu & _). eapply undigits_all_digits. apply (Hu 0).
Qed.

(* what Atoi accepts: an optional sign followed by at least one digit *)
Definition signed_digits (l : bytes) : bool :=
  match l with
  | [] => false
  | b :: r => if Byte.eqb b x2b || Byte.eqb b x2d then negb (Nat.eqb (length r) 0) && forallb is_digit r
              else forallb is_digit l
  end.

Lemma atoi_shape l n : atoi l = Some n -> signed_digits l = true.
Proof.
  unfold atoi, signed_digits. destruct l as [|b r]; [discriminate|].
  destruct (Byte.eqb b x2b) eqn:Ep; cbn [orb].
  - destruct r as [|c r']; [discriminate|]. destruct (undigits (c :: r') 0) eqn:U; [|discriminate].
    intros _. rewrite (undigits_all_digits _ _ _ U). reflexivity.
  - destruct (Byte.eqb b x2d) eqn:Em.
    + destruct r as [|c r']; [discriminate|]. destruct (undigits (c :: r') 0) eqn:U; [|discriminate].
      intros _. rewrite (undigits_all_digits _ _ _ U). reflexivity.
    + destruct (undigits (b :: r) 0) eqn:U; [|discriminate]. intros _. exact (undigits_all_digits _ _ _ U).
Qed.

(* ---------------- hexadecimal ---------------- *)
Lemma hex_val_digit d : 0 <= d < 16 -> hex_val (hex_digit_upper d) = Some d.
Proof.
  intros H. assert (d = 0 \/ d = 1 \/ d = 2 \/ d = 3 \/ d = 4 \/ d = 5 \/ d = 6 \/ d = 7 \/ d = 8 \/ d = 9 \/
                    d = 10 \/ d = 11 \/ d = 12 \/ d = 13 \/ d = 14 \/ d = 15) as C by lia.
  repeat (destruct C as [C|C]; [subst d; reflexivity|]). subst d; reflexivity.
Qed.

(* ---------------- base 256 ---------------- *)
Definition byte_val (b : byte) : option Z := Some (bz b).
Lemma be_val_gen l acc : Some (be_val l acc) = gen_value 256 byte_val l acc.
Proof. revert acc. induction l as [|b r IH]; intros acc; cbn [be_val gen_value byte_val]; [reflexivity|apply IH]. Qed.
Lemma byte_val_zb d : 0 <= d < 256 -> byte_val (zb d) = Some d.
Proof. intros H. unfold byte_val. rewrite bz_zb by lia. reflexivity. Qed.

Lemma be_val_app l1 l2 acc : be_val (l1 ++ l2) acc = be_val l2 (be_val l1 acc).
Proof. revert acc. induction l1 as [|b r IH]; intros acc; cbn [app be_val]; [reflexivity|apply IH]. Qed.
Lemma be_val_zeros k l : be_val (repeat x00 k ++ l) 0 = be_val l 0.
Proof. rewrite be_val_app. f_equal. induction k as [|k IH]; [reflexivity|]. cbn [repeat be_val]. exact IH. Qed.
Lemma be_val_bound l : 0 <= be_val l 0 < 256 ^ zlen l.
Proof.
  assert (H : forall l acc, 0 <= acc -> acc * 256 ^ zlen l <= be_val l acc < (acc + 1) * 256 ^ zlen l).
  { clear l. induction l as [|b r IH]; intros acc Ha.
    - cbn [be_val]. rewrite zlen_nil. cbn. lia.
    - cbn [be_val]. pose proof (bz_range b). specialize (IH (acc * 256 + bz b) ltac:(lia)).
      rewrite zlen_cons. pose proof (zlen_nonneg r). rewrite Z.pow_add_r by lia. cbn [Z.pow Z.pow_pos Pos.iter].
      assert (0 < 256 ^ zlen r) by (apply Z.pow_pos_nonneg; lia). nia. }
  specialize (H l 0 ltac:(lia)). lia.
Qed.

Definition two320 : Z := 256 ^ 40.

Lemma be_bytes_spec n : 0 <= n < two320 ->
  be_val (be_bytes n) 0 = n /\ (length (be_bytes n) <= 40)%nat /\
  (forall d : nat, (length (be_bytes n) <= d)%nat <-> n < 256 ^ Z.of_nat d) /\
  (0 < n -> exists b r, be_bytes n = b :: r /\ b <> x00).
Proof.
  intros Hn. unfold be_bytes. destruct (n =? 0) eqn:E.
  - assert (n = 0) by lia. subst n. split; [reflexivity|]. split; [cbn; lia|]. split.
    + intros d. split; intros _; [apply Z.pow_pos_nonneg; lia | cbn; lia].
    + lia.
  - destruct (gen_digits_spec 256 zb byte_val ltac:(lia) byte_val_zb 40%nat n [] ltac:(lia) Hn) as (ds & Heq & Hlen & Hv & Hub & Hlb).
    rewrite app_nil_r in Heq. rewrite Heq. split; [|split; [lia|split]].
    + specialize (Hv 0). rewrite <- be_val_gen in Hv. inversion Hv as [Hv']. lia.
    + intros d. split; intros H.
      * eapply Z.lt_le_trans; [exact Hub|]. apply Z.pow_le_mono_r; lia.
      * destruct (Nat.le_gt_cases (length ds) d) as [L|L]; [exact L|exfalso].
        specialize (Hlb ltac:(lia)).
        assert (256 ^ Z.of_nat d <= 256 ^ Z.of_nat (length ds - 1)) by (apply Z.pow_le_mono_r; lia). lia.
    + intros Hpos. destruct ds as [|b r]; [cbn in Hlen; lia|]. exists b, r. split; [reflexivity|].
      intros ->. specialize (Hlb Hpos).
      pose proof (be_val_bound r) as Hb. specialize (Hv 0). rewrite <- be_val_gen in Hv. inversion Hv as [Hv'].
      cbn [be_val] in Hv'. try change (0 * 256 + bz x00) with 0 in Hv'. try change (bz x00) with 0 in Hv'. cbn [length] in Hlb.
      replace (S (length r) - 1)%nat with (length r) in Hlb by lia. unfold zlen in Hb. lia.
Qed.
