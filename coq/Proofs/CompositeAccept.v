(* C02 for composites: what a composite field accepts lies in the domain of the round trip, provided Pack of the result
   succeeds (a re-packed subfield may outgrow a tight maximum: that is not excluded here) - so re-encoding is a fixed
   point for every nested specification. About Model/Field.v. *)
From Iso Require Import Model.Base Model.Padding Model.Encoding Model.Prefix Model.Bitmap Model.Spec Model.Field
     Proofs.BaseLemmas Proofs.PaddingProofs Proofs.EncodingProofs Proofs.PrefixProofs Proofs.FieldProofs Proofs.SortProofs
     Proofs.CompositeLoops Proofs.CompositeProofs Proofs.BitmapCompositeProofs Proofs.LayoutProofs Proofs.IndependenceProofs.
From Coq Require Import ZifyBool ZifyNat ZifyN Sorting.Permutation.
Set Default Timeout 120.

(* what an accepted value must satisfy: it is of the specification's shape, and if it packs (to fewer than 2^63 bytes,
   as every Go slice) it lies in the domain of the round trip *)
Definition dom_if_packs (s : fspec) (st : fstate) : Prop := forall b, pack_f s st = Ok b -> zlen b <= max_int -> in_dom s st.

Definition acc_dom (s : fspec) : Prop :=
  forall st0 d st n, shaped s st0 -> unpack_f s st0 d = (st, UOk n) -> shaped s st /\ dom_if_packs s st.

Section Loops.
  Variable subs : list (bytes * fspec).
  Hypothesis Hnd : NoDup (map fst subs).
  Hypothesis Hsub : forall t s', In (t, s') subs -> acc_dom s'.

  (* the invariant of the three loops on the path to success *)
  Definition Acc (set : list bytes) (sts : list (bytes * fstate)) : Prop :=
    (forall t s', In (t, s') subs -> exists x, blookup t sts = Some x /\ shaped s' x) /\
    (forall t, bmem t set = true -> In t (map fst subs)) /\
    (forall t s' x, In (t, s') subs -> bmem t set = true -> blookup t sts = Some x -> dom_if_packs s' x).

  Lemma acc_step set sts tag s' st st' d n : Acc set sts -> In (tag, s') subs -> blookup tag sts = Some st ->
    unpack_f s' st d = (st', UOk n) -> Acc (badd tag set) (bupdate tag st' sts).
  Proof.
    intros (Hk & Hs & Hd) Hin Hst Hu. destruct (Hk tag s' Hin) as (x & Hx & Hshx). assert (x = st) by congruence. subst x.
    destruct (Hsub tag s' Hin st d st' n Hshx Hu) as (Hsh' & Hd').
    split; [|split].
    - intros t s2 Hi2. destruct (bytes_eq_dec tag t) as [->|Hne].
      + assert (s2 = s') by (pose proof (In_blookup_nodup t s2 subs Hnd Hi2); pose proof (In_blookup_nodup t s' subs Hnd Hin); congruence). subst s2.
        exists st'. split; [apply blookup_bupdate_same; eexists; exact Hst|exact Hsh'].
      + rewrite blookup_bupdate_other by exact Hne. apply Hk. exact Hi2.
    - intros t Hm. rewrite bmem_badd in Hm. apply Bool.orb_true_iff in Hm. destruct Hm as [He|Hm]; [apply bytes_eqb_eq in He; subst t; change tag with (fst (tag, s')); apply in_map; exact Hin|apply Hs; exact Hm].
    - intros t s2 y Hi2 Hm Hy. destruct (bytes_eq_dec tag t) as [->|Hne].
      + assert (s2 = s') by (pose proof (In_blookup_nodup t s2 subs Hnd Hi2); pose proof (In_blookup_nodup t s' subs Hnd Hin); congruence). subst s2.
        rewrite blookup_bupdate_same in Hy by (eexists; exact Hst). assert (y = st') by congruence. subst y. exact Hd'.
      + rewrite blookup_bupdate_other in Hy by exact Hne. rewrite bmem_badd in Hm. replace (bytes_eqb t tag) with false in Hm by (symmetry; apply bytes_eqb_neq; congruence).
        apply (Hd t s2 y Hi2 Hm Hy).
  Qed.

  Lemma gou_lookup tag up : blookup tag (gou subs) = Some up -> exists s', In (tag, s') subs /\ up = unpack_f s'.
  Proof. rewrite blookup_gou. destruct (blookup tag subs) as [s'|] eqn:E; [|discriminate]. intros H. inversion H. exists s'. split; [apply blookup_In; exact E|reflexivity]. Qed.

  Lemma by_tag_acc t e : forall fuel data off set sts set' sts' n, Acc set sts ->
    unpack_by_tag (gou subs) (gof subs) fuel t e data off set sts = ((set', sts'), UOk n) -> Acc set' sts'.
  Proof.
    induction fuel as [|f IH]; intros data off set sts set' sts' n Hacc H; cbn [unpack_by_tag] in H; [discriminate|].
    destruct (zlen data <=? off); [inversion H; subst; exact Hacc|].
    destruct (enc_decode e (zdrop off data) (tg_len t)) as [[tagb read]| | |]; try discriminate.
    destruct (blookup (unpad (tg_pad t) tagb) (gou subs)) as [up|] eqn:Eu.
    - destruct (gou_lookup _ _ Eu) as (s' & Hin & ->). unfold sub_state in H. destruct (blookup (unpad (tg_pad t) tagb) sts) as [st|] eqn:Est; [|apply (IH _ _ _ _ _ _ _ Hacc H)].
      destruct (unpack_f s' st (zdrop (off + read) data)) as [st' [read2|p er|q|]] eqn:Eup; try discriminate.
      apply (IH _ _ _ _ _ _ _ (acc_step _ _ _ _ _ _ _ _ Hacc Hin Est Eup) H).
    - destruct (skip_unknown t); [|discriminate].
      destruct (tg_prefunk t) as [pu|].
      + destruct (dec_len pu max_int (zdrop (off + read) data)) as [[flen read2]| | |]; try discriminate.
        destruct ((flen <? 0) || (zlen data - (off + read) - read2 <? flen)); [discriminate|]. apply (IH _ _ _ _ _ _ _ Hacc H).
      + destruct (dec_len PBerTLV 0 (zdrop (off + read) data)) as [[flen read2]| | |]; try discriminate.
        destruct ((flen <? 0) || (zlen data - (off + read) - read2 <? flen)); [discriminate|]. apply (IH _ _ _ _ _ _ _ Hacc H).
  Qed.

  Lemma bits_acc bm : forall fuel i data off set sts set' sts' n, Acc set sts ->
    unpack_bits (gou subs) (gof subs) fuel bm i data off set sts = ((set', sts'), UOk n) -> Acc set' sts'.
  Proof.
    induction fuel as [|f IH]; intros i data off set sts set' sts' n Hacc H; cbn [unpack_bits] in H; [inversion H; subst; exact Hacc|].
    destruct (bm_isset bm i); [|apply (IH _ _ _ _ _ _ _ _ Hacc H)].
    destruct (blookup (itoa i) (gou subs)) as [up|] eqn:Eu; [|discriminate]. destruct (gou_lookup _ _ Eu) as (s' & Hin & ->).
    unfold sub_state in H. destruct (blookup (itoa i) sts) as [st|] eqn:Est; [|discriminate].
    destruct (unpack_f s' st (zdrop off data)) as [st' [read|p er|q|]] eqn:Eup; try discriminate.
    apply (IH _ _ _ _ _ _ _ _ (acc_step _ _ _ _ _ _ _ _ Hacc Hin Est Eup) H).
  Qed.

  (* the positional loop populates a front segment of the order: all of it unless the length is variable and the data
     ran out, and at least the first subfield *)
  Lemma positional_acc isvar : forall order data off set sts set' sts' n, Acc set sts ->
    (forall t, In t order -> In t (map fst subs)) ->
    unpack_positional (gou subs) (gof subs) order isvar data off set sts = ((set', sts'), UOk n) ->
    Acc set' sts' /\ exists o1 o2, order = o1 ++ o2 /\ (forall t, bmem t set' = bmem t set || bmem t o1) /\ (order <> [] -> o1 <> []) /\ (isvar = false -> o2 = []).
  Proof.
    induction order as [|tag rest IH]; intros data off set sts set' sts' n Hacc Hin H; cbn [unpack_positional] in H.
    - inversion H; subst. split; [exact Hacc|]. exists [], []. split; [reflexivity|]. split; [intros t; cbn; rewrite Bool.orb_false_r; reflexivity|]. split; [intros C; contradiction|reflexivity].
    - assert (Htag : In tag (map fst subs)) by (apply Hin; left; reflexivity). apply in_map_iff in Htag. destruct Htag as ((t0, s') & Ht0 & Hi). cbn [fst] in Ht0. subst t0.
      rewrite blookup_gou, (In_blookup_nodup tag s' subs Hnd Hi) in H. cbn [option_map] in H.
      destruct Hacc as (Hk & Hs & Hd). destruct (Hk tag s' Hi) as (st & Hst & Hsh). unfold sub_state in H. rewrite Hst in H.
      destruct (unpack_f s' st (zdrop off data)) as [st' [read|p er|q|]] eqn:Eup; try (destruct er; discriminate); try discriminate.
      pose proof (acc_step set sts tag s' st st' _ read (conj Hk (conj Hs Hd)) Hi Hst Eup) as Hacc1.
      destruct (isvar && (zlen data <=? off + read)) eqn:Ex.
      + inversion H; subst. split; [exact Hacc1|]. exists [tag], rest. split; [reflexivity|]. split; [intros t; rewrite bmem_badd; cbn [bmem existsb]; rewrite Bool.orb_false_r, Bool.orb_comm; reflexivity|].
        split; [intros _; discriminate|]. intros Hv. rewrite Hv in Ex. discriminate.
      + destruct (IH data (off + read) (badd tag set) (bupdate tag st' sts) set' sts' n Hacc1 (fun t Ht => Hin t (or_intror Ht)) H) as (Hacc' & o1 & o2 & Ho & Hb & _ & Hv).
        split; [exact Hacc'|]. exists (tag :: o1), o2. split; [cbn [app]; rewrite Ho; reflexivity|]. split.
        * intros t. rewrite Hb, bmem_badd. cbn [bmem existsb]. fold (bmem t o1). destruct (bytes_eqb t tag), (bmem t set), (bmem t o1); reflexivity.
        * split; [intros _; discriminate|exact Hv].
  Qed.
End Loops.

(* when a composite packs, every set subfield packs, to no more bytes than the body *)
Lemma pack_by_tag_subs packers t : forall order set sts body, pack_by_tag packers t order set sts = Ok body ->
  forall tag, In tag order -> bmem tag set = true ->
    exists pk st pb, blookup tag packers = Some pk /\ blookup tag sts = Some st /\ pk st = Ok pb /\ zlen pb <= zlen body.
Proof.
  induction order as [|h order IH]; intros set sts body Hp tag Hin Hm; [destruct Hin|]. cbn [pack_by_tag] in Hp. unfold sub_state in Hp.
  destruct (blookup h packers) as [pk|] eqn:Epk; [|discriminate]. destruct (blookup h sts) as [st|] eqn:Est; [|discriminate].
  destruct (bmem h set) eqn:Eh.
  - destruct (tag_wire t h) as [tb| | |]; cbn [obind] in Hp; try discriminate. destruct (pk st) as [pb| | |] eqn:Epb; cbn [obind] in Hp; try discriminate.
    destruct (pack_by_tag packers t order set sts) as [more| | |] eqn:Emore; cbn [obind] in Hp; try discriminate.
    assert (body = tb ++ pb ++ more) by congruence. subst body. pose proof (zlen_nonneg tb). pose proof (zlen_nonneg pb). pose proof (zlen_nonneg more).
    destruct Hin as [<-|Hin].
    + exists pk, st, pb. repeat split; try assumption. rewrite !zlen_app. lia.
    + destruct (IH set sts more Emore tag Hin Hm) as (pk2 & st2 & pb2 & A & B & C & D). exists pk2, st2, pb2. repeat split; try assumption. rewrite !zlen_app. lia.
  - destruct Hin as [<-|Hin]; [congruence|]. apply (IH set sts body Hp tag Hin Hm).
Qed.

Lemma pack_by_bitmap_subs packers b : forall order set sts bm0 bmf fields, pack_by_bitmap packers b order set sts bm0 = Ok (bmf, fields) ->
  forall tag, In tag order -> bmem tag set = true ->
    exists pk st pb, blookup tag packers = Some pk /\ blookup tag sts = Some st /\ pk st = Ok pb /\ zlen pb <= zlen fields.
Proof.
  induction order as [|h order IH]; intros set sts bm0 bmf fields Hp tag Hin Hm; [destruct Hin|]. cbn [pack_by_bitmap] in Hp. unfold sub_state in Hp.
  destruct (bmem h set) eqn:Eh.
  - destruct (atoi h) as [n|]; [|discriminate]. destruct (bm_set b bm0 n) as [bm'| | |]; cbn [obind] in Hp; try discriminate.
    destruct (negb (bm_isset bm' n)); [discriminate|].
    destruct (blookup h packers) as [pk|] eqn:Epk; [|discriminate]. destruct (blookup h sts) as [st|] eqn:Est; [|discriminate].
    destruct (pk st) as [pb| | |] eqn:Epb; cbn [obind] in Hp; try discriminate.
    destruct (pack_by_bitmap packers b order set sts bm') as [[bmf2 more]| | |] eqn:Emore; cbn [obind] in Hp; try discriminate.
    assert (fields = pb ++ more) by congruence. subst fields. pose proof (zlen_nonneg pb). pose proof (zlen_nonneg more).
    destruct Hin as [<-|Hin].
    + exists pk, st, pb. repeat split; try assumption. rewrite zlen_app. lia.
    + destruct (IH set sts bm' bmf2 more Emore tag Hin Hm) as (pk2 & st2 & pb2 & A & B & C & D). exists pk2, st2, pb2. repeat split; try assumption. rewrite zlen_app. lia.
  - destruct Hin as [<-|Hin]; [congruence|]. apply (IH set sts bm0 bmf fields Hp tag Hin Hm).
Qed.

Lemma comp_pack_subs subs mode set sts body : comp_pack_body (gop subs) mode (ordered_tags mode subs) set sts = Ok body ->
  forall tag s' x, In (tag, s') subs -> NoDup (map fst subs) -> bmem tag set = true -> blookup tag sts = Some x ->
    exists pb, pack_f s' x = Ok pb /\ zlen pb <= zlen body.
Proof.
  intros Hp tag s' x Hin Hnd Hm Hx.
  assert (Hto : In tag (ordered_tags mode subs)) by (apply ordered_tags_In; change tag with (fst (tag, s')); apply in_map; exact Hin).
  assert (Hpk : blookup tag (gop subs) = Some (pack_f s')) by (rewrite blookup_gop, (In_blookup_nodup tag s' subs Hnd Hin); reflexivity).
  unfold comp_pack_body in Hp. destruct mode as [t|b].
  - destruct (pack_by_tag_subs _ _ _ _ _ _ Hp tag Hto Hm) as (pk & st & pb & A & B & C & D). exists pb. assert (pk = pack_f s') by congruence. assert (st = x) by congruence. subst. split; assumption.
  - destruct (pack_by_bitmap (gop subs) b (ordered_tags (CBitmap b) subs) set sts (bm_new b)) as [[bm fields]| | |] eqn:Eb; cbn [obind] in Hp; try discriminate.
    destruct (bm_pack b bm) as [pbm| | |]; cbn [obind] in Hp; try discriminate. assert (body = pbm ++ fields) by congruence. subst body.
    destruct (pack_by_bitmap_subs _ _ _ _ _ _ _ _ Eb tag Hto Hm) as (pk & st & pb & A & B & C & D). exists pb. assert (pk = pack_f s') by congruence. assert (st = x) by congruence. subst.
    split; [assumption|]. rewrite zlen_app. pose proof (zlen_nonneg pbm). lia.
Qed.

Lemma in_dom_subs_intro (P : bytes -> fspec -> Prop) subs :
  (forall t s', In (t, s') subs -> P t s') ->
  (fix go (l : list (bytes * fspec)) : Prop := match l with [] => True | (t, s') :: r => P t s' /\ go r end) subs.
Proof. induction subs as [|(t, s') r IH]; intros H; [exact I|]. split; [apply H; left; reflexivity|apply IH; intros t0 s0 Hi; apply H; right; exact Hi]. Qed.

(* a composite whose subfields are accepting is accepting *)
Theorem comp_acc_dom pref len mode subs :
  NoDup (map fst subs) -> (forall t s', In (t, s') subs -> coherent s') -> (forall t s', In (t, s') subs -> acc_dom s') ->
  (positional mode && pref_is_var pref = true -> forall t s' x b, In (t, s') subs -> pack_f s' x = Ok b -> b <> []) ->
  acc_dom (FComp pref len mode subs).
Proof.
  intros Hnd Hcoh Hsub Hne st0 d st n Hsh Hu.
  destruct st0 as [v|v|v|v|set0 sts0]; try contradiction.
  cbn [unpack_f] in Hu. fold (gou subs) in Hu. fold (gof subs) in Hu.
  destruct (dec_len pref len d) as [[dlen offset]| | |] eqn:Ed; try (inversion Hu; fail).
  destruct ((dlen <? 0) || (zlen d - offset <? dlen)); [inversion Hu|]. cbv zeta in Hu.
  destruct (comp_unpack_body (gou subs) mode (ordered_tags mode subs) (gof subs) set0 sts0 (ztake dlen (zdrop offset d)) (negb (offset =? 0))) as [[set' sts'] [read|p e|q|]] eqn:Eb; try (inversion Hu; fail).
  destruct (negb (dlen =? read)); [inversion Hu|]. assert (st = SComp set' sts') by (inversion Hu; reflexivity). subst st. clear Hu.
  (* the invariant holds after the reset that comes first *)
  pose proof (reset_shaped pref len mode subs set0 sts0 Hnd Hcoh Hsh) as Hsh1. cbn [shaped] in Hsh1. rewrite shaped_subs in Hsh1.
  assert (Hacc0 : Acc subs [] (reset_set (gof subs) set0 sts0)) by (split; [exact Hsh1|split; [intros t Hm; discriminate|intros t s' x _ Hm; discriminate]]).
  unfold comp_unpack_body in Eb.
  assert (Hfinal : Acc subs set' sts' /\
            (positional mode = true -> exists o1 o2, ordered_tags mode subs = o1 ++ o2 /\ (forall t, bmem t set' = bmem t o1) /\ (ordered_tags mode subs <> [] -> o1 <> []) /\ (negb (offset =? 0) = false -> o2 = []))).
  { destruct mode as [t|b].
    - destruct (tg_enc t) as [e|] eqn:Ee.
      + split; [apply (by_tag_acc subs Hnd Hsub t e _ _ _ _ _ _ _ _ Hacc0 Eb)|]. unfold positional. rewrite Ee. discriminate.
      + destruct (positional_acc subs Hnd Hsub _ _ _ _ _ _ _ _ _ Hacc0 (fun t0 Ht => proj1 (ordered_tags_In (CTag t) subs t0) Ht) Eb) as (Hacc & o1 & o2 & Ho & Hb & Hn1 & Hv).
        split; [exact Hacc|]. intros _. exists o1, o2. repeat split; assumption.
    - destruct (bm_unpack b (bm_new b) (ztake dlen (zdrop offset d))) as [bm [rd|er|q|]]; try discriminate.
      split; [apply (bits_acc subs Hnd Hsub bm _ _ _ _ _ _ _ _ _ Hacc0 Eb)|]. discriminate. }
  destruct Hfinal as ((Hk & Hs & Hd) & Hpos).
  split; [cbn [shaped]; rewrite shaped_subs; exact Hk|].
  intros b Hp Hbmax. rewrite pack_f_comp in Hp.
  destruct (comp_pack_body (gop subs) mode (ordered_tags mode subs) set' sts') as [body| | |] eqn:Ebody; cbn [obind] in Hp; try discriminate.
  destruct (enc_len pref len (zlen body)) as [pre| | |]; cbn [obind] in Hp; try discriminate. assert (b = pre ++ body) by congruence. subst b.
  assert (Hbody : zlen body <= max_int) by (rewrite zlen_app in Hbmax; pose proof (zlen_nonneg pre); lia).
  cbn [in_dom]. split; [exact Hs|]. split; [intros body' Hb'; rewrite comp_bytes_comp, Ebody in Hb'; inversion Hb'; subst; exact Hbody|]. split.
  - intros Hpm. destruct (Hpos Hpm) as (o1 & o2 & Ho & Hb & Hn1 & Hv). exists o1, o2. split; [exact Ho|].
    pose proof (ordered_tags_nodup mode subs Hnd) as Hndo. rewrite Ho in Hndo.
    split; [intros tag Ht; rewrite Hb; apply bmem_In; exact Ht|]. split.
    + intros tag Ht. rewrite Hb. destruct (bmem tag o1) eqn:E; [|reflexivity]. apply bmem_In in E. exfalso.
      revert Hndo. clear - E Ht. induction o1 as [|a r IH]; [destruct E|]. cbn [app]. intros Hn. apply NoDup_cons_iff in Hn. destruct Hn as (Ha & Hr).
      destruct E as [<-|E]; [apply Ha; apply in_or_app; right; exact Ht|apply (IH E Hr)].
    + split.
      * intros ->. cbn [app] in Ho. destruct o2 as [|a r]; [reflexivity|]. exfalso. apply Hn1; [rewrite Ho; discriminate|reflexivity].
      * intros Hfix. apply Hv. destruct pref as [f|f dd| |]; cbn [pref_is_var] in Hfix; try discriminate; cbn [dec_len] in Ed; inversion Ed; reflexivity.
  - apply in_dom_subs_intro. intros t s' Hi. intros Hm x Hx. destruct (comp_pack_subs subs mode set' sts' body Ebody t s' x Hi Hnd Hm Hx) as (pb & Hpb & Hlen).
    split; [apply (Hd t s' x Hi Hm Hx pb Hpb); lia|]. intros Hpv b0 Hb0. apply (Hne Hpv t s' x b0 Hi Hb0).
Qed.

From Iso Require Import Proofs.AcceptProofs.

Lemma prim_acc_dom p : coherent_pspec p -> accept_ok p -> acc_dom (FPrim p).
Proof.
  intros Hc Ha st0 d st n _ Hu. cbn [unpack_f] in Hu. destruct (prim_accept p st0 d st n Hc Ha Hu) as (Hd & _).
  split; [exact I|]. intros b _ _. exact Hd.
Qed.

(* specifications all of whose primitive fields are accept_ok, and whose positional variable-length composites have no
   subfield that can pack to nothing *)
Fixpoint accept_spec (s : fspec) : Prop :=
  match s with
  | FPrim p => accept_ok p
  | FComp pref len mode subs =>
      (positional mode && pref_is_var pref = true -> forall t s' x b, In (t, s') subs -> pack_f s' x = Ok b -> b <> []) /\
      (fix go (l : list (bytes * fspec)) : Prop := match l with [] => True | (_, s') :: r => accept_spec s' /\ go r end) subs
  end.

Lemma accept_spec_subs subs : (fix go (l : list (bytes * fspec)) : Prop := match l with [] => True | (_, s') :: r => accept_spec s' /\ go r end) subs ->
  forall t s', In (t, s') subs -> accept_spec s'.
Proof. induction subs as [|(t0, s0) r IH]; intros H t s' Hi; [destruct Hi|]. destruct H as (H1 & H2). destruct Hi as [E|Hi]; [inversion E; subst; exact H1|apply (IH H2 t); exact Hi]. Qed.

Theorem spec_acc_dom s : coherent s -> accept_spec s -> acc_dom s.
Proof.
  induction s as [p|pref len mode subs IH] using fspec_ind'; intros Hc Ha.
  - apply prim_acc_dom; assumption.
  - cbn [coherent] in Hc. destruct Hc as (_ & Hnd & _ & Hcs). cbn [accept_spec] in Ha. destruct Ha as (Hne & Has).
    pose proof (coherent_subs subs Hcs) as Hcs'. pose proof (accept_spec_subs subs Has) as Has'.
    apply comp_acc_dom; [exact Hnd|exact Hcs'| |exact Hne].
    intros t s' Hi. apply (IH t s' Hi); [apply (Hcs' t s' Hi)|apply (Has' t s' Hi)].
Qed.

(* re-encoding is a fixed point for every nested specification: what Unpack accepts, if it packs, packs to bytes that are
   accepted again, decode to equivalent content and re-pack to themselves *)
Theorem field_canonical_if_packs s st0 d st n b : coherent s -> accept_spec s -> shaped s st0 ->
  unpack_f s st0 d = (st, UOk n) -> pack_f s st = Ok b -> zlen b <= max_int ->
  forall st1 rest, shaped s st1 -> exists st', unpack_f s st1 (b ++ rest) = (st', UOk (zlen b)) /\ equiv s st st' /\ pack_f s st' = Ok b.
Proof.
  intros Hc Ha Hsh Hu Hp Hmax st1 rest Hsh1. destruct (spec_acc_dom s Hc Ha st0 d st n Hsh Hu) as (_ & Hd).
  destruct (field_roundtrip s Hc st b (Hd b Hp Hmax) Hp st1 rest Hsh1) as (st' & H1 & H2 & H3 & _). exists st'. repeat split; assumption.
Qed.

(* ---------------- a decidable sufficient condition ---------------- *)
From Iso Require Import Proofs.MessageAccept.

(* accept_okb at every primitive leaf, and no positional composite with a variable-length prefix (the only place where
   the side condition about subfields that pack to nothing is needed) *)
Fixpoint accept_specb (s : fspec) : bool :=
  match s with
  | FPrim p => accept_okb p
  | FComp pref len mode subs =>
      negb (positional mode && pref_is_var pref) &&
      (fix go (l : list (bytes * fspec)) : bool := match l with [] => true | (_, s') :: r => accept_specb s' && go r end) subs
  end.

Theorem accept_specb_sound s : accept_specb s = true -> accept_spec s.
Proof.
  induction s as [p|pref len mode subs IH] using fspec_ind'; intros H.
  - apply accept_okb_sound. exact H.
  - cbn [accept_specb] in H. apply Bool.andb_true_iff in H. destruct H as (Hpv & Hs). cbn [accept_spec]. split.
    + intros Hc. rewrite Hc in Hpv. discriminate.
    + clear Hpv. induction subs as [|(t, s') r IHr]; [exact I|]. apply Bool.andb_true_iff in Hs. destruct Hs as (H1 & H2). split.
      * apply (IH t s' (or_introl eq_refl) H1).
      * apply IHr; [intros t0 s0 Hi; apply (IH t0 s0); right; exact Hi|exact H2].
Qed.
