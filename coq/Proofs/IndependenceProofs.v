(* C10: what Unpack leaves in a composite field or a message does not depend on what the object held before.
   Since the repairs F12 / F28 / F30 Unpack re-creates every subfield that was set and every subfield that failed, so
   for objects in a clean state (every subfield that is not set is as new - the invariant of all reachable objects)
   Unpack starts from the state of a new object. About Model/Field.v and Model/Message.v. *)
From Iso Require Import Model.Base Model.Padding Model.Encoding Model.Prefix Model.Bitmap Model.Spec Model.Field Model.Message
     Proofs.BaseLemmas Proofs.FieldProofs Proofs.CompositeProofs Proofs.StateProofs Proofs.MessageRoundtrip.
From Coq Require Import ZifyBool ZifyNat ZifyN.
Set Default Timeout 120.

(* association lists with the same keys in the same order and the same value under every key are equal *)
Lemma blookup_notin {A} k (l : list (bytes * A)) : ~ In k (map fst l) -> blookup k l = None.
Proof.
  induction l as [|(k', v) r IH]; intros Hn; [reflexivity|]. cbn [blookup map fst In] in *.
  destruct (bytes_eqb k k') eqn:E; [apply bytes_eqb_eq in E; subst; exfalso; apply Hn; left; reflexivity|]. apply IH. intros H. apply Hn. right. exact H.
Qed.

Lemma assoc_ext {A} (l1 l2 : list (bytes * A)) : map fst l1 = map fst l2 -> NoDup (map fst l1) ->
  (forall k, In k (map fst l1) -> blookup k l1 = blookup k l2) -> l1 = l2.
Proof.
  revert l2. induction l1 as [|(k, v) r IH]; intros [|(k2, v2) r2] Hk Hnd Hv; try discriminate; [reflexivity|].
  cbn [map fst] in Hk, Hnd. injection Hk as Hk1 Hk2. subst k2. apply NoDup_cons_iff in Hnd. destruct Hnd as (Hnot & Hnd).
  pose proof (Hv k (or_introl eq_refl)) as H0. cbn [blookup] in H0. rewrite bytes_eqb_refl in H0. assert (v2 = v) by congruence. subst v2.
  f_equal. apply IH; [exact Hk2|exact Hnd|]. intros k' Hin. specialize (Hv k' (or_intror Hin)). cbn [blookup] in Hv.
  destruct (bytes_eqb k' k) eqn:E; [apply bytes_eqb_eq in E; subst; contradiction|exact Hv].
Qed.

(* clean: the object has exactly the subfields of its specification, and every subfield that is not set is as new *)
Definition clean (s : fspec) (st : fstate) : Prop :=
  match s, st with
  | FPrim _, _ => True
  | FComp _ _ _ subs, SComp set sts =>
      map fst sts = map fst subs /\ forall t s', In (t, s') subs -> bmem t set = false -> blookup t sts = Some (fresh s')
  | _, _ => False
  end.

Lemma map_fst_gof subs : map fst (gof subs) = map fst subs.
Proof. induction subs as [|(t, s') r IH]; [reflexivity|]. cbn [gof map fst]. f_equal. exact IH. Qed.
Lemma map_fst_reset freshes set sts : map fst (reset_set freshes set sts) = map fst sts.
Proof.
  unfold reset_set. induction sts as [|(k, v) r IH]; [reflexivity|]. cbn [map fst]. rewrite IH. f_equal.
  destruct (bmem k set); [destruct (blookup k freshes)|]; reflexivity.
Qed.

Lemma reset_clean subs set sts : NoDup (map fst subs) -> map fst sts = map fst subs ->
  (forall t s', In (t, s') subs -> bmem t set = false -> blookup t sts = Some (fresh s')) ->
  reset_set (gof subs) set sts = gof subs.
Proof.
  intros Hnd Hk Hf. apply assoc_ext.
  - rewrite map_fst_reset, map_fst_gof. exact Hk.
  - rewrite map_fst_reset, Hk. exact Hnd.
  - intros k Hin. rewrite map_fst_reset, Hk in Hin. destruct (In_blookup k subs Hin) as (s' & Es).
    pose proof (blookup_In _ _ _ Es) as Hi. rewrite blookup_reset, blookup_gof, Es. cbn [option_map].
    assert (Hx : exists x, blookup k sts = Some x).
    { assert (Hin' : In k (map fst sts)) by (rewrite Hk; exact Hin). apply In_blookup. exact Hin'. }
    destruct Hx as (x & Hx). rewrite Hx. destruct (bmem k set) eqn:Em; [reflexivity|]. rewrite (Hf k s' Hi Em) in Hx. congruence.
Qed.

(* a new object is clean *)
Theorem fresh_clean s : (match s with FComp _ _ _ subs => NoDup (map fst subs) | _ => True end) -> clean s (fresh s).
Proof.
  destruct s as [p|pref len mode subs]; intros Hnd; [exact I|]. cbn [clean fresh]. fold (gof subs). split; [apply map_fst_gof|].
  intros t s' Hi _. rewrite blookup_gof, (In_blookup_nodup t s' subs Hnd Hi). reflexivity.
Qed.

(* Unpack of a composite: the outcome never depends on the prior state, and the state afterwards does so only when the
   length prefix itself is rejected (then nothing was touched) *)
Theorem unpack_f_independent pref len mode subs st0 st1 d : NoDup (map fst subs) ->
  let s := FComp pref len mode subs in
  clean s st0 -> clean s st1 ->
  snd (unpack_f s st0 d) = snd (unpack_f s st1 d) /\
  (u_is_ok (snd (unpack_f s st0 d)) = true -> fst (unpack_f s st0 d) = fst (unpack_f s st1 d)).
Proof.
  intros Hnd s Hc0 Hc1. destruct st0 as [| | | |set0 sts0]; try contradiction. destruct st1 as [| | | |set1 sts1]; try contradiction.
  destruct Hc0 as (Hk0 & Hf0). destruct Hc1 as (Hk1 & Hf1).
  pose proof (reset_clean subs set0 sts0 Hnd Hk0 Hf0) as R0. pose proof (reset_clean subs set1 sts1 Hnd Hk1 Hf1) as R1.
  unfold s. cbn [unpack_f]. fold (gou subs). fold (gof subs).
  destruct (dec_len pref len d) as [[dlen offset]| | |]; cbn [fst snd]; try (split; [reflexivity|discriminate]).
  destruct ((dlen <? 0) || (zlen d - offset <? dlen)); cbn [fst snd]; [split; [reflexivity|discriminate]|].
  cbv zeta. unfold comp_unpack_body. cbv zeta. rewrite R0, R1.
  split; [reflexivity|intros _; reflexivity].
Qed.

(* ---------------- cleanliness is an invariant of Unpack ---------------- *)
Lemma map_fst_bupdate {A} k (v : A) l : map fst (bupdate k v l) = map fst l.
Proof. induction l as [|(k', v') r IH]; [reflexivity|]. cbn [bupdate]. destruct (bytes_eqb k k'); cbn [map fst]; [reflexivity|rewrite IH; reflexivity]. Qed.

Section Loops.
  Variable subs : list (bytes * fspec).
  Hypothesis Hnd : NoDup (map fst subs).

  Definition Inv (set : list bytes) (sts : list (bytes * fstate)) : Prop :=
    map fst sts = map fst subs /\ forall t s', In (t, s') subs -> bmem t set = false -> blookup t sts = Some (fresh s').

  Lemma inv_success set sts tag x : Inv set sts -> Inv (badd tag set) (bupdate tag x sts).
  Proof.
    intros (Hk & Hf). split; [rewrite map_fst_bupdate; exact Hk|]. intros t s' Hi Hm. rewrite bmem_badd in Hm.
    apply Bool.orb_false_iff in Hm. destruct Hm as (Hne & Hm). apply bytes_eqb_neq in Hne.
    rewrite blookup_bupdate_other by congruence. apply Hf; assumption.
  Qed.

  Lemma bmem_bremove k k' l : bmem k' (bremove k l) = negb (bytes_eqb k k') && bmem k' l.
  Proof.
    unfold bremove. induction l as [|x r IH]; [cbn; rewrite Bool.andb_false_r; reflexivity|]. cbn [filter].
    destruct (bytes_eqb k x) eqn:E; cbn [negb].
    - apply bytes_eqb_eq in E. subst x. rewrite IH. cbn [bmem existsb]. fold (bmem k' r).
      destruct (bytes_eqb k k') eqn:E2; cbn [negb andb]; [reflexivity|].
      replace (bytes_eqb k' k) with false by (symmetry; apply bytes_eqb_neq; intros ->; rewrite bytes_eqb_refl in E2; discriminate). reflexivity.
    - cbn [bmem existsb]. fold (bmem k' r) (bmem k' (filter (fun x0 => negb (bytes_eqb k x0)) r)). rewrite IH.
      destruct (bytes_eqb k' x) eqn:E3; cbn [orb]; [|reflexivity]. apply bytes_eqb_eq in E3. subst x. rewrite E. reflexivity.
  Qed.

  Lemma inv_fail set sts tag x : map fst sts = map fst subs -> Inv set sts -> Inv (bremove tag set) (bupdate tag (fresh_of (gof subs) tag x) sts).
  Proof.
    intros _ (Hk & Hf). split; [rewrite map_fst_bupdate; exact Hk|]. intros t s' Hi Hm.
    destruct (bytes_eq_dec tag t) as [->|Hne].
    - assert (Hx : exists w, blookup t sts = Some w) by (apply In_blookup; rewrite Hk; change t with (fst (t, s')); apply in_map; exact Hi).
      rewrite blookup_bupdate_same by exact Hx. unfold fresh_of. rewrite blookup_gof, (In_blookup_nodup t s' subs Hnd Hi). reflexivity.
    - rewrite blookup_bupdate_other by exact Hne. apply Hf; [exact Hi|]. rewrite bmem_bremove in Hm.
      replace (bytes_eqb tag t) with false in Hm by (symmetry; apply bytes_eqb_neq; exact Hne). exact Hm.
  Qed.

  Lemma positional_inv isvar : forall order data off set sts, Inv set sts ->
    Inv (fst (fst (unpack_positional (gou subs) (gof subs) order isvar data off set sts)))
        (snd (fst (unpack_positional (gou subs) (gof subs) order isvar data off set sts))).
  Proof.
    induction order as [|tag rest IH]; intros data off set sts Hinv; [exact Hinv|]. cbn [unpack_positional].
    destruct (blookup tag (gou subs)) as [up|]; [|apply IH; exact Hinv]. destruct (sub_state sts tag) as [st|]; [|apply IH; exact Hinv].
    destruct (up st (zdrop off data)) as [st' [read|p e|q|]]; cbn [fst snd]; try (apply inv_fail; [exact (proj1 Hinv)|exact Hinv]).
    destruct (isvar && (zlen data <=? off + read)); cbn [fst snd]; [apply inv_success; exact Hinv|apply IH; apply inv_success; exact Hinv].
  Qed.

  Lemma by_tag_inv t e : forall fuel data off set sts, Inv set sts ->
    Inv (fst (fst (unpack_by_tag (gou subs) (gof subs) fuel t e data off set sts)))
        (snd (fst (unpack_by_tag (gou subs) (gof subs) fuel t e data off set sts))).
  Proof.
    induction fuel as [|f IH]; intros data off set sts Hinv; [exact Hinv|]. cbn [unpack_by_tag].
    destruct (zlen data <=? off); [exact Hinv|].
    destruct (enc_decode e (zdrop off data) (tg_len t)) as [[tagb read]| | |]; cbn [fst snd]; try exact Hinv.
    destruct (blookup (unpad (tg_pad t) tagb) (gou subs)) as [up|].
    - destruct (sub_state sts (unpad (tg_pad t) tagb)) as [st|]; [|apply IH; exact Hinv].
      destruct (up st (zdrop (off + read) data)) as [st' [read2|p er|q|]]; cbn [fst snd]; try (apply inv_fail; [exact (proj1 Hinv)|exact Hinv]).
      apply IH. apply inv_success. exact Hinv.
    - destruct (skip_unknown t); cbn [fst snd]; [|exact Hinv].
      destruct (tg_prefunk t) as [pu|].
      + destruct (dec_len pu max_int (zdrop (off + read) data)) as [[flen read2]| | |]; cbn [fst snd]; try exact Hinv.
        destruct ((flen <? 0) || (zlen data - (off + read) - read2 <? flen)); cbn [fst snd]; [exact Hinv|apply IH; exact Hinv].
      + destruct (dec_len PBerTLV 0 (zdrop (off + read) data)) as [[flen read2]| | |]; cbn [fst snd]; try exact Hinv.
        destruct ((flen <? 0) || (zlen data - (off + read) - read2 <? flen)); cbn [fst snd]; [exact Hinv|apply IH; exact Hinv].
  Qed.

  Lemma bits_inv' bm : forall fuel i data off set sts, Inv set sts ->
    Inv (fst (fst (unpack_bits (gou subs) (gof subs) fuel bm i data off set sts)))
        (snd (fst (unpack_bits (gou subs) (gof subs) fuel bm i data off set sts))).
  Proof.
    induction fuel as [|f IH]; intros i data off set sts Hinv; [exact Hinv|]. cbn [unpack_bits].
    destruct (bm_isset bm i); [|apply IH; exact Hinv].
    destruct (blookup (itoa i) (gou subs)) as [up|]; [|exact Hinv]. destruct (sub_state sts (itoa i)) as [st|]; [|exact Hinv].
    destruct (up st (zdrop off data)) as [st' [read|p er|q|]]; cbn [fst snd]; try (apply inv_fail; [exact (proj1 Hinv)|exact Hinv]).
    apply IH. apply inv_success. exact Hinv.
  Qed.
End Loops.

Theorem unpack_f_clean pref len mode subs st d : NoDup (map fst subs) ->
  let s := FComp pref len mode subs in clean s st -> clean s (fst (unpack_f s st d)).
Proof.
  intros Hnd s Hc. destruct st as [| | | |set0 sts0]; try contradiction. pose proof Hc as (Hk & Hf).
  pose proof (reset_clean subs set0 sts0 Hnd Hk Hf) as R0.
  assert (Hinv0 : Inv subs [] (gof subs)).
  { split; [apply map_fst_gof|]. intros t s' Hi _. rewrite blookup_gof, (In_blookup_nodup t s' subs Hnd Hi). reflexivity. }
  unfold s. cbn [unpack_f]. fold (gou subs). fold (gof subs).
  destruct (dec_len pref len d) as [[dlen offset]| | |]; cbn [fst]; try exact Hc.
  destruct ((dlen <? 0) || (zlen d - offset <? dlen)); cbn [fst]; [exact Hc|].
  cbv zeta. unfold comp_unpack_body. cbv zeta. rewrite R0.
  match goal with |- context [let (p, r) := ?X in _] =>
    assert (Hi : Inv subs (fst (fst X)) (snd (fst X)));
    [|destruct X as [[set' sts'] r]; cbn [fst snd] in Hi; destruct r; cbn [fst]; try exact Hi;
      match goal with |- context [if ?c then _ else _] => destruct c end; exact Hi] end.
  destruct mode as [t|b].
  - destruct (tg_enc t) as [e|]; [apply by_tag_inv|apply positional_inv]; assumption.
  - destruct (bm_unpack b (bm_new b) (ztake dlen (zdrop offset d))) as [bm [read|er|q|]]; cbn [fst snd]; try exact Hinv0.
    apply bits_inv'; assumption.
Qed.

(* ---------------- messages ---------------- *)
Lemma zlookup_notin {A} k (l : list (Z * A)) : ~ In k (map fst l) -> zlookup k l = None.
Proof.
  induction l as [|(k', v) r IH]; intros Hn; [reflexivity|]. cbn [zlookup map fst In] in *.
  destruct (k =? k') eqn:E; [exfalso; apply Hn; left; lia|]. apply IH. intros H. apply Hn. right. exact H.
Qed.
Lemma zassoc_ext {A} (l1 l2 : list (Z * A)) : map fst l1 = map fst l2 -> NoDup (map fst l1) ->
  (forall k, In k (map fst l1) -> zlookup k l1 = zlookup k l2) -> l1 = l2.
Proof.
  revert l2. induction l1 as [|(k, v) r IH]; intros [|(k2, v2) r2] Hk Hnd Hv; try discriminate; [reflexivity|].
  cbn [map fst] in Hk, Hnd. injection Hk as Hk1 Hk2. subst k2. apply NoDup_cons_iff in Hnd. destruct Hnd as (Hnot & Hnd).
  pose proof (Hv k (or_introl eq_refl)) as H0. cbn [zlookup] in H0. rewrite Z.eqb_refl in H0. assert (v2 = v) by congruence. subst v2.
  f_equal. apply IH; [exact Hk2|exact Hnd|]. intros k' Hin. specialize (Hv k' (or_intror Hin)). cbn [zlookup] in Hv.
  destruct (k' =? k) eqn:E; [assert (k' = k) by lia; subst; contradiction|exact Hv].
Qed.
Lemma In_zlookup {A} k (l : list (Z * A)) : In k (map fst l) -> exists v, zlookup k l = Some v.
Proof.
  induction l as [|(k', w) r IH]; cbn [map fst In zlookup]; [intros []|]. destruct (k =? k') eqn:E; [eexists; reflexivity|].
  intros [H|H]; [lia|apply IH; exact H].
Qed.
Lemma In_zlookup_nodup {A} k (v : A) l : NoDup (map fst l) -> In (k, v) l -> zlookup k l = Some v.
Proof.
  induction l as [|(k', w) r IH]; intros Hnd Hi; [destruct Hi|]. cbn [map fst] in Hnd. apply NoDup_cons_iff in Hnd. destruct Hnd as (Hn & Hnd).
  cbn [zlookup]. destruct Hi as [Hi|Hi].
  - inversion Hi; subst. rewrite Z.eqb_refl. reflexivity.
  - destruct (k =? k') eqn:E; [|apply IH; assumption]. assert (k' = k) by lia. subst k'. exfalso. apply Hn.
    change k with (fst (k, v)). apply in_map. exact Hi.
Qed.
Lemma zlookup_In {A} k (l : list (Z * A)) v : zlookup k l = Some v -> In (k, v) l.
Proof.
  induction l as [|(k', w) r IH]; cbn [zlookup]; [discriminate|]. destruct (k =? k') eqn:E.
  - intros H. left. assert (k' = k) by lia. congruence.
  - intros H. right. apply IH. exact H.
Qed.

Definition ffresh (S : mspec) : list (Z * fstate) := map (fun '(id, s) => (id, fresh s)) (ms_fields S).
Lemma map_fst_ffresh S : map fst (ffresh S) = map fst (ms_fields S).
Proof. unfold ffresh. induction (ms_fields S) as [|(id, s) r IH]; [reflexivity|]. cbn [map fst]. f_equal. exact IH. Qed.
Lemma zlookup_ffresh S id : zlookup id (ffresh S) = option_map fresh (zlookup id (ms_fields S)).
Proof. unfold ffresh. induction (ms_fields S) as [|(k, s) r IH]; [reflexivity|]. cbn [map zlookup]. destruct (id =? k); [reflexivity|exact IH]. Qed.
Lemma map_fst_reset_fields S failed present fields : map fst (reset_fields S failed present fields) = map fst fields.
Proof.
  unfold reset_fields. induction fields as [|(k, v) r IH]; [reflexivity|]. cbn [map fst]. rewrite IH. f_equal.
  destruct (zmem k present || bytes_eqb (itoa k) failed); [destruct (zlookup k (ms_fields S))|]; reflexivity.
Qed.

(* the message object has exactly the data elements of its specification, and every element that is not populated is
   as new - except the one at which the last Unpack failed, which keeps the partial message until the next Unpack *)
Definition msg_clean (S : mspec) (m : mstate) : Prop :=
  map fst (m_fields m) = map fst (ms_fields S) /\
  forall id s, In (id, s) (ms_fields S) -> zmem id (m_present m) = false -> bytes_eqb (itoa id) (m_failed m) = false ->
               zlookup id (m_fields m) = Some (fresh s).

Lemma reset_fields_clean S m : NoDup (map fst (ms_fields S)) -> msg_clean S m ->
  reset_fields S (m_failed m) (m_present m) (m_fields m) = ffresh S.
Proof.
  intros Hnd (Hk & Hf). apply zassoc_ext.
  - rewrite map_fst_reset_fields, map_fst_ffresh. exact Hk.
  - rewrite map_fst_reset_fields, Hk. exact Hnd.
  - intros k Hin. rewrite map_fst_reset_fields, Hk in Hin. destruct (In_zlookup k (ms_fields S) Hin) as (s & Es).
    pose proof (zlookup_In _ _ _ Es) as Hi. rewrite zlookup_reset, zlookup_ffresh, Es. cbn [option_map].
    assert (Hx : exists x, zlookup k (m_fields m) = Some x) by (apply In_zlookup; rewrite Hk; exact Hin).
    destruct Hx as (x & Hx). rewrite Hx. destruct (zmem k (m_present m)) eqn:Em; [reflexivity|]. destruct (bytes_eqb (itoa k) (m_failed m)) eqn:Ef; [reflexivity|].
    cbn [orb]. rewrite (Hf k s Hi Em Ef) in Hx. congruence.
Qed.

Theorem mfresh_clean S : NoDup (map fst (ms_fields S)) -> msg_clean S (mfresh S).
Proof.
  intros Hnd. split; [apply map_fst_ffresh|]. intros id s Hi _ _. cbn [mfresh m_fields]. fold (ffresh S).
  rewrite zlookup_ffresh, (In_zlookup_nodup id s (ms_fields S) Hnd Hi). reflexivity.
Qed.

(* the loop over the data elements does not look at the presence set it extends *)
Lemma unpack_fields_present S bm : forall fuel i src off p0 p1 fields, (forall id, zmem id p0 = zmem id p1) ->
  snd (unpack_fields fuel S bm i src off p0 fields) = snd (unpack_fields fuel S bm i src off p1 fields) /\
  snd (fst (unpack_fields fuel S bm i src off p0 fields)) = snd (fst (unpack_fields fuel S bm i src off p1 fields)) /\
  (forall id, zmem id (fst (fst (unpack_fields fuel S bm i src off p0 fields))) = zmem id (fst (fst (unpack_fields fuel S bm i src off p1 fields)))).
Proof.
  induction fuel as [|f IH]; intros i src off p0 p1 fields Hp; [repeat split; try reflexivity; exact Hp|]. cbn [unpack_fields].
  destruct (bm_is_presence_bit (ms_bm S) i); [apply IH; exact Hp|]. destruct (bm_isset bm i); [|apply IH; exact Hp].
  destruct (zlookup i (ms_fields S)) as [s|]; [|repeat split; try reflexivity; exact Hp].
  destruct (zlookup i fields) as [st|]; [|repeat split; try reflexivity; exact Hp].
  destruct (unpack_f s st (zdrop off src)) as [st' [read|pth e|q|]]; cbn [fst snd]; try (repeat split; try reflexivity; exact Hp).
  apply IH. intros id. rewrite !zmem_zadd, Hp. reflexivity.
Qed.

(* Unpack of a message: the outcome does not depend on what the object held; after a successful Unpack neither do the
   MTI, the bitmap, the data elements (their whole states) and the set of populated ids *)
Theorem m_unpack_independent S m0 m1 d : NoDup (map fst (ms_fields S)) -> msg_clean S m0 -> msg_clean S m1 ->
  snd (m_unpack S m0 d) = snd (m_unpack S m1 d) /\
  (u_is_ok (snd (m_unpack S m0 d)) = true ->
     m_mti (fst (m_unpack S m0 d)) = m_mti (fst (m_unpack S m1 d)) /\
     m_bm (fst (m_unpack S m0 d)) = m_bm (fst (m_unpack S m1 d)) /\
     m_fields (fst (m_unpack S m0 d)) = m_fields (fst (m_unpack S m1 d)) /\
     forall id, zmem id (m_present (fst (m_unpack S m0 d))) = zmem id (m_present (fst (m_unpack S m1 d)))).
Proof.
  intros Hnd Hc0 Hc1. unfold m_unpack. cbv zeta.
  rewrite (reset_fields_clean S m0 Hnd Hc0), (reset_fields_clean S m1 Hnd Hc1).
  set (a0 := with_bm (m_bitmap S (with_present (with_failed (with_fields m0 (ffresh S)) []) [])) (bm_new (ms_bm S))).
  set (a1 := with_bm (m_bitmap S (with_present (with_failed (with_fields m1 (ffresh S)) []) [])) (bm_new (ms_bm S))).
  assert (Hf : m_fields a0 = ffresh S /\ m_fields a1 = ffresh S /\ m_bm a0 = bm_new (ms_bm S) /\ m_bm a1 = bm_new (ms_bm S)).
  { unfold a0, a1, m_bitmap, with_present, with_fields, with_bm, with_failed; cbn [m_bmcached]. destruct (m_bmcached m0), (m_bmcached m1); repeat split; reflexivity. }
  destruct Hf as (Hf0 & Hf1 & Hb0 & Hb1).
  assert (Hp : forall id, zmem id (zadd 1 (zadd 0 (m_present a0))) = zmem id (zadd 1 (zadd 0 (m_present a1)))).
  { intros id. rewrite !zmem_zadd. unfold a0, a1, m_bitmap, with_present, with_fields, with_bm, with_failed; cbn [m_bmcached m_present].
    destruct (m_bmcached m0), (m_bmcached m1); cbn [m_present]; rewrite ?zmem_zadd; cbn [zmem existsb]; destruct (id =? 1), (id =? 0); reflexivity. }
  cbn [unpack_f].
  destruct (prim_unpack_state_independent (ms_mti S) (m_mti a0) (m_mti a1) d) as (Hs & Hok).
  destruct (prim_unpack (ms_mti S) (m_mti a0) d) as [mt0 r0] eqn:E0. destruct (prim_unpack (ms_mti S) (m_mti a1) d) as [mt1 r1] eqn:E1.
  cbn [fst snd] in Hs, Hok. subst r1. destruct r0 as [read|pth e|q|]; cbn [fst snd]; try (split; [reflexivity|discriminate]).
  specialize (Hok eq_refl). subst mt1.
  cbn [with_present with_mti with_bm with_fields m_bm m_present m_fields m_mti]. rewrite Hb0, Hb1.
  destruct (bm_unpack (ms_bm S) (bm_new (ms_bm S)) (zdrop read d)) as [bm [r2|e|q|]]; cbn [fst snd]; try (split; [reflexivity|discriminate]).
  rewrite Hf0, Hf1.
  destruct (unpack_fields_present S bm (Z.to_nat (zlen bm * 8 - 1)) 2 d (read + r2) _ _ (ffresh S) Hp) as (G1 & G2 & G3).
  destruct (unpack_fields (Z.to_nat (zlen bm * 8 - 1)) S bm 2 d (read + r2) (zadd 1 (zadd 0 (m_present a0))) (ffresh S)) as [[p0 f0] u0].
  destruct (unpack_fields (Z.to_nat (zlen bm * 8 - 1)) S bm 2 d (read + r2) (zadd 1 (zadd 0 (m_present a1))) (ffresh S)) as [[p1 f1] u1].
  cbn [fst snd] in *. subst u1 f1. split; [reflexivity|]. intros _. repeat split; try reflexivity. exact G3.
Qed.

(* cleanliness is an invariant of the message operations *)
Lemma map_fst_zupdate {A} k (v : A) l : map fst (zupdate k v l) = map fst l.
Proof. induction l as [|(k', v') r IH]; [reflexivity|]. cbn [zupdate]. destruct (k =? k'); cbn [map fst]; [reflexivity|rewrite IH; reflexivity]. Qed.

Definition MInv (S : mspec) (failed : bytes) (present : list Z) (fields : list (Z * fstate)) : Prop :=
  map fst fields = map fst (ms_fields S) /\
  forall id s, In (id, s) (ms_fields S) -> zmem id present = false -> bytes_eqb (itoa id) failed = false -> zlookup id fields = Some (fresh s).

Definition failed_of {A} (r : ures A) : bytes := match r with UErr (idb :: _) _ => idb | _ => [] end.

(* every element that is not populated is as new - whatever the failed id *)
Definition MAll (S : mspec) (present : list Z) (fields : list (Z * fstate)) : Prop :=
  map fst fields = map fst (ms_fields S) /\ forall id s, In (id, s) (ms_fields S) -> zmem id present = false -> zlookup id fields = Some (fresh s).

Lemma mall_minv S failed present fields : MAll S present fields -> MInv S failed present fields.
Proof. intros (Hk & Hf). split; [exact Hk|]. intros id s Hi Hm _. apply Hf; assumption. Qed.

Lemma unpack_fields_minv S bm : NoDup (map fst (ms_fields S)) -> forall fuel i src off present fields, MAll S present fields ->
  MInv S (failed_of (snd (unpack_fields fuel S bm i src off present fields)))
         (fst (fst (unpack_fields fuel S bm i src off present fields))) (snd (fst (unpack_fields fuel S bm i src off present fields))).
Proof.
  intros Hnd. induction fuel as [|f IH]; intros i src off present fields Hinv; [apply mall_minv; exact Hinv|]. cbn [unpack_fields].
  destruct (bm_is_presence_bit (ms_bm S) i); [apply IH; exact Hinv|]. destruct (bm_isset bm i); [|apply IH; exact Hinv].
  destruct (zlookup i (ms_fields S)) as [s|] eqn:Es; [|apply mall_minv; exact Hinv]. destruct (zlookup i fields) as [st|] eqn:Est; [|apply mall_minv; exact Hinv].
  destruct Hinv as (Hk & Hf).
  destruct (unpack_f s st (zdrop off src)) as [st' [read|pth e|q|]]; cbn [fst snd failed_of].
  - apply IH. split; [rewrite map_fst_zupdate; exact Hk|]. intros id s0 Hi Hm. rewrite zmem_zadd in Hm. apply Bool.orb_false_iff in Hm. destruct Hm as (Hne & Hm).
    rewrite zlookup_zupdate_other by lia. apply Hf; assumption.
  - split; [rewrite map_fst_zupdate; exact Hk|]. intros id s0 Hi Hm Hfl. destruct (Z.eq_dec i id) as [->|Hne].
    + rewrite bytes_eqb_refl in Hfl. discriminate.
    + rewrite zlookup_zupdate_other by exact Hne. apply Hf; assumption.
  - apply mall_minv. split; assumption.
  - apply mall_minv. split; assumption.
Qed.

Theorem m_unpack_clean S m d : NoDup (map fst (ms_fields S)) -> msg_clean S m -> msg_clean S (fst (m_unpack S m d)).
Proof.
  intros Hnd Hc. unfold m_unpack. cbv zeta. rewrite (reset_fields_clean S m Hnd Hc).
  set (a := with_bm (m_bitmap S (with_present (with_failed (with_fields m (ffresh S)) []) [])) (bm_new (ms_bm S))).
  assert (Hfa : m_fields a = ffresh S /\ m_failed a = []) by (unfold a, m_bitmap, with_present, with_fields, with_bm, with_failed; cbn [m_bmcached]; destruct (m_bmcached m); split; reflexivity).
  destruct Hfa as (Hfa & Hfl).
  assert (Hfresh : forall p, MAll S p (ffresh S)).
  { intros p. split; [apply map_fst_ffresh|]. intros id s Hi _. rewrite zlookup_ffresh, (In_zlookup_nodup id s _ Hnd Hi). reflexivity. }
  cbn [unpack_f]. destruct (prim_unpack (ms_mti S) (m_mti a) d) as [mt [read|pth e|q|]]; cbn [fst];
    try (unfold msg_clean; cbn [with_mti with_present with_bm with_fields with_failed m_fields m_present m_failed]; rewrite Hfa, Hfl; apply (mall_minv S [] _ _ (Hfresh _))).
  cbn [with_present with_mti with_bm with_fields m_bm m_present m_fields m_mti].
  destruct (bm_unpack (ms_bm S) (m_bm a) (zdrop read d)) as [bm [r2|e|q|]]; cbn [fst];
    try (unfold msg_clean; cbn [with_mti with_present with_bm with_fields with_failed m_fields m_present m_failed]; rewrite Hfa, Hfl; apply (mall_minv S [] _ _ (Hfresh _))).
  rewrite Hfa.
  pose proof (unpack_fields_minv S bm Hnd (Z.to_nat (zlen bm * 8 - 1)) 2 d (read + r2) (zadd 1 (zadd 0 (m_present a))) (ffresh S) (Hfresh _)) as Hi.
  destruct (unpack_fields (Z.to_nat (zlen bm * 8 - 1)) S bm 2 d (read + r2) (zadd 1 (zadd 0 (m_present a))) (ffresh S)) as [[p f] u].
  cbn [fst snd] in *. unfold msg_clean. cbn [with_failed with_fields with_present m_fields m_present m_failed]. exact Hi.
Qed.

Theorem m_unset_clean S m id : NoDup (map fst (ms_fields S)) -> (forall i s, In (i, s) (ms_fields S) -> 2 <= i) ->
  msg_clean S m -> msg_clean S (m_unset S m id).
Proof.
  intros Hnd H2 (Hk & Hf). unfold m_unset. destruct (zmem id (m_present m)) eqn:Em; [|split; assumption].
  assert (Hrem : forall i s, In (i, s) (ms_fields S) -> zmem i (zremove id (m_present m)) = false -> bytes_eqb (itoa i) (m_failed m) = false ->
                 i <> id -> zlookup i (m_fields m) = Some (fresh s)).
  { intros i s Hi Hm Hfl Hne. apply Hf; [exact Hi| |exact Hfl]. rewrite zmem_zremove in Hm by exact Hne. exact Hm. }
  destruct (id =? 0) eqn:E0; [|destruct (id =? 1) eqn:E1].
  - split; [exact Hk|]. cbn [with_mti with_present m_fields m_present m_failed]. intros i s Hi Hm Hfl. apply Hrem; [exact Hi|exact Hm|exact Hfl|]. specialize (H2 i s Hi). lia.
  - split; [exact Hk|]. cbn [with_bm with_present m_fields m_present m_failed]. intros i s Hi Hm Hfl. apply Hrem; [exact Hi|exact Hm|exact Hfl|]. specialize (H2 i s Hi). lia.
  - destruct (zlookup id (ms_fields S)) as [s0|] eqn:Es.
    + split; [cbn [with_fields with_present m_fields]; rewrite map_fst_zupdate; exact Hk|]. cbn [with_fields with_present m_fields m_present m_failed].
      intros i s Hi Hm Hfl. destruct (Z.eq_dec id i) as [->|Hne].
      * assert (Hx : exists x, zlookup i (m_fields m) = Some x) by (apply In_zlookup; rewrite Hk; change i with (fst (i, s)); apply in_map; exact Hi).
        rewrite zlookup_zupdate_same by exact Hx. rewrite (In_zlookup_nodup i s _ Hnd Hi) in Es. congruence.
      * rewrite zlookup_zupdate_other by exact Hne. apply Hrem; [exact Hi|exact Hm|exact Hfl|congruence].
    + split; [exact Hk|]. cbn [with_present m_fields m_present m_failed]. intros i s Hi Hm Hfl. apply Hrem; [exact Hi|exact Hm|exact Hfl|].
      intros ->. rewrite (In_zlookup_nodup id s _ Hnd Hi) in Es. discriminate.
Qed.

(* the setters by id keep the object clean: the element written becomes populated, nothing else changes *)
Theorem m_set_field_clean S m id val : msg_clean S m -> msg_clean S (fst (m_set_field S m id val)).
Proof.
  intros (Hk & Hf).
  assert (G : forall p, (forall i, zmem i (m_present m) = true -> zmem i p = true) -> forall fl, map fst fl = map fst (m_fields m) ->
              (forall i, zmem i p = false -> zlookup i fl = zlookup i (m_fields m)) ->
              forall mm, m_fields mm = fl -> m_present mm = p -> m_failed mm = m_failed m -> msg_clean S mm).
  { intros p Hp fl Hkl Hfl mm E1 E2 E3. split; [rewrite E1, Hkl; exact Hk|]. intros i s Hi Hm Hfa. rewrite E2 in Hm. rewrite E3 in Hfa. rewrite E1, (Hfl i Hm).
    apply Hf; [exact Hi| |exact Hfa]. destruct (zmem i (m_present m)) eqn:E; [|reflexivity]. rewrite (Hp i E) in Hm. discriminate. }
  assert (Hadd : forall k i, zmem i (m_present m) = true -> zmem i (zadd k (m_present m)) = true) by (intros k i H; rewrite zmem_zadd, H; apply Bool.orb_true_r).
  unfold m_set_field. destruct (id =? 0) eqn:E0.
  - destruct (setbytes_f (FPrim (ms_mti S)) _ val) as [st r]. cbn [fst].
    apply (G (zadd 0 (m_present m)) (Hadd 0) (m_fields m)); reflexivity || (intros; reflexivity).
  - destruct (id =? 1) eqn:E1.
    + cbn [fst]. apply (G (zadd 1 (m_present m)) (Hadd 1) (m_fields m)); reflexivity || (intros; reflexivity).
    + destruct (zlookup id (ms_fields S)) as [s0|]; [|split; assumption]. destruct (zlookup id (m_fields m)) as [st|] eqn:Est; [|split; assumption].
      destruct (setbytes_f s0 st val) as [st' r]. cbn [fst].
      apply (G (zadd id (m_present m)) (Hadd id) (zupdate id st' (m_fields m))); try reflexivity; [apply map_fst_zupdate|].
      intros i Hm. rewrite zmem_zadd in Hm. apply Bool.orb_false_iff in Hm. destruct Hm as (Hne & _). apply zlookup_zupdate_other. lia.
Qed.
