(* C04, allocation for whole trees: the bytes held by everything a successful Unpack leaves populated - at every depth -
   are at most four times the bytes the field consumed from the input (tree_size <= 4 * n). Announced lengths never enter:
   what is kept follows the input that was present. About Model/Field.v. *)
From Iso Require Import Model.Base Model.Padding Model.Encoding Model.Prefix Model.Bitmap Model.Spec Model.Field
     Proofs.BaseLemmas Proofs.PaddingProofs Proofs.EncodingProofs Proofs.PrefixProofs Proofs.FieldProofs
     Proofs.CompositeLoops Proofs.CompositeProofs Proofs.IndependenceProofs Proofs.AllocProofs Proofs.NoPanicProofs.
From Coq Require Import ZifyBool ZifyNat ZifyN.
Set Default Timeout 120.

Section Sum.
  Variable size : fspec -> fstate -> Z.
  Hypothesis size_nonneg : forall s x, 0 <= size s x.

  (* the bytes held by the set subfields *)
  Fixpoint sum_set (subs : list (bytes * fspec)) (set : list bytes) (sts : list (bytes * fstate)) : Z :=
    match subs with
    | [] => 0
    | (t, s') :: r => (if bmem t set then match blookup t sts with Some x => size s' x | None => 0 end else 0) + sum_set r set sts
    end.

  Lemma sum_set_nonneg subs set sts : 0 <= sum_set subs set sts.
  Proof.
    induction subs as [|(t, s') r IH]; cbn [sum_set]; [lia|]. destruct (bmem t set); [|lia].
    destruct (blookup t sts) as [x|]; [pose proof (size_nonneg s' x)|]; lia.
  Qed.

  Lemma sum_set_nil subs sts : sum_set subs [] sts = 0.
  Proof. induction subs as [|(t, s') r IH]; cbn [sum_set bmem existsb]; [reflexivity|]. unfold bmem. cbn [existsb]. rewrite IH. reflexivity. Qed.

  Lemma sum_set_other subs tag set st' sts : ~ In tag (map fst subs) ->
    sum_set subs (badd tag set) (bupdate tag st' sts) = sum_set subs set sts.
  Proof.
    induction subs as [|(t, s') r IH]; intros Hn; cbn [sum_set]; [reflexivity|]. cbn [map fst In] in Hn.
    assert (Hne : tag <> t) by (intros ->; apply Hn; left; reflexivity).
    rewrite IH by (intros H; apply Hn; right; exact H). rewrite bmem_badd.
    replace (bytes_eqb t tag) with false by (symmetry; apply bytes_eqb_neq; congruence). cbn [orb].
    rewrite blookup_bupdate_other by exact Hne. reflexivity.
  Qed.

  Lemma sum_set_step subs tag s' set st' sts : NoDup (map fst subs) -> In (tag, s') subs ->
    sum_set subs (badd tag set) (bupdate tag st' sts) <= sum_set subs set sts + size s' st'.
  Proof.
    induction subs as [|(t, s1) r IH]; intros Hnd Hin; [destruct Hin|]. cbn [map fst] in Hnd. apply NoDup_cons_iff in Hnd. destruct Hnd as (Hnt & Hndr).
    cbn [sum_set]. destruct Hin as [Heq|Hin].
    - inversion Heq; subst t s1. rewrite (sum_set_other r tag set st' sts Hnt). rewrite bmem_badd, bytes_eqb_refl. cbn [orb].
      assert (Hold : 0 <= (if bmem tag set then match blookup tag sts with Some x => size s' x | None => 0 end else 0)).
      { destruct (bmem tag set); [|lia]. destruct (blookup tag sts) as [x|]; [apply size_nonneg|lia]. }
      destruct (blookup tag sts) as [x|] eqn:Ex.
      + rewrite blookup_bupdate_same by (exists x; exact Ex). lia.
      + assert (Hn : blookup tag (bupdate tag st' sts) = None).
        { clear -Ex. induction sts as [|(k, v) l IHl]; [reflexivity|]. cbn [blookup bupdate] in *. destruct (bytes_eqb tag k) eqn:E; [discriminate|].
          cbn [blookup]. rewrite E. apply IHl. exact Ex. }
        rewrite Hn. pose proof (size_nonneg s' st'). lia.
    - assert (Hne : tag <> t) by (intros ->; apply Hnt; change t with (fst (t, s')); apply in_map; exact Hin).
      specialize (IH Hndr Hin). rewrite bmem_badd. replace (bytes_eqb t tag) with false by (symmetry; apply bytes_eqb_neq; congruence). cbn [orb].
      rewrite blookup_bupdate_other by exact Hne. lia.
  Qed.
End Sum.

(* the bytes a state holds in what is populated, at every depth *)
Fixpoint tree_size (s : fspec) : fstate -> Z :=
  match s with
  | FPrim _ => prim_size
  | FComp _ _ _ subs => fun st =>
      match st with
      | SComp set sts =>
          (fix go (l : list (bytes * fspec)) : Z :=
             match l with
             | [] => 0
             | (t, s') :: r => (if bmem t set then match blookup t sts with Some x => tree_size s' x | None => 0 end else 0) + go r
             end) subs
      | _ => 0
      end
  end.

Lemma tree_size_comp pref len mode subs set sts : tree_size (FComp pref len mode subs) (SComp set sts) = sum_set tree_size subs set sts.
Proof. cbn [tree_size]. induction subs as [|(t, s') r IH]; [reflexivity|]. cbn [sum_set]. rewrite IH. reflexivity. Qed.

Lemma prim_size_nonneg st : 0 <= prim_size st.
Proof. destruct st; cbn [prim_size]; try apply zlen_nonneg; lia. Qed.

Lemma tree_size_nonneg s : forall st, 0 <= tree_size s st.
Proof.
  induction s as [p|pref len mode subs IH] using fspec_ind'; intros st; [apply prim_size_nonneg|].
  destruct st as [v|v|v|v|set sts]; cbn [tree_size]; try lia. fold (tree_size).
  induction subs as [|(t, s') r IHr]; [lia|]. assert (Hr : forall t0 s0, In (t0, s0) r -> forall st, 0 <= tree_size s0 st) by (intros t0 s0 Hi; apply (IH t0 s0); right; exact Hi).
  specialize (IHr Hr). destruct (bmem t set); [|lia]. destruct (blookup t sts) as [x|]; [|lia]. pose proof (IH t s' (or_introl eq_refl) x). lia.
Qed.

Definition size_ok (s : fspec) : Prop := forall st0 d st n, unpack_f s st0 d = (st, UOk n) -> tree_size s st <= 4 * n /\ 0 <= n.

Section SizeLoops.
  Variable subs : list (bytes * fspec).
  Hypothesis Hnd : NoDup (map fst subs).
  Hypothesis Hsub : forall t s', In (t, s') subs -> size_ok s'.
  Let SS := sum_set tree_size subs.

  Lemma gou_in tag up : blookup tag (gou subs) = Some up -> exists s', In (tag, s') subs /\ up = unpack_f s'.
  Proof. rewrite blookup_gou. destruct (blookup tag subs) as [s'|] eqn:E; [|discriminate]. intros H. inversion H. exists s'. split; [apply blookup_In; exact E|reflexivity]. Qed.

  Lemma step_size set sts tag s' st st' d n off : In (tag, s') subs -> unpack_f s' st d = (st', UOk n) -> SS set sts <= 4 * off ->
    SS (badd tag set) (bupdate tag st' sts) <= 4 * (off + n) /\ 0 <= n.
  Proof.
    intros Hin Hu Hs. destruct (Hsub tag s' Hin st d st' n Hu) as (Hsz & Hn). split; [|exact Hn].
    pose proof (sum_set_step tree_size tree_size_nonneg subs tag s' set st' sts Hnd Hin). unfold SS in *. lia.
  Qed.

  Lemma by_tag_size t e : forall fuel data off set sts set' sts' n, 0 <= off -> SS set sts <= 4 * off ->
    unpack_by_tag (gou subs) (gof subs) fuel t e data off set sts = ((set', sts'), UOk n) -> SS set' sts' <= 4 * n /\ off <= n.
  Proof.
    induction fuel as [|f IH]; intros data off set sts set' sts' n H0 Hs H; cbn [unpack_by_tag] in H; [discriminate|].
    destruct (zlen data <=? off); [inversion H; subst; split; [exact Hs|lia]|].
    destruct (enc_decode e (zdrop off data) (tg_len t)) as [[tagb read]| | |] eqn:Ed; try discriminate.
    pose proof (enc_decode_read_bounds _ _ _ _ _ Ed) as Hrd.
    destruct (blookup (unpad (tg_pad t) tagb) (gou subs)) as [up|] eqn:Eu.
    - destruct (gou_in _ _ Eu) as (s' & Hin & ->). unfold sub_state in H. destruct (blookup (unpad (tg_pad t) tagb) sts) as [st|] eqn:Est.
      + destruct (unpack_f s' st (zdrop (off + read) data)) as [st' [read2|p er|q|]] eqn:Eup; try discriminate.
        destruct (step_size set sts _ s' st st' _ read2 (off + read) Hin Eup ltac:(lia)) as (Hs' & Hr2).
        destruct (IH data (off + read + read2) _ _ set' sts' n ltac:(lia) Hs' H) as (A & B). split; [exact A|lia].
      + destruct (IH data (off + read) set sts set' sts' n ltac:(lia) ltac:(lia) H) as (A & B). split; [exact A|lia].
    - destruct (skip_unknown t); [|discriminate].
      destruct (tg_prefunk t) as [pu|].
      + destruct (dec_len pu max_int (zdrop (off + read) data)) as [[flen read2]| | |] eqn:El; try discriminate.
        destruct (pref_dec_bounded pu max_int _ flen read2 ltac:(unfold max_int; lia) El) as (Hf0 & _ & Hr2 & _).
        destruct ((flen <? 0) || (zlen data - (off + read) - read2 <? flen)) eqn:Ef; [discriminate|].
        assert (0 <= flen) by lia.
        destruct (IH data (off + read + flen + read2) set sts set' sts' n ltac:(lia) ltac:(lia) H) as (A & B). split; [exact A|lia].
      + destruct (dec_len PBerTLV 0 (zdrop (off + read) data)) as [[flen read2]| | |] eqn:El; try discriminate.
        destruct (pref_dec_bounded PBerTLV 0 _ flen read2 (Z.le_refl 0) El) as (Hf0 & _ & Hr2 & _).
        destruct ((flen <? 0) || (zlen data - (off + read) - read2 <? flen)) eqn:Ef; [discriminate|].
        assert (0 <= flen) by lia.
        destruct (IH data (off + read + flen + read2) set sts set' sts' n ltac:(lia) ltac:(lia) H) as (A & B). split; [exact A|lia].
  Qed.

  Lemma bits_size bm : forall fuel i data off set sts set' sts' n, 0 <= off -> SS set sts <= 4 * off ->
    unpack_bits (gou subs) (gof subs) fuel bm i data off set sts = ((set', sts'), UOk n) -> SS set' sts' <= 4 * n /\ off <= n.
  Proof.
    induction fuel as [|f IH]; intros i data off set sts set' sts' n H0 Hs H; cbn [unpack_bits] in H; [inversion H; subst; split; [exact Hs|lia]|].
    destruct (bm_isset bm i); [|apply (IH _ _ _ _ _ _ _ _ H0 Hs H)].
    destruct (blookup (itoa i) (gou subs)) as [up|] eqn:Eu; [|discriminate]. destruct (gou_in _ _ Eu) as (s' & Hin & ->).
    unfold sub_state in H. destruct (blookup (itoa i) sts) as [st|] eqn:Est; [|discriminate].
    destruct (unpack_f s' st (zdrop off data)) as [st' [read|p er|q|]] eqn:Eup; try discriminate.
    destruct (step_size set sts _ s' st st' _ read off Hin Eup Hs) as (Hs' & Hr).
    destruct (IH (i + 1) data (off + read) _ _ set' sts' n ltac:(lia) Hs' H) as (A & B). split; [exact A|lia].
  Qed.

  Lemma positional_size isvar : forall order data off set sts set' sts' n, 0 <= off -> SS set sts <= 4 * off ->
    (forall t, In t order -> In t (map fst subs)) ->
    unpack_positional (gou subs) (gof subs) order isvar data off set sts = ((set', sts'), UOk n) -> SS set' sts' <= 4 * n /\ off <= n.
  Proof.
    induction order as [|tag rest IH]; intros data off set sts set' sts' n H0 Hs Hin H; cbn [unpack_positional] in H.
    - inversion H; subst. split; [exact Hs|lia].
    - assert (Htag : In tag (map fst subs)) by (apply Hin; left; reflexivity). apply in_map_iff in Htag. destruct Htag as ((t0, s') & Ht0 & Hi). cbn [fst] in Ht0. subst t0.
      rewrite blookup_gou, (In_blookup_nodup tag s' subs Hnd Hi) in H. cbn [option_map] in H.
      unfold sub_state in H. destruct (blookup tag sts) as [st|] eqn:Est; [|apply (IH data off set sts set' sts' n H0 Hs (fun t Ht => Hin t (or_intror Ht)) H)].
      destruct (unpack_f s' st (zdrop off data)) as [st' [read|p er|q|]] eqn:Eup; try (destruct er; discriminate); try discriminate.
      destruct (step_size set sts tag s' st st' _ read off Hi Eup Hs) as (Hs' & Hr).
      destruct (isvar && (zlen data <=? off + read)).
      + inversion H; subst. split; [exact Hs'|lia].
      + destruct (IH data (off + read) _ _ set' sts' n ltac:(lia) Hs' (fun t Ht => Hin t (or_intror Ht)) H) as (A & B). split; [exact A|lia].
  Qed.
End SizeLoops.

Lemma bm_unpack_loop_read s minLen : forall fuel rest read acc bm n, 0 <= read -> bm_unpack_loop fuel s minLen rest read acc = (bm, Ok n) -> read <= n.
Proof.
  induction fuel as [|f IH]; intros rest read acc bm n H0 H; cbn [bm_unpack_loop] in H; [discriminate|].
  destruct (enc_decode (bm_enc s) rest minLen) as [[decoded r]| | |] eqn:Ed; try discriminate.
  pose proof (enc_decode_read_bounds _ _ _ _ _ Ed) as Hr.
  destruct (negb (bm_auto s)); [inversion H; subst; lia|]. destruct decoded as [|b0 dr]; [discriminate|].
  destruct (bz b0 <? 128); [inversion H; subst; lia|]. assert (Hrr : 0 <= read + r) by lia. specialize (IH _ _ _ _ _ Hrr H). lia.
Qed.

Theorem comp_size_ok pref len mode subs : NoDup (map fst subs) -> 0 <= len -> (forall t s', In (t, s') subs -> size_ok s') ->
  size_ok (FComp pref len mode subs).
Proof.
  intros Hnd HL Hsub st0 d st n Hu.
  destruct st0 as [v|v|v|v|set0 sts0]; try (cbn [unpack_f] in Hu; inversion Hu; fail).
  cbn [unpack_f] in Hu. fold (gou subs) in Hu. fold (gof subs) in Hu.
  destruct (dec_len pref len d) as [[dlen offset]| | |] eqn:Ed; try (inversion Hu; fail).
  destruct (pref_dec_bounded _ _ _ _ _ HL Ed) as (Hd0 & _ & Hoff & _).
  destruct ((dlen <? 0) || (zlen d - offset <? dlen)); [inversion Hu|]. cbv zeta in Hu.
  destruct (comp_unpack_body (gou subs) mode (ordered_tags mode subs) (gof subs) set0 sts0 (ztake dlen (zdrop offset d)) (negb (offset =? 0))) as [[set' sts'] [read|p e|q|]] eqn:Eb; try (inversion Hu; fail).
  destruct (negb (dlen =? read)) eqn:Er; [inversion Hu|]. assert (st = SComp set' sts') by (inversion Hu; reflexivity). assert (n = offset + read) by (inversion Hu; reflexivity). subst st n. clear Hu.
  rewrite tree_size_comp.
  assert (H00 : sum_set tree_size subs [] (reset_set (gof subs) set0 sts0) <= 4 * 0) by (rewrite sum_set_nil; lia).
  unfold comp_unpack_body in Eb.
  assert (Hfinal : sum_set tree_size subs set' sts' <= 4 * read /\ 0 <= read).
  { destruct mode as [t|b].
    - destruct (tg_enc t) as [e|] eqn:Ee.
      + apply (by_tag_size subs Hnd Hsub t e _ _ _ _ _ _ _ _ (Z.le_refl 0) H00 Eb).
      + apply (positional_size subs Hnd Hsub _ _ _ _ _ _ _ _ _ (Z.le_refl 0) H00 (fun t0 Ht => proj1 (ordered_tags_In (CTag t) subs t0) Ht) Eb).
    - destruct (bm_unpack b (bm_new b) (ztake dlen (zdrop offset d))) as [bm [rd|er|q|]] eqn:Ebm; try discriminate.
      assert (Hrd : 0 <= rd).
      { unfold bm_unpack in Ebm. destruct (dec_len (bm_pref b) (bm_len b) _) as [[minLen x]| | |]; try discriminate.
        apply (bm_unpack_loop_read b minLen _ _ 0 [] bm rd (Z.le_refl 0) Ebm). }
      assert (Hs0 : sum_set tree_size subs [] (reset_set (gof subs) set0 sts0) <= 4 * rd) by (rewrite sum_set_nil; lia).
      destruct (bits_size subs Hnd Hsub bm _ _ _ _ _ _ _ _ _ Hrd Hs0 Eb) as (A & B). split; [exact A|lia]. }
  destruct Hfinal as (A & B). split; lia.
Qed.

(* every primitive uses the default packer (the Track2 packer belongs to track fields, which are not composites' subfields
   in any shipped specification) *)
Fixpoint plain (s : fspec) : Prop :=
  match s with
  | FPrim p => ps_packer p = PkDefault
  | FComp _ _ _ subs => (fix go (l : list (bytes * fspec)) : Prop := match l with [] => True | (_, s') :: r => plain s' /\ go r end) subs
  end.

Lemma plain_subs subs : (fix go (l : list (bytes * fspec)) : Prop := match l with [] => True | (_, s') :: r => plain s' /\ go r end) subs ->
  forall tag s', In (tag, s') subs -> plain s'.
Proof. induction subs as [|(t, s1) r IH]; intros H tag s' Hi; [destruct Hi|]. destruct H as (H1 & H2). destruct Hi as [Hi|Hi]; [congruence|eapply IH; eassumption]. Qed.

(* every field of a well-formed specification (NoPanicProofs.wfs: non-negative lengths, distinct tags) *)
Theorem unpack_size_tree s : wfs s -> plain s -> size_ok s.
Proof.
  induction s as [p|pref len mode subs IH] using fspec_ind'; intros Hw Hpl.
  - cbn [wfs] in Hw. cbn [plain] in Hpl. intros st0 d st n Hu. cbn [unpack_f] in Hu. cbn [tree_size].
    destruct (prim_unpack_size p st0 d st n Hw Hpl Hu) as (A & B & _). split; assumption.
  - cbn [wfs] in Hw. destruct Hw as (HL & Hnd & _ & Hws). pose proof (wfs_subs subs Hws) as Hws'. cbn [plain] in Hpl. pose proof (plain_subs subs Hpl) as Hpl'.
    apply (comp_size_ok pref len mode subs Hnd HL). intros t s' Hi. apply (IH t s' Hi (Hws' t s' Hi) (Hpl' t s' Hi)).
Qed.

(* ---------------- messages ---------------- *)
From Iso Require Import Model.Message Proofs.StateProofs Proofs.MessageRoundtrip.

(* the bytes held by the populated data elements *)
Fixpoint zsum (fields : list (Z * fspec)) (present : list Z) (fl : list (Z * fstate)) : Z :=
  match fields with
  | [] => 0
  | (id, s) :: r => (if zmem id present then match zlookup id fl with Some x => tree_size s x | None => 0 end else 0) + zsum r present fl
  end.

Lemma zsum_other fields id present st' fl : ~ In id (map fst fields) -> zsum fields (zadd id present) (zupdate id st' fl) = zsum fields present fl.
Proof.
  induction fields as [|(k, s) r IH]; intros Hn; cbn [zsum]; [reflexivity|]. cbn [map fst In] in Hn.
  assert (Hne : id <> k) by (intros ->; apply Hn; left; reflexivity).
  rewrite IH by (intros H; apply Hn; right; exact H). rewrite zmem_zadd. replace (k =? id) with false by lia. cbn [orb].
  rewrite zlookup_zupdate_other by exact Hne. reflexivity.
Qed.

Lemma zlookup_zupdate_none {A} id (v : A) l : zlookup id l = None -> zlookup id (zupdate id v l) = None.
Proof. induction l as [|(k, w) r IH]; [reflexivity|]. cbn [zlookup zupdate]. destruct (id =? k) eqn:E; [discriminate|]. cbn [zlookup]. rewrite E. exact IH. Qed.

Lemma zsum_step fields id s present st' fl : NoDup (map fst fields) -> In (id, s) fields ->
  zsum fields (zadd id present) (zupdate id st' fl) <= zsum fields present fl + tree_size s st'.
Proof.
  induction fields as [|(k, s1) r IH]; intros Hnd Hin; [destruct Hin|]. cbn [map fst] in Hnd. apply NoDup_cons_iff in Hnd. destruct Hnd as (Hnt & Hndr).
  cbn [zsum]. destruct Hin as [Heq|Hin].
  - inversion Heq; subst k s1. rewrite (zsum_other r id present st' fl Hnt). rewrite zmem_zadd, Z.eqb_refl. cbn [orb].
    assert (Hold : 0 <= (if zmem id present then match zlookup id fl with Some x => tree_size s x | None => 0 end else 0)).
    { destruct (zmem id present); [|lia]. destruct (zlookup id fl) as [x|]; [apply tree_size_nonneg|lia]. }
    destruct (zlookup id fl) as [x|] eqn:Ex.
    + rewrite zlookup_zupdate_same by (exists x; exact Ex). lia.
    + rewrite (zlookup_zupdate_none id st' fl Ex). pose proof (tree_size_nonneg s st'). lia.
  - assert (Hne : id <> k) by (intros ->; apply Hnt; change k with (fst (k, s)); apply in_map; exact Hin).
    specialize (IH Hndr Hin). rewrite zmem_zadd. replace (k =? id) with false by lia. cbn [orb].
    rewrite zlookup_zupdate_other by exact Hne. lia.
Qed.

Lemma zsum_none fields present fl : (forall id, In id (map fst fields) -> zmem id present = false) -> zsum fields present fl = 0.
Proof.
  induction fields as [|(k, s) r IH]; intros H; cbn [zsum]; [reflexivity|]. rewrite (H k) by (left; reflexivity).
  rewrite IH by (intros id Hi; apply H; right; exact Hi). reflexivity.
Qed.

Lemma unpack_fields_size S bm c : NoDup (map fst (ms_fields S)) -> (forall id s, zlookup id (ms_fields S) = Some s -> size_ok s) ->
  forall fuel i src off present fields p' f' n, 0 <= off -> zsum (ms_fields S) present fields + c <= 4 * off ->
    unpack_fields fuel S bm i src off present fields = ((p', f'), UOk n) -> zsum (ms_fields S) p' f' + c <= 4 * n /\ off <= n.
Proof.
  intros Hnd Hok. induction fuel as [|f IH]; intros i src off present fields p' f' n H0 Hs H; cbn [unpack_fields] in H.
  - inversion H; subst. split; [exact Hs|lia].
  - destruct (bm_is_presence_bit (ms_bm S) i); [apply (IH _ _ _ _ _ _ _ _ H0 Hs H)|].
    destruct (bm_isset bm i); [|apply (IH _ _ _ _ _ _ _ _ H0 Hs H)].
    destruct (zlookup i (ms_fields S)) as [s|] eqn:Es; [|discriminate]. destruct (zlookup i fields) as [st|] eqn:Est; [|discriminate].
    destruct (unpack_f s st (zdrop off src)) as [st' [read|pth e|q|]] eqn:Eu; try discriminate.
    destruct (Hok i s Es st _ st' read Eu) as (Hsz & Hr).
    pose proof (zsum_step (ms_fields S) i s present st' fields Hnd (zlookup_In _ _ _ Es)) as Hstep.
    assert (Hoff : 0 <= off + read) by lia.
    assert (Hs' : zsum (ms_fields S) (zadd i present) (zupdate i st' fields) + c <= 4 * (off + read)) by lia.
    destruct (IH (i + 1) src (off + read) _ _ p' f' n Hoff Hs' H) as (A & B). split; [exact A|lia].
Qed.

Definition msg_size (S : mspec) (m : mstate) : Z := prim_size (m_mti m) + zsum (ms_fields S) (m_present m) (m_fields m).

(* what a message holds after an accepted Unpack - MTI and every populated data element at every depth - is at most four
   times the bytes consumed *)
Theorem message_size_bounded S m0 d m n : 0 <= ps_len (ms_mti S) -> ps_packer (ms_mti S) = PkDefault ->
  NoDup (map fst (ms_fields S)) -> (forall id s, In (id, s) (ms_fields S) -> 2 <= id /\ wfs s /\ plain s) ->
  m_unpack S m0 d = (m, UOk n) -> msg_size S m <= 4 * n /\ 0 <= n.
Proof.
  intros HL Hpk Hnd Hel Hu.
  assert (Hok : forall id s, zlookup id (ms_fields S) = Some s -> size_ok s).
  { intros id s Hs. destruct (Hel id s (zlookup_In _ _ _ Hs)) as (_ & Hw & Hp). apply unpack_size_tree; assumption. }
  unfold m_unpack in Hu. cbv zeta in Hu.
  set (m0r := with_failed (with_fields m0 (reset_fields S (m_failed m0) (m_present m0) (m_fields m0))) []) in *.
  set (m1 := with_bm (m_bitmap S (with_present m0r [])) (bm_new (ms_bm S))) in *.
  destruct (unpack_f (FPrim (ms_mti S)) (m_mti m1) d) as [mti' [read|pth e|q|]] eqn:Emti; try (inversion Hu; fail).
  cbn [unpack_f] in Emti. destruct (prim_unpack_size (ms_mti S) _ d mti' read HL Hpk Emti) as (Hmsz & Hr0 & _).
  destruct (bm_unpack (ms_bm S) (m_bm (with_present (with_mti m1 mti') (zadd 0 (m_present m1)))) (zdrop read d)) as [bm [r2|e|q|]] eqn:Ebm; try (inversion Hu; fail).
  assert (Hr2 : 0 <= r2).
  { unfold bm_unpack in Ebm. destruct (dec_len (bm_pref (ms_bm S)) (bm_len (ms_bm S)) _) as [[minLen x]| | |]; try discriminate.
    apply (bm_unpack_loop_read (ms_bm S) minLen _ _ 0 [] bm r2 (Z.le_refl 0) Ebm). }
  cbn [with_present with_bm with_mti m_present m_fields m_bm m_mti m_bmcached] in Hu.
  destruct (unpack_fields (Z.to_nat (zlen bm * 8 - 1)) S bm 2 d (read + r2) (zadd 1 (zadd 0 (m_present m1))) (m_fields m1)) as [[p fl] r] eqn:Ef.
  assert (r = UOk n) by congruence. subst r.
  assert (Hm : m = {| m_mti := mti'; m_fields := fl; m_present := p; m_bm := bm; m_bmcached := m_bmcached m1; m_failed := [] |}) by (inversion Hu; reflexivity).
  clear Hu. subst m. unfold msg_size. cbn [m_mti m_present m_fields].
  assert (Hinit : zsum (ms_fields S) (zadd 1 (zadd 0 (m_present m1))) (m_fields m1) = 0).
  { apply zsum_none. intros id Hid. apply in_map_iff in Hid. destruct Hid as ((k, s) & Hk & Hi). cbn [fst] in Hk. subst k.
    destruct (Hel id s Hi) as (H2 & _). rewrite !zmem_zadd. replace (id =? 1) with false by lia. replace (id =? 0) with false by lia. cbn [orb].
    unfold m1, m_bitmap. cbn [with_bm with_present m_present m_bmcached]. destruct (m_bmcached m0r); cbn [m_present with_present]; [reflexivity|].
    rewrite zmem_zadd. replace (id =? 1) with false by lia. reflexivity. }
  assert (Hoff : 0 <= read + r2) by lia.
  assert (Hs0 : zsum (ms_fields S) (zadd 1 (zadd 0 (m_present m1))) (m_fields m1) + prim_size mti' <= 4 * (read + r2)) by (rewrite Hinit; lia).
  destruct (unpack_fields_size S bm (prim_size mti') Hnd Hok _ _ _ _ _ _ _ _ n Hoff Hs0 Ef) as (A & B).
  split; lia.
Qed.

(* ---------------- a decision procedure for the hypotheses (run on the shipped specifications) ---------------- *)
From Iso Require Import Proofs.CoherenceCheck.

Fixpoint plainb (s : fspec) : bool :=
  match s with
  | FPrim p => match ps_packer p with PkDefault => true | _ => false end
  | FComp _ _ _ subs => (fix go (l : list (bytes * fspec)) : bool := match l with [] => true | (_, s') :: r => plainb s' && go r end) subs
  end.

Lemma plainb_sound s : plainb s = true -> plain s.
Proof.
  induction s as [p|pref len mode subs IH] using fspec_ind'; intros H.
  - cbn [plainb plain] in *. destruct (ps_packer p); [reflexivity|discriminate].
  - cbn [plainb] in H. cbn [plain]. induction subs as [|(t, s1) r IHr]; [exact I|]. apply Bool.andb_true_iff in H. destruct H as (Ha & Hb). split.
    + apply (IH t s1 (or_introl eq_refl)). exact Ha.
    + apply IHr; [intros tag s' Hi; apply (IH tag s'); right; exact Hi|exact Hb].
Qed.

Fixpoint nodupzb (l : list Z) : bool := match l with [] => true | x :: r => negb (zmem x r) && nodupzb r end.
Lemma nodupzb_sound l : nodupzb l = true -> NoDup l.
Proof.
  induction l as [|x r IH]; intros H; [constructor|]. cbn [nodupzb] in H. apply Bool.andb_true_iff in H. destruct H as (H1 & H2).
  constructor; [|apply IH; exact H2]. intros Hi. apply zmem_In in Hi. rewrite Hi in H1. discriminate.
Qed.

Definition sizedb (S : mspec) : bool :=
  (0 <=? ps_len (ms_mti S)) && (match ps_packer (ms_mti S) with PkDefault => true | _ => false end) && nodupzb (map fst (ms_fields S)) &&
  forallb (fun ids => (2 <=? fst ids) && wfsb (snd ids) && plainb (snd ids)) (ms_fields S).

Definition sized (S : mspec) : Prop :=
  0 <= ps_len (ms_mti S) /\ ps_packer (ms_mti S) = PkDefault /\ NoDup (map fst (ms_fields S)) /\
  forall id s, In (id, s) (ms_fields S) -> 2 <= id /\ wfs s /\ plain s.

Theorem sizedb_sound S : sizedb S = true -> sized S.
Proof.
  unfold sizedb. intros H. apply Bool.andb_true_iff in H. destruct H as (H & H4). apply Bool.andb_true_iff in H. destruct H as (H & H3).
  apply Bool.andb_true_iff in H. destruct H as (H1 & H2).
  split; [lia|]. split; [destruct (ps_packer (ms_mti S)); [reflexivity|discriminate]|]. split; [apply nodupzb_sound; exact H3|].
  intros id s Hi. rewrite forallb_forall in H4. specialize (H4 (id, s) Hi). cbn [fst snd] in H4.
  apply Bool.andb_true_iff in H4. destruct H4 as (Ha & Hc). apply Bool.andb_true_iff in Ha. destruct Ha as (Ha & Hb).
  split; [lia|]. split; [apply wfsb_sound; exact Hb|apply plainb_sound; exact Hc].
Qed.
