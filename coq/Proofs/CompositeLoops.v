(* Composite fields: the unpack loops of tagged (TLV) and positional composites against the pack loop. About Model/Field.v. *)
From Iso Require Import Model.Base Model.Padding Model.Encoding Model.Prefix Model.Bitmap Model.Spec Model.Field
     Proofs.BaseLemmas Proofs.PaddingProofs Proofs.EncodingProofs Proofs.DigitsProofs Proofs.PrefixProofs Proofs.FieldProofs.
From Coq Require Import ZifyBool ZifyNat ZifyN.
Set Default Timeout 120.

(* ---------------- association lists ---------------- *)
Lemma bytes_eqb_eq a b : bytes_eqb a b = true <-> a = b.
Proof.
  revert b. induction a as [|x a IH]; intros [|y b]; cbn [bytes_eqb]; try (split; [discriminate|discriminate]); [tauto|].
  rewrite Bool.andb_true_iff, byte_eqb_eq, IH. split; [intros (-> & ->); reflexivity|intros H; inversion H; tauto].
Qed.
Lemma bytes_eqb_refl a : bytes_eqb a a = true.
Proof. apply bytes_eqb_eq. reflexivity. Qed.
Lemma bytes_eqb_neq a b : bytes_eqb a b = false <-> a <> b.
Proof. destruct (bytes_eqb a b) eqn:E; [apply bytes_eqb_eq in E; split; [discriminate|congruence]|]. split; [intros _ H; apply bytes_eqb_eq in H; congruence|reflexivity]. Qed.

Lemma blookup_bupdate_same {A} k (v : A) l : (exists w, blookup k l = Some w) -> blookup k (bupdate k v l) = Some v.
Proof.
  induction l as [|(k', v') r IH]; cbn [blookup bupdate]; intros (w & H); [discriminate|].
  destruct (bytes_eqb k k') eqn:E; cbn [blookup]; rewrite E; [reflexivity|]. apply IH. exists w. exact H.
Qed.
Lemma blookup_bupdate_other {A} k k' (v : A) l : k <> k' -> blookup k' (bupdate k v l) = blookup k' l.
Proof.
  intros Hn. induction l as [|(k2, v2) r IH]; cbn [blookup bupdate]; [reflexivity|].
  destruct (bytes_eqb k k2) eqn:E; cbn [blookup].
  - apply bytes_eqb_eq in E. subst k2. replace (bytes_eqb k' k) with false by (symmetry; apply bytes_eqb_neq; congruence). reflexivity.
  - rewrite IH. reflexivity.
Qed.
Lemma bmem_In k l : bmem k l = true <-> In k l.
Proof.
  unfold bmem. rewrite existsb_exists. split.
  - intros (x & Hi & He). apply bytes_eqb_eq in He. subst. exact Hi.
  - intros H. exists k. split; [exact H|apply bytes_eqb_refl].
Qed.
Lemma bmem_app k a b : bmem k (a ++ b) = bmem k a || bmem k b.
Proof. unfold bmem. apply existsb_app. Qed.
Lemma bmem_badd k k' l : bmem k' (badd k l) = bytes_eqb k' k || bmem k' l.
Proof.
  unfold badd. destruct (bmem k l) eqn:E.
  - destruct (bytes_eqb k' k) eqn:E2; [|reflexivity]. apply bytes_eqb_eq in E2. subst. rewrite E. reflexivity.
  - rewrite bmem_app. cbn [bmem existsb]. rewrite Bool.orb_false_r. apply Bool.orb_comm.
Qed.

Lemma zdrop_app2 {A} (a b : list A) n : n = zlen a -> zdrop n (a ++ b) = b.
Proof. intros ->. apply zdrop_app. Qed.

(* ---------------- tagged composites: the TLV loop ---------------- *)
Section TagMode.
  Variable packers : list (bytes * (fstate -> outcome bytes)).
  Variable unpackers : list (bytes * (fstate -> bytes -> fstate * ures Z)).
  Variable freshes : list (bytes * fstate).
  Variable t : tagspec.
  Variable e : encoder.
  Variable dom shp : bytes -> fstate -> Prop.
  Variable R : bytes -> fstate -> fstate -> Prop.

  (* what the induction over the specification provides for a subfield *)
  Definition sub_rt (tag : bytes) : Prop :=
    forall pk up, blookup tag packers = Some pk -> blookup tag unpackers = Some up ->
    forall st b, dom tag st -> pk st = Ok b -> forall st0 rest, shp tag st0 ->
      exists st', up st0 (b ++ rest) = (st', UOk (zlen b)) /\ R tag st st' /\ pk st' = Ok b /\ shp tag st'.
  (* the wire form of a tag reads back as the tag *)
  Definition tag_rt (tag : bytes) : Prop :=
    forall tb, tag_wire t tag = Ok tb ->
      1 <= zlen tb /\ exists tagb, (forall rest, enc_decode e (tb ++ rest) (tg_len t) = Ok (tagb, zlen tb)) /\ unpad (tg_pad t) tagb = tag.

  Lemma unpack_by_tag_rt : forall order set sts body,
    NoDup order ->
    (forall tag, In tag order -> sub_rt tag /\ tag_rt tag /\ exists up, blookup tag unpackers = Some up) ->
    (forall tag st, In tag order -> bmem tag set = true -> blookup tag sts = Some st -> dom tag st) ->
    pack_by_tag packers t order set sts = Ok body ->
    forall fuel data off pre seta stsa, data = pre ++ body -> off = zlen pre -> (length body < fuel)%nat ->
    (forall tag, In tag order -> exists st0, blookup tag stsa = Some st0 /\ shp tag st0) ->
    exists set' sts', unpack_by_tag unpackers freshes fuel t e data off seta stsa = ((set', sts'), UOk (zlen data)) /\
      (forall tag, bmem tag set' = bmem tag seta || (bmem tag order && bmem tag set)) /\
      (forall tag, In tag order -> bmem tag set = true ->
         exists x y pk, blookup tag sts = Some x /\ blookup tag sts' = Some y /\ blookup tag packers = Some pk /\
                        R tag x y /\ pk y = pk x /\ shp tag y) /\
      (forall tag, ~ (In tag order /\ bmem tag set = true) -> blookup tag sts' = blookup tag stsa).
  Proof.
    induction order as [|h order IH]; intros set sts body Hnd Hsub Hdom Hp fuel data off pre seta stsa Hdata Hoff Hfuel Hshp.
    - cbn [pack_by_tag] in Hp. assert (body = []) by congruence. subst body. rewrite app_nil_r in Hdata. subst data off.
      destruct fuel as [|f]; [cbn in Hfuel; lia|]. cbn [unpack_by_tag]. replace (zlen pre <=? zlen pre) with true by lia.
      exists seta, stsa. split; [reflexivity|]. split; [intros tag; cbn; rewrite Bool.orb_false_r; reflexivity|].
      split; [intros tag []|reflexivity].
    - cbn [pack_by_tag] in Hp. unfold sub_state in Hp.
      destruct (blookup h packers) as [pk|] eqn:Epk; [|discriminate]. destruct (blookup h sts) as [st|] eqn:Est; [|discriminate].
      apply NoDup_cons_iff in Hnd. destruct Hnd as (Hnotin & Hnd').
      assert (Hsub' : forall tag, In tag order -> sub_rt tag /\ tag_rt tag /\ exists up, blookup tag unpackers = Some up)
        by (intros tag Hi; apply Hsub; right; exact Hi).
      assert (Hdom' : forall tag st, In tag order -> bmem tag set = true -> blookup tag sts = Some st -> dom tag st)
        by (intros tag s0 Hi; apply Hdom; right; exact Hi).
      destruct (bmem h set) eqn:Eset.
      + destruct (tag_wire t h) as [tb| | |] eqn:Etb; cbn [obind] in Hp; try discriminate.
        destruct (pk st) as [pb| | |] eqn:Epb; cbn [obind] in Hp; try discriminate.
        destruct (pack_by_tag packers t order set sts) as [more| | |] eqn:Emore; cbn [obind] in Hp; try discriminate.
        assert (body = tb ++ pb ++ more) by congruence. subst body. clear Hp.
        destruct (Hsub h (or_introl eq_refl)) as (Hrt & Htag & up & Eup).
        destruct (Htag tb Etb) as (Htb1 & tagb & Hdec & Hunpad).
        destruct (Hshp h (or_introl eq_refl)) as (st0 & Est0 & Hshp0).
        destruct (Hrt pk up Epk Eup st pb (Hdom h st (or_introl eq_refl) Eset Est) Epb st0 more Hshp0) as (st' & Hup & HR & Hpk' & Hshp').
        destruct fuel as [|f]; [lia|].
        assert (Hshp2 : forall tag, In tag order -> exists s0, blookup tag (bupdate h st' stsa) = Some s0 /\ shp tag s0).
        { intros tag Hi. rewrite blookup_bupdate_other by (intros ->; contradiction). apply Hshp. right. exact Hi. }
        assert (Hf2 : (length more < f)%nat).
        { rewrite !app_length in Hfuel. unfold zlen in Htb1. lia. }
        destruct (IH set sts more Hnd' Hsub' Hdom' Emore f data (off + zlen tb + zlen pb) (pre ++ tb ++ pb) (badd h seta) (bupdate h st' stsa))
          as (set' & sts' & Hun & Hset' & Hsts' & Hother).
        { subst data. rewrite <- !app_assoc. reflexivity. } { subst off. zlens. lia. } { exact Hf2. } { exact Hshp2. }
        exists set', sts'. split.
        * cbn [unpack_by_tag]. pose proof (zlen_nonneg pb). pose proof (zlen_nonneg more). pose proof (zlen_nonneg pre).
          replace (zlen data <=? off) with false by (subst data off; zlens; lia).
          replace (zdrop off data) with (tb ++ pb ++ more) by (subst data; symmetry; apply zdrop_app2; exact Hoff).
          rewrite Hdec, Hunpad, Eup. unfold sub_state. rewrite Est0.
          replace (zdrop (off + zlen tb) data) with (pb ++ more).
          2:{ subst data. rewrite (app_assoc pre tb). symmetry. apply zdrop_app2. zlens. lia. }
          rewrite Hup. exact Hun.
        * split; [|split].
          -- intros tag. rewrite Hset', bmem_badd. cbn [bmem existsb]. fold (bmem tag order).
             destruct (bytes_eqb tag h) eqn:E; [apply bytes_eqb_eq in E; subst tag; rewrite Eset; cbn; rewrite ?Bool.orb_true_r; reflexivity|].
             cbn. reflexivity.
          -- intros tag [<-|Hi] Hm.
             ++ exists st, st', pk. rewrite Hother by (intros (Hi & _); contradiction).
                rewrite blookup_bupdate_same by (exists st0; exact Est0). repeat split; try assumption; congruence.
             ++ apply Hsts'; assumption.
          -- intros tag Hn. rewrite Hother by (intros (Hi & Hm); apply Hn; split; [right; exact Hi|exact Hm]).
             apply blookup_bupdate_other. intros <-. apply Hn. split; [left; reflexivity|exact Eset].
      + destruct (IH set sts body Hnd' Hsub' Hdom' Hp fuel data off pre seta stsa Hdata Hoff Hfuel) as (set' & sts' & Hun & Hset' & Hsts' & Hother).
        { intros tag Hi. apply Hshp. right. exact Hi. }
        exists set', sts'. split; [exact Hun|]. split; [|split].
        * intros tag. rewrite Hset'. cbn [bmem existsb]. fold (bmem tag order).
          destruct (bytes_eqb tag h) eqn:E; [apply bytes_eqb_eq in E; subst tag; rewrite Eset, !Bool.andb_false_r; reflexivity|reflexivity].
        * intros tag [<-|Hi] Hm; [congruence|]. apply Hsts'; assumption.
        * intros tag Hn. apply Hother. intros (Hi & Hm). apply Hn. split; [right; exact Hi|exact Hm].
  Qed.
End TagMode.

(* ---------------- positional composites ---------------- *)
Section Positional.
  Variable packers : list (bytes * (fstate -> outcome bytes)).
  Variable unpackers : list (bytes * (fstate -> bytes -> fstate * ures Z)).
  Variable freshes : list (bytes * fstate).
  Variable t : tagspec.
  Variable dom shp : bytes -> fstate -> Prop.
  Variable R : bytes -> fstate -> fstate -> Prop.
  Hypothesis Hnoenc : tg_enc t = None.

  Lemma pack_unset_nil order set sts body : (forall tag, In tag order -> bmem tag set = false) ->
    pack_by_tag packers t order set sts = Ok body -> body = [].
  Proof.
    revert body. induction order as [|h order IH]; intros body Hu Hp; cbn [pack_by_tag] in Hp; [congruence|].
    destruct (blookup h packers); [|discriminate]. destruct (sub_state sts h); [|discriminate].
    rewrite (Hu h (or_introl eq_refl)) in Hp. apply IH; [intros tag Hi; apply Hu; right; exact Hi|exact Hp].
  Qed.

  Lemma unpack_positional_rt isvar : forall o1 o2 set sts body,
    NoDup (o1 ++ o2) ->
    (forall tag, In tag (o1 ++ o2) -> sub_rt packers unpackers dom shp R tag /\ exists up, blookup tag unpackers = Some up) ->
    (forall tag st, In tag o1 -> blookup tag sts = Some st -> dom tag st) ->
    (forall tag, In tag o1 -> bmem tag set = true) -> (forall tag, In tag o2 -> bmem tag set = false) ->
    (o1 = [] -> o2 = []) -> (isvar = false -> o2 = []) ->
    (isvar = true -> forall tag pk st b, In tag o1 -> blookup tag packers = Some pk -> blookup tag sts = Some st -> pk st = Ok b -> b <> []) ->
    pack_by_tag packers t (o1 ++ o2) set sts = Ok body ->
    forall data off pre seta stsa, data = pre ++ body -> off = zlen pre ->
    (forall tag, In tag (o1 ++ o2) -> exists st0, blookup tag stsa = Some st0 /\ shp tag st0) ->
    exists set' sts', unpack_positional unpackers freshes (o1 ++ o2) isvar data off seta stsa = ((set', sts'), UOk (zlen data)) /\
      (forall tag, bmem tag set' = bmem tag seta || bmem tag o1) /\
      (forall tag, In tag o1 ->
         exists x y pk, blookup tag sts = Some x /\ blookup tag sts' = Some y /\ blookup tag packers = Some pk /\
                        R tag x y /\ pk y = pk x /\ shp tag y) /\
      (forall tag, ~ In tag o1 -> blookup tag sts' = blookup tag stsa).
  Proof.
    induction o1 as [|h o1 IH]; intros o2 set sts body Hnd Hsub Hdom Hset Hunset Hnil Hvar Hne Hp data off pre seta stsa Hdata Hoff Hshp.
    - rewrite (Hnil eq_refl) in *. cbn [app pack_by_tag] in Hp. assert (body = []) by congruence. subst body. rewrite app_nil_r in Hdata. subst.
      cbn [app unpack_positional]. exists seta, stsa. split; [reflexivity|]. split; [intros tag; cbn; rewrite Bool.orb_false_r; reflexivity|].
      split; [intros tag []|reflexivity].
    - cbn [app] in *. cbn [pack_by_tag] in Hp. unfold sub_state in Hp.
      destruct (blookup h packers) as [pk|] eqn:Epk; [|discriminate]. destruct (blookup h sts) as [st|] eqn:Est; [|discriminate].
      rewrite (Hset h (or_introl eq_refl)) in Hp. unfold tag_wire in Hp. rewrite Hnoenc in Hp. cbn [obind app] in Hp.
      destruct (pk st) as [pb| | |] eqn:Epb; cbn [obind] in Hp; try discriminate.
      destruct (pack_by_tag packers t (o1 ++ o2) set sts) as [more| | |] eqn:Emore; cbn [obind] in Hp; try discriminate.
      assert (body = pb ++ more) by congruence. subst body. clear Hp.
      apply NoDup_cons_iff in Hnd. destruct Hnd as (Hnotin & Hnd').
      destruct (Hsub h (or_introl eq_refl)) as (Hrt & up & Eup).
      destruct (Hshp h (or_introl eq_refl)) as (st0 & Est0 & Hshp0).
      destruct (Hrt pk up Epk Eup st pb (Hdom h st (or_introl eq_refl) Est) Epb st0 more Hshp0) as (st' & Hup & HR & Hpk' & Hshp').
      cbn [unpack_positional]. rewrite Eup. unfold sub_state. rewrite Est0.
      replace (zdrop off data) with (pb ++ more) by (subst data; symmetry; apply zdrop_app2; exact Hoff).
      rewrite Hup.
      pose proof (zlen_nonneg pb). pose proof (zlen_nonneg more). pose proof (zlen_nonneg pre).
      assert (Hhead : forall tag, bmem tag (badd h seta) || bmem tag o1 = bmem tag seta || bmem tag (h :: o1)).
      { intros tag. rewrite bmem_badd. cbn [bmem existsb]. fold (bmem tag o1). fold (bmem tag seta).
        destruct (bytes_eqb tag h), (bmem tag seta), (bmem tag o1); reflexivity. }
      destruct (isvar && (zlen data <=? off + zlen pb)) eqn:Estop.
      + (* the data is exhausted: nothing after h is set *)
        apply Bool.andb_true_iff in Estop. destruct Estop as (Hv & Hex).
        assert (more = []) by (subst data off; destruct more as [|c more']; [reflexivity|pose proof (zlen_nonneg more'); zlens; lia]). subst more.
        assert (o1 = []).
        { destruct o1 as [|h2 o1']; [reflexivity|exfalso]. cbn [app pack_by_tag] in Emore. unfold sub_state in Emore.
          destruct (blookup h2 packers) as [pk2|] eqn:Epk2; [|discriminate]. destruct (blookup h2 sts) as [st2|] eqn:Est2; [|discriminate].
          rewrite (Hset h2 (or_intror (or_introl eq_refl))) in Emore. unfold tag_wire in Emore. rewrite Hnoenc in Emore. cbn [obind app] in Emore.
          destruct (pk2 st2) as [pb2| | |] eqn:Epb2; cbn [obind] in Emore; try discriminate.
          destruct (pack_by_tag packers t (o1' ++ o2) set sts); cbn [obind] in Emore; try discriminate.
          assert (pb2 = []) by (destruct pb2; [reflexivity|discriminate]). 
          apply (Hne Hv h2 pk2 st2 pb2 (or_intror (or_introl eq_refl)) Epk2 Est2 Epb2). assumption. }
        subst o1. exists (badd h seta), (bupdate h st' stsa). split; [f_equal; f_equal; subst data off; zlens; lia|].
        split; [intros tag; rewrite <- Hhead; cbn; rewrite Bool.orb_false_r; reflexivity|]. split.
        * intros tag [<-|[]]. exists st, st', pk. rewrite blookup_bupdate_same by (exists st0; exact Est0). repeat split; try assumption; congruence.
        * intros tag Hn. apply blookup_bupdate_other. intros <-. apply Hn. left. reflexivity.
      + destruct (IH o2 set sts more Hnd') with (data := data) (off := off + zlen pb) (pre := pre ++ pb) (seta := badd h seta) (stsa := bupdate h st' stsa)
          as (set' & sts' & Hun & Hset' & Hsts' & Hother).
        * intros tag Hi. apply Hsub. right. exact Hi.
        * intros tag s0 Hi. apply Hdom. right. exact Hi.
        * intros tag Hi. apply Hset. right. exact Hi.
        * exact Hunset.
        * intros ->. cbn [app] in Emore. pose proof (pack_unset_nil o2 set sts more Hunset Emore) as Hm. subst more.
          destruct isvar; [|apply Hvar; reflexivity]. exfalso. cbn in Estop. subst data off. zlens. lia.
        * exact Hvar.
        * intros Hv tag pk0 s0 b Hi. apply (Hne Hv). right. exact Hi.
        * exact Emore.
        * subst data. rewrite <- app_assoc. reflexivity.
        * subst off. zlens. lia.
        * intros tag Hi. rewrite blookup_bupdate_other by (intros ->; contradiction). apply Hshp. right. exact Hi.
        * exists set', sts'. split; [exact Hun|]. split; [intros tag; rewrite Hset'; apply Hhead|]. split.
          -- intros tag [<-|Hi]; [|apply Hsts'; exact Hi].
             exists st, st', pk. rewrite Hother by (intros Hi; apply Hnotin; apply in_or_app; left; exact Hi).
             rewrite blookup_bupdate_same by (exists st0; exact Est0). repeat split; try assumption; congruence.
          -- intros tag Hn. rewrite Hother by (intros Hi; apply Hn; right; exact Hi).
             apply blookup_bupdate_other. intros <-. apply Hn. left. reflexivity.
  Qed.
End Positional.

