(* Lemmas about Model/Base.v used everywhere *)
From Iso Require Import Model.Base.
From Coq Require Import ZifyBool ZifyNat ZifyN.

Lemma byte_eqb_refl c : Byte.eqb c c = true.
Proof. apply Byte.byte_dec_lb. reflexivity. Qed.
Lemma byte_eqb_eq a b : Byte.eqb a b = true <-> a = b.
Proof. split; [apply Byte.byte_dec_bl | apply Byte.byte_dec_lb]. Qed.
Lemma byte_eqb_neq a b : Byte.eqb a b = false <-> a <> b.
Proof.
  split.
  - intros H E. subst. rewrite byte_eqb_refl in H. discriminate.
  - intros H. destruct (Byte.eqb a b) eqn:E; auto. apply byte_eqb_eq in E. contradiction.
Qed.

Lemma bz_range b : 0 <= bz b < 256.
Proof. unfold bz. pose proof (Byte.to_N_bounded b). lia. Qed.

Lemma bz_zb z : 0 <= z < 256 -> bz (zb z) = z.
Proof.
  intros H. unfold bz, zb. destruct (Byte.of_N (Z.to_N z)) eqn:E.
  - apply Byte.to_of_N in E. rewrite E. lia.
  - apply Byte.of_N_None_iff in E. lia.
Qed.

Lemma zb_bz b : zb (bz b) = b.
Proof. unfold zb, bz. rewrite N2Z.id, Byte.of_to_N. reflexivity. Qed.

Lemma bz_inj a b : bz a = bz b -> a = b.
Proof. intros H. rewrite <- (zb_bz a), <- (zb_bz b), H. reflexivity. Qed.

(* a property of all 256 bytes follows from its boolean sweep *)
Lemma all_bytes_complete b : In b all_bytes.
Proof. destruct b; vm_compute; tauto. Qed.

Lemma forall_bytes (P : byte -> bool) : forallb P all_bytes = true -> forall b, P b = true.
Proof. intros H b. rewrite forallb_forall in H. apply H, all_bytes_complete. Qed.

(* ---- zlen / ztake / zdrop ---- *)
Lemma zlen_nonneg {A} (l : list A) : 0 <= zlen l.
Proof. unfold zlen. lia. Qed.
Lemma zlen_app {A} (a b : list A) : zlen (a ++ b) = zlen a + zlen b.
Proof. unfold zlen. rewrite app_length. lia. Qed.
Lemma zlen_cons {A} (x : A) l : zlen (x :: l) = 1 + zlen l.
Proof. unfold zlen. cbn [length]. lia. Qed.
Lemma zlen_nil {A} : zlen (@nil A) = 0.
Proof. reflexivity. Qed.
Lemma zlen_map {A B} (f : A -> B) l : zlen (map f l) = zlen l.
Proof. unfold zlen. rewrite map_length. reflexivity. Qed.
Lemma zlen_repeat {A} (x : A) n : zlen (repeat x n) = Z.of_nat n.
Proof. unfold zlen. rewrite repeat_length. reflexivity. Qed.

Lemma ztake_app {A} (w rest : list A) : ztake (zlen w) (w ++ rest) = w.
Proof.
  unfold ztake, zlen. rewrite Nat2Z.id, firstn_app, Nat.sub_diag, firstn_all. cbn [firstn]. apply app_nil_r.
Qed.
Lemma ztake_app_eq {A} (w rest : list A) n : zlen w = n -> ztake n (w ++ rest) = w.
Proof. intros <-. apply ztake_app. Qed.
Lemma zdrop_app {A} (w rest : list A) : zdrop (zlen w) (w ++ rest) = rest.
Proof.
  unfold zdrop, zlen. rewrite Nat2Z.id, skipn_app, Nat.sub_diag, skipn_all. reflexivity.
Qed.
Lemma ztake_all {A} (w : list A) n : zlen w <= n -> ztake n w = w.
Proof. intros H. unfold ztake, zlen in *. apply firstn_all2. lia. Qed.
Lemma zlen_ztake {A} (w : list A) n : 0 <= n <= zlen w -> zlen (ztake n w) = n.
Proof. intros H. unfold ztake, zlen in *. rewrite firstn_length. lia. Qed.
Lemma ztake_app_le {A} (w rest : list A) n : 0 <= n <= zlen w -> ztake n (w ++ rest) = ztake n w.
Proof.
  intros H. unfold ztake, zlen in *. rewrite firstn_app.
  replace (Z.to_nat n - length w)%nat with 0%nat by lia. cbn [firstn]. apply app_nil_r.
Qed.
Lemma ztake_zdrop {A} (w : list A) n : ztake n w ++ zdrop n w = w.
Proof. unfold ztake, zdrop. apply firstn_skipn. Qed.
Lemma zlen_zdrop {A} (w : list A) n : 0 <= n <= zlen w -> zlen (zdrop n w) = zlen w - n.
Proof. intros H. unfold zdrop, zlen in *. rewrite skipn_length. lia. Qed.
Lemma ztake_0 {A} (w : list A) : ztake 0 w = [].
Proof. reflexivity. Qed.
Lemma zdrop_0 {A} (w : list A) : zdrop 0 w = w.
Proof. reflexivity. Qed.

Lemma forallb_app_iff {A} (p : A -> bool) a b : forallb p (a ++ b) = forallb p a && forallb p b.
Proof. apply forallb_app. Qed.

Lemma firstn_repeat_le {A} (x : A) m k : (m <= k)%nat -> firstn m (repeat x k) = repeat x m.
Proof. revert k. induction m as [|m IH]; intros k H; [reflexivity|]. destruct k; [lia|]. cbn. f_equal. apply IH. lia. Qed.
Lemma skipn_repeat_le {A} (x : A) m k : (m <= k)%nat -> skipn m (repeat x k) = repeat x (k - m).
Proof. revert k. induction m as [|m IH]; intros k H; [rewrite Nat.sub_0_r; reflexivity|]. destruct k; [lia|]. cbn. apply IH. lia. Qed.

Lemma In_skipn' {A} (x : A) n l : In x (skipn n l) -> In x l.
Proof. revert l. induction n as [|n IH]; intros l H; [exact H|]. destruct l; [exact H|]. right. apply IH. exact H. Qed.
Lemma In_firstn' {A} (x : A) n l : In x (firstn n l) -> In x l.
Proof. revert l. induction n as [|n IH]; intros l H; [contradiction|]. destruct l; [exact H|]. destruct H as [H|H]; [left; exact H|right; apply IH; exact H]. Qed.

Ltac zlens := rewrite ?zlen_app, ?zlen_cons, ?zlen_nil, ?zlen_map, ?zlen_repeat in *.

Lemma bytes_eq_dec (a b : bytes) : {a = b} + {a <> b}.
Proof. apply list_eq_dec. intros x y. destruct (Byte.eqb x y) eqn:E; [left; apply byte_eqb_eq; exact E|right; apply byte_eqb_neq; exact E]. Qed.
