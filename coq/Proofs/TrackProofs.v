(* Track fields: rendering then parsing returns the components (Track2, Track3), and the Describe filter shows the track
   with the PAN masked. About Model/Track.v. *)
From Iso Require Import Model.Base Model.Padding Model.Encoding Model.Prefix Model.Bitmap Model.Spec Model.Field Model.Describe Model.Track
     Proofs.BaseLemmas Proofs.PaddingProofs Proofs.EncodingProofs Proofs.FieldProofs Proofs.CompositeLoops.
From Coq Require Import ZifyBool ZifyNat ZifyN.
Set Default Timeout 120.

Lemma take_while_app p a b : forallb p a = true -> (match b with [] => True | x :: _ => p x = false end) -> take_while p (a ++ b) = (a, b).
Proof.
  induction a as [|x a IH]; intros Ha Hb; cbn [app take_while].
  - destruct b as [|y b]; [reflexivity|]. cbn [take_while]. rewrite Hb. reflexivity.
  - cbn [forallb] in Ha. apply Bool.andb_true_iff in Ha. destruct Ha as (Hx & Ha). rewrite Hx, (IH Ha Hb). reflexivity.
Qed.

Lemma digit_not_space b : is_digit b = true -> is_space_ascii b = false.
Proof.
  intros H. assert (G : forallb (fun b => implb (is_digit b) (negb (is_space_ascii b))) all_bytes = true) by (vm_compute; reflexivity).
  pose proof (forall_bytes _ G b) as Hb. cbn beta in Hb. rewrite H in Hb. cbn [implb] in Hb. destruct (is_space_ascii b); [discriminate|reflexivity].
Qed.

(* trimming leaves alone what neither starts nor ends with white space *)
Definition no_edge_space (l : bytes) : Prop :=
  match l with [] => True | x :: _ => is_space_ascii x = false end /\ match rev l with [] => True | x :: _ => is_space_ascii x = false end.

Lemma drop_while_id p (l : bytes) : match l with [] => True | x :: _ => p x = false end -> drop_while p l = l.
Proof. destruct l as [|x l]; intros H; [reflexivity|]. cbn [drop_while]. rewrite H. reflexivity. Qed.

Lemma trim_id l : no_edge_space l -> trim l = l.
Proof.
  intros (H1 & H2). unfold trim. rewrite (drop_while_id _ l H1). unfold drop_while_end. rewrite !frev_rev.
  rewrite (drop_while_id _ (rev l) H2). apply rev_involutive.
Qed.

Lemma digits_no_edge l : forallb is_digit l = true -> no_edge_space l.
Proof.
  intros H. split.
  - destruct l as [|x r]; [exact I|]. cbn [forallb] in H. apply Bool.andb_true_iff in H. apply digit_not_space. tauto.
  - destruct (rev l) as [|x r] eqn:E; [exact I|]. apply digit_not_space. rewrite forallb_forall in H. apply H. apply in_rev. rewrite E. left. reflexivity.
Qed.

Lemma firstn_exact {A} (a b : list A) n : length a = n -> firstn n (a ++ b) = a.
Proof. intros <-. induction a as [|x a IH]; [destruct b; reflexivity|]. cbn [length app firstn]. rewrite IH. reflexivity. Qed.
Lemma skipn_exact {A} (a b : list A) n : length a = n -> skipn n (a ++ b) = b.
Proof. intros <-. induction a as [|x a IH]; [reflexivity|]. cbn [length app skipn]. exact IH. Qed.

(* ---- Track2 ---- *)
Definition t2_dom (t : tstate) : Prop :=
  forallb is_digit (tk_pan t) = true /\ (1 <= length (tk_pan t) <= 19)%nat /\
  (tk_sep t = [x3d] \/ tk_sep t = [x44]) /\
  (exists e, tk_exp t = Some e /\ length e = 4%nat /\ forallb is_digit e = true /\ valid_yymm e = true) /\
  (length (tk_svc t) = 3%nat /\ forallb is_digit (tk_svc t) = true) /\
  (tk_dd t <> [] /\ no_qmark (tk_dd t) = true /\ no_edge_space (tk_dd t)) /\
  tk_fc t = [] /\ tk_name t = [].

Theorem track2_parse_render t t0 : t2_dom t ->
  t_parse T2 t0 (t_render T2 t) =
  ({| tk_fixed := tk_fixed t0; tk_fc := []; tk_pan := tk_pan t; tk_sep := tk_sep t; tk_name := []; tk_exp := tk_exp t; tk_svc := tk_svc t; tk_dd := tk_dd t |}, Ok tt).
Proof.
  intros (Hpan & Hplen & Hsep & (e & He & Helen & Hed & Hev) & (Hslen & Hsd) & (Hddne & Hddq & Hdde) & _ & _).
  unfold t_parse, t_render. rewrite He.
  assert (Hsvc : match tk_svc t with [] => caret | s => s end = tk_svc t) by (destruct (tk_svc t); [discriminate|reflexivity]).
  rewrite Hsvc.
  assert (Hs1 : exists s, tk_sep t = [s] /\ (Byte.eqb s x3d || Byte.eqb s x44) = true /\ is_digit s = false)
    by (destruct Hsep as [-> | ->]; eexists; repeat split; reflexivity).
  destruct Hs1 as (s & Hs & Hsok & Hsnd). rewrite Hs. cbn [app].
  unfold t_match. rewrite (take_while_app is_digit (tk_pan t) (s :: e ++ tk_svc t ++ tk_dd t) Hpan Hsnd).
  replace ((length (tk_pan t) =? 0)%nat || (19 <? length (tk_pan t))%nat) with false
    by (symmetry; apply Bool.orb_false_iff; split; [apply Nat.eqb_neq; lia|apply Nat.ltb_ge; lia]).
  rewrite Hsok.
  assert (H7 : firstn 7 (e ++ tk_svc t ++ tk_dd t) = e ++ tk_svc t) by (rewrite app_assoc; apply firstn_exact; rewrite app_length; lia).
  assert (S7 : skipn 7 (e ++ tk_svc t ++ tk_dd t) = tk_dd t) by (rewrite app_assoc; apply skipn_exact; rewrite app_length; lia).
  assert (F4 : firstn 4 (e ++ tk_svc t ++ tk_dd t) = e) by (apply firstn_exact; exact Helen).
  assert (S4 : firstn 3 (skipn 4 (e ++ tk_svc t ++ tk_dd t)) = tk_svc t) by (rewrite (skipn_exact e _ 4 Helen); apply firstn_exact; exact Hslen).
  replace ((7 <=? length (e ++ tk_svc t ++ tk_dd t))%nat) with true by (symmetry; apply Nat.leb_le; rewrite !app_length; lia).
  rewrite H7, S7, F4, S4. rewrite forallb_app, Hed, Hsd. cbn [andb].
  unfold dd_ok. destruct (tk_dd t) as [|d0 dr] eqn:Edd; [contradiction|]. rewrite Hddq. cbn [mt_fc mt_pan mt_sep mt_name mt_exp mt_svc mt_dd].
  rewrite (trim_id e) by (apply digits_no_edge; exact Hed).
  rewrite (trim_id (tk_pan t)) by (apply digits_no_edge; exact Hpan).
  rewrite (trim_id (tk_svc t)) by (apply digits_no_edge; exact Hsd).
  rewrite (trim_id (d0 :: dr)) by exact Hdde.
  assert (Hts : trim [s] = [s]) by (apply trim_id; destruct Hsep as [E|E]; rewrite Hs in E; inversion E; subst; split; reflexivity).
  rewrite Hts. cbn [trim]. 
  assert (Hpne : tk_pan t <> []) by (intros E; rewrite E in Hplen; cbn in Hplen; lia).
  assert (Hene : e <> []) by (intros E; rewrite E in Helen; discriminate).
  assert (Hsne : tk_svc t <> []) by (intros E; rewrite E in Hslen; discriminate).
  unfold skip_val. destruct e as [|e0 er]; [contradiction|]. destruct (tk_pan t) as [|p0 pr] eqn:Ep; [contradiction|]. destruct (tk_svc t) as [|s0 sr] eqn:Es; [contradiction|].
  cbn [negb andb]. rewrite Hev. cbn [negb andb]. unfold trim at 1. cbn [drop_while drop_while_end frev]. reflexivity.
Qed.

(* the packer / unpacker pair on raw bytes (the part of prim_roundtrip that does not look at the kind) *)
Lemma raw_roundtrip p raw b rest : coherent_pspec p -> pad_ok (ps_pad p) raw = true ->
  enc_dom (ps_enc p) (pad (ps_pad p) raw (ps_len p)) = true -> zlen (pad (ps_pad p) raw (ps_len p)) <= max_int ->
  prim_pack_raw p raw = Ok b -> prim_unpack_raw p (b ++ rest) = Ok (raw, zlen b).
Proof.
  intros (Hwf & Hve & Hpk & HL) Hpad Hdom Hmax Hp. unfold prim_pack_raw in Hp. rewrite Hpk in Hp.
  set (v := pad (ps_pad p) raw (ps_len p)) in *.
  destruct (enc_roundtrip (ps_enc p) v Hdom) as (w & Hw & Hrt). rewrite Hw in Hp. cbn [obind] in Hp.
  destruct (value_enc_units (ps_enc p) v w Hve) as (Hu & Hc). rewrite Hu, Hc in Hrt.
  destruct (enc_len (ps_pref p) (ps_len p) (zlen v)) as [pre| | |] eqn:Epre; cbn [obind] in Hp; try discriminate.
  assert (b = pre ++ w) by congruence. subst b. clear Hp.
  assert (Hgo : PrefixProofs.go_len (zlen v)) by (unfold PrefixProofs.go_len; pose proof (zlen_nonneg v); lia).
  destruct (PrefixProofs.pref_roundtrip (ps_pref p) (ps_len p) (zlen v) pre Hwf Hgo Epre) as (_ & _ & Hdec).
  unfold prim_unpack_raw. rewrite <- app_assoc, Hdec. cbn [obind].
  pose proof (zlen_nonneg pre). pose proof (zlen_nonneg w). pose proof (zlen_nonneg rest).
  replace ((zlen pre <? 0) || (zlen (pre ++ w ++ rest) <? zlen pre)) with false by (rewrite !zlen_app; lia).
  rewrite Hpk, zdrop_app, Hrt. cbn [obind]. unfold v. rewrite unpad_pad by exact Hpad. f_equal. f_equal. rewrite zlen_app. lia.
Qed.

(* a Track2 field: Pack then Unpack, into an object that held anything, returns the components and consumes exactly
   the packed bytes; packing again returns the identical bytes *)
Theorem track2_roundtrip p t b t0 rest : coherent_pspec p -> t2_dom t ->
  pad_ok (ps_pad p) (t_render T2 t) = true -> enc_dom (ps_enc p) (pad (ps_pad p) (t_render T2 t) (ps_len p)) = true ->
  zlen (pad (ps_pad p) (t_render T2 t) (ps_len p)) <= max_int ->
  t_pack T2 p t = Ok b ->
  let t' := {| tk_fixed := tk_fixed t0; tk_fc := []; tk_pan := tk_pan t; tk_sep := tk_sep t; tk_name := []; tk_exp := tk_exp t; tk_svc := tk_svc t; tk_dd := tk_dd t |} in
  t_unpack T2 p t0 (b ++ rest) = (t', Ok (zlen b)) /\ t_pack T2 p t' = Ok b.
Proof.
  intros Hc Hd Hpad Hdom Hmax Hp t'. unfold t_pack in Hp.
  split.
  - unfold t_unpack. rewrite (raw_roundtrip p (t_render T2 t) b rest Hc Hpad Hdom Hmax Hp).
    assert (Hne : t_render T2 t <> []).
    { destruct Hd as (_ & Hpl & _). unfold t_render. destruct (tk_pan t); [cbn in Hpl; lia|discriminate]. }
    destruct (t_render T2 t) as [|r0 rr] eqn:Er; [contradiction|]. rewrite <- Er. rewrite (track2_parse_render t t0 Hd). reflexivity.
  - unfold t_pack. replace (t_render T2 t') with (t_render T2 t); [exact Hp|]. unfold t_render, t'. cbn [tk_exp tk_svc tk_pan tk_sep tk_dd]. reflexivity.
Qed.

(* the Describe filter of a packable, well-formed Track2 shows the track with the PAN masked, and nothing else changed *)
Theorem track2_filter_masks p t b inp : coherent_pspec p -> t2_dom t ->
  pad_ok (ps_pad p) (t_render T2 t) = true -> enc_dom (ps_enc p) (pad (ps_pad p) (t_render T2 t) (ps_len p)) = true ->
  zlen (pad (ps_pad p) (t_render T2 t) (ps_len p)) <= max_int ->
  t_pack T2 p t = Ok b ->
  t_filter T2 p inp t = pan_filter (tk_pan t) ++ tk_sep t ++ (match tk_exp t with Some e => e | None => caret end) ++ tk_svc t ++ tk_dd t.
Proof.
  intros Hc Hd Hpad Hdom Hmax Hp. unfold t_filter. rewrite Hp.
  destruct (track2_roundtrip p t b t_empty [] Hc Hd Hpad Hdom Hmax Hp) as (Hu & _). rewrite app_nil_r in Hu. rewrite Hu.
  unfold t_render. cbn [tk_fixed tk_fc tk_pan tk_sep tk_name tk_exp tk_svc tk_dd].
  destruct Hd as (_ & _ & Hsep & _ & (Hsl & _) & _). destruct Hsep as [E|E]; rewrite E; destruct (tk_svc t) as [|s0 sr]; try discriminate; reflexivity.
Qed.

(* ---- Track3 ---- *)
Definition t3_dom (t : tstate) : Prop :=
  (length (tk_fc t) = 2%nat /\ forallb is_digit (tk_fc t) = true) /\
  forallb is_digit (tk_pan t) = true /\ (1 <= length (tk_pan t) <= 19)%nat /\
  (tk_dd t <> [] /\ no_qmark (tk_dd t) = true /\ no_edge_space (tk_dd t) /\ tk_dd t <> eqsign) /\
  tk_sep t = [] /\ tk_name t = [] /\ tk_exp t = None /\ tk_svc t = [].

Theorem track3_parse_render t t0 : t3_dom t ->
  t_parse T3 t0 (t_render T3 t) =
  ({| tk_fixed := tk_fixed t0; tk_fc := tk_fc t; tk_pan := tk_pan t; tk_sep := []; tk_name := []; tk_exp := None; tk_svc := []; tk_dd := tk_dd t |}, Ok tt).
Proof.
  intros ((Hfl & Hfd) & Hpan & Hplen & (Hddne & Hddq & Hdde & Hddeq) & _).
  unfold t_parse, t_render, t_match. rewrite app_assoc.
  rewrite (take_while_app is_digit (tk_fc t ++ tk_pan t) (eqsign ++ tk_dd t)) by (try (rewrite forallb_app, Hfd, Hpan; reflexivity); reflexivity).
  rewrite app_length, Hfl.
  replace ((2 + length (tk_pan t) <? 3)%nat || (21 <? 2 + length (tk_pan t))%nat) with false
    by (symmetry; apply Bool.orb_false_iff; split; [apply Nat.ltb_ge; lia|apply Nat.ltb_ge; lia]).
  cbn [eqsign app]. change (Byte.eqb x3d x3d) with true. cbn [andb]. unfold dd_ok.
  destruct (tk_dd t) as [|d0 dr] eqn:Edd; [contradiction|]. rewrite Hddq.
  cbn [mt_fc mt_pan mt_sep mt_name mt_exp mt_svc mt_dd].
  rewrite (firstn_exact (tk_fc t) (tk_pan t) 2 Hfl), (skipn_exact (tk_fc t) (tk_pan t) 2 Hfl).
  rewrite (trim_id (tk_fc t)) by (apply digits_no_edge; exact Hfd).
  rewrite (trim_id (tk_pan t)) by (apply digits_no_edge; exact Hpan).
  rewrite (trim_id (d0 :: dr)) by exact Hdde.
  assert (Hfne : tk_fc t <> []) by (intros E; rewrite E in Hfl; discriminate).
  assert (Hpne : tk_pan t <> []) by (intros E; rewrite E in Hplen; cbn in Hplen; lia).
  assert (Hfeq : bytes_eqb (tk_fc t) eqsign = false).
  { destruct (tk_fc t) as [|a [|b2 r]]; try discriminate. unfold eqsign. cbn [bytes_eqb]. apply Bool.andb_false_r. }
  assert (Hpeq : bytes_eqb (tk_pan t) eqsign = false).
  { destruct (tk_pan t) as [|a r] eqn:E; [contradiction|]. cbn [forallb] in Hpan. apply Bool.andb_true_iff in Hpan. destruct Hpan as (Ha & _).
    unfold eqsign. cbn [bytes_eqb]. destruct (Byte.eqb a x3d) eqn:Ea; [|reflexivity]. apply byte_eqb_eq in Ea. subst a. discriminate. }
  assert (Hdeq : bytes_eqb (d0 :: dr) eqsign = false) by (apply CompositeLoops.bytes_eqb_neq; exact Hddeq).
  unfold skip_val. destruct (tk_fc t) as [|f0 fr] eqn:Ef; [contradiction|]. destruct (tk_pan t) as [|p0 pr] eqn:Ep; [contradiction|].
  rewrite Hfeq, Hpeq, Hdeq. cbn [trim drop_while drop_while_end frev negb andb]. reflexivity.
Qed.

(* ---- Track1 ---- *)
Lemma digits_or_caret_digits n d rest : length d = n -> forallb is_digit d = true -> digits_or_caret n (d ++ rest) = Some (d, rest).
Proof.
  intros Hl Hd. unfold digits_or_caret. rewrite (firstn_exact d rest n Hl), (skipn_exact d rest n Hl), Hd.
  replace ((n <=? length (d ++ rest))%nat) with true by (symmetry; apply Nat.leb_le; rewrite app_length; lia). reflexivity.
Qed.
Lemma digits_or_caret_caret n rest : (0 < n)%nat -> digits_or_caret n (caret ++ rest) = Some (caret, rest).
Proof.
  intros Hn. unfold digits_or_caret, caret. cbn [app]. destruct n as [|n']; [lia|]. cbn [firstn forallb]. change (is_digit x5e) with false. cbn [andb].
  rewrite Bool.andb_false_r. reflexivity.
Qed.

Definition t1_dom (t : tstate) : Prop :=
  tk_fixed t = false /\
  (exists c, tk_fc t = [c] /\ is_upper c = true) /\
  forallb is_digit (tk_pan t) = true /\ (1 <= length (tk_pan t) <= 19)%nat /\
  ((2 <= length (tk_name t) <= 26)%nat /\ forallb (fun b => negb (Byte.eqb b x5e)) (tk_name t) = true /\ no_edge_space (tk_name t)) /\
  (match tk_exp t with Some e => length e = 4%nat /\ forallb is_digit e = true /\ valid_yymm e = true | None => True end) /\
  (tk_svc t = [] \/ (length (tk_svc t) = 3%nat /\ forallb is_digit (tk_svc t) = true)) /\
  (tk_dd t <> [] /\ no_qmark (tk_dd t) = true /\ no_edge_space (tk_dd t) /\ tk_dd t <> caret) /\
  tk_sep t = [].

Lemma keep_digits k d : d <> [] -> forallb is_digit d = true -> (if skip_val k (trim d) then [] else trim d) = d.
Proof.
  intros Hne Hd. rewrite (trim_id d) by (apply digits_no_edge; exact Hd). unfold skip_val. destruct d as [|a r] eqn:E; [contradiction|].
  cbn [forallb] in Hd. apply Bool.andb_true_iff in Hd. destruct Hd as (Ha & _).
  destruct k; try reflexivity.
  - unfold caret. cbn [bytes_eqb]. destruct (Byte.eqb a x5e) eqn:Ea; [apply byte_eqb_eq in Ea; subst; discriminate|reflexivity].
  - unfold eqsign. cbn [bytes_eqb]. destruct (Byte.eqb a x3d) eqn:Ea; [apply byte_eqb_eq in Ea; subst; discriminate|reflexivity].
Qed.

Theorem track1_parse_render t t0 : t1_dom t ->
  t_parse T1 t0 (t_render T1 t) =
  ({| tk_fixed := tk_fixed t0; tk_fc := tk_fc t; tk_pan := tk_pan t; tk_sep := []; tk_name := tk_name t; tk_exp := tk_exp t; tk_svc := tk_svc t; tk_dd := tk_dd t |}, Ok tt).
Proof.
  intros (Hfx & (c & Hfc & Hup) & Hpan & Hplen & (Hnl & Hnc & Hne) & Hexp & Hsvc & (Hddne & Hddq & Hdde & Hddc) & _).
  unfold t_parse, t_render. rewrite Hfx, Bool.andb_false_r, Hfc. cbn [app].
  set (expr := match tk_exp t with Some e => e | None => caret end).
  set (svcr := match tk_svc t with [] => caret | s => s end).
  unfold t_match. rewrite Hup. cbn [negb].
  rewrite (take_while_app is_digit (tk_pan t) (caret ++ tk_name t ++ caret ++ expr ++ svcr ++ tk_dd t) Hpan) by reflexivity.
  replace ((length (tk_pan t) =? 0)%nat || (19 <? length (tk_pan t))%nat) with false
    by (symmetry; apply Bool.orb_false_iff; split; [apply Nat.eqb_neq; lia|apply Nat.ltb_ge; lia]).
  unfold caret at 1. cbn [app]. change (Byte.eqb x5e x5e) with true. cbn [negb].
  rewrite (take_while_app (fun b => negb (Byte.eqb b x5e)) (tk_name t) (caret ++ expr ++ svcr ++ tk_dd t) Hnc) by reflexivity.
  replace ((length (tk_name t) <? 2)%nat || (26 <? length (tk_name t))%nat) with false
    by (symmetry; apply Bool.orb_false_iff; split; apply Nat.ltb_ge; lia).
  unfold caret at 1. cbn [app].
  assert (He4 : digits_or_caret 4 (expr ++ svcr ++ tk_dd t) = Some (expr, svcr ++ tk_dd t)).
  { unfold expr. destruct (tk_exp t) as [e|]; [destruct Hexp as (Hl & Hd & _); apply digits_or_caret_digits; assumption|apply digits_or_caret_caret; lia]. }
  rewrite He4.
  assert (Hs3 : digits_or_caret 3 (svcr ++ tk_dd t) = Some (svcr, tk_dd t)).
  { unfold svcr. destruct Hsvc as [->|(Hl & Hd)]; [apply digits_or_caret_caret; lia|]. destruct (tk_svc t) as [|s0 sr] eqn:Es; [discriminate|]. apply digits_or_caret_digits; assumption. }
  rewrite Hs3. unfold dd_ok. destruct (tk_dd t) as [|d0 dr] eqn:Edd; [contradiction|]. rewrite Hddq.
  cbn [mt_fc mt_pan mt_sep mt_name mt_exp mt_svc mt_dd].
  (* the components *)
  assert (Kfc : (if skip_val T1 (trim [c]) then [] else trim [c]) = [c]).
  { assert (Hns : is_space_ascii c = false).
    { assert (G : forallb (fun b => implb (is_upper b) (negb (is_space_ascii b))) all_bytes = true) by (vm_compute; reflexivity).
      pose proof (forall_bytes _ G c) as Hb. cbn beta in Hb. rewrite Hup in Hb. cbn [implb] in Hb. destruct (is_space_ascii c); [discriminate|reflexivity]. }
    rewrite (trim_id [c]) by (split; exact Hns). unfold skip_val, caret. cbn [bytes_eqb].
    destruct (Byte.eqb c x5e) eqn:Ec; [apply byte_eqb_eq in Ec; subst; discriminate|reflexivity]. }
  assert (Kpan : (if skip_val T1 (trim (tk_pan t)) then [] else trim (tk_pan t)) = tk_pan t)
    by (apply keep_digits; [intros E; rewrite E in Hplen; cbn in Hplen; lia|exact Hpan]).
  assert (Kname : (if skip_val T1 (trim (tk_name t)) then [] else trim (tk_name t)) = tk_name t).
  { rewrite (trim_id _ Hne). unfold skip_val. destruct (tk_name t) as [|a [|b2 r]] eqn:En; cbn [length] in Hnl; try lia.
    unfold caret. cbn [bytes_eqb]. rewrite Bool.andb_false_r. reflexivity. }
  assert (Kdd : (if skip_val T1 (trim (d0 :: dr)) then [] else trim (d0 :: dr)) = d0 :: dr).
  { rewrite (trim_id _ Hdde). unfold skip_val. replace (bytes_eqb (d0 :: dr) caret) with false by (symmetry; apply CompositeLoops.bytes_eqb_neq; exact Hddc). reflexivity. }
  assert (Ksep : (if skip_val T1 (trim []) then [] else trim []) = []) by reflexivity.
  rewrite Kfc, Kpan, Kname, Kdd, Ksep.
  (* expiry and service code *)
  assert (Hexpr : (negb (skip_val T1 (trim expr)) && negb (valid_yymm (trim expr))) = false /\
                  (if skip_val T1 (trim expr) then None else Some (trim expr)) = tk_exp t).
  { unfold expr. destruct (tk_exp t) as [e|].
    - destruct Hexp as (Hl & Hd & Hv). rewrite (trim_id e) by (apply digits_no_edge; exact Hd). rewrite Hv.
      assert (Hsk : skip_val T1 e = false).
      { unfold skip_val. destruct e as [|a r] eqn:E; [discriminate|]. cbn [forallb] in Hd. apply Bool.andb_true_iff in Hd. destruct Hd as (Ha & _).
        unfold caret. cbn [bytes_eqb]. destruct (Byte.eqb a x5e) eqn:Ea; [apply byte_eqb_eq in Ea; subst; discriminate|reflexivity]. }
      rewrite Hsk. split; reflexivity.
    - split; reflexivity. }
  destruct Hexpr as (Hx1 & Hx2). rewrite Hx1, Hx2.
  assert (Ksvc : (if skip_val T1 (trim svcr) then [] else trim svcr) = tk_svc t).
  { unfold svcr. destruct Hsvc as [->|(Hl & Hd)]; [reflexivity|]. destruct (tk_svc t) as [|s0 sr] eqn:Es; [discriminate|]. apply keep_digits; [discriminate|exact Hd]. }
  rewrite Ksvc. rewrite <- Hfc. reflexivity.
Qed.

(* ---- the Describe filters of Track1 and Track3 ---- *)
(* a packable track whose rendering parses back: the filter shows the rendering of the parsed components with the
   PAN masked *)
Lemma t_filter_parsed k p t b inp tr : coherent_pspec p ->
  pad_ok (ps_pad p) (t_render k t) = true -> enc_dom (ps_enc p) (pad (ps_pad p) (t_render k t) (ps_len p)) = true ->
  zlen (pad (ps_pad p) (t_render k t) (ps_len p)) <= max_int ->
  t_pack k p t = Ok b -> t_render k t <> [] -> t_parse k t_empty (t_render k t) = (tr, Ok tt) ->
  t_filter k p inp t = t_render k {| tk_fixed := tk_fixed tr; tk_fc := tk_fc tr; tk_pan := pan_filter (tk_pan tr); tk_sep := tk_sep tr;
                                      tk_name := tk_name tr; tk_exp := tk_exp tr; tk_svc := tk_svc tr; tk_dd := tk_dd tr |}.
Proof.
  intros Hc Hpad Hdom Hmax Hp Hne Hparse. unfold t_filter. rewrite Hp. unfold t_pack in Hp.
  pose proof (raw_roundtrip p (t_render k t) b [] Hc Hpad Hdom Hmax Hp) as Hr. rewrite app_nil_r in Hr.
  unfold t_unpack. rewrite Hr. destruct (t_render k t) as [|r0 rr] eqn:Er; [contradiction|]. rewrite Hparse. reflexivity.
Qed.

Theorem track3_filter_masks p t b inp : coherent_pspec p -> t3_dom t ->
  pad_ok (ps_pad p) (t_render T3 t) = true -> enc_dom (ps_enc p) (pad (ps_pad p) (t_render T3 t) (ps_len p)) = true ->
  zlen (pad (ps_pad p) (t_render T3 t) (ps_len p)) <= max_int ->
  t_pack T3 p t = Ok b ->
  t_filter T3 p inp t = tk_fc t ++ pan_filter (tk_pan t) ++ eqsign ++ tk_dd t.
Proof.
  intros Hc Hd Hpad Hdom Hmax Hp.
  assert (Hne : t_render T3 t <> []).
  { destruct Hd as ((Hfl & _) & _). unfold t_render. destruct (tk_fc t); [discriminate|discriminate]. }
  rewrite (t_filter_parsed T3 p t b inp _ Hc Hpad Hdom Hmax Hp Hne (track3_parse_render t t_empty Hd)). reflexivity.
Qed.

Theorem track1_filter_masks p t b inp : coherent_pspec p -> t1_dom t ->
  pad_ok (ps_pad p) (t_render T1 t) = true -> enc_dom (ps_enc p) (pad (ps_pad p) (t_render T1 t) (ps_len p)) = true ->
  zlen (pad (ps_pad p) (t_render T1 t) (ps_len p)) <= max_int ->
  t_pack T1 p t = Ok b ->
  t_filter T1 p inp t = tk_fc t ++ pan_filter (tk_pan t) ++ caret ++ tk_name t ++ caret ++
                        (match tk_exp t with Some e => e | None => caret end) ++ (match tk_svc t with [] => caret | s => s end) ++ tk_dd t.
Proof.
  intros Hc Hd Hpad Hdom Hmax Hp.
  assert (Hne : t_render T1 t <> []).
  { destruct Hd as (_ & (c & Hfc & _) & _). unfold t_render. rewrite Hfc. discriminate. }
  rewrite (t_filter_parsed T1 p t b inp _ Hc Hpad Hdom Hmax Hp Hne (track1_parse_render t t_empty Hd)).
  unfold t_render. cbn [tk_fixed tk_fc tk_pan tk_sep tk_name tk_exp tk_svc tk_dd t_empty]. rewrite Bool.andb_false_r. reflexivity.
Qed.
