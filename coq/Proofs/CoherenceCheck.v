(* A decision procedure for the coherence of specifications, sound for the predicates the round-trip theorems assume:
   it is run (vm_compute) on the shipped specifications that the translator regenerates on every run (Gen/ShippedSpecs.v). *)
From Coq Require Import Strings.String.
From Iso Require Import Model.Base Model.Sexp Model.Padding Model.Encoding Model.Prefix Model.Bitmap Model.Spec Model.Field Model.Message Model.Terms
     Proofs.BaseLemmas Proofs.PaddingProofs Proofs.EncodingProofs Proofs.PrefixProofs Proofs.FieldProofs Proofs.CompositeProofs Proofs.MessageRoundtrip.
From Coq Require Import ZifyBool ZifyNat ZifyN.
Set Default Timeout 120.

Definition wf_prefb (p : prefixer) : bool := match p with PVar _ d => (0 <? d)%nat | PNone => false | _ => true end.
Lemma wf_prefb_sound p : wf_prefb p = true -> wf_pref p.
Proof. destruct p as [f|f d| |]; cbn [wf_prefb wf_pref]; intros H; try exact I; [apply Nat.ltb_lt in H; exact H|discriminate]. Qed.

Definition coherent_pspecb (p : pspec) : bool :=
  wf_prefb (ps_pref p) && value_enc (ps_enc p) && (match ps_packer p with PkDefault => true | _ => false end) && (0 <=? ps_len p).
Lemma coherent_pspecb_sound p : coherent_pspecb p = true -> coherent_pspec p.
Proof.
  unfold coherent_pspecb, coherent_pspec. intros H. apply Bool.andb_true_iff in H. destruct H as (H & H4).
  apply Bool.andb_true_iff in H. destruct H as (H & H3). apply Bool.andb_true_iff in H. destruct H as (H1 & H2).
  split; [apply wf_prefb_sound; exact H1|]. split; [exact H2|]. split; [destruct (ps_packer p); [reflexivity|discriminate]|lia].
Qed.

(* tags read back: fixed-width tags under a value encoding, or BER tags *)
Definition tag_rtb (t : tagspec) (e : encoder) (tag : bytes) : bool :=
  (value_enc e && (1 <=? tg_len t) && pad_ok (tg_pad t) tag && (zlen (pad (tg_pad t) tag (tg_len t)) =? tg_len t) && enc_dom e (pad (tg_pad t) tag (tg_len t)))
  || (match e with EncBerTag => true | _ => false end && match tg_pad t with PadNone => true | _ => false end &&
      match hex_decode tag with Some w => ber_wf w && bytes_eqb (hex_encode_upper w) tag | None => false end).

Lemma tag_rtb_sound t e tag : tg_enc t = Some e -> tag_rtb t e tag = true -> tag_rt t e tag.
Proof.
  intros He H. unfold tag_rtb in H. apply Bool.orb_true_iff in H. destruct H as [H|H].
  - repeat (apply Bool.andb_true_iff in H; destruct H as (H & ?)). apply tag_rt_value; try assumption; lia.
  - apply Bool.andb_true_iff in H. destruct H as (H & H3). apply Bool.andb_true_iff in H. destruct H as (H1 & H2).
    destruct e; try discriminate. destruct (tg_pad t) eqn:Ep; try discriminate.
    destruct (hex_decode tag) as [w|] eqn:Ew; [|discriminate]. apply Bool.andb_true_iff in H3. destruct H3 as (Hw & Heq).
    apply bytes_eqb_eq in Heq. rewrite <- Heq. apply tag_rt_ber; assumption.
Qed.

Definition canonb (tag : bytes) : bool :=
  match atoi tag with Some n => (1 <=? n) && (n <=? max_int) && bytes_eqb (itoa n) tag | None => false end.
Lemma canonb_sound tag : canonb tag = true -> canon tag.
Proof.
  unfold canonb. destruct (atoi tag) as [n|]; [|discriminate]. intros H. apply Bool.andb_true_iff in H. destruct H as (H & H3).
  apply Bool.andb_true_iff in H. destruct H as (H1 & H2). apply bytes_eqb_eq in H3. exists n. split; [lia|symmetry; exact H3].
Qed.

Fixpoint nodupb (l : list bytes) : bool := match l with [] => true | x :: r => negb (bmem x r) && nodupb r end.
Lemma nodupb_sound l : nodupb l = true -> NoDup l.
Proof.
  induction l as [|x r IH]; intros H; [constructor|]. cbn [nodupb] in H. apply Bool.andb_true_iff in H. destruct H as (H1 & H2).
  constructor; [|apply IH; exact H2]. intros Hin. apply bmem_In in Hin. rewrite Hin in H1. discriminate.
Qed.

Definition modeb (mode : cmode) (tags : list bytes) : bool :=
  match mode with
  | CTag t => match tg_enc t with Some e => forallb (tag_rtb t e) tags | None => true end
  | CBitmap b => negb (bm_auto b) && (1 <=? bm_len b) && (match bm_enc b with EncBinary | EncHex => true | _ => false end) &&
                 (match bm_pref b with PFixed _ => true | _ => false end) && forallb canonb tags
  end.

Fixpoint coherentb (s : fspec) : bool :=
  match s with
  | FPrim p => coherent_pspecb p
  | FComp pref len mode subs =>
      wf_prefb pref && nodupb (map fst subs) && modeb mode (map fst subs) &&
      (fix go (l : list (bytes * fspec)) : bool := match l with [] => true | (_, s') :: r => coherentb s' && go r end) subs
  end.

Theorem coherentb_sound s : coherentb s = true -> coherent s.
Proof.
  induction s as [p|pref len mode subs IH] using fspec_ind'; intros H; [apply coherent_pspecb_sound; exact H|].
  cbn [coherentb] in H. apply Bool.andb_true_iff in H. destruct H as (H & H4). apply Bool.andb_true_iff in H. destruct H as (H & H3).
  apply Bool.andb_true_iff in H. destruct H as (H1 & H2). cbn [coherent].
  split; [apply wf_prefb_sound; exact H1|]. split; [apply nodupb_sound; exact H2|]. split.
  - destruct mode as [t|b]; cbn [modeb] in H3.
    + destruct (tg_enc t) as [e|] eqn:Ee; [|exact I]. intros tag Hi. apply tag_rtb_sound; [exact Ee|]. rewrite forallb_forall in H3. apply H3. exact Hi.
    + repeat (apply Bool.andb_true_iff in H3; destruct H3 as (H3 & ?)).
      split; [destruct (bm_auto b); [discriminate|reflexivity]|]. split; [lia|]. split; [destruct (bm_enc b); try discriminate; [left|right]; reflexivity|].
      split; [destruct (bm_pref b) as [f| | |]; try discriminate; exists f; reflexivity|].
      intros tag Hi. apply canonb_sound. rewrite forallb_forall in H. apply H. exact Hi.
  - clear - IH H4. induction subs as [|(t, s1) r IHr]; [exact I|]. apply Bool.andb_true_iff in H4. destruct H4 as (Ha & Hb). split.
    + apply (IH t s1 (or_introl eq_refl)). exact Ha.
    + apply IHr; [intros tag s' Hi; apply (IH tag s'); right; exact Hi|exact Hb].
Qed.

Definition msg_coherentb (S : mspec) : bool :=
  coherent_pspecb (ms_mti S) && (1 <=? bm_len (ms_bm S)) &&
  (match bm_enc (ms_bm S) with EncBinary | EncHex => true | _ => false end) &&
  (match bm_pref (ms_bm S) with PFixed _ => true | _ => false end) &&
  forallb (fun ids => coherentb (snd ids)) (ms_fields S).

Theorem msg_coherentb_sound S : msg_coherentb S = true -> msg_coherent S.
Proof.
  unfold msg_coherentb. intros H. do 4 (apply Bool.andb_true_iff in H; destruct H as (H & ?)).
  split; [apply coherent_pspecb_sound; exact H|]. split; [lia|].
  split; [destruct (bm_enc (ms_bm S)); try discriminate; [left|right]; reflexivity|].
  split; [destruct (bm_pref (ms_bm S)) as [f| | |]; try discriminate; exists f; reflexivity|].
  intros id s Hl. apply coherentb_sound. match goal with Hf : forallb _ _ = true |- _ => rewrite forallb_forall in Hf; apply (Hf (id, s)) end.
  clear - Hl. induction (ms_fields S) as [|(k, v) r IH]; [discriminate|]. cbn [zlookup] in Hl. destruct (id =? k) eqn:E; [left; f_equal; [lia|congruence]|right; apply IH; exact Hl].
Qed.

(* a specification given as a term of the case language *)
Definition spec_of_string (t : string) : option mspec :=
  match parse_sexp (list_byte_of_string t) with
  | Some sx => parse_mspec sx
  | None => None
  end.

(* ---- the conditions of the no-panic theorems (Proofs/NoPanicProofs.v), decided ---- *)
From Iso Require Import Proofs.NoPanicProofs.

Fixpoint wfsb (s : fspec) : bool :=
  match s with
  | FPrim p => 0 <=? ps_len p
  | FComp pref len mode subs =>
      (0 <=? len) && nodupb (map fst subs) &&
      match mode with
      | CTag t => match tg_enc t with Some e => (1 <=? tg_len t) || match e with EncBerTag => true | _ => false end | None => true end
      | CBitmap b => (1 <=? bm_len b) && (match bm_enc b with EncBinary | EncHex => true | _ => false end) && (match bm_pref b with PFixed _ => true | _ => false end)
      end &&
      (fix go (l : list (bytes * fspec)) : bool := match l with [] => true | (_, s') :: r => wfsb s' && go r end) subs
  end.

Theorem wfsb_sound s : wfsb s = true -> wfs s.
Proof.
  induction s as [p|pref len mode subs IH] using fspec_ind'; intros H; [cbn in *; lia|].
  cbn [wfsb] in H. apply Bool.andb_true_iff in H. destruct H as (H & H4). apply Bool.andb_true_iff in H. destruct H as (H & H3).
  apply Bool.andb_true_iff in H. destruct H as (H1 & H2). cbn [wfs].
  split; [lia|]. split; [apply nodupb_sound; exact H2|]. split.
  - destruct mode as [t|b].
    + destruct (tg_enc t) as [e|]; [|exact I]. apply Bool.orb_true_iff in H3. destruct H3 as [H3|H3]; [left; lia|right; destruct e; try discriminate; reflexivity].
    + apply Bool.andb_true_iff in H3. destruct H3 as (H3 & H3c). apply Bool.andb_true_iff in H3. destruct H3 as (H3a & H3b).
      split; [lia|]. split; [destruct (bm_enc b); try discriminate; [left|right]; reflexivity|]. destruct (bm_pref b) as [f| | |]; try discriminate. exists f. reflexivity.
  - clear - IH H4. induction subs as [|(t, s1) r IHr]; [exact I|]. apply Bool.andb_true_iff in H4. destruct H4 as (Ha & Hb). split.
    + apply (IH t s1 (or_introl eq_refl)). exact Ha.
    + apply IHr; [intros tag s' Hi; apply (IH tag s'); right; exact Hi|exact Hb].
Qed.

Definition wfmb (S : mspec) : bool :=
  (0 <=? ps_len (ms_mti S)) && (1 <=? bm_len (ms_bm S)) && (match bm_enc (ms_bm S) with EncBinary | EncHex => true | _ => false end) &&
  (match bm_pref (ms_bm S) with PFixed _ => true | _ => false end) && forallb (fun ids => wfsb (snd ids)) (ms_fields S).

Theorem wfmb_sound S : wfmb S = true -> wfm S.
Proof.
  unfold wfmb. intros H. do 4 (apply Bool.andb_true_iff in H; destruct H as (H & ?)).
  split; [lia|]. split; [lia|]. split; [destruct (bm_enc (ms_bm S)); try discriminate; [left|right]; reflexivity|].
  split; [destruct (bm_pref (ms_bm S)) as [f| | |]; try discriminate; exists f; reflexivity|].
  intros id s Hl. apply wfsb_sound. match goal with Hf : forallb _ _ = true |- _ => rewrite forallb_forall in Hf; apply (Hf (id, s)) end.
  clear - Hl. induction (ms_fields S) as [|(k, v) r IH]; [discriminate|]. cbn [zlookup] in Hl. destruct (id =? k) eqn:E; [left; f_equal; [lia|congruence]|right; apply IH; exact Hl].
Qed.
