(* Proofs of the padding laws (C20) about Model/Padding.v *)
From Iso Require Import Model.Base Model.Padding Proofs.BaseLemmas.
From Coq Require Import ZifyBool ZifyNat.

(* ---- drop_while ---- *)
Definition starts_with (c : byte) (l : bytes) : bool :=
  match l with b :: _ => Byte.eqb c b | [] => false end.
Definition ends_with (c : byte) (l : bytes) : bool := starts_with c (rev l).

Lemma drop_while_spec c l :
  exists k, l = repeat c k ++ drop_while (Byte.eqb c) l /\ starts_with c (drop_while (Byte.eqb c) l) = false.
Proof.
  induction l as [|b r IH]; cbn [drop_while].
  - exists 0%nat. split; reflexivity.
  - destruct (Byte.eqb c b) eqn:E.
    + destruct IH as (k & Hk & Hs). exists (S k). apply byte_eqb_eq in E. subst b.
      split; [cbn [repeat app]; f_equal; exact Hk | exact Hs].
    + exists 0%nat. split; [reflexivity | cbn [starts_with]; exact E].
Qed.

Lemma drop_while_repeat_app c k l :
  starts_with c l = false -> drop_while (Byte.eqb c) (repeat c k ++ l) = l.
Proof.
  intros H. induction k as [|k IH]; cbn [repeat app drop_while].
  - destruct l as [|b r]; [reflexivity|]. cbn [starts_with] in H. cbn [drop_while]. rewrite H. reflexivity.
  - rewrite byte_eqb_refl. exact IH.
Qed.

Lemma rev_repeat (c : byte) k : rev (repeat c k) = repeat c k.
Proof.
  induction k as [|k IH]; [reflexivity|]. cbn [repeat rev]. rewrite IH.
  clear IH. induction k as [|k IH]; [reflexivity|]. cbn [repeat app]. f_equal. exact IH.
Qed.

Lemma drop_while_end_spec c l :
  exists k, l = drop_while_end (Byte.eqb c) l ++ repeat c k /\ ends_with c (drop_while_end (Byte.eqb c) l) = false.
Proof.
  unfold drop_while_end, ends_with. rewrite !frev_rev.
  destruct (drop_while_spec c (rev l)) as (k & Hk & Hs).
  exists k. split.
  - rewrite <- (rev_involutive l) at 1. rewrite Hk at 1. rewrite rev_app_distr, rev_repeat. reflexivity.
  - rewrite rev_involutive. exact Hs.
Qed.

Lemma drop_while_end_app_repeat c k l :
  ends_with c l = false -> drop_while_end (Byte.eqb c) (l ++ repeat c k) = l.
Proof.
  intros H. unfold drop_while_end, ends_with in *. rewrite !frev_rev.
  rewrite rev_app_distr, rev_repeat, drop_while_repeat_app by exact H. apply rev_involutive.
Qed.

(* ---- the laws ---- *)
Lemma pad_noop p v n : n <= zlen v -> pad p v n = v.
Proof.
  intros H. unfold pad, pad_mem. destruct p; cbn [fst]; try reflexivity;
    replace (n <=? zlen v) with true by lia; reflexivity.
Qed.

Lemma pad_none v n : pad PadNone v n = v /\ unpad PadNone v = v.
Proof. split; reflexivity. Qed.

Lemma pad_left_shape c v n : zlen v < n ->
  pad (PadLeft c) v n = repeat c (Z.to_nat (n - zlen v)) ++ v.
Proof.
  intros H. unfold pad, pad_mem. replace (n <=? zlen v) with false by lia. reflexivity.
Qed.

Lemma pad_right_shape c v n : zlen v < n ->
  pad (PadRight c) v n = v ++ repeat c (Z.to_nat (n - zlen v)).
Proof.
  intros H. unfold pad, pad_mem, go_append_fresh. replace (n <=? zlen v) with false by lia. reflexivity.
Qed.

Lemma pad_len p v n : p <> PadNone -> zlen v < n -> zlen (pad p v n) = n.
Proof.
  intros Hp H. destruct p as [|c|c]; [contradiction| |].
  - rewrite pad_left_shape by exact H. unfold zlen in *. rewrite app_length, repeat_length. lia.
  - rewrite pad_right_shape by exact H. unfold zlen in *. rewrite app_length, repeat_length. lia.
Qed.

Lemma unpad_left_only_pad c v :
  exists k, v = repeat c k ++ unpad (PadLeft c) v /\ starts_with c (unpad (PadLeft c) v) = false.
Proof. apply drop_while_spec. Qed.

Lemma unpad_right_only_pad c v :
  exists k, v = unpad (PadRight c) v ++ repeat c k /\ ends_with c (unpad (PadRight c) v) = false.
Proof. apply drop_while_end_spec. Qed.

Lemma unpad_pad_left c v n : starts_with c v = false -> unpad (PadLeft c) (pad (PadLeft c) v n) = v.
Proof.
  intros H. destruct (Z_lt_le_dec (zlen v) n) as [L|L].
  - rewrite pad_left_shape by exact L. cbn [unpad]. apply drop_while_repeat_app. exact H.
  - rewrite pad_noop by exact L. cbn [unpad]. apply (drop_while_repeat_app c 0 v H).
Qed.

Lemma unpad_pad_right c v n : ends_with c v = false -> unpad (PadRight c) (pad (PadRight c) v n) = v.
Proof.
  intros H. destruct (Z_lt_le_dec (zlen v) n) as [L|L].
  - rewrite pad_right_shape by exact L. cbn [unpad]. apply drop_while_end_app_repeat. exact H.
  - rewrite pad_noop by exact L. cbn [unpad].
    rewrite <- (app_nil_r v) at 1. apply (drop_while_end_app_repeat c 0 v H).
Qed.

Lemma pad_no_write p v spare n : snd (pad_mem p v spare n) = spare.
Proof.
  unfold pad_mem, go_append_fresh. destruct p; try reflexivity; destruct (n <=? zlen v); reflexivity.
Qed.

Lemma pad_mem_spare_irrelevant p v spare n : fst (pad_mem p v spare n) = pad p v n.
Proof.
  unfold pad, pad_mem, go_append_fresh. destruct p; try reflexivity; destruct (n <=? zlen v); reflexivity.
Qed.
