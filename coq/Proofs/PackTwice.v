(* C15: Pack is repeatable. Packing the object Pack leaves behind gives the same outcome - the same bytes or the same
   failure - and leaves the same object: Pack has no side effect that a later Pack (or anything else reading the object)
   could see beyond the bitmap bookkeeping of the first call. About Model/Message.v. *)
From Iso Require Import Model.Base Model.Bitmap Model.Spec Model.Field Model.Message Model.Json
     Proofs.BaseLemmas Proofs.StateProofs.
From Coq Require Import ZifyBool ZifyNat.
Set Default Timeout 120.

Lemma zremove_zadd_same k l : zremove k (zadd k l) = zremove k l.
Proof.
  unfold zadd. destruct (zmem k l); [reflexivity|]. unfold zremove. rewrite filter_app. cbn [filter]. rewrite Z.eqb_refl. cbn [negb]. apply app_nil_r.
Qed.

Lemma packable_ids_bitmap S m : packable_ids (m_bitmap S m) = packable_ids m.
Proof.
  unfold m_bitmap. destruct (m_bmcached m); [reflexivity|]. unfold packable_ids. cbn [m_present]. rewrite zremove_zadd_same. reflexivity.
Qed.

Theorem m_pack_twice S m : m_pack S (fst (m_pack S m)) = m_pack S m.
Proof.
  unfold m_pack at 2 3.
  assert (Hc : m_bmcached (m_bitmap S m) = true) by (unfold m_bitmap; destruct (m_bmcached m) eqn:E; [exact E|reflexivity]).
  assert (Hids : forall bm, packable_ids (with_bm (m_bitmap S m) bm) = packable_ids m) by (intros bm; unfold packable_ids; cbn [with_bm m_present]; apply packable_ids_bitmap).
  assert (Hstep : forall bm, m_bitmap S (with_bm (m_bitmap S m) bm) = with_bm (m_bitmap S m) bm) by (intros bm; unfold m_bitmap at 1; cbn [with_bm m_bmcached]; rewrite Hc; reflexivity).
  rewrite packable_ids_bitmap.
  destruct (set_bits (ms_bm S) (packable_ids m) (bm_new (ms_bm S))) as [bm o] eqn:Es.
  assert (Hgoal : m_pack S (with_bm (m_bitmap S m) bm) =
                  match o with Ok _ => (with_bm (m_bitmap S m) bm, pack_ids S (with_bm (m_bitmap S m) bm) bm (packable_ids m))
                             | Err e => (with_bm (m_bitmap S m) bm, Err e) | Panic p => (with_bm (m_bitmap S m) bm, Panic p) | OutOfFuel => (with_bm (m_bitmap S m) bm, OutOfFuel) end).
  { unfold m_pack. rewrite Hstep, Hids, Es. destruct o; reflexivity. }
  destruct o as [u|e|p|]; cbn [fst]; exact Hgoal.
Qed.

Theorem m_json_twice S m : m_json S (fst (m_json S m)) = m_json S m.
Proof.
  rewrite (proj2 (m_json_total S m)). unfold m_json. rewrite m_pack_twice. reflexivity.
Qed.
