(* C08 / C04 for whole trees on the Unpack side: everything a successful Unpack leaves populated - the field itself and,
   recursively, every set subfield at every depth - was itself produced by a successful Unpack of its own specification
   (accepted_tree), so the per-node statements about accepted encodings (announced length within the declared maximum and
   within the bytes available: C08_prim_unpack, C08_comp_unpack) hold at every node. About Model/Field.v. *)
From Iso Require Import Model.Base Model.Padding Model.Encoding Model.Prefix Model.Bitmap Model.Spec Model.Field
     Proofs.BaseLemmas Proofs.PaddingProofs Proofs.EncodingProofs Proofs.PrefixProofs Proofs.FieldProofs Proofs.SortProofs
     Proofs.CompositeLoops Proofs.CompositeProofs Proofs.BitmapCompositeProofs Proofs.LayoutProofs Proofs.IndependenceProofs Proofs.CompositeAccept.
From Coq Require Import ZifyBool ZifyNat ZifyN Sorting.Permutation.
Set Default Timeout 120.

Section GLoops.
  Variable subs : list (bytes * fspec).
  Hypothesis Hnd : NoDup (map fst subs).
  Variable Q : fspec -> fstate -> Prop.
  Hypothesis Hsub : forall t s', In (t, s') subs -> forall st0 d st n, shaped s' st0 -> unpack_f s' st0 d = (st, UOk n) -> shaped s' st /\ Q s' st.

  (* the invariant of the three loops on the path to success *)
  Definition GAcc (set : list bytes) (sts : list (bytes * fstate)) : Prop :=
    (forall t s', In (t, s') subs -> exists x, blookup t sts = Some x /\ shaped s' x) /\
    (forall t, bmem t set = true -> In t (map fst subs)) /\
    (forall t s' x, In (t, s') subs -> bmem t set = true -> blookup t sts = Some x -> Q s' x).

  Lemma gacc_step set sts tag s' st st' d n : GAcc set sts -> In (tag, s') subs -> blookup tag sts = Some st ->
    unpack_f s' st d = (st', UOk n) -> GAcc (badd tag set) (bupdate tag st' sts).
  Proof.
    intros (Hk & Hs & Hd) Hin Hst Hu. destruct (Hk tag s' Hin) as (x & Hx & Hshx). assert (x = st) by congruence. subst x.
    destruct (Hsub tag s' Hin st d st' n Hshx Hu) as (Hsh' & Hd').
    split; [|split].
    - intros t s2 Hi2. destruct (bytes_eq_dec tag t) as [->|Hne].
      + assert (s2 = s') by (pose proof (In_blookup_nodup t s2 subs Hnd Hi2); pose proof (In_blookup_nodup t s' subs Hnd Hin); congruence). subst s2.
        exists st'. split; [apply blookup_bupdate_same; eexists; exact Hst|exact Hsh'].
      + rewrite blookup_bupdate_other by exact Hne. apply Hk. exact Hi2.
    - intros t Hm. rewrite bmem_badd in Hm. apply Bool.orb_true_iff in Hm. destruct Hm as [He|Hm]; [apply bytes_eqb_eq in He; subst t; change tag with (fst (tag, s')); apply in_map; exact Hin|apply Hs; exact Hm].
    - intros t s2 y Hi2 Hm Hy. destruct (bytes_eq_dec tag t) as [->|Hne].
      + assert (s2 = s') by (pose proof (In_blookup_nodup t s2 subs Hnd Hi2); pose proof (In_blookup_nodup t s' subs Hnd Hin); congruence). subst s2.
        rewrite blookup_bupdate_same in Hy by (eexists; exact Hst). assert (y = st') by congruence. subst y. exact Hd'.
      + rewrite blookup_bupdate_other in Hy by exact Hne. rewrite bmem_badd in Hm. replace (bytes_eqb t tag) with false in Hm by (symmetry; apply bytes_eqb_neq; congruence).
        apply (Hd t s2 y Hi2 Hm Hy).
  Qed.

  Lemma gou_lookup' tag up : blookup tag (gou subs) = Some up -> exists s', In (tag, s') subs /\ up = unpack_f s'.
  Proof. rewrite blookup_gou. destruct (blookup tag subs) as [s'|] eqn:E; [|discriminate]. intros H. inversion H. exists s'. split; [apply blookup_In; exact E|reflexivity]. Qed.

  Lemma by_tag_gacc t e : forall fuel data off set sts set' sts' n, GAcc set sts ->
    unpack_by_tag (gou subs) (gof subs) fuel t e data off set sts = ((set', sts'), UOk n) -> GAcc set' sts'.
  Proof.
    induction fuel as [|f IH]; intros data off set sts set' sts' n Hacc H; cbn [unpack_by_tag] in H; [discriminate|].
    destruct (zlen data <=? off); [inversion H; subst; exact Hacc|].
    destruct (enc_decode e (zdrop off data) (tg_len t)) as [[tagb read]| | |]; try discriminate.
    destruct (blookup (unpad (tg_pad t) tagb) (gou subs)) as [up|] eqn:Eu.
    - destruct (gou_lookup' _ _ Eu) as (s' & Hin & ->). unfold sub_state in H. destruct (blookup (unpad (tg_pad t) tagb) sts) as [st|] eqn:Est; [|apply (IH _ _ _ _ _ _ _ Hacc H)].
      destruct (unpack_f s' st (zdrop (off + read) data)) as [st' [read2|p er|q|]] eqn:Eup; try discriminate.
      apply (IH _ _ _ _ _ _ _ (gacc_step _ _ _ _ _ _ _ _ Hacc Hin Est Eup) H).
    - destruct (skip_unknown t); [|discriminate].
      destruct (tg_prefunk t) as [pu|].
      + destruct (dec_len pu max_int (zdrop (off + read) data)) as [[flen read2]| | |]; try discriminate.
        destruct ((flen <? 0) || (zlen data - (off + read) - read2 <? flen)); [discriminate|]. apply (IH _ _ _ _ _ _ _ Hacc H).
      + destruct (dec_len PBerTLV 0 (zdrop (off + read) data)) as [[flen read2]| | |]; try discriminate.
        destruct ((flen <? 0) || (zlen data - (off + read) - read2 <? flen)); [discriminate|]. apply (IH _ _ _ _ _ _ _ Hacc H).
  Qed.

  Lemma bits_gacc bm : forall fuel i data off set sts set' sts' n, GAcc set sts ->
    unpack_bits (gou subs) (gof subs) fuel bm i data off set sts = ((set', sts'), UOk n) -> GAcc set' sts'.
  Proof.
    induction fuel as [|f IH]; intros i data off set sts set' sts' n Hacc H; cbn [unpack_bits] in H; [inversion H; subst; exact Hacc|].
    destruct (bm_isset bm i); [|apply (IH _ _ _ _ _ _ _ _ Hacc H)].
    destruct (blookup (itoa i) (gou subs)) as [up|] eqn:Eu; [|discriminate]. destruct (gou_lookup' _ _ Eu) as (s' & Hin & ->).
    unfold sub_state in H. destruct (blookup (itoa i) sts) as [st|] eqn:Est; [|discriminate].
    destruct (unpack_f s' st (zdrop off data)) as [st' [read|p er|q|]] eqn:Eup; try discriminate.
    apply (IH _ _ _ _ _ _ _ _ (gacc_step _ _ _ _ _ _ _ _ Hacc Hin Est Eup) H).
  Qed.

  (* the positional loop populates a front segment of the order: all of it unless the length is variable and the data
     ran out, and at least the first subfield *)
  Lemma positional_gacc isvar : forall order data off set sts set' sts' n, GAcc set sts ->
    (forall t, In t order -> In t (map fst subs)) ->
    unpack_positional (gou subs) (gof subs) order isvar data off set sts = ((set', sts'), UOk n) ->
    GAcc set' sts' /\ exists o1 o2, order = o1 ++ o2 /\ (forall t, bmem t set' = bmem t set || bmem t o1) /\ (order <> [] -> o1 <> []) /\ (isvar = false -> o2 = []).
  Proof.
    induction order as [|tag rest IH]; intros data off set sts set' sts' n Hacc Hin H; cbn [unpack_positional] in H.
    - inversion H; subst. split; [exact Hacc|]. exists [], []. split; [reflexivity|]. split; [intros t; cbn; rewrite Bool.orb_false_r; reflexivity|]. split; [intros C; contradiction|reflexivity].
    - assert (Htag : In tag (map fst subs)) by (apply Hin; left; reflexivity). apply in_map_iff in Htag. destruct Htag as ((t0, s') & Ht0 & Hi). cbn [fst] in Ht0. subst t0.
      rewrite blookup_gou, (In_blookup_nodup tag s' subs Hnd Hi) in H. cbn [option_map] in H.
      destruct Hacc as (Hk & Hs & Hd). destruct (Hk tag s' Hi) as (st & Hst & Hsh). unfold sub_state in H. rewrite Hst in H.
      destruct (unpack_f s' st (zdrop off data)) as [st' [read|p er|q|]] eqn:Eup; try (destruct er; discriminate); try discriminate.
      pose proof (gacc_step set sts tag s' st st' _ read (conj Hk (conj Hs Hd)) Hi Hst Eup) as Hacc1.
      destruct (isvar && (zlen data <=? off + read)) eqn:Ex.
      + inversion H; subst. split; [exact Hacc1|]. exists [tag], rest. split; [reflexivity|]. split; [intros t; rewrite bmem_badd; cbn [bmem existsb]; rewrite Bool.orb_false_r, Bool.orb_comm; reflexivity|].
        split; [intros _; discriminate|]. intros Hv. rewrite Hv in Ex. discriminate.
      + destruct (IH data (off + read) (badd tag set) (bupdate tag st' sts) set' sts' n Hacc1 (fun t Ht => Hin t (or_intror Ht)) H) as (Hacc' & o1 & o2 & Ho & Hb & _ & Hv).
        split; [exact Hacc'|]. exists (tag :: o1), o2. split; [cbn [app]; rewrite Ho; reflexivity|]. split.
        * intros t. rewrite Hb, bmem_badd. cbn [bmem existsb]. fold (bmem t o1). destruct (bytes_eqb t tag), (bmem t set), (bmem t o1); reflexivity.
        * split; [intros _; discriminate|exact Hv].
  Qed.
End GLoops.

(* produced by a successful Unpack of its own specification, at every populated node *)
Fixpoint accepted_tree (s : fspec) : fstate -> Prop :=
  match s with
  | FPrim p => fun st => exists st0 d n, prim_unpack p st0 d = (st, UOk n)
  | FComp pref len mode subs => fun st =>
      match st with
      | SComp set sts =>
          (exists st0 d n, shaped s st0 /\ unpack_f s st0 d = (st, UOk n)) /\
          (fix go (l : list (bytes * fspec)) : Prop :=
             match l with
             | [] => True
             | (t, s') :: r => (bmem t set = true -> forall x, blookup t sts = Some x -> accepted_tree s' x) /\ go r
             end) subs
      | _ => False
      end
  end.

Definition acc_tree (s : fspec) : Prop :=
  forall st0 d st n, shaped s st0 -> unpack_f s st0 d = (st, UOk n) -> shaped s st /\ accepted_tree s st.

Theorem comp_acc_tree pref len mode subs :
  NoDup (map fst subs) -> (forall t s', In (t, s') subs -> coherent s') -> (forall t s', In (t, s') subs -> acc_tree s') ->
  acc_tree (FComp pref len mode subs).
Proof.
  intros Hnd Hcoh Hsub st0 d st n Hsh Hu. pose proof Hu as Hu0.
  destruct st0 as [v|v|v|v|set0 sts0]; try contradiction.
  cbn [unpack_f] in Hu. fold (gou subs) in Hu. fold (gof subs) in Hu.
  destruct (dec_len pref len d) as [[dlen offset]| | |] eqn:Ed; try (inversion Hu; fail).
  destruct ((dlen <? 0) || (zlen d - offset <? dlen)); [inversion Hu|]. cbv zeta in Hu.
  destruct (comp_unpack_body (gou subs) mode (ordered_tags mode subs) (gof subs) set0 sts0 (ztake dlen (zdrop offset d)) (negb (offset =? 0))) as [[set' sts'] [read|p e|q|]] eqn:Eb; try (inversion Hu; fail).
  destruct (negb (dlen =? read)); [inversion Hu|]. assert (st = SComp set' sts') by (inversion Hu; reflexivity). subst st. clear Hu.
  pose proof (reset_shaped pref len mode subs set0 sts0 Hnd Hcoh Hsh) as Hsh1. cbn [shaped] in Hsh1. rewrite shaped_subs in Hsh1.
  assert (Hacc0 : GAcc subs accepted_tree [] (reset_set (gof subs) set0 sts0)) by (split; [exact Hsh1|split; [intros t Hm; discriminate|intros t s' x _ Hm; discriminate]]).
  unfold comp_unpack_body in Eb.
  assert (Hfinal : GAcc subs accepted_tree set' sts').
  { destruct mode as [t|b].
    - destruct (tg_enc t) as [e|] eqn:Ee.
      + apply (by_tag_gacc subs Hnd accepted_tree Hsub t e _ _ _ _ _ _ _ _ Hacc0 Eb).
      + destruct (positional_gacc subs Hnd accepted_tree Hsub _ _ _ _ _ _ _ _ _ Hacc0 (fun t0 Ht => proj1 (ordered_tags_In (CTag t) subs t0) Ht) Eb) as (Hacc & _). exact Hacc.
    - destruct (bm_unpack b (bm_new b) (ztake dlen (zdrop offset d))) as [bm [rd|er|q|]]; try discriminate.
      apply (bits_gacc subs Hnd accepted_tree Hsub bm _ _ _ _ _ _ _ _ _ Hacc0 Eb). }
  destruct Hfinal as (Hk & Hs & Hd).
  split; [cbn [shaped]; rewrite shaped_subs; exact Hk|].
  cbn [accepted_tree]. split; [exists (SComp set0 sts0), d, n; split; [exact Hsh|exact Hu0]|].
  apply in_dom_subs_intro. intros t s' Hi Hm x Hx. apply (Hd t s' x Hi Hm Hx).
Qed.

Theorem spec_acc_tree s : coherent s -> acc_tree s.
Proof.
  induction s as [p|pref len mode subs IH] using fspec_ind'; intros Hc.
  - intros st0 d st n _ Hu. split; [exact I|]. cbn [unpack_f] in Hu. cbn [accepted_tree]. exists st0, d, n. exact Hu.
  - cbn [coherent] in Hc. destruct Hc as (_ & Hnd & _ & Hcs). pose proof (coherent_subs subs Hcs) as Hcs'.
    apply comp_acc_tree; [exact Hnd|exact Hcs'|]. intros t s' Hi. apply (IH t s' Hi). apply (Hcs' t s' Hi).
Qed.

(* ---- messages ---- *)
From Iso Require Import Model.Message Proofs.BitmapProofs Proofs.StateProofs Proofs.MessageRoundtrip Proofs.AcceptProofs Proofs.MessageAccept Proofs.MessageAccept2.
From Coq Require Import Sorting.Sorted.

Definition elem_q (Q : fspec -> fstate -> Prop) (S : mspec) (bm : bytes) (fl : list (Z * fstate)) (id : Z) : Prop :=
  bm_is_presence_bit (ms_bm S) id = false /\ bm_isset bm id = true /\
  exists s st, zlookup id (ms_fields S) = Some s /\ zlookup id fl = Some st /\ Q s st.

Definition all_shaped' (S : mspec) (fields : list (Z * fstate)) : Prop :=
  forall id s, zlookup id (ms_fields S) = Some s -> exists st, zlookup id fields = Some st /\ shaped s st.

Lemma unpack_fields_q (Q : fspec -> fstate -> Prop) S bm : (forall id s, zlookup id (ms_fields S) = Some s -> forall st0 d st n, shaped s st0 -> unpack_f s st0 d = (st, UOk n) -> shaped s st /\ Q s st) ->
  forall fuel i src off present fields p' f' n, all_shaped' S fields ->
    unpack_fields fuel S bm i src off present fields = ((p', f'), UOk n) ->
    (forall id, zmem id present = true -> zmem id p' = true) /\
    (forall id, zmem id p' = true -> zmem id present = true \/ (i <= id < i + Z.of_nat fuel /\ elem_q Q S bm f' id)) /\
    (forall id, id < i -> zlookup id f' = zlookup id fields).
Proof.
  intros Hacc. induction fuel as [|f IH]; intros i src off present fields p' f' n Hsh H; cbn [unpack_fields] in H.
  - inversion H; subst. split; [tauto|]. split; [intros id Hm; left; exact Hm|reflexivity].
  - assert (Hskip : unpack_fields f S bm (i + 1) src off present fields = (p', f', UOk n) ->
            (forall id, zmem id present = true -> zmem id p' = true) /\
            (forall id, zmem id p' = true -> zmem id present = true \/ (i <= id < i + Z.of_nat (Datatypes.S f) /\ elem_q Q S bm f' id)) /\
            (forall id, id < i -> zlookup id f' = zlookup id fields)).
    { intros H'. destruct (IH _ _ _ _ _ _ _ _ Hsh H') as (P1 & P2 & P3). split; [exact P1|]. split.
      - intros id Hm. destruct (P2 id Hm) as [Hl|(Hr & He)]; [left; exact Hl|right; split; [lia|exact He]].
      - intros id Hid. apply P3. lia. }
    destruct (bm_is_presence_bit (ms_bm S) i) eqn:Epb; [apply Hskip; exact H|].
    destruct (bm_isset bm i) eqn:Eset; [|apply Hskip; exact H].
    destruct (zlookup i (ms_fields S)) as [s|] eqn:Es; [|discriminate]. destruct (Hsh i s Es) as (st & Est & Hshst). rewrite Est in H.
    destruct (unpack_f s st (zdrop off src)) as [st' [read|pth e|q|]] eqn:Eu; try discriminate.
    destruct (Hacc i s Es st _ st' read Hshst Eu) as (Hsh' & Hdom).
    assert (Hsh1 : all_shaped' S (zupdate i st' fields)).
    { intros id s0 Hs0. destruct (Z.eq_dec id i) as [->|Hne].
      - exists st'. split; [apply zlookup_zupdate_same; eexists; exact Est|]. assert (s0 = s) by congruence. subst. exact Hsh'.
      - rewrite zlookup_zupdate_other by lia. apply Hsh. exact Hs0. }
    destruct (IH _ _ _ _ _ _ _ _ Hsh1 H) as (P1 & P2 & P3).
    split; [|split].
    + intros id Hm. apply P1. rewrite zmem_zadd, Hm. apply Bool.orb_true_r.
    + intros id Hm. destruct (P2 id Hm) as [Hl|(Hr & He)]; [|right; split; [lia|exact He]].
      rewrite zmem_zadd in Hl. destruct (id =? i) eqn:Ei; [|left; exact Hl]. assert (id = i) by lia. subst id. right. split; [lia|].
      split; [exact Epb|]. split; [exact Eset|]. exists s, st'. split; [exact Es|]. split; [|exact Hdom].
      rewrite P3 by lia. apply zlookup_zupdate_same. exists st. exact Est.
    + intros id Hid. rewrite P3 by lia. apply zlookup_zupdate_other. lia.
Qed.


(* after a successful Unpack of a message every populated data element, at every depth, was produced by a successful Unpack
   of its own specification *)
Theorem message_unpack_tree S m0 d m n : msg_coherent S -> msg_shaped S m0 -> m_unpack S m0 d = (m, UOk n) ->
  forall id, 2 <= id -> zmem id (m_present m) = true ->
    exists s st, zlookup id (ms_fields S) = Some s /\ zlookup id (m_fields m) = Some st /\ accepted_tree s st.
Proof.
  intros (Hmti & HB & He & (f & Hpf) & Hcoh) Hsh Hu id H2 Hmem.
  assert (Hacc : forall id s, zlookup id (ms_fields S) = Some s -> forall st0 d st n, shaped s st0 -> unpack_f s st0 d = (st, UOk n) -> shaped s st /\ accepted_tree s st)
    by (intros i s Hs; apply spec_acc_tree; apply (Hcoh i s Hs)).
  unfold m_unpack in Hu. cbv zeta in Hu.
  set (m0r := with_failed (with_fields m0 (reset_fields S (m_failed m0) (m_present m0) (m_fields m0))) []) in *.
  set (m1 := with_bm (m_bitmap S (with_present m0r [])) (bm_new (ms_bm S))) in *.
  destruct (unpack_f (FPrim (ms_mti S)) (m_mti m1) d) as [mti' [read|pth e|q|]] eqn:Emti; try (inversion Hu; fail).
  destruct (bm_unpack (ms_bm S) (m_bm (with_present (with_mti m1 mti') (zadd 0 (m_present m1)))) (zdrop read d)) as [bm [r2|e|q|]] eqn:Ebm; try (inversion Hu; fail).
  cbn [with_present with_bm with_mti m_present m_fields m_bm m_mti m_bmcached] in Hu.
  destruct (unpack_fields (Z.to_nat (zlen bm * 8 - 1)) S bm 2 d (read + r2) (zadd 1 (zadd 0 (m_present m1))) (m_fields m1)) as [[p fl] r] eqn:Ef.
  assert (r = UOk n) by congruence. subst r.
  assert (Hm : m = {| m_mti := mti'; m_fields := fl; m_present := p; m_bm := bm; m_bmcached := m_bmcached m1; m_failed := [] |}) by (inversion Hu; reflexivity).
  clear Hu. subst m. cbn [m_present m_fields] in *.
  assert (Hm1f : m_fields m1 = reset_fields S (m_failed m0) (m_present m0) (m_fields m0)) by (unfold m1, m_bitmap; destruct (m_bmcached (with_present m0r [])); reflexivity).
  assert (Hsh1 : all_shaped' S (m_fields m1)).
  { rewrite Hm1f. intros i s Hs. destruct (Hsh i s Hs) as (st & Hst & Hshaped). rewrite zlookup_reset, Hst. eexists. split; [reflexivity|].
    destruct (zmem i (m_present m0) || bytes_eqb (itoa i) (m_failed m0)); [|exact Hshaped]. rewrite Hs. apply fresh_shaped. apply (Hcoh i s Hs). }
  destruct (unpack_fields_q accepted_tree S bm Hacc _ _ _ _ _ _ _ _ _ Hsh1 Ef) as (P1 & P2 & _).
  assert (Hinit : forall i, zmem i (zadd 1 (zadd 0 (m_present m1))) = true -> i = 0 \/ i = 1).
  { intros i Hm. rewrite !zmem_zadd in Hm. unfold m1, m_bitmap in Hm. cbn [with_bm with_present m_present m_bmcached] in Hm.
    destruct (m_bmcached m0r); cbn [m_present with_present zmem existsb] in Hm; [lia|]. rewrite ?zmem_zadd in Hm. cbn [m_present with_present zmem existsb] in Hm. unfold zmem in Hm. cbn in Hm. lia. }
  destruct (P2 id Hmem) as [Hl|(_ & _ & _ & s & st & Hs & Hst & Hq)]; [destruct (Hinit id Hl); lia|].
  exists s, st. split; [exact Hs|]. split; [exact Hst|exact Hq].
Qed.
