(* C13: race freedom, atomicity of critical sections and deadlock freedom for well-locked APIs. *)
From Coq Require Import List Arith Bool Lia.
Import ListNotations.
From Iso Require Import Model.Locks.

(* programs: each thread runs a list of invocations of well-locked methods; invocation ids are arbitrary *)
Fixpoint program (calls : list (nat * mshape)) : list step :=
  match calls with [] => [] | (c, m) :: r => invocation c m ++ program r end.

(* shape of what a thread still has to do: either at a call boundary, or inside a locked body *)
Inductive well_formed_rest : bool -> list step -> Prop :=
| wf_boundary : forall calls, Forall (fun cm => well_locked (snd cm) = true) calls -> well_formed_rest false (program calls)
| wf_inside : forall c k calls, Forall (fun cm => well_locked (snd cm) = true) calls ->
    well_formed_rest true (repeat (SAcc c) k ++ SRel :: program calls).

(* the invariant: every thread's remaining steps are well formed, and a thread is inside a locked body iff it is the holder *)
Definition inv (s : mach) : Prop :=
  forall t, t < length (threads s) ->
    exists b, well_formed_rest b (nth_thread s t) /\ (b = true <-> holder s = Some t).

Lemma nth_set_nth_same {A} (l : list A) t v d : t < length l -> nth t (set_nth l t v) d = v.
Proof. revert t. induction l as [|x r IH]; intros [|t] H; cbn in *; try lia; [reflexivity|]. apply IH. lia. Qed.
Lemma nth_set_nth_other {A} (l : list A) t u v d : t <> u -> nth u (set_nth l t v) d = nth u l d.
Proof. revert t u. induction l as [|x r IH]; intros [|t] [|u] H; cbn; try reflexivity; try lia. apply IH. lia. Qed.
Lemma set_nth_length {A} (l : list A) t v : length (set_nth l t v) = length l.
Proof. revert t. induction l as [|x r IH]; intros [|t]; cbn; try reflexivity. f_equal. apply IH. Qed.

Lemma invocation_well_locked c m : well_locked m = true ->
  (sh_locks m = true /\ invocation c m = SAcq :: repeat (SAcc c) (sh_accesses m) ++ [SRel]) \/
  (sh_locks m = false /\ invocation c m = []).
Proof.
  unfold well_locked, invocation. intros H. apply andb_prop in H. destruct H as [H1 H2].
  destruct (sh_locks m) eqn:L.
  - left. split; [reflexivity|]. cbn [andb negb] in H2. destruct (sh_nested_lock m); [discriminate|]. rewrite app_nil_r. reflexivity.
  - right. split; [reflexivity|]. cbn [orb] in H1. apply Nat.eqb_eq in H1. rewrite H1. reflexivity.
Qed.

Lemma program_cons_locked c m calls : well_locked m = true -> sh_locks m = true ->
  program ((c, m) :: calls) = SAcq :: repeat (SAcc c) (sh_accesses m) ++ SRel :: program calls.
Proof.
  intros Hw Hl. cbn [program]. destruct (invocation_well_locked c m Hw) as [(_ & ->)|(Hf & _)]; [|congruence].
  cbn [app]. rewrite <- app_assoc. reflexivity.
Qed.
Lemma program_cons_unlocked c m calls : well_locked m = true -> sh_locks m = false -> program ((c, m) :: calls) = program calls.
Proof.
  intros Hw Hl. cbn [program]. destruct (invocation_well_locked c m Hw) as [(Ht & _)|(_ & ->)]; [congruence|reflexivity].
Qed.

(* what the next step of a well-formed thread can be *)
Lemma boundary_next calls a rest : Forall (fun cm => well_locked (snd cm) = true) calls -> program calls = a :: rest ->
  a = SAcq /\ exists c k calls', Forall (fun cm => well_locked (snd cm) = true) calls' /\ rest = repeat (SAcc c) k ++ SRel :: program calls'.
Proof.
  induction calls as [|[c m] r IH]; intros Hf H; [discriminate|].
  inversion Hf as [|? ? Hw Hr]; subst. cbn [snd] in Hw. destruct (sh_locks m) eqn:L.
  - rewrite (program_cons_locked c m r Hw L) in H. inversion H; subst. split; [reflexivity|]. exists c, (sh_accesses m), r. split; [exact Hr|reflexivity].
  - rewrite (program_cons_unlocked c m r Hw L) in H. apply IH; assumption.
Qed.

Lemma wf_cases b l : well_formed_rest b l ->
  (b = false /\ exists calls, Forall (fun cm => well_locked (snd cm) = true) calls /\ l = program calls) \/
  (b = true /\ exists c k calls, Forall (fun cm => well_locked (snd cm) = true) calls /\ l = repeat (SAcc c) k ++ SRel :: program calls).
Proof. intros H. destruct H as [calls Hf|c k calls Hf]; [left|right]; split; try reflexivity; eauto. Qed.

Lemma inv_step s t a s' : inv s -> t < length (threads s) -> mstep s t a s' ->
  inv s' /\ (forall c, a = SAcc c -> holder s = Some t).
Proof.
  intros Hinv Ht Hstep. destruct (Hinv t Ht) as (b & Hwf & Hb).
  inversion Hstep as [s0 t0 rest Hn Hh|s0 t0 rest Hn|s0 t0 c rest Hn]; subst; cbn [holder threads].
  - (* acquire *) split; [|intros c C; discriminate].
    destruct (wf_cases _ _ Hwf) as [(-> & calls & Hf & Hp)|(-> & c & k & calls & Hf & Hp)].
    + rewrite Hn in Hp. destruct (boundary_next calls _ _ Hf (eq_sym Hp)) as (_ & c & k & calls' & Hf' & Hrest).
      intros u Hu. cbn [threads] in Hu. rewrite set_nth_length in Hu. unfold nth_thread. cbn [threads holder].
      destruct (Nat.eq_dec u t) as [->|Hne].
      * rewrite nth_set_nth_same by exact Ht. exists true. split; [rewrite Hrest; constructor; exact Hf'|]. split; intros; reflexivity.
      * rewrite nth_set_nth_other by congruence. destruct (Hinv u Hu) as (bu & Hwu & Hbu). exists bu. split; [exact Hwu|].
        split; intros H.
        -- apply Hbu in H. rewrite Hh in H. discriminate.
        -- inversion H. congruence.
    + (* inside a body the next step is an access or the release, never an acquire *)
      exfalso. rewrite Hn in Hp. destruct k; cbn in Hp; discriminate.
  - (* release *) split; [|intros c C; discriminate].
    destruct (wf_cases _ _ Hwf) as [(-> & calls & Hf & Hp)|(-> & c & k & calls & Hf & Hp)].
    + exfalso. rewrite Hn in Hp. destruct (boundary_next calls _ _ Hf (eq_sym Hp)) as (C & _). discriminate.
    + rewrite Hn in Hp. destruct k; cbn in Hp; [|discriminate]. inversion Hp; subst.
      assert (Hhold : holder s = Some t) by (apply Hb; reflexivity).
      intros u Hu. cbn [threads] in Hu. rewrite set_nth_length in Hu. unfold nth_thread. cbn [threads holder].
      destruct (Nat.eq_dec u t) as [->|Hne].
      * rewrite nth_set_nth_same by exact Ht. exists false. split; [constructor; exact Hf|]. split; intros; discriminate.
      * rewrite nth_set_nth_other by congruence. destruct (Hinv u Hu) as (bu & Hwu & Hbu). exists bu. split; [exact Hwu|].
        split; intros H; [|discriminate]. apply Hbu in H. rewrite Hhold in H. inversion H. congruence.
  - (* access *)
    destruct (wf_cases _ _ Hwf) as [(-> & calls & Hf & Hp)|(-> & c' & k & calls & Hf & Hp)].
    + exfalso. rewrite Hn in Hp. destruct (boundary_next calls _ _ Hf (eq_sym Hp)) as (C & _). discriminate.
    + rewrite Hn in Hp. destruct k; cbn in Hp; [discriminate|]. inversion Hp; subst.
      assert (Hhold : holder s = Some t) by (apply Hb; reflexivity).
      split; [|intros c0 _; exact Hhold].
      intros u Hu. cbn [threads] in Hu. rewrite set_nth_length in Hu. unfold nth_thread. cbn [threads holder].
      destruct (Nat.eq_dec u t) as [->|Hne].
      * rewrite nth_set_nth_same by exact Ht. exists true. split; [constructor; exact Hf|]. split; intros; [exact Hhold|reflexivity].
      * rewrite nth_set_nth_other by congruence. apply (Hinv u Hu).
Qed.

Lemma mstep_thread_bound s t a s' : mstep s t a s' -> t < length (threads s).
Proof.
  intros H. destruct (Nat.lt_ge_cases t (length (threads s))) as [L|G]; [exact L|exfalso].
  inversion H; subst; unfold nth_thread in *; rewrite nth_overflow in * by lia; discriminate.
Qed.

(* initial states: nobody holds the lock, every thread runs a program of well-locked invocations *)
Definition initial (progs : list (list (nat * mshape))) : mach := {| holder := None; threads := map program progs |}.

Lemma inv_initial progs : Forall (Forall (fun cm => well_locked (snd cm) = true)) progs -> inv (initial progs).
Proof.
  intros H t Ht. unfold initial in *. cbn [threads holder] in *. rewrite map_length in Ht. exists false.
  split; [|split; intros; discriminate]. unfold nth_thread. cbn [threads].
  rewrite (nth_indep _ [] (program []))  by (rewrite map_length; exact Ht). rewrite map_nth. constructor.
  rewrite Forall_forall in H. apply H. apply nth_In. exact Ht.
Qed.

(* race freedom and atomicity: in every execution of every program of well-locked methods under every schedule, each
   access to guarded state is made by the current holder of the mutex - so the accesses of one invocation are never
   interleaved with another thread's, and the invocations take effect one at a time in acquisition order *)
Theorem race_free progs tr s' : Forall (Forall (fun cm => well_locked (snd cm) = true)) progs ->
  exec (initial progs) tr s' ->
  inv s' /\ forall pre t c post, tr = pre ++ (t, SAcc c) :: post ->
     exists s, exec (initial progs) pre s /\ holder s = Some t.
Proof.
  intros Hw. generalize (inv_initial progs Hw). generalize (initial progs). intros s0 Hinv0 Hex.
  induction Hex as [s|s t a s1 tr s2 Hstep Hex IH].
  - split; [exact Hinv0|]. intros pre t c post H. destruct pre; discriminate.
  - pose proof (mstep_thread_bound _ _ _ _ Hstep) as Ht.
    destruct (inv_step s t a s1 Hinv0 Ht Hstep) as (Hinv1 & Hacc).
    destruct (IH Hinv1) as (Hinv2 & Hrest). split; [exact Hinv2|].
    intros pre u c post H. destruct pre as [|[u0 a0] pre'].
    + cbn in H. inversion H; subst. exists s. split; [constructor|]. apply (Hacc c). reflexivity.
    + cbn in H. inversion H; subst. destruct (Hrest pre' u c post eq_refl) as (sx & Hex' & Hh).
      exists sx. split; [econstructor; eassumption|exact Hh].
Qed.


(* the holder is always one of the threads *)
Definition holder_ok (s : mach) : Prop := forall h, holder s = Some h -> h < length (threads s).

Lemma holder_ok_step s t a s' : holder_ok s -> mstep s t a s' -> holder_ok s'.
Proof.
  intros H Hs h Hh. pose proof (mstep_thread_bound _ _ _ _ Hs) as Ht.
  inversion Hs; subst; cbn [holder threads] in *; rewrite set_nth_length.
  - inversion Hh; subst. exact Ht.
  - discriminate.
  - apply H. exact Hh.
Qed.

Lemma exec_invariants s tr s' : inv s -> holder_ok s -> exec s tr s' -> inv s' /\ holder_ok s'.
Proof.
  intros Hi Hh Hex. induction Hex as [s|s t a s1 tr s2 Hstep Hex IH]; [split; assumption|].
  apply IH.
  - apply (inv_step s t a s1 Hi (mstep_thread_bound _ _ _ _ Hstep) Hstep).
  - eapply holder_ok_step; eassumption.
Qed.

(* deadlock freedom: in every reachable state, whenever some thread still has work, some thread can take a step
   (a well-locked method never waits for a mutex it holds) *)
Theorem deadlock_free progs tr s : Forall (Forall (fun cm => well_locked (snd cm) = true)) progs ->
  exec (initial progs) tr s ->
  (exists t, t < length (threads s) /\ nth_thread s t <> []) ->
  exists t a s', mstep s t a s'.
Proof.
  intros Hw Hex (t & Ht & Hne).
  assert (Hh0 : holder_ok (initial progs)) by (intros h H; discriminate).
  destruct (exec_invariants _ _ _ (inv_initial progs Hw) Hh0 Hex) as (Hinv & Hhok).
  destruct (holder s) as [h|] eqn:Hh.
  - pose proof (Hhok h Hh) as Hhl. destruct (Hinv h Hhl) as (b & Hwf & Hb).
    assert (b = true) by (apply Hb; exact Hh). subst b.
    destruct (wf_cases _ _ Hwf) as [(C & _)|(_ & c & k & calls & Hf & Hp)]; [discriminate|].
    destruct k as [|k].
    + cbn [repeat app] in Hp. eexists h, SRel, _. eapply st_rel. exact Hp.
    + cbn [repeat app] in Hp. eexists h, (SAcc c), _. eapply st_acc. exact Hp.
  - destruct (Hinv t Ht) as (b & Hwf & Hb). destruct b; [assert (None = Some t) by (rewrite <- Hh; apply Hb; reflexivity); discriminate|].
    destruct (wf_cases _ _ Hwf) as [(_ & calls & Hf & Hp)|(C & _)]; [|discriminate].
    destruct (nth_thread s t) as [|a rest] eqn:En; [contradiction|].
    destruct (boundary_next calls a rest Hf (eq_sym Hp)) as (-> & _).
    eexists t, SAcq, _. eapply st_acq; eassumption.
Qed.
