(* C14 for nested Marshal: the populated set Composite.Marshal leaves at every depth. About Model/Marshal.v; reuses the
   loop lemma of Proofs/MarshalNested.v by instantiating its "read back" parameter with the identity on states. *)
From Iso Require Import Model.Base Model.Spec Model.Field Model.Message Model.Marshal Proofs.BaseLemmas Proofs.CompositeLoops Proofs.CompositeProofs
  Proofs.MarshalProofs Proofs.MarshalStruct Proofs.MarshalNested.

(* what Marshal of the value v (type t) leaves in a new object of specification s, to depth n: in a composite exactly
   the tags of the struct's non-zero tagged fields are populated, each populated subfield is itself such an object for
   the field's value, and every other subfield is as in a new composite *)
Fixpoint pop_ok (n : nat) (s : fspec) (t : gty) (v : gval) (st : fstate) : Prop :=
  match n with
  | O => True
  | S n' =>
      match s, st with
      | FPrim _, _ => True
      | FComp _ _ _ subs, SComp set sts =>
          exists fields vals, t = TPtr (TStruct fields) /\ v = VPtr (Some (VStruct vals)) /\
            (forall tag, bmem tag set = existsb (fun r => tlive r && bytes_eqb (rtag r) tag) (zip_decls fields vals)) /\
            (forall r, In r (zip_decls fields vals) -> tlive r = true ->
               exists s' st', blookup (rtag r) subs = Some s' /\ blookup (rtag r) sts = Some st' /\ pop_ok n' s' (rty r) (rval r) st') /\
            (forall tag, existsb (fun r => tlive r && bytes_eqb (rtag r) tag) (zip_decls fields vals) = false -> blookup tag sts = blookup tag (gof subs))
      | FComp _ _ _ _, _ => False
      end
  end.

Theorem nested_marshal_set : forall n s t v, vok n s t v ->
  exists st, marshal_into n s (fresh s) t v = Ok st /\ pop_ok n s t v st.
Proof.
  induction n as [|n IH]; intros s t v Hv; [destruct Hv|]. destruct s as [p|pref len mode subs].
  - cbn [vok] in Hv. destruct Hv as (st & Hc). destruct (cell_roundtrip _ _ _ _ Hc) as (_ & _ & Hm & _). exists st. split; [exact Hm|exact I].
  - cbn [vok] in Hv. destruct Hv as (Hnds & fields & vals & -> & -> & Hlen & Hnd & Hrows). cbn [fresh]. fold (gof subs).
    rewrite marshal_into_comp. set (l := zip_decls fields vals) in *.
    set (ump := fun (_ : fspec) (st : fstate) (_ : gty) (_ : gval) => Ok (VLib (Some st)) : outcome gval).
    set (ex := fun r : row => match blookup (rtag r) subs with
                              | Some s' => match marshal_into n s' (fresh s') (rty r) (rval r) with Ok st => VLib (Some st) | _ => VLib None end
                              | None => VLib None end).
    assert (Hok : Forall (trow_ok (marshal_into n) ump subs ex) l).
    { rewrite Forall_forall in *. intros r Hr. destruct (Hrows r Hr) as [Hnt|(Htg & s' & Hs' & Hcase)]; [left; exact Hnt|right]. split; [exact Htg|].
      exists s'. split; [exact Hs'|]. destruct Hcase as [Hz|(Hnz & Hvok)]; [left; exact Hz|right]. split; [exact Hnz|].
      destruct (IH s' (rty r) (rval r) Hvok) as (st & Hm & _). exists st. split; [exact Hm|]. unfold ump, ex. rewrite Hs', Hm. reflexivity. }
    destruct (mloop_rows (marshal_into n) ump subs ex l [] (gof subs) Hok Hnd) as (set' & sts' & Hm & Hb & Hc & Ho).
    { intros r s' _ _ Hs'. rewrite blookup_gof, Hs'. reflexivity. }
    exists (SComp set' sts'). split; [exact Hm|]. cbn [pop_ok]. exists fields, vals. split; [reflexivity|]. split; [reflexivity|]. fold l. split; [|split].
    + intros tag. rewrite Hb. reflexivity.
    + intros r Hr Hlv. destruct (Hc r Hr Hlv) as (s' & st & Hs' & Hst & Hu). exists s', st. split; [exact Hs'|]. split; [exact Hst|].
      rewrite Forall_forall in Hrows. destruct (Hrows r Hr) as [Hnt|(Htg & s2 & Hs2 & Hcase)].
      * unfold tlive in Hlv. rewrite Hnt in Hlv. discriminate.
      * rewrite Hs' in Hs2. inversion Hs2; subst s2. destruct Hcase as [(Hz & _)|(Hnz & Hvok)].
        -- unfold tlive in Hlv. rewrite Hz in Hlv. rewrite Bool.andb_false_r in Hlv. discriminate.
        -- destruct (IH s' (rty r) (rval r) Hvok) as (st0 & Hm0 & Hp0). unfold ump, ex in Hu. rewrite Hs', Hm0 in Hu. inversion Hu; subst st0. exact Hp0.
    + intros tag Ht. apply Ho. exact Ht.
Qed.

(* messages: Message.Marshal of a struct whose indexed fields name data elements - primitive or composite, holding a zero
   value without keepzero or a value of the kind above - adds exactly the ids of the non-zero indexed fields to the
   populated set and leaves every other element as it was *)
Theorem message_marshal_set_nested S (l : list row) m : Forall (grow_ok S m) l -> NoDup (map rid (filter indexed l)) ->
  exists m', m_marshal_fields S m l = (m', Ok tt) /\
    (forall id, zmem id (m_present m') = zmem id (m_present m) || existsb (fun r => live r && (rid r =? id)) l) /\
    (forall id, existsb (fun r => live r && (rid r =? id)) l = false -> get_state m' id = get_state m id).
Proof.
  intros Hok Hnd. destruct (gmarshal_rows S l m Hok Hnd) as (m' & Hm & Hp & Hu & _). exists m'. split; [exact Hm|]. split; [exact Hp|exact Hu].
Qed.
