(* C18 (Describe): a masked value never contains the full secret. *)
From Iso Require Import Model.Base Model.Describe Proofs.BaseLemmas.
From Coq Require Import ZifyBool ZifyNat.

Lemma prefix_of_length a b : prefix_of a b = true -> (length a <= length b)%nat.
Proof. revert b. induction a as [|x a IH]; intros [|y b] H; cbn in *; try lia; try discriminate. apply andb_prop in H. destruct H as [_ H]. specialize (IH _ H). lia. Qed.

Lemma prefix_of_nth a b i : prefix_of a b = true -> (i < length a)%nat -> nth i b x00 = nth i a x00.
Proof.
  revert b i. induction a as [|x a IH]; intros [|y b] i H Hi; cbn in *; try lia; try discriminate.
  apply andb_prop in H. destruct H as [E H]. apply byte_eqb_eq in E. subst. destruct i; [reflexivity|]. apply IH; [exact H|lia].
Qed.

(* an occurrence at some offset *)
Lemma occurs_offset needle hay : occurs needle hay = true ->
  exists k, (k + length needle <= length hay)%nat /\ forall i, (i < length needle)%nat -> nth (k + i) hay x00 = nth i needle x00.
Proof.
  induction hay as [|h r IH]; cbn [occurs]; intros H.
  - destruct needle as [|n0 nr]; [|cbn in H; discriminate]. exists 0%nat. split; [cbn; lia|]. intros i Hi. cbn in Hi. lia.
  - apply orb_prop in H. destruct H as [H|H].
    + exists 0%nat. split; [apply prefix_of_length in H; lia|]. intros i Hi. cbn [plus]. apply prefix_of_nth; assumption.
    + destruct (IH H) as (k & Hk & Hn). exists (S k). split; [cbn [length]; lia|]. intros i Hi. cbn. apply Hn. exact Hi.
Qed.

(* masking hides the secret: when it has at least 2k characters and none of them is '*', the complete value is not
   a substring of what is printed, which is exactly its first k and last k characters around "****" *)
Theorem mask_hides k v : (0 < k)%nat -> (k + k <= length v)%nat -> (k <= 4)%nat -> ~ In x2a v ->
  mask k v = firstn k v ++ stars ++ skipn (length v - k) v /\ occurs v (mask k v) = false.
Proof.
  intros Hk Hl Hk4 Hstar. unfold mask. replace (length v <? k + k)%nat with false by lia. split; [reflexivity|].
  destruct (occurs v (firstn k v ++ stars ++ skipn (length v - k) v)) eqn:E; [exfalso|reflexivity].
  destruct (occurs_offset _ _ E) as (o & Ho & Hn).
  rewrite !app_length, firstn_length, skipn_length in Ho. cbn [length stars] in Ho.
  (* the stars occupy positions k .. k+3 of the output; every window of length |v| >= 2k covers one of them *)
  set (p := Nat.max o k).
  assert (Hp : (k <= p < k + 4)%nat /\ (o <= p < o + length v)%nat) by (unfold p; lia).
  destruct Hp as (Hp1 & Hp2).
  specialize (Hn (p - o)%nat ltac:(lia)). replace (o + (p - o))%nat with p in Hn by lia.
  rewrite app_nth2 in Hn by (rewrite firstn_length; lia). rewrite firstn_length in Hn.
  replace (p - Nat.min k (length v))%nat with (p - k)%nat in Hn by lia.
  assert (Hs : nth (p - k) (stars ++ skipn (length v - k) v) x00 = x2a).
  { assert (p - k = 0 \/ p - k = 1 \/ p - k = 2 \/ p - k = 3)%nat as C by lia.
    destruct C as [C|[C|[C|C]]]; rewrite C; reflexivity. }
  rewrite Hs in Hn. apply Hstar. rewrite Hn. apply nth_In. lia.
Qed.
