(* C05 (bitmap unit level): about Model/Bitmap.v *)
From Iso Require Import Model.Base Model.Encoding Model.Prefix Model.Bitmap Proofs.BaseLemmas Proofs.EncodingProofs.
From Coq Require Import ZifyBool ZifyNat ZifyN.
Ltac Zify.zify_post_hook ::= Z.div_mod_to_equations.

(* ---------------- byte level: finite sweep ---------------- *)
Definition ks : list Z := [0; 1; 2; 3; 4; 5; 6; 7].
Lemma ks_complete k : 0 <= k < 8 -> In k ks.
Proof. intros H. unfold ks. cbn. lia. Qed.

Lemma get_set_bit b k j : 0 <= k < 8 -> 0 <= j < 8 -> get_bit (set_bit b k) j = (j =? k) || get_bit b j.
Proof.
  intros Hk Hj.
  assert (S : forallb (fun b => forallb (fun k => forallb (fun j => Bool.eqb (get_bit (set_bit b k) j) ((j =? k) || get_bit b j)) ks) ks) all_bytes = true)
    by (vm_compute; reflexivity).
  rewrite forallb_forall in S. specialize (S b (all_bytes_complete b)).
  rewrite forallb_forall in S. specialize (S k (ks_complete k Hk)).
  rewrite forallb_forall in S. specialize (S j (ks_complete j Hj)).
  apply Bool.eqb_prop in S. exact S.
Qed.

Lemma get_bit_x00 j : get_bit x00 j = false.
Proof. unfold get_bit. change (bz x00) with 0. apply Z.testbit_0_l. Qed.
Lemma get_bit_x80 j : 0 <= j < 8 -> get_bit x80 j = (j =? 0).
Proof.
  intros H. assert (j = 0 \/ j = 1 \/ j = 2 \/ j = 3 \/ j = 4 \/ j = 5 \/ j = 6 \/ j = 7) as C by lia.
  repeat (destruct C as [C|C]; [subst j; reflexivity|]). subst j; reflexivity.
Qed.
Lemma set_bit_x00_0 : set_bit x00 0 = x80.
Proof. reflexivity. Qed.

(* ---------------- list level ---------------- *)
Lemma upd_nth_length i f l : length (upd_nth i f l) = length l.
Proof. revert i. induction l as [|b r IH]; intros [|i]; cbn; try reflexivity. f_equal. apply IH. Qed.
Lemma nth_upd_nth_same i f l : (i < length l)%nat -> nth i (upd_nth i f l) x00 = f (nth i l x00).
Proof. revert i. induction l as [|b r IH]; intros [|i] H; cbn in *; try lia; [reflexivity|]. apply IH. lia. Qed.
Lemma nth_upd_nth_other i j f l : i <> j -> nth j (upd_nth i f l) x00 = nth j l x00.
Proof. revert i j. induction l as [|b r IH]; intros [|i] [|j] H; cbn; try reflexivity; try lia. apply IH. lia. Qed.

Lemma or_at_spec data i k : 0 <= i < zlen data ->
  exists d, or_at data i k = Ok d /\ zlen d = zlen data /\
            nth (Z.to_nat i) d x00 = set_bit (nth (Z.to_nat i) data x00) k /\
            forall j, j <> Z.to_nat i -> nth j d x00 = nth j data x00.
Proof.
  intros H. unfold or_at. replace ((i <? 0) || (zlen data <=? i)) with false by lia.
  eexists. split; [reflexivity|]. split; [unfold zlen; rewrite upd_nth_length; reflexivity|].
  split; [apply nth_upd_nth_same; unfold zlen in H; lia|]. intros j Hj. apply nth_upd_nth_other. lia.
Qed.

(* the byte holding bit n and the position inside it *)
Definition byte_ix (n : Z) : nat := Z.to_nat ((n - 1) / 8).
Definition bit_ix (n : Z) : Z := (n - 1) mod 8.

Lemma isset_nth data n : 1 <= n <= zlen data * 8 -> bm_isset data n = get_bit (nth (byte_ix n) data x00) (bit_ix n).
Proof. intros H. unfold bm_isset. replace ((n <=? 0) || (zlen data * 8 <? n)) with false by lia. reflexivity. Qed.
Lemma isset_out data n : n <= 0 \/ zlen data * 8 < n -> bm_isset data n = false.
Proof. intros H. unfold bm_isset. replace ((n <=? 0) || (zlen data * 8 <? n)) with true by lia. reflexivity. Qed.

Lemma ix_inj n m : 1 <= n -> 1 <= m -> byte_ix n = byte_ix m -> bit_ix n = bit_ix m -> n = m.
Proof. unfold byte_ix, bit_ix. intros. lia. Qed.

(* setting one bit inside the current size: exactly that bit changes *)
Lemma or_at_bit data n : 1 <= n <= zlen data * 8 ->
  exists d, or_at data ((n - 1) / 8) ((n - 1) mod 8) = Ok d /\ zlen d = zlen data /\
            forall m, bm_isset d m = (m =? n) || bm_isset data m.
Proof.
  intros H. destruct (or_at_spec data ((n - 1) / 8) ((n - 1) mod 8) ltac:(lia)) as (d & Hd & Hl & Hs & Ho).
  exists d. split; [exact Hd|]. split; [exact Hl|]. intros m.
  destruct (Z_le_gt_dec m 0) as [L|L]; [rewrite !isset_out by lia; lia|].
  destruct (Z_lt_le_dec (zlen data * 8) m) as [G|G]; [rewrite !isset_out by lia; lia|].
  rewrite !isset_nth by lia.
  destruct (Nat.eq_dec (byte_ix m) (byte_ix n)) as [E|E].
  - rewrite E. unfold byte_ix at 1. rewrite Hs. fold (byte_ix n). rewrite get_set_bit by (unfold bit_ix; lia).
    rewrite <- E. f_equal. unfold bit_ix, byte_ix in *.
    destruct (m =? n) eqn:Emn; lia.
  - rewrite Ho by exact E. replace (m =? n) with false; [reflexivity|]. symmetry. apply Z.eqb_neq. intros ->. apply E. reflexivity.
Qed.

(* ---------------- well-formed states: a whole number (>= 1) of blocks ---------------- *)
Definition wf_bm (s : bmspec) (data : bytes) : Prop := 1 <= bm_len s /\ exists k, 1 <= k /\ zlen data = k * bm_len s.

Lemma wf_new s : 1 <= bm_len s -> wf_bm s (bm_new s).
Proof. intros H. split; [exact H|]. exists 1. split; [lia|]. unfold bm_new. rewrite zlen_repeat. lia. Qed.

(* Set inside the current size (any mode): exactly bit n becomes set, the size is unchanged *)
Theorem bm_set_inside s data n : 1 <= n <= zlen data * 8 ->
  exists d, bm_set s data n = Ok d /\ zlen d = zlen data /\ forall m, bm_isset d m = (m =? n) || bm_isset data m.
Proof.
  intros H. unfold bm_set. replace (n <=? 0) with false by lia. replace (zlen data * 8 <? n) with false by lia.
  apply or_at_bit. exact H.
Qed.

(* expansion disabled: an index beyond the bitmap is ignored; n <= 0 is ignored in every mode *)
Theorem bm_set_fixed_noop s data n : bm_auto s = false -> zlen data * 8 < n -> bm_set s data n = Ok data.
Proof.
  intros Ha H. unfold bm_set. pose proof (zlen_nonneg data). replace (n <=? 0) with false by lia.
  replace (zlen data * 8 <? n) with true by lia. rewrite Ha. reflexivity.
Qed.
Theorem bm_set_nonpositive s data n : n <= 0 -> bm_set s data n = Ok data.
Proof. intros H. unfold bm_set. replace (n <=? 0) with true by lia. reflexivity. Qed.

(* ---------------- expansion ---------------- *)
Lemma new_blocks_length B count : (0 < B)%nat -> length (new_blocks B count) = (B * count)%nat.
Proof.
  intros HB. induction count as [|c IH]; [cbn; lia|]. destruct c as [|c'].
  - cbn [new_blocks]. rewrite repeat_length. lia.
  - change (new_blocks B (S (S c'))) with ((x80 :: repeat x00 (B - 1)) ++ new_blocks B (S c')).
    rewrite app_length, IH. cbn [length]. rewrite repeat_length.
    lia.
Qed.

(* byte j of the appended blocks: 0x80 at the start of every block but the last, 0 elsewhere *)
Lemma new_blocks_nth B count j : (0 < B)%nat ->
  nth j (new_blocks B count) x00 = if (Nat.eqb (j mod B) 0 && (j / B + 1 <? count))%nat then x80 else x00.
Proof.
  intros HB. revert j. induction count as [|c IH]; intros j.
  - cbn [new_blocks]. assert ((j / B + 1 <? 0)%nat = false) as -> by (apply Nat.ltb_ge; apply Nat.le_0_l). rewrite andb_false_r. destruct j; reflexivity.
  - destruct c as [|c'].
    + cbn [new_blocks]. assert ((j / B + 1 <? 1)%nat = false) as -> by (apply Nat.ltb_ge; generalize (j / B)%nat; intros; lia). rewrite andb_false_r.
      apply nth_repeat.
    + change (new_blocks B (S (S c'))) with ((x80 :: repeat x00 (B - 1)) ++ new_blocks B (S c')).
      assert (Hlen : length (x80 :: repeat x00 (B - 1)) = B) by (cbn [length]; rewrite repeat_length; lia).
      destruct (Nat.lt_ge_cases j B) as [L|L].
      * rewrite app_nth1 by lia. rewrite Nat.mod_small, Nat.div_small by lia.
        replace (0 + 1 <? S (S c'))%nat with true by (symmetry; apply Nat.ltb_lt; lia).
        destruct j as [|j']; [reflexivity|]. cbn [nth Nat.eqb andb].
        apply nth_repeat.
      * rewrite app_nth2 by lia. rewrite Hlen, IH.
        assert (Hm : (j mod B = (j - B) mod B)%nat) by (replace j with ((j - B) + 1 * B)%nat at 1 by lia; apply Nat.mod_add; lia).
        assert (Hq : (j / B = (j - B) / B + 1)%nat) by (replace j with ((j - B) + 1 * B)%nat at 1 by lia; apply Nat.div_add; lia).
        rewrite Hm, Hq.
        generalize ((j - B) / B)%nat; intros q.
        replace (q + 1 + 1 <? S (S c'))%nat with (q + 1 <? S c')%nat; [reflexivity|].
        destruct (q + 1 <? S c')%nat eqn:E1; symmetry; [apply Nat.ltb_lt; apply Nat.ltb_lt in E1; lia|apply Nat.ltb_ge; apply Nat.ltb_ge in E1; lia].
Qed.

Set Default Timeout 120.
Definition byte_at (d : bytes) (i : Z) : byte := nth (Z.to_nat i) d x00.

Lemma byte_at_app a b i : 0 <= i -> byte_at (a ++ b) i = if i <? zlen a then byte_at a i else byte_at b (i - zlen a).
Proof.
  intros H. unfold byte_at, zlen. destruct (i <? Z.of_nat (length a)) eqn:E.
  - apply app_nth1. lia.
  - rewrite app_nth2 by lia. f_equal. lia.
Qed.

Lemma byte_at_new_blocks B count j : 1 <= B -> 0 <= j -> 0 <= count ->
  byte_at (new_blocks (Z.to_nat B) (Z.to_nat count)) j = if (j mod B =? 0) && (j / B + 1 <? count) then x80 else x00.
Proof.
  intros HB Hj Hc. unfold byte_at. rewrite new_blocks_nth by lia.
  assert (E1 : Nat.eqb (Z.to_nat j mod Z.to_nat B) 0 = (j mod B =? 0)).
  { rewrite <- (Z2Nat.id j) at 2 by lia. rewrite <- (Z2Nat.id B) at 2 by lia. rewrite <- Nat2Z.inj_mod.
    destruct (Nat.eqb _ 0) eqn:E; [apply Nat.eqb_eq in E|apply Nat.eqb_neq in E]; lia. }
  assert (E2 : (Z.to_nat j / Z.to_nat B + 1 <? Z.to_nat count)%nat = (j / B + 1 <? count)).
  { rewrite <- (Z2Nat.id j) at 2 by lia. rewrite <- (Z2Nat.id B) at 2 by lia. rewrite <- Nat2Z.inj_div.
    generalize (Z.to_nat j / Z.to_nat B)%nat. intros q.
    destruct (q + 1 <? Z.to_nat count)%nat eqn:E; [apply Nat.ltb_lt in E|apply Nat.ltb_ge in E]; lia. }
  rewrite E1, E2. reflexivity.
Qed.

Lemma isset_byte_at data n : 1 <= n <= zlen data * 8 -> bm_isset data n = get_bit (byte_at data ((n - 1) / 8)) ((n - 1) mod 8).
Proof. intros H. rewrite isset_nth by exact H. reflexivity. Qed.

Ltac Zify.zify_post_hook ::= idtac.
(* continuation positions marked by an expansion from k blocks to idx+1 blocks *)
Definition is_cont (B k idx m : Z) : bool :=
  ((m - 1) mod (B * 8) =? 0) && (k - 1 <=? (m - 1) / (B * 8)) && ((m - 1) / (B * 8) <? idx).

(* auto-expansion: the bitmap grows to the minimal number of blocks, bit n is set, the first bit of every
   block from the previously last one up to the one before the new last is set, nothing else changes *)
Theorem bm_set_expand s data n k : bm_auto s = true -> 1 <= bm_len s -> 1 <= k -> zlen data = k * bm_len s ->
  zlen data * 8 < n ->
  let idx := (n - 1) / (bm_len s * 8) in
  exists d, bm_set s data n = Ok d /\ zlen d = (idx + 1) * bm_len s /\
            forall m, bm_isset d m = (m =? n) || ((1 <=? m) && is_cont (bm_len s) k idx m) || bm_isset data m.
Proof.
  intros Ha HB Hk Hlen Hn idx. set (B := bm_len s) in *.
  assert (Hidx : k <= idx) by (unfold idx; apply Z.div_le_lower_bound; lia).
  assert (Hidx2 : idx * (B * 8) <= n - 1 < (idx + 1) * (B * 8)).
  { unfold idx. pose proof (Z.div_mod (n - 1) (B * 8) ltac:(lia)). pose proof (Z.mod_pos_bound (n - 1) (B * 8) ltac:(lia)). lia. }
  assert (HkB : 0 <= (k - 1) * B) by nia.
  unfold bm_set. fold B. replace (n <=? 0) with false by lia. replace (zlen data * 8 <? n) with true by lia. rewrite Ha. cbn [negb].
  cbv zeta. fold idx. replace (zlen data / B) with k by (rewrite Hlen; symmetry; apply Z.div_mul; lia).
  destruct (or_at_spec data (zlen data - B) 0 ltac:(nia)) as (d1 & Hd1 & Hl1 & Hs1 & Ho1). rewrite Hd1. cbn [obind].
  set (count := idx + 1 - k). set (nb := new_blocks (Z.to_nat B) (Z.to_nat count)).
  assert (Hnb : zlen nb = B * count).
  { unfold zlen, nb. rewrite new_blocks_length by lia. lia. }
  assert (Hl2 : zlen (d1 ++ nb) = (idx + 1) * B) by (rewrite zlen_app, Hl1, Hnb, Hlen; unfold count; lia).
  assert (Hin : 1 <= n <= zlen (d1 ++ nb) * 8) by (rewrite Hl2; nia).
  destruct (or_at_bit (d1 ++ nb) n Hin) as (d & Hd & Hld & Hbits). exists d. split; [exact Hd|]. split; [lia|].
  intros m. rewrite Hbits. destruct (m =? n) eqn:Emn; [reflexivity|]. cbn [orb].
  destruct (Z_le_gt_dec m 0) as [L|L].
  { rewrite !isset_out by lia. replace (1 <=? m) with false by lia. reflexivity. }
  replace (1 <=? m) with true by lia. cbn [andb].
  destruct (Z_lt_le_dec (zlen (d1 ++ nb) * 8) m) as [G|G].
  { rewrite !isset_out by lia. unfold is_cont. rewrite Hl2 in G.
    assert (idx + 1 <= (m - 1) / (B * 8)) by (apply Z.div_le_lower_bound; lia).
    replace ((m - 1) / (B * 8) <? idx) with false by lia. rewrite andb_false_r. reflexivity. }
  rewrite isset_byte_at by lia. rewrite byte_at_app by (apply Z.div_pos; lia). rewrite Hl1.
  set (i := (m - 1) / 8).
  assert (Hi : i * 8 <= m - 1 < i * 8 + 8).
  { unfold i. pose proof (Z.div_mod (m - 1) 8 ltac:(lia)). pose proof (Z.mod_pos_bound (m - 1) 8 ltac:(lia)). lia. }
  assert (Hi8 : (m - 1) mod 8 = m - 1 - i * 8) by (unfold i; pose proof (Z.div_mod (m - 1) 8 ltac:(lia)); lia).
  destruct (i <? zlen data) eqn:Ei.
  - (* inside the old data *)
    assert (Hm : m <= zlen data * 8) by lia. rewrite (isset_byte_at data m) by lia. fold i.
    assert (Hq : (m - 1) / (B * 8) < k) by (apply Z.div_lt_upper_bound; [lia|]; rewrite Hlen in Hm; lia).
    destruct (Z.eq_dec i (zlen data - B)) as [Eb|Eb].
    + unfold byte_at. rewrite Eb, Hs1. rewrite get_set_bit by lia.
      unfold is_cont. f_equal.
      assert (E8 : (m - 1) mod 8 = 0 <-> (m - 1) = (zlen data - B) * 8) by lia.
      destruct ((m - 1) mod 8 =? 0) eqn:E0.
      * assert (m - 1 = (k - 1) * (B * 8)) by lia.
        replace ((m - 1) mod (B * 8)) with 0 by (symmetry; apply Z.mod_divide; [lia|]; exists (k - 1); lia).
        replace ((m - 1) / (B * 8)) with (k - 1) by (apply Z.div_unique with 0; lia). lia.
      * destruct ((m - 1) mod (B * 8) =? 0) eqn:E1; [|reflexivity]. exfalso.
        assert ((m - 1) mod (B * 8) = 0) as Hdiv by (apply Z.eqb_eq; exact E1). apply Z.mod_divide in Hdiv; [|lia]. destruct Hdiv as (q & Hq').
        assert ((m - 1) mod 8 = 0) by (rewrite Hq'; apply Z.mod_divide; [lia|]; exists (q * B); lia). lia.
    + unfold byte_at. rewrite Ho1 by lia. unfold is_cont.
      (* not the first byte of the last old block: m is not a marked position *)
      destruct ((m - 1) mod (B * 8) =? 0) eqn:E1; [|reflexivity]. cbn [andb].
      destruct (k - 1 <=? (m - 1) / (B * 8)) eqn:E2; [|reflexivity]. exfalso.
      assert ((m - 1) / (B * 8) = k - 1) as Hqq by lia.
      assert ((m - 1) mod (B * 8) = 0) as Hdiv by (apply Z.eqb_eq; exact E1).
      pose proof (Z.div_mod (m - 1) (B * 8) ltac:(lia)) as Hdm. rewrite Hqq, Hdiv in Hdm.
      apply Eb. unfold i. rewrite Hdm. replace ((B * 8 * (k - 1) + 0)) with ((zlen data - B) * 8) by lia. apply Z.div_mul. lia.
  - (* inside the appended blocks *)
    rewrite (isset_out data m) by lia. rewrite orb_false_r.
    unfold nb. rewrite byte_at_new_blocks by (unfold count; lia).
    set (j := i - zlen data). unfold is_cont.
    assert (Hq : (m - 1) / (B * 8) = k + j / B).
    { symmetry. apply Z.div_unique with ((j mod B) * 8 + (m - 1 - i * 8)).
      - left. pose proof (Z.mod_pos_bound j B ltac:(lia)). lia.
      - pose proof (Z.div_mod j B ltac:(lia)). unfold j in *. lia. }
    rewrite Hq.
    destruct ((j mod B =? 0) && (j / B + 1 <? count)) eqn:E.
    + apply andb_prop in E. destruct E as [Ej Ec]. rewrite get_bit_x80 by lia.
      assert (j / B >= 0) by (assert (0 <= j / B) by (apply Z.div_pos; unfold j; lia); lia).
      replace (k - 1 <=? k + j / B) with true by lia. replace (k + j / B <? idx) with true by (unfold count in Ec; lia).
      rewrite !andb_true_r.
      destruct ((m - 1) mod 8 =? 0) eqn:E0.
      * symmetry. apply Z.eqb_eq. apply Z.mod_divide; [lia|]. exists (k + j / B).
        pose proof (Z.div_mod j B ltac:(lia)). unfold j in *. lia.
      * symmetry. apply Z.eqb_neq. intros Hdiv. apply Z.mod_divide in Hdiv; [|lia]. destruct Hdiv as (q & Hq').
        assert ((m - 1) mod 8 = 0) by (rewrite Hq'; apply Z.mod_divide; [lia|]; exists (q * B); lia). lia.
    + rewrite get_bit_x00. symmetry.
      destruct ((m - 1) mod (B * 8) =? 0) eqn:E1; [|reflexivity]. cbn [andb].
      destruct (k + j / B <? idx) eqn:E3; [|rewrite andb_false_r; reflexivity]. exfalso.
      assert ((m - 1) mod (B * 8) = 0) as Hdiv by (apply Z.eqb_eq; exact E1).
      pose proof (Z.div_mod (m - 1) (B * 8) ltac:(lia)) as Hdm. rewrite Hq, Hdiv in Hdm.
      assert (j mod B = 0).
      { pose proof (Z.div_mod j B ltac:(lia)). pose proof (Z.mod_pos_bound j B ltac:(lia)). unfold j in *. lia. }
      apply andb_false_iff in E. unfold count in E. destruct E; lia.
Qed.

(* ---------------- Unpack consumes exactly the chain of blocks announced by continuation bits ---------------- *)
Definition first_bit_on (b : bytes) : bool := match b with c :: _ => 128 <=? bz c | [] => false end.

(* with expansion: every block but the last announces another one; without: exactly one block *)
Fixpoint chain_ok (auto : bool) (blocks : list bytes) : bool :=
  match blocks with
  | [] => false
  | [b] => if auto then negb (first_bit_on b) else true
  | b :: r => auto && first_bit_on b && chain_ok auto r
  end.

Lemma bm_unpack_loop_chain s : 1 <= bm_len s -> (bm_enc s = EncBinary \/ bm_enc s = EncHex) ->
  forall blocks ws, Forall2 (fun b w => enc_encode (bm_enc s) b = Ok w) blocks ws ->
  Forall (fun b => zlen b = bm_len s) blocks -> chain_ok (bm_auto s) blocks = true ->
  forall fuel rest read acc, (length blocks <= fuel)%nat ->
  bm_unpack_loop fuel s (bm_len s) (concat ws ++ rest) read acc = (acc ++ concat blocks, Ok (read + zlen (concat ws))).
Proof.
  intros HB He blocks ws HF. induction HF as [|b w blocks' ws' Hbw HF IH]; intros Hlen Hchain fuel rest read acc Hfuel.
  - discriminate.
  - inversion Hlen as [|? ? Hb Hlen']; subst.
    assert (Hdom : enc_dom (bm_enc s) b = true) by (destruct He as [-> | ->]; reflexivity).
    destruct (enc_roundtrip (bm_enc s) b Hdom) as (w' & Hw' & Hrt). rewrite Hbw in Hw'. assert (w' = w) by congruence. subst w'.
    assert (Hu : enc_units (bm_enc s) b w = bm_len s) by (destruct He as [-> | ->]; cbn [enc_units]; exact Hb).
    assert (Hc : enc_canon (bm_enc s) b w = b) by (destruct He as [-> | ->]; reflexivity).
    rewrite Hu, Hc in Hrt.
    destruct fuel as [|f]; [cbn in Hfuel; lia|]. cbn [bm_unpack_loop concat]. rewrite <- app_assoc, Hrt.
    destruct blocks' as [|b2 bl].
    + inversion HF; subst. cbn [concat]. rewrite !app_nil_r. cbn [chain_ok] in Hchain.
      destruct (bm_auto s); cbn [negb].
      * destruct b as [|c t]; [rewrite zlen_nil in Hb; lia|]. cbn [first_bit_on] in Hchain.
        replace (bz c <? 128) with true by lia. reflexivity.
      * reflexivity.
    + change (chain_ok (bm_auto s) (b :: b2 :: bl)) with (bm_auto s && first_bit_on b && chain_ok (bm_auto s) (b2 :: bl)) in Hchain.
      apply andb_prop in Hchain. destruct Hchain as [Hc1 Hc3]. apply andb_prop in Hc1. destruct Hc1 as [Hauto Hfb].
      rewrite Hauto. cbn [negb]. destruct b as [|c t]; [discriminate|]. cbn [first_bit_on] in Hfb.
      replace (bz c <? 128) with false by lia. rewrite zdrop_app.
      rewrite (IH Hlen' Hc3 f rest (read + zlen w) (acc ++ c :: t)) by (cbn [length] in *; lia).
      rewrite <- app_assoc, zlen_app, Z.add_assoc. reflexivity.
Qed.

Theorem bm_unpack_chain s f blocks ws rest data0 : 1 <= bm_len s -> (bm_enc s = EncBinary \/ bm_enc s = EncHex) ->
  bm_pref s = PFixed f ->
  Forall2 (fun b w => enc_encode (bm_enc s) b = Ok w) blocks ws ->
  Forall (fun b => zlen b = bm_len s) blocks -> chain_ok (bm_auto s) blocks = true ->
  bm_unpack s data0 (concat ws ++ rest) = (concat blocks, Ok (zlen (concat ws))).
Proof.
  intros HB He Hp HF Hlen Hchain. unfold bm_unpack. rewrite Hp. cbn [dec_len].
  rewrite (bm_unpack_loop_chain s HB He blocks ws HF Hlen Hchain _ rest 0 []); [reflexivity|].
  (* fuel: every encoded block is non-empty, so there are at most length-of-input blocks *)
  assert (G : forall bl wl, Forall2 (fun b w => enc_encode (bm_enc s) b = Ok w) bl wl -> Forall (fun b => zlen b = bm_len s) bl ->
              (length bl <= length (concat wl))%nat).
  { clear -HB He. intros bl wl H. induction H as [|b w bl wl Hbw H IH]; intros Hl; [cbn; lia|].
    inversion Hl as [|? ? Hb Hl']; subst. cbn [concat length]. rewrite app_length. specialize (IH Hl').
    assert (1 <= length w)%nat; [|lia].
    destruct He as [E|E]; rewrite E in Hbw; cbn [enc_encode] in Hbw.
    - assert (w = b) by congruence. subst w. unfold zlen in Hb. lia.
    - assert (w = hex_encode_upper b) by congruence. subst w. pose proof (zlen_hex_encode b). unfold zlen in *. lia. }
  specialize (G blocks ws HF Hlen). rewrite app_length. lia.
Qed.

(* the loop always terminates within its fuel and never reads outside the input: any outcome but OutOfFuel *)
Lemma bm_unpack_loop_progress s minLen : 1 <= minLen -> bm_enc s <> EncBerTag ->
  forall fuel rest read acc, (length rest < fuel)%nat ->
  snd (bm_unpack_loop fuel s minLen rest read acc) <> OutOfFuel.
Proof.
  intros Hm He. induction fuel as [|f IH]; intros rest read acc Hf; [lia|].
  cbn [bm_unpack_loop]. destruct (enc_decode (bm_enc s) rest minLen) as [[decoded r]| | |] eqn:Ed; cbn [snd]; try discriminate.
  - destruct (bm_auto s); cbn [negb snd]; [|discriminate].
    destruct decoded as [|b0 t]; cbn [snd]; [discriminate|]. destruct (bz b0 <? 128); cbn [snd]; [discriminate|].
    apply IH.
    (* the decoder consumed at least one byte *)
    assert (1 <= r <= zlen rest).
    { pose proof (enc_decode_read_bounds _ _ _ _ _ Ed). split; [|lia].
      destruct (bm_enc s); try contradiction; unfold enc_decode in Ed; crack Ed;
        match type of Ed with Ok (_, ?a) = Ok (_, _) => assert (a = r) by congruence end; lia. }
    unfold zdrop. rewrite skipn_length. unfold zlen in *. lia.
  - exfalso. destruct (bm_enc s); try contradiction; unfold enc_decode in Ed; crack Ed.
Qed.
