(* C12: UnmarshalJSON decodes the members of the message object in Go's map order; the model walks a list. For an
   accepted document with distinct element numbers the order does not matter: every arrangement is accepted and gives
   the same MTI, bitmap field, element states and populated set. About Model/MessageOps.v. *)
From Iso Require Import Model.Base Model.Spec Model.Field Model.Message Model.MessageOps
     Proofs.BaseLemmas Proofs.StateProofs Proofs.MessageRoundtrip.
From Coq Require Import ZifyBool ZifyNat Sorting.Permutation.
Set Default Timeout 120.

(* the same message up to the order in which the populated set was filled *)
Definition meq (a b : mstate) : Prop :=
  m_mti a = m_mti b /\ m_bm a = m_bm b /\ m_fields a = m_fields b /\ m_failed a = m_failed b /\ m_bmcached a = m_bmcached b /\
  forall id, zmem id (m_present a) = zmem id (m_present b).

(* what one member decodes to: the element number and the new content of that element *)
Inductive payload : Type := PMti (st : fstate) | PBm (b : bytes) | PFld (st : fstate).

Definition decode1 (S : mspec) (m : mstate) (kv : bytes * jdoc) : option (Z * payload) :=
  match atoi (fst kv) with
  | None => None
  | Some id =>
      if id =? 0 then match json_into (FPrim (ms_mti S)) (m_mti m) (snd kv) with (st, Ok _) => Some (id, PMti st) | _ => None end
      else if id =? 1 then match snd kv with JS v => match hex_decode v with Some b => Some (id, PBm b) | None => None end | _ => None end
      else match zlookup id (ms_fields S), zlookup id (m_fields m) with
           | Some s, Some st => match json_into s st (snd kv) with (st', Ok _) => Some (id, PFld st') | _ => None end
           | _, _ => None
           end
  end.

Definition apply1 (m : mstate) (ip : Z * payload) : mstate :=
  match snd ip with
  | PMti st => with_present (with_mti m st) (zadd (fst ip) (m_present m))
  | PBm b => with_present (with_bm m b) (zadd (fst ip) (m_present m))
  | PFld st => with_present (with_fields m (zupdate (fst ip) st (m_fields m))) (zadd (fst ip) (m_present m))
  end.

(* the kind of payload follows the element number *)
Definition wf_ip (ip : Z * payload) : Prop :=
  match snd ip with PMti _ => fst ip = 0 | PBm _ => fst ip = 1 | PFld _ => fst ip <> 0 /\ fst ip <> 1 end.

Lemma decode1_wf S m kv ip : decode1 S m kv = Some ip -> wf_ip ip /\ atoi (fst kv) = Some (fst ip).
Proof.
  unfold decode1. destruct (atoi (fst kv)) as [id|]; [|discriminate]. destruct (id =? 0) eqn:E0.
  - destruct (json_into _ _ _) as [st [u|e|q|]]; try discriminate. intros H. inversion H; subst. split; [cbn; lia|cbn; reflexivity].
  - destruct (id =? 1) eqn:E1.
    + destruct (snd kv); try discriminate. destruct (hex_decode s); [|discriminate]. intros H. inversion H; subst. split; [cbn; lia|reflexivity].
    + destruct (zlookup id (ms_fields S)); [|discriminate]. destruct (zlookup id (m_fields m)); [|discriminate].
      destruct (json_into _ _ _) as [st' [u|e|q|]]; try discriminate. intros H. inversion H; subst. split; [cbn; lia|reflexivity].
Qed.

Lemma from_json_cons S m kv r m' : m_from_json S m (kv :: r) = (m', Ok tt) <->
  exists ip, decode1 S m kv = Some ip /\ m_from_json S (apply1 m ip) r = (m', Ok tt).
Proof.
  destruct kv as (k, d). cbn [m_from_json]. unfold decode1. cbn [fst snd]. destruct (atoi k) as [id|]; [|split; [discriminate|intros (ip & H & _); discriminate]].
  destruct (id =? 0) eqn:E0.
  - assert (id = 0) by lia. subst id.
    destruct (json_into (FPrim (ms_mti S)) (m_mti m) d) as [st [u|e|q|]]; try (split; [discriminate|intros (ip & H & _); discriminate]).
    split; [intros H; exists (0, PMti st); split; [reflexivity|exact H]|intros (ip & H1 & H2); inversion H1; subst; exact H2].
  - destruct (id =? 1) eqn:E1.
    + assert (id = 1) by lia. subst id.
      destruct d as [v| | | |]; try (split; [discriminate|intros (ip & H & _); discriminate]).
      destruct (hex_decode v) as [b|]; [|split; [discriminate|intros (ip & H & _); discriminate]].
      split; [intros H; exists (1, PBm b); split; [reflexivity|exact H]|intros (ip & H1 & H2); inversion H1; subst; exact H2].
    + destruct (zlookup id (ms_fields S)) as [s|]; [|split; [discriminate|intros (ip & H & _); discriminate]].
      destruct (zlookup id (m_fields m)) as [st|]; [|split; [discriminate|intros (ip & H & _); discriminate]].
      destruct (json_into s st d) as [st' [u|e|q|]]; try (split; [discriminate|intros (ip & H & _); discriminate]).
      split; [intros H; exists (id, PFld st'); split; [reflexivity|exact H]|intros (ip & H1 & H2); inversion H1; subst; exact H2].
Qed.

(* a member reads only the element it names: decoding it before or after another element makes no difference *)
Lemma decode1_frame S m ip kv : wf_ip ip -> atoi (fst kv) <> Some (fst ip) -> decode1 S (apply1 m ip) kv = decode1 S m kv.
Proof.
  intros Hw Hne. unfold decode1. destruct (atoi (fst kv)) as [id|]; [|reflexivity]. assert (Hid : id <> fst ip) by congruence.
  destruct ip as (i, pl). cbn [fst snd] in *. unfold wf_ip in Hw. cbn [fst snd] in Hw. unfold apply1. cbn [fst snd].
  destruct (id =? 0) eqn:E0; [|destruct (id =? 1) eqn:E1].
  - destruct pl; cbn [with_present with_mti with_bm with_fields m_mti]; try reflexivity. lia.
  - reflexivity.
  - destruct pl; cbn [with_present with_mti with_bm with_fields m_fields]; try reflexivity. rewrite zlookup_zupdate_other by lia. reflexivity.
Qed.

Definition kid (kv : bytes * jdoc) : option Z := atoi (fst kv).

(* an accepted document with distinct element numbers: every member decodes against the message as it was, and the
   result is the message with all those elements written *)
Lemma from_json_char S : forall l m m', NoDup (map kid l) ->
  (m_from_json S m l = (m', Ok tt) <-> exists ips, Forall2 (fun kv ip => decode1 S m kv = Some ip) l ips /\ m' = fold_left apply1 ips m).
Proof.
  induction l as [|kv r IH]; intros m m' Hnd.
  - cbn [m_from_json]. split; [intros H; inversion H; subst; exists []; split; [constructor|reflexivity]|intros (ips & HF & ->); inversion HF; subst; reflexivity].
  - cbn [map] in Hnd. apply NoDup_cons_iff in Hnd. destruct Hnd as (Hnot & Hndr). rewrite from_json_cons. split.
    + intros (ip & Hd & Hr). destruct (decode1_wf S m kv ip Hd) as (Hw & Hk). apply (IH _ _ Hndr) in Hr. destruct Hr as (ips & HF & ->).
      exists (ip :: ips). split; [|reflexivity]. constructor; [exact Hd|].
      clear - HF Hw Hk Hnot. induction HF as [|kv' ip' r' ips' H1 HF IHF]; constructor.
      * rewrite <- H1. symmetry. apply decode1_frame; [exact Hw|]. intros E. apply Hnot. left. unfold kid. congruence.
      * apply IHF. intros Hin. apply Hnot. right. exact Hin.
    + intros (ips & HF & ->). inversion HF as [|kv0 ip r0 ips' Hd HF']; subst. destruct (decode1_wf S m kv ip Hd) as (Hw & Hk).
      exists ip. split; [exact Hd|]. apply (IH _ _ Hndr). exists ips'. split; [|reflexivity].
      clear - HF' Hw Hk Hnot. induction HF' as [|kv' ip' r' ips'' H1 HF IHF]; constructor.
      * rewrite <- H1. apply decode1_frame; [exact Hw|]. intros E. apply Hnot. left. unfold kid. congruence.
      * apply IHF. intros Hin. apply Hnot. right. exact Hin.
Qed.

Lemma meq_refl a : meq a a.
Proof. repeat split. Qed.
Lemma meq_trans a b c : meq a b -> meq b c -> meq a c.
Proof. intros (A1 & A2 & A3 & A4 & A5 & A6) (B1 & B2 & B3 & B4 & B5 & B6). repeat split; try congruence. Qed.

Lemma apply1_congr a b ip : meq a b -> meq (apply1 a ip) (apply1 b ip).
Proof.
  intros (E1 & E2 & E3 & E4 & E5 & E6). unfold apply1. destruct (snd ip); unfold meq; cbn [with_present with_mti with_bm with_fields m_mti m_bm m_fields m_failed m_bmcached m_present];
    repeat split; try assumption; try (rewrite E3; reflexivity); intros id; rewrite !zmem_zadd, E6; reflexivity.
Qed.

Lemma zupdate_comm {A} i j (x y : A) l : i <> j -> zupdate i x (zupdate j y l) = zupdate j y (zupdate i x l).
Proof.
  intros Hn. induction l as [|(k, v) r IH]; [reflexivity|]. cbn [zupdate].
  destruct (j =? k) eqn:Ej, (i =? k) eqn:Ei; cbn [zupdate]; rewrite ?Ej, ?Ei; try reflexivity; try lia. rewrite IH. reflexivity.
Qed.

Lemma apply1_swap m a b : wf_ip a -> wf_ip b -> fst a <> fst b -> meq (apply1 (apply1 m a) b) (apply1 (apply1 m b) a).
Proof.
  intros Ha Hb Hne. destruct a as (i, pa), b as (j, pb). unfold wf_ip in *. cbn [fst snd] in *. unfold apply1. cbn [fst snd].
  assert (Hz : forall k, zmem k (zadd j (zadd i (m_present m))) = zmem k (zadd i (zadd j (m_present m)))) by (intros k; rewrite !zmem_zadd; destruct (k =? i), (k =? j); reflexivity).
  destruct pa, pb; unfold meq; cbn [with_present with_mti with_bm with_fields m_mti m_bm m_fields m_failed m_bmcached m_present]; repeat split; try apply Hz; try lia.
  apply zupdate_comm. lia.
Qed.

Lemma fold_congr : forall ips a b, meq a b -> meq (fold_left apply1 ips a) (fold_left apply1 ips b).
Proof. induction ips as [|ip r IH]; intros a b H; [exact H|]. cbn [fold_left]. apply IH. apply apply1_congr. exact H. Qed.

Lemma fold_perm ips ips' : Permutation ips ips' -> NoDup (map fst ips) -> Forall wf_ip ips ->
  forall m, meq (fold_left apply1 ips m) (fold_left apply1 ips' m).
Proof.
  intros Hp. induction Hp as [|x l l' Hp IH|x y l|l l' l'' Hp1 IH1 Hp2 IH2]; intros Hnd Hw m.
  - apply meq_refl.
  - cbn [fold_left]. cbn [map] in Hnd. apply NoDup_cons_iff in Hnd. inversion Hw; subst. apply IH; tauto.
  - cbn [fold_left]. cbn [map] in Hnd. apply NoDup_cons_iff in Hnd. destruct Hnd as (Hx & Hnd). inversion Hw as [|? ? Wy Hw']; subst. inversion Hw' as [|? ? Wx Hw'']; subst.
    apply fold_congr. apply apply1_swap; [exact Wy|exact Wx|]. intros E. apply Hx. left. symmetry. exact E.
  - eapply meq_trans; [apply IH1; assumption|]. apply IH2.
    + eapply Permutation_NoDup; [apply Permutation_map; exact Hp1|exact Hnd].
    + eapply Permutation_Forall; eassumption.
Qed.

Lemma Forall2_perm {A B} (R : A -> B -> Prop) l l' : Permutation l l' -> forall ys, Forall2 R l ys -> exists ys', Permutation ys ys' /\ Forall2 R l' ys'.
Proof.
  intros Hp. induction Hp as [|x l l' Hp IH|x y l|l l' l'' Hp1 IH1 Hp2 IH2]; intros ys HF.
  - inversion HF; subst. exists []. split; constructor.
  - inversion HF as [|? b ? ys0 Hx HF']; subst. destruct (IH ys0 HF') as (ys' & P & F). exists (b :: ys'). split; [constructor; exact P|constructor; assumption].
  - inversion HF as [|? b1 ? ys0 Hy HF']; subst. inversion HF' as [|? b2 ? ys1 Hx HF'']; subst. exists (b2 :: b1 :: ys1). split; [apply perm_swap|repeat constructor; assumption].
  - destruct (IH1 ys HF) as (ys' & P1 & F1). destruct (IH2 ys' F1) as (ys'' & P2 & F2). exists ys''. split; [eapply Permutation_trans; eassumption|exact F2].
Qed.

(* the order of the members of an accepted document does not matter *)
Theorem from_json_order_irrelevant S m l l' m1 : Permutation l l' -> NoDup (map kid l) ->
  m_from_json S m l = (m1, Ok tt) -> exists m2, m_from_json S m l' = (m2, Ok tt) /\ meq m1 m2.
Proof.
  intros Hp Hnd H. apply (from_json_char S l m m1 Hnd) in H. destruct H as (ips & HF & ->).
  destruct (Forall2_perm _ l l' Hp ips HF) as (ips' & Pi & HF').
  exists (fold_left apply1 ips' m). split.
  - apply from_json_char; [eapply Permutation_NoDup; [apply Permutation_map; exact Hp|exact Hnd]|]. exists ips'. split; [exact HF'|reflexivity].
  - apply fold_perm; [exact Pi| |].
    + (* the ids of the payloads are the ids of the keys *)
      assert (Hids : map (fun ip => Some (fst ip)) ips = map kid l).
      { clear - HF. induction HF as [|kv ip r ips' H1 HF IH]; [reflexivity|]. cbn [map]. rewrite IH. f_equal. destruct (decode1_wf S m kv ip H1) as (_ & Hk). unfold kid. congruence. }
      rewrite <- Hids in Hnd. clear - Hnd. induction ips as [|ip r IH]; [constructor|]. cbn [map] in *. apply NoDup_cons_iff in Hnd. destruct Hnd as (Hx & Hr). constructor; [|apply IH; exact Hr].
      intros Hin. apply Hx. apply in_map_iff in Hin. destruct Hin as (y & Hy & Hyi). apply in_map_iff. exists y. split; [congruence|exact Hyi].
    + clear - HF. induction HF as [|kv ip r ips' H1 HF IH]; constructor; [apply (decode1_wf S m kv ip H1)|exact IH].
Qed.
