(* C02 at message level: a message Unpack accepts lies in the domain of the round trip and re-packs, provided each
   field specification is accepting (what it unpacks it can pack again: proved for primitive fields in AcceptProofs).
   About Model/Message.v. *)
From Iso Require Import Model.Base Model.Padding Model.Encoding Model.Prefix Model.Bitmap Model.Spec Model.Field Model.Message
     Proofs.BaseLemmas Proofs.PaddingProofs Proofs.EncodingProofs Proofs.DigitsProofs Proofs.PrefixProofs Proofs.FieldProofs
     Proofs.BitmapProofs Proofs.CompositeProofs Proofs.StateProofs Proofs.MessageRoundtrip Proofs.AcceptProofs.
From Coq Require Import ZifyBool ZifyNat ZifyN Sorting.Permutation Sorting.Sorted.
Set Default Timeout 120.

(* a field specification whose accepted values lie in the round trip's domain and pack *)
Definition accepting (s : fspec) : Prop :=
  forall st0 d st n, unpack_f s st0 d = (st, UOk n) -> in_dom s st /\ exists b, pack_f s st = Ok b.

Lemma prim_accepting p : coherent_pspec p -> accept_ok p -> accepting (FPrim p).
Proof. intros Hc Ha st0 d st n Hu. cbn [unpack_f in_dom pack_f] in *. apply (prim_accept p st0 d st n Hc Ha Hu). Qed.

(* ---------------- the bit-setting loop succeeds ---------------- *)
Lemma set_bits_ok_auto b : bm_auto b = true -> 1 <= bm_len b ->
  forall ids bm k S, bits_inv b bm k S -> exists bm', set_bits b ids bm = (bm', Ok tt).
Proof.
  intros Ha HB. induction ids as [|id rest IH]; intros bm k S Hinv; cbn [set_bits]; [eexists; reflexivity|].
  destruct ((id <? 2) || bm_is_presence_bit b id) eqn:Esk; [apply (IH _ _ _ Hinv)|].
  destruct Hinv as (Hk & Hlen & Hbits). apply Bool.orb_false_iff in Esk. destruct Esk as [E2 Epb].
  destruct (Z_le_gt_dec id (zlen bm * 8)) as [Lin|Lout].
  - destruct (bm_set_inside b bm id ltac:(lia)) as (d & Hd & Hld & Hdb). rewrite Hd. rewrite Hdb, Z.eqb_refl. cbn [orb negb].
    apply (IH d k (id :: S)). split; [exact Hk|]. split; [lia|]. intros m. rewrite Hdb, Hbits. cbn [zmem existsb]. rewrite (Z.eqb_sym m id).
    unfold zmem. destruct (id =? m); reflexivity.
  - destruct (bm_set_expand b bm id k Ha HB Hk Hlen ltac:(lia)) as (d & Hd & Hld & Hdb). rewrite Hd. rewrite Hdb, Z.eqb_refl. cbn [orb negb].
    set (idx := (id - 1) / (bm_len b * 8)) in *.
    assert (Hidx : k <= idx) by (unfold idx; apply Z.div_le_lower_bound; lia).
    apply (IH d (idx + 1) (id :: S)). split; [lia|]. split; [exact Hld|]. intros m. rewrite Hdb, Hbits. cbn [zmem existsb]. rewrite (Z.eqb_sym m id).
    unfold conts. replace (idx + 1 - 1) with idx by lia.
    destruct (1 <=? m) eqn:E1; cbn [andb].
    + rewrite <- (is_cont_union (bm_len b) k idx m HB Hk Hidx ltac:(lia)).
      unfold zmem. destruct (id =? m), (is_cont (bm_len b) k idx m), (existsb (Z.eqb m) S), (is_cont (bm_len b) 1 (k - 1) m); reflexivity.
    + unfold zmem. destruct (id =? m), (existsb (Z.eqb m) S); reflexivity.
Qed.

Lemma set_bits_ok_fixed b : bm_auto b = false ->
  forall ids bm, (forall id, In id ids -> id <= zlen bm * 8) -> exists bm', set_bits b ids bm = (bm', Ok tt).
Proof.
  intros Ha. assert (Hpb : forall id, bm_is_presence_bit b id = false) by (intros id; unfold bm_is_presence_bit; rewrite Ha; reflexivity).
  induction ids as [|id rest IH]; intros bm Hr; cbn [set_bits]; [eexists; reflexivity|].
  rewrite Hpb, Bool.orb_false_r. destruct (id <? 2) eqn:E2; [apply IH; intros i Hi; apply Hr; right; exact Hi|].
  destruct (bm_set_inside b bm id ltac:(specialize (Hr id (or_introl eq_refl)); lia)) as (d & Hd & Hld & Hdb). rewrite Hd. rewrite Hdb, Z.eqb_refl. cbn [orb negb].
  apply IH. intros i Hi. rewrite Hld. apply Hr. right. exact Hi.
Qed.

(* ---------------- what the body loop of a successful Unpack leaves behind ---------------- *)
Definition elem_ok (S : mspec) (bm : bytes) (fl : list (Z * fstate)) (id : Z) : Prop :=
  bm_is_presence_bit (ms_bm S) id = false /\ bm_isset bm id = true /\
  exists s st, zlookup id (ms_fields S) = Some s /\ zlookup id fl = Some st /\ in_dom s st /\ exists b, pack_f s st = Ok b.

Lemma unpack_fields_ok S bm : (forall id s, zlookup id (ms_fields S) = Some s -> accepting s) ->
  forall fuel i src off present fields p' f' n, unpack_fields fuel S bm i src off present fields = ((p', f'), UOk n) ->
    (forall id, zmem id present = true -> zmem id p' = true) /\
    (forall id, zmem id p' = true -> zmem id present = true \/ (i <= id < i + Z.of_nat fuel /\ elem_ok S bm f' id)) /\
    (forall id, id < i -> zlookup id f' = zlookup id fields).
Proof.
  intros Hacc. induction fuel as [|f IH]; intros i src off present fields p' f' n H; cbn [unpack_fields] in H.
  - inversion H; subst. split; [tauto|]. split; [intros id Hm; left; exact Hm|reflexivity].
  - assert (Hskip : unpack_fields f S bm (i + 1) src off present fields = (p', f', UOk n) ->
            (forall id, zmem id present = true -> zmem id p' = true) /\
            (forall id, zmem id p' = true -> zmem id present = true \/ (i <= id < i + Z.of_nat (Datatypes.S f) /\ elem_ok S bm f' id)) /\
            (forall id, id < i -> zlookup id f' = zlookup id fields)).
    { intros H'. destruct (IH _ _ _ _ _ _ _ _ H') as (P1 & P2 & P3). split; [exact P1|]. split.
      - intros id Hm. destruct (P2 id Hm) as [Hl|(Hr & He)]; [left; exact Hl|right; split; [lia|exact He]].
      - intros id Hid. apply P3. lia. }
    destruct (bm_is_presence_bit (ms_bm S) i) eqn:Epb; [apply Hskip; exact H|].
    destruct (bm_isset bm i) eqn:Eset; [|apply Hskip; exact H].
    destruct (zlookup i (ms_fields S)) as [s|] eqn:Es; [|discriminate]. destruct (zlookup i fields) as [st|] eqn:Est; [|discriminate].
    destruct (unpack_f s st (zdrop off src)) as [st' [read|pth e|q|]] eqn:Eu; try discriminate.
    destruct (IH _ _ _ _ _ _ _ _ H) as (P1 & P2 & P3). destruct (Hacc i s Es st _ st' read Eu) as (Hdom & Hpk).
    split; [|split].
    + intros id Hm. apply P1. rewrite zmem_zadd, Hm. apply Bool.orb_true_r.
    + intros id Hm. destruct (P2 id Hm) as [Hl|(Hr & He)]; [|right; split; [lia|exact He]].
      rewrite zmem_zadd in Hl. destruct (id =? i) eqn:Ei; [|left; exact Hl]. assert (id = i) by lia. subst id. right. split; [lia|].
      split; [exact Epb|]. split; [exact Eset|]. exists s, st'. split; [exact Es|]. split; [|split; assumption].
      rewrite P3 by lia. apply zlookup_zupdate_same. exists st. exact Est.
    + intros id Hid. rewrite P3 by lia. apply zlookup_zupdate_other. lia.
Qed.

(* packing the ids of a message whose elements pack *)
Lemma pack_ids_ok S m bm : forall l, (forall id, In id l -> id = 0 \/ id = 1 \/ (2 <= id /\ exists s st, zlookup id (ms_fields S) = Some s /\ zlookup id (m_fields m) = Some st /\ exists b, pack_f s st = Ok b)) ->
  (exists b, pack_f (FPrim (ms_mti S)) (m_mti m) = Ok b) -> (exists b, bm_pack (ms_bm S) bm = Ok b) ->
  exists b, pack_ids S m bm l = Ok b.
Proof.
  intros l. induction l as [|i r IH]; intros Hl Hmti Hbm; cbn [pack_ids]; [eexists; reflexivity|].
  destruct (IH (fun id Hi => Hl id (or_intror Hi)) Hmti Hbm) as (more & Hmore).
  destruct (negb (i =? 1) && bm_is_presence_bit (ms_bm S) i); [exists more; exact Hmore|].
  destruct (Hl i (or_introl eq_refl)) as [->|[->|(H2 & s & st & Hs & Hst & b & Hb)]].
  - destruct Hmti as (b & Hb). change (0 =? 0) with true. cbv iota. rewrite Hb, Hmore. cbn [obind]. eexists. reflexivity.
  - destruct Hbm as (b & Hb). change (1 =? 0) with false. change (1 =? 1) with true. cbv iota. rewrite Hb, Hmore. cbn [obind]. eexists. reflexivity.
  - replace (i =? 0) with false by lia. replace (i =? 1) with false by lia. rewrite Hs, Hst, Hb, Hmore. cbn [obind]. eexists. reflexivity.
Qed.

(* a fixed bitmap unpacks to exactly one block *)
Lemma bm_unpack_fixed_len b f data0 d bm r : bm_auto b = false -> (bm_enc b = EncBinary \/ bm_enc b = EncHex) -> bm_pref b = PFixed f ->
  bm_unpack b data0 d = (bm, Ok r) -> zlen bm = bm_len b.
Proof.
  intros Ha He Hp H. unfold bm_unpack in H. rewrite Hp in H. cbn [dec_len bm_unpack_loop] in H. rewrite Ha in H. cbn [negb] in H.
  destruct (enc_decode (bm_enc b) d (bm_len b)) as [[dec rd]| | |] eqn:Ed; try (inversion H; fail). inversion H; subst. cbn [app].
  assert (Hpe : plain_enc (bm_enc b)) by (unfold plain_enc; destruct He as [-> | ->]; tauto).
  destruct (decode_in_dom _ _ _ _ _ Hpe Ed) as (_ & Hl & _). exact Hl.
Qed.

Theorem message_accept S m0 d m n : msg_coherent S -> accept_ok (ms_mti S) ->
  (forall id s, zlookup id (ms_fields S) = Some s -> accepting s) ->
  m_unpack S m0 d = (m, UOk n) ->
  msg_in_dom S m /\ exists m' b, m_pack S m = (m', Ok b).
Proof.
  intros (Hmti & HB & He & (f & Hpf) & Hcoh) Hmok Hacc Hu.
  pose proof (m_unpack_shape S m0 d) as (Hcached & Hnd). rewrite Hu in Hcached, Hnd. cbn [fst] in Hcached, Hnd.
  unfold m_unpack in Hu. cbv zeta in Hu.
  set (m0r := with_failed (with_fields m0 (reset_fields S (m_failed m0) (m_present m0) (m_fields m0))) []) in *.
  set (m1 := with_bm (m_bitmap S (with_present m0r [])) (bm_new (ms_bm S))) in *.
  destruct (unpack_f (FPrim (ms_mti S)) (m_mti m1) d) as [mti' [read|pth e|q|]] eqn:Emti; try (inversion Hu; fail).
  destruct (bm_unpack (ms_bm S) (m_bm (with_present (with_mti m1 mti') (zadd 0 (m_present m1)))) (zdrop read d)) as [bm [r2|e|q|]] eqn:Ebm; try (inversion Hu; fail).
  cbn [with_present with_bm with_mti m_present m_fields m_bm m_mti m_bmcached] in Hu.
  destruct (unpack_fields (Z.to_nat (zlen bm * 8 - 1)) S bm 2 d (read + r2) (zadd 1 (zadd 0 (m_present m1))) (m_fields m1)) as [[p fl] r] eqn:Ef.
  assert (r = UOk n) by congruence. subst r.
  assert (Hm : m = {| m_mti := mti'; m_fields := fl; m_present := p; m_bm := bm; m_bmcached := m_bmcached m1; m_failed := [] |}) by (inversion Hu; reflexivity).
  clear Hu. subst m. cbn [m_bmcached m_present] in Hcached, Hnd.
  destruct (unpack_fields_ok S bm Hacc _ _ _ _ _ _ _ _ _ Ef) as (P1 & P2 & _).
  destruct (prim_accept (ms_mti S) (m_mti m1) d mti' read Hmti Hmok Emti) as (Hmtidom & Hmtipk).
  assert (Hinit : forall id, zmem id (zadd 1 (zadd 0 (m_present m1))) = true -> id = 0 \/ id = 1).
  { intros id Hm. rewrite !zmem_zadd in Hm. unfold m1, m_bitmap in Hm. cbn [with_bm with_present m_present m_bmcached] in Hm.
    destruct (m_bmcached m0r); cbn [m_present with_present zmem existsb] in Hm; [lia|]. rewrite ?zmem_zadd in Hm. cbn [m_present with_present zmem existsb] in Hm. unfold zmem in Hm. cbn in Hm. lia. }
  assert (Hdom : msg_in_dom S {| m_mti := mti'; m_fields := fl; m_present := p; m_bm := bm; m_bmcached := m_bmcached m1; m_failed := [] |}).
  { split; [exact Hnd|]. split; [apply P1; rewrite !zmem_zadd; cbn; lia|]. split; [exact Hmtidom|]. cbn [m_present m_fields].
    intros id Hm. destruct (P2 id Hm) as [Hl|(Hr & Hpb & _ & s & st & Hs & Hst & Hd & _)]; [destruct (Hinit id Hl); tauto|].
    right. right. split; [lia|]. split; [exact Hpb|]. exists s, st. repeat split; assumption. }
  split; [exact Hdom|].
  (* Pack *)
  unfold m_pack. set (m := {| m_mti := mti'; m_fields := fl; m_present := p; m_bm := bm; m_bmcached := m_bmcached m1; m_failed := [] |}) in *.
  assert (Hmb : m_bitmap S m = m) by (unfold m_bitmap; cbn [m m_bmcached]; rewrite Hcached; reflexivity). rewrite Hmb.
  assert (Hids : forall id, In id (packable_ids m) -> id = 1 \/ zmem id p = true).
  { intros id Hi. unfold packable_ids in Hi. apply (Permutation_in _ (Permutation_sym (sort_z_is_perm _))) in Hi. destruct Hi as [<-|Hi]; [left; reflexivity|right].
    apply zmem_In in Hi. cbn [m m_present] in Hi. destruct (Z.eq_dec id 1) as [->|Hne]; [rewrite zmem_zremove_same in Hi; discriminate|]. rewrite zmem_zremove in Hi by exact Hne. exact Hi. }
  assert (Hsb : exists bm2, set_bits (ms_bm S) (packable_ids m) (bm_new (ms_bm S)) = (bm2, Ok tt)).
  { destruct (bm_auto (ms_bm S)) eqn:Ha.
    - apply (set_bits_ok_auto (ms_bm S) Ha HB _ _ 1 []). apply bits_inv_new. exact HB.
    - apply (set_bits_ok_fixed (ms_bm S) Ha). intros id Hi. unfold bm_new. rewrite zlen_repeat.
      pose proof (bm_unpack_fixed_len _ _ _ _ _ _ Ha He Hpf Ebm) as Hbl.
      destruct (Hids id Hi) as [->|Hm]; [lia|]. destruct (P2 id Hm) as [Hl|(Hr & _)]; [destruct (Hinit id Hl); lia|]. lia. }
  destruct Hsb as (bm2 & Hsb). rewrite Hsb.
  destruct (pack_ids_ok S (with_bm m bm2) bm2 (packable_ids m)) as (b & Hb).
  - intros id Hi. destruct (Hids id Hi) as [->|Hm]; [tauto|]. destruct (P2 id Hm) as [Hl|(Hr & _ & _ & s & st & Hs & Hst & _ & Hpk)]; [destruct (Hinit id Hl); tauto|].
    right. right. split; [lia|]. exists s, st. repeat split; assumption.
  - exact Hmtipk.
  - unfold bm_pack. destruct He as [-> | ->]; cbn [enc_encode]; eexists; reflexivity.
  - eexists _, b. rewrite Hb. reflexivity.
Qed.

(* C02 for messages: what Unpack accepts re-packs; the re-packed bytes are accepted again (whatever follows them and
   whatever message object they are unpacked into), decode to the same message and re-pack to exactly themselves *)
Theorem message_canonical S m0 d m n : msg_coherent S -> accept_ok (ms_mti S) ->
  (forall id s, zlookup id (ms_fields S) = Some s -> accepting s) ->
  m_unpack S m0 d = (m, UOk n) ->
  exists m' b, m_pack S m = (m', Ok b) /\
    forall m1 rest, msg_shaped S m1 ->
      exists m2, m_unpack S m1 (b ++ rest) = (m2, UOk (zlen b)) /\ msg_equiv S m' m2 /\ snd (m_pack S m2) = Ok b.
Proof.
  intros Hcoh Hmti Hacc Hu. destruct (message_accept S m0 d m n Hcoh Hmti Hacc Hu) as (Hdom & m' & b & Hp).
  exists m', b. split; [exact Hp|]. intros m1 rest Hsh.
  destruct (message_roundtrip S m m' b Hcoh Hdom Hp m1 rest Hsh) as (m2 & Hun & Heq). exists m2. split; [exact Hun|]. split; [exact Heq|].
  pose proof (message_repack S m m' b Hcoh Hdom Hp m1 rest Hsh) as Hr. rewrite Hun in Hr. exact Hr.
Qed.

(* ---------------- accept_ok decided ---------------- *)
Definition accept_okb (p : pspec) : bool :=
  (match ps_enc p with EncASCII | EncBinary | EncBCD | EncLBCD | EncHex | EncEBCDIC => true | _ => false end) &&
  (match ps_pref p with PVar PfEBCDIC1047 _ => false | _ => true end) &&
  (ps_len p <=? max_int) &&
  (match ps_pad p with PadNone => true | PadLeft c | PadRight c => enc_dom (ps_enc p) [c] end) &&
  (match ps_pref p with PVar _ _ => pref_fits (ps_pref p) (ps_len p) | _ => true end) &&
  (match ps_kind p with
   | KNumeric => (1 <=? ps_len p) && match ps_pad p with
                                     | PadNone => match ps_pref p with PFixed _ => false | _ => true end
                                     | PadLeft c => negb ((49 <=? bz c) && (bz c <=? 57))
                                     | PadRight _ => false
                                     end
   | _ => true
   end).

Lemma accept_okb_sound p : accept_okb p = true -> accept_ok p.
Proof.
  unfold accept_okb, accept_ok. intros H. do 5 (apply Bool.andb_true_iff in H; destruct H as (H & ?)).
  split; [unfold plain_enc; destruct (ps_enc p); try discriminate; tauto|].
  split; [unfold pref_plain; destruct (ps_pref p) as [f|f d| |]; try exact I; destruct f; try exact I; discriminate|].
  split; [lia|]. split; [unfold pad_char_ok; destruct (ps_pad p); [exact I|assumption|assumption]|].
  split; [destruct (ps_pref p); try exact I; assumption|].
  intros Hk. rewrite Hk in *. match goal with Hn : (1 <=? ps_len p) && _ = true |- _ => apply Bool.andb_true_iff in Hn; destruct Hn as (Hn1 & Hn2) end.
  split; [lia|]. destruct (ps_pad p); [|lia|discriminate]. intros f Hf. rewrite Hf in Hn2. discriminate.
Qed.

(* every primitive data element of S is accept_ok (and the MTI) *)
Definition prims_acceptb (S : mspec) : bool :=
  accept_okb (ms_mti S) && forallb (fun ids => match snd ids with FPrim p => accept_okb p | FComp _ _ _ _ => true end) (ms_fields S).

Lemma prims_acceptb_sound S : prims_acceptb S = true ->
  accept_ok (ms_mti S) /\ forall id p, zlookup id (ms_fields S) = Some (FPrim p) -> accept_ok p.
Proof.
  unfold prims_acceptb. intros H. apply Bool.andb_true_iff in H. destruct H as (H1 & H2). split; [apply accept_okb_sound; exact H1|].
  intros id p Hl. apply accept_okb_sound. rewrite forallb_forall in H2. specialize (H2 (id, FPrim p)). cbn [snd] in H2. apply H2.
  clear - Hl. induction (ms_fields S) as [|(k, v) r IH]; [discriminate|]. cbn [zlookup] in Hl. destruct (id =? k) eqn:E; [left; f_equal; [lia|congruence]|right; apply IH; exact Hl].
Qed.
