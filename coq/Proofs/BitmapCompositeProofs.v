(* Composites with a bitmap of subfields: the pack loop and the bit loop. About Model/Field.v. *)
From Iso Require Import Model.Base Model.Padding Model.Encoding Model.Prefix Model.Bitmap Model.Spec Model.Field
     Proofs.BaseLemmas Proofs.PaddingProofs Proofs.EncodingProofs Proofs.DigitsProofs Proofs.PrefixProofs Proofs.FieldProofs
     Proofs.BitmapProofs Proofs.CompositeLoops.
From Coq Require Import ZifyBool ZifyNat ZifyN Sorting.Permutation Sorting.Sorted.
Set Default Timeout 120.

(* subfield ids of a bitmapped composite are canonical decimal numerals from 1 up *)
Definition canon (tag : bytes) : Prop := exists n, 1 <= n <= max_int /\ tag = itoa n.

Lemma canon_atoi tag : canon tag -> exists n, 1 <= n <= max_int /\ tag = itoa n /\ atoi tag = Some n.
Proof. intros (n & Hn & ->). exists n. split; [exact Hn|]. split; [reflexivity|]. apply itoa_atoi. lia. Qed.

Section BitmapMode.
  Variable packers : list (bytes * (fstate -> outcome bytes)).
  Variable b : bmspec.
  Hypothesis Hauto : bm_auto b = false.

  (* the packed subfields, in order *)
  Fixpoint pack_sel (sts : list (bytes * fstate)) (l : list bytes) : outcome bytes :=
    match l with
    | [] => Ok []
    | tag :: r => match blookup tag packers, blookup tag sts with
                  | Some pk, Some st => do pb <- pk st; do more <- pack_sel sts r; Ok (pb ++ more)
                  | _, _ => Err []
                  end
    end.

  Definition num_of (tag : bytes) : Z := match atoi tag with Some n => n | None => 0 end.

  Lemma pack_by_bitmap_spec : forall order set sts bm0 bmf fields,
    (forall tag, In tag order -> canon tag) ->
    pack_by_bitmap packers b order set sts bm0 = Ok (bmf, fields) ->
    zlen bmf = zlen bm0 /\
    (forall m, bm_isset bmf m = bm_isset bm0 m || existsb (fun tag => bmem tag set && (num_of tag =? m)) order) /\
    pack_sel sts (filter (fun tag => bmem tag set) order) = Ok fields /\
    (forall tag, In tag order -> bmem tag set = true -> 1 <= num_of tag <= zlen bm0 * 8).
  Proof.
    induction order as [|h order IH]; intros set sts bm0 bmf fields Hcan Hp; cbn [pack_by_bitmap] in Hp.
    - assert (bmf = bm0 /\ fields = []) by (split; congruence). destruct H as (-> & ->).
      split; [reflexivity|]. split; [intros m; cbn; rewrite Bool.orb_false_r; reflexivity|]. split; [reflexivity|intros tag []].
    - assert (Hcan' : forall tag, In tag order -> canon tag) by (intros tag Hi; apply Hcan; right; exact Hi).
      cbn [filter existsb]. destruct (bmem h set) eqn:Em.
      + destruct (canon_atoi h (Hcan h (or_introl eq_refl))) as (n & Hn & Hh & Ha). rewrite Ha in Hp.
        destruct (bm_set b bm0 n) as [bm1| | |] eqn:Eset; cbn [obind] in Hp; try discriminate.
        destruct (negb (bm_isset bm1 n)) eqn:Eis; [discriminate|].
        unfold sub_state in Hp. destruct (blookup h packers) as [pk|] eqn:Epk; [|discriminate]. destruct (blookup h sts) as [st|] eqn:Est; [|discriminate].
        destruct (pk st) as [pb| | |] eqn:Epb; cbn [obind] in Hp; try discriminate.
        destruct (pack_by_bitmap packers b order set sts bm1) as [[bm2 more]| | |] eqn:Erest; cbn [obind] in Hp; try discriminate.
        assert (bmf = bm2 /\ fields = pb ++ more) by (split; congruence). destruct H as (-> & ->).
        (* n lies inside the bitmap, otherwise Set is a no-op and the bit is not set *)
        assert (Hin : n <= zlen bm0 * 8).
        { destruct (Z_le_gt_dec n (zlen bm0 * 8)) as [H|H]; [exact H|exfalso].
          rewrite (bm_set_fixed_noop b bm0 n Hauto) in Eset by lia. assert (bm1 = bm0) by congruence. subst bm1.
          rewrite isset_out in Eis by lia. discriminate. }
        destruct (bm_set_inside b bm0 n ltac:(lia)) as (d & Hd & Hld & Hbits). rewrite Hd in Eset. assert (d = bm1) by congruence. subst d.
        destruct (IH set sts bm1 bm2 more Hcan' Erest) as (Hl & Hb & Hs & Hr).
        split; [lia|]. split; [|split].
        * assert (Hnum : num_of h = n) by (unfold num_of; rewrite Ha; reflexivity).
          intros m. rewrite Hb, Hbits, Hnum. cbn [andb].
          destruct (m =? n) eqn:E1; [replace (n =? m) with true by lia|replace (n =? m) with false by lia]; cbn [orb];
            destruct (bm_isset bm0 m); reflexivity.
        * cbn [pack_sel]. rewrite Epk, Est, Epb. cbn [obind]. rewrite Hs. reflexivity.
        * intros tag [<-|Hi] Hm; [unfold num_of; rewrite Ha; lia|]. rewrite <- Hld. apply Hr; assumption.
      + destruct (IH set sts bm0 bmf fields Hcan' Hp) as (Hl & Hb & Hs & Hr).
        split; [exact Hl|]. split; [intros m; rewrite Hb; reflexivity|]. split; [exact Hs|].
        intros tag [<-|Hi] Hm; [congruence|apply Hr; assumption].
  Qed.
End BitmapMode.

Lemma itoa_inj n m : 0 <= n <= max_int -> 0 <= m <= max_int -> itoa n = itoa m -> n = m.
Proof. intros Hn Hm H. pose proof (proj1 (itoa_atoi n Hn)) as A. pose proof (proj1 (itoa_atoi m Hm)) as B. rewrite H in A. congruence. Qed.

Section BitLoop.
  Variable packers : list (bytes * (fstate -> outcome bytes)).
  Variable unpackers : list (bytes * (fstate -> bytes -> fstate * ures Z)).
  Variable freshes : list (bytes * fstate).
  Variable dom shp : bytes -> fstate -> Prop.
  Variable R : bytes -> fstate -> fstate -> Prop.
  Variable bm : bytes.
  Let N := zlen bm * 8.

  Lemma unpack_bits_rt : forall fuel i ln sts body,
    i + Z.of_nat fuel = N + 1 -> 1 <= i ->
    StronglySorted Z.lt ln ->
    (forall n, In n ln -> n <= max_int /\ i <= n <= N /\ bm_isset bm n = true /\
                          sub_rt packers unpackers dom shp R (itoa n) /\ exists up, blookup (itoa n) unpackers = Some up) ->
    (forall j, i <= j <= N -> bm_isset bm j = true -> In j ln) ->
    (forall n st, In n ln -> blookup (itoa n) sts = Some st -> dom (itoa n) st) ->
    pack_sel packers sts (map itoa ln) = Ok body ->
    forall data off pre seta stsa, data = pre ++ body -> off = zlen pre ->
    (forall n, In n ln -> exists st0, blookup (itoa n) stsa = Some st0 /\ shp (itoa n) st0) ->
    exists set' sts', unpack_bits unpackers freshes fuel bm i data off seta stsa = ((set', sts'), UOk (zlen data)) /\
      (forall tag, bmem tag set' = bmem tag seta || bmem tag (map itoa ln)) /\
      (forall n, In n ln -> exists x y pk, blookup (itoa n) sts = Some x /\ blookup (itoa n) sts' = Some y /\ blookup (itoa n) packers = Some pk /\
                                           R (itoa n) x y /\ pk y = pk x /\ shp (itoa n) y) /\
      (forall tag, ~ In tag (map itoa ln) -> blookup tag sts' = blookup tag stsa).
  Proof.
    induction fuel as [|f IH]; intros i ln sts body Hi Hi1 Hsorted Hl Hall Hdom Hp data off pre seta stsa Hdata Hoff Hshp.
    - assert (ln = []) by (destruct ln as [|x l']; [reflexivity|destruct (Hl x (or_introl eq_refl)) as (_ & Hr & _); lia]). subst ln.
      cbn [map pack_sel] in Hp. assert (body = []) by congruence. subst body. rewrite app_nil_r in Hdata. subst data off. cbn [unpack_bits].
      exists seta, stsa. split; [reflexivity|]. split; [intros tag; cbn; rewrite Bool.orb_false_r; reflexivity|]. split; [intros n []|reflexivity].
    - cbn [unpack_bits]. destruct (bm_isset bm i) eqn:Eset.
      + assert (Hin : In i ln) by (apply Hall; [lia|exact Eset]).
        destruct ln as [|h l']; [destruct Hin|]. apply StronglySorted_inv in Hsorted. destruct Hsorted as (Hs' & Hlt). rewrite Forall_forall in Hlt.
        assert (h = i).
        { destruct Hin as [Hh|Hin]; [exact Hh|]. specialize (Hlt i Hin). destruct (Hl h (or_introl eq_refl)) as (_ & Hr & _). lia. }
        subst h. destruct (Hl i (or_introl eq_refl)) as (Hmax & _ & _ & Hrt & up & Eup).
        cbn [map pack_sel] in Hp. destruct (blookup (itoa i) packers) as [pk|] eqn:Epk; [|discriminate]. destruct (blookup (itoa i) sts) as [st|] eqn:Est; [|discriminate].
        destruct (pk st) as [pb| | |] eqn:Epb; cbn [obind] in Hp; try discriminate.
        destruct (pack_sel packers sts (map itoa l')) as [more| | |] eqn:Emore; cbn [obind] in Hp; try discriminate.
        assert (body = pb ++ more) by congruence. subst body. clear Hp.
        destruct (Hshp i (or_introl eq_refl)) as (st0 & Est0 & Hshp0).
        destruct (Hrt pk up Epk Eup st pb (Hdom i st (or_introl eq_refl) Est) Epb st0 more Hshp0) as (st' & Hup & HR & Hpk' & Hshp').
        rewrite Eup. unfold sub_state. rewrite Est0.
        replace (zdrop off data) with (pb ++ more) by (subst data; symmetry; apply zdrop_app2; exact Hoff). rewrite Hup.
        assert (Hnotin : forall n, In n l' -> itoa n <> itoa i).
        { intros n Hn Heq. specialize (Hlt n Hn). destruct (Hl n (or_intror Hn)) as (Hmn & _). apply itoa_inj in Heq; lia. }
        destruct (IH (i + 1) l' sts more) with (data := data) (off := off + zlen pb) (pre := pre ++ pb) (seta := badd (itoa i) seta) (stsa := bupdate (itoa i) st' stsa)
          as (set' & sts' & Hun & H1 & H2 & H3); try assumption; try lia.
        * intros n Hn. destruct (Hl n (or_intror Hn)) as (Hm & Hr & Hrest). specialize (Hlt n Hn). split; [exact Hm|]. split; [lia|exact Hrest].
        * intros j Hj Hsj. destruct (Hall j ltac:(lia) Hsj) as [Hh|Hh]; [lia|exact Hh].
        * intros n s0 Hn. apply Hdom. right. exact Hn.
        * subst data. rewrite <- app_assoc. reflexivity.
        * subst off. zlens. lia.
        * intros n Hn. rewrite blookup_bupdate_other by (intros Heq; apply (Hnotin n Hn); symmetry; exact Heq). apply Hshp. right. exact Hn.
        * exists set', sts'. split; [exact Hun|]. split; [|split].
          -- intros tag. rewrite H1, bmem_badd. cbn [map bmem existsb]. fold (bmem tag (map itoa l')). fold (bmem tag seta).
             destruct (bytes_eqb tag (itoa i)), (bmem tag seta), (bmem tag (map itoa l')); reflexivity.
          -- intros n [<-|Hn]; [|apply H2; exact Hn]. exists st, st', pk.
             rewrite H3 by (intros Hc; apply in_map_iff in Hc; destruct Hc as (n & Heq & Hn); apply (Hnotin n Hn); exact Heq).
             rewrite blookup_bupdate_same by (exists st0; exact Est0). repeat split; try assumption; congruence.
          -- intros tag Hn. rewrite H3 by (intros Hc; apply Hn; right; exact Hc).
             apply blookup_bupdate_other. intros <-. apply Hn. left. reflexivity.
      + assert (Hni : ~ In i ln) by (intros Hin; destruct (Hl i Hin) as (_ & _ & Hf & _); congruence).
        apply (IH (i + 1) ln sts body) with (pre := pre); try assumption; try lia.
        * intros n Hn. destruct (Hl n Hn) as (Hm & Hr & Hrest). split; [exact Hm|]. split; [|exact Hrest]. assert (n <> i) by (intros ->; contradiction). lia.
        * intros j Hj Hs. apply Hall; [lia|exact Hs].
  Qed.
End BitLoop.

(* ---------------- the order of the ids: sorting canonical numerals by value ---------------- *)
Lemma sorted_nodup_strict l : Sorted Z.le l -> NoDup l -> StronglySorted Z.lt l.
Proof.
  intros Hs Hn. apply Sorted_StronglySorted in Hs; [|intros a b c; lia].
  induction l as [|x l IH]; [constructor|]. apply StronglySorted_inv in Hs. destruct Hs as (Hs & Hle).
  apply NoDup_cons_iff in Hn. destruct Hn as (Hx & Hn). constructor; [apply IH; assumption|].
  rewrite Forall_forall in *. intros y Hy. specialize (Hle y Hy). assert (y <> x) by (intros ->; contradiction). lia.
Qed.

Lemma num_of_itoa n : 0 <= n <= max_int -> num_of (itoa n) = n.
Proof. intros H. unfold num_of. rewrite (proj1 (itoa_atoi n H)). reflexivity. Qed.

Lemma canon_num tag : canon tag -> 1 <= num_of tag <= max_int /\ itoa (num_of tag) = tag.
Proof. intros (n & Hn & ->). rewrite num_of_itoa by lia. split; [exact Hn|reflexivity]. Qed.

Lemma tag_less_byint a b : canon a -> canon b -> tag_less SortByInt a b = (num_of a <? num_of b).
Proof.
  intros Ha Hb. destruct (canon_atoi a Ha) as (n & _ & _ & En). destruct (canon_atoi b Hb) as (m & _ & _ & Em).
  unfold tag_less, num_of. rewrite En, Em. reflexivity.
Qed.

Lemma insert_byint x l : canon x -> (forall t, In t l -> canon t) ->
  map num_of (insert_sorted (tag_less SortByInt) x l) = insert_z (num_of x) (map num_of l) /\
  (forall t, In t (insert_sorted (tag_less SortByInt) x l) -> canon t).
Proof.
  intros Hx. induction l as [|y r IH]; intros Hl; cbn [insert_sorted map insert_z].
  - split; [reflexivity|]. intros t [<-|[]]. exact Hx.
  - rewrite (tag_less_byint y x (Hl y (or_introl eq_refl)) Hx). destruct (num_of y <? num_of x).
    + destruct (IH (fun t Hi => Hl t (or_intror Hi))) as (H1 & H2). cbn [map]. rewrite H1. split; [reflexivity|].
      intros t [<-|Hi]; [apply Hl; left; reflexivity|apply H2; exact Hi].
    + split; [reflexivity|]. intros t [<-|Hi]; [exact Hx|apply Hl; exact Hi].
Qed.

Lemma sort_byint l : (forall t, In t l -> canon t) ->
  map num_of (sort_tags SortByInt l) = sort_z (map num_of l) /\ (forall t, In t (sort_tags SortByInt l) -> canon t).
Proof.
  induction l as [|x r IH]; intros Hl; [split; [reflexivity|intros t []]|]. unfold sort_tags, sort_z. cbn [fold_right map].
  destruct (IH (fun t Hi => Hl t (or_intror Hi))) as (H1 & H2).
  destruct (insert_byint x (sort_tags SortByInt r) (Hl x (or_introl eq_refl)) H2) as (G1 & G2).
  unfold sort_tags in *. rewrite G1, H1. split; [reflexivity|exact G2].
Qed.

Lemma strongly_sorted_filter_map (p : bytes -> bool) l : StronglySorted Z.lt (map num_of l) -> StronglySorted Z.lt (map num_of (filter p l)).
Proof.
  induction l as [|x r IH]; intros H; [constructor|]. cbn [map] in H. apply StronglySorted_inv in H. destruct H as (Hr & Hx).
  cbn [filter]. destruct (p x); [|apply IH; exact Hr]. cbn [map]. constructor; [apply IH; exact Hr|].
  rewrite Forall_forall in *. intros n Hn. apply Hx. apply in_map_iff in Hn. destruct Hn as (t & <- & Ht). apply filter_In in Ht. apply in_map. tauto.
Qed.

(* ---------------- a fixed bitmap: one block ---------------- *)
Lemma bm_fixed_pack_unpack b f bm w rest data0 : bm_auto b = false -> 1 <= bm_len b -> (bm_enc b = EncBinary \/ bm_enc b = EncHex) ->
  bm_pref b = PFixed f -> zlen bm = bm_len b -> bm_pack b bm = Ok w -> bm_unpack b data0 (w ++ rest) = (bm, Ok (zlen w)).
Proof.
  intros Ha HB He Hp Hl Hw.
  pose proof (bm_unpack_chain b f [bm] [w] rest data0 HB He Hp) as H. cbn [concat] in H. rewrite !app_nil_r in H. apply H.
  - constructor; [exact Hw|constructor].
  - constructor; [exact Hl|constructor].
  - cbn [chain_ok]. rewrite Ha. reflexivity.
Qed.

(* ---------------- packing depends only on which subfields are set and on what they pack to ---------------- *)
Lemma pack_by_bitmap_congr packers b order : forall set sts set' sts' bm,
  (forall tag, In tag order -> bmem tag set' = bmem tag set) ->
  (forall tag, In tag order -> bmem tag set = true -> exists x y pk, blookup tag sts = Some x /\ blookup tag sts' = Some y /\ blookup tag packers = Some pk /\ pk y = pk x) ->
  pack_by_bitmap packers b order set' sts' bm = pack_by_bitmap packers b order set sts bm.
Proof.
  induction order as [|h order IH]; intros set sts set' sts' bm Hset Hst; [reflexivity|]. cbn [pack_by_bitmap].
  rewrite (Hset h (or_introl eq_refl)).
  assert (Hrec : forall bm1, pack_by_bitmap packers b order set' sts' bm1 = pack_by_bitmap packers b order set sts bm1).
  { intros bm1. apply IH; intros; [apply Hset|apply Hst]; try right; assumption. }
  destruct (bmem h set) eqn:Em; [|apply Hrec].
  destruct (atoi h); [|reflexivity]. destruct (bm_set b bm z) as [bm1| | |]; cbn [obind]; try reflexivity.
  destruct (negb (bm_isset bm1 z)); [reflexivity|]. unfold sub_state.
  destruct (Hst h (or_introl eq_refl) Em) as (x & y & pk & Hx & Hy & Hpk & Heq). rewrite Hx, Hy, Hpk, Heq, Hrec. reflexivity.
Qed.
