(* C07: the value encodings are exact inverses with the standard layouts. About Model/Encoding.v
   and the generated tables Gen/EbcdicTables.v. *)
From Iso Require Import Model.Base Model.Encoding Gen.EbcdicTables Proofs.BaseLemmas.
From Coq Require Import ZifyBool ZifyNat ZifyN.
Ltac Zify.zify_post_hook ::= Z.div_mod_to_equations.

Lemma list_ind2 {A} (P : list A -> Prop) :
  P [] -> (forall a, P [a]) -> (forall a b l, P l -> P (a :: b :: l)) -> forall l, P l.
Proof.
  intros H0 H1 H2. fix IH 1. intros [|a [|b l]]; [exact H0 | apply H1 | apply H2, IH].
Qed.

(* ---------------- domains ---------------- *)
Definition is_hex_char (b : byte) : bool := match hex_val b with Some _ => true | None => false end.
Fixpoint hex_string (l : bytes) : bool :=
  match l with
  | [] => true
  | [_] => false
  | a :: b :: r => is_hex_char a && is_hex_char b && hex_string r
  end.

(* the BER rule, stated on the tag bytes: the first byte's low five bits are all set iff another byte
   follows; following bytes have their top bit set except the last *)
Fixpoint ber_rest_wf (l : bytes) : bool :=
  match l with
  | [] => false
  | [b] => bz b <? 128
  | b :: r => (128 <=? bz b) && ber_rest_wf r
  end.
Definition ber_wf (t : bytes) : bool :=
  match t with
  | [] => false
  | b :: r => if bz b mod 32 =? 31 then ber_rest_wf r else match r with [] => true | _ => false end
  end.

Definition enc_dom (e : encoder) (x : bytes) : bool :=
  match e with
  | EncASCII | EncEBCDIC1047 => all_ascii x
  | EncBinary | EncHex | EncEBCDIC => true
  | EncBCD | EncLBCD => all_digits x
  | EncHexToBytes => hex_string x
  | EncBerTag => match hex_decode x with Some t => ber_wf t | None => false end
  end.

(* units Decode is asked for, and the canonical form it returns *)
Definition enc_units (e : encoder) (x w : bytes) : Z :=
  match e with EncHexToBytes | EncBerTag => zlen w | _ => zlen x end.
Definition enc_canon (e : encoder) (x w : bytes) : bytes :=
  match e with EncHexToBytes | EncBerTag => hex_encode_upper w | _ => x end.

(* ---------------- hex ---------------- *)
Lemma hex_val_upper n : 0 <= n < 16 -> hex_val (hex_digit_upper n) = Some n.
Proof.
  intros H. assert (n = 0 \/ n = 1 \/ n = 2 \/ n = 3 \/ n = 4 \/ n = 5 \/ n = 6 \/ n = 7 \/ n = 8 \/ n = 9 \/
                    n = 10 \/ n = 11 \/ n = 12 \/ n = 13 \/ n = 14 \/ n = 15) as C by lia.
  repeat (destruct C as [C|C]; [subst n; reflexivity|]). subst n; reflexivity.
Qed.

Lemma hex_decode_encode d : hex_decode (hex_encode_upper d) = Some d.
Proof.
  induction d as [|b r IH]; [reflexivity|].
  cbn [hex_encode_upper hex_decode]. pose proof (bz_range b) as Hb.
  rewrite !hex_val_upper by lia. rewrite IH.
  replace (bz b / 16 * 16 + bz b mod 16) with (bz b) by lia. rewrite zb_bz. reflexivity.
Qed.

Lemma zlen_hex_encode d : zlen (hex_encode_upper d) = 2 * zlen d.
Proof. induction d as [|b r IH]; [reflexivity|]. cbn [hex_encode_upper]. zlens. lia. Qed.

Lemma hex_upper_alphabet d :
  Forall (fun c => (48 <= bz c <= 57) \/ (65 <= bz c <= 70)) (hex_encode_upper d).
Proof.
  assert (H : forall n, 0 <= n < 16 -> (48 <= bz (hex_digit_upper n) <= 57) \/ (65 <= bz (hex_digit_upper n) <= 70)).
  { intros n Hn. unfold hex_digit_upper. destruct (n <? 10) eqn:E; rewrite bz_zb by lia; lia. }
  induction d as [|b r IH]; [constructor|]. cbn [hex_encode_upper]. pose proof (bz_range b).
  constructor; [apply H; lia|]. constructor; [apply H; lia|]. exact IH.
Qed.

Lemma hex_decode_app a b x : hex_decode a = Some x -> hex_decode (a ++ b) = option_map (app x) (hex_decode b).
Proof.
  revert x. induction a as [| |p q r IH] using list_ind2; intros x H.
  - inversion H. cbn. destruct (hex_decode b); reflexivity.
  - discriminate.
  - cbn [hex_decode app] in *. destruct (hex_val p); [|discriminate]. destruct (hex_val q); [|discriminate].
    destruct (hex_decode r) as [t|] eqn:E; [|discriminate]. inversion H; subst x.
    rewrite (IH t eq_refl). destruct (hex_decode b); reflexivity.
Qed.

Lemma hex_decode_len a x : hex_decode a = Some x -> zlen a = 2 * zlen x.
Proof.
  revert x. induction a as [| |p q r IH] using list_ind2; intros x H.
  - inversion H. reflexivity.
  - discriminate.
  - cbn [hex_decode] in H. destruct (hex_val p); [|discriminate]. destruct (hex_val q); [|discriminate].
    destruct (hex_decode r) as [t|] eqn:E; [|discriminate]. inversion H; subst x.
    zlens. specialize (IH t eq_refl). lia.
Qed.

Lemma hex_string_decodes x : hex_string x = true -> exists w, hex_decode x = Some w.
Proof.
  induction x as [| |p q r IH] using list_ind2; intros H.
  - exists []. reflexivity.
  - discriminate.
  - cbn [hex_string] in H. apply andb_prop in H. destruct H as [H Hr]. apply andb_prop in H. destruct H as [Hp Hq].
    destruct (IH Hr) as (t & Ht). unfold is_hex_char in *. cbn [hex_decode].
    destruct (hex_val p); [|discriminate]. destruct (hex_val q); [|discriminate]. rewrite Ht. eexists; reflexivity.
Qed.

(* ---------------- BCD ---------------- *)
Lemma is_digit_spec b : is_digit b = true <-> 48 <= bz b <= 57.
Proof. unfold is_digit. lia. Qed.

Lemma bcd_unpack_pack s : Nat.even (length s) = true -> all_digits s = true -> bcd_unpack (bcd_pack s) = Some s.
Proof.
  induction s as [| |a b r IH] using list_ind2; intros He Hd.
  - reflexivity.
  - discriminate.
  - cbn [all_digits forallb] in Hd. apply andb_prop in Hd. destruct Hd as [Ha Hd]. apply andb_prop in Hd. destruct Hd as [Hb Hd].
    apply is_digit_spec in Ha. apply is_digit_spec in Hb.
    cbn [bcd_pack bcd_unpack]. rewrite bz_zb by lia.
    replace (((bz a - 48) * 16 + (bz b - 48)) / 16) with (bz a - 48) by lia.
    replace (((bz a - 48) * 16 + (bz b - 48)) mod 16) with (bz b - 48) by lia.
    replace ((bz a - 48 <=? 9) && (bz b - 48 <=? 9)) with true by lia.
    rewrite IH; [|exact He|exact Hd].
    replace (48 + (bz a - 48)) with (bz a) by lia. replace (48 + (bz b - 48)) with (bz b) by lia.
    rewrite !zb_bz. reflexivity.
Qed.

Lemma zlen_bcd_pack s : Nat.even (length s) = true -> 2 * zlen (bcd_pack s) = zlen s.
Proof.
  induction s as [| |a b r IH] using list_ind2; intros He; [reflexivity|discriminate|].
  cbn [bcd_pack]. zlens. specialize (IH He). lia.
Qed.

(* nibble view of packed BCD: two digits per byte, high nibble first *)
Fixpoint nibbles (l : bytes) : list Z :=
  match l with [] => [] | b :: r => bz b / 16 :: bz b mod 16 :: nibbles r end.
Lemma nibbles_bcd_pack s : Nat.even (length s) = true -> all_digits s = true ->
  nibbles (bcd_pack s) = map (fun c => bz c - 48) s.
Proof.
  induction s as [| |a b r IH] using list_ind2; intros He Hd; [reflexivity|discriminate|].
  cbn [all_digits forallb] in Hd. apply andb_prop in Hd. destruct Hd as [Ha Hd]. apply andb_prop in Hd. destruct Hd as [Hb Hd].
  apply is_digit_spec in Ha. apply is_digit_spec in Hb.
  cbn [bcd_pack nibbles map]. rewrite bz_zb by lia. rewrite IH; [|exact He|exact Hd].
  f_equal; [lia|]. f_equal; lia.
Qed.

Lemma even_length_cons_odd {A} (x : A) l : Nat.even (length l) = false -> Nat.even (length (x :: l)) = true.
Proof. cbn [length]. rewrite Nat.even_succ, <- Nat.negb_even. intros ->. reflexivity. Qed.
Lemma even_length_snoc_odd {A} (x : A) l : Nat.even (length l) = false -> Nat.even (length (l ++ [x])) = true.
Proof. rewrite app_length. cbn [length]. rewrite Nat.add_1_r, Nat.even_succ, <- Nat.negb_even. intros ->. reflexivity. Qed.

Lemma even_zlen {A} (l : list A) : Nat.even (length l) = true -> zlen l mod 2 = 0.
Proof. intros H. apply Nat.even_spec in H. destruct H as (k & Hk). unfold zlen. rewrite Hk. lia. Qed.
Lemma odd_zlen {A} (l : list A) : Nat.even (length l) = false -> zlen l mod 2 = 1.
Proof.
  intros H. assert (Nat.odd (length l) = true) as Ho by (rewrite <- Nat.negb_even, H; reflexivity).
  apply Nat.odd_spec in Ho. destruct Ho as (k & Hk). unfold zlen. rewrite Hk. lia.
Qed.

(* ---------------- EBCDIC tables (the generated literals) ---------------- *)
Lemma ebcdic_e2a_a2e b : tbl ebcdic_e2a (tbl ebcdic_a2e b) = b.
Proof.
  revert b. assert (H : forall b, Byte.eqb (tbl ebcdic_e2a (tbl ebcdic_a2e b)) b = true)
    by (apply forall_bytes; vm_compute; reflexivity).
  intros b. apply byte_eqb_eq, H.
Qed.
Lemma ebcdic_a2e_e2a b : tbl ebcdic_a2e (tbl ebcdic_e2a b) = b.
Proof.
  revert b. assert (H : forall b, Byte.eqb (tbl ebcdic_a2e (tbl ebcdic_e2a b)) b = true)
    by (apply forall_bytes; vm_compute; reflexivity).
  intros b. apply byte_eqb_eq, H.
Qed.
Lemma cp1047_dec_enc b : tbl cp1047_dec (tbl cp1047_enc b) = b.
Proof.
  revert b. assert (H : forall b, Byte.eqb (tbl cp1047_dec (tbl cp1047_enc b)) b = true)
    by (apply forall_bytes; vm_compute; reflexivity).
  intros b. apply byte_eqb_eq, H.
Qed.
Lemma cp1047_enc_dec b : tbl cp1047_enc (tbl cp1047_dec b) = b.
Proof.
  revert b. assert (H : forall b, Byte.eqb (tbl cp1047_enc (tbl cp1047_dec b)) b = true)
    by (apply forall_bytes; vm_compute; reflexivity).
  intros b. apply byte_eqb_eq, H.
Qed.

Lemma map_map_id {A} (f g : A -> A) l : (forall x, g (f x) = x) -> map g (map f l) = l.
Proof. intros H. rewrite map_map. induction l as [|x r IH]; cbn; [reflexivity|]. rewrite H, IH. reflexivity. Qed.

Lemma cp1047_encode_ascii x : all_ascii x = true -> cp1047_encode x = Some (map (tbl cp1047_enc) x).
Proof.
  induction x as [|b r IH]; intros H; [reflexivity|].
  cbn [all_ascii forallb] in H. apply andb_prop in H. destruct H as [Hb Hr].
  cbn [cp1047_encode map]. replace (bz b <? 128) with true by lia. rewrite (IH Hr). reflexivity.
Qed.
Lemma cp1047_decode_ascii x : all_ascii x = true -> cp1047_decode (map (tbl cp1047_enc) x) = x.
Proof.
  induction x as [|b r IH]; intros H; [reflexivity|].
  cbn [all_ascii forallb] in H. apply andb_prop in H. destruct H as [Hb Hr].
  cbn [map cp1047_decode]. rewrite cp1047_dec_enc. replace (bz b <? 128) with true by lia.
  rewrite zb_bz, (IH Hr). reflexivity.
Qed.

(* ---------------- BER tag ---------------- *)
Lemma ber_tag_more_wf r rest n : ber_rest_wf r = true -> ber_tag_more (r ++ rest) n = Some (n + zlen r).
Proof.
  revert n. induction r as [|b r IH]; intros n H; [discriminate|].
  destruct r as [|c r'].
  - cbn [ber_rest_wf] in H. cbn [app ber_tag_more]. rewrite H. zlens. f_equal; lia.
  - cbn [ber_rest_wf] in H. apply andb_prop in H. destruct H as [Hb Hr].
    change ((b :: c :: r') ++ rest) with (b :: ((c :: r') ++ rest)). cbn [ber_tag_more].
    replace (bz b <? 128) with false by lia. rewrite (IH (n + 1) Hr). zlens. f_equal; lia.
Qed.

Lemma ber_tag_len_wf t rest : ber_wf t = true -> ber_tag_len (t ++ rest) = Some (zlen t).
Proof.
  destruct t as [|b r]; [discriminate|]. cbn [ber_wf app ber_tag_len].
  destruct (bz b mod 32 =? 31).
  - intros H. rewrite (ber_tag_more_wf r rest 1 H). zlens. reflexivity.
  - destruct r; [reflexivity|discriminate].
Qed.

(* converse: whatever Decode accepts as a tag follows the rule *)
Lemma ber_tag_more_sound l n k : ber_tag_more l n = Some k ->
  n < k /\ k - n <= zlen l /\ ber_rest_wf (ztake (k - n) l) = true.
Proof.
  revert n. induction l as [|b r IH]; intros n H; [discriminate|].
  cbn [ber_tag_more] in H. destruct (bz b <? 128) eqn:E.
  - inversion H; subst k. replace (n + 1 - n) with 1 by lia. zlens. pose proof (zlen_nonneg r).
    split; [lia|]. split; [lia|]. cbn. exact E.
  - destruct (IH (n + 1) H) as (H1 & H2 & H3). zlens. split; [lia|]. split; [lia|].
    unfold ztake in *. replace (Z.to_nat (k - n)) with (S (Z.to_nat (k - (n + 1)))) by lia. cbn [firstn].
    destruct (firstn (Z.to_nat (k - (n + 1))) r) as [|b0 l0] eqn:F; [discriminate|].
    change (ber_rest_wf (b :: b0 :: l0)) with ((128 <=? bz b) && ber_rest_wf (b0 :: l0)). rewrite H3. replace (128 <=? bz b) with true by lia. reflexivity.
Qed.

Lemma ber_tag_len_sound d n : ber_tag_len d = Some n -> 1 <= n <= zlen d /\ ber_wf (ztake n d) = true.
Proof.
  destruct d as [|b r]; [discriminate|]. cbn [ber_tag_len]. destruct (bz b mod 32 =? 31) eqn:E.
  - intros H. destruct (ber_tag_more_sound r 1 n H) as (H1 & H2 & H3). zlens. split; [lia|].
    unfold ztake. replace (Z.to_nat n) with (S (Z.to_nat (n - 1))) by lia. cbn [firstn]. unfold ber_wf. rewrite E. exact H3.
  - intros H. inversion H; subst n. zlens. pose proof (zlen_nonneg r). split; [lia|]. change (ztake 1 (b :: r)) with [b]. unfold ber_wf. rewrite E. reflexivity.
Qed.

(* ---------------- the round trip, for every encoder ---------------- *)
Theorem enc_roundtrip e x : enc_dom e x = true ->
  exists w, enc_encode e x = Ok w /\
            forall rest, enc_decode e (w ++ rest) (enc_units e x w) = Ok (enc_canon e x w, zlen w).
Proof.
  intros Hd. destruct e; cbn [enc_dom enc_units enc_canon] in *.
  - (* ASCII *) exists x. cbn [enc_encode]. rewrite Hd. split; [reflexivity|]. intros rest.
    unfold enc_decode. pose proof (zlen_nonneg x). pose proof (zlen_nonneg rest). replace (zlen x <? 0) with false by lia. zlens.
    replace (zlen x + zlen rest <? zlen x) with false by lia. rewrite ztake_app, Hd. reflexivity.
  - (* Binary *) exists x. split; [reflexivity|]. intros rest. unfold enc_decode.
    pose proof (zlen_nonneg x). pose proof (zlen_nonneg rest). replace (zlen x <? 0) with false by lia. zlens.
    replace (zlen x + zlen rest <? zlen x) with false by lia. rewrite ztake_app. reflexivity.
  - (* BCD *) cbn [enc_encode]. destruct (Nat.even (length x)) eqn:Ev; cbv zeta iota beta.
    + rewrite Hd. eexists; split; [reflexivity|]. intros rest. unfold enc_decode.
      pose proof (zlen_nonneg x). pose proof (zlen_nonneg rest). pose proof (zlen_bcd_pack x Ev). pose proof (even_zlen x Ev).
      replace (zlen x <? 0) with false by lia. zlens.
      replace ((zlen x + 1) / 2) with (zlen (bcd_pack x)) by lia.
      replace (zlen (bcd_pack x) + zlen rest <? zlen (bcd_pack x)) with false by lia.
      rewrite ztake_app, bcd_unpack_pack by assumption.
      replace (zlen (bcd_pack x) * 2 - zlen x) with 0 by lia. reflexivity.
    + assert (Hd' : all_digits (x30 :: x) = true) by (unfold all_digits in *; cbn [forallb]; rewrite Hd; reflexivity).
      rewrite Hd'. eexists; split; [reflexivity|]. intros rest. unfold enc_decode.
      pose proof (even_length_cons_odd x30 x Ev) as Ev'. pose proof (zlen_bcd_pack _ Ev') as HL. pose proof (odd_zlen x Ev).
      pose proof (zlen_nonneg x). pose proof (zlen_nonneg rest). zlens.
      replace (zlen x <? 0) with false by lia.
      replace ((zlen x + 1) / 2) with (zlen (bcd_pack (x30 :: x))) by lia.
      replace (zlen (bcd_pack (x30 :: x)) + zlen rest <? zlen (bcd_pack (x30 :: x))) with false by lia.
      rewrite ztake_app, bcd_unpack_pack by assumption.
      replace (zlen (bcd_pack (x30 :: x)) * 2 - zlen x) with 1 by lia. reflexivity.
  - (* LBCD *) cbn [enc_encode]. destruct (Nat.even (length x)) eqn:Ev; cbv zeta iota beta.
    + rewrite Hd. eexists; split; [reflexivity|]. intros rest. unfold enc_decode.
      pose proof (zlen_nonneg x). pose proof (zlen_nonneg rest). pose proof (zlen_bcd_pack x Ev). pose proof (even_zlen x Ev).
      replace (zlen x <? 0) with false by lia. zlens.
      replace ((zlen x + 1) / 2) with (zlen (bcd_pack x)) by lia.
      replace (zlen (bcd_pack x) + zlen rest <? zlen (bcd_pack x)) with false by lia.
      rewrite ztake_app, bcd_unpack_pack by assumption. rewrite ztake_all by lia. reflexivity.
    + assert (Hd' : all_digits (x ++ [x30]) = true) by (unfold all_digits in *; rewrite forallb_app, Hd; reflexivity).
      rewrite Hd'. eexists; split; [reflexivity|]. intros rest. unfold enc_decode.
      pose proof (even_length_snoc_odd x30 x Ev) as Ev'. pose proof (zlen_bcd_pack _ Ev') as HL. pose proof (odd_zlen x Ev).
      pose proof (zlen_nonneg x). pose proof (zlen_nonneg rest). zlens.
      replace (zlen x <? 0) with false by lia.
      replace ((zlen x + 1) / 2) with (zlen (bcd_pack (x ++ [x30]))) by lia.
      replace (zlen (bcd_pack (x ++ [x30])) + zlen rest <? zlen (bcd_pack (x ++ [x30]))) with false by lia.
      rewrite ztake_app, bcd_unpack_pack by assumption. rewrite ztake_app. reflexivity.
  - (* Hex *) eexists; split; [reflexivity|]. intros rest. unfold enc_decode.
    pose proof (zlen_nonneg x). pose proof (zlen_nonneg rest). pose proof (zlen_hex_encode x).
    replace (zlen x <? 0) with false by lia. zlens.
    replace ((zlen (hex_encode_upper x) + zlen rest) / 2 <? zlen x) with false by lia.
    replace (2 * zlen x) with (zlen (hex_encode_upper x)) by lia.
    rewrite ztake_app, hex_decode_encode. reflexivity.
  - (* HexToBytes *) destruct (hex_string_decodes x Hd) as (w & Hw). exists w. cbn [enc_encode]. rewrite Hw.
    split; [reflexivity|]. intros rest. unfold enc_decode.
    pose proof (zlen_nonneg w). pose proof (zlen_nonneg rest). replace (zlen w <? 0) with false by lia. zlens.
    replace (zlen w + zlen rest <? zlen w) with false by lia. rewrite ztake_app. reflexivity.
  - (* EBCDIC *) eexists; split; [reflexivity|]. intros rest. unfold enc_decode.
    pose proof (zlen_nonneg x). pose proof (zlen_nonneg rest). replace (zlen x <? 0) with false by lia. zlens.
    replace (zlen x + zlen rest <? zlen x) with false by lia.
    replace (zlen x) with (zlen (map (tbl ebcdic_a2e) x)) at 1 by (zlens; reflexivity).
    rewrite ztake_app, map_map_id by apply ebcdic_e2a_a2e. zlens. reflexivity.
  - (* EBCDIC1047 *) cbn [enc_encode]. rewrite cp1047_encode_ascii by exact Hd. eexists; split; [reflexivity|].
    intros rest. unfold enc_decode.
    pose proof (zlen_nonneg x). pose proof (zlen_nonneg rest). replace (zlen x <? 0) with false by lia. zlens.
    replace (zlen x + zlen rest <? zlen x) with false by lia.
    replace (zlen x) with (zlen (map (tbl cp1047_enc) x)) at 1 by (zlens; reflexivity).
    rewrite ztake_app, cp1047_decode_ascii by exact Hd. zlens. reflexivity.
  - (* BerTag *) destruct (hex_decode x) as [t|] eqn:Ht; [|discriminate]. exists t. cbn [enc_encode]. rewrite Ht.
    split; [reflexivity|]. intros rest. unfold enc_decode. rewrite ber_tag_len_wf by exact Hd. rewrite ztake_app. reflexivity.
Qed.

(* ---------------- rejection: negative length, short input ---------------- *)
Definition enc_min_bytes (e : encoder) (n : Z) : Z :=
  match e with
  | EncBCD | EncLBCD => (n + 1) / 2
  | EncHex => 2 * n
  | _ => n
  end.

Theorem enc_decode_rejects e d n : e <> EncBerTag ->
  (n < 0 \/ zlen d < enc_min_bytes e n) -> is_err (enc_decode e d n) = true.
Proof.
  intros He H. pose proof (zlen_nonneg d).
  destruct e; try contradiction; unfold enc_decode, enc_min_bytes in *;
    (destruct (n <? 0) eqn:En; [reflexivity|]);
    match goal with |- context [if ?c then _ else _] => replace c with true by lia end; reflexivity.
Qed.

(* ---------------- soundness: an accepted decode reads within the data, returns the requested number of
   units, and never a wrong value: the result is in the encoder's domain and the bytes read are (for the
   fixed-layout encoders: exactly) an encoding of it ---------------- *)
Ltac crack H := repeat match type of H with
  | context [if ?c then _ else _] => destruct c eqn:?; try discriminate
  | context [match ?c with Some _ => _ | None => _ end] => destruct c eqn:?; try discriminate
  end.

Theorem enc_decode_read_bounds e d n v r : enc_decode e d n = Ok (v, r) -> 0 <= r <= zlen d.
Proof.
  intros H. pose proof (zlen_nonneg d). destruct e; unfold enc_decode in H.
  9: { destruct (ber_tag_len d) as [k|] eqn:Em; [|discriminate]. apply ber_tag_len_sound in Em. inversion H; subst. lia. }
  all: crack H; match type of H with Ok (_, ?a) = Ok (_, _) => assert (Hr : a = r) by congruence end; lia.
Qed.

Lemma bcd_unpack_sound l s : bcd_unpack l = Some s ->
  all_digits s = true /\ Nat.even (length s) = true /\ bcd_pack s = l.
Proof.
  revert s. induction l as [|b r IH]; intros s H.
  - inversion H. repeat split; reflexivity.
  - cbn [bcd_unpack] in H. destruct ((bz b / 16 <=? 9) && (bz b mod 16 <=? 9)) eqn:E; [|discriminate].
    destruct (bcd_unpack r) as [t|] eqn:Et; [|discriminate].
    assert (Hs : s = zb (48 + bz b / 16) :: zb (48 + bz b mod 16) :: t) by congruence. subst s. clear H.
    destruct (IH t eq_refl) as (H1 & H2 & H3). pose proof (bz_range b).
    split; [|split].
    + unfold all_digits in *. cbn [forallb]. unfold is_digit at 1 2. rewrite !bz_zb by lia. rewrite H1. lia.
    + cbn [length]. rewrite Nat.even_succ_succ. exact H2.
    + cbn [bcd_pack]. rewrite !bz_zb by lia. rewrite H3. f_equal.
      replace ((48 + bz b / 16 - 48) * 16 + (48 + bz b mod 16 - 48)) with (bz b) by lia. apply zb_bz.
Qed.

(* BCD/LBCD: every accepted byte holds two decimal digits and the value is exactly those digits
   (minus the fill digit of an odd count) *)
Theorem bcd_decode_sound d n v r : enc_decode EncBCD d n = Ok (v, r) ->
  exists s, bcd_pack s = ztake r d /\ all_digits s = true /\ v = zdrop (2 * r - n) s /\ zlen v = n /\ r = (n + 1) / 2.
Proof.
  unfold enc_decode. destruct (n <? 0) eqn:En; [discriminate|].
  destruct (zlen d <? (n + 1) / 2) eqn:Es; [discriminate|].
  destruct (bcd_unpack (ztake ((n + 1) / 2) d)) as [s|] eqn:Eu; [|discriminate].
  intros H. inversion H; subst. destruct (bcd_unpack_sound _ _ Eu) as (H1 & H2 & H3).
  exists s. split; [exact H3|]. split; [exact H1|]. split; [f_equal; lia|]. split; [|reflexivity].
  pose proof (zlen_bcd_pack s H2) as HL. rewrite H3 in HL. rewrite zlen_ztake in HL by lia.
  rewrite zlen_zdrop by lia. lia.
Qed.

Theorem lbcd_decode_sound d n v r : enc_decode EncLBCD d n = Ok (v, r) ->
  exists s, bcd_pack s = ztake r d /\ all_digits s = true /\ v = ztake n s /\ zlen v = n /\ r = (n + 1) / 2.
Proof.
  unfold enc_decode. destruct (n <? 0) eqn:En; [discriminate|].
  destruct (zlen d <? (n + 1) / 2) eqn:Es; [discriminate|].
  destruct (bcd_unpack (ztake ((n + 1) / 2) d)) as [s|] eqn:Eu; [|discriminate].
  intros H. inversion H; subst. destruct (bcd_unpack_sound _ _ Eu) as (H1 & H2 & H3).
  exists s. split; [exact H3|]. split; [exact H1|]. split; [reflexivity|]. split; [|reflexivity].
  pose proof (zlen_bcd_pack s H2) as HL. rewrite H3 in HL. rewrite zlen_ztake in HL by lia.
  rewrite zlen_ztake by lia. reflexivity.
Qed.

Theorem ascii_decode_sound d n v r : enc_decode EncASCII d n = Ok (v, r) ->
  v = ztake n d /\ r = n /\ all_ascii v = true /\ zlen v = n.
Proof.
  unfold enc_decode. destruct (n <? 0) eqn:En; [discriminate|].
  destruct (zlen d <? n) eqn:Es; [discriminate|]. destruct (all_ascii (ztake n d)) eqn:Ea; [|discriminate].
  intros H. inversion H; subst. repeat split; try assumption. apply zlen_ztake. lia.
Qed.

Theorem bertag_decode_sound d n v r : enc_decode EncBerTag d n = Ok (v, r) ->
  ber_wf (ztake r d) = true /\ v = hex_encode_upper (ztake r d) /\ 1 <= r <= zlen d.
Proof.
  unfold enc_decode. destruct (ber_tag_len d) as [k|] eqn:E; [|discriminate]. intros H. inversion H; subst.
  destruct (ber_tag_len_sound _ _ E). repeat split; assumption || lia.
Qed.
