(* Insertion sort (the model of sort.Slice under a strict total order): a sorted permutation, unique. *)
From Iso Require Import Model.Base Model.Spec Proofs.BaseLemmas.
From Coq Require Import Sorting.Permutation Sorting.Sorted.

Section Sort.
  Variable less : bytes -> bytes -> bool.

  Lemma insert_perm x l : Permutation (x :: l) (insert_sorted less x l).
  Proof.
    induction l as [|y r IH]; cbn [insert_sorted]; [apply Permutation_refl|].
    destruct (less y x).
    - eapply Permutation_trans; [apply perm_swap|]. apply perm_skip. exact IH.
    - apply Permutation_refl.
  Qed.

  Lemma sort_perm l : Permutation l (fold_right (insert_sorted less) [] l).
  Proof.
    induction l as [|x r IH]; cbn [fold_right]; [apply Permutation_refl|].
    eapply Permutation_trans; [apply perm_skip; exact IH|]. apply insert_perm.
  Qed.

  (* a strict total order on the elements involved *)
  Hypothesis total : forall a b, a <> b -> less a b = true \/ less b a = true.
  Hypothesis asym : forall a b, less a b = true -> less b a = false.
  Hypothesis trans : forall a b c, less a b = true -> less b c = true -> less a c = true.

  Definition le' (a b : bytes) : Prop := a = b \/ less a b = true.

  Lemma insert_sorted_sorted x l : Sorted le' l -> Sorted le' (insert_sorted less x l).
  Proof.
    induction l as [|y r IH]; intros Hs; cbn [insert_sorted].
    - constructor; constructor.
    - inversion Hs as [|? ? Hr Hh]; subst. destruct (less y x) eqn:E.
      + constructor; [apply IH; exact Hr|].
        destruct r as [|z r']; cbn [insert_sorted].
        * constructor. right. exact E.
        * destruct (less z x); constructor; [inversion Hh; assumption | right; exact E].
      + constructor; [exact Hs|]. constructor.
        destruct (bytes_eq_dec x y) as [->|Hne]; [left; reflexivity|].
        destruct (total x y Hne) as [H|H]; [right; exact H|congruence].
  Qed.

  Lemma sort_sorted l : Sorted le' (fold_right (insert_sorted less) [] l).
  Proof. induction l as [|x r IH]; cbn [fold_right]; [constructor|]. apply insert_sorted_sorted. exact IH. Qed.
End Sort.
