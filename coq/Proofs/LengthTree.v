(* C08 for whole specification trees: when Pack of a field succeeds, the declared length was enforced at EVERY node of the
   tree that contributed bytes - the field itself and, recursively, every set subfield at every depth. About
   Model/Field.v. *)
From Iso Require Import Model.Base Model.Padding Model.Encoding Model.Prefix Model.Bitmap Model.Spec Model.Field
     Proofs.BaseLemmas Proofs.EncodingProofs Proofs.PrefixProofs Proofs.FieldProofs Proofs.CompositeLoops Proofs.CompositeProofs Proofs.CompositeAccept.
From Coq Require Import ZifyBool ZifyNat.
Set Default Timeout 120.

(* what "enforced" means at a node: the (padded) value of a primitive, or the concatenated body of a composite, has a
   length the node's prefixer does not have to refuse for the declared length (C08_must_fail_meaning spells that out:
   equal to a fixed length, at most a variable maximum and expressible in the prefix digits) *)
Fixpoint pack_enforced (s : fspec) : fstate -> Prop :=
  match s with
  | FPrim p => fun st => exists raw, prim_raw st = Ok raw /\
                 (zlen (pad (ps_pad p) raw (ps_len p)) <= max_int -> enc_must_fail (ps_pref p) (ps_len p) (zlen (pad (ps_pad p) raw (ps_len p))) = false)
  | FComp pref len mode subs => fun st =>
      match st with
      | SComp set sts =>
          (exists body, comp_bytes s st = Ok body /\ (zlen body <= max_int -> enc_must_fail pref len (zlen body) = false)) /\
          (fix go (l : list (bytes * fspec)) : Prop :=
             match l with
             | [] => True
             | (t, s') :: r => (bmem t set = true -> forall x, blookup t sts = Some x -> pack_enforced s' x) /\ go r
             end) subs
      | _ => False
      end
  end.

Theorem pack_enforces_tree s : coherent s -> forall st b, pack_f s st = Ok b -> pack_enforced s st.
Proof.
  induction s as [p|pref len mode subs IH] using fspec_ind'; intros Hc st b Hp.
  - cbn [coherent] in Hc. destruct Hc as (Hwf & _ & Hpk & _). cbn [pack_f] in Hp. cbn [pack_enforced].
    destruct (prim_pack_enforces p st b Hwf Hpk Hp) as (raw & Hr & Hn). exists raw. split; [exact Hr|exact Hn].
  - cbn [coherent] in Hc. destruct Hc as (Hwf & Hnd & _ & Hcs). pose proof (coherent_subs subs Hcs) as Hcs'.
    destruct st as [v|v|v|v|set sts]; try (cbn [pack_f] in Hp; discriminate).
    destruct (comp_pack_enforces pref len mode subs (SComp set sts) b Hwf Hp) as (body0 & _ & _).
    pose proof Hp as Hp0. rewrite pack_f_comp in Hp.
    destruct (comp_pack_body (gop subs) mode (ordered_tags mode subs) set sts) as [body| | |] eqn:Ebody; cbn [obind] in Hp; try discriminate.
    destruct (enc_len pref len (zlen body)) as [pre| | |] eqn:Ep; cbn [obind] in Hp; try discriminate.
    cbn [pack_enforced]. split.
    + exists body. split; [rewrite comp_bytes_comp; exact Ebody|]. intros Hm.
      assert (Hg : go_len (zlen body)) by (unfold go_len; pose proof (zlen_nonneg body); lia).
      destruct (pref_enc_fails_iff pref len (zlen body) Hwf Hg) as (Hok & _). rewrite Ep in Hok. cbn [is_ok] in Hok.
      destruct (enc_must_fail pref len (zlen body)); [discriminate|reflexivity].
    + apply in_dom_subs_intro. intros t s' Hi Hm x Hx.
      destruct (comp_pack_subs subs mode set sts body Ebody t s' x Hi Hnd Hm Hx) as (pb & Hpb & _).
      apply (IH t s' Hi (Hcs' t s' Hi) x pb Hpb).
Qed.

(* ---- messages ---- *)
From Iso Require Import Model.Message Proofs.StateProofs Proofs.MessageRoundtrip Proofs.MessageAccept2.
From Coq Require Import Sorting.Permutation.

(* when Pack of a message succeeds, the declared lengths were enforced in every populated data element, at every depth *)
Theorem message_pack_tree S m m' b : (forall id s, zlookup id (ms_fields S) = Some s -> coherent s) ->
  m_pack S m = (m', Ok b) ->
  forall id, 2 <= id -> zmem id (m_present m) = true -> bm_is_presence_bit (ms_bm S) id = false ->
    exists s st, zlookup id (ms_fields S) = Some s /\ zlookup id (m_fields m) = Some st /\ pack_enforced s st.
Proof.
  intros Hcoh Hp id H2 Hm Hpb. unfold m_pack in Hp. destruct (m_bitmap_content S m) as (_ & Hf & Hpres).
  destruct (set_bits (ms_bm S) (packable_ids (m_bitmap S m)) (bm_new (ms_bm S))) as [bm [u|e|q|]]; try (inversion Hp; fail).
  cbv zeta in Hp. assert (Hpk : pack_ids S (with_bm (m_bitmap S m) bm) bm (packable_ids (m_bitmap S m)) = Ok b) by (inversion Hp; reflexivity).
  assert (Hin : In id (packable_ids (m_bitmap S m))).
  { unfold packable_ids. apply (Permutation_in id (sort_z_is_perm _)). right. apply zmem_In. rewrite zmem_zremove by lia. rewrite Hpres by lia. exact Hm. }
  destruct (pack_ids_subs S _ bm _ b Hpk id Hin H2 Hpb) as (s & st & pb & Hs & Hst & Hpf & _).
  cbn [with_bm m_fields] in Hst. rewrite Hf in Hst. exists s, st. split; [exact Hs|]. split; [exact Hst|].
  apply (pack_enforces_tree s (Hcoh id s Hs) st pb Hpf).
Qed.
