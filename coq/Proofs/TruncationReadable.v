(* C19: the elements that precede the failing one stay readable. A packed message cut at offset o fails at the element
   k that owns byte o (TruncationProofs.message_truncated); here the object it was unpacked into is described: the MTI
   (when k >= 1) holds the packed message's MTI, and every data element j < k of the packed message is populated and
   holds a state equivalent to the one that was packed. About Model/Message.v. *)
From Iso Require Import Model.Base Model.Padding Model.Encoding Gen.EbcdicTables Model.Prefix Model.Bitmap Model.Spec Model.Field Model.Message
     Proofs.BaseLemmas Proofs.PaddingProofs Proofs.EncodingProofs Proofs.DigitsProofs Proofs.PrefixProofs Proofs.FieldProofs
     Proofs.BitmapProofs Proofs.CompositeProofs Proofs.StateProofs Proofs.MessageRoundtrip Proofs.TruncationProofs.
From Coq Require Import ZifyBool ZifyNat ZifyN Sorting.Sorted.
Set Default Timeout 120.
Ltac Zify.zify_post_hook ::= Z.div_mod_to_equations.

Section Fields.
  Variable S : mspec.
  Variable bm : bytes.
  Variable m : mstate.
  Let N := zlen bm * 8.

  (* the elements l1 unpack, then element k - whose bytes are cut - fails: the failure is reported against k *)
  Lemma unpack_fields_cut_r : forall fuel i l1 body k sk junk,
    i + Z.of_nat fuel = N + 1 -> 2 <= i ->
    StronglySorted Z.lt (l1 ++ [k]) ->
    (forall id, In id l1 -> i <= id <= N /\ bm_isset bm id = true /\ bm_is_presence_bit (ms_bm S) id = false /\
                            exists s st, zlookup id (ms_fields S) = Some s /\ zlookup id (m_fields m) = Some st /\ coherent s /\ in_dom s st) ->
    i <= k <= N -> bm_isset bm k = true -> bm_is_presence_bit (ms_bm S) k = false -> zlookup k (ms_fields S) = Some sk ->
    (forall j, i <= j < k -> bm_isset bm j = true -> bm_is_presence_bit (ms_bm S) j = false -> In j l1) ->
    pack_ids S m bm l1 = Ok body ->
    (forall st0, shaped sk st0 -> exists e, unpack_f sk st0 junk = (st0, UErr [] e)) ->
    forall src off pre present fields, src = pre ++ body ++ junk -> off = zlen pre ->
    (forall id s, zlookup id (ms_fields S) = Some s -> exists st, zlookup id fields = Some st /\ shaped s st) ->
    exists p' f' e, unpack_fields fuel S bm i src off present fields = ((p', f'), UErr [itoa k] e) /\
      (forall id, zmem id present = true -> zmem id p' = true) /\
      (forall j, j < i -> zlookup j f' = zlookup j fields) /\
      (forall id, In id l1 -> zmem id p' = true /\ exists s st st', zlookup id (ms_fields S) = Some s /\ zlookup id (m_fields m) = Some st /\
                                                                  zlookup id f' = Some st' /\ equiv s st st').
  Proof.
    induction fuel as [|f IH]; intros i l1 body k sk junk Hi Hi2 Hsorted Hl Hk Hkset Hkpb Hsk Hall Hp Hfail src off pre present fields Hsrc Hoff Hshp; [lia|].
    cbn [unpack_fields].
    destruct (bm_is_presence_bit (ms_bm S) i) eqn:Epb.
    - assert (Hni : ~ In i l1) by (intros Hin; destruct (Hl i Hin) as (_ & _ & Hf & _); congruence).
      assert (i <> k) by (intros ->; congruence).
      destruct (IH (i + 1) l1 body k sk junk) with (src := src) (off := off) (pre := pre) (present := present) (fields := fields) as (p' & f' & e & Hu & Hq1 & Hq2 & Hq3); try assumption; try lia.
      + intros id Hid. destruct (Hl id Hid) as (Hr & Hrest). split; [|exact Hrest]. assert (id <> i) by (intros ->; contradiction). lia.
      + intros j Hj Hs Hpb. apply Hall; [lia|assumption|assumption].
      + exists p', f', e. split; [exact Hu|]. split; [exact Hq1|]. split; [intros j Hj; apply Hq2; lia|exact Hq3].
    - destruct (bm_isset bm i) eqn:Eset.
      + destruct (Z.eq_dec i k) as [->|Hne].
        * (* the cut element *)
          assert (l1 = []).
          { destruct l1 as [|h t]; [reflexivity|exfalso]. destruct (Hl h (or_introl eq_refl)) as (Hr & _). cbn [app] in Hsorted.
            apply StronglySorted_inv in Hsorted. destruct Hsorted as (_ & Hlt). rewrite Forall_forall in Hlt. specialize (Hlt k ltac:(apply in_or_app; right; left; reflexivity)). lia. }
          subst l1. cbn [pack_ids] in Hp. assert (body = []) by congruence. subst body. cbn [app] in Hsrc.
          rewrite Hsk. destruct (Hshp k sk Hsk) as (st0 & Hst0 & Hsh0). rewrite Hst0.
          replace (zdrop off src) with junk by (subst src; symmetry; apply zdrop_app2; exact Hoff).
          destruct (Hfail st0 Hsh0) as (e & Hu). rewrite Hu. exists present, (zupdate k st0 fields), e. split; [reflexivity|]. split; [intros id Hid; exact Hid|].
          split; [intros j Hj; apply zlookup_zupdate_other; lia|intros id []].
        * assert (Hin : In i l1) by (apply Hall; [lia|assumption|assumption]).
          destruct l1 as [|h l']; [destruct Hin|]. cbn [app] in Hsorted. apply StronglySorted_inv in Hsorted. destruct Hsorted as (Hs' & Hlt). rewrite Forall_forall in Hlt.
          assert (h = i).
          { destruct Hin as [Hh|Hin]; [exact Hh|]. specialize (Hlt i ltac:(apply in_or_app; left; exact Hin)). destruct (Hl h (or_introl eq_refl)) as (Hr & _). lia. }
          subst h. destruct (Hl i (or_introl eq_refl)) as (Hr & _ & _ & s & st & Hs & Hst & Hcoh & Hdom).
          cbn [pack_ids] in Hp. rewrite Epb in Hp. rewrite Bool.andb_false_r in Hp.
          replace (i =? 0) with false in Hp by lia. replace (i =? 1) with false in Hp by lia. rewrite Hs, Hst in Hp.
          destruct (pack_f s st) as [pf| | |] eqn:Epf; cbn [obind] in Hp; try discriminate.
          destruct (pack_ids S m bm l') as [more| | |] eqn:Emore; cbn [obind] in Hp; try discriminate.
          assert (body = pf ++ more) by congruence. subst body. clear Hp.
          rewrite Hs. destruct (Hshp i s Hs) as (st0 & Hst0 & Hsh0). rewrite Hst0.
          replace (zdrop off src) with (pf ++ more ++ junk) by (subst src; rewrite <- app_assoc; symmetry; apply zdrop_app2; exact Hoff).
          destruct (field_roundtrip s Hcoh st pf Hdom Epf st0 (more ++ junk) Hsh0) as (st' & Hun & Heq & Hpk' & Hsh').
          rewrite Hun.
          destruct (IH (i + 1) l' more k sk junk) with (src := src) (off := off + zlen pf) (pre := pre ++ pf) (present := zadd i present) (fields := zupdate i st' fields)
            as (p' & f' & e & Hu & Hq1 & Hq2 & Hq3); try assumption; try lia.
          -- intros id Hid. destruct (Hl id (or_intror Hid)) as (Hr' & Hrest). specialize (Hlt id ltac:(apply in_or_app; left; exact Hid)). split; [lia|exact Hrest].
          -- intros j Hj Hsj Hpj. destruct (Hall j ltac:(lia) Hsj Hpj) as [Hh|Hh]; [lia|exact Hh].
          -- subst src. rewrite <- !app_assoc. reflexivity.
          -- subst off. zlens. lia.
          -- intros id s0 Hs0. destruct (Z.eq_dec id i) as [->|Hne2].
             ++ rewrite zlookup_zupdate_same by (exists st0; exact Hst0). exists st'. split; [reflexivity|]. assert (s0 = s) by congruence. subst. exact Hsh'.
             ++ rewrite zlookup_zupdate_other by lia. apply Hshp. exact Hs0.
          -- exists p', f', e. split; [exact Hu|]. split; [intros id Hid; apply Hq1; rewrite zmem_zadd, Hid; apply Bool.orb_true_r|].
             split; [intros j Hj; rewrite Hq2 by lia; apply zlookup_zupdate_other; lia|].
             intros id [<-|Hid]; [|apply Hq3; exact Hid].
             split; [apply Hq1; rewrite zmem_zadd, Z.eqb_refl; reflexivity|]. exists s, st, st'. split; [exact Hs|]. split; [exact Hst|]. split; [|exact Heq].
             rewrite Hq2 by lia. apply zlookup_zupdate_same. exists st0. exact Hst0.
      + assert (Hni : ~ In i l1) by (intros Hin; destruct (Hl i Hin) as (_ & Hf & _); congruence).
        assert (i <> k) by (intros ->; congruence).
        destruct (IH (i + 1) l1 body k sk junk) with (src := src) (off := off) (pre := pre) (present := present) (fields := fields) as (p' & f' & e & Hu & Hq1 & Hq2 & Hq3); try assumption; try lia.
        * intros id Hid. destruct (Hl id Hid) as (Hr & Hrest). split; [|exact Hrest]. assert (id <> i) by (intros ->; contradiction). lia.
        * intros j Hj Hs Hpb. apply Hall; [lia|assumption|assumption].
        * exists p', f', e. split; [exact Hu|]. split; [exact Hq1|]. split; [intros j Hj; apply Hq2; lia|exact Hq3].
  Qed.
End Fields.

(* what the object holds after the failure at element k *)
Definition readable (S : mspec) (m' r : mstate) (k : Z) : Prop :=
  (1 <= k -> m_mti r = m_mti m' /\ zmem 0 (m_present r) = true) /\
  (forall j, 2 <= j < k -> zmem j (m_present m') = true ->
     zmem j (m_present r) = true /\ exists s st st', zlookup j (ms_fields S) = Some s /\ zlookup j (m_fields m') = Some st /\ zlookup j (m_fields r) = Some st' /\ equiv s st st').

Theorem message_truncated_readable S m m' b : msg_coherent S -> msg_in_dom S m -> m_pack S m = (m', Ok b) ->
  forall m0 o, msg_shaped S m0 -> 0 <= o < zlen b ->
    exists k e, snd (m_unpack S m0 (ztake o b)) = UErr [itoa k] e /\ owns S m' b o k /\ readable S m' (fst (m_unpack S m0 (ztake o b))) k.
Proof.
  intros (Hmti & HB & He & (f & Hpf) & Hcoh) (Hnd & H0 & Hmtidom & Hdom) Hp m0 o Hsh Ho.
  destruct (packed_bitmap_facts S m m' b f HB He Hpf Hp) as (Hagree & Hbmrt & Hbmlen).
  pose proof (packed_bitmap_cut S m m' b f HB He Hpf Hp) as Hbmcut.
  unfold m_pack in Hp. destruct (m_bitmap_content S m) as (Hb1 & Hb2 & Hb3).
  set (mb := m_bitmap S m) in *.
  destruct (set_bits (ms_bm S) (packable_ids mb) (bm_new (ms_bm S))) as [bm [u|e|p|]] eqn:Es; try (inversion Hp; fail).
  destruct u. cbv zeta in Hp. injection Hp as Hm' Hpk. subst m'. cbn [with_bm m_bm] in Hagree, Hbmrt, Hbmlen, Hbmcut.
  assert (Hndb : NoDup (m_present mb)) by (unfold mb, m_bitmap; destruct (m_bmcached m); [exact Hnd|cbn; apply NoDup_zadd; exact Hnd]).
  assert (H0b : zmem 0 (m_present mb) = true) by (rewrite Hb3 by lia; exact H0).
  assert (Hposb : forall id, zmem id (m_present mb) = true -> 0 <= id).
  { intros id Hm. destruct (Z.eq_dec id 1) as [->|Hne]; [lia|]. rewrite Hb3 in Hm by exact Hne. destruct (Hdom id Hm) as [->|[->|(H2 & _)]]; lia. }
  destruct (packable_ids_shape (m_present mb) Hndb H0b Hposb) as (l & Hids & Hsorted & Hl).
  unfold packable_ids in *. rewrite Hids in *.
  rewrite pack_ids_01 in Hpk.
  destruct (pack_f (FPrim (ms_mti S)) (m_mti (with_bm mb bm))) as [mtib| | |] eqn:Emti; cbn [obind] in Hpk; try discriminate.
  destruct (bm_pack (ms_bm S) bm) as [bmb| | |] eqn:Ebm; cbn [obind] in Hpk; try discriminate.
  destruct (pack_ids S (with_bm mb bm) bm l) as [body| | |] eqn:Ebody; cbn [obind] in Hpk; try discriminate.
  assert (b = mtib ++ bmb ++ body) by congruence. subst b. clear Hpk.
  pose proof Emti as Emti0.
  cbn [with_bm m_mti] in Emti. rewrite Hb1 in Emti. cbn [pack_f] in Emti.
  pose proof (zlen_nonneg mtib). pose proof (zlen_nonneg bmb). pose proof (zlen_nonneg body). rewrite !zlen_app in Ho.
  unfold m_unpack. cbv zeta. set (m0r := with_failed (with_fields m0 (reset_fields S (m_failed m0) (m_present m0) (m_fields m0))) []).
  set (m1 := with_bm (m_bitmap S (with_present m0r [])) (bm_new (ms_bm S))).
  cbn [unpack_f].
  destruct (Z_lt_ge_dec o (zlen mtib)) as [Hlt|Hge].
  { (* inside the MTI *)
    rewrite ztake_app_le by lia.
    destruct (prim_truncated (ms_mti S) (m_mti m) mtib o (m_mti m1) Hmti Hmtidom Emti ltac:(lia)) as (e & Hu). rewrite Hu.
    exists 0, e. split; [reflexivity|]. split; [|split; [intros Hk1; lia|intros j Hj; lia]].
    exists [], mtib, (bmb ++ body). split; [reflexivity|]. split; [rewrite zlen_nil; lia|].
    change (0 =? 0) with true. cbv iota. split; [reflexivity|exact Emti0]. }
  rewrite ztake_app_ge by lia.
  rewrite (prim_roundtrip (ms_mti S) (m_mti m) mtib Hmti Hmtidom Emti (m_mti m1) (ztake (o - zlen mtib) (bmb ++ body))).
  cbn [with_present with_mti m_bm m_present m_fields]. rewrite zdrop_app.
  replace (m_bm m1) with (bm_new (ms_bm S)) by reflexivity.
  destruct (Z_lt_ge_dec (o - zlen mtib) (zlen bmb)) as [Hlt2|Hge2].
  { (* inside the bitmap *)
    rewrite ztake_app_le by lia.
    pose proof (Hbmcut bmb (o - zlen mtib) (bm_new (ms_bm S)) eq_refl ltac:(lia)) as Hr.
    destruct (bm_unpack (ms_bm S) (bm_new (ms_bm S)) (ztake (o - zlen mtib) bmb)) as [bm2 [x|e| |]]; cbn [snd is_err] in Hr; try discriminate.
    exists 1, e. split; [reflexivity|]. split; [|split; [intros _; cbn [fst with_bm with_present with_mti m_mti m_present]; split; [symmetry; exact Hb1|rewrite zmem_zadd; reflexivity]|intros j Hj; lia]].
    exists mtib, bmb, body. split; [reflexivity|]. split; [lia|].
    change (1 =? 0) with false. change (1 =? 1) with true. cbv iota. split; [exact Emti0|exact Ebm]. }
  rewrite ztake_app_ge by lia.
  rewrite (Hbmrt bmb (ztake (o - zlen mtib - zlen bmb) body) (bm_new (ms_bm S)) eq_refl).
  cbn [with_bm with_present m_present m_fields m_mti m_bm m_bmcached].
  assert (Hm1f : m_fields m1 = reset_fields S (m_failed m0) (m_present m0) (m_fields m0)) by (unfold m1, m_bitmap; destruct (m_bmcached (with_present m0r [])); reflexivity).
  assert (HN : 8 <= zlen bm * 8) by lia.
  set (o' := o - zlen mtib - zlen bmb).
  assert (Hl2 : forall id, In id l -> 2 <= id) by (intros id Hid; apply Hl in Hid; tauto).
  destruct (pack_ids_owner S (with_bm mb bm) bm l body o' Hl2 Ebody ltac:(unfold o'; lia)) as (l1 & k & l2 & b1 & pk & b2 & sk & stk & Hlk & Hb1' & Hkpb & Hsk & Hstk & Hpkk & Hbody & Hok).
  pose proof (zlen_nonneg b1). pose proof (zlen_nonneg pk).
  assert (Hkin : In k l) by (rewrite Hlk; apply in_or_app; right; left; reflexivity).
  assert (Hkm : 2 <= k /\ zmem k (m_present mb) = true) by (apply Hl; exact Hkin).
  assert (Hidfacts : forall id, In id l -> 2 <= id <= zlen bm * 8 /\ bm_isset bm id = true /\ bm_is_presence_bit (ms_bm S) id = false /\
                     exists s st, zlookup id (ms_fields S) = Some s /\ zlookup id (m_fields (with_bm mb bm)) = Some st /\ coherent s /\ in_dom s st).
  { intros id Hid. apply Hl in Hid. destruct Hid as (Hid2 & Hm). destruct (Z.eq_dec id 1) as [->|Hne]; [lia|]. rewrite Hb3 in Hm by exact Hne.
    destruct (Hdom id Hm) as [->|[->|(_ & Hpb & s & st & Hs & Hst & Hd)]]; try lia.
    assert (Hset : bm_isset bm id = true) by (rewrite <- Hm; apply (Hagree id Hid2 Hpb)).
    split; [|split; [exact Hset|split; [exact Hpb|]]].
    + split; [lia|]. destruct (Z_le_gt_dec id (zlen bm * 8)) as [Hle|Hgt]; [exact Hle|]. rewrite isset_out in Hset by lia. discriminate.
    + exists s, st. cbn [with_bm m_fields]. rewrite Hb2. repeat split; try assumption. apply (Hcoh id s Hs). }
  destruct (Hidfacts k Hkin) as (Hkr & Hkset & _ & s' & st' & Hs' & Hst' & Hcohk & Hdomk).
  assert (s' = sk) by congruence. assert (st' = stk) by congruence. subst s' st'.
  assert (Hsorted1 : StronglySorted Z.lt (l1 ++ [k])).
  { rewrite Hlk in Hsorted. clear -Hsorted. induction l1 as [|h t IH]; cbn [app] in *.
    - constructor; [constructor|constructor].
    - apply StronglySorted_inv in Hsorted. destruct Hsorted as (Hs & Hf). constructor; [apply IH; exact Hs|].
      rewrite Forall_forall in *. intros x Hx. apply Hf. apply in_app_or in Hx. apply in_or_app. destruct Hx as [Hx|[<-|[]]]; [left; exact Hx|right; left; reflexivity]. }
  assert (Hafter : forall j, In j l2 -> k < j).
  { rewrite Hlk in Hsorted. clear -Hsorted. induction l1 as [|h t IH]; cbn [app] in *.
    - apply StronglySorted_inv in Hsorted. destruct Hsorted as (_ & Hf). rewrite Forall_forall in Hf. exact Hf.
    - apply StronglySorted_inv in Hsorted. destruct Hsorted as (Hs & _). apply IH. exact Hs. }
  assert (Hjunk : ztake o' body = b1 ++ ztake (o' - zlen b1) pk).
  { rewrite Hbody. rewrite ztake_app_ge by lia. f_equal. apply ztake_app_le. lia. }
  destruct (unpack_fields_cut_r S bm (with_bm mb bm) (Z.to_nat (zlen bm * 8 - 1)) 2 l1 b1 k sk (ztake (o' - zlen b1) pk)) with
    (src := mtib ++ bmb ++ ztake o' body) (off := zlen mtib + zlen bmb) (pre := mtib ++ bmb)
    (present := zadd 1 (zadd 0 (m_present m1))) (fields := m_fields m1) as (p' & f' & e & Hun & Hq1 & Hq2 & Hq3).
  - lia.
  - lia.
  - exact Hsorted1.
  - intros id Hid. apply Hidfacts. rewrite Hlk. apply in_or_app. left. exact Hid.
  - lia.
  - exact Hkset.
  - exact Hkpb.
  - exact Hsk.
  - intros j Hj Hsj Hpj. assert (Hjl : In j l). { apply Hl. split; [lia|]. rewrite Hb3 by lia. rewrite <- (Hagree j ltac:(lia) Hpj). exact Hsj. }
    rewrite Hlk in Hjl. apply in_app_or in Hjl. destruct Hjl as [Hj1|[<-|Hj2]]; [exact Hj1|lia|]. specialize (Hafter j Hj2). lia.
  - exact Hb1'.
  - intros st0 Hsh0. apply (field_truncated sk stk pk (o' - zlen b1) st0 Hcohk Hdomk Hpkk ltac:(lia) Hsh0).
  - rewrite Hjunk, <- !app_assoc. reflexivity.
  - zlens. lia.
  - rewrite Hm1f. intros id s Hs. destruct (Hsh id s Hs) as (st & Hst & Hshaped). rewrite zlookup_reset, Hst. eexists. split; [reflexivity|].
    destruct (zmem id (m_present m0) || bytes_eqb (itoa id) (m_failed m0)); [|exact Hshaped]. rewrite Hs. apply fresh_shaped. apply (Hcoh id s Hs).
  - change (m_fields (with_mti m1 (m_mti m))) with (m_fields m1).
    rewrite Hun. exists k, e. split; [reflexivity|]. split; [|split].
    2: { intros _. cbn [fst with_failed with_fields with_present with_bm with_mti m_mti m_present]. split; [symmetry; exact Hb1|].
         apply Hq1. rewrite !zmem_zadd. reflexivity. }
    2: { intros j Hj Hjm. cbn [fst with_failed with_fields with_present with_bm with_mti m_fields m_present] in *.
         assert (Hjl : In j l) by (apply Hl; split; [lia|exact Hjm]).
         rewrite Hlk in Hjl. apply in_app_or in Hjl. destruct Hjl as [Hj1|[<-|Hj2]]; [|lia|specialize (Hafter j Hj2); lia].
         apply Hq3. exact Hj1. }
    exists (mtib ++ bmb ++ b1), pk, b2. split; [rewrite Hbody, <- !app_assoc; reflexivity|]. split; [zlens; unfold o' in *; lia|].
    replace (k =? 0) with false by lia. replace (k =? 1) with false by lia. split; [tauto|]. exists sk, stk. repeat split; assumption.
Qed.
