(* C12: the decode round trip on the level of parsed documents. The document of a field state (doc_of) is what the
   emitted text (json_field) denotes - json_field renders it - and UnmarshalJSON of that document into a new field of
   the same specification gives the state back. About Model/Json.v and Model/MessageOps.v. *)
From Coq Require Import Strings.String.
From Iso Require Import Model.Base Model.Sexp Model.Padding Model.Encoding Model.Prefix Model.Bitmap Model.Spec Model.Field Model.Message Model.Json Model.MessageOps
     Proofs.BaseLemmas Proofs.EncodingProofs Proofs.FieldProofs Proofs.CompositeLoops Proofs.CompositeProofs Proofs.StateProofs Proofs.MessageRoundtrip Proofs.JsonProofs.
From Coq Require Import ZifyBool ZifyNat ZifyN.
Set Default Timeout 120.

(* the parsed document of a field state *)
Fixpoint doc_of (st : fstate) : jdoc :=
  match st with
  | SString v => JS v
  | SNumeric z => JN z
  | SBinary v => JS (hex_encode_upper v)
  | SHex v => JS v
  | SComp set sts => JO ((fix go (l : list (bytes * fstate)) : list (bytes * jdoc) :=
                            match l with [] => [] | (t, st') :: r => if bmem t set then (t, doc_of st') :: go r else go r end) sts)
  end.
Fixpoint docs (set : list bytes) (l : list (bytes * fstate)) : list (bytes * jdoc) :=
  match l with [] => [] | (t, st') :: r => if bmem t set then (t, doc_of st') :: docs set r else docs set r end.
Lemma doc_of_comp set sts : doc_of (SComp set sts) = JO (docs set sts).
Proof. cbn [doc_of]. f_equal. induction sts as [|(t, st') r IH]; [reflexivity|]. cbn [docs]. rewrite IH. reflexivity. Qed.

(* the emitted text is the rendering of that document: strings escaped, integers in decimal, objects with their keys
   in numeric order *)
Fixpoint render (d : jdoc) : bytes :=
  match d with
  | JS v => json_string v
  | JN z => itoa z
  | JO kvs => json_object ((fix go (l : list (bytes * jdoc)) : list (bytes * bytes) :=
                              match l with [] => [] | (k, d') :: r => (k, render d') :: go r end) kvs)
  | JB b => if b then J "true"%string else J "false"%string
  | JNull => J "null"%string
  end.

Theorem json_field_renders st : json_field st = render (doc_of st).
Proof.
  induction st as [v|v|v|v|set sts IH] using fstate_ind'; try reflexivity.
  rewrite doc_of_comp. cbn [json_field render]. f_equal.
  induction sts as [|(t, st') r IHr]; [reflexivity|]. cbn [docs]. destruct (bmem t set).
  - rewrite (IH t st' (or_introl eq_refl)), IHr by (intros t0 s0 Hi; apply (IH t0 s0); right; exact Hi). reflexivity.
  - apply IHr. intros t0 s0 Hi. apply (IH t0 s0). right. exact Hi.
Qed.

(* ---- the decoder's loop over the members of an object ---- *)
Fixpoint jloop (subs : list (bytes * fspec)) (mode : cmode) (kvs : list (bytes * jdoc)) (set : list bytes) (sts : list (bytes * fstate)) : fstate * outcome unit :=
  match kvs with
  | [] => (SComp set sts, Ok tt)
  | (tag, d') :: r =>
      match blookup tag subs, blookup tag sts with
      | Some s', Some st' =>
          match json_into s' st' d' with
          | (st'', Ok _) => jloop subs mode r (badd tag set) (bupdate tag st'' sts)
          | (st'', o) => (SComp set (bupdate tag st'' sts), o)
          end
      | _, _ =>
          let skip := match mode with CTag t => skip_unknown t | CBitmap _ => false end in
          if skip then jloop subs mode r set sts else (SComp set sts, Err (E "json.undefined_subfield"))
      end
  end.
Lemma json_into_comp pref len mode subs set sts kvs :
  json_into (FComp pref len mode subs) (SComp set sts) (JO kvs) = jloop subs mode kvs set sts.
Proof.
  cbn [json_into]. revert set sts. induction kvs as [|(tag, d') r IH]; intros set sts; [reflexivity|]. cbn [jloop].
  destruct (blookup tag subs) as [s'|]; [destruct (blookup tag sts) as [st'|]|].
  - destruct (json_into s' st' d') as [st'' [u|e|q|]]; try reflexivity. apply IH.
  - destruct (match mode with CTag t => skip_unknown t | CBitmap _ => false end); [apply IH|reflexivity].
  - destruct (match mode with CTag t => skip_unknown t | CBitmap _ => false end); [apply IH|reflexivity].
Qed.

(* ---- the round trip ---- *)
(* states with a document: values of the field's kind (integers in the int range), composites whose set subfields
   have a state and a specification *)
Fixpoint jdom (s : fspec) : fstate -> Prop :=
  match s with
  | FPrim p => fun st =>
      match ps_kind p, st with
      | KString, SString _ => True
      | KNumeric, SNumeric z => - two63 <= z < two63
      | KBinary, SBinary _ => True
      | KHex, SHex _ => True
      | _, _ => False
      end
  | FComp _ _ _ subs => fun st =>
      match st with
      | SComp set sts =>
          NoDup (map fst sts) /\
          (forall t, bmem t set = true -> In t (map fst sts) /\ In t (map fst subs)) /\
          (fix go (l : list (bytes * fspec)) : Prop :=
             match l with
             | [] => True
             | (t, s') :: r => (bmem t set = true -> forall x, blookup t sts = Some x -> jdom s' x) /\ go r
             end) subs
      | _ => False
      end
  end.

Fixpoint nodup_spec (s : fspec) : Prop :=
  match s with
  | FPrim _ => True
  | FComp _ _ _ subs => NoDup (map fst subs) /\
      (fix go (l : list (bytes * fspec)) : Prop := match l with [] => True | (_, s') :: r => nodup_spec s' /\ go r end) subs
  end.

Lemma jdom_subs set sts subs : (fix go (l : list (bytes * fspec)) : Prop :=
     match l with [] => True | (t, s') :: r => (bmem t set = true -> forall x, blookup t sts = Some x -> jdom s' x) /\ go r end) subs ->
  forall t s', In (t, s') subs -> bmem t set = true -> forall x, blookup t sts = Some x -> jdom s' x.
Proof.
  induction subs as [|(t0, s0) r IH]; intros H t s' Hi; [destruct Hi|]. destruct H as (H1 & H2). destruct Hi as [E|Hi]; [inversion E; subst; exact H1|apply IH; assumption].
Qed.
Lemma nodup_subs subs : (fix go (l : list (bytes * fspec)) : Prop := match l with [] => True | (_, s') :: r => nodup_spec s' /\ go r end) subs ->
  forall t s', In (t, s') subs -> nodup_spec s'.
Proof.
  induction subs as [|(t0, s0) r IH]; intros H t s' Hi; [destruct Hi|]. destruct H as (H1 & H2). destruct Hi as [E|Hi]; [inversion E; subst; exact H1|apply (IH H2 t); assumption].
Qed.

Definition rt_json (s : fspec) : Prop :=
  nodup_spec s -> forall st, jdom s st -> exists st', json_into s (fresh s) (doc_of st) = (st', Ok tt) /\ equiv s st st'.

(* the loop over the members of the document of (set, sts) *)
Lemma jloop_docs subs mode set : NoDup (map fst subs) -> (forall t s', In (t, s') subs -> rt_json s') -> (forall t s', In (t, s') subs -> nodup_spec s') ->
  forall l sa sta, NoDup (map fst l) ->
    (forall t x, In (t, x) l -> bmem t set = true -> exists s', blookup t subs = Some s' /\ jdom s' x /\ blookup t sta = Some (fresh s')) ->
    exists set' sts', jloop subs mode (docs set l) sa sta = (SComp set' sts', Ok tt) /\
      (forall t, bmem t set' = bmem t sa || (bmem t set && bmem t (map fst l))) /\
      (forall t x, In (t, x) l -> bmem t set = true -> exists s' y, blookup t subs = Some s' /\ blookup t sts' = Some y /\ equiv s' x y) /\
      (forall t, ~ In t (map fst l) -> blookup t sts' = blookup t sta).
Proof.
  intros Hnd Hrt Hns. induction l as [|(t0, x0) r IH]; intros sa sta Hndl Hl.
  - exists sa, sta. split; [reflexivity|]. split; [intros t; cbn; rewrite Bool.andb_false_r, Bool.orb_false_r; reflexivity|]. split; [intros t x []|reflexivity].
  - cbn [map fst] in Hndl. apply NoDup_cons_iff in Hndl. destruct Hndl as (Hnot & Hndr). cbn [docs]. destruct (bmem t0 set) eqn:Em.
    + destruct (Hl t0 x0 (or_introl eq_refl) Em) as (s' & Hs' & Hd & Hst). cbn [jloop]. rewrite Hs', Hst.
      pose proof (blookup_In _ _ _ Hs') as Hin.
      destruct (Hrt t0 s' Hin (Hns t0 s' Hin) x0 Hd) as (y0 & Hj & Heq). rewrite Hj.
      destruct (IH (badd t0 sa) (bupdate t0 y0 sta) Hndr) as (set' & sts' & Hgo & Hb & He & Ho).
      { intros t x Hi Hm. destruct (Hl t x (or_intror Hi) Hm) as (s2 & Hs2 & Hd2 & Hst2). exists s2. split; [exact Hs2|]. split; [exact Hd2|].
        rewrite blookup_bupdate_other; [exact Hst2|]. intros ->. apply Hnot. apply in_map_iff. exists (t, x). split; [reflexivity|exact Hi]. }
      exists set', sts'. split; [exact Hgo|]. split; [|split].
      * intros t. rewrite Hb, bmem_badd. cbn [map fst bmem existsb]. fold (bmem t (map fst r)).
        destruct (bytes_eqb t t0) eqn:E; [apply bytes_eqb_eq in E; subst t; rewrite Em; cbn; rewrite Bool.orb_true_r; reflexivity|].
        destruct (bmem t sa), (bmem t set), (bmem t (map fst r)); reflexivity.
      * intros t x [E|Hi] Hm.
        -- inversion E; subst t x. exists s', y0. split; [exact Hs'|]. split; [|exact Heq]. rewrite (Ho t0 Hnot). apply blookup_bupdate_same. eexists. exact Hst.
        -- apply He; assumption.
      * intros t Hn. rewrite Ho by (intros Hi; apply Hn; right; exact Hi). apply blookup_bupdate_other. intros ->. apply Hn. left. reflexivity.
    + destruct (IH sa sta Hndr) as (set' & sts' & Hgo & Hb & He & Ho).
      { intros t x Hi Hm. apply (Hl t x (or_intror Hi) Hm). }
      exists set', sts'. split; [exact Hgo|]. split; [|split].
      * intros t. rewrite Hb. cbn [map fst bmem existsb]. fold (bmem t (map fst r)).
        destruct (bytes_eqb t t0) eqn:E; [apply bytes_eqb_eq in E; subst t; rewrite Em; cbn; reflexivity|]. reflexivity.
      * intros t x [E|Hi] Hm; [inversion E; subst; congruence|apply He; assumption].
      * intros t Hn. apply Ho. intros Hi. apply Hn. right. exact Hi.
Qed.

Theorem json_doc_roundtrip s : rt_json s.
Proof.
  induction s as [p|pref len mode subs IH] using fspec_ind'.
  - intros _ st Hd. cbn [jdom] in Hd. cbn [equiv]. destruct (ps_kind p) eqn:Ek; destruct st; try contradiction; cbn [doc_of json_into]; rewrite Ek.
    + eexists. split; reflexivity.
    + replace ((- two63 <=? v) && (v <? two63)) with true by lia. eexists. split; reflexivity.
    + rewrite hex_decode_encode. eexists. split; reflexivity.
    + eexists. split; reflexivity.
  - intros (Hnd & Hns) st Hd. destruct st as [v|v|v|v|set sts]; try contradiction. cbn [jdom] in Hd. destruct Hd as (Hndk & Hset & Hsub).
    rewrite doc_of_comp. cbn [fresh]. fold (gof subs). rewrite json_into_comp.
    destruct (jloop_docs subs mode set Hnd (fun t s' Hi => IH t s' Hi) (nodup_subs subs Hns) sts [] (gof subs) Hndk) as (set' & sts' & Hgo & Hb & He & _).
    { intros t x Hi Hm. destruct (Hset t Hm) as (_ & Hts). apply in_map_iff in Hts. destruct Hts as ((t1, s') & Ht1 & Hi1). cbn [fst] in Ht1. subst t1.
      exists s'. split; [apply (In_blookup_nodup t s' subs Hnd Hi1)|]. split.
      - apply (jdom_subs set sts subs Hsub t s' Hi1 Hm). apply (In_blookup_nodup t x sts Hndk Hi).
      - rewrite blookup_gof, (In_blookup_nodup t s' subs Hnd Hi1). reflexivity. }
    exists (SComp set' sts'). split; [exact Hgo|]. cbn [equiv]. split.
    + intros tag. rewrite Hb. cbn [bmem existsb orb]. destruct (bmem tag set) eqn:Em; [|reflexivity]. cbn [andb]. symmetry. apply bmem_In. apply (Hset tag Em).
    + apply equiv_subs. intros t s' Hi Hm. destruct (Hset t Hm) as (Hts & _). apply in_map_iff in Hts. destruct Hts as ((t1, x) & Ht1 & Hix). cbn [fst] in Ht1. subst t1.
      destruct (He t x Hix Hm) as (s2 & y & Hs2 & Hy & Heq). assert (s2 = s') by (rewrite (In_blookup_nodup t s' subs Hnd Hi) in Hs2; congruence). subst s2.
      exists x, y. split; [apply (In_blookup_nodup t x sts Hndk Hix)|]. split; [exact Hy|exact Heq].
Qed.

(* ---------------- messages ---------------- *)
Definition mdoc (m : mstate) : list (bytes * jdoc) :=
  map (fun id => (itoa id,
                  if id =? 0 then doc_of (m_mti m)
                  else if id =? 1 then JS (hex_encode_upper (m_bm m))
                  else match zlookup id (m_fields m) with Some st => doc_of st | None => JNull end)) (m_present m).

(* the text MarshalJSON emits is the rendering of the message's document *)
Theorem m_json_renders S m0 m txt : m_json S m0 = (m, Ok txt) ->
  txt = json_object (map (fun kv => (fst kv, render (snd kv))) (mdoc m)).
Proof.
  unfold m_json. destruct (m_pack S m0) as [m1 [b|e|q|]]; intros H; inversion H; subst. f_equal. unfold mdoc. rewrite map_map. apply map_ext. intros id. cbn [fst snd].
  f_equal. destruct (id =? 0); [apply json_field_renders|]. destruct (id =? 1); [reflexivity|]. destruct (zlookup id (m_fields m)); [apply json_field_renders|reflexivity].
Qed.

Lemma zlookup_mfresh S id : zlookup id (m_fields (mfresh S)) = option_map fresh (zlookup id (ms_fields S)).
Proof. cbn [mfresh m_fields]. induction (ms_fields S) as [|(k, s) r IH]; [reflexivity|]. cbn [map zlookup]. destruct (id =? k); [reflexivity|exact IH]. Qed.

(* messages with a document: populated ids are Go ints, the MTI and every populated data element have a document *)
Definition mjdom (S : mspec) (m : mstate) : Prop :=
  NoDup (m_present m) /\
  (forall id, In id (m_present m) -> 0 <= id <= max_int) /\
  (In 0 (m_present m) -> jdom (FPrim (ms_mti S)) (m_mti m)) /\
  (forall id, In id (m_present m) -> 2 <= id -> exists s st, zlookup id (ms_fields S) = Some s /\ zlookup id (m_fields m) = Some st /\ jdom s st /\ nodup_spec s).

Lemma m_from_json_loop S m : mjdom S m ->
  forall l macc, NoDup l -> (forall id, In id l -> In id (m_present m)) ->
    (forall id s, In id l -> 2 <= id -> zlookup id (ms_fields S) = Some s -> zlookup id (m_fields macc) = Some (fresh s)) ->
    (In 0 l -> m_mti macc = fresh (FPrim (ms_mti S))) ->
    exists m', m_from_json S macc (map (fun id => (itoa id,
                  if id =? 0 then doc_of (m_mti m)
                  else if id =? 1 then JS (hex_encode_upper (m_bm m))
                  else match zlookup id (m_fields m) with Some st => doc_of st | None => JNull end)) l) = (m', Ok tt) /\
      (forall id, zmem id (m_present m') = zmem id (m_present macc) || zmem id l) /\
      (In 0 l -> m_mti m' = m_mti m) /\ (~ In 0 l -> m_mti m' = m_mti macc) /\
      (In 1 l -> m_bm m' = m_bm m) /\ (~ In 1 l -> m_bm m' = m_bm macc) /\
      (forall id, In id l -> 2 <= id -> exists s x y, zlookup id (ms_fields S) = Some s /\ zlookup id (m_fields m) = Some x /\ zlookup id (m_fields m') = Some y /\ equiv s x y) /\
      (forall id, ~ In id l -> zlookup id (m_fields m') = zlookup id (m_fields macc)).
Proof.
  intros (Hndp & Hrange & Hmti & Hfl). induction l as [|id r IH]; intros macc Hnd Hsub Hfresh Hmf.
  - exists macc. split; [reflexivity|]. split; [intros id; cbn; rewrite Bool.orb_false_r; reflexivity|].
    split; [intros []|]. split; [reflexivity|]. split; [intros []|]. split; [reflexivity|]. split; [intros id []|reflexivity].
  - apply NoDup_cons_iff in Hnd. destruct Hnd as (Hnot & Hndr). cbn [map m_from_json].
    destruct (itoa_atoi id (Hrange id (Hsub id (or_introl eq_refl)))) as (Ha & _). rewrite Ha.
    assert (Hsub' : forall i, In i r -> In i (m_present m)) by (intros i Hi; apply Hsub; right; exact Hi).
    destruct (Z.eq_dec id 0) as [->|Hn0]; [|destruct (Z.eq_dec id 1) as [->|Hn1]].
    + (* the MTI *)
      change (0 =? 0) with true. cbv iota.
      destruct (json_doc_roundtrip (FPrim (ms_mti S)) I (m_mti m) (Hmti (Hsub 0 (or_introl eq_refl)))) as (y & Hj & Heq). cbn [equiv] in Heq. subst y.
      rewrite (Hmf (or_introl eq_refl)), Hj.
      destruct (IH (with_present (with_mti macc (m_mti m)) (zadd 0 (m_present macc))) Hndr Hsub') as (m' & Hgo & Hp & Hm1 & Hm2 & Hb1 & Hb2 & Hf & Ho).
      { intros i s Hi H2 Hs. cbn [with_present with_mti m_fields]. apply Hfresh; [right; exact Hi|exact H2|exact Hs]. }
      { intros Hi. contradiction. }
      exists m'. split; [exact Hgo|]. split; [intros i; rewrite Hp; cbn [with_present m_present]; rewrite zmem_zadd; cbn [zmem existsb]; fold (zmem i r); destruct (i =? 0), (zmem i (m_present macc)), (zmem i r); reflexivity|].
      split; [intros _; rewrite (Hm2 Hnot); reflexivity|]. split; [intros Hc; exfalso; apply Hc; left; reflexivity|].
      split; [intros [Hc|Hi]; [discriminate|apply Hb1; exact Hi]|]. split; [intros Hc; rewrite Hb2 by (intros Hi; apply Hc; right; exact Hi); reflexivity|].
      split; [intros i [Hc|Hi] H2; [lia|apply Hf; assumption]|]. intros i Hn. rewrite Ho by (intros Hi; apply Hn; right; exact Hi). reflexivity.
    + (* the bitmap *)
      change (1 =? 0) with false. change (1 =? 1) with true. cbv iota. rewrite hex_decode_encode.
      destruct (IH (with_present (with_bm macc (m_bm m)) (zadd 1 (m_present macc))) Hndr Hsub') as (m' & Hgo & Hp & Hm1 & Hm2 & Hb1 & Hb2 & Hf & Ho).
      { intros i s Hi H2 Hs. cbn [with_present with_bm m_fields]. apply Hfresh; [right; exact Hi|exact H2|exact Hs]. }
      { intros Hi. cbn [with_present with_bm m_mti]. apply Hmf. right. exact Hi. }
      exists m'. split; [exact Hgo|]. split; [intros i; rewrite Hp; cbn [with_present m_present]; rewrite zmem_zadd; cbn [zmem existsb]; fold (zmem i r); destruct (i =? 1), (zmem i (m_present macc)), (zmem i r); reflexivity|].
      split; [intros [Hc|Hi]; [discriminate|apply Hm1; exact Hi]|]. split; [intros Hc; rewrite Hm2 by (intros Hi; apply Hc; right; exact Hi); reflexivity|].
      split; [intros _; rewrite (Hb2 Hnot); reflexivity|]. split; [intros Hc; exfalso; apply Hc; left; reflexivity|].
      split; [intros i [Hc|Hi] H2; [lia|apply Hf; assumption]|]. intros i Hn. rewrite Ho by (intros Hi; apply Hn; right; exact Hi). reflexivity.
    + (* a data element *)
      pose proof (Hrange id (Hsub id (or_introl eq_refl))) as Hr. replace (id =? 0) with false by lia. replace (id =? 1) with false by lia.
      destruct (Hfl id (Hsub id (or_introl eq_refl)) ltac:(lia)) as (s & x & Hs & Hx & Hd & Hns). rewrite Hs, Hx, (Hfresh id s (or_introl eq_refl) ltac:(lia) Hs).
      destruct (json_doc_roundtrip s Hns x Hd) as (y & Hj & Heq). rewrite Hj.
      destruct (IH (with_present (with_fields macc (zupdate id y (m_fields macc))) (zadd id (m_present macc))) Hndr Hsub') as (m' & Hgo & Hp & Hm1 & Hm2 & Hb1 & Hb2 & Hf & Ho).
      { intros i s0 Hi H2 Hs0. cbn [with_present with_fields m_fields]. rewrite zlookup_zupdate_other by (intros ->; contradiction). apply Hfresh; [right; exact Hi|exact H2|exact Hs0]. }
      { intros Hi. cbn [with_present with_fields m_mti]. apply Hmf. right. exact Hi. }
      exists m'. split; [exact Hgo|]. split; [intros i; rewrite Hp; cbn [with_present m_present]; rewrite zmem_zadd; cbn [zmem existsb]; fold (zmem i r); destruct (i =? id), (zmem i (m_present macc)), (zmem i r); reflexivity|].
      split; [intros [Hc|Hi]; [lia|apply Hm1; exact Hi]|]. split; [intros Hc; rewrite Hm2 by (intros Hi; apply Hc; right; exact Hi); reflexivity|].
      split; [intros [Hc|Hi]; [lia|apply Hb1; exact Hi]|]. split; [intros Hc; rewrite Hb2 by (intros Hi; apply Hc; right; exact Hi); reflexivity|].
      split.
      * intros i [<-|Hi] H2; [|apply Hf; assumption]. exists s, x, y. split; [exact Hs|]. split; [exact Hx|]. split; [|exact Heq].
        rewrite (Ho id Hnot). cbn [with_present with_fields m_fields]. apply zlookup_zupdate_same. eexists. apply (Hfresh id s (or_introl eq_refl) ltac:(lia) Hs).
      * intros i Hn. rewrite Ho by (intros Hi; apply Hn; right; exact Hi). cbn [with_present with_fields m_fields]. apply zlookup_zupdate_other. intros ->. apply Hn. left. reflexivity.
Qed.

(* UnmarshalJSON of a message's document into a new message of the same specification: the same MTI, bitmap field,
   populated set and element contents *)
Theorem m_json_doc_roundtrip S m : mjdom S m ->
  exists m', m_from_json S (mfresh S) (mdoc m) = (m', Ok tt) /\
    (forall id, zmem id (m_present m') = zmem id (m_present m)) /\
    (In 0 (m_present m) -> m_mti m' = m_mti m) /\ (In 1 (m_present m) -> m_bm m' = m_bm m) /\
    (forall id, In id (m_present m) -> 2 <= id -> exists s x y, zlookup id (ms_fields S) = Some s /\ zlookup id (m_fields m) = Some x /\ zlookup id (m_fields m') = Some y /\ equiv s x y).
Proof.
  intros Hd. pose proof Hd as (Hnd & _).
  destruct (m_from_json_loop S m Hd (m_present m) (mfresh S) Hnd (fun id H => H)) as (m' & Hgo & Hp & Hm1 & _ & Hb1 & _ & Hf & _).
  - intros id s _ _ Hs. rewrite zlookup_mfresh, Hs. reflexivity.
  - intros _. reflexivity.
  - exists m'. split; [exact Hgo|]. split; [intros id; rewrite Hp; reflexivity|]. split; [exact Hm1|]. split; [exact Hb1|exact Hf].
Qed.
