(* C11: struct Marshal / Unmarshal. About Model/Marshal.v. *)
From Iso Require Import Model.Base Model.Spec Model.Field Model.Message Model.Marshal Proofs.BaseLemmas Proofs.DigitsProofs Proofs.EncodingProofs Proofs.FieldProofs.
From Coq Require Import ZifyBool ZifyNat.

(* the Go types each field kind documents (DESIGN.md Appendix A), without the plain []byte target of finding F14 *)
Definition documented (k : fkind) (t : gty) : bool :=
  match k, t with
  | KString, (TStr | TInt | TInt64 | TPtr TStr | TPtr TInt | TPtr TInt64 | TLib KString) => true
  | KNumeric, (TStr | TInt64 | TPtr TStr | TPtr TInt64 | TLib KNumeric) => true
  | KBinary, (TStr | TPtr TStr | TPtr TBytes | TLib KBinary) => true
  | KHex, (TStr | TPtr TStr | TPtr TBytes | TLib KHex) => true
  | _, _ => false
  end.

(* states Marshal can produce from in-range data: integers are Go ints, a Hex field holds hex text *)
Definition marshal_state_ok (st : fstate) : Prop :=
  match st with
  | SString s => True
  | SNumeric z => 0 <= z <= max_int
  | SBinary _ => True
  | SHex s => exists b, hex_decode s = Some b
  | SComp _ _ => False
  end.

Lemma hex_lower_decode b : hex_decode (hex_encode_lower b) = Some b.
Proof.
  induction b as [|x r IH]; [reflexivity|]. cbn [hex_encode_lower hex_decode]. pose proof (bz_range x).
  assert (Hx : forall n, 0 <= n < 16 -> hex_val (hex_digit_lower n) = Some n).
  { intros n Hn. assert (n = 0 \/ n = 1 \/ n = 2 \/ n = 3 \/ n = 4 \/ n = 5 \/ n = 6 \/ n = 7 \/ n = 8 \/ n = 9 \/
                    n = 10 \/ n = 11 \/ n = 12 \/ n = 13 \/ n = 14 \/ n = 15) as C by lia.
    repeat (destruct C as [C|C]; [subst n; reflexivity|]). subst n; reflexivity. }
  rewrite !Hx by (assert (0 <= bz x / 16 < 16) by (split; [apply Z.div_pos; lia|apply Z.div_lt_upper_bound; lia]);
                 assert (0 <= bz x mod 16 < 16) by (apply Z.mod_pos_bound; lia); lia).
  rewrite IH. f_equal. f_equal. pose proof (Z.div_mod (bz x) 16 ltac:(lia)). replace (bz x / 16 * 16 + bz x mod 16) with (bz x) by lia. apply zb_bz.
Qed.


(* ---- the documented cells of the matrix: Marshal followed by Unmarshal into a zero value of the same type returns
   the value (up to the target's canonical form: decimal text of numerics, lower-case hex of binaries) ---- *)
Theorem leaf_roundtrip_string :
  (forall s, prim_marshal KString TStr (VStr s) = Ok (SString s) /\ prim_unmarshal (SString s) TStr (VStr []) = Ok (VStr s)) /\
  (forall s, s <> [] -> prim_marshal KString (TPtr TStr) (VPtr (Some (VStr s))) = Ok (SString s) /\
                        prim_unmarshal (SString s) (TPtr TStr) (VPtr None) = Ok (VPtr (Some (VStr s)))) /\
  (forall z, 0 <= z <= max_int -> prim_marshal KString TInt (VInt z) = Ok (SString (itoa z)) /\
                                  prim_unmarshal (SString (itoa z)) TInt (VInt 0) = Ok (VInt z)) /\
  (forall z, 0 <= z <= max_int -> prim_marshal KString TInt64 (VInt64 z) = Ok (SString (itoa z)) /\
                                  prim_unmarshal (SString (itoa z)) TInt64 (VInt64 0) = Ok (VInt64 z)) /\
  (forall z, 0 <= z <= max_int -> prim_marshal KString (TPtr TInt) (VPtr (Some (VInt z))) = Ok (SString (itoa z)) /\
                                  prim_unmarshal (SString (itoa z)) (TPtr TInt) (VPtr None) = Ok (VPtr (Some (VInt z)))) /\
  (forall s, prim_marshal KString (TLib KString) (VLib (Some (SString s))) = Ok (SString s) /\
             prim_unmarshal (SString s) (TLib KString) (VLib None) = Ok (VLib (Some (SString s)))).
Proof.
  repeat split; intros; unfold prim_marshal; cbn [g_is_zero type_name_has_int negb andb prim_unmarshal]; rewrite ?andb_false_r; try reflexivity;
    try (match goal with H : 0 <= ?z <= max_int |- _ => rewrite (proj1 (itoa_atoi z H)); reflexivity end).
  destruct s; reflexivity.
Qed.

Theorem leaf_roundtrip_numeric :
  (forall z, 0 < z <= max_int -> prim_marshal KNumeric TInt64 (VInt64 z) = Ok (SNumeric z) /\
                                 prim_unmarshal (SNumeric z) TInt64 (VInt64 0) = Ok (VInt64 z)) /\
  (forall z, 0 < z <= max_int -> prim_marshal KNumeric TStr (VStr (itoa z)) = Ok (SNumeric z) /\
                                 prim_unmarshal (SNumeric z) TStr (VStr []) = Ok (VStr (itoa z))) /\
  (forall z, 0 <= z <= max_int -> prim_marshal KNumeric (TPtr TInt64) (VPtr (Some (VInt64 z))) = Ok (SNumeric z) /\
                                  prim_unmarshal (SNumeric z) (TPtr TInt64) (VPtr None) = Ok (VPtr (Some (VInt64 z)))) /\
  (forall z, prim_marshal KNumeric (TLib KNumeric) (VLib (Some (SNumeric z))) = Ok (SNumeric z) /\
             prim_unmarshal (SNumeric z) (TLib KNumeric) (VLib None) = Ok (VLib (Some (SNumeric z)))).
Proof.
  repeat split; intros; try reflexivity.
  - unfold prim_marshal. cbn [g_is_zero]. replace (z =? 0) with false by lia. reflexivity.
  - unfold prim_marshal. destruct (itoa_atoi z ltac:(lia)) as (Ha & Hn). cbn [g_is_zero]. destruct (itoa z) eqn:E; [contradiction|]. rewrite Ha. reflexivity.
Qed.

Theorem leaf_roundtrip_binary :
  (forall b, b <> [] -> prim_marshal KBinary (TPtr TBytes) (VPtr (Some (VBytes (Some b)))) = Ok (SBinary b) /\
                        prim_unmarshal (SBinary b) (TPtr TBytes) (VPtr None) = Ok (VPtr (Some (VBytes (Some b))))) /\
  (forall b, b <> [] -> prim_marshal KBinary TStr (VStr (hex_encode_lower b)) = Ok (SBinary b) /\
                        prim_unmarshal (SBinary b) TStr (VStr []) = Ok (VStr (hex_encode_lower b))) /\
  (forall b, prim_marshal KBinary (TLib KBinary) (VLib (Some (SBinary b))) = Ok (SBinary b) /\
             prim_unmarshal (SBinary b) (TLib KBinary) (VLib None) = Ok (VLib (Some (SBinary b)))) /\
  (* finding F14: a plain []byte target is accepted by Marshal and refused by Unmarshal *)
  (forall b, b <> [] -> prim_marshal KBinary TBytes (VBytes (Some b)) = Ok (SBinary b) /\ is_err (prim_unmarshal (SBinary b) TBytes (VBytes None)) = true).
Proof.
  repeat split; intros; try reflexivity.
  unfold prim_marshal. pose proof (hex_lower_decode b) as Hd. destruct b as [|x r]; [contradiction|]. cbn [g_is_zero]. cbn [hex_encode_lower] in *. rewrite Hd. reflexivity.
Qed.

Theorem leaf_roundtrip_hex :
  (forall s, s <> [] -> prim_marshal KHex TStr (VStr s) = Ok (SHex s) /\ prim_unmarshal (SHex s) TStr (VStr []) = Ok (VStr s)) /\
  (forall b, b <> [] -> prim_marshal KHex (TPtr TBytes) (VPtr (Some (VBytes (Some b)))) = Ok (SHex (hex_encode_upper b)) /\
                        prim_unmarshal (SHex (hex_encode_upper b)) (TPtr TBytes) (VPtr None) = Ok (VPtr (Some (VBytes (Some b))))) /\
  (forall s, prim_marshal KHex (TLib KHex) (VLib (Some (SHex s))) = Ok (SHex s) /\
             prim_unmarshal (SHex s) (TLib KHex) (VLib None) = Ok (VLib (Some (SHex s)))).
Proof.
  repeat split; intros; try reflexivity.
  - unfold prim_marshal. destruct s; [contradiction|reflexivity].
  - cbn [prim_unmarshal]. unfold hex_bytes_or_nil. rewrite hex_decode_encode. reflexivity.
Qed.

(* ---- presence: zero-valued struct fields are left out unless tagged keepzero; Unmarshal writes only the struct
   fields whose message field is present ---- *)
Theorem marshal_zero_skipped S m d ft fv rest : it_keepzero (index_tag_of d) = false -> g_is_zero fv = true -> 2 <= it_id (index_tag_of d) ->
  (exists s st, zlookup (it_id (index_tag_of d)) (ms_fields S) = Some s /\ zlookup (it_id (index_tag_of d)) (m_fields m) = Some st) ->
  m_marshal_fields S m ((d, ft, fv) :: rest) = m_marshal_fields S m rest.
Proof.
  intros Hk Hz Hid (s & st & Hs & Hst). cbn [m_marshal_fields]. replace (it_id (index_tag_of d) <? 0) with false by lia.
  replace (it_id (index_tag_of d) =? 0) with false by lia. rewrite Hs, Hst, Hz, Hk. reflexivity.
Qed.

Theorem unmarshal_absent_untouched S m d ft fv rest : 2 <= it_id (index_tag_of d) -> zmem (it_id (index_tag_of d)) (m_present m) = false ->
  m_unmarshal_fields S m ((d, ft, fv) :: rest) = (do r <- m_unmarshal_fields S m rest; Ok (fv :: r)).
Proof.
  intros Hid Hp. cbn [m_unmarshal_fields]. replace (it_id (index_tag_of d) <? 0) with false by lia.
  replace (it_id (index_tag_of d) =? 0) with false by lia. replace (it_id (index_tag_of d) =? 1) with false by lia. cbn [andb].
  destruct (zlookup (it_id (index_tag_of d)) (ms_fields S)) as [s|]; [destruct (zlookup (it_id (index_tag_of d)) (m_fields m)) as [st|]|]; rewrite ?Hp; reflexivity.
Qed.
