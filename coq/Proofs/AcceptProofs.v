(* C02: whatever a primitive field accepts lies in the domain of the round trip, so it re-packs, and the re-packed
   bytes unpack to the same value and re-pack to themselves. About Model/Field.v. *)
From Iso Require Import Model.Base Model.Padding Model.Encoding Model.Prefix Model.Bitmap Model.Spec Model.Field
     Proofs.BaseLemmas Proofs.PaddingProofs Proofs.EncodingProofs Proofs.DigitsProofs Proofs.PrefixProofs Proofs.FieldProofs.
From Coq Require Import ZifyBool ZifyNat ZifyN.
Set Default Timeout 120.
Ltac Zify.zify_post_hook ::= Z.div_mod_to_equations.

(* ---------------- encoders: what Decode returns lies in the domain of Encode ---------------- *)
Definition plain_enc (e : encoder) : Prop :=
  e = EncASCII \/ e = EncBinary \/ e = EncBCD \/ e = EncLBCD \/ e = EncHex \/ e = EncEBCDIC.

Lemma enc_dom_app e a b : plain_enc e -> enc_dom e (a ++ b) = enc_dom e a && enc_dom e b.
Proof.
  intros [->|[->|[->|[->|[->| ->]]]]]; cbn [enc_dom]; try reflexivity; unfold all_ascii, all_digits; apply forallb_app.
Qed.

Lemma enc_dom_repeat e c k : enc_dom e [c] = true -> plain_enc e -> enc_dom e (repeat c k) = true.
Proof.
  intros Hc He. induction k as [|k IH]; cbn [repeat].
  - destruct He as [->|[->|[->|[->|[->| ->]]]]]; reflexivity.
  - change (c :: repeat c k) with ([c] ++ repeat c k). rewrite enc_dom_app, Hc, IH by exact He. reflexivity.
Qed.

Lemma hex_decode_zlen a x : hex_decode a = Some x -> zlen a = 2 * zlen x.
Proof. apply hex_decode_len. Qed.

Theorem decode_in_dom e d n v r : plain_enc e -> enc_decode e d n = Ok (v, r) -> enc_dom e v = true /\ zlen v = n /\ 0 <= n.
Proof.
  intros He H. pose proof (zlen_nonneg d) as Hd0. destruct He as [->|[->|[->|[->|[->| ->]]]]].
  - destruct (ascii_decode_sound d n v r H) as (_ & _ & Ha & Hl). pose proof (zlen_nonneg v). repeat split; [exact Ha|exact Hl|lia].
  - unfold enc_decode in H. destruct (n <? 0) eqn:En; [discriminate|]. destruct (zlen d <? n) eqn:Es; [discriminate|].
    inversion H; subst. repeat split; [|lia]. apply zlen_ztake. lia.
  - destruct (bcd_decode_sound d n v r H) as (s & _ & Hs & Hv & Hl & _). pose proof (zlen_nonneg v). repeat split; [|exact Hl|lia].
    subst v. cbn [enc_dom]. unfold all_digits in *. rewrite <- (ztake_zdrop s (2 * r - n)) in Hs. rewrite forallb_app in Hs. apply andb_prop in Hs. tauto.
  - destruct (lbcd_decode_sound d n v r H) as (s & _ & Hs & Hv & Hl & _). pose proof (zlen_nonneg v). repeat split; [|exact Hl|lia].
    subst v. cbn [enc_dom]. unfold all_digits in *. rewrite <- (ztake_zdrop s n) in Hs. rewrite forallb_app in Hs. apply andb_prop in Hs. tauto.
  - unfold enc_decode in H. destruct (n <? 0) eqn:En; [discriminate|]. destruct (zlen d / 2 <? n) eqn:Es; [discriminate|].
    destruct (hex_decode (ztake (2 * n) d)) as [o|] eqn:Eh; [|discriminate]. inversion H; subst.
    apply hex_decode_zlen in Eh. rewrite zlen_ztake in Eh by lia. repeat split; lia.
  - unfold enc_decode in H. destruct (n <? 0) eqn:En; [discriminate|]. destruct (zlen d <? n) eqn:Es; [discriminate|].
    inversion H; subst. repeat split; [|lia]. rewrite zlen_map. apply zlen_ztake. lia.
Qed.

(* ---------------- padding ---------------- *)
Definition pad_char_ok (e : encoder) (p : padder) : Prop :=
  match p with PadNone => True | PadLeft c | PadRight c => enc_dom e [c] = true end.

Lemma enc_dom_unpad e p v : plain_enc e -> enc_dom e v = true -> enc_dom e (unpad p v) = true.
Proof.
  intros He Hv. destruct p as [|c|c]; [exact Hv| |].
  - destruct (unpad_left_only_pad c v) as (k & Hk & _). rewrite Hk, enc_dom_app in Hv by exact He. apply andb_prop in Hv. tauto.
  - destruct (unpad_right_only_pad c v) as (k & Hk & _). rewrite Hk, enc_dom_app in Hv by exact He. apply andb_prop in Hv. tauto.
Qed.

Lemma enc_dom_pad e p raw n : plain_enc e -> pad_char_ok e p -> enc_dom e raw = true -> enc_dom e (pad p raw n) = true.
Proof.
  intros He Hc Hr. destruct (Z_lt_le_dec (zlen raw) n) as [L|L]; [|rewrite pad_noop by exact L; exact Hr].
  destruct p as [|c|c]; [exact Hr| |]; cbn [pad_char_ok] in Hc.
  - rewrite pad_left_shape by exact L. rewrite enc_dom_app, Hr, enc_dom_repeat by assumption. reflexivity.
  - rewrite pad_right_shape by exact L. rewrite enc_dom_app, Hr, enc_dom_repeat by assumption. reflexivity.
Qed.

Lemma zlen_unpad p v : zlen (unpad p v) <= zlen v.
Proof.
  destruct p as [|c|c]; [cbn; lia| |].
  - destruct (unpad_left_only_pad c v) as (k & Hk & _). rewrite Hk at 2. rewrite zlen_app, zlen_repeat. lia.
  - destruct (unpad_right_only_pad c v) as (k & Hk & _). rewrite Hk at 2. rewrite zlen_app, zlen_repeat. lia.
Qed.

Lemma pad_ok_unpad p v : pad_ok p (unpad p v) = true.
Proof.
  destruct p as [|c|c]; [reflexivity| |]; cbn [pad_ok].
  - destruct (unpad_left_only_pad c v) as (k & _ & Hs). rewrite Hs. reflexivity.
  - destruct (unpad_right_only_pad c v) as (k & _ & Hs). rewrite Hs. reflexivity.
Qed.

Lemma zlen_pad p v n : zlen (pad p v n) = if (zlen v <? n) && negb (match p with PadNone => true | _ => false end) then n else zlen v.
Proof.
  destruct (Z_lt_le_dec (zlen v) n) as [L|L].
  - destruct p as [|c|c]; [cbn; rewrite Bool.andb_false_r; reflexivity| |]; rewrite pad_len by (try discriminate; exact L); replace (zlen v <? n) with true by lia; reflexivity.
  - rewrite pad_noop by exact L. replace (zlen v <? n) with false by lia. reflexivity.
Qed.

(* ---------------- numerals: bounds ---------------- *)
Lemma gen_value_bound B g : 1 < B -> (forall b d, g b = Some d -> 0 <= d < B) ->
  forall l acc v, 0 <= acc -> gen_value B g l acc = Some v -> acc * B ^ zlen l <= v < (acc + 1) * B ^ zlen l.
Proof.
  intros HB Hg. induction l as [|b r IH]; intros acc v Ha H; cbn [gen_value] in H.
  - inversion H; subst. change (zlen (@nil byte)) with 0. lia.
  - destruct (g b) as [d|] eqn:Eg; [|discriminate]. specialize (Hg b d Eg).
    specialize (IH (acc * B + d) v ltac:(nia) H).
    replace (zlen (b :: r)) with (Z.succ (zlen r)) by (unfold zlen; cbn [length]; lia). pose proof (zlen_nonneg r).
    rewrite Z.pow_succ_r by lia. assert (0 < B ^ zlen r) by (apply Z.pow_pos_nonneg; lia). nia.
Qed.

Lemma dec_val_range b d : dec_val b = Some d -> 0 <= d < 10.
Proof. unfold dec_val. destruct ((0 <=? bz b - 48) && (bz b - 48 <=? 9)) eqn:E; [|discriminate]. intros H. inversion H. lia. Qed.

Lemma undigits_bound l v : undigits l 0 = Some v -> 0 <= v < 10 ^ zlen l.
Proof.
  rewrite undigits_gen. intros H. pose proof (gen_value_bound 10 dec_val ltac:(lia) dec_val_range l 0 v ltac:(lia) H). lia.
Qed.

(* Atoi of at most k characters *)
Lemma atoi_bound l n : atoi l = Some n -> - 10 ^ zlen l < n < 10 ^ zlen l /\ - two63 <= n < two63.
Proof.
  unfold atoi. destruct l as [|b r]; [discriminate|].
  assert (Hpow : 10 ^ zlen r < 10 ^ zlen (b :: r)).
  { replace (zlen (b :: r)) with (Z.succ (zlen r)) by (unfold zlen; cbn [length]; lia). pose proof (zlen_nonneg r). rewrite Z.pow_succ_r by lia.
    assert (0 < 10 ^ zlen r) by (apply Z.pow_pos_nonneg; lia). lia. }
  assert (Hchk : forall (z : option Z) lo hi, (forall v, z = Some v -> lo < v < hi) ->
            match z with Some v => if (- two63 <=? v) && (v <? two63) then Some v else None | None => None end = Some n -> lo < n < hi /\ - two63 <= n < two63).
  { intros z lo hi Hz H. destruct z as [v|]; [|discriminate]. destruct ((- two63 <=? v) && (v <? two63)) eqn:E; [|discriminate]. inversion H; subst. split; [apply Hz; reflexivity|lia]. }
  destruct (Byte.eqb b x2b).
  - destruct r as [|c r']; [discriminate|]. apply Hchk. intros v Hv. apply undigits_bound in Hv. lia.
  - destruct (Byte.eqb b x2d).
    + destruct r as [|c r']; [discriminate|]. apply Hchk. intros v Hv. destruct (undigits (c :: r') 0) as [u|] eqn:Eu; [|discriminate].
      apply undigits_bound in Eu. cbn [option_map] in Hv. inversion Hv. lia.
    + apply Hchk. intros v Hv. apply undigits_bound in Hv. lia.
Qed.

(* ---------------- length prefixes: what DecodeLength returns, EncodeLength accepts ---------------- *)
Definition pref_plain (p : prefixer) : Prop := match p with PVar PfEBCDIC1047 _ => False | _ => True end.

Lemma hex_val_range b d : hex_val b = Some d -> 0 <= d < 16.
Proof.
  unfold hex_val. pose proof (bz_range b).
  destruct ((48 <=? bz b) && (bz b <=? 57)) eqn:E1; [intros Hx; inversion Hx; lia|].
  destruct ((65 <=? bz b) && (bz b <=? 70)) eqn:E2; [intros Hx; inversion Hx; lia|].
  destruct ((97 <=? bz b) && (bz b <=? 102)) eqn:E3; [intros Hx; inversion Hx; lia|discriminate].
Qed.

Theorem dec_len_reencodable p max d n r : wf_pref p -> pref_plain p -> 0 <= max <= max_int -> dec_len p max d = Ok (n, r) ->
  enc_must_fail p max n = false /\ 0 <= n <= max_int.
Proof.
  intros Hwf Hpl Hmax H. pose proof (zlen_nonneg d) as Hd0.
  assert (Hchk : forall m n' r' k, check_decoded m n' k = Ok (n', r') -> 0 <= n' <= m).
  { intros m n' r' k. unfold check_decoded. destruct (n' <? 0) eqn:A; [discriminate|]. destruct (m <? n') eqn:B; [discriminate|]. intros _. lia. }
  assert (Hchk2 : forall m a k, check_decoded m a k = Ok (n, r) -> a = n).
  { intros m a k. unfold check_decoded. destruct (a <? 0); [discriminate|]. destruct (m <? a); [discriminate|]. intros E. inversion E. reflexivity. }
  destruct p as [f|f dg| |]; cbn [wf_pref] in Hwf; try contradiction.
  - cbn [dec_len] in H. inversion H; subst. cbn [enc_must_fail]. split; lia.
  - assert (Hdec : forall s, zlen s = Z.of_nat dg -> forall k a, atoi s = Some a -> check_decoded max a k = Ok (n, r) ->
                     (max <? n) || negb (n <? 10 ^ Z.of_nat dg) = false /\ 0 <= n <= max_int).
    { intros s Hs k a Ea Hm. pose proof (Hchk2 _ _ _ Hm). subst a. apply Hchk in Hm.
      destruct (atoi_bound s n Ea) as (Hb & _). rewrite Hs in Hb. split; lia. }
    destruct f; cbn [dec_len] in H; cbv zeta in H; cbn [enc_must_fail pref_fits pref_plain] in *; try contradiction.
    + destruct (zlen d <? Z.of_nat dg) eqn:E1; [discriminate|]. destruct (atoi (ztake (Z.of_nat dg) d)) as [a|] eqn:Ea; [|discriminate]. apply (Hdec (ztake (Z.of_nat dg) d) ltac:(apply zlen_ztake; lia) _ a Ea H).
    + destruct (zlen d <? (Z.of_nat dg + 1) / 2) eqn:E1; [discriminate|].
      destruct (enc_decode EncBCD (ztake ((Z.of_nat dg + 1) / 2) d) (Z.of_nat dg)) as [[s x]| | |] eqn:Ed; cbn [obind] in H; try discriminate.
      destruct (decode_in_dom EncBCD _ _ _ _ ltac:(unfold plain_enc; tauto) Ed) as (_ & Hl & _). destruct (atoi s) as [a|] eqn:Ea; [|discriminate]. apply (Hdec s Hl _ a Ea H).
    + destruct (zlen d <? Z.of_nat dg) eqn:E1; [discriminate|].
      (* binary *)
      destruct (negb (forallb (Byte.eqb x00) (ztake (Z.of_nat dg - 4) (ztake (Z.of_nat dg) d)))); [discriminate|].
      set (pb := ztake (Z.of_nat dg) d) in *. assert (Hpb : zlen pb = Z.of_nat dg) by (apply zlen_ztake; lia).
      pose proof (Hchk2 _ _ _ H). pose proof (Hchk _ _ _ _ ltac:(rewrite H0 in H; exact H)).
      pose proof (be_val_bound (zdrop (Z.of_nat dg - 4) pb)) as Hb. rewrite H0 in Hb.
      assert (Hzl : zlen (zdrop (Z.of_nat dg - 4) pb) = Z.min (Z.of_nat dg) 4).
      { destruct (Z_le_gt_dec (Z.of_nat dg) 4).
        - unfold zdrop. replace (Z.to_nat (Z.of_nat dg - 4)) with 0%nat by lia. cbn [skipn]. lia.
        - rewrite zlen_zdrop by lia. lia. }
      rewrite Hzl in Hb.
      assert (256 ^ Z.min (Z.of_nat dg) 4 <= 256 ^ 4) by (apply Z.pow_le_mono_r; lia).
      assert (256 ^ Z.min (Z.of_nat dg) 4 <= 256 ^ Z.of_nat dg) by (apply Z.pow_le_mono_r; lia).
      change (256 ^ 4) with 4294967296 in *. split; [|lia]. lia.
    + destruct (zlen d <? 2 * Z.of_nat dg) eqn:E1; [discriminate|].
      destruct (parse_uint16 (ztake (2 * Z.of_nat dg) d) (Z.of_nat dg * 8)) as [v|] eqn:Ep; [|discriminate].
      destruct (max <? v) eqn:Em; [discriminate|]. inversion H; subst v r. clear H.
      unfold parse_uint16 in Ep. destruct (ztake (2 * Z.of_nat dg) d) as [|c t] eqn:Et; [discriminate|].
      destruct (parse_hex (c :: t) 0) as [v|] eqn:Eh; [|discriminate]. destruct (v <? 2 ^ (Z.of_nat dg * 8)) eqn:Ev; [|discriminate].
      inversion Ep; subst v. pose proof (parse_hex_nonneg (c :: t) 0 n (Z.le_refl 0) Eh).
      assert (Hp : 2 ^ (Z.of_nat dg * 8) = 256 ^ Z.of_nat dg) by (rewrite Z.mul_comm, Z.pow_mul_r by lia; reflexivity).
      split; lia.
    + destruct (zlen d <? Z.of_nat dg) eqn:E1; [discriminate|].
      destruct (enc_decode EncEBCDIC (ztake (Z.of_nat dg) d) (Z.of_nat dg)) as [[s x]| | |] eqn:Ed; cbn [obind] in H; try discriminate.
      destruct (decode_in_dom EncEBCDIC _ _ _ _ ltac:(unfold plain_enc; tauto) Ed) as (_ & Hl & _). destruct (atoi s) as [a|] eqn:Ea; [|discriminate]. apply (Hdec s Hl _ a Ea H).
  - cbn [dec_len] in H. cbn [enc_must_fail]. destruct d as [|b t]; [discriminate|]. pose proof (bz_range b).
    destruct (bz b <? 128) eqn:E1.
    + destruct (negb (max =? 0) && (max <? bz b)) eqn:E2; [discriminate|]. inversion H; subst. unfold max_int. split; lia.
    + destruct (zlen t <? bz b - 128); [discriminate|]. set (v := be_val (ztake (bz b - 128) t) 0) in *.
      destruct (max_int <? v) eqn:E3; [discriminate|]. destruct (negb (max =? 0) && (max <? v)) eqn:E4; [discriminate|].
      inversion H; subst n r. pose proof (be_val_bound (ztake (bz b - 128) t)). fold v in H1. split; lia.
Qed.

(* ---------------- numerals: Itoa after Atoi ---------------- *)
Lemma two63_ten40 : two63 < ten40. Proof. vm_compute. reflexivity. Qed.

Lemma itoa_neg z : z < 0 -> itoa z = x2d :: itoa (- z).
Proof. intros H. unfold itoa. replace (z <? 0) with true by lia. replace (- z <? 0) with false by lia. reflexivity. Qed.

Lemma zlen_cons {A} (x : A) l : zlen (x :: l) = 1 + zlen l.
Proof. unfold zlen. cbn [length]. lia. Qed.

Lemma itoa_len_le n k : 0 <= n <= two63 -> 0 < k -> n < 10 ^ k -> zlen (itoa n) <= k.
Proof.
  intros Hn0 Hk Hlt. assert (Hn : 0 <= n < ten40) by (pose proof two63_ten40; lia). pose proof (itoa_len_iff n (Z.to_nat k) Hn ltac:(lia)) as H. rewrite Z2Nat.id in H by lia. unfold zlen. apply H in Hlt. lia.
Qed.

Lemma atoi_itoa_len raw z : atoi raw = Some z -> zlen (itoa z) <= zlen raw /\ (starts_with x2d raw = false -> 0 <= z).
Proof.
  intros H. destruct (atoi_bound raw z H) as (_ & Hr). destruct raw as [|b r]; [cbn [atoi] in H; congruence|]. unfold atoi in H. rewrite zlen_cons.
  assert (Hchk : forall (o : option Z), match o with Some v => if (- two63 <=? v) && (v <? two63) then Some v else None | None => None end = Some z -> o = Some z).
  { intros [v|]; [|discriminate]. destruct ((- two63 <=? v) && (v <? two63)); [congruence|discriminate]. }
  destruct (Byte.eqb b x2b) eqn:Ep.
  - destruct r as [|c r']; [discriminate|]. apply Hchk in H. pose proof (undigits_bound _ _ H) as Hb. pose proof (zlen_nonneg r'). rewrite zlen_cons in *.
    split; [|lia]. assert (Hz : 0 <= z <= two63) by lia. destruct Hb as (_ & Hb). pose proof (itoa_len_le z (1 + zlen r') Hz ltac:(lia) Hb). lia.
  - destruct (Byte.eqb b x2d) eqn:Em.
    + destruct r as [|c r']; [discriminate|]. apply Hchk in H. destruct (undigits (c :: r') 0) as [u|] eqn:Eu; [|discriminate]. cbn [option_map] in H.
      assert (z = - u) by congruence. subst z. pose proof (undigits_bound _ _ Eu) as Hb. pose proof (zlen_nonneg r'). rewrite zlen_cons in *.
      split; [|apply byte_eqb_eq in Em; subst b; cbn [starts_with]; rewrite byte_eqb_refl; discriminate].
      destruct (Z.eq_dec u 0) as [->|Hne].
      * change (zlen (itoa (- 0))) with 1. lia.
      * rewrite itoa_neg by lia. rewrite zlen_cons. replace (- - u) with u by lia.
        assert (Hz : 0 <= u <= two63) by lia. destruct Hb as (_ & Hb). pose proof (itoa_len_le u (1 + zlen r') Hz ltac:(lia) Hb). lia.
    + apply Hchk in H. pose proof (undigits_bound _ _ H) as Hb. pose proof (zlen_nonneg r). rewrite zlen_cons in Hb.
      split; [|lia]. assert (Hz : 0 <= z <= two63) by lia. destruct Hb as (_ & Hb). pose proof (itoa_len_le z (1 + zlen r) Hz ltac:(lia) Hb). lia.
Qed.

Lemma itoa_digits n : 0 <= n <= two63 -> forallb is_digit (itoa n) = true /\ itoa n <> [].
Proof.
  intros Hn. destruct (itoa_nonneg n ltac:(pose proof two63_ten40; lia)) as (k & Hk & Hlen & Hu & _). split.
  - apply (undigits_all_digits _ 0 _ (Hu 0)).
  - intros E. rewrite E in Hlen. cbn in Hlen. lia.
Qed.

Lemma atoi_itoa z : - two63 <= z < two63 -> atoi (itoa z) = Some z /\ itoa z <> [].
Proof.
  intros Hz. destruct (Z_lt_ge_dec z 0) as [Hneg|Hpos].
  - rewrite itoa_neg by lia. split; [|discriminate]. destruct (itoa_digits (- z) ltac:(lia)) as (_ & Hne).
    destruct (itoa_nonneg (- z) ltac:(pose proof two63_ten40; lia)) as (k & _ & _ & Hu & _). specialize (Hu 0).
    unfold atoi. change (Byte.eqb x2d x2b) with false. change (Byte.eqb x2d x2d) with true. cbv iota.
    destruct (itoa (- z)) as [|c r] eqn:E; [contradiction|]. rewrite Hu. cbn [option_map]. replace (- (0 * 10 ^ Z.of_nat k + - z)) with z by lia.
    replace ((- two63 <=? z) && (z <? two63)) with true by lia. reflexivity.
  - apply itoa_atoi. unfold max_int, two63 in *. lia.
Qed.

Lemma itoa_first_digit z : 0 < z <= two63 -> exists b r, itoa z = b :: r /\ 49 <= bz b <= 57.
Proof.
  intros Hz. destruct (itoa_nonneg z ltac:(pose proof two63_ten40; lia)) as (k & Hk & Hlen & Hu & _ & Hlb). specialize (Hu 0). specialize (Hlb ltac:(lia)).
  destruct (itoa z) as [|b r] eqn:E; [cbn in Hlen; lia|]. exists b, r. split; [reflexivity|].
  cbn [undigits] in Hu. destruct ((0 <=? bz b - 48) && (bz b - 48 <=? 9)) eqn:D; [|discriminate].
  rewrite undigits_gen in Hu. pose proof (gen_value_bound 10 dec_val ltac:(lia) dec_val_range r (0 * 10 + (bz b - 48)) _ ltac:(lia) Hu) as Hb.
  assert (Hr : zlen r = Z.of_nat (k - 1)) by (unfold zlen; cbn [length] in Hlen; lia). rewrite Hr in Hb.
  assert (0 < 10 ^ Z.of_nat (k - 1)) by (apply Z.pow_pos_nonneg; lia).
  replace (0 * 10 ^ Z.of_nat k + z) with z in Hb by lia.
  destruct (Z.eq_dec (bz b - 48) 0) as [E0|E0]; [rewrite E0 in Hb; lia|lia].
Qed.

(* ---------------- the primitive field ---------------- *)
(* specifications under which every accepted value re-packs: an encoder whose decoded text is what it encodes
   (EBCDIC1047 is finding F26), a pad character the encoder accepts, a maximum the prefix digits can express, and for
   Numeric fields a way to restore the declared width (no fixed length without padding - finding F21) with a pad
   character that is not a significant digit *)
Definition accept_ok (p : pspec) : Prop :=
  plain_enc (ps_enc p) /\ pref_plain (ps_pref p) /\ ps_len p <= max_int /\ pad_char_ok (ps_enc p) (ps_pad p) /\
  match ps_pref p with PVar _ _ => pref_fits (ps_pref p) (ps_len p) = true | _ => True end /\
  (ps_kind p = KNumeric -> 1 <= ps_len p /\
     match ps_pad p with PadNone => forall f, ps_pref p <> PFixed f | PadLeft c => ~ (49 <= bz c <= 57) | PadRight _ => False end).

Lemma pref_fits_mono p a b : 0 <= a <= b -> pref_fits p b = true -> pref_fits p a = true.
Proof. intros H. destruct p as [f|f d| |]; cbn [pref_fits]; try reflexivity. destruct f; lia. Qed.
Lemma pref_fits_one p : wf_pref p -> pref_fits p 1 = true.
Proof.
  destruct p as [f|f d| |]; cbn [pref_fits wf_pref]; try reflexivity. intros Hd.
  assert (10 <= 10 ^ Z.of_nat d) by (change 10 with (10 ^ 1) at 1; apply Z.pow_le_mono_r; lia).
  assert (256 <= 256 ^ Z.of_nat d) by (change 256 with (256 ^ 1) at 1; apply Z.pow_le_mono_r; lia).
  destruct f; lia.
Qed.

(* re-encoding the length of the re-packed value *)
Lemma repack_len_ok p m L : wf_pref (ps_pref p) -> 0 <= ps_len p ->
  enc_must_fail (ps_pref p) (ps_len p) m = false -> 0 <= m ->
  match ps_pref p with PVar _ _ => pref_fits (ps_pref p) (ps_len p) = true | _ => True end ->
  (* the value got no longer than what was read, or is the single digit of an empty numeral *)
  forall R, 0 <= R -> (R <= m \/ (R = 1 /\ 1 <= ps_len p /\ forall f, ps_pref p <> PFixed f)) ->
  L = (if (R <? ps_len p) && negb (match ps_pad p with PadNone => true | _ => false end) then ps_len p else R) ->
  (ps_pad p = PadNone -> R = m \/ forall f, ps_pref p <> PFixed f) ->
  enc_must_fail (ps_pref p) (ps_len p) L = false.
Proof.
  intros Hwf Hlen Hm Hm0 Hfit R HR0 HR HL Hnone.
  destruct (ps_pref p) as [f|f d| |] eqn:Ep; cbn [wf_pref] in Hwf; try contradiction; cbn [enc_must_fail] in *.
  - (* fixed: m = len *)
    assert (m = ps_len p) by lia. destruct (ps_pad p) eqn:Epad; cbn [negb] in HL; rewrite ?Bool.andb_false_r, ?Bool.andb_true_r in HL.
    + destruct (Hnone eq_refl) as [E|E]; [lia|exfalso; apply (E f); reflexivity].
    + destruct HR as [HR|(_ & _ & E)]; [|exfalso; apply (E f); reflexivity]. destruct (R <? ps_len p) eqn:ER; lia.
    + destruct HR as [HR|(_ & _ & E)]; [|exfalso; apply (E f); reflexivity]. destruct (R <? ps_len p) eqn:ER; lia.
  - apply Bool.orb_false_iff in Hm. destruct Hm as (Hm1 & Hm2). apply Bool.negb_false_iff in Hm2.
    assert (HRl : R <= ps_len p) by (destruct HR as [HR|(-> & H1 & _)]; lia).
    assert (HRf : pref_fits (PVar f d) R = true).
    { destruct HR as [HR|(-> & _ & _)]; [apply (pref_fits_mono _ R m); [lia|exact Hm2]|apply pref_fits_one; exact Hwf]. }
    destruct ((R <? ps_len p) && negb (match ps_pad p with PadNone => true | _ => false end)); subst L; apply Bool.orb_false_iff; split; try lia; apply Bool.negb_false_iff; assumption.
  - assert (HRl : ps_len p = 0 \/ R <= ps_len p) by (destruct HR as [HR|(-> & H1 & _)]; lia).
    destruct ((R <? ps_len p) && negb (match ps_pad p with PadNone => true | _ => false end)); subst L; lia.
Qed.

Lemma drop_while_repeat c k : drop_while (Byte.eqb c) (repeat c k) = [].
Proof. pose proof (drop_while_repeat_app c k [] eq_refl) as H. rewrite app_nil_r in H. exact H. Qed.

(* storing the re-rendered numeral: Itoa of the value, padded and unpadded again, reads back as the value *)
Lemma numeric_restore pad len raw0 z : 0 <= len ->
  match pad with PadNone => True | PadLeft c => ~ (49 <= bz c <= 57) | PadRight _ => False end ->
  pad_ok pad raw0 = true ->
  prim_setbytes KNumeric raw0 = Ok (SNumeric z) ->
  prim_setbytes KNumeric (unpad pad (Padding.pad pad (itoa z) len)) = Ok (SNumeric z) /\ - two63 <= z < two63 /\
  zlen (itoa z) <= Z.max (zlen raw0) 1 /\ (raw0 <> [] -> zlen (itoa z) <= zlen raw0) /\ (forallb is_digit raw0 = true -> 0 <= z).
Proof.
  intros Hlen Hpad Hok Hset. cbn [prim_setbytes] in Hset.
  assert (Hz : (raw0 = [] /\ z = 0) \/ (raw0 <> [] /\ atoi raw0 = Some z)).
  { destruct raw0 as [|b r]; [left; split; [reflexivity|congruence]|right; split; [discriminate|]]. destruct (atoi (b :: r)); [congruence|discriminate]. }
  assert (Hrange : - two63 <= z < two63) by (destruct Hz as [(_ & ->)|(_ & Ha)]; [unfold two63; lia|apply (atoi_bound _ _ Ha)]).
  assert (Hlenz : zlen (itoa z) <= Z.max (zlen raw0) 1 /\ (raw0 <> [] -> zlen (itoa z) <= zlen raw0)).
  { destruct Hz as [(-> & ->)|(Hne & Ha)]; [split; [cbn; lia|intros E; contradiction]|]. destruct (atoi_itoa_len _ _ Ha). split; [lia|intros _; assumption]. }
  assert (Hdig : forallb is_digit raw0 = true -> 0 <= z).
  { intros Hd. destruct Hz as [(_ & ->)|(Hne & Ha)]; [lia|]. apply (atoi_itoa_len _ _ Ha). destruct raw0 as [|b r]; [reflexivity|]. cbn [starts_with forallb] in *.
    apply andb_prop in Hd. destruct Hd as (Hb & _). destruct (Byte.eqb x2d b) eqn:E; [|reflexivity]. apply byte_eqb_eq in E. subst b. vm_compute in Hb. discriminate. }
  split; [|repeat split; tauto || lia]. destruct (atoi_itoa z Hrange) as (Hai & Hne).
  assert (Hplain : prim_setbytes KNumeric (itoa z) = Ok (SNumeric z)).
  { cbn [prim_setbytes]. destruct (itoa z) eqn:E; [contradiction|]. rewrite Hai. reflexivity. }
  destruct pad as [|c|c]; [exact Hplain| |contradiction].
  destruct (starts_with c (itoa z)) eqn:Es; [|rewrite unpad_pad_left by exact Es; exact Hplain].
  (* the numeral begins with the pad character: it is "0" under zero padding *)
  assert (z = 0 /\ c = x30).
  { destruct (Z_lt_ge_dec z 0) as [Hn|Hp].
    - (* negative: the pad character would be '-', but then the stored text had no sign *)
      exfalso. rewrite itoa_neg in Es by exact Hn. cbn [starts_with] in Es. apply byte_eqb_eq in Es. subst c.
      cbn [pad_ok] in Hok. destruct Hz as [(_ & ->)|(_ & Ha)]; [lia|]. destruct (atoi_itoa_len _ _ Ha) as (_ & Hs).
      destruct (starts_with x2d raw0); [discriminate|]. specialize (Hs eq_refl). lia.
    - destruct (Z.eq_dec z 0) as [->|Hnz].
      + split; [reflexivity|]. change (itoa 0) with [x30] in Es. cbn [starts_with] in Es. apply byte_eqb_eq in Es. exact Es.
      + exfalso. destruct (itoa_first_digit z ltac:(lia)) as (b & r & E & Hb). rewrite E in Es. cbn [starts_with] in Es. apply byte_eqb_eq in Es. subst c. apply Hpad. exact Hb. }
  destruct H as (-> & ->). change (itoa 0) with [x30].
  assert (Hall : Padding.pad (PadLeft x30) [x30] len = repeat x30 (Z.to_nat (Z.max len 1))).
  { destruct (Z_lt_le_dec 1 len) as [L|L].
    - rewrite pad_left_shape by (cbn; lia). change (zlen [x30]) with 1. replace (Z.to_nat (Z.max len 1)) with (Z.to_nat (len - 1) + 1)%nat by lia.
      rewrite repeat_app. reflexivity.
    - rewrite pad_noop by (cbn; lia). replace (Z.to_nat (Z.max len 1)) with 1%nat by lia. reflexivity. }
  rewrite Hall. cbn [unpad]. rewrite drop_while_repeat. reflexivity.
Qed.

Lemma itoa_dom e z raw0 : plain_enc e -> - two63 <= z < two63 -> enc_dom e raw0 = true -> (forallb is_digit raw0 = true -> 0 <= z) -> enc_dom e (itoa z) = true.
Proof.
  intros He Hz Hr Hd.
  assert (Hasc : all_ascii (itoa z) = true).
  { destruct (Z_lt_ge_dec z 0) as [Hn|Hp].
    - rewrite itoa_neg by exact Hn. destruct (itoa_digits (- z) ltac:(lia)) as (Hdg & _). unfold all_ascii. cbn [forallb]. apply digits_ascii in Hdg. unfold all_ascii in Hdg. rewrite Hdg. reflexivity.
    - destruct (itoa_digits z ltac:(lia)) as (Hdg & _). apply digits_ascii. exact Hdg. }
  destruct He as [->|[->|[->|[->|[->| ->]]]]]; cbn [enc_dom] in *; try reflexivity; try exact Hasc.
  - unfold all_digits in *. apply itoa_digits. specialize (Hd Hr). lia.
  - unfold all_digits in *. apply itoa_digits. specialize (Hd Hr). lia.
Qed.

(* what a primitive field accepts lies in the domain of the round trip, and re-packs *)
Theorem prim_accept p st0 d st n : coherent_pspec p -> accept_ok p -> prim_unpack p st0 d = (st, UOk n) ->
  prim_in_domain p st /\ exists b, prim_pack p st = Ok b.
Proof.
  intros (Hwf & Hve & Hpk & HL) (Hpe & Hpp & Hlmax & Hpc & Hfit & Hnum) Hu.
  unfold prim_unpack in Hu. destruct (prim_unpack_raw p d) as [[raw0 rd]| | |] eqn:Er; try (inversion Hu; fail).
  destruct (prim_setbytes (ps_kind p) raw0) as [st'| | |] eqn:Eset; inversion Hu; subst st' rd. clear Hu.
  unfold prim_unpack_raw in Er. destruct (dec_len (ps_pref p) (ps_len p) d) as [[m pb]| | |] eqn:Ed; cbn [obind] in Er; try discriminate.
  destruct ((pb <? 0) || (zlen d <? pb)); [discriminate|]. rewrite Hpk in Er.
  destruct (enc_decode (ps_enc p) (zdrop pb d) m) as [[v r]| | |] eqn:Ev; cbn [obind] in Er; try discriminate.
  assert (raw0 = unpad (ps_pad p) v) by congruence. subst raw0. clear Er.
  destruct (decode_in_dom _ _ _ _ _ Hpe Ev) as (Hvd & Hvl & Hm0).
  destruct (dec_len_reencodable _ _ _ _ _ Hwf Hpp (conj HL Hlmax) Ed) as (Hmf & Hmi).
  pose proof (enc_dom_unpad (ps_enc p) (ps_pad p) v Hpe Hvd) as Hrd. pose proof (zlen_unpad (ps_pad p) v) as Hrl. pose proof (pad_ok_unpad (ps_pad p) v) as Hrok.
  remember (unpad (ps_pad p) v) as raw0 eqn:Eraw0. pose proof (zlen_nonneg raw0) as Hr0.
  (* the bytes handed to the packer, per kind *)
  assert (Hraw : exists raw1, prim_raw st = Ok raw1 /\ enc_dom (ps_enc p) raw1 = true /\
                   prim_setbytes (ps_kind p) (unpad (ps_pad p) (pad (ps_pad p) raw1 (ps_len p))) = Ok st /\
                   0 <= zlen raw1 /\ (zlen raw1 <= m \/ (zlen raw1 = 1 /\ ps_kind p = KNumeric)) /\ (ps_kind p <> KNumeric -> ps_pad p = PadNone -> zlen raw1 = m)).
  { destruct (ps_kind p) eqn:Ek; cbn [prim_setbytes] in Eset.
    - assert (st = SString raw0) by congruence. subst st. exists raw0. cbn [prim_raw]. rewrite unpad_pad by exact Hrok.
      repeat split; try assumption; try reflexivity; [left; lia|]. intros _ Hn. rewrite Eraw0, Hn. cbn [unpad]. exact Hvl.
    - destruct (Hnum eq_refl) as (Hl1 & Hpadn).
      assert (Hsn : exists z, st = SNumeric z) by (destruct raw0; [exists 0; congruence|]; destruct (atoi _) as [a|]; [exists a; congruence|discriminate]).
      destruct Hsn as (z & ->).
      destruct (numeric_restore (ps_pad p) (ps_len p) raw0 z HL ltac:(destruct (ps_pad p); tauto) Hrok Eset) as (Hres & Hzr & Hzl & Hzl2 & Hzd).
      exists (itoa z). cbn [prim_raw]. split; [reflexivity|]. split; [apply (itoa_dom _ _ raw0 Hpe Hzr Hrd Hzd)|]. split; [exact Hres|].
      split; [apply zlen_nonneg|]. split; [|intros Hc; contradiction]. destruct (atoi_itoa z Hzr) as (_ & Hne). pose proof (zlen_nonneg (itoa z)).
      assert (zlen (itoa z) <> 0) by (intros E; apply Hne; destruct (itoa z) as [|c0 t0]; [reflexivity|rewrite zlen_cons in E; pose proof (zlen_nonneg t0); lia]).
      destruct raw0 as [|c t] eqn:E0; [right; split; [change (zlen (@nil byte)) with 0 in Hzl; lia|reflexivity]|left]. specialize (Hzl2 ltac:(discriminate)). lia.
    - assert (st = SBinary raw0) by congruence. subst st. exists raw0. cbn [prim_raw]. rewrite unpad_pad by exact Hrok.
      repeat split; try assumption; try reflexivity; [left; lia|]. intros _ Hn. rewrite Eraw0, Hn. cbn [unpad]. exact Hvl.
    - assert (st = SHex (hex_encode_upper raw0)) by congruence. subst st. exists raw0. cbn [prim_raw]. rewrite hex_decode_encode, unpad_pad by exact Hrok.
      repeat split; try assumption; try reflexivity; [left; lia|]. intros _ Hn. rewrite Eraw0, Hn. cbn [unpad]. exact Hvl. }
  destruct Hraw as (raw1 & Hr1 & Hd1 & Hs1 & Hz1 & Hlen1 & Hnone1).
  set (padded := pad (ps_pad p) raw1 (ps_len p)).
  assert (HpadL : zlen padded = if (zlen raw1 <? ps_len p) && negb (match ps_pad p with PadNone => true | _ => false end) then ps_len p else zlen raw1) by apply zlen_pad.
  assert (Hmust : enc_must_fail (ps_pref p) (ps_len p) (zlen padded) = false).
  { apply (repack_len_ok p m (zlen padded) Hwf HL Hmf Hm0 Hfit (zlen raw1) Hz1); [|exact HpadL|].
    - destruct Hlen1 as [H|(H1 & Hk)]; [left; exact H|]. destruct (Hnum Hk) as (Hl1 & Hpn).
      destruct (ps_pref p) as [f| | |] eqn:Epf; [left; cbn [enc_must_fail] in Hmf; lia| | |]; (right; split; [exact H1|]; split; [exact Hl1|]; intros f0; discriminate).
    - intros Hpn. destruct (ps_kind p) eqn:Ek; try (left; apply Hnone1; [discriminate|exact Hpn]).
      right. destruct (Hnum eq_refl) as (_ & Hx). rewrite Hpn in Hx. exact Hx. }
  assert (Hmaxi : zlen padded <= max_int).
  { rewrite HpadL. destruct ((zlen raw1 <? ps_len p) && _); [lia|]. destruct Hlen1 as [H|(H1 & _)]; unfold max_int in *; lia. }
  split.
  - exists raw1. repeat split; try assumption. apply enc_dom_pad; assumption.
  - unfold prim_pack. rewrite Hr1. cbn [obind]. unfold prim_pack_raw. rewrite Hpk. fold padded.
    destruct (enc_roundtrip (ps_enc p) padded (enc_dom_pad _ _ _ _ Hpe Hpc Hd1)) as (w & Hw & _). rewrite Hw. cbn [obind].
    assert (Hg : go_len (zlen padded)) by (split; [apply zlen_nonneg|exact Hmaxi]).
    destruct (pref_enc_fails_iff (ps_pref p) (ps_len p) (zlen padded) Hwf Hg) as (Hok & _). rewrite Hmust in Hok. cbn [negb] in Hok.
    destruct (enc_len (ps_pref p) (ps_len p) (zlen padded)) as [pre| | |]; try discriminate. cbn [obind]. eexists. reflexivity.
Qed.
