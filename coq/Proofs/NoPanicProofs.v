(* C04: decoding never panics and never runs out of fuel, at every level of the model: for every specification in
   wfs (non-negative lengths, tags of positive width, fixed-prefix bitmaps) and every object the library can hold,
   Unpack of a field or of a message returns a count (0 <= n) or an error for every byte string.
   About Model/Field.v and Model/Message.v. *)
From Iso Require Import Model.Base Model.Padding Model.Encoding Model.Prefix Model.Bitmap Model.Spec Model.Field Model.Message
     Proofs.BaseLemmas Proofs.EncodingProofs Proofs.PrefixProofs Proofs.FieldProofs Proofs.BitmapProofs Proofs.CompositeProofs.
From Coq Require Import ZifyBool ZifyNat ZifyN.
Set Default Timeout 120.
Ltac Zify.zify_post_hook ::= Z.div_mod_to_equations.

Definition good (r : ures Z) : Prop := match r with UOk n => 0 <= n | UErr _ _ => True | _ => False end.

Fixpoint wfs (s : fspec) : Prop :=
  match s with
  | FPrim p => 0 <= ps_len p
  | FComp pref len mode subs =>
      0 <= len /\ NoDup (map fst subs) /\
      match mode with
      | CTag t => match tg_enc t with Some e => 1 <= tg_len t \/ e = EncBerTag | None => True end
      | CBitmap b => 1 <= bm_len b /\ (bm_enc b = EncBinary \/ bm_enc b = EncHex) /\ exists f, bm_pref b = PFixed f
      end /\
      (fix go (l : list (bytes * fspec)) : Prop := match l with [] => True | (_, s') :: r => wfs s' /\ go r end) subs
  end.

Lemma wfs_subs subs : (fix go (l : list (bytes * fspec)) : Prop := match l with [] => True | (_, s') :: r => wfs s' /\ go r end) subs ->
  forall tag s', In (tag, s') subs -> wfs s'.
Proof. induction subs as [|(t, s1) r IH]; intros H tag s' Hi; [destruct Hi|]. destruct H as (H1 & H2). destruct Hi as [Hi|Hi]; [congruence|eapply IH; eassumption]. Qed.

(* object states of the right shape: whatever state a subfield of the specification has, it is of that subfield's shape *)
Fixpoint okstate (s : fspec) (st : fstate) : Prop :=
  match s with
  | FPrim _ => True
  | FComp _ _ _ subs =>
      match st with
      | SComp _ sts => (fix go (l : list (bytes * fspec)) : Prop :=
                          match l with [] => True | (t, s') :: r => (forall x, blookup t sts = Some x -> okstate s' x) /\ go r end) subs
      | _ => False
      end
  end.

Lemma okstate_subs sts subs : (fix go (l : list (bytes * fspec)) : Prop :=
    match l with [] => True | (t, s') :: r => (forall x, blookup t sts = Some x -> okstate s' x) /\ go r end) subs <->
  (forall tag s' x, In (tag, s') subs -> blookup tag sts = Some x -> okstate s' x).
Proof.
  induction subs as [|(t, s1) r IH]; [split; [intros _ tag s' x []|reflexivity]|]. split.
  - intros (H1 & H2) tag s' x [Hi|Hi] Hx; [inversion Hi; subst; apply H1; exact Hx|]. eapply (proj1 IH); eassumption.
  - intros H. split; [intros x Hx; eapply H; [left; reflexivity|exact Hx]|]. apply IH. intros tag s' x Hi. apply H. right. exact Hi.
Qed.

Theorem fresh_okstate s : wfs s -> okstate s (fresh s).
Proof.
  induction s as [p|pref len mode subs IH] using fspec_ind'; intros Hw; [exact I|]. cbn [wfs] in Hw. destruct Hw as (_ & Hnd & _ & Hsubs).
  cbn [okstate fresh]. fold (gof subs). apply okstate_subs. intros tag s' x Hi Hx.
  rewrite blookup_gof, (In_blookup_nodup tag s' subs Hnd Hi) in Hx. cbn [option_map] in Hx. assert (x = fresh s') by congruence. subst x.
  apply (IH tag s' Hi). eapply wfs_subs; eassumption.
Qed.

(* a decoded tag of positive width, or a BER tag, takes at least one byte *)
Lemma tag_read_pos e d n v r : (1 <= n \/ e = EncBerTag) -> enc_decode e d n = Ok (v, r) -> 1 <= r.
Proof.
  intros Hn Hd. destruct e.
  9:{ unfold enc_decode in Hd. destruct (ber_tag_len d) as [k|] eqn:Ek; [|discriminate]. apply ber_tag_len_sound in Ek. assert (k = r) by congruence. lia. }
  all: destruct Hn as [Hn|Hn]; [|discriminate]; unfold enc_decode in Hd; crack Hd;
    match type of Hd with Ok (_, ?a) = Ok (_, _) => assert (a = r) by congruence end; lia.
Qed.

Section Loops.
  Variable subs : list (bytes * fspec).
  Hypothesis Hnd : NoDup (map fst subs).
  Hypothesis Hwf : forall tag s', In (tag, s') subs -> wfs s'.
  Hypothesis IH : forall tag s', In (tag, s') subs -> forall st d, okstate s' st ->
    good (snd (unpack_f s' st d)) /\ okstate s' (fst (unpack_f s' st d)).

  Definition StOK (sts : list (bytes * fstate)) : Prop :=
    forall tag s' x, In (tag, s') subs -> blookup tag sts = Some x -> okstate s' x.

  Lemma stok_update tag x sts : StOK sts -> (forall s', In (tag, s') subs -> okstate s' x) -> StOK (bupdate tag x sts).
  Proof.
    intros Hs Hx t s' y Hi Hy. destruct (bytes_eq_dec tag t) as [->|Hne].
    - destruct (blookup t sts) as [w|] eqn:Ew.
      + rewrite blookup_bupdate_same in Hy by (exists w; exact Ew). assert (y = x) by congruence. subst. apply Hx. exact Hi.
      + (* no entry: bupdate changes nothing *)
        assert (G : forall l : list (bytes * fstate), blookup t l = None -> bupdate t x l = l).
        { induction l as [|(k, v) r IHl]; [reflexivity|]. cbn [blookup bupdate]. destruct (bytes_eqb t k); [discriminate|]. intros H. rewrite IHl by exact H. reflexivity. }
        rewrite G in Hy by exact Ew. congruence.
    - rewrite blookup_bupdate_other in Hy by exact Hne. eapply Hs; eassumption.
  Qed.

  Lemma up_spec tag up : blookup tag (gou subs) = Some up -> exists s', In (tag, s') subs /\ up = unpack_f s'.
  Proof.
    rewrite blookup_gou. destruct (blookup tag subs) as [s'|] eqn:Es; [|discriminate]. cbn [option_map]. intros H.
    exists s'. split; [apply blookup_In; exact Es|congruence].
  Qed.

  Lemma fresh_of_ok tag st' : forall s', In (tag, s') subs -> okstate s' (fresh_of (gof subs) tag st').
  Proof.
    intros s' Hi. unfold fresh_of. rewrite blookup_gof, (In_blookup_nodup tag s' subs Hnd Hi). cbn [option_map].
    apply fresh_okstate. eapply Hwf. exact Hi.
  Qed.

  (* one subfield: the outcome is good, and whichever state is stored afterwards is of the subfield's shape *)
  Lemma sub_step tag up st d sts : blookup tag (gou subs) = Some up -> StOK sts -> blookup tag sts = Some st ->
    good (snd (up st d)) /\ (forall s', In (tag, s') subs -> okstate s' (fst (up st d))).
  Proof.
    intros Hup Hs Hst. destruct (up_spec tag up Hup) as (s' & Hi & ->).
    destruct (IH tag s' Hi st d (Hs tag s' st Hi Hst)) as (Hg & Ho). split; [exact Hg|].
    intros s2 Hi2. assert (s2 = s') by (pose proof (In_blookup_nodup tag s2 subs Hnd Hi2); pose proof (In_blookup_nodup tag s' subs Hnd Hi); congruence). subst. exact Ho.
  Qed.

  Lemma positional_good isvar : forall order data off set sts, 0 <= off -> StOK sts ->
    good (snd (unpack_positional (gou subs) (gof subs) order isvar data off set sts)) /\
    StOK (snd (fst (unpack_positional (gou subs) (gof subs) order isvar data off set sts))).
  Proof.
    induction order as [|tag rest IHo]; intros data off set sts Hoff Hs; cbn [unpack_positional]; [split; [exact Hoff|exact Hs]|].
    destruct (blookup tag (gou subs)) as [up|] eqn:Eup; [|apply IHo; assumption]. unfold sub_state. destruct (blookup tag sts) as [st|] eqn:Est; [|apply IHo; assumption].
    destruct (sub_step tag up st (zdrop off data) sts Eup Hs Est) as (Hg & Ho).
    destruct (up st (zdrop off data)) as [st' [read|p e|q|]]; cbn [fst snd good] in *; try contradiction.
    - destruct (isvar && (zlen data <=? off + read)); cbn [fst snd good]; [split; [lia|apply stok_update; assumption]|].
      apply IHo; [lia|apply stok_update; assumption].
    - split; [exact I|]. apply stok_update; [exact Hs|]. intros s' Hi. apply fresh_of_ok. exact Hi.
  Qed.

  Lemma by_tag_good t e : (1 <= tg_len t \/ e = EncBerTag) -> forall fuel data off set sts, 0 <= off ->
    (Z.to_nat (zlen data - off) < fuel)%nat -> StOK sts ->
    good (snd (unpack_by_tag (gou subs) (gof subs) fuel t e data off set sts)) /\
    StOK (snd (fst (unpack_by_tag (gou subs) (gof subs) fuel t e data off set sts))).
  Proof.
    intros Htag. induction fuel as [|f IHf]; intros data off set sts Hoff Hfuel Hs; [lia|]. cbn [unpack_by_tag].
    destruct (zlen data <=? off) eqn:Eend; cbn [fst snd good]; [split; assumption|].
    pose proof (enc_decode_total e (zdrop off data) (tg_len t)) as Ht.
    destruct (enc_decode e (zdrop off data) (tg_len t)) as [[tagb read]|e0|q|] eqn:Ed; try contradiction; cbn [fst snd good]; [|split; [exact I|exact Hs]].
    pose proof (tag_read_pos _ _ _ _ _ Htag Ed) as Hr1. pose proof (enc_decode_read_bounds _ _ _ _ _ Ed) as Hr2.
    assert (Hzd : zlen (zdrop off data) = zlen data - off) by (apply zlen_zdrop; lia).
    destruct (blookup (unpad (tg_pad t) tagb) (gou subs)) as [up|] eqn:Eup.
    - unfold sub_state. destruct (blookup (unpad (tg_pad t) tagb) sts) as [st|] eqn:Est; [|apply IHf; [lia|lia|exact Hs]].
      destruct (sub_step _ up st (zdrop (off + read) data) sts Eup Hs Est) as (Hg & Ho).
      destruct (up st (zdrop (off + read) data)) as [st' [read2|p e0|q|]]; cbn [fst snd good] in *; try contradiction.
      + apply IHf; [lia|lia|apply stok_update; assumption].
      + split; [exact I|]. apply stok_update; [exact Hs|]. intros s' Hi. apply fresh_of_ok. exact Hi.
    - destruct (skip_unknown t); cbn [fst snd good]; [|split; [exact I|exact Hs]].
      destruct (tg_prefunk t) as [pu|].
      + pose proof (dec_len_total pu max_int (zdrop (off + read) data)) as Ht2.
        destruct (dec_len pu max_int (zdrop (off + read) data)) as [[flen read2]|e0|q|] eqn:El; try contradiction; cbn [fst snd good]; [|split; [exact I|exact Hs]].
        assert (Hmx : 0 <= max_int) by (unfold max_int; lia).
        destruct (pref_dec_bounded pu max_int _ flen read2 Hmx El) as (Hf0 & _ & Hrd & _).
        destruct ((flen <? 0) || (zlen data - (off + read) - read2 <? flen)) eqn:Eb; cbn [fst snd good]; [split; [exact I|exact Hs]|].
        apply IHf; [lia|lia|exact Hs].
      + pose proof (dec_len_total PBerTLV 0 (zdrop (off + read) data)) as Ht2.
        destruct (dec_len PBerTLV 0 (zdrop (off + read) data)) as [[flen read2]|e0|q|] eqn:El; try contradiction; cbn [fst snd good]; [|split; [exact I|exact Hs]].
        destruct (pref_dec_bounded PBerTLV 0 _ flen read2 (Z.le_refl 0) El) as (Hf0 & _ & Hrd & _).
        destruct ((flen <? 0) || (zlen data - (off + read) - read2 <? flen)) eqn:Eb; cbn [fst snd good]; [split; [exact I|exact Hs]|].
        apply IHf; [lia|lia|exact Hs].
  Qed.

  Lemma bits_good bm : forall fuel i data off set sts, 0 <= off -> StOK sts ->
    good (snd (unpack_bits (gou subs) (gof subs) fuel bm i data off set sts)) /\
    StOK (snd (fst (unpack_bits (gou subs) (gof subs) fuel bm i data off set sts))).
  Proof.
    induction fuel as [|f IHf]; intros i data off set sts Hoff Hs; cbn [unpack_bits]; [split; [exact Hoff|exact Hs]|].
    destruct (bm_isset bm i); [|apply IHf; assumption].
    destruct (blookup (itoa i) (gou subs)) as [up|] eqn:Eup; cbn [fst snd good]; [|split; [exact I|exact Hs]].
    unfold sub_state. destruct (blookup (itoa i) sts) as [st|] eqn:Est; cbn [fst snd good]; [|split; [exact I|exact Hs]].
    destruct (sub_step _ up st (zdrop off data) sts Eup Hs Est) as (Hg & Ho).
    destruct (up st (zdrop off data)) as [st' [read|p e0|q|]]; cbn [fst snd good] in *; try contradiction.
    - apply IHf; [lia|apply stok_update; assumption].
    - split; [exact I|]. apply stok_update; [exact Hs|]. intros s' Hi. apply fresh_of_ok. exact Hi.
  Qed.
End Loops.

(* ---------------- bitmaps ---------------- *)
Lemma decoded_nonempty e d n v r : (e = EncBinary \/ e = EncHex) -> 1 <= n -> enc_decode e d n = Ok (v, r) -> v <> [] /\ 0 <= r.
Proof.
  intros He Hn Hd. destruct He as [-> | ->]; unfold enc_decode in Hd; crack Hd.
  - assert (v = ztake n d /\ r = n) by (split; congruence). destruct H as (-> & ->). split; [|lia].
    intros Hnil. assert (zlen (ztake n d) = n) by (apply zlen_ztake; lia). rewrite Hnil in H. cbn in H. lia.
  - rename Heqo into Hh. assert (Hv : v = b /\ r = 2 * n) by (split; congruence). destruct Hv as (-> & ->). split; [|lia].
    intros ->. apply hex_decode_len in Hh. assert (Hle : 2 * n <= zlen d) by lia.
    rewrite zlen_ztake in Hh by lia. change (zlen (@nil byte)) with 0 in Hh. lia.
Qed.

Lemma bm_loop_good s minLen : 1 <= minLen -> (bm_enc s = EncBinary \/ bm_enc s = EncHex) ->
  forall fuel rest read acc, 0 <= read -> (length rest < fuel)%nat ->
  match snd (bm_unpack_loop fuel s minLen rest read acc) with Ok n => 0 <= n | Err _ => True | _ => False end.
Proof.
  intros Hm He. induction fuel as [|f IH]; intros rest read acc Hr Hf; [lia|]. cbn [bm_unpack_loop].
  pose proof (enc_decode_total (bm_enc s) rest minLen) as Ht.
  destruct (enc_decode (bm_enc s) rest minLen) as [[decoded r]|e0|q|] eqn:Ed; try contradiction; cbn [snd]; [|exact I].
  destruct (decoded_nonempty _ _ _ _ _ He Hm Ed) as (Hne & Hr0). pose proof (enc_decode_read_bounds _ _ _ _ _ Ed) as Hrb.
  destruct (negb (bm_auto s)); cbn [snd]; [lia|]. destruct decoded as [|b0 t]; [contradiction|].
  destruct (bz b0 <? 128); cbn [snd]; [lia|]. apply IH; [lia|].
  assert (1 <= r) by (destruct He as [E|E]; rewrite E in Ed; unfold enc_decode in Ed; crack Ed; match type of Ed with Ok (_, ?a) = Ok (_, _) => assert (a = r) by congruence end; lia).
  unfold zdrop. rewrite skipn_length. unfold zlen in *. lia.
Qed.

Lemma bm_unpack_good b f data0 input : 1 <= bm_len b -> (bm_enc b = EncBinary \/ bm_enc b = EncHex) -> bm_pref b = PFixed f ->
  match snd (bm_unpack b data0 input) with Ok n => 0 <= n | Err _ => True | _ => False end.
Proof.
  intros HB He Hp. unfold bm_unpack. rewrite Hp. cbn [dec_len]. apply bm_loop_good; [exact HB|exact He|lia|lia].
Qed.

(* ---------------- fields ---------------- *)
Lemma prim_unpack_good p st d : 0 <= ps_len p -> good (snd (prim_unpack p st d)).
Proof.
  intros HL. unfold prim_unpack. pose proof (prim_unpack_raw_total p d HL) as Ht.
  destruct (prim_unpack_raw p d) as [[raw n]|e0|q|] eqn:Er; try contradiction; cbn [snd good]; [|exact I].
  assert (Hn : 0 <= n).
  { unfold prim_unpack_raw in Er. destruct (dec_len (ps_pref p) (ps_len p) d) as [[k pb]|e1|q1|] eqn:Ed; cbn [obind] in Er; try discriminate.
    destruct (pref_dec_bounded _ _ _ _ _ HL Ed) as (_ & _ & Hpb & _).
    destruct ((pb <? 0) || (zlen d <? pb)); [discriminate|].
    match type of Er with context [enc_decode ?e ?x ?k] => destruct (enc_decode e x k) as [[v r]|e2|q2|] eqn:Ee; cbn [obind] in Er; try discriminate end.
    pose proof (enc_decode_read_bounds _ _ _ _ _ Ee). assert (n = r + pb) by congruence. lia. }
  destruct (prim_setbytes (ps_kind p) raw) as [st'|e1|q1|] eqn:Es; cbn [snd good]; try exact Hn; try exact I.
  - destruct (ps_kind p); cbn [prim_setbytes] in Es; try discriminate. destruct raw; [discriminate|]. destruct (atoi (b :: raw)); discriminate.
  - destruct (ps_kind p); cbn [prim_setbytes] in Es; try discriminate. destruct raw; [discriminate|]. destruct (atoi (b :: raw)); discriminate.
Qed.

Theorem unpack_f_good : forall s, wfs s -> forall st d, okstate s st ->
  good (snd (unpack_f s st d)) /\ okstate s (fst (unpack_f s st d)).
Proof.
  induction s as [p|pref len mode subs IH] using fspec_ind'; intros Hw st d Hok.
  - cbn [unpack_f okstate]. split; [apply prim_unpack_good; exact Hw|exact I].
  - cbn [wfs] in Hw. destruct Hw as (HL & Hnd & Hmode & Hsubs). pose proof (wfs_subs subs Hsubs) as Hws.
    destruct st as [| | | |set sts]; try contradiction. cbn [okstate] in Hok. rewrite okstate_subs in Hok.
    assert (IH' : forall tag s', In (tag, s') subs -> forall st d, okstate s' st -> good (snd (unpack_f s' st d)) /\ okstate s' (fst (unpack_f s' st d)))
      by (intros tag s' Hi; apply (IH tag s' Hi); eapply Hws; exact Hi).
    cbn [unpack_f]. fold (gou subs). fold (gof subs).
    pose proof (dec_len_total pref len d) as Ht.
    destruct (dec_len pref len d) as [[dlen offset]|e0|q|] eqn:Ed; try contradiction; cbn [fst snd good].
    2:{ split; [exact I|]. cbn [okstate]. apply okstate_subs. exact Hok. }
    destruct (pref_dec_bounded _ _ _ _ _ HL Ed) as (_ & _ & Hoff & _).
    destruct ((dlen <? 0) || (zlen d - offset <? dlen)); cbn [fst snd good]; [split; [exact I|cbn [okstate]; apply okstate_subs; exact Hok]|].
    cbv zeta. unfold comp_unpack_body. cbv zeta.
    set (rsts := reset_set (gof subs) set sts).
    assert (Hrs : StOK subs rsts).
    { intros tag s' x Hi Hx. unfold rsts in Hx. rewrite blookup_reset in Hx. destruct (blookup tag sts) as [y|] eqn:Ey; [|discriminate].
      destruct (bmem tag set).
      - rewrite blookup_gof, (In_blookup_nodup tag s' subs Hnd Hi) in Hx. cbn [option_map] in Hx. assert (x = fresh s') by congruence. subst. apply fresh_okstate. eapply Hws. exact Hi.
      - assert (x = y) by congruence. subst. eapply Hok; eassumption. }
    match goal with |- context [let (p, r) := ?X in _] =>
      assert (Hi : good (snd X) /\ StOK subs (snd (fst X)));
      [|destruct X as [[set' sts'] r]; cbn [fst snd] in Hi; destruct Hi as (Hg & Hs); destruct r as [read|pth e1|q1|]; cbn [good] in Hg; try contradiction;
        [destruct (negb (dlen =? read)); cbn [fst snd good]; (split; [try exact I; lia|cbn [okstate]; apply okstate_subs; exact Hs])
        |cbn [fst snd good]; split; [exact I|cbn [okstate]; apply okstate_subs; exact Hs]]] end.
    destruct mode as [t|b].
    + destruct (tg_enc t) as [e|].
      * apply by_tag_good; try assumption; [lia|]. rewrite Nat2Z.id || idtac. unfold zlen. lia.
      * apply positional_good; try assumption. lia.
    + destruct Hmode as (HB & He & (f & Hp)).
      pose proof (bm_unpack_good b f (bm_new b) (ztake dlen (zdrop offset d)) HB He Hp) as Hbg.
      destruct (bm_unpack b (bm_new b) (ztake dlen (zdrop offset d))) as [bm [read|e1|q1|]]; cbn [fst snd good] in *; try contradiction; [|split; [exact I|exact Hrs]].
      apply bits_good; assumption.
Qed.

(* ---------------- messages ---------------- *)
Definition wfm (S : mspec) : Prop :=
  0 <= ps_len (ms_mti S) /\ 1 <= bm_len (ms_bm S) /\ (bm_enc (ms_bm S) = EncBinary \/ bm_enc (ms_bm S) = EncHex) /\
  (exists f, bm_pref (ms_bm S) = PFixed f) /\ forall id s, zlookup id (ms_fields S) = Some s -> wfs s.

Definition okmsg (S : mspec) (fields : list (Z * fstate)) : Prop :=
  forall id s st, zlookup id (ms_fields S) = Some s -> zlookup id fields = Some st -> okstate s st.

Lemma zlookup_zupdate_any {A} i k (v : A) l : zlookup k (zupdate i v l) = if (k =? i) then match zlookup k l with Some _ => Some v | None => None end else zlookup k l.
Proof.
  induction l as [|(k', v') r IH]; cbn [zupdate zlookup]; [destruct (k =? i); reflexivity|].
  destruct (i =? k') eqn:E; cbn [zlookup].
  - assert (k' = i) by lia. subst k'. destruct (k =? i) eqn:E2; reflexivity.
  - destruct (k =? k') eqn:E3; [assert (k = k') by lia; subst; replace (k' =? i) with false by lia; reflexivity|exact IH].
Qed.

Lemma unpack_fields_good S bm : wfm S -> forall fuel i src off present fields, 0 <= off -> okmsg S fields ->
  good (snd (unpack_fields fuel S bm i src off present fields)) /\ okmsg S (snd (fst (unpack_fields fuel S bm i src off present fields))).
Proof.
  intros (_ & _ & _ & _ & Hws). induction fuel as [|f IH]; intros i src off present fields Hoff Hok; cbn [unpack_fields]; [split; [exact Hoff|exact Hok]|].
  destruct (bm_is_presence_bit (ms_bm S) i); [apply IH; assumption|]. destruct (bm_isset bm i); [|apply IH; assumption].
  destruct (zlookup i (ms_fields S)) as [s|] eqn:Es; cbn [fst snd good]; [|split; [exact I|exact Hok]].
  destruct (zlookup i fields) as [st|] eqn:Est; cbn [fst snd good]; [|split; [exact I|exact Hok]].
  destruct (unpack_f_good s (Hws i s Es) st (zdrop off src) (Hok i s st Es Est)) as (Hg & Ho).
  assert (Hupd : forall x, okstate s x -> okmsg S (zupdate i x fields)).
  { intros x Hx k s2 y Hs2 Hy. rewrite zlookup_zupdate_any in Hy. destruct (k =? i) eqn:E; [|eapply Hok; eassumption].
    assert (k = i) by lia. subst k. destruct (zlookup i fields); [|discriminate]. assert (y = x) by congruence. assert (s2 = s) by congruence. subst. exact Hx. }
  destruct (unpack_f s st (zdrop off src)) as [st' [read|p e|q|]]; cbn [fst snd good] in *; try contradiction.
  - apply IH; [lia|apply Hupd; exact Ho].
  - split; [exact I|apply Hupd; exact Ho].
Qed.

Theorem m_unpack_good S m d : wfm S -> okmsg S (m_fields m) -> good (snd (m_unpack S m d)).
Proof.
  intros Hw Hok. pose proof Hw as (HL & HB & He & (f & Hp) & Hws). unfold m_unpack. cbv zeta.
  set (a := with_bm (m_bitmap S (with_present (with_failed (with_fields m (reset_fields S (m_failed m) (m_present m) (m_fields m))) []) [])) (bm_new (ms_bm S))).
  assert (Hfa : m_fields a = reset_fields S (m_failed m) (m_present m) (m_fields m) /\ m_bm a = bm_new (ms_bm S))
    by (unfold a, m_bitmap, with_present, with_fields, with_bm, with_failed; cbn [m_bmcached]; destruct (m_bmcached m); split; reflexivity).
  destruct Hfa as (Hfa & Hba).
  assert (Hoka : okmsg S (m_fields a)).
  { rewrite Hfa. intros id s st Hs Hst. unfold reset_fields in Hst.
    assert (G : forall l, zlookup id (map (fun ist : Z * fstate => if zmem (fst ist) (m_present m) || bytes_eqb (itoa (fst ist)) (m_failed m)
                  then match zlookup (fst ist) (ms_fields S) with Some s0 => (fst ist, fresh s0) | None => ist end else ist) l) = Some st ->
                (exists y, zlookup id l = Some y /\ (st = y \/ st = fresh s))).
    { induction l as [|(k, v) r IHl]; [discriminate|]. cbn [map fst zlookup]. destruct (id =? k) eqn:E.
      - assert (k = id) by lia. subst k. intros H. exists v. split; [reflexivity|].
        destruct (zmem id (m_present m) || bytes_eqb (itoa id) (m_failed m)).
        + rewrite Hs in H. cbn [zlookup] in H. rewrite Z.eqb_refl in H. right. congruence.
        + cbn [zlookup] in H. rewrite Z.eqb_refl in H. left. congruence.
      - intros H. apply IHl. destruct (zmem k (m_present m) || bytes_eqb (itoa k) (m_failed m)); [destruct (zlookup k (ms_fields S))|]; cbn [zlookup fst] in H; rewrite E in H; exact H. }
    destruct (G _ Hst) as (y & Hy & [-> | ->]); [eapply Hok; eassumption|apply fresh_okstate; eapply Hws; exact Hs]. }
  cbn [unpack_f]. pose proof (prim_unpack_good (ms_mti S) (m_mti a) d HL) as Hg0.
  destruct (prim_unpack (ms_mti S) (m_mti a) d) as [mt [read|p e|q|]]; cbn [fst snd good] in *; try contradiction; [|exact I].
  cbn [with_present with_mti with_bm with_fields m_bm m_present m_fields m_mti]. rewrite Hba.
  pose proof (bm_unpack_good (ms_bm S) f (bm_new (ms_bm S)) (zdrop read d) HB He Hp) as Hgb.
  destruct (bm_unpack (ms_bm S) (bm_new (ms_bm S)) (zdrop read d)) as [bm [r2|e|q|]]; cbn [fst snd good] in *; try contradiction; [|exact I].
  destruct (unpack_fields_good S bm Hw (Z.to_nat (zlen bm * 8 - 1)) 2 d (read + r2) (zadd 1 (zadd 0 (m_present a))) (m_fields a) ltac:(lia) Hoka) as (Hg & _).
  destruct (unpack_fields (Z.to_nat (zlen bm * 8 - 1)) S bm 2 d (read + r2) (zadd 1 (zadd 0 (m_present a))) (m_fields a)) as [[p0 f0] u]. cbn [fst snd] in *. exact Hg.
Qed.
