(* Primitive fields: pack / unpack round trip, length enforcement. About Model/Field.v. *)
From Iso Require Import Model.Base Model.Padding Model.Encoding Model.Prefix Model.Bitmap Model.Spec Model.Field
     Proofs.BaseLemmas Proofs.PaddingProofs Proofs.EncodingProofs Proofs.DigitsProofs Proofs.PrefixProofs.
From Coq Require Import ZifyBool ZifyNat ZifyN.

(* ---------------- the domain of a primitive field (DESIGN.md section 2.2) ---------------- *)
(* value encodings: every encoder but the two tag-only ones *)
Definition value_enc (e : encoder) : bool := match e with EncHexToBytes | EncBerTag => false | _ => true end.

Definition pad_ok (p : padder) (raw : bytes) : bool :=
  match p with
  | PadNone => true
  | PadLeft c => negb (starts_with c raw)
  | PadRight c => negb (ends_with c raw)
  end.

(* canonical object states: what Unpack itself produces *)
Definition canonical_state (k : fkind) (st : fstate) : Prop :=
  match k, st with
  | KString, SString _ => True
  | KNumeric, SNumeric z => 0 <= z <= max_int
  | KBinary, SBinary _ => True
  | KHex, SHex v => exists b, v = hex_encode_upper b
  | _, _ => False
  end.

Definition coherent_pspec (p : pspec) : Prop :=
  wf_pref (ps_pref p) /\ value_enc (ps_enc p) = true /\ ps_packer p = PkDefault /\ 0 <= ps_len p.

(* the domain of a primitive field: the values Pack then Unpack reproduces - the padded value lies in the encoder's
   domain, and removing the padding and storing the bytes (SetBytes) gives the object state back *)
Definition prim_in_domain (p : pspec) (st : fstate) : Prop :=
  exists raw, prim_raw st = Ok raw /\
              prim_setbytes (ps_kind p) (unpad (ps_pad p) (pad (ps_pad p) raw (ps_len p))) = Ok st /\
              enc_dom (ps_enc p) (pad (ps_pad p) raw (ps_len p)) = true /\
              (* Go slices are shorter than 2^63 *)
              zlen (pad (ps_pad p) raw (ps_len p)) <= max_int.

(* a sufficient condition: a canonical state whose bytes do not begin (end) with the pad character *)
Definition prim_in_domain_strict (p : pspec) (st : fstate) : Prop :=
  canonical_state (ps_kind p) st /\
  exists raw, prim_raw st = Ok raw /\ pad_ok (ps_pad p) raw = true /\
              enc_dom (ps_enc p) (pad (ps_pad p) raw (ps_len p)) = true /\
              zlen (pad (ps_pad p) raw (ps_len p)) <= max_int.

Lemma itoa_atoi z : 0 <= z <= max_int -> atoi (itoa z) = Some z /\ itoa z <> [].
Proof.
  intros H. pose proof (atoi_sprintf0d 0 z H) as Ha. unfold sprintf0d in Ha. replace (z <? 0) with false in Ha by lia.
  cbn [Nat.sub repeat app] in Ha. split; [exact Ha|]. intros E. rewrite E in Ha. discriminate.
Qed.

Lemma setbytes_canonical k st raw : canonical_state k st -> prim_raw st = Ok raw -> prim_setbytes k raw = Ok st.
Proof.
  intros Hc Hr. destruct k, st; cbn [canonical_state] in Hc; try contradiction; cbn [prim_raw] in Hr.
  - assert (raw = v) by congruence. subst. reflexivity.
  - assert (raw = itoa v) by congruence. subst raw. destruct (itoa_atoi v Hc) as (Ha & Hn). cbn [prim_setbytes].
    destruct (itoa v) eqn:E; [contradiction|]. rewrite Ha. reflexivity.
  - assert (raw = v) by congruence. subst. reflexivity.
  - destruct Hc as (b & ->). rewrite hex_decode_encode in Hr. assert (raw = b) by congruence. subst. reflexivity.
Qed.

Lemma unpad_pad p raw n : pad_ok p raw = true -> unpad p (pad p raw n) = raw.
Proof.
  destruct p as [|c|c]; cbn [pad_ok]; intros H.
  - reflexivity.
  - apply unpad_pad_left. destruct (starts_with c raw); [discriminate|reflexivity].
  - apply unpad_pad_right. destruct (ends_with c raw); [discriminate|reflexivity].
Qed.

Lemma value_enc_units e x w : value_enc e = true -> enc_units e x w = zlen x /\ enc_canon e x w = x.
Proof. destruct e; cbn; intros H; try discriminate; split; reflexivity. Qed.

Lemma prim_in_domain_of_strict p st : prim_in_domain_strict p st -> prim_in_domain p st.
Proof.
  intros (Hcan & raw & Hraw & Hpad & Hdom & Hmax). exists raw. split; [exact Hraw|]. split; [|split; assumption].
  rewrite unpad_pad by exact Hpad. apply setbytes_canonical; assumption.
Qed.

(* Pack then Unpack of a primitive field: same state, exactly the packed bytes consumed, whatever follows
   and whatever the object held before *)
Theorem prim_roundtrip p st b : coherent_pspec p -> prim_in_domain p st -> prim_pack p st = Ok b ->
  forall st0 rest, prim_unpack p st0 (b ++ rest) = (st, UOk (zlen b)).
Proof.
  intros (Hwf & Hve & Hpk & HL) (raw & Hraw & Hset & Hdom & Hmax) Hp st0 rest.
  unfold prim_pack in Hp. rewrite Hraw in Hp. cbn [obind] in Hp. unfold prim_pack_raw in Hp. rewrite Hpk in Hp.
  set (v := pad (ps_pad p) raw (ps_len p)) in *.
  destruct (enc_roundtrip (ps_enc p) v Hdom) as (w & Hw & Hrt). rewrite Hw in Hp. cbn [obind] in Hp.
  destruct (value_enc_units (ps_enc p) v w Hve) as (Hu & Hc). rewrite Hu, Hc in Hrt.
  destruct (enc_len (ps_pref p) (ps_len p) (zlen v)) as [pre| | |] eqn:Epre; cbn [obind] in Hp; try discriminate.
  assert (b = pre ++ w) by congruence. subst b. clear Hp.
  assert (Hgo : go_len (zlen v)) by (unfold go_len; pose proof (zlen_nonneg v); unfold v in *; lia).
  destruct (pref_roundtrip (ps_pref p) (ps_len p) (zlen v) pre Hwf Hgo Epre) as (_ & _ & Hdec).
  unfold prim_unpack, prim_unpack_raw. rewrite <- app_assoc, Hdec. cbn [obind].
  pose proof (zlen_nonneg pre). pose proof (zlen_nonneg w). pose proof (zlen_nonneg rest).
  replace ((zlen pre <? 0) || (zlen (pre ++ w ++ rest) <? zlen pre)) with false by (rewrite !zlen_app; lia).
  rewrite Hpk, zdrop_app, Hrt. cbn [obind]. subst v. rewrite Hset. f_equal. f_equal. rewrite zlen_app. lia.
Qed.

(* ---------------- C08: declared lengths are enforced ---------------- *)
(* Pack succeeds only if the padded value respects the declared length and the prefix's digits *)
Theorem prim_pack_enforces p st b : wf_pref (ps_pref p) -> ps_packer p = PkDefault -> prim_pack p st = Ok b ->
  exists raw, prim_raw st = Ok raw /\
    let n := zlen (pad (ps_pad p) raw (ps_len p)) in
    (n <= max_int -> enc_must_fail (ps_pref p) (ps_len p) n = false).
Proof.
  intros Hwf Hpk Hp. unfold prim_pack in Hp. destruct (prim_raw st) as [raw| | |]; cbn [obind] in Hp; try discriminate.
  exists raw. split; [reflexivity|]. intros n Hn. unfold prim_pack_raw in Hp. rewrite Hpk in Hp.
  destruct (enc_encode (ps_enc p) _) as [w| | |]; cbn [obind] in Hp; try discriminate.
  fold n in Hp. destruct (enc_len (ps_pref p) (ps_len p) n) as [pre| | |] eqn:E; cbn [obind] in Hp; try discriminate.
  assert (Hg : go_len n) by (unfold go_len, n; pose proof (zlen_nonneg (pad (ps_pad p) raw (ps_len p))); fold n; lia).
  destruct (pref_enc_fails_iff (ps_pref p) (ps_len p) n Hwf Hg) as (Hok & _). rewrite E in Hok. cbn [is_ok] in Hok.
  destruct (enc_must_fail (ps_pref p) (ps_len p) n); [discriminate|reflexivity].
Qed.

(* what "must not fail" means, spelled out *)
Lemma enc_must_fail_false p max n : enc_must_fail p max n = false ->
  match p with
  | PFixed _ => n = max
  | PVar _ _ => n <= max /\ pref_fits p n = true
  | PBerTLV => max = 0 \/ n <= max
  | PNone => True
  end.
Proof.
  destruct p as [f|f d| |]; cbn [enc_must_fail]; intros H; try exact I; try lia.
  all: try apply orb_false_iff in H. all: try (destruct H as [H1 H2]; apply negb_false_iff in H2; split; [lia|exact H2]).
Qed.

(* Unpack accepts a field only if the announced length is within the declared maximum and the bytes
   needed for it are available *)
Theorem prim_unpack_enforces p data raw n : 0 <= ps_len p -> ps_enc p <> EncBerTag -> prim_unpack_raw p data = Ok (raw, n) ->
  exists m pb, dec_len (ps_pref p) (ps_len p) data = Ok (m, pb) /\ 0 <= m /\
    (pref_bounded (ps_pref p) (ps_len p) = true -> m <= ps_len p) /\
    0 <= pb <= n /\ n <= zlen data /\
    (ps_packer p = PkDefault -> enc_min_bytes (ps_enc p) m <= zlen data - pb).
Proof.
  intros HL He H. unfold prim_unpack_raw in H.
  destruct (dec_len (ps_pref p) (ps_len p) data) as [[m pb]| | |] eqn:Ed; cbn [obind] in H; try discriminate.
  destruct (pref_dec_bounded _ _ _ _ _ HL Ed) as (Hm & Hb & Hpb & _).
  destruct ((pb <? 0) || (zlen data <? pb)) eqn:E1; [discriminate|].
  destruct (enc_decode (ps_enc p) (zdrop pb data) _) as [[v r]| | |] eqn:Ev; cbn [obind] in H; try discriminate.
  pose proof (enc_decode_read_bounds _ _ _ _ _ Ev) as Hr. rewrite zlen_zdrop in Hr by lia.
  assert (n = r + pb) by congruence. subst n.
  exists m, pb. split; [reflexivity|]. split; [exact Hm|]. split; [exact Hb|]. split; [lia|]. split; [lia|].
  intros Hpk. rewrite Hpk in Ev.
  destruct (Z_le_gt_dec (enc_min_bytes (ps_enc p) m) (zlen data - pb)) as [L|G]; [exact L|exfalso].
  assert (Hs : is_err (enc_decode (ps_enc p) (zdrop pb data) m) = true).
  { apply enc_decode_rejects; [exact He|]. right. rewrite zlen_zdrop by lia. lia. }
  rewrite Ev in Hs. discriminate.
Qed.

(* ---------------- totality of the leaf decoders: Ok or Err, never a panic ---------------- *)
Lemma enc_decode_total e d n : match enc_decode e d n with Ok _ | Err _ => True | _ => False end.
Proof.
  destruct e; unfold enc_decode;
    repeat match goal with
           | |- context [if ?c then _ else _] => destruct c
           | |- context [match ?x with Some _ => _ | None => _ end] => destruct x
           end; exact I.
Qed.

Lemma dec_len_total p max d : match dec_len p max d with Ok _ | Err _ => True | _ => False end.
Proof.
  destruct p as [f|f dg| |]; cbn [dec_len]; try exact I.
  - destruct f; cbv zeta; unfold check_decoded;
      repeat match goal with
             | |- context [if ?c then _ else _] => destruct c
             | |- context [match ?x with Some _ => _ | None => _ end] => destruct x
             | |- context [obind ?o _] => let E := fresh in pose proof (enc_decode_total EncBCD (ztake ((Z.of_nat dg + 1) / 2) d) (Z.of_nat dg)) as E;
                                          pose proof (enc_decode_total EncEBCDIC (ztake (Z.of_nat dg) d) (Z.of_nat dg));
                                          pose proof (enc_decode_total EncEBCDIC1047 (ztake (Z.of_nat dg) d) (Z.of_nat dg));
                                          destruct o as [[? ?]| | |]; cbn [obind]; try contradiction
             end; try exact I.
  - destruct d as [|b t]; [exact I|]. cbv zeta.
    repeat match goal with |- context [if ?c then _ else _] => destruct c end; exact I.
Qed.

(* a primitive field's Unpack never panics, for any bytes, under any of the 43 prefixers *)
Theorem prim_unpack_raw_total p data : 0 <= ps_len p ->
  match prim_unpack_raw p data with Ok _ | Err _ => True | _ => False end.
Proof.
  intros HL. unfold prim_unpack_raw. pose proof (dec_len_total (ps_pref p) (ps_len p) data) as Ht.
  destruct (dec_len (ps_pref p) (ps_len p) data) as [[n pb]| | |] eqn:Ed; cbn [obind]; try contradiction; try exact I.
  destruct (pref_dec_bounded _ _ _ _ _ HL Ed) as (_ & _ & Hpb & _).
  replace ((pb <? 0) || (zlen data <? pb)) with false by lia.
  match goal with |- context [enc_decode ?e ?d ?k] => pose proof (enc_decode_total e d k) as Ht2; destruct (enc_decode e d k) as [[v r]| | |] end;
    cbn [obind]; try contradiction; exact I.
Qed.

(* the result of a primitive Unpack does not depend on what the object held before *)
Theorem prim_unpack_state_independent p st0 st1 data :
  snd (prim_unpack p st0 data) = snd (prim_unpack p st1 data) /\
  (u_is_ok (snd (prim_unpack p st0 data)) = true -> fst (prim_unpack p st0 data) = fst (prim_unpack p st1 data)).
Proof.
  unfold prim_unpack. destruct (prim_unpack_raw p data) as [[raw n]| | |]; cbn [fst snd u_is_ok]; try (split; [reflexivity|discriminate]).
  destruct (prim_setbytes (ps_kind p) raw); cbn [fst snd u_is_ok]; split; try reflexivity; try discriminate.
Qed.

(* ---------------- composites: the declared total length is enforced (C08) ---------------- *)
Theorem comp_pack_enforces pref len mode subs st b : wf_pref pref -> pack_f (FComp pref len mode subs) st = Ok b ->
  exists body, (zlen body <= max_int -> enc_must_fail pref len (zlen body) = false) /\
               exists pre, b = pre ++ body /\ enc_len pref len (zlen body) = Ok pre.
Proof.
  intros Hwf H. cbn [pack_f] in H. destruct st as [| | | |set sts]; try discriminate.
  match type of H with obind ?o _ = _ => destruct o as [body| | |] eqn:Eb end; cbn [obind] in H; try discriminate.
  destruct (enc_len pref len (zlen body)) as [pre| | |] eqn:Ep; cbn [obind] in H; try discriminate.
  exists body. split.
  - intros Hm. assert (Hg : go_len (zlen body)) by (unfold go_len; pose proof (zlen_nonneg body); lia).
    destruct (pref_enc_fails_iff pref len (zlen body) Hwf Hg) as (Hok & _). rewrite Ep in Hok. cbn [is_ok] in Hok.
    destruct (enc_must_fail pref len (zlen body)); [discriminate|reflexivity].
  - exists pre. split; [congruence|exact Ep].
Qed.

Theorem comp_unpack_enforces pref len mode subs st data st' n : 0 <= len ->
  unpack_f (FComp pref len mode subs) st data = (st', UOk n) ->
  exists dlen offset, dec_len pref len data = Ok (dlen, offset) /\ 0 <= dlen /\
    (pref_bounded pref len = true -> dlen <= len) /\ dlen <= zlen data - offset /\ n = offset + dlen.
Proof.
  intros HL H. cbn [unpack_f] in H. destruct st as [| | | |set sts]; try discriminate.
  destruct (dec_len pref len data) as [[dlen offset]| | |] eqn:Ed; try discriminate.
  destruct (pref_dec_bounded _ _ _ _ _ HL Ed) as (H0 & Hb & _ & _).
  destruct ((dlen <? 0) || (zlen data - offset <? dlen)) eqn:E1; [discriminate|].
  match type of H with context [comp_unpack_body ?a ?b ?c ?d ?e ?f] => destruct (comp_unpack_body a b c d e f) as [[set' sts'] r] end.
  destruct r as [read| | |]; try discriminate.
  destruct (negb (dlen =? read)) eqn:E2; [discriminate|].
  exists dlen, offset. split; [reflexivity|]. split; [exact H0|]. split; [exact Hb|]. split; [lia|].
  assert (offset + read = n) by congruence. apply negb_false_iff in E2. lia.
Qed.
