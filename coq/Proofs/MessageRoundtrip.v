(* Messages: Pack then Unpack reproduces the message (MTI, bitmap with continuation blocks, data elements in
   ascending order over any coherent nested field specifications). About Model/Message.v. *)
From Iso Require Import Model.Base Model.Padding Model.Encoding Model.Prefix Model.Bitmap Model.Spec Model.Field Model.Message
     Proofs.BaseLemmas Proofs.PaddingProofs Proofs.EncodingProofs Proofs.DigitsProofs Proofs.PrefixProofs Proofs.FieldProofs
     Proofs.BitmapProofs Proofs.CompositeProofs Proofs.StateProofs.
From Coq Require Import ZifyBool ZifyNat ZifyN Sorting.Permutation Sorting.Sorted.
Set Default Timeout 120.

Lemma zlookup_zupdate_other {A} k k' (v : A) l : k <> k' -> zlookup k' (zupdate k v l) = zlookup k' l.
Proof.
  intros Hn. induction l as [|(k2, v2) r IH]; cbn [zlookup zupdate]; [reflexivity|].
  destruct (k =? k2) eqn:E; cbn [zlookup].
  - assert (k2 = k) by lia. subst k2. replace (k' =? k) with false by lia. reflexivity.
  - rewrite IH. reflexivity.
Qed.
Lemma zmem_In k l : zmem k l = true <-> In k l.
Proof.
  unfold zmem. rewrite existsb_exists. split.
  - intros (x & Hi & He). assert (x = k) by lia. subst. exact Hi.
  - intros H. exists k. split; [exact H|lia].
Qed.
Lemma zmem_app k a b : zmem k (a ++ b) = zmem k a || zmem k b.
Proof. unfold zmem. apply existsb_app. Qed.
Lemma zmem_zadd k k' l : zmem k' (zadd k l) = (k' =? k) || zmem k' l.
Proof.
  unfold zadd. destruct (zmem k l) eqn:E.
  - destruct (k' =? k) eqn:E2; [|reflexivity]. assert (k' = k) by lia. subst. rewrite E. reflexivity.
  - rewrite zmem_app. cbn [zmem existsb]. rewrite Bool.orb_false_r. apply Bool.orb_comm.
Qed.

(* ---------------- the data elements: the loop over the bitmap against the ascending list of ids ---------------- *)
Section Fields.
  Variable S : mspec.
  Variable bm : bytes.
  Variable m : mstate.            (* the packed message: states of the data elements *)
  Variable rest : bytes.
  Let N := zlen bm * 8.

  Lemma unpack_fields_rt : forall fuel i l body,
    i + Z.of_nat fuel = N + 1 -> 2 <= i ->
    StronglySorted Z.lt l ->
    (forall id, In id l -> i <= id <= N /\ bm_isset bm id = true /\ bm_is_presence_bit (ms_bm S) id = false /\
                           exists s st, zlookup id (ms_fields S) = Some s /\ zlookup id (m_fields m) = Some st /\ coherent s /\ in_dom s st) ->
    (forall j, i <= j <= N -> bm_isset bm j = true -> bm_is_presence_bit (ms_bm S) j = false -> In j l) ->
    pack_ids S m bm l = Ok body ->
    forall src off pre present fields, src = pre ++ body ++ rest -> off = zlen pre ->
    (forall id s, zlookup id (ms_fields S) = Some s -> exists st, zlookup id fields = Some st /\ shaped s st) ->
    exists p' f', unpack_fields fuel S bm i src off present fields = ((p', f'), UOk (zlen pre + zlen body)) /\
      (forall id, zmem id p' = zmem id present || zmem id l) /\
      (forall id, In id l -> exists s x y, zlookup id (ms_fields S) = Some s /\ zlookup id (m_fields m) = Some x /\ zlookup id f' = Some y /\
                                           equiv s x y /\ pack_f s y = pack_f s x /\ shaped s y) /\
      (forall id, ~ In id l -> zlookup id f' = zlookup id fields).
  Proof.
    induction fuel as [|f IH]; intros i l body Hi Hi2 Hsorted Hl Hall Hp src off pre present fields Hsrc Hoff Hshp.
    - (* past the last bit: nothing is left *)
      assert (l = []) by (destruct l as [|x l']; [reflexivity|destruct (Hl x (or_introl eq_refl)) as (Hr & _); lia]). subst l.
      cbn [pack_ids] in Hp. assert (body = []) by congruence. subst body. cbn [unpack_fields]. exists present, fields.
      split; [subst off; f_equal; f_equal; zlens; lia|]. split; [intros id; cbn; rewrite Bool.orb_false_r; reflexivity|].
      split; [intros id []|reflexivity].
    - cbn [unpack_fields].
      assert (Hnext : forall l', (forall id, In id l' -> In id l /\ id <> i) -> (forall id, In id l -> id <> i -> In id l') ->
                forall id, In id l' -> i + 1 <= id <= N /\ bm_isset bm id = true /\ bm_is_presence_bit (ms_bm S) id = false /\
                   exists s st, zlookup id (ms_fields S) = Some s /\ zlookup id (m_fields m) = Some st /\ coherent s /\ in_dom s st).
      { intros l' H1 _ id Hid. destruct (H1 id Hid) as (Hin & Hne). destruct (Hl id Hin) as (Hr & Hrest). split; [lia|exact Hrest]. }
      destruct (bm_is_presence_bit (ms_bm S) i) eqn:Epb.
      + (* a continuation position: not a data element *)
        assert (Hni : ~ In i l) by (intros Hin; destruct (Hl i Hin) as (_ & _ & Hf & _); congruence).
        apply (IH (i + 1) l body); try assumption; try lia.
        * intros id Hid. destruct (Hl id Hid) as (Hr & Hrest). split; [|exact Hrest]. assert (id <> i) by (intros ->; contradiction). lia.
        * intros j Hj Hs Hpb. apply Hall; [lia|assumption|assumption].
      + destruct (bm_isset bm i) eqn:Eset.
        * (* bit i is set: i is the least remaining id *)
          assert (Hin : In i l) by (apply Hall; [lia|assumption|assumption]).
          destruct l as [|h l']; [destruct Hin|]. apply StronglySorted_inv in Hsorted. destruct Hsorted as (Hs' & Hlt).
          assert (h = i).
          { destruct Hin as [Hh|Hin]; [exact Hh|]. rewrite Forall_forall in Hlt. specialize (Hlt i Hin).
            destruct (Hl h (or_introl eq_refl)) as (Hr & _). lia. }
          subst h. destruct (Hl i (or_introl eq_refl)) as (Hr & _ & _ & s & st & Hs & Hst & Hcoh & Hdom).
          cbn [pack_ids] in Hp. rewrite Epb in Hp. rewrite Bool.andb_false_r in Hp.
          replace (i =? 0) with false in Hp by lia. replace (i =? 1) with false in Hp by lia. rewrite Hs, Hst in Hp.
          destruct (pack_f s st) as [pf| | |] eqn:Epf; cbn [obind] in Hp; try discriminate.
          destruct (pack_ids S m bm l') as [more| | |] eqn:Emore; cbn [obind] in Hp; try discriminate.
          assert (body = pf ++ more) by congruence. subst body. clear Hp.
          rewrite Hs. destruct (Hshp i s Hs) as (st0 & Hst0 & Hsh0). rewrite Hst0.
          replace (zdrop off src) with (pf ++ more ++ rest) by (subst src; rewrite <- app_assoc; symmetry; apply zdrop_app2; exact Hoff).
          destruct (field_roundtrip s Hcoh st pf Hdom Epf st0 (more ++ rest) Hsh0) as (st' & Hun & Heq & Hpk' & Hsh').
          rewrite Hun.
          rewrite Forall_forall in Hlt.
          destruct (IH (i + 1) l' more) with (src := src) (off := off + zlen pf) (pre := pre ++ pf) (present := zadd i present) (fields := zupdate i st' fields)
            as (p' & f' & Hu & Hp1 & Hp2 & Hp3); try assumption; try lia.
          -- intros id Hid. destruct (Hl id (or_intror Hid)) as (Hr' & Hrest). specialize (Hlt id Hid). split; [lia|exact Hrest].
          -- intros j Hj Hsj Hpj. destruct (Hall j ltac:(lia) Hsj Hpj) as [Hh|Hh]; [lia|exact Hh].
          -- subst src. rewrite <- !app_assoc. reflexivity.
          -- subst off. zlens. lia.
          -- intros id s0 Hs0. destruct (Z.eq_dec id i) as [->|Hne].
             ++ rewrite zlookup_zupdate_same by (exists st0; exact Hst0). exists st'. split; [reflexivity|]. assert (s0 = s) by congruence. subst. exact Hsh'.
             ++ rewrite zlookup_zupdate_other by lia. apply Hshp. exact Hs0.
          -- exists p', f'. split; [rewrite Hu; f_equal; f_equal; zlens; lia|]. split; [|split].
             ++ intros id. rewrite Hp1, zmem_zadd. cbn [zmem existsb]. fold (zmem id l'). destruct (id =? i), (zmem id present), (zmem id l'); reflexivity.
             ++ intros id [<-|Hid]; [|apply Hp2; exact Hid]. exists s, st, st'.
                rewrite Hp3 by (intros Hid; specialize (Hlt i Hid); lia).
                rewrite zlookup_zupdate_same by (exists st0; exact Hst0). repeat split; try assumption; congruence.
             ++ intros id Hn. rewrite Hp3 by (intros Hid; apply Hn; right; exact Hid).
                apply zlookup_zupdate_other. intros <-. apply Hn. left. reflexivity.
        * (* bit i is clear: i is not among the ids *)
          assert (Hni : ~ In i l) by (intros Hin; destruct (Hl i Hin) as (_ & Hf & _); congruence).
          apply (IH (i + 1) l body); try assumption; try lia.
          -- intros id Hid. destruct (Hl id Hid) as (Hr & Hrest). split; [|exact Hrest]. assert (id <> i) by (intros ->; contradiction). lia.
          -- intros j Hj Hs Hpb. apply Hall; [lia|assumption|assumption].
  Qed.
End Fields.

(* ---------------- the bitmap: Pack then Unpack of the chain of blocks Pack builds ---------------- *)
Fixpoint chunks (B k : nat) (l : bytes) : list bytes :=
  match k with O => [] | S k' => firstn B l :: chunks B k' (skipn B l) end.

Lemma chunks_concat B k : forall l, length l = (k * B)%nat -> concat (chunks B k l) = l.
Proof.
  induction k as [|k IH]; intros l Hl; cbn [chunks concat]; [destruct l; [reflexivity|discriminate]|].
  rewrite IH by (rewrite skipn_length; lia). apply firstn_skipn.
Qed.
Lemma chunks_len B k : forall l, length l = (k * B)%nat -> Forall (fun b => length b = B) (chunks B k l).
Proof.
  induction k as [|k IH]; intros l Hl; cbn [chunks]; constructor.
  - rewrite firstn_length. lia.
  - apply IH. rewrite skipn_length. lia.
Qed.

Lemma nth_skipn' {A} (d : A) n : forall l j, nth j (skipn n l) d = nth (n + j) l d.
Proof. induction n as [|n IH]; intros l j; [reflexivity|]. destruct l as [|x l']; [destruct j; reflexivity|]. cbn [skipn Nat.add nth]. apply IH. Qed.

Definition top_bit (l : bytes) (p : nat) : bool := 128 <=? bz (nth p l x00).

Lemma chunks_chain B : (0 < B)%nat -> forall k l, length l = (S k * B)%nat ->
  (forall j, (j <= k)%nat -> top_bit l (j * B) = (j <? k)%nat) -> chain_ok true (chunks B (S k) l) = true.
Proof.
  intros HB. induction k as [|k IH]; intros l Hl Htop.
  - cbn [chunks chain_ok]. specialize (Htop O ltac:(lia)). unfold top_bit in Htop. cbn [Nat.mul] in Htop.
    destruct l as [|c l']; [cbn in Hl; lia|]. destruct B as [|B']; [lia|]. cbn [firstn first_bit_on nth] in *. rewrite Htop. reflexivity.
  - change (chunks B (S (S k)) l) with (firstn B l :: chunks B (S k) (skipn B l)).
    assert (Hne : exists b r, chunks B (S k) (skipn B l) = b :: r) by (cbn [chunks]; eexists; eexists; reflexivity).
    destruct Hne as (b & r & Hbr). rewrite Hbr. change (chain_ok true (firstn B l :: b :: r)) with (true && first_bit_on (firstn B l) && chain_ok true (b :: r)).
    rewrite <- Hbr. rewrite IH.
    + pose proof (Htop O ltac:(lia)) as H0. unfold top_bit in H0. cbn [Nat.mul] in H0.
      destruct l as [|c l']; [cbn in Hl; lia|]. destruct B as [|B']; [lia|]. cbn [firstn first_bit_on nth] in *. rewrite H0. reflexivity.
    + rewrite skipn_length. lia.
    + intros j Hj. specialize (Htop (S j) ltac:(lia)). unfold top_bit in *. rewrite nth_skipn'. replace (B + j * B)%nat with (S j * B)%nat by lia.
      rewrite Htop. destruct (Nat.ltb_spec (S j) (S k)), (Nat.ltb_spec j k); try reflexivity; lia.
Qed.

Lemma get_bit_top b : get_bit b 0 = (128 <=? bz b).
Proof. apply Bool.eqb_prop. revert b. apply (forall_bytes (fun b => Bool.eqb (get_bit b 0) (128 <=? bz b))). vm_compute. reflexivity. Qed.

Lemma hex_encode_upper_app a b : hex_encode_upper (a ++ b) = hex_encode_upper a ++ hex_encode_upper b.
Proof. induction a as [|x a IH]; [reflexivity|]. cbn [app hex_encode_upper]. rewrite IH. reflexivity. Qed.
Lemma hex_encode_upper_concat l : hex_encode_upper (concat l) = concat (map hex_encode_upper l).
Proof. induction l as [|x l IH]; [reflexivity|]. cbn [concat map]. rewrite hex_encode_upper_app, IH. reflexivity. Qed.

Lemma bm_pack_unpack s f bm k Sset w rest data0 :
  bm_auto s = true -> 1 <= bm_len s -> (bm_enc s = EncBinary \/ bm_enc s = EncHex) -> bm_pref s = PFixed f ->
  bits_inv s bm k Sset -> (forall m, zmem m Sset = true -> 2 <= m /\ bm_is_presence_bit s m = false) ->
  bm_pack s bm = Ok w -> bm_unpack s data0 (w ++ rest) = (bm, Ok (zlen w)).
Proof.
  intros Ha HB He Hp (Hk & Hlen & Hbits) HS Hw.
  set (B := Z.to_nat (bm_len s)). set (k0 := Z.to_nat (k - 1)).
  assert (HlenN : length bm = (S k0 * B)%nat) by (unfold zlen in Hlen; unfold B, k0; nia).
  set (blocks := chunks B (S k0) bm).
  assert (Hcat : concat blocks = bm) by (apply chunks_concat; exact HlenN).
  assert (Hbl : Forall (fun b => zlen b = bm_len s) blocks).
  { pose proof (chunks_len B (S k0) bm HlenN) as H. rewrite Forall_forall in *. intros b Hb. specialize (H b Hb). unfold zlen, B in *. lia. }
  assert (Hchain : chain_ok (bm_auto s) blocks = true).
  { rewrite Ha. apply chunks_chain; [unfold B; lia|exact HlenN|]. intros j Hj. unfold top_bit. rewrite <- get_bit_top.
    set (n := Z.of_nat j * (bm_len s * 8) + 1).
    assert (Hn1 : (n - 1) / 8 = Z.of_nat j * bm_len s) by (unfold n; replace (Z.of_nat j * (bm_len s * 8) + 1 - 1) with (Z.of_nat j * bm_len s * 8) by lia; apply Z.div_mul; lia).
    assert (Hn2 : (n - 1) mod 8 = 0) by (unfold n; replace (Z.of_nat j * (bm_len s * 8) + 1 - 1) with (Z.of_nat j * bm_len s * 8) by lia; apply Z.mod_mul; lia).
    assert (Hn3 : (n - 1) / (bm_len s * 8) = Z.of_nat j) by (unfold n; replace (Z.of_nat j * (bm_len s * 8) + 1 - 1) with (Z.of_nat j * (bm_len s * 8)) by lia; apply Z.div_mul; lia).
    assert (Hn4 : (n - 1) mod (bm_len s * 8) = 0) by (unfold n; replace (Z.of_nat j * (bm_len s * 8) + 1 - 1) with (Z.of_nat j * (bm_len s * 8)) by lia; apply Z.mod_mul; lia).
    assert (Hrange : 1 <= n <= zlen bm * 8) by (unfold n; rewrite Hlen; unfold k0 in Hj; nia).
    pose proof (isset_nth bm n Hrange) as Hi. unfold byte_ix, bit_ix in Hi. rewrite Hn1, Hn2 in Hi.
    replace (Z.to_nat (Z.of_nat j * bm_len s)) with (j * B)%nat in Hi by (unfold B; nia). rewrite <- Hi, Hbits.
    assert (Hz : zmem n Sset = false).
    { destruct (zmem n Sset) eqn:E; [|reflexivity]. destruct (HS n E) as (H2 & Hpb). exfalso.
      unfold bm_is_presence_bit in Hpb. rewrite Ha in Hpb. cbn [negb] in Hpb. replace (n <=? 0) with false in Hpb by lia.
      destruct j as [|j']; [unfold n in H2; lia|].
      assert (n mod (bm_len s * 8) = 1); [|lia]. unfold n. rewrite Z.add_comm, Z.mod_add by lia. apply Z.mod_small. lia. }
    rewrite Hz. cbn [orb]. unfold conts, is_cont. rewrite Hn3, Hn4. replace (1 <=? n) with true by lia. cbn [andb Z.eqb].
    replace (1 - 1 <=? Z.of_nat j) with true by lia. cbn [andb]. unfold k0. destruct (Nat.ltb_spec j (Z.to_nat (k - 1))); lia. }
  destruct He as [E|E].
  - unfold bm_pack in Hw. rewrite E in Hw. cbn [enc_encode] in Hw. assert (w = bm) by congruence. subst w.
    pose proof (bm_unpack_chain s f blocks blocks rest data0 HB (or_introl E) Hp) as H. rewrite Hcat in H. apply H; [|exact Hbl|exact Hchain].
    rewrite E. clear. generalize blocks. intros l. induction l; constructor; [reflexivity|assumption].
  - unfold bm_pack in Hw. rewrite E in Hw. cbn [enc_encode] in Hw. assert (w = hex_encode_upper bm) by congruence. subst w.
    pose proof (bm_unpack_chain s f blocks (map hex_encode_upper blocks) rest data0 HB (or_intror E) Hp) as H.
    rewrite <- hex_encode_upper_concat, Hcat in H. apply H; [|exact Hbl|exact Hchain].
    rewrite E. clear. generalize blocks. intros l. induction l; constructor; [reflexivity|assumption].
Qed.

(* ---------------- the ascending id list ---------------- *)
Lemma NoDup_snoc {A} (x : A) l : NoDup l -> ~ In x l -> NoDup (l ++ [x]).
Proof.
  induction l as [|y l IH]; intros Hn Hi; cbn [app]; [constructor; [intros []|constructor]|].
  apply NoDup_cons_iff in Hn. destruct Hn as (Hy & Hn). constructor.
  - intros H. apply in_app_or in H. destruct H as [H|[H|[]]]; [contradiction|subst; apply Hi; left; reflexivity].
  - apply IH; [exact Hn|intros H; apply Hi; right; exact H].
Qed.
Lemma NoDup_zadd k l : NoDup l -> NoDup (zadd k l).
Proof.
  intros H. unfold zadd. destruct (zmem k l) eqn:E; [exact H|]. apply NoDup_snoc; [exact H|].
  intros Hi. apply zmem_In in Hi. congruence.
Qed.


(* ids of a packable message: 0, 1, then the data elements in strictly ascending order *)
Lemma packable_ids_shape present : NoDup present -> zmem 0 present = true -> (forall id, zmem id present = true -> 0 <= id) ->
  exists l, sort_z (1 :: zremove 1 present) = 0 :: 1 :: l /\ StronglySorted Z.lt l /\
            forall id, In id l <-> (2 <= id /\ zmem id present = true).
Proof.
  intros Hnd H0 Hpos. set (L := 1 :: zremove 1 present).
  assert (HndL : NoDup L).
  { constructor; [intros H; apply zmem_In in H; rewrite zmem_zremove_same in H; discriminate|]. apply NoDup_filter. exact Hnd. }
  assert (Hperm : Permutation L (sort_z L)) by apply sort_z_is_perm.
  assert (Hst : StronglySorted Z.lt (sort_z L)).
  { apply sorted_nodup_strict; [apply sort_z_sorted|]. eapply Permutation_NoDup; eassumption. }
  assert (HinL : forall id, In id (sort_z L) <-> (id = 1 \/ (id <> 1 /\ zmem id present = true))).
  { intros id. split.
    - intros H. apply (Permutation_in _ (Permutation_sym Hperm)) in H. destruct H as [H|H]; [left; lia|]. right.
      apply zmem_In in H. destruct (Z.eq_dec id 1) as [->|Hne]; [rewrite zmem_zremove_same in H; discriminate|]. rewrite zmem_zremove in H by lia. split; assumption.
    - intros [->|(Hne & Hm)]; apply (Permutation_in _ Hperm); [left; reflexivity|]. right. apply zmem_In. rewrite zmem_zremove by lia. exact Hm. }
  destruct (sort_z L) as [|h1 t1] eqn:E1.
  { exfalso. assert (In 0 (@nil Z)) by (apply HinL; right; split; [lia|exact H0]). contradiction. }
  apply StronglySorted_inv in Hst. destruct Hst as (Hst1 & Hlt1). rewrite Forall_forall in Hlt1.
  assert (h1 = 0).
  { assert (Hi0 : In 0 (h1 :: t1)) by (apply HinL; right; split; [lia|exact H0]).
    assert (0 <= h1) by (destruct (proj1 (HinL h1) (or_introl eq_refl)) as [->|(_ & Hm)]; [lia|apply Hpos; exact Hm]).
    destruct Hi0 as [Hh|Hh]; [lia|]. specialize (Hlt1 0 Hh). lia. }
  subst h1.
  destruct t1 as [|h2 l] eqn:E2.
  { exfalso. assert (Hi : In 1 [0]) by (apply HinL; left; reflexivity). destruct Hi as [Hi|[]]. lia. }
  apply StronglySorted_inv in Hst1. destruct Hst1 as (Hst2 & Hlt2). rewrite Forall_forall in Hlt2.
  assert (h2 = 1).
  { assert (Hi1 : In 1 (0 :: h2 :: l)) by (apply HinL; left; reflexivity).
    specialize (Hlt1 h2 (or_introl eq_refl)).
    destruct Hi1 as [Hh|[Hh|Hh]]; [lia|lia|]. specialize (Hlt2 1 Hh). lia. }
  subst h2. exists l. split; [reflexivity|]. split; [exact Hst2|]. intros id. split.
  - intros Hi. specialize (Hlt2 id Hi). split; [lia|]. destruct (proj1 (HinL id) (or_intror (or_intror Hi))) as [->|(_ & Hm)]; [lia|exact Hm].
  - intros (H2 & Hm). assert (Hne : id <> 1) by lia. destruct (proj2 (HinL id) (or_intror (conj Hne Hm))) as [Hh|[Hh|Hh]]; [lia|lia|exact Hh].
Qed.

(* ---------------- the message ---------------- *)
Definition msg_coherent (S : mspec) : Prop :=
  coherent_pspec (ms_mti S) /\ 1 <= bm_len (ms_bm S) /\
  (bm_enc (ms_bm S) = EncBinary \/ bm_enc (ms_bm S) = EncHex) /\ (exists f, bm_pref (ms_bm S) = PFixed f) /\
  (forall id s, zlookup id (ms_fields S) = Some s -> coherent s).

(* the domain: the MTI is set and in its domain; every populated data element has an id from 2 up that is not a
   continuation-bit position (finding F25: such ids are silently dropped by Pack), is specified, and is in its domain *)
Definition msg_in_dom (S : mspec) (m : mstate) : Prop :=
  NoDup (m_present m) /\ zmem 0 (m_present m) = true /\ prim_in_domain (ms_mti S) (m_mti m) /\
  (forall id, zmem id (m_present m) = true -> id = 0 \/ id = 1 \/
      (2 <= id /\ bm_is_presence_bit (ms_bm S) id = false /\
       exists s st, zlookup id (ms_fields S) = Some s /\ zlookup id (m_fields m) = Some st /\ in_dom s st)).

Definition msg_shaped (S : mspec) (m0 : mstate) : Prop :=
  forall id s, zlookup id (ms_fields S) = Some s -> exists st, zlookup id (m_fields m0) = Some st /\ shaped s st.

(* the same message: MTI, bitmap, the set of populated ids, and the content of every populated data element *)
Definition msg_equiv (S : mspec) (m m2 : mstate) : Prop :=
  m_mti m2 = m_mti m /\ m_bm m2 = m_bm m /\
  (forall id, id <> 1 -> zmem id (m_present m2) = zmem id (m_present m)) /\ zmem 1 (m_present m2) = true /\
  (forall id, 2 <= id -> zmem id (m_present m) = true ->
     exists s x y, zlookup id (ms_fields S) = Some s /\ zlookup id (m_fields m) = Some x /\ zlookup id (m_fields m2) = Some y /\
                   equiv s x y /\ pack_f s y = pack_f s x).

Lemma zlookup_reset S failed present fields id : zlookup id (reset_fields S failed present fields) =
  match zlookup id fields with
  | None => None
  | Some st => Some (if zmem id present || bytes_eqb (itoa id) failed then match zlookup id (ms_fields S) with Some s => fresh s | None => st end else st)
  end.
Proof.
  unfold reset_fields. induction fields as [|(k, v) r IH]; [reflexivity|]. cbn [map fst].
  destruct (id =? k) eqn:E.
  - assert (k = id) by lia. subst k. cbn [zlookup]. rewrite E.
    destruct (zmem id present || bytes_eqb (itoa id) failed); [|cbn [zlookup]; rewrite E; reflexivity].
    destruct (zlookup id (ms_fields S)); cbn [zlookup]; rewrite E; reflexivity.
  - cbn [zlookup]. rewrite E. rewrite <- IH.
    destruct (zmem k present || bytes_eqb (itoa k) failed); [destruct (zlookup k (ms_fields S))|]; cbn [zlookup]; rewrite E; reflexivity.
Qed.

Lemma bits_inv_new b : 1 <= bm_len b -> bits_inv b (bm_new b) 1 [].
Proof.
  intros HB. split; [lia|]. split; [unfold bm_new; rewrite zlen_repeat; lia|]. intros k. unfold bm_new. rewrite isset_zeros. cbn [zmem existsb orb].
  unfold conts, is_cont. replace (1 - 1) with 0 by lia.
  destruct (1 <=? k) eqn:E; [|reflexivity]. cbn [andb].
  assert (0 <= (k - 1) / (bm_len b * 8)) by (apply Z.div_pos; lia).
  replace ((k - 1) / (bm_len b * 8) <? 0) with false by lia. rewrite Bool.andb_false_r. reflexivity.
Qed.

Lemma pack_ids_01 S m bm l :
  pack_ids S m bm (0 :: 1 :: l) =
  (do a <- pack_f (FPrim (ms_mti S)) (m_mti m);
   do more <- (do pf <- bm_pack (ms_bm S) bm; do more <- pack_ids S m bm l; Ok (pf ++ more));
   Ok (a ++ more)).
Proof.
  cbn [pack_ids]. replace (bm_is_presence_bit (ms_bm S) 0) with false by (unfold bm_is_presence_bit; destruct (bm_auto (ms_bm S)); reflexivity).
  change (0 =? 1) with false. change (0 =? 0) with true. change (1 =? 1) with true. cbn [negb andb]. reflexivity.
Qed.

(* what the round trip needs of the bitmap Pack builds, for auto-expanding and for fixed bitmaps alike *)
Lemma packed_bitmap_facts S m m' b f : 1 <= bm_len (ms_bm S) -> (bm_enc (ms_bm S) = EncBinary \/ bm_enc (ms_bm S) = EncHex) ->
  bm_pref (ms_bm S) = PFixed f -> m_pack S m = (m', Ok b) ->
  (forall i, 2 <= i -> bm_is_presence_bit (ms_bm S) i = false -> bm_isset (m_bm m') i = zmem i (m_present m)) /\
  (forall w rest data0, bm_pack (ms_bm S) (m_bm m') = Ok w -> bm_unpack (ms_bm S) data0 (w ++ rest) = (m_bm m', Ok (zlen w))) /\
  1 <= zlen (m_bm m').
Proof.
  intros HB He Hpf Hp. destruct (bm_auto (ms_bm S)) eqn:Ha.
  - pose proof (m_pack_bitmap_agrees S m m' b Ha HB Hp) as Hagree. split; [exact Hagree|].
    unfold m_pack in Hp. destruct (set_bits (ms_bm S) (packable_ids (m_bitmap S m)) (bm_new (ms_bm S))) as [bm [u|e|p|]] eqn:Es; try (inversion Hp; fail).
    destruct u. cbv zeta in Hp. injection Hp as Hm' _. subst m'. cbn [with_bm m_bm].
    destruct (set_bits_inv (ms_bm S) Ha HB _ _ _ _ _ (bits_inv_new (ms_bm S) HB) Es) as (k' & Hinv). rewrite app_nil_r in Hinv.
    split.
    + intros w rest data0 Hw. apply (bm_pack_unpack (ms_bm S) f bm k' _ w rest data0 Ha HB He Hpf Hinv); [|exact Hw].
      intros i Hi. apply zmem_In in Hi. apply filter_In in Hi. destruct Hi as (_ & Hi). apply Bool.negb_true_iff, Bool.orb_false_iff in Hi. destruct Hi as (Hi1 & Hi2). split; [lia|exact Hi2].
    + destruct Hinv as (Hk' & Hlen' & _). nia.
  - destruct (m_pack_bitmap_agrees_fixed S m m' b Ha ltac:(lia) Hp) as (Hl & Hb). split; [intros i Hi _; apply Hb; exact Hi|]. split; [|lia].
    intros w rest data0 Hw. apply (bm_fixed_pack_unpack (ms_bm S) f (m_bm m') w rest data0 Ha HB He Hpf Hl Hw).
Qed.

Theorem message_roundtrip S m m' b : msg_coherent S -> msg_in_dom S m -> m_pack S m = (m', Ok b) ->
  forall m0 rest, msg_shaped S m0 ->
    exists m2, m_unpack S m0 (b ++ rest) = (m2, UOk (zlen b)) /\ msg_equiv S m' m2.
Proof.
  intros (Hmti & HB & He & (f & Hpf) & Hcoh) (Hnd & H0 & Hmtidom & Hdom) Hp m0 rest Hsh.
  destruct (packed_bitmap_facts S m m' b f HB He Hpf Hp) as (Hagree & Hbmrt & Hbmlen).
  unfold m_pack in Hp. destruct (m_bitmap_content S m) as (Hb1 & Hb2 & Hb3).
  set (mb := m_bitmap S m) in *.
  destruct (set_bits (ms_bm S) (packable_ids mb) (bm_new (ms_bm S))) as [bm [u|e|p|]] eqn:Es; try (inversion Hp; fail).
  destruct u. cbv zeta in Hp. injection Hp as Hm' Hpk. subst m'. cbn [with_bm m_bm] in Hagree, Hbmrt, Hbmlen.
  (* the ids *)
  assert (Hndb : NoDup (m_present mb)) by (unfold mb, m_bitmap; destruct (m_bmcached m); [exact Hnd|cbn; apply NoDup_zadd; exact Hnd]).
  assert (H0b : zmem 0 (m_present mb) = true) by (rewrite Hb3 by lia; exact H0).
  assert (Hposb : forall id, zmem id (m_present mb) = true -> 0 <= id).
  { intros id Hm. destruct (Z.eq_dec id 1) as [->|Hne]; [lia|]. rewrite Hb3 in Hm by exact Hne. destruct (Hdom id Hm) as [->|[->|(H2 & _)]]; lia. }
  destruct (packable_ids_shape (m_present mb) Hndb H0b Hposb) as (l & Hids & Hsorted & Hl).
  unfold packable_ids in *. rewrite Hids in *.
  (* the packed bytes *)
  rewrite pack_ids_01 in Hpk.
  destruct (pack_f (FPrim (ms_mti S)) (m_mti (with_bm mb bm))) as [mtib| | |] eqn:Emti; cbn [obind] in Hpk; try discriminate.
  destruct (bm_pack (ms_bm S) bm) as [bmb| | |] eqn:Ebm; cbn [obind] in Hpk; try discriminate.
  destruct (pack_ids S (with_bm mb bm) bm l) as [body| | |] eqn:Ebody; cbn [obind] in Hpk; try discriminate.
  assert (b = mtib ++ bmb ++ body) by congruence. subst b. clear Hpk.
  cbn [with_bm m_mti] in Emti. rewrite Hb1 in Emti. cbn [pack_f] in Emti.
  (* unpack *)
  unfold m_unpack. cbv zeta. set (m0r := with_failed (with_fields m0 (reset_fields S (m_failed m0) (m_present m0) (m_fields m0))) []).
  set (m1 := with_bm (m_bitmap S (with_present m0r [])) (bm_new (ms_bm S))).
  cbn [unpack_f]. rewrite <- !app_assoc.
  rewrite (prim_roundtrip (ms_mti S) (m_mti m) mtib Hmti Hmtidom Emti (m_mti m1) (bmb ++ body ++ rest)).
  cbn [with_present with_mti m_bm m_present m_fields]. rewrite zdrop_app.
  replace (m_bm m1) with (bm_new (ms_bm S)) by reflexivity.
  rewrite (Hbmrt bmb (body ++ rest) (bm_new (ms_bm S)) eq_refl).
  cbn [with_bm with_present m_present m_fields m_mti m_bm m_bmcached].
  assert (Hm1f : m_fields m1 = reset_fields S (m_failed m0) (m_present m0) (m_fields m0)) by (unfold m1, m_bitmap; destruct (m_bmcached (with_present m0r [])); reflexivity).
  assert (HN : 8 <= zlen bm * 8) by lia.
  destruct (unpack_fields_rt S bm (with_bm mb bm) rest (Z.to_nat (zlen bm * 8 - 1)) 2 l body) with
    (src := mtib ++ bmb ++ body ++ rest) (off := zlen mtib + zlen bmb) (pre := mtib ++ bmb)
    (present := zadd 1 (zadd 0 (m_present m1))) (fields := m_fields m1) as (p' & f' & Hun & Hp1 & Hp2 & Hp3).
  - lia.
  - lia.
  - exact Hsorted.
  - intros id Hid. apply Hl in Hid. destruct Hid as (H2 & Hm). destruct (Z.eq_dec id 1) as [->|Hne]; [lia|]. rewrite Hb3 in Hm by exact Hne.
    destruct (Hdom id Hm) as [->|[->|(_ & Hpb & s & st & Hs & Hst & Hd)]]; try lia.
    assert (Hset : bm_isset bm id = true) by (rewrite <- Hm; apply (Hagree id H2 Hpb)).
    split; [|split; [exact Hset|split; [exact Hpb|]]].
    + split; [lia|]. destruct (Z_le_gt_dec id (zlen bm * 8)) as [Hle|Hgt]; [exact Hle|]. rewrite isset_out in Hset by lia. discriminate.
    + exists s, st. cbn [with_bm m_fields]. rewrite Hb2. repeat split; try assumption. apply (Hcoh id s Hs).
  - intros j Hj Hsj Hpj. apply Hl. split; [lia|]. rewrite Hb3 by lia. rewrite <- (Hagree j ltac:(lia) Hpj). exact Hsj.
  - exact Ebody.
  - rewrite <- !app_assoc. reflexivity.
  - zlens. lia.
  - rewrite Hm1f. intros id s Hs. destruct (Hsh id s Hs) as (st & Hst & Hshaped). rewrite zlookup_reset, Hst. eexists. split; [reflexivity|].
    destruct (zmem id (m_present m0) || bytes_eqb (itoa id) (m_failed m0)); [|exact Hshaped]. rewrite Hs. apply fresh_shaped. apply (Hcoh id s Hs).
  - change (m_fields (with_mti m1 (m_mti m))) with (m_fields m1). rewrite Hun. eexists. split; [f_equal; f_equal; zlens; lia|].
    unfold msg_equiv, with_fields, with_present, with_bm, with_mti. cbn [m_mti m_bm m_present m_fields].
    assert (Hpre : forall id, zmem id (zadd 1 (zadd 0 (m_present m1))) = (id =? 1) || (id =? 0)).
    { intros id. rewrite !zmem_zadd. unfold m1, m_bitmap, with_present, with_bm. cbn [m_bmcached m_present].
      destruct (m_bmcached m0r) eqn:Ecr; cbn [m_present]; [cbn; rewrite Bool.orb_false_r; reflexivity|].
      rewrite zmem_zadd. cbn. destruct (id =? 1), (id =? 0); reflexivity. }
    split; [symmetry; exact Hb1|]. split; [reflexivity|]. split; [|split].
    + intros id Hne. rewrite Hp1, Hpre. replace (id =? 1) with false by lia. cbn [orb].
      destruct (Z.eq_dec id 0) as [->|Hn0]; [rewrite H0b; reflexivity|]. replace (id =? 0) with false by lia. cbn [orb].
      destruct (zmem id (m_present mb)) eqn:Em.
      * apply zmem_In. apply Hl. split; [|exact Em]. specialize (Hposb id Em). lia.
      * destruct (zmem id l) eqn:El; [|reflexivity]. apply zmem_In in El. apply Hl in El. destruct El as (_ & El). congruence.
    + rewrite Hp1, Hpre. reflexivity.
    + intros id H2 Hm. assert (Hin : In id l) by (apply Hl; split; assumption).
      destruct (Hp2 id Hin) as (s & x & y & Hs & Hx & Hy & Heq & Hpk & _). exists s, x, y. repeat split; assumption.
Qed.

(* ---------------- packing the unpacked message returns the identical bytes ---------------- *)
Lemma unpack_fields_nodup S bm : forall fuel i src off present fields, NoDup present ->
  NoDup (fst (fst (unpack_fields fuel S bm i src off present fields))).
Proof.
  induction fuel as [|f IH]; intros i src off present fields Hnd; [exact Hnd|]. cbn [unpack_fields].
  destruct (bm_is_presence_bit (ms_bm S) i); [apply IH; exact Hnd|]. destruct (bm_isset bm i); [|apply IH; exact Hnd].
  destruct (zlookup i (ms_fields S)) as [s|]; [|exact Hnd]. destruct (zlookup i fields) as [st|]; [|exact Hnd].
  destruct (unpack_f s st (zdrop off src)) as [st' [read|pth e|q|]]; cbn [fst]; try exact Hnd. apply IH. apply NoDup_zadd. exact Hnd.
Qed.

Lemma m_unpack_shape S m0 d : m_bmcached (fst (m_unpack S m0 d)) = true /\ NoDup (m_present (fst (m_unpack S m0 d))).
Proof.
  unfold m_unpack. cbv zeta.
  set (a := with_bm (m_bitmap S (with_present (with_failed (with_fields m0 (reset_fields S (m_failed m0) (m_present m0) (m_fields m0))) []) [])) (bm_new (ms_bm S))).
  assert (Ha : m_bmcached a = true /\ NoDup (m_present a)).
  { unfold a, m_bitmap, with_present, with_fields, with_bm; cbn [m_bmcached m_present]. destruct (m_bmcached m0); cbn [m_bmcached m_present]; (split; [reflexivity|]).
    - constructor. - apply NoDup_zadd. constructor. }
  destruct Ha as (Hc & Hn).
  destruct (unpack_f (FPrim (ms_mti S)) (m_mti a) d) as [mt [read|pth e|q|]]; cbn [fst with_mti m_bmcached m_present]; try (split; assumption).
  cbn [with_present with_mti with_bm with_fields m_bm m_present m_fields m_mti m_bmcached].
  destruct (bm_unpack (ms_bm S) (m_bm a) (zdrop read d)) as [bm [r2|e|q|]]; cbn [fst with_bm with_present m_bmcached m_present];
    try (split; [exact Hc|apply NoDup_zadd; exact Hn]).
  pose proof (unpack_fields_nodup S bm (Z.to_nat (zlen bm * 8 - 1)) 2 d (read + r2) (zadd 1 (zadd 0 (m_present a))) (m_fields a)
                (NoDup_zadd _ _ (NoDup_zadd _ _ Hn))) as Hnd.
  destruct (unpack_fields (Z.to_nat (zlen bm * 8 - 1)) S bm 2 d (read + r2) (zadd 1 (zadd 0 (m_present a))) (m_fields a)) as [[p f] u].
  cbn [fst with_fields with_present m_bmcached m_present] in *. split; [exact Hc|exact Hnd].
Qed.

Lemma pack_ids_congr S ma mb bm : m_mti ma = m_mti mb -> forall ids,
  (forall id, In id ids -> 2 <= id -> bm_is_presence_bit (ms_bm S) id = false ->
     exists s x y, zlookup id (ms_fields S) = Some s /\ zlookup id (m_fields ma) = Some x /\ zlookup id (m_fields mb) = Some y /\ pack_f s y = pack_f s x) ->
  (forall id, In id ids -> 0 <= id) ->
  pack_ids S mb bm ids = pack_ids S ma bm ids.
Proof.
  intros Hmti. induction ids as [|i rest IH]; intros Hf Hpos; [reflexivity|]. cbn [pack_ids].
  rewrite IH by (intros; first [apply Hf; [right|..]|apply Hpos; right]; assumption).
  destruct (negb (i =? 1) && bm_is_presence_bit (ms_bm S) i) eqn:Esk; [reflexivity|].
  destruct (i =? 0) eqn:E0; [rewrite Hmti; reflexivity|]. destruct (i =? 1) eqn:E1; [reflexivity|].
  cbn [negb andb] in Esk. specialize (Hpos i (or_introl eq_refl)).
  destruct (Hf i (or_introl eq_refl) ltac:(lia) Esk) as (s & x & y & Hs & Hx & Hy & Hp). rewrite Hs, Hx, Hy, Hp. reflexivity.
Qed.

Lemma nodup_same_members_perm (l1 l2 : list Z) : NoDup l1 -> NoDup l2 -> (forall k, zmem k l1 = zmem k l2) -> Permutation l1 l2.
Proof.
  intros H1 H2 Hm. apply NoDup_Permutation; [exact H1|exact H2|]. intros k. rewrite <- !zmem_In, Hm. reflexivity.
Qed.

Theorem message_repack S m m' b : msg_coherent S -> msg_in_dom S m -> m_pack S m = (m', Ok b) ->
  forall m0 rest, msg_shaped S m0 -> snd (m_pack S (fst (m_unpack S m0 (b ++ rest)))) = Ok b.
Proof.
  intros Hcoh Hdom Hp m0 rest Hsh.
  destruct (message_roundtrip S m m' b Hcoh Hdom Hp m0 rest Hsh) as (m2 & Hun & Heq).
  destruct (m_unpack_shape S m0 (b ++ rest)) as (Hcached & Hnd2). rewrite Hun in *. cbn [fst] in *.
  destruct Hcoh as (Hmti & HB & He & (f & Hpf) & Hcs). destruct Hdom as (Hnd & H0 & Hmtidom & Hd).
  destruct Heq as (Emti & Ebm & Epres & E1 & Efields).
  unfold m_pack in Hp. destruct (m_bitmap_content S m) as (Hb1 & Hb2 & Hb3). set (mb := m_bitmap S m) in *.
  destruct (set_bits (ms_bm S) (packable_ids mb) (bm_new (ms_bm S))) as [bm [u|e|p|]] eqn:Es; try (inversion Hp; fail).
  destruct u. cbv zeta in Hp. injection Hp as Hm' Hpk. subst m'. cbn [with_bm m_mti m_bm m_present m_fields] in *.
  assert (Hndb : NoDup (m_present mb)) by (unfold mb, m_bitmap; destruct (m_bmcached m); [exact Hnd|cbn; apply NoDup_zadd; exact Hnd]).
  (* the same ids *)
  assert (Hids : packable_ids m2 = packable_ids mb).
  { unfold packable_ids. apply sort_z_perm. apply perm_skip. apply nodup_same_members_perm.
    - apply NoDup_filter. exact Hnd2.
    - apply NoDup_filter. exact Hndb.
    - intros k. destruct (Z.eq_dec k 1) as [->|Hne]; [rewrite !zmem_zremove_same; reflexivity|]. rewrite !zmem_zremove by lia. apply Epres. exact Hne. }
  unfold m_pack. assert (Hb2' : m_bitmap S m2 = m2) by (unfold m_bitmap; rewrite Hcached; reflexivity). rewrite Hb2', Hids, Es. cbv zeta. cbn [snd].
  rewrite <- Hpk. apply pack_ids_congr.
  - cbn [with_bm m_mti]. symmetry. exact Emti.
  - intros id Hin H2 Hpb. cbn [with_bm m_fields].
    assert (Hm : zmem id (m_present mb) = true).
    { unfold packable_ids in Hin. apply (Permutation_in _ (Permutation_sym (sort_z_is_perm _))) in Hin. destruct Hin as [Hin|Hin]; [lia|].
      apply zmem_In in Hin. rewrite zmem_zremove in Hin by lia. exact Hin. }
    destruct (Efields id H2 Hm) as (s & x & y & Hs & Hx & Hy & _ & Hpack). exists s, x, y. repeat split; assumption.
  - intros id Hin. unfold packable_ids in Hin. apply (Permutation_in _ (Permutation_sym (sort_z_is_perm _))) in Hin. destruct Hin as [Hin|Hin]; [lia|].
    apply zmem_In in Hin. destruct (Z.eq_dec id 1) as [->|Hne]; [lia|]. rewrite zmem_zremove in Hin by lia. rewrite Hb3 in Hin by exact Hne.
    destruct (Hd id Hin) as [->|[->|(H2 & _)]]; lia.
Qed.
