(* C11: nested structs. Composite.Marshal of a pointer to a struct followed by Composite.Unmarshal into a nil pointer of
   the same type returns every non-zero field unchanged at every depth. About Model/Marshal.v. *)
From Iso Require Import Model.Base Model.Spec Model.Field Model.Message Model.Marshal Proofs.BaseLemmas Proofs.CompositeLoops Proofs.CompositeProofs
     Proofs.StateProofs Proofs.MessageRoundtrip Proofs.MarshalProofs Proofs.MarshalStruct.
From Coq Require Import ZifyBool ZifyNat.
Set Default Timeout 120.

Definition rtag (r : row) : bytes := it_tag (index_tag_of (fst (fst r))).

(* the two loops over the fields of a struct *)
Fixpoint mloop (imp : fspec -> fstate -> gty -> gval -> outcome fstate) (subs : list (bytes * fspec)) (l : list row)
               (set : list bytes) (sts : list (bytes * fstate)) : outcome fstate :=
  match l with
  | [] => Ok (SComp set sts)
  | r :: rest =>
      match rtag r with
      | [] => mloop imp subs rest set sts
      | _ :: _ =>
          match blookup (rtag r) subs, blookup (rtag r) sts with
          | Some s', Some st' =>
              if g_is_zero (rval r) && negb (rkeep r) then mloop imp subs rest set sts else
              do st'' <- imp s' st' (rty r) (rval r);
              mloop imp subs rest (badd (rtag r) set) (bupdate (rtag r) st'' sts)
          | _, _ => mloop imp subs rest set sts
          end
      end
  end.

Fixpoint uloop (ump : fspec -> fstate -> gty -> gval -> outcome gval) (subs : list (bytes * fspec)) (set : list bytes) (sts : list (bytes * fstate))
               (l : list row) : outcome (list gval) :=
  match l with
  | [] => Ok []
  | r :: rest =>
      do v' <- match rtag r with
               | [] => Ok (rval r)
               | _ :: _ =>
                   match blookup (rtag r) subs, blookup (rtag r) sts with
                   | Some s', Some st' => if bmem (rtag r) set then ump s' st' (rty r) (rval r) else Ok (rval r)
                   | _, _ => Ok (rval r)
                   end
               end;
      do more <- uloop ump subs set sts rest; Ok (v' :: more)
  end.

Lemma marshal_into_comp f pref len mode subs set sts fields v :
  marshal_into (S f) (FComp pref len mode subs) (SComp set sts) (TPtr (TStruct fields)) v =
  mloop (marshal_into f) subs (zip_decls fields (match v with VPtr (Some (VStruct vs)) => vs | _ => map (fun df => g_zero (snd df)) fields end)) set sts.
Proof.
  cbn [marshal_into]. generalize (zip_decls fields (match v with VPtr (Some (VStruct vs)) => vs | _ => map (fun df => g_zero (snd df)) fields end)).
  intros l. revert set sts. induction l as [|((d, ft), fv) r IH]; intros set sts; [reflexivity|]. cbn [mloop]. unfold rtag, rval, rkeep, rty. cbn [fst snd].
  destruct (it_tag (index_tag_of d)) as [|c t] eqn:Et; [apply IH|].
  destruct (blookup (c :: t) subs) as [s'|]; [|apply IH]. destruct (blookup (c :: t) sts) as [st'|]; [|apply IH].
  destruct (g_is_zero fv && negb (it_keepzero (index_tag_of d))); [apply IH|].
  destruct (marshal_into f s' st' ft fv) as [st''| | |]; cbn [obind]; try reflexivity. apply IH.
Qed.

Lemma unmarshal_from_comp f pref len mode subs set sts fields cur :
  unmarshal_from (S f) (FComp pref len mode subs) (SComp set sts) (TPtr (TStruct fields)) cur =
  (do vals' <- uloop (unmarshal_from f) subs set sts (zip_decls fields (match cur with VPtr (Some (VStruct vs)) => vs | _ => map (fun df => g_zero (snd df)) fields end));
   Ok (VPtr (Some (VStruct vals')))).
Proof.
  cbn [unmarshal_from]. generalize (zip_decls fields (match cur with VPtr (Some (VStruct vs)) => vs | _ => map (fun df => g_zero (snd df)) fields end)).
  intros l. f_equal. induction l as [|((d, ft), fv) r IH]; [reflexivity|]. cbn [uloop]. unfold rtag, rval, rty. cbn [fst snd]. rewrite <- IH.
  destruct (it_tag (index_tag_of d)) as [|c t] eqn:Et; [reflexivity|].
  destruct (blookup (c :: t) subs) as [s'|]; [|reflexivity]. destruct (blookup (c :: t) sts) as [st'|]; reflexivity.
Qed.

Lemma bytes_eqb_sym' a b : bytes_eqb a b = bytes_eqb b a.
Proof. destruct (bytes_eqb a b) eqn:E; [apply bytes_eqb_eq in E; subst; symmetry; apply bytes_eqb_refl|]. symmetry. apply bytes_eqb_neq. intros ->. rewrite bytes_eqb_refl in E. discriminate. Qed.

Definition tagged (r : row) : bool := match rtag r with [] => false | _ => true end.
Definition tlive (r : row) : bool := tagged r && negb (g_is_zero (rval r)).

Section Loops.
  Variable imp : fspec -> fstate -> gty -> gval -> outcome fstate.
  Variable ump : fspec -> fstate -> gty -> gval -> outcome gval.
  Variable subs : list (bytes * fspec).
  Variable ex : row -> gval.

  (* a struct field: without a tag (ignored), or bound to a subfield and holding a zero value without keepzero or a
     value that marshals into a new subfield object and unmarshals from it as ex says *)
  Definition trow_ok (r : row) : Prop :=
    tagged r = false \/
    tagged r = true /\ exists s', blookup (rtag r) subs = Some s' /\
      ((g_is_zero (rval r) = true /\ rkeep r = false) \/
       (g_is_zero (rval r) = false /\ exists st, imp s' (fresh s') (rty r) (rval r) = Ok st /\ ump s' st (rty r) (g_zero (rty r)) = Ok (ex r))).

  Lemma mloop_rows : forall l set sts, Forall trow_ok l -> NoDup (map rtag (filter tagged l)) ->
    (forall r s', In r l -> tagged r = true -> blookup (rtag r) subs = Some s' -> blookup (rtag r) sts = Some (fresh s')) ->
    exists set' sts', mloop imp subs l set sts = Ok (SComp set' sts') /\
      (forall t, bmem t set' = bmem t set || existsb (fun r => tlive r && bytes_eqb (rtag r) t) l) /\
      (forall r, In r l -> tlive r = true -> exists s' st, blookup (rtag r) subs = Some s' /\ blookup (rtag r) sts' = Some st /\ ump s' st (rty r) (g_zero (rty r)) = Ok (ex r)) /\
      (forall t, existsb (fun r => tlive r && bytes_eqb (rtag r) t) l = false -> blookup t sts' = blookup t sts).
  Proof.
    induction l as [|r rest IH]; intros set sts Hok Hnd Hfr.
    - exists set, sts. split; [reflexivity|]. split; [intros t; cbn; rewrite Bool.orb_false_r; reflexivity|]. split; [intros r []|reflexivity].
    - inversion Hok as [|? ? Hr Hrest]; subst. cbn [mloop].
      assert (Hfr' : forall r0 s', In r0 rest -> tagged r0 = true -> blookup (rtag r0) subs = Some s' -> blookup (rtag r0) sts = Some (fresh s')) by (intros r0 s' Hi; apply Hfr; right; exact Hi).
      assert (Hskip : tlive r = false -> NoDup (map rtag (filter tagged rest)) ->
                exists set' sts', mloop imp subs rest set sts = Ok (SComp set' sts') /\
                  (forall t, bmem t set' = bmem t set || existsb (fun r => tlive r && bytes_eqb (rtag r) t) (r :: rest)) /\
                  (forall r0, In r0 (r :: rest) -> tlive r0 = true -> exists s' st, blookup (rtag r0) subs = Some s' /\ blookup (rtag r0) sts' = Some st /\ ump s' st (rty r0) (g_zero (rty r0)) = Ok (ex r0)) /\
                  (forall t, existsb (fun r => tlive r && bytes_eqb (rtag r) t) (r :: rest) = false -> blookup t sts' = blookup t sts)).
      { intros Hl Hnd'. destruct (IH set sts Hrest Hnd' Hfr') as (set' & sts' & Hm & Hb & Hc & Ho). exists set', sts'. split; [exact Hm|].
        split; [intros t; rewrite Hb; cbn [existsb]; rewrite Hl; reflexivity|]. split; [intros r0 [<-|Hi] Hlv; [congruence|apply Hc; assumption]|].
        intros t Ht. apply Ho. cbn [existsb] in Ht. rewrite Hl in Ht. exact Ht. }
      destruct Hr as [Hnt|(Htg & s' & Hs' & Hcase)].
      + (* no tag *)
        assert (Hl : tlive r = false) by (unfold tlive; rewrite Hnt; reflexivity).
        cbn [filter] in Hnd. rewrite Hnt in Hnd. unfold tagged in Hnt. destruct (rtag r) eqn:Et; [|discriminate]. apply Hskip; assumption.
      + cbn [filter] in Hnd. rewrite Htg in Hnd. cbn [map] in Hnd. apply NoDup_cons_iff in Hnd. destruct Hnd as (Hnotin & Hnd).
        pose proof (Hfr r s' (or_introl eq_refl) Htg Hs') as Hst. unfold tagged in Htg. destruct (rtag r) as [|c t0] eqn:Et; [discriminate|]. rewrite <- Et in *.
        rewrite Hs', Hst. destruct Hcase as [(Hz & Hk)|(Hnz & st & Himp & Hump)].
        * rewrite Hz, Hk. cbn [negb andb]. apply Hskip; [unfold tlive; rewrite Hz; apply Bool.andb_false_r|exact Hnd].
        * rewrite Hnz. cbn [andb]. rewrite Himp. cbn [obind].
          assert (Hl : tlive r = true) by (unfold tlive, tagged; rewrite Et, Hnz; reflexivity).
          destruct (IH (badd (rtag r) set) (bupdate (rtag r) st sts) Hrest Hnd) as (set' & sts' & Hm & Hb & Hc & Ho).
          { intros r0 s0 Hi Htg0 Hs0. rewrite blookup_bupdate_other; [apply Hfr'; assumption|]. intros E. apply Hnotin. rewrite E. apply in_map. apply filter_In. split; assumption. }
          assert (Hnone : existsb (fun r0 => tlive r0 && bytes_eqb (rtag r0) (rtag r)) rest = false).
          { destruct (existsb (fun r0 => tlive r0 && bytes_eqb (rtag r0) (rtag r)) rest) eqn:Ex; [|reflexivity]. exfalso. apply Hnotin. apply existsb_exists in Ex. destruct Ex as (r0 & Hi & Hr0).
            apply Bool.andb_true_iff in Hr0. destruct Hr0 as (Hl0 & He0). apply bytes_eqb_eq in He0. rewrite <- He0. apply in_map. apply filter_In. split; [exact Hi|].
            unfold tlive in Hl0. apply Bool.andb_true_iff in Hl0. tauto. }
          exists set', sts'. split; [exact Hm|]. split; [|split].
          -- intros t. rewrite Hb, bmem_badd. cbn [existsb]. rewrite Hl. cbn [andb]. rewrite (bytes_eqb_sym' t (rtag r)).
             destruct (bytes_eqb (rtag r) t), (bmem t set), (existsb (fun r0 => tlive r0 && bytes_eqb (rtag r0) t) rest); reflexivity.
          -- intros r0 [<-|Hi] Hlv; [|apply Hc; assumption]. exists s', st. split; [exact Hs'|]. split; [|exact Hump].
             rewrite (Ho (rtag r) Hnone). apply blookup_bupdate_same. eexists. exact Hst.
          -- intros t Ht. cbn [existsb] in Ht. rewrite Hl in Ht. cbn [andb] in Ht. apply Bool.orb_false_iff in Ht. destruct Ht as (Ht1 & Ht2).
             rewrite (Ho t Ht2). apply blookup_bupdate_other. intros E. rewrite E, bytes_eqb_refl in Ht1. discriminate.
  Qed.
End Loops.

Definition texpected (ex : row -> gval) (r : row) : gval := if tlive r then ex r else g_zero (rty r).

Section ULoop.
  Variable ump : fspec -> fstate -> gty -> gval -> outcome gval.
  Variable subs : list (bytes * fspec).
  Variable ex : row -> gval.

  (* Unmarshal of the marshalled state into a zero struct *)
  Lemma uloop_rows l set' sts' :
    NoDup (map rtag (filter tagged l)) ->
    (forall t, bmem t set' = existsb (fun r => tlive r && bytes_eqb (rtag r) t) l) ->
    (forall r, In r l -> tlive r = true -> exists s' st, blookup (rtag r) subs = Some s' /\ blookup (rtag r) sts' = Some st /\ ump s' st (rty r) (g_zero (rty r)) = Ok (ex r)) ->
    forall l0, (forall r, In r l0 -> In r l) -> uloop ump subs set' sts' (map zero_row l0) = Ok (map (texpected ex) l0).
  Proof.
    intros Hnd Hb Hc. induction l0 as [|r rest IH]; intros Hsub; [reflexivity|]. cbn [map uloop].
    rewrite (IH (fun r0 Hi => Hsub r0 (or_intror Hi))).
    assert (Hin : In r l) by (apply Hsub; left; reflexivity).
    assert (Htag : rtag (zero_row r) = rtag r) by reflexivity. assert (Hty : rty (zero_row r) = rty r) by (destruct r as ((d, ft), fv); reflexivity).
    assert (Hval : rval (zero_row r) = g_zero (rty r)) by (destruct r as ((d, ft), fv); reflexivity).
    rewrite Htag, Hty, Hval. unfold texpected. destruct (tlive r) eqn:Hl.
    - destruct (Hc r Hin Hl) as (s' & st & Hs' & Hst & Hu).
      assert (Hm : bmem (rtag r) set' = true).
      { rewrite Hb. apply existsb_exists. exists r. split; [exact Hin|]. rewrite Hl, bytes_eqb_refl. reflexivity. }
      assert (Htg : tagged r = true) by (unfold tlive in Hl; apply Bool.andb_true_iff in Hl; tauto). unfold tagged in Htg.
      remember (rtag r) as tg eqn:Et. destruct tg as [|c t0]; [discriminate|]. rewrite Hs', Hst, Hm, Hu. reflexivity.
    - destruct (tagged r) eqn:Ht; [|unfold tagged in Ht; destruct (rtag r); [reflexivity|discriminate]].
      assert (Hm : bmem (rtag r) set' = false).
      { rewrite Hb. destruct (existsb (fun r0 => tlive r0 && bytes_eqb (rtag r0) (rtag r)) l) eqn:Ex; [|reflexivity]. exfalso.
        apply existsb_exists in Ex. destruct Ex as (r0 & Hi0 & Hr0). apply Bool.andb_true_iff in Hr0. destruct Hr0 as (Hl0 & He0). apply bytes_eqb_eq in He0.
        assert (Ht0 : tagged r0 = true) by (unfold tlive in Hl0; apply Bool.andb_true_iff in Hl0; tauto).
        assert (r0 = r); [|subst r0; congruence].
        assert (Hi1 : In r0 (filter tagged l)) by (apply filter_In; split; assumption).
        assert (Hi2 : In r (filter tagged l)) by (apply filter_In; split; assumption).
        clear - Hnd Hi1 Hi2 He0. revert Hnd Hi1 Hi2. generalize (filter tagged l). intros L.
        induction L as [|x L' IHL]; intros Hnd Hi1 Hi2; [destruct Hi1|]. cbn [map] in Hnd. apply NoDup_cons_iff in Hnd. destruct Hnd as (Hx & Hnd').
        destruct Hi1 as [->|Hi1], Hi2 as [E2|Hi2].
        - exact E2.
        - exfalso. apply Hx. rewrite He0. apply in_map. exact Hi2.
        - exfalso. apply Hx. subst x. rewrite <- He0. apply in_map. exact Hi1.
        - apply IHL; assumption. }
      rewrite Hm. destruct (rtag r); [reflexivity|]. destruct (blookup _ subs); [destruct (blookup _ sts')|]; reflexivity.
  Qed.
End ULoop.

(* ---------------- values of nested struct types, to any depth ---------------- *)
(* what comes back: a non-zero tagged field as it is (a nested struct pointer recursively so), everything else zero *)
Fixpoint expv (n : nat) (s : fspec) (t : gty) (v : gval) : gval :=
  match n with
  | O => v
  | S n' =>
      match s, t, v with
      | FComp _ _ _ subs, TPtr (TStruct fields), VPtr (Some (VStruct vals)) =>
          VPtr (Some (VStruct (map (texpected (fun r => match blookup (rtag r) subs with Some s' => expv n' s' (rty r) (rval r) | None => g_zero (rty r) end))
                                   (zip_decls fields vals))))
      | _, _, _ => v
      end
  end.

(* the values the theorem speaks about, to depth n: a documented non-zero cell of a primitive field, or for a composite
   a pointer to a struct whose tagged fields have pairwise distinct tags that name subfields of the specification and
   hold a zero value without keepzero or, recursively, such a value *)
Fixpoint vok (n : nat) (s : fspec) (t : gty) (v : gval) : Prop :=
  match n with
  | O => False
  | S n' =>
      match s with
      | FPrim p => exists st, cell (ps_kind p) t v st
      | FComp _ _ _ subs =>
          NoDup (map fst subs) /\
          exists fields vals, t = TPtr (TStruct fields) /\ v = VPtr (Some (VStruct vals)) /\ length vals = length fields /\
            NoDup (map rtag (filter tagged (zip_decls fields vals))) /\
            Forall (fun r => tagged r = false \/
                             (tagged r = true /\ exists s', blookup (rtag r) subs = Some s' /\
                                ((g_is_zero (rval r) = true /\ rkeep r = false) \/ (g_is_zero (rval r) = false /\ vok n' s' (rty r) (rval r)))))
                   (zip_decls fields vals)
      end
  end.

Theorem nested_roundtrip : forall n s t v, vok n s t v ->
  exists st, marshal_into n s (fresh s) t v = Ok st /\ unmarshal_from n s st t (g_zero t) = Ok (expv n s t v).
Proof.
  induction n as [|n IH]; intros s t v Hv; [destruct Hv|]. destruct s as [p|pref len mode subs].
  - cbn [vok] in Hv. destruct Hv as (st & Hc). destruct (cell_roundtrip _ _ _ _ Hc) as (_ & _ & Hm & Hu). exists st. split; [exact Hm|].
    cbn [unmarshal_from]. rewrite Hu. reflexivity.
  - cbn [vok] in Hv. destruct Hv as (Hnds & fields & vals & -> & -> & Hlen & Hnd & Hrows). cbn [fresh]. fold (gof subs).
    rewrite marshal_into_comp. set (l := zip_decls fields vals) in *.
    set (ex := fun r : row => match blookup (rtag r) subs with Some s' => expv n s' (rty r) (rval r) | None => g_zero (rty r) end).
    assert (Hok : Forall (trow_ok (marshal_into n) (unmarshal_from n) subs ex) l).
    { rewrite Forall_forall in *. intros r Hr. destruct (Hrows r Hr) as [Hnt|(Htg & s' & Hs' & Hcase)]; [left; exact Hnt|right]. split; [exact Htg|].
      exists s'. split; [exact Hs'|]. destruct Hcase as [Hz|(Hnz & Hvok)]; [left; exact Hz|right]. split; [exact Hnz|].
      destruct (IH s' (rty r) (rval r) Hvok) as (st & Hm & Hu). exists st. split; [exact Hm|]. unfold ex. rewrite Hs'. exact Hu. }
    destruct (mloop_rows (marshal_into n) (unmarshal_from n) subs ex l [] (gof subs) Hok Hnd) as (set' & sts' & Hm & Hb & Hc & _).
    { intros r s' _ _ Hs'. rewrite blookup_gof, Hs'. reflexivity. }
    exists (SComp set' sts'). split; [exact Hm|].
    change (g_zero (TPtr (TStruct fields))) with (VPtr None). rewrite unmarshal_from_comp. rewrite (zip_zero fields vals Hlen). fold l.
    rewrite (uloop_rows (unmarshal_from n) subs ex l set' sts' Hnd (fun t => Hb t) Hc l (fun r H => H)). cbn [obind expv]. reflexivity.
Qed.

(* ---------------- messages whose data elements may be composites ---------------- *)
Definition grow_ok (S : mspec) (m : mstate) (r : row) : Prop :=
  rid r < 0 \/
  (0 <= rid r /\ rid r <> 1 /\ exists s, get_spec S (rid r) = Some s /\ get_state m (rid r) = Some (fresh s) /\
     ((g_is_zero (rval r) = true /\ rkeep r = false) \/ (g_is_zero (rval r) = false /\ vok 8 s (rty r) (rval r)))).

Definition gexpected (S : mspec) (r : row) : gval :=
  if live r then match get_spec S (rid r) with Some s => expv 8 s (rty r) (rval r) | None => g_zero (rty r) end else g_zero (rty r).

Lemma gmarshal_rows S : forall (l : list row) m, Forall (grow_ok S m) l -> NoDup (map rid (filter indexed l)) ->
  exists m', m_marshal_fields S m l = (m', Ok tt) /\
    (forall id, zmem id (m_present m') = zmem id (m_present m) || existsb (fun r => live r && (rid r =? id)) l) /\
    (forall id, existsb (fun r => live r && (rid r =? id)) l = false -> get_state m' id = get_state m id) /\
    (forall r, In r l -> live r = true -> exists s st, get_spec S (rid r) = Some s /\ get_state m' (rid r) = Some st /\
                                                      unmarshal_from 8 s st (rty r) (g_zero (rty r)) = Ok (expv 8 s (rty r) (rval r))).
Proof.
  induction l as [|r rest IH]; intros m Hok Hnd.
  - exists m. split; [reflexivity|]. split; [intros id; cbn; rewrite Bool.orb_false_r; reflexivity|]. split; [reflexivity|intros r []].
  - inversion Hok as [|? ? Hr Hrest]; subst. destruct r as ((d, ft), fv). cbn [m_marshal_fields].
    change (it_id (index_tag_of d)) with (rid (d, ft, fv)). set (id := rid (d, ft, fv)) in *.
    assert (Hskip : live (d, ft, fv) = false -> NoDup (map rid (filter indexed rest)) ->
              exists m', m_marshal_fields S m rest = (m', Ok tt) /\
                (forall i, zmem i (m_present m') = zmem i (m_present m) || existsb (fun r => live r && (rid r =? i)) ((d, ft, fv) :: rest)) /\
                (forall i, existsb (fun r => live r && (rid r =? i)) ((d, ft, fv) :: rest) = false -> get_state m' i = get_state m i) /\
                (forall r, In r ((d, ft, fv) :: rest) -> live r = true -> exists s st, get_spec S (rid r) = Some s /\ get_state m' (rid r) = Some st /\
                                                      unmarshal_from 8 s st (rty r) (g_zero (rty r)) = Ok (expv 8 s (rty r) (rval r)))).
    { intros Hl Hnd'. destruct (IH m Hrest Hnd') as (m' & Hm & Hp & Hu & Hc). exists m'. split; [exact Hm|].
      split; [intros i; rewrite Hp; cbn [existsb]; rewrite Hl; reflexivity|]. split; [intros i Hi; apply Hu; cbn [existsb] in Hi; rewrite Hl in Hi; exact Hi|].
      intros r [<-|Hin] Hlv; [congruence|apply Hc; assumption]. }
    destruct Hr as [Hneg|(H0 & H1 & s & Hsp & Hst0 & Hcase)].
    + fold id in Hneg. replace (id <? 0) with true by lia.
      assert (Hl : live (d, ft, fv) = false) by (unfold live; fold id; replace (0 <=? id) with false by lia; reflexivity).
      cbn [filter] in Hnd. replace (indexed (d, ft, fv)) with false in Hnd by (unfold indexed; fold id; lia). apply Hskip; [exact Hl|exact Hnd].
    + fold id in H0, H1, Hsp, Hst0. replace (id <? 0) with false by lia.
      cbn [filter] in Hnd. replace (indexed (d, ft, fv)) with true in Hnd by (unfold indexed; fold id; lia). cbn [map] in Hnd. apply NoDup_cons_iff in Hnd. destruct Hnd as (Hnotin & Hnd). fold id in Hnotin.
      assert (Htarget : (if id =? 0 then Some (FPrim (ms_mti S), m_mti m)
                         else match zlookup id (ms_fields S), zlookup id (m_fields m) with Some s, Some st => Some (s, st) | _, _ => None end) = Some (s, fresh s)).
      { unfold get_state, get_spec in *. destruct (id =? 0); [congruence|]. rewrite Hsp, Hst0. reflexivity. }
      rewrite Htarget. destruct Hcase as [(Hz & Hk)|(Hnz & Hvok)]; cbn [rval rkeep rty fst snd] in *.
      * change (it_keepzero (index_tag_of d)) with (rkeep (d, ft, fv)). unfold rkeep in *. cbn [fst] in *. rewrite Hz, Hk. cbn [negb andb].
        assert (Hl : live (d, ft, fv) = false) by (unfold live; cbn [rval snd]; rewrite Hz; apply Bool.andb_false_r).
        apply Hskip; [exact Hl|exact Hnd].
      * rewrite Hnz. cbn [andb]. destruct (nested_roundtrip 8 s ft fv Hvok) as (st & Hmi & Hun). rewrite Hmi.
        assert (Hl : live (d, ft, fv) = true) by (unfold live; fold id; cbn [rval snd]; rewrite Hnz; replace (0 <=? id) with true by lia; reflexivity).
        set (m1 := with_present (if id =? 0 then with_mti m st else with_fields m (zupdate id st (m_fields m)))
                                (zadd id (m_present (if id =? 0 then with_mti m st else with_fields m (zupdate id st (m_fields m)))))).
        assert (Hg1 : forall i, get_state m1 i = if i =? id then Some st else get_state m i).
        { intros i. unfold get_state, m1. destruct (id =? 0) eqn:E0; cbn [with_present with_mti with_fields m_fields m_mti].
          - assert (id = 0) by lia. destruct (i =? 0) eqn:Ei; [replace (i =? id) with true by lia; reflexivity|replace (i =? id) with false by lia; reflexivity].
          - destruct (i =? 0) eqn:Ei; [replace (i =? id) with false by lia; reflexivity|].
            destruct (i =? id) eqn:Eid; [assert (i = id) by lia; subst i; apply zlookup_zupdate_same; unfold get_state in Hst0; rewrite E0 in Hst0; eexists; exact Hst0|rewrite zlookup_zupdate_other by lia; reflexivity]. }
        assert (Hp1 : forall i, zmem i (m_present m1) = (i =? id) || zmem i (m_present m)).
        { intros i. unfold m1. cbn [with_present m_present]. rewrite zmem_zadd. destruct (id =? 0); reflexivity. }
        assert (Hother : forall r, In r rest -> 0 <= rid r -> rid r <> id).
        { intros r Hr Hr0 E. apply Hnotin. rewrite <- E. apply in_map. apply filter_In. split; [exact Hr|unfold indexed; lia]. }
        assert (Hnone : existsb (fun r => live r && (rid r =? id)) rest = false).
        { destruct (existsb (fun r => live r && (rid r =? id)) rest) eqn:Ex; [|reflexivity]. exfalso. apply existsb_exists in Ex. destruct Ex as (r & Hin & Hr).
          apply Bool.andb_true_iff in Hr. destruct Hr as (Hlr & Hidr). unfold live in Hlr. apply Bool.andb_true_iff in Hlr. apply (Hother r Hin); lia. }
        assert (Hrest1 : Forall (grow_ok S m1) rest).
        { rewrite Forall_forall in *. intros r Hr. destruct (Hrest r Hr) as [Hn|(A0 & A1 & s2 & A2 & A3 & A4)]; [left; exact Hn|right]. split; [exact A0|]. split; [exact A1|].
          exists s2. split; [exact A2|]. split; [|exact A4]. rewrite Hg1. pose proof (Hother r Hr A0). replace (rid r =? id) with false by lia. exact A3. }
        destruct (IH m1 Hrest1 Hnd) as (m' & Hm & Hp & Hu & Hc). exists m'. split; [exact Hm|].
        split; [|split].
        -- intros i. rewrite Hp, Hp1. cbn [existsb]. rewrite Hl. cbn [andb]. fold id. rewrite (Z.eqb_sym id i). destruct (i =? id), (zmem i (m_present m)), (existsb _ rest); reflexivity.
        -- intros i Hi. cbn [existsb] in Hi. rewrite Hl in Hi. cbn [andb] in Hi. fold id in Hi. apply Bool.orb_false_iff in Hi. destruct Hi as (Hi1 & Hi2).
           rewrite (Hu i Hi2), Hg1. replace (i =? id) with false by lia. reflexivity.
        -- intros r [<-|Hin] Hlv.
           ++ exists s, st. split; [exact Hsp|]. split; [|exact Hun]. fold id. rewrite (Hu id Hnone), Hg1, Z.eqb_refl. reflexivity.
           ++ apply Hc; assumption.
Qed.

Lemma gunmarshal_rows S m m' l : Forall (grow_ok S m) l ->
  NoDup (map rid (filter indexed l)) ->
  (forall r, In r l -> 0 <= rid r -> zmem (rid r) (m_present m) = false) ->
  (forall id, zmem id (m_present m') = zmem id (m_present m) || existsb (fun r => live r && (rid r =? id)) l) ->
  (forall r, In r l -> live r = true -> exists s st, get_spec S (rid r) = Some s /\ get_state m' (rid r) = Some st /\
                                                    unmarshal_from 8 s st (rty r) (g_zero (rty r)) = Ok (expv 8 s (rty r) (rval r))) ->
  forall l0, (forall r, In r l0 -> In r l) -> m_unmarshal_fields S m' (map zero_row l0) = Ok (map (gexpected S) l0).
Proof.
  intros Hok Hnd Hfresh Hp Hc. induction l0 as [|r rest IH]; intros Hsub; [reflexivity|].
  cbn [map]. destruct r as ((d, ft), fv). unfold zero_row at 1. cbn [fst snd rty]. cbn [m_unmarshal_fields].
  rewrite (IH (fun r Hi => Hsub r (or_intror Hi))). cbn [obind].
  change (it_id (index_tag_of d)) with (rid (d, ft, fv)).
  assert (Hin : In (d, ft, fv) l) by (apply Hsub; left; reflexivity).
  rewrite Forall_forall in Hok. pose proof (Hok _ Hin) as Hrow. set (id := rid (d, ft, fv)) in *.
  destruct Hrow as [Hneg|(H0 & H1 & s & Hsp & Hst0 & Hcase)].
  - replace (id <? 0) with true by lia. cbn [obind]. unfold gexpected, live. fold id. replace (0 <=? id) with false by lia. reflexivity.
  - replace (id <? 0) with false by lia. cbn [rval rkeep rty fst snd] in Hcase.
    destruct (live (d, ft, fv)) eqn:Hl.
    + destruct (Hc _ Hin Hl) as (s2 & st & Hsp2 & Hst & Hun). fold id in Hsp2, Hst. cbn [rty rval fst snd] in Hun.
      assert (s2 = s) by (unfold get_spec in *; fold id in Hsp; congruence). subst s2.
      assert (Hsource : (if id =? 0 then Some (FPrim (ms_mti S), m_mti m')
                         else match zlookup id (ms_fields S), zlookup id (m_fields m') with Some s, Some st => Some (s, st) | _, _ => None end) = Some (s, st)).
      { unfold get_state, get_spec in *. fold id in Hsp. destruct (id =? 0); [congruence|]. rewrite Hsp, Hst. reflexivity. }
      rewrite Hsource.
      assert (Hpres : zmem id (m_present m') = true).
      { rewrite Hp. apply Bool.orb_true_iff. right. apply existsb_exists. exists (d, ft, fv). split; [exact Hin|]. rewrite Hl. fold id. lia. }
      rewrite Hpres, Hun. cbn [obind]. unfold gexpected. rewrite Hl. subst id. rewrite Hsp. reflexivity.
    + (* not live: the element is absent *)
      assert (Habs : zmem id (m_present m') = false).
      { pose proof (Hfresh _ Hin H0) as Hf. fold id in Hf. rewrite Hp, Hf. cbn [orb]. destruct (existsb (fun r => live r && (rid r =? id)) l) eqn:Ex; [|reflexivity]. exfalso.
        apply existsb_exists in Ex. destruct Ex as (r & Hr & Hlr). apply Bool.andb_true_iff in Hlr. destruct Hlr as (Hlv & Hidr).
        assert (r = (d, ft, fv)); [|subst r; congruence].
        assert (Hi1 : In r (filter indexed l)) by (apply filter_In; split; [exact Hr|unfold indexed; lia]).
        assert (Hi2 : In (d, ft, fv) (filter indexed l)) by (apply filter_In; split; [exact Hin|unfold indexed; fold id; lia]).
        clear - Hnd Hi1 Hi2 Hidr. assert (Hid : rid r = rid (d, ft, fv)) by (fold id; lia). clear Hidr. revert Hnd Hi1 Hi2 Hid. generalize (filter indexed l). intros L.
        induction L as [|x L' IHL]; intros Hnd Hi1 Hi2 Hid; [destruct Hi1|]. cbn [map] in Hnd. apply NoDup_cons_iff in Hnd. destruct Hnd as (Hx & Hnd').
        destruct Hi1 as [->|Hi1], Hi2 as [E2|Hi2].
        - exact E2.
        - exfalso. apply Hx. rewrite Hid. apply in_map. exact Hi2.
        - exfalso. apply Hx. subst x. rewrite <- Hid. apply in_map. exact Hi1.
        - apply IHL; assumption. }
      replace (id =? 1) with false by lia. cbn [andb]. unfold gexpected. rewrite Hl.
      destruct (if id =? 0 then Some (FPrim (ms_mti S), m_mti m')
                else match zlookup id (ms_fields S), zlookup id (m_fields m') with Some s, Some st => Some (s, st) | _, _ => None end) as [(s3, st3)|]; [rewrite Habs|]; reflexivity.
Qed.

(* Message.Marshal then Message.Unmarshal into a zero struct, for structs whose indexed fields are bound to the MTI, to
   primitive data elements or - through pointers to nested structs, to any depth within the recursion limit - to
   composite data elements of a message object that has not been populated yet *)
Theorem gstruct_roundtrip S m fields vals : length vals = length fields ->
  let l := zip_decls fields vals in
  Forall (grow_ok S m) l -> NoDup (map rid (filter indexed l)) ->
  (forall r, In r l -> 0 <= rid r -> zmem (rid r) (m_present m) = false) ->
  exists m', m_marshal S m (TPtr (TStruct fields)) (VPtr (Some (VStruct vals))) = (m', Ok tt) /\
    m_unmarshal S m' (TPtr (TStruct fields)) (VPtr (Some (VStruct (map (fun df => g_zero (snd df)) fields)))) = Ok (VPtr (Some (VStruct (map (gexpected S) l)))).
Proof.
  intros Hlen l Hok Hnd Hfresh.
  destruct (gmarshal_rows S l m Hok Hnd) as (m' & Hm & Hp & _ & Hc). exists m'. cbn [m_marshal m_unmarshal]. split; [exact Hm|].
  rewrite (zip_zero fields vals Hlen). fold l.
  rewrite (gunmarshal_rows S m m' l Hok Hnd Hfresh Hp Hc l (fun r H => H)). reflexivity.
Qed.

(* ---------------- via Pack and Unpack into another message ---------------- *)
(* Unmarshal reads a composite through its populated set and the states of the populated subfields only: equivalent
   states (the relation the round-trip theorems of C01 establish) unmarshal to the same value *)
Lemma uloop_ext ump1 ump2 subs set1 sts1 set2 sts2 : forall l,
  (forall t, bmem t set2 = bmem t set1) ->
  (forall r s' x, In r l -> blookup (rtag r) subs = Some s' -> bmem (rtag r) set1 = true -> blookup (rtag r) sts1 = Some x ->
     exists y, blookup (rtag r) sts2 = Some y /\ ump2 s' y (rty r) (rval r) = ump1 s' x (rty r) (rval r)) ->
  (forall r s', In r l -> blookup (rtag r) subs = Some s' -> bmem (rtag r) set1 = true -> blookup (rtag r) sts1 = None -> blookup (rtag r) sts2 = None) ->
  uloop ump2 subs set2 sts2 l = uloop ump1 subs set1 sts1 l.
Proof.
  induction l as [|r rest IH]; intros Hb Hs Hn; [reflexivity|]. cbn [uloop].
  rewrite (IH Hb (fun r0 s' x Hi => Hs r0 s' x (or_intror Hi)) (fun r0 s' Hi => Hn r0 s' (or_intror Hi))). f_equal.
  destruct (rtag r) as [|c t0] eqn:Et; [reflexivity|]. rewrite <- Et in *.
  destruct (blookup (rtag r) subs) as [s'|] eqn:Es; [|reflexivity]. rewrite Hb.
  destruct (bmem (rtag r) set1) eqn:Em.
  - destruct (blookup (rtag r) sts1) as [x|] eqn:Ex.
    + destruct (Hs r s' x (or_introl eq_refl) Es Em Ex) as (y & Hy & He). rewrite Hy. exact He.
    + rewrite (Hn r s' (or_introl eq_refl) Es Em Ex). reflexivity.
  - destruct (blookup (rtag r) sts1), (blookup (rtag r) sts2); reflexivity.
Qed.

Theorem unmarshal_equiv : forall n s x y t cur, equiv s x y -> unmarshal_from n s y t cur = unmarshal_from n s x t cur.
Proof.
  induction n as [|n IH]; intros s x y t cur He; [reflexivity|]. destruct s as [p|pref len mode subs].
  - cbn [equiv] in He. subst y. reflexivity.
  - destruct x as [v|v|v|v|setx stsx]; try contradiction. destruct y as [v|v|v|v|sety stsy]; try contradiction. cbn [equiv] in He. destruct He as (Hset & Hsub).
    destruct t as [| | | |t'| |]; try reflexivity. destruct t' as [| | | | | |fields]; try reflexivity.
    rewrite !unmarshal_from_comp. f_equal. apply uloop_ext.
    + intros t. symmetry. apply Hset.
    + intros r s' x0 _ Hs' Hm Hx. pose proof (blookup_In _ _ _ Hs') as Hin. destruct (proj1 (equiv_subs equiv setx stsx stsy subs) Hsub (rtag r) s' Hin Hm) as (x1 & y1 & Hx1 & Hy1 & Heq).
      exists y1. split; [exact Hy1|]. assert (x1 = x0) by congruence. subst x1. apply IH. exact Heq.
    + intros r s' _ Hs' Hm Hx. pose proof (blookup_In _ _ _ Hs') as Hin. destruct (proj1 (equiv_subs equiv setx stsx stsy subs) Hsub (rtag r) s' Hin Hm) as (x1 & y1 & Hx1 & _). congruence.
Qed.

Lemma gunmarshal_congr S ma mb : forall (l : list row),
  (forall r, In r l -> rid r <> 1) ->
  (forall r, In r l -> 0 <= rid r -> zmem (rid r) (m_present mb) = zmem (rid r) (m_present ma)) ->
  (forall r, In r l -> 0 <= rid r -> zmem (rid r) (m_present ma) = true ->
     exists s x y, get_spec S (rid r) = Some s /\ get_state ma (rid r) = Some x /\ get_state mb (rid r) = Some y /\ equiv s x y) ->
  m_unmarshal_fields S mb l = m_unmarshal_fields S ma l.
Proof.
  induction l as [|r rest IH]; intros H1 Hp Hs; [reflexivity|]. destruct r as ((d, ft), fv). cbn [m_unmarshal_fields].
  rewrite (IH (fun r Hi => H1 r (or_intror Hi)) (fun r Hi => Hp r (or_intror Hi)) (fun r Hi => Hs r (or_intror Hi))).
  change (it_id (index_tag_of d)) with (rid (d, ft, fv)).
  pose proof (H1 _ (or_introl eq_refl)) as Hne1. pose proof (Hp _ (or_introl eq_refl)) as Hpr. pose proof (Hs _ (or_introl eq_refl)) as Hsr.
  set (id := rid (d, ft, fv)) in *. destruct (id <? 0) eqn:E0; [reflexivity|]. specialize (Hpr ltac:(lia)). specialize (Hsr ltac:(lia)).
  replace (id =? 1) with false by lia. cbn [andb]. f_equal.
  destruct (zmem id (m_present ma)) eqn:Em.
  - destruct (Hsr eq_refl) as (s & x & y & Hsp & Hx & Hy & Heq). unfold get_state, get_spec in *. rewrite Hpr.
    destruct (id =? 0) eqn:Ez.
    + inversion Hsp; subst s. inversion Hx; subst x. inversion Hy; subst y. apply unmarshal_equiv. exact Heq.
    + rewrite Hsp, Hx, Hy. apply unmarshal_equiv. exact Heq.
  - unfold get_state, get_spec in *. rewrite Hpr. destruct (id =? 0); [reflexivity|].
    destruct (zlookup id (ms_fields S)); [|reflexivity]. destruct (zlookup id (m_fields ma)), (zlookup id (m_fields mb)); reflexivity.
Qed.

Theorem gstruct_wire_roundtrip S m fields vals : length vals = length fields ->
  let l := zip_decls fields vals in
  Forall (grow_ok S m) l -> NoDup (map rid (filter indexed l)) ->
  (forall r, In r l -> 0 <= rid r -> zmem (rid r) (m_present m) = false) ->
  msg_coherent S ->
  exists m', m_marshal S m (TPtr (TStruct fields)) (VPtr (Some (VStruct vals))) = (m', Ok tt) /\
    forall mp b, msg_in_dom S m' -> m_pack S m' = (mp, Ok b) -> forall m0 rest, msg_shaped S m0 ->
      exists m2, m_unpack S m0 (b ++ rest) = (m2, UOk (zlen b)) /\
        m_unmarshal S m2 (TPtr (TStruct fields)) (VPtr (Some (VStruct (map (fun df => g_zero (snd df)) fields)))) = Ok (VPtr (Some (VStruct (map (gexpected S) l)))).
Proof.
  intros Hlen l Hok Hnd Hfresh Hcoh.
  destruct (gstruct_roundtrip S m fields vals Hlen Hok Hnd Hfresh) as (m' & Hm & Hun). exists m'. split; [exact Hm|].
  intros mp b Hdom Hp m0 rest Hsh. destruct (message_roundtrip S m' mp b Hcoh Hdom Hp m0 rest Hsh) as (m2 & Hu & Hmti & _ & Hpres & _ & Hfl).
  exists m2. split; [exact Hu|]. cbn [m_unmarshal] in *. rewrite (zip_zero fields vals Hlen) in *. fold l in Hun |- *.
  pose proof (m_pack_pure S m') as Hpure. rewrite Hp in Hpure. cbn [fst] in Hpure. cbv zeta in Hpure. destruct Hpure as (Pm & Pf & Pp).
  rewrite <- Hun. f_equal.
  assert (Hrid1 : forall r, In r (map zero_row l) -> rid r <> 1).
  { intros r Hr. apply in_map_iff in Hr. destruct Hr as (r0 & <- & Hr0). rewrite Forall_forall in Hok. destruct (Hok r0 Hr0) as [Hneg|(_ & H1 & _)]; unfold rid, zero_row in *; cbn [fst] in *; lia. }
  rewrite (gunmarshal_congr S m' m2 (map zero_row l)); [reflexivity|exact Hrid1| |].
  - intros r Hr H0. rewrite Hpres by (apply Hrid1; exact Hr). apply Pp. apply Hrid1. exact Hr.
  - intros r Hr H0 Hm'. pose proof (Hrid1 r Hr) as H1. apply in_map_iff in Hr. destruct Hr as (r0 & <- & Hr0). rewrite Forall_forall in Hok.
    assert (Hid : rid (zero_row r0) = rid r0) by reflexivity. rewrite Hid in *.
    destruct (Hok r0 Hr0) as [Hneg|(_ & _ & s & Hsp & _ & _)]; [lia|]. unfold get_state, get_spec in *.
    destruct (rid r0 =? 0) eqn:Ez.
    + inversion Hsp; subst s. exists (FPrim (ms_mti S)), (m_mti m'), (m_mti m2). repeat split. cbn [equiv]. rewrite Hmti, Pm. reflexivity.
    + assert (Hmp : zmem (rid r0) (m_present mp) = true) by (rewrite Pp by exact H1; exact Hm').
      destruct (Hfl (rid r0) ltac:(lia) Hmp) as (s2 & x & y & Hs & Hx & Hy & Heq & _). rewrite Hsp in Hs. inversion Hs; subst s2.
      exists s, x, y. split; [exact Hsp|]. split; [rewrite <- Pf; exact Hx|]. split; [exact Hy|exact Heq].
Qed.
