(* C02 at message level for every nested specification: a message Unpack accepts, if it packs, lies in the domain of the
   message round trip - so the re-packed bytes are accepted again, decode to the same message and re-pack to themselves.
   About Model/Message.v. *)
From Coq Require Import Strings.String.
From Iso Require Import Model.Base Model.Padding Model.Encoding Model.Prefix Model.Bitmap Model.Spec Model.Field Model.Message
     Proofs.BaseLemmas Proofs.PaddingProofs Proofs.EncodingProofs Proofs.DigitsProofs Proofs.PrefixProofs Proofs.FieldProofs
     Proofs.BitmapProofs Proofs.CompositeProofs Proofs.StateProofs Proofs.MessageRoundtrip Proofs.AcceptProofs Proofs.MessageAccept Proofs.CompositeAccept.
From Coq Require Import ZifyBool ZifyNat ZifyN Sorting.Permutation Sorting.Sorted.
Set Default Timeout 120.

Definition elem_dom (S : mspec) (bm : bytes) (fl : list (Z * fstate)) (id : Z) : Prop :=
  bm_is_presence_bit (ms_bm S) id = false /\ bm_isset bm id = true /\
  exists s st, zlookup id (ms_fields S) = Some s /\ zlookup id fl = Some st /\ dom_if_packs s st.

Definition all_shaped (S : mspec) (fields : list (Z * fstate)) : Prop :=
  forall id s, zlookup id (ms_fields S) = Some s -> exists st, zlookup id fields = Some st /\ shaped s st.

Lemma unpack_fields_dom S bm : (forall id s, zlookup id (ms_fields S) = Some s -> acc_dom s) ->
  forall fuel i src off present fields p' f' n, all_shaped S fields ->
    unpack_fields fuel S bm i src off present fields = ((p', f'), UOk n) ->
    (forall id, zmem id present = true -> zmem id p' = true) /\
    (forall id, zmem id p' = true -> zmem id present = true \/ (i <= id < i + Z.of_nat fuel /\ elem_dom S bm f' id)) /\
    (forall id, id < i -> zlookup id f' = zlookup id fields).
Proof.
  intros Hacc. induction fuel as [|f IH]; intros i src off present fields p' f' n Hsh H; cbn [unpack_fields] in H.
  - inversion H; subst. split; [tauto|]. split; [intros id Hm; left; exact Hm|reflexivity].
  - assert (Hskip : unpack_fields f S bm (i + 1) src off present fields = (p', f', UOk n) ->
            (forall id, zmem id present = true -> zmem id p' = true) /\
            (forall id, zmem id p' = true -> zmem id present = true \/ (i <= id < i + Z.of_nat (Datatypes.S f) /\ elem_dom S bm f' id)) /\
            (forall id, id < i -> zlookup id f' = zlookup id fields)).
    { intros H'. destruct (IH _ _ _ _ _ _ _ _ Hsh H') as (P1 & P2 & P3). split; [exact P1|]. split.
      - intros id Hm. destruct (P2 id Hm) as [Hl|(Hr & He)]; [left; exact Hl|right; split; [lia|exact He]].
      - intros id Hid. apply P3. lia. }
    destruct (bm_is_presence_bit (ms_bm S) i) eqn:Epb; [apply Hskip; exact H|].
    destruct (bm_isset bm i) eqn:Eset; [|apply Hskip; exact H].
    destruct (zlookup i (ms_fields S)) as [s|] eqn:Es; [|discriminate]. destruct (Hsh i s Es) as (st & Est & Hshst). rewrite Est in H.
    destruct (unpack_f s st (zdrop off src)) as [st' [read|pth e|q|]] eqn:Eu; try discriminate.
    destruct (Hacc i s Es st _ st' read Hshst Eu) as (Hsh' & Hdom).
    assert (Hsh1 : all_shaped S (zupdate i st' fields)).
    { intros id s0 Hs0. destruct (Z.eq_dec id i) as [->|Hne].
      - exists st'. split; [apply zlookup_zupdate_same; eexists; exact Est|]. assert (s0 = s) by congruence. subst. exact Hsh'.
      - rewrite zlookup_zupdate_other by lia. apply Hsh. exact Hs0. }
    destruct (IH _ _ _ _ _ _ _ _ Hsh1 H) as (P1 & P2 & P3).
    split; [|split].
    + intros id Hm. apply P1. rewrite zmem_zadd, Hm. apply Bool.orb_true_r.
    + intros id Hm. destruct (P2 id Hm) as [Hl|(Hr & He)]; [|right; split; [lia|exact He]].
      rewrite zmem_zadd in Hl. destruct (id =? i) eqn:Ei; [|left; exact Hl]. assert (id = i) by lia. subst id. right. split; [lia|].
      split; [exact Epb|]. split; [exact Eset|]. exists s, st'. split; [exact Es|]. split; [|exact Hdom].
      rewrite P3 by lia. apply zlookup_zupdate_same. exists st. exact Est.
    + intros id Hid. rewrite P3 by lia. apply zlookup_zupdate_other. lia.
Qed.

(* when a message packs, each of its data elements packs, to no more bytes than the whole *)
Lemma pack_ids_subs S m bm : forall l body, pack_ids S m bm l = Ok body ->
  forall id, In id l -> 2 <= id -> bm_is_presence_bit (ms_bm S) id = false ->
    exists s st pb, zlookup id (ms_fields S) = Some s /\ zlookup id (m_fields m) = Some st /\ pack_f s st = Ok pb /\ zlen pb <= zlen body.
Proof.
  induction l as [|i r IH]; intros body Hp id Hin H2 Hpb; [destruct Hin|]. cbn [pack_ids] in Hp.
  destruct (negb (i =? 1) && bm_is_presence_bit (ms_bm S) i) eqn:Esk.
  - destruct Hin as [<-|Hin]; [rewrite Hpb, Bool.andb_false_r in Esk; discriminate|apply (IH body Hp id Hin H2 Hpb)].
  - destruct (if i =? 0 then pack_f (FPrim (ms_mti S)) (m_mti m) else if i =? 1 then bm_pack (ms_bm S) bm
              else match zlookup i (ms_fields S), zlookup i (m_fields m) with Some s, Some st => pack_f s st | _, _ => Err (E "message.no_specification"%string) end) as [pf| | |] eqn:Epf; cbn [obind] in Hp; try discriminate.
    destruct (pack_ids S m bm r) as [more| | |] eqn:Emore; cbn [obind] in Hp; try discriminate.
    assert (body = pf ++ more) by congruence. subst body. pose proof (zlen_nonneg pf). pose proof (zlen_nonneg more).
    destruct Hin as [<-|Hin].
    + replace (i =? 0) with false in Epf by lia. replace (i =? 1) with false in Epf by lia.
      destruct (zlookup i (ms_fields S)) as [s|]; [|discriminate]. destruct (zlookup i (m_fields m)) as [st|]; [|discriminate].
      exists s, st, pf. repeat split; try assumption. rewrite zlen_app. lia.
    + destruct (IH more eq_refl id Hin H2 Hpb) as (s & st & pb & A & B & C & D). exists s, st, pb. repeat split; try assumption. rewrite zlen_app. lia.
Qed.

Theorem message_dom_if_packs S m0 d m n m' b : msg_coherent S -> accept_ok (ms_mti S) ->
  (forall id s, zlookup id (ms_fields S) = Some s -> accept_spec s) -> msg_shaped S m0 ->
  m_unpack S m0 d = (m, UOk n) -> m_pack S m = (m', Ok b) -> zlen b <= max_int ->
  msg_in_dom S m.
Proof.
  intros (Hmti & HB & He & (f & Hpf) & Hcoh) Hmok Hasp Hsh Hu Hp Hbmax.
  assert (Hacc : forall id s, zlookup id (ms_fields S) = Some s -> acc_dom s) by (intros id s Hs; apply spec_acc_dom; [apply (Hcoh id s Hs)|apply (Hasp id s Hs)]).
  pose proof (m_unpack_shape S m0 d) as (Hcached & Hnd). rewrite Hu in Hcached, Hnd. cbn [fst] in Hcached, Hnd.
  unfold m_unpack in Hu. cbv zeta in Hu.
  set (m0r := with_failed (with_fields m0 (reset_fields S (m_failed m0) (m_present m0) (m_fields m0))) []) in *.
  set (m1 := with_bm (m_bitmap S (with_present m0r [])) (bm_new (ms_bm S))) in *.
  destruct (unpack_f (FPrim (ms_mti S)) (m_mti m1) d) as [mti' [read|pth e|q|]] eqn:Emti; try (inversion Hu; fail).
  destruct (bm_unpack (ms_bm S) (m_bm (with_present (with_mti m1 mti') (zadd 0 (m_present m1)))) (zdrop read d)) as [bm [r2|e|q|]] eqn:Ebm; try (inversion Hu; fail).
  cbn [with_present with_bm with_mti m_present m_fields m_bm m_mti m_bmcached] in Hu.
  destruct (unpack_fields (Z.to_nat (zlen bm * 8 - 1)) S bm 2 d (read + r2) (zadd 1 (zadd 0 (m_present m1))) (m_fields m1)) as [[p fl] r] eqn:Ef.
  assert (r = UOk n) by congruence. subst r.
  assert (Hm : m = {| m_mti := mti'; m_fields := fl; m_present := p; m_bm := bm; m_bmcached := m_bmcached m1; m_failed := [] |}) by (inversion Hu; reflexivity).
  clear Hu. subst m. cbn [m_bmcached m_present] in Hcached, Hnd.
  assert (Hm1f : m_fields m1 = reset_fields S (m_failed m0) (m_present m0) (m_fields m0)) by (unfold m1, m_bitmap; destruct (m_bmcached (with_present m0r [])); reflexivity).
  assert (Hsh1 : all_shaped S (m_fields m1)).
  { rewrite Hm1f. intros id s Hs. destruct (Hsh id s Hs) as (st & Hst & Hshaped). rewrite zlookup_reset, Hst. eexists. split; [reflexivity|].
    destruct (zmem id (m_present m0) || bytes_eqb (itoa id) (m_failed m0)); [|exact Hshaped]. rewrite Hs. apply fresh_shaped. apply (Hcoh id s Hs). }
  destruct (unpack_fields_dom S bm Hacc _ _ _ _ _ _ _ _ _ Hsh1 Ef) as (P1 & P2 & _).
  destruct (prim_accept (ms_mti S) (m_mti m1) d mti' read Hmti Hmok Emti) as (Hmtidom & _).
  assert (Hinit : forall id, zmem id (zadd 1 (zadd 0 (m_present m1))) = true -> id = 0 \/ id = 1).
  { intros id Hm. rewrite !zmem_zadd in Hm. unfold m1, m_bitmap in Hm. cbn [with_bm with_present m_present m_bmcached] in Hm.
    destruct (m_bmcached m0r); cbn [m_present with_present zmem existsb] in Hm; [lia|]. rewrite ?zmem_zadd in Hm. cbn [m_present with_present zmem existsb] in Hm. unfold zmem in Hm. cbn in Hm. lia. }
  (* what Pack tells about the elements *)
  set (m := {| m_mti := mti'; m_fields := fl; m_present := p; m_bm := bm; m_bmcached := m_bmcached m1; m_failed := [] |}) in *.
  unfold m_pack in Hp. assert (Hmb : m_bitmap S m = m) by (unfold m_bitmap; cbn [m m_bmcached]; rewrite Hcached; reflexivity). rewrite Hmb in Hp.
  destruct (set_bits (ms_bm S) (packable_ids m) (bm_new (ms_bm S))) as [bm2 [u|e|q|]] eqn:Es; try (inversion Hp; fail). cbv zeta in Hp.
  assert (Hpk : pack_ids S (with_bm m bm2) bm2 (packable_ids m) = Ok b) by (inversion Hp; reflexivity).
  split; [exact Hnd|]. split; [apply P1; rewrite !zmem_zadd; cbn; lia|]. split; [exact Hmtidom|]. cbn [m m_present m_fields].
  intros id Hmem. destruct (P2 id Hmem) as [Hl|(Hr & Hpb & _ & s & st & Hs & Hst & Hd)]; [destruct (Hinit id Hl); tauto|].
  right. right. split; [lia|]. split; [exact Hpb|]. exists s, st. split; [exact Hs|]. split; [exact Hst|].
  assert (Hin : In id (packable_ids m)).
  { unfold packable_ids. apply (Permutation_in _ (sort_z_is_perm _)). right. apply zmem_In. cbn [m m_present]. rewrite zmem_zremove by lia. exact Hmem. }
  destruct (pack_ids_subs S (with_bm m bm2) bm2 _ b Hpk id Hin ltac:(lia) Hpb) as (s2 & st2 & pb & A & B & C & D).
  cbn [with_bm m m_fields] in B. assert (s2 = s) by congruence. assert (st2 = st) by congruence. subst. apply (Hd pb C). lia.
Qed.

(* C02 for messages over any nested specification, given that the accepted message packs *)
Theorem message_canonical_if_packs S m0 d m n m' b : msg_coherent S -> accept_ok (ms_mti S) ->
  (forall id s, zlookup id (ms_fields S) = Some s -> accept_spec s) -> msg_shaped S m0 ->
  m_unpack S m0 d = (m, UOk n) -> m_pack S m = (m', Ok b) -> zlen b <= max_int ->
  forall m1 rest, msg_shaped S m1 ->
    exists m2, m_unpack S m1 (b ++ rest) = (m2, UOk (zlen b)) /\ msg_equiv S m' m2 /\ snd (m_pack S m2) = Ok b.
Proof.
  intros Hcoh Hmti Hasp Hsh Hu Hp Hmax m1 rest Hsh1.
  pose proof (message_dom_if_packs S m0 d m n m' b Hcoh Hmti Hasp Hsh Hu Hp Hmax) as Hdom.
  destruct (message_roundtrip S m m' b Hcoh Hdom Hp m1 rest Hsh1) as (m2 & Hun & Heq). exists m2. split; [exact Hun|]. split; [exact Heq|].
  pose proof (message_repack S m m' b Hcoh Hdom Hp m1 rest Hsh1) as Hr. rewrite Hun in Hr. exact Hr.
Qed.
