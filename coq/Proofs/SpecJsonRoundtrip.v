(* C17: ExportJSON then ImportJSON gives the specification back, for whole trees of the expressible vocabulary.
   About Model/SpecJson.v. *)
From Coq Require Import Strings.String.
From Iso Require Import Model.Base Model.Padding Model.Encoding Model.Prefix Model.Bitmap Model.Spec Model.Field Model.MessageOps Model.SpecJson
     Proofs.BaseLemmas Proofs.FieldProofs Proofs.SpecJsonProofs Proofs.CompositeProofs.
From Coq Require Import ZifyBool ZifyNat ZifyN.
Open Scope list_scope.
Set Default Timeout 120.

Lemma jget_cons k k' v r : jget k ((k', v) :: r) = if bytes_eqb k k' then v else jget k r.
Proof. unfold jget. cbn [blookup]. destruct (bytes_eqb k k'); reflexivity. Qed.
Lemma jget_nil k : jget k [] = JNull.
Proof. reflexivity. Qed.

(* decide the comparisons of literal keys *)
Ltac keys := repeat match goal with
  | |- context [bytes_eqb (Q ?a) (Q ?b)] => let v := eval vm_compute in (bytes_eqb (Q a) (Q b)) in change (bytes_eqb (Q a) (Q b)) with v
  end.
Ltac jg := rewrite ?jget_cons, ?jget_nil; keys; cbv iota.

Lemma j_int_nz z : 0 <= z < two63 -> j_int (match nz_int z with Some d => d | None => JNull end) = Ok z.
Proof.
  intros H. unfold nz_int. destruct (z =? 0) eqn:E; cbn [j_int]; [f_equal; lia|].
  replace ((- two63 <=? z) && (z <? two63)) with true by (unfold two63 in *; lia). reflexivity.
Qed.

Lemma kind_name_known k : k <> KHex -> known_type (kind_name k) = true.
Proof. destruct k; intros H; try reflexivity. contradiction. Qed.

(* what decode_dummy reads from an exported primitive field *)
Lemma export_prim p : exportable_pspec p -> exists d en, enc_ext_name (ps_enc p) = Some en /\ export_field (FPrim p) = Ok d /\
  decode_dummy d = Ok {| d_type := kind_name (ps_kind p); d_len := ps_len p; d_enc := en; d_pref := pref_name (ps_pref p); d_pad := ps_pad p; d_tag := None;
                         d_subs := []; d_bitmap := JNull; d_dae := false; d_isnull := false |}.
Proof.
  intros (He & Hp & Hk & Hpk & Hl & Hpad). destruct (enc_of_name_roundtrip _ He) as (en & Hen & _).
  cbn [export_field]. rewrite Hen. eexists _, en. split; [reflexivity|]. split; [reflexivity|].
  pose proof (import_export_pad (ps_pad p) Hpad) as Hip. pose proof (j_int_nz (ps_len p) Hl) as Hli.
  unfold decode_dummy. cbn [j_obj obind].
  destruct (nz_int (ps_len p)) as [ld|] eqn:El; destruct (export_pad (ps_pad p)) as [pd|] eqn:Epd; cbn [opt_kv app]; jg;
    cbn [j_str j_obj j_bool obind]; rewrite Hli; cbn [obind]; try rewrite Hip; try (rewrite Hip at 1); cbn [obind j_obj import_pad]; try reflexivity.
  all: subst; try reflexivity.
Qed.

Lemma import_prim p d : exportable_pspec p -> export_field (FPrim p) = Ok d -> forall f, import_field (S f) d = Ok (SFPrim p).
Proof.
  intros Hx Hd f. destruct (export_prim p Hx) as (d' & en & Hen & Hd' & Hdd). assert (d' = d) by congruence. subst d'.
  destruct Hx as (He & Hp & Hk & Hpk & Hl & Hpad). destruct (enc_of_name_roundtrip _ He) as (en' & Hen' & Hof). assert (en' = en) by congruence. subst en'.
  cbn [import_field]. rewrite Hdd. cbn [obind d_isnull d_len d_pref d_subs d_enc d_type d_pad].
  replace (ps_len p <? 0) with false by lia. rewrite (pref_of_name_roundtrip _ Hp), Hof.
  destruct p as [k e pf l pad pk]. cbn [ps_kind ps_enc ps_pref ps_len ps_pad ps_packer] in *. subst pk.
  destruct k; try contradiction; reflexivity.
Qed.

(* ---------------- whole trees ---------------- *)
(* the imported form of a field specification *)
Fixpoint embed (s : fspec) : sfield :=
  match s with
  | FPrim p => SFPrim p
  | FComp pref len mode subs =>
      SFComp pref len PadNone (Some mode) ((fix go (l : list (bytes * fspec)) : list (bytes * sfield) :=
                                              match l with [] => [] | (t, s') :: r => (t, embed s') :: go r end) subs)
  end.
Fixpoint embed_subs (l : list (bytes * fspec)) : list (bytes * sfield) :=
  match l with [] => [] | (t, s') :: r => (t, embed s') :: embed_subs r end.
Fixpoint export_subs (l : list (bytes * fspec)) : outcome (list (bytes * jdoc)) :=
  match l with [] => Ok [] | (t, s') :: r => do d <- export_field s'; do ds <- export_subs r; Ok ((t, d) :: ds) end.

Definition pad_ascii (p : padder) : Prop := match p with PadNone => True | PadLeft c | PadRight c => bz c < 128 end.

(* what the JSON format can express: the exportable encodings and importable prefixes, lengths of the int range, one-byte
   ASCII pad characters; primitive kinds String / Numeric / Binary; composites with at least one subfield, no padding,
   and the tag or bitmap settings Spec.Validate accepts (a sort function with a name in the import table, no tag
   encoding only with no tag length, bitmaps without auto-expansion over positive numeric tags); SkipUnknownTLVTags and
   PrefUnknownTLV have no JSON form *)
Definition expr_mode (mode : cmode) (keys : list bytes) : Prop :=
  match mode with
  | CTag t => tg_skip t = false /\ tg_prefunk t = None /\ tg_sort t <> SortStrings /\ 0 <= tg_len t < two63 /\ pad_ascii (tg_pad t) /\
              match tg_enc t with None => tg_len t = 0 | Some e => In e exportable_encs end
  | CBitmap b => bm_auto b = false /\ In (bm_enc b) exportable_encs /\ In (bm_pref b) importable_prefs /\ 0 <= bm_len b < two63 /\
                 forallb (fun k => match atoi k with Some n => 0 <? n | None => false end) keys = true
  end.

Fixpoint expressible (s : fspec) : Prop :=
  match s with
  | FPrim p => exportable_pspec p
  | FComp pref len mode subs =>
      In pref importable_prefs /\ 0 <= len < two63 /\ subs <> [] /\ expr_mode mode (map fst subs) /\
      (fix go (l : list (bytes * fspec)) : Prop := match l with [] => True | (_, s') :: r => expressible s' /\ go r end) subs
  end.
Fixpoint expr_subs (l : list (bytes * fspec)) : Prop := match l with [] => True | (_, s') :: r => expressible s' /\ expr_subs r end.

(* nesting depth: ImportJSON's recursion (the model's fuel) *)
Fixpoint depth (s : fspec) : nat :=
  match s with
  | FPrim _ => 1%nat
  | FComp _ _ _ subs => S ((fix go (l : list (bytes * fspec)) : nat := match l with [] => 1%nat | (_, s') :: r => Nat.max (depth s') (go r) end) subs)
  end.
Fixpoint depth_subs (l : list (bytes * fspec)) : nat := match l with [] => 1%nat | (_, s') :: r => Nat.max (depth s') (depth_subs r) end.

Lemma import_bitmap b bd : In (bm_enc b) exportable_encs -> In (bm_pref b) importable_prefs -> 0 <= bm_len b < two63 ->
  export_bitmap b = Ok bd -> forall f, import_field (S f) bd = Ok (SFBitmap b) /\ bd <> JNull.
Proof.
  intros He Hp Hl Hd f. destruct (enc_of_name_roundtrip _ He) as (en & Hen & Hof). unfold export_bitmap in Hd. rewrite Hen in Hd.
  pose proof (j_int_nz (bm_len b) Hl) as Hli.
  assert (bd = JO ([(Q "type", JS (Q "Bitmap"))] ++ opt_kv (Q "length") (nz_int (bm_len b)) ++ [(Q "enc", JS en); (Q "prefix", JS (pref_name (bm_pref b)))] ++
                    opt_kv (Q "disableAutoExpand") (if bm_auto b then None else Some (JB true)))) by congruence. subst bd. clear Hd.
  split; [|discriminate]. cbn [import_field]. unfold decode_dummy. cbn [j_obj obind].
  destruct b as [bl ba be bp]. cbn [bm_len bm_auto bm_enc bm_pref] in *.
  destruct (nz_int bl) as [ld|] eqn:El; destruct ba; cbn [opt_kv app]; jg; cbn [j_str j_obj j_bool obind import_pad]; rewrite Hli;
    cbn [obind d_isnull d_len d_pref d_subs d_enc d_type d_dae]; replace (bl <? 0) with false by lia; rewrite (pref_of_name_roundtrip _ Hp), Hof; keys; reflexivity.
Qed.

(* the "tag" member *)
Lemma decode_tag tl (en : option bytes) tp ts : 0 <= tl < two63 -> pad_ascii tp ->
  let tk := opt_kv (Q "length") (nz_int tl) ++ opt_kv (Q "enc") (match en with Some n => Some (JS n) | None => None end) ++
            opt_kv (Q "padding") (export_pad tp) ++ [(Q "sort", JS ts)] in
  (do tl' <- j_int (jget (Q "length") tk); do te <- j_str (jget (Q "enc") tk);
   do tp' <- import_pad (jget (Q "padding") tk); do ts' <- j_str (jget (Q "sort") tk);
   Ok (Some (tl', te, tp', ts'))) = Ok (Some (tl, match en with Some n => n | None => [] end, tp, ts)).
Proof.
  intros Hl Hpad. pose proof (import_export_pad tp Hpad) as Hip. pose proof (j_int_nz tl Hl) as Hli. cbv zeta.
  destruct (nz_int tl) as [ld|] eqn:El; destruct en as [n|]; destruct (export_pad tp) as [pd|] eqn:Epd; cbn [opt_kv app]; jg;
    cbn [j_str obind]; rewrite Hli; cbn [obind]; try rewrite Hip; cbn [obind j_obj import_pad]; subst; reflexivity.
Qed.

Lemma export_field_comp pref len mode subs : export_field (FComp pref len mode subs) =
  (do subdocs <- export_subs subs;
   do modekv <- match mode with
                | CTag t =>
                    match (match tg_enc t with None => Some None | Some e => option_map Some (enc_ext_name e) end) with
                    | None => Err (Q "export.unknown_encoding")
                    | Some en =>
                        Ok [(Q "tag", JO (opt_kv (Q "length") (nz_int (tg_len t)) ++ opt_kv (Q "enc") (match en with Some n => Some (JS n) | None => None end)
                                          ++ opt_kv (Q "padding") (export_pad (tg_pad t)) ++ [(Q "sort", JS (sort_name (tg_sort t)))]))]
                    end
                | CBitmap b => do bd <- export_bitmap b; Ok [(Q "bitmap", bd)]
                end;
   Ok (JO ([(Q "type", JS (Q "Composite"))] ++ opt_kv (Q "length") (nz_int len) ++ [(Q "prefix", JS (pref_name pref))]
           ++ (match modekv with [(k, v)] => if bytes_eqb k (Q "tag") then [(k, v)] else [] | _ => [] end)
           ++ [(Q "subfields", JO subdocs)]
           ++ (match modekv with [(k, v)] => if bytes_eqb k (Q "bitmap") then [(k, v)] else [] | _ => [] end)))).
Proof.
  cbn [export_field].
  assert (H : (fix go (l : list (bytes * fspec)) : outcome (list (bytes * jdoc)) :=
                 match l with [] => Ok [] | (t, s') :: r => do d <- export_field s'; do ds <- go r; Ok ((t, d) :: ds) end) subs = export_subs subs).
  { induction subs as [|(t, s') r IH]; [reflexivity|]. cbn [export_subs]. rewrite IH. reflexivity. }
  rewrite H. reflexivity.
Qed.
Lemma embed_comp pref len mode subs : embed (FComp pref len mode subs) = SFComp pref len PadNone (Some mode) (embed_subs subs).
Proof.
  cbn [embed].
  assert (H : (fix go (l : list (bytes * fspec)) : list (bytes * sfield) := match l with [] => [] | (t, s') :: r => (t, embed s') :: go r end) subs = embed_subs subs).
  { induction subs as [|(t, s') r IH]; [reflexivity|]. cbn [embed_subs]. rewrite IH. reflexivity. }
  rewrite H. reflexivity.
Qed.
Lemma expressible_comp pref len mode subs : expressible (FComp pref len mode subs) <->
  In pref importable_prefs /\ 0 <= len < two63 /\ subs <> [] /\ expr_mode mode (map fst subs) /\ expr_subs subs.
Proof.
  cbn [expressible]. assert (H : (fix go (l : list (bytes * fspec)) : Prop := match l with [] => True | (_, s') :: r => expressible s' /\ go r end) subs <-> expr_subs subs).
  { induction subs as [|(t, s') r IH]; [reflexivity|]. cbn [expr_subs]. rewrite IH. reflexivity. }
  rewrite H. reflexivity.
Qed.
Lemma depth_comp pref len mode subs : depth (FComp pref len mode subs) = S (depth_subs subs).
Proof.
  cbn [depth].
  assert (H : (fix go (l : list (bytes * fspec)) : nat := match l with [] => 1%nat | (_, s') :: r => Nat.max (depth s') (go r) end) subs = depth_subs subs).
  { induction subs as [|(t, s') r IH]; [reflexivity|]. cbn [depth_subs]. rewrite IH. reflexivity. }
  rewrite H. reflexivity.
Qed.

Definition type_name (s : fspec) : bytes := match s with FPrim p => kind_name (ps_kind p) | FComp _ _ _ _ => Q "Composite" end.

Lemma jto_null : forall fuel, json_types_ok fuel JNull = true.
Proof. induction fuel as [|f IH]; [reflexivity|]. cbn [json_types_ok decode_dummy j_obj obind d_subs d_bitmap forallb andb]. exact IH. Qed.

Definition rt_field (s : fspec) : Prop :=
  expressible s -> forall d, export_field s = Ok d ->
    (forall fuel, (depth s <= fuel)%nat -> import_field fuel d = Ok (embed s)) /\
    (exists dm, decode_dummy d = Ok dm /\ known_type (d_type dm) = true /\ d_type dm = type_name s) /\
    (forall fuel, json_types_ok fuel d = true).

(* the subfields of one composite *)
Lemma import_subs_rt f : forall l ds, (forall tag s', In (tag, s') l -> rt_field s') -> expr_subs l -> (depth_subs l <= f)%nat ->
  export_subs l = Ok ds -> import_subs (import_field f) ds = Ok (embed_subs l) /\ map fst ds = map fst l.
Proof.
  induction l as [|(t, s') r IH]; intros ds Hrt Hx Hd He; cbn [export_subs] in He.
  - assert (ds = []) by congruence. subst. split; reflexivity.
  - destruct Hx as (Hx1 & Hx2). cbn [depth_subs] in Hd.
    destruct (export_field s') as [d| | |] eqn:Ed; cbn [obind] in He; try discriminate.
    destruct (export_subs r) as [ds'| | |] eqn:Er; cbn [obind] in He; try discriminate.
    assert (ds = (t, d) :: ds') by congruence. subst ds. clear He.
    destruct (Hrt t s' (or_introl eq_refl) Hx1 d Ed) as (Himp & (dm & Hdm & Hkt & _) & Hjt).
    destruct (IH ds' (fun tag s0 Hi => Hrt tag s0 (or_intror Hi)) Hx2 ltac:(lia) eq_refl) as (Hr & Hk).
    cbn [import_subs]. rewrite (Himp f) by lia. cbn [obind]. rewrite Hdm. cbn [obind]. rewrite Hkt. cbn [negb]. rewrite Hr. cbn [obind embed_subs map fst].
    split; [reflexivity|]. rewrite Hk; reflexivity.
Qed.

Lemma subs_types_ok : forall l ds, (forall tag s', In (tag, s') l -> rt_field s') -> expr_subs l -> export_subs l = Ok ds ->
  forall fuel, forallb (fun kv => json_types_ok fuel (snd kv)) ds = true.
Proof.
  induction l as [|(t, s') r IH]; intros ds Hrt Hx He fuel; cbn [export_subs] in He.
  - assert (ds = []) by congruence. subst. reflexivity.
  - destruct Hx as (Hx1 & Hx2).
    destruct (export_field s') as [d| | |] eqn:Ed; cbn [obind] in He; try discriminate.
    destruct (export_subs r) as [ds'| | |] eqn:Er; cbn [obind] in He; try discriminate.
    assert (ds = (t, d) :: ds') by congruence. subst ds. clear He.
    destruct (Hrt t s' (or_introl eq_refl) Hx1 d Ed) as (_ & _ & Hjt).
    cbn [forallb snd]. rewrite Hjt, (IH ds' (fun tag s0 Hi => Hrt tag s0 (or_intror Hi)) Hx2 eq_refl). reflexivity.
Qed.

Lemma bitmap_types_ok b bd : In (bm_enc b) exportable_encs -> 0 <= bm_len b < two63 -> export_bitmap b = Ok bd ->
  forall fuel, json_types_ok fuel bd = true.
Proof.
  intros He Hl Hd [|f]; [reflexivity|]. destruct (enc_of_name_roundtrip _ He) as (en & Hen & Hof). unfold export_bitmap in Hd. rewrite Hen in Hd.
  pose proof (j_int_nz (bm_len b) Hl) as Hli.
  assert (bd = JO ([(Q "type", JS (Q "Bitmap"))] ++ opt_kv (Q "length") (nz_int (bm_len b)) ++ [(Q "enc", JS en); (Q "prefix", JS (pref_name (bm_pref b)))] ++
                    opt_kv (Q "disableAutoExpand") (if bm_auto b then None else Some (JB true)))) by congruence. subst bd. clear Hd.
  cbn [json_types_ok]. unfold decode_dummy. cbn [j_obj obind].
  destruct (nz_int (bm_len b)) as [ld|] eqn:El; destruct (bm_auto b); cbn [opt_kv app]; jg; cbn [j_str j_obj j_bool obind import_pad]; rewrite Hli;
    cbn [obind d_subs d_bitmap forallb andb]; apply jto_null.
Qed.

Lemma depth_subs_pos l : (1 <= depth_subs l)%nat.
Proof. induction l as [|(t, s') r IH]; cbn [depth_subs]; lia. Qed.

Lemma sort_name_rt s : s <> SortStrings -> sort_of_name (sort_name s) = Some s.
Proof. destruct s; intros H; try contradiction; vm_compute; reflexivity. Qed.
Lemma enc_of_name_nil : enc_of_name [] = None.
Proof. vm_compute. reflexivity. Qed.

Theorem export_import_field s : rt_field s.
Proof.
  induction s as [p|pref len mode subs IH] using fspec_ind'.
  - intros Hx d Hd. split.
    + intros fuel Hf. cbn [depth] in Hf. destruct fuel as [|f]; [lia|]. apply import_prim; assumption.
    + destruct (export_prim p Hx) as (d' & en & _ & Hd' & Hdd). assert (d' = d) by congruence. subst d'.
      split.
      * eexists. split; [exact Hdd|]. cbn [d_type]. split; [|reflexivity]. apply kind_name_known. destruct Hx as (_ & _ & Hk & _). exact Hk.
      * intros [|f]; [reflexivity|]. cbn [json_types_ok]. rewrite Hdd. cbn [d_subs d_bitmap forallb andb]. apply jto_null.
  - intros Hx d Hd. apply expressible_comp in Hx. destruct Hx as (Hpref & Hlen & Hne & Hmode & Hsubs).
    rewrite export_field_comp in Hd.
    destruct (export_subs subs) as [subdocs| | |] eqn:Esubs; cbn [obind] in Hd; try discriminate.
    pose proof (j_int_nz len Hlen) as Hli.
    assert (Hsd : subdocs <> []).
    { destruct subs as [|(t0, s0) r]; [contradiction|]. cbn [export_subs] in Esubs.
      destruct (export_field s0); cbn [obind] in Esubs; try discriminate. destruct (export_subs r); cbn [obind] in Esubs; try discriminate.
      intros ->. discriminate. }
    destruct mode as [t|b]; cbn [expr_mode] in Hmode.
    + (* tagged / positional *)
      destruct Hmode as (Hskip & Hunk & Hsort & Htl & Htpad & Htenc).
      set (en := match tg_enc t with None => Some None | Some e => option_map Some (enc_ext_name e) end) in *.
      assert (Hen : exists eo, en = Some eo /\ enc_of_name (match eo with Some n => n | None => [] end) = tg_enc t /\
                               (tg_enc t = None -> eo = None)).
      { unfold en. destruct (tg_enc t) as [e|] eqn:Ete.
        - destruct (enc_of_name_roundtrip _ Htenc) as (n & Hn & Hof). rewrite Hn. exists (Some n). repeat split; [exact Hof|discriminate].
        - exists None. split; [reflexivity|]. split; [apply enc_of_name_nil|reflexivity]. }
      destruct Hen as (eo & Heo & Hof & Hnone). rewrite Heo in Hd. cbn [obind] in Hd. revert Hd. keys. cbv iota. intros Hd.
      assert (Hd' : d = JO ([(Q "type", JS (Q "Composite"))] ++ opt_kv (Q "length") (nz_int len) ++ [(Q "prefix", JS (pref_name pref))] ++
                            [(Q "tag", JO (opt_kv (Q "length") (nz_int (tg_len t)) ++ opt_kv (Q "enc") (match eo with Some n => Some (JS n) | None => None end) ++
                                           opt_kv (Q "padding") (export_pad (tg_pad t)) ++ [(Q "sort", JS (sort_name (tg_sort t)))]))] ++
                            [(Q "subfields", JO subdocs)] ++ [])) by congruence.
      clear Hd. pose proof (decode_tag (tg_len t) eo (tg_pad t) (sort_name (tg_sort t)) Htl Htpad) as Htag. cbv zeta in Htag.
      assert (Hdd : decode_dummy d = Ok {| d_type := Q "Composite"; d_len := len; d_enc := []; d_pref := pref_name pref; d_pad := PadNone;
                                           d_tag := Some (tg_len t, match eo with Some n => n | None => [] end, tg_pad t, sort_name (tg_sort t));
                                           d_subs := subdocs; d_bitmap := JNull; d_dae := false; d_isnull := false |}).
      { subst d. unfold decode_dummy. cbn [j_obj obind].
        destruct (nz_int len) as [ld|] eqn:El; cbn [opt_kv app]; jg; cbn [j_str j_obj j_bool obind import_pad]; rewrite Hli; cbn [obind];
          rewrite Htag; cbn [obind]; reflexivity. }
      split; [|split; [eexists; split; [exact Hdd|split; reflexivity]|]].
      2: { intros [|f]; [reflexivity|]. cbn [json_types_ok]. rewrite Hdd. cbn [d_subs d_bitmap].
           rewrite (subs_types_ok subs subdocs IH Hsubs Esubs). apply jto_null. }
      intros fuel Hf. rewrite depth_comp in Hf. destruct fuel as [|f]; [lia|].
      destruct (import_subs_rt f subs subdocs IH Hsubs ltac:(lia) Esubs) as (Himp & Hkeys).
      cbn [import_field]. rewrite Hdd. cbn [obind d_isnull d_len d_pref d_subs d_enc d_type d_pad d_tag d_bitmap d_dae].
      replace (len <? 0) with false by lia. rewrite (pref_of_name_roundtrip _ Hpref).
      destruct subdocs as [|sd0 sdr]; [contradiction|]. rewrite Himp. cbn [obind]. rewrite Hof, (sort_name_rt _ Hsort). keys. cbn [andb].
      assert (Hval : composite_valid PadNone (Some (tg_len t, tg_enc t, tg_pad t, Some (tg_sort t))) None (map fst (sd0 :: sdr)) = true).
      { cbn [composite_valid]. destruct (tg_enc t); [reflexivity|]. rewrite Htenc. reflexivity. }
      rewrite Hval. cbn [negb andb]. rewrite embed_comp. f_equal. f_equal. f_equal. f_equal.
      destruct t as [tl te tp tsort tskip tunk]. cbn [tg_len tg_enc tg_pad tg_sort tg_skip tg_prefunk] in *. subst. reflexivity.
    + (* bitmap of subfields *)
      destruct Hmode as (Hauto & Hbe & Hbp & Hbl & Hkeysok).
      destruct (export_bitmap b) as [bd| | |] eqn:Ebd; cbn [obind] in Hd; try discriminate. revert Hd. keys. cbv iota. intros Hd.
      assert (Hd' : d = JO ([(Q "type", JS (Q "Composite"))] ++ opt_kv (Q "length") (nz_int len) ++ [(Q "prefix", JS (pref_name pref))] ++ [] ++
                            [(Q "subfields", JO subdocs)] ++ [(Q "bitmap", bd)])) by congruence.
      clear Hd.
      assert (Hdd : decode_dummy d = Ok {| d_type := Q "Composite"; d_len := len; d_enc := []; d_pref := pref_name pref; d_pad := PadNone; d_tag := None;
                                           d_subs := subdocs; d_bitmap := bd; d_dae := false; d_isnull := false |}).
      { subst d. unfold decode_dummy. cbn [j_obj obind].
        destruct (nz_int len) as [ld|] eqn:El; cbn [opt_kv app]; jg; cbn [j_str j_obj j_bool obind import_pad]; rewrite Hli; cbn [obind]; reflexivity. }
      split; [|split; [eexists; split; [exact Hdd|split; reflexivity]|]].
      2: { intros [|f]; [reflexivity|]. cbn [json_types_ok]. rewrite Hdd. cbn [d_subs d_bitmap].
           rewrite (subs_types_ok subs subdocs IH Hsubs Esubs). apply (bitmap_types_ok b bd Hbe Hbl Ebd). }
      intros fuel Hf. rewrite depth_comp in Hf. destruct fuel as [|f]; [lia|].
      destruct (import_subs_rt f subs subdocs IH Hsubs ltac:(lia) Esubs) as (Himp & Hkeys).
      assert (Hf1 : (1 <= f)%nat) by (pose proof (depth_subs_pos subs); lia).
      destruct f as [|f']; [lia|]. destruct (import_bitmap b bd Hbe Hbp Hbl Ebd f') as (Hib & Hnn). remember (S f') as f eqn:Ef. clear Ef.
      cbn [import_field]. rewrite Hdd. cbn [obind d_isnull d_len d_pref d_subs d_enc d_type d_pad d_tag d_bitmap d_dae].
      replace (len <? 0) with false by lia. rewrite (pref_of_name_roundtrip _ Hpref).
      destruct subdocs as [|sd0 sdr]; [contradiction|]. rewrite Himp. cbn [obind].
      destruct bd as [x|x|x|x|]; try contradiction; rewrite Hib; cbn [obind]; keys; cbn [andb];
        (assert (Hval : composite_valid PadNone None (Some b) (map fst (sd0 :: sdr)) = true) by (cbn [composite_valid]; rewrite Hauto, Hkeys, Hkeysok; reflexivity));
        rewrite Hval; cbn [negb andb]; rewrite embed_comp; reflexivity.
Qed.

(* ---------------- whole message specifications ---------------- *)
Lemma decode_bitmap b bd : In (bm_enc b) exportable_encs -> 0 <= bm_len b < two63 -> export_bitmap b = Ok bd ->
  exists dm, decode_dummy bd = Ok dm /\ d_type dm = Q "Bitmap".
Proof.
  intros He Hl Hd. destruct (enc_of_name_roundtrip _ He) as (en & Hen & Hof). unfold export_bitmap in Hd. rewrite Hen in Hd.
  pose proof (j_int_nz (bm_len b) Hl) as Hli.
  assert (bd = JO ([(Q "type", JS (Q "Bitmap"))] ++ opt_kv (Q "length") (nz_int (bm_len b)) ++ [(Q "enc", JS en); (Q "prefix", JS (pref_name (bm_pref b)))] ++
                    opt_kv (Q "disableAutoExpand") (if bm_auto b then None else Some (JB true)))) by congruence. subst bd. clear Hd.
  unfold decode_dummy. cbn [j_obj obind].
  destruct (nz_int (bm_len b)) as [ld|] eqn:El; destruct (bm_auto b); cbn [opt_kv app]; jg; cbn [j_str j_obj j_bool obind import_pad]; rewrite Hli;
    cbn [obind]; eexists; split; reflexivity.
Qed.

Definition keyed (fields : list (Z * fspec)) : list (bytes * fspec) := map (fun '(id, s) => (itoa id, s)) fields.

Lemma export_spec_unfold S : export_spec S =
  (do mti <- export_field (FPrim (ms_mti S)); do bm <- export_bitmap (ms_bm S); do fl <- export_subs (keyed (ms_fields S));
   Ok (JO [(Q "name", JS (Q "gen")); (Q "fields", JO ((Q "0", mti) :: (Q "1", bm) :: fl))])).
Proof.
  unfold export_spec.
  assert (H : (fix go (l : list (Z * fspec)) : outcome (list (bytes * jdoc)) :=
                 match l with [] => Ok [] | (id, s) :: r => do d <- export_field s; do ds <- go r; Ok ((itoa id, d) :: ds) end) (ms_fields S) = export_subs (keyed (ms_fields S))).
  { generalize (ms_fields S). intros l. induction l as [|(id, s) r IH]; [reflexivity|]. cbn [keyed map export_subs]. fold (keyed r). rewrite IH. reflexivity. }
  rewrite H. reflexivity.
Qed.

Definition imported (fields : list (Z * fspec)) : list (Z * (bytes * sfield)) := map (fun '(id, s) => (id, (type_name s, embed s))) fields.

Lemma import_fields_rt : forall fields ds,
  (forall id s, In (id, s) fields -> 0 <= id <= max_int /\ expressible s /\ (depth s <= 8)%nat) ->
  export_subs (keyed fields) = Ok ds -> import_fields ds = Ok (imported fields).
Proof.
  induction fields as [|(id, s) r IH]; intros ds Hf He; cbn [keyed map export_subs] in He.
  - assert (ds = []) by congruence. subst. reflexivity.
  - fold (keyed r) in He. destruct (export_field s) as [d| | |] eqn:Ed; cbn [obind] in He; try discriminate.
    destruct (export_subs (keyed r)) as [ds'| | |] eqn:Er; cbn [obind] in He; try discriminate.
    assert (ds = (itoa id, d) :: ds') by congruence. subst ds. clear He.
    destruct (Hf id s (or_introl eq_refl)) as (Hid & Hx & Hdp).
    destruct (export_import_field s Hx d Ed) as (Himp & (dm & Hdm & Hkt & Hty) & _).
    cbn [import_fields]. destruct (itoa_atoi id Hid) as (Ha & _). rewrite Ha, (Himp 8%nat Hdp). cbn [obind]. rewrite Hdm. cbn [obind]. rewrite Hkt. cbn [negb].
    rewrite (IH ds' (fun id0 s0 Hi => Hf id0 s0 (or_intror Hi)) eq_refl). cbn [obind imported map]. rewrite Hty. reflexivity.
Qed.

Theorem export_import_spec S d :
  exportable_pspec (ms_mti S) -> In (bm_enc (ms_bm S)) exportable_encs -> In (bm_pref (ms_bm S)) importable_prefs -> 0 <= bm_len (ms_bm S) < two63 ->
  (forall id s, In (id, s) (ms_fields S) -> 0 <= id <= max_int /\ expressible s /\ (depth s <= 8)%nat) ->
  export_spec S = Ok d ->
  import_spec d = Ok ((0, (kind_name (ps_kind (ms_mti S)), SFPrim (ms_mti S))) :: (1, (Q "Bitmap", SFBitmap (ms_bm S))) :: imported (ms_fields S)).
Proof.
  intros Hmti Hbe Hbp Hbl Hf Hd. rewrite export_spec_unfold in Hd.
  destruct (export_field (FPrim (ms_mti S))) as [md| | |] eqn:Emd; cbn [obind] in Hd; try discriminate.
  destruct (export_bitmap (ms_bm S)) as [bd| | |] eqn:Ebd; cbn [obind] in Hd; try discriminate.
  destruct (export_subs (keyed (ms_fields S))) as [fl| | |] eqn:Efl; cbn [obind] in Hd; try discriminate.
  assert (d = JO [(Q "name", JS (Q "gen")); (Q "fields", JO ((Q "0", md) :: (Q "1", bd) :: fl))]) by congruence. subst d. clear Hd.
  destruct (export_import_field (FPrim (ms_mti S)) Hmti md Emd) as (Himp & (dm & Hdm & Hkt & Hty) & Hjt).
  destruct (import_bitmap (ms_bm S) bd Hbe Hbp Hbl Ebd 7%nat) as (Hib & _).
  destruct (decode_bitmap (ms_bm S) bd Hbe Hbl Ebd) as (bdm & Hbdm & Hbty).
  assert (Hx : expr_subs (keyed (ms_fields S))).
  { clear -Hf. revert Hf. generalize (ms_fields S). intros l Hf. induction l as [|(id, s) r IH]; [exact I|]. cbn [keyed map expr_subs]. split; [apply (Hf id s (or_introl eq_refl))|].
    apply IH. intros id0 s0 Hi. apply Hf. right. exact Hi. }
  unfold import_spec. jg.
  assert (Hj : forall f, json_types_ok (Datatypes.S f) (JO [(Q "subfields", JO ((Q "0", md) :: (Q "1", bd) :: fl)); (Q "prefix", JS (Q "x"))]) = true).
  { intros f. cbn [json_types_ok]. unfold decode_dummy at 1. cbn [j_obj obind]. jg. cbn [j_str j_int j_obj j_bool obind import_pad d_subs d_bitmap forallb snd].
    rewrite Hjt, (bitmap_types_ok _ _ Hbe Hbl Ebd), (subs_types_ok (keyed (ms_fields S)) fl (fun tag s' _ => export_import_field s') Hx Efl). apply jto_null. }
  rewrite Hj. cbn [negb j_str j_obj obind].
  cbn [import_fields]. change (atoi (Q "0")) with (Some 0). change (atoi (Q "1")) with (Some 1).
  rewrite (Himp 8%nat ltac:(cbn; lia)). cbn [obind embed]. rewrite Hdm. cbn [obind]. rewrite Hkt. cbn [negb].
  rewrite Hib. cbn [obind]. rewrite Hbdm. cbn [obind]. rewrite Hbty. change (known_type (Q "Bitmap")) with true. cbn [negb].
  rewrite (import_fields_rt (ms_fields S) fl Hf Efl). cbn [obind]. rewrite Hty. reflexivity.
Qed.

(* exporting the re-imported specification gives the identical document: the imported rows are the specification
   itself (embed is injective), so there is nothing else to export *)
Lemma embed_inj : forall s s', embed s = embed s' -> s = s'.
Proof.
  induction s as [p|pref len mode subs IH] using fspec_ind'; intros [p'|pref' len' mode' subs'] H; try discriminate.
  - cbn [embed] in H. congruence.
  - rewrite !embed_comp in H. injection H as -> -> -> Hs. f_equal.
    revert subs' Hs. induction subs as [|(t, s1) r IHr]; intros [|(t', s1') r'] Hs; try discriminate; [reflexivity|].
    cbn [embed_subs] in Hs. injection Hs as -> He Hr. f_equal.
    + f_equal. apply (IH t' s1 (or_introl eq_refl)). exact He.
    + apply IHr; [|exact Hr]. intros tag s0 Hi. apply (IH tag s0). right. exact Hi.
Qed.

(* the rows ImportJSON returns for the export of S *)
Definition spec_rows (S : mspec) : list (Z * (bytes * sfield)) :=
  (0, (kind_name (ps_kind (ms_mti S)), SFPrim (ms_mti S))) :: (1, (Q "Bitmap", SFBitmap (ms_bm S))) :: imported (ms_fields S).

Lemma imported_inj : forall l l', imported l = imported l' -> l = l'.
Proof.
  induction l as [|(id, s) r IH]; intros [|(id', s') r'] H; try discriminate; [reflexivity|].
  cbn [imported map] in H. injection H as -> _ He Hr. f_equal; [f_equal; apply embed_inj; exact He|apply IH; exact Hr].
Qed.

Theorem spec_rows_inj S S' : spec_rows S = spec_rows S' -> S = S'.
Proof.
  destruct S as [m b f], S' as [m' b' f']. unfold spec_rows. cbn. intros H. injection H as _ Hm Hb Hf. apply imported_inj in Hf. subst. reflexivity.
Qed.
